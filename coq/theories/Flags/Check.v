(* Flags/Check.v — the theorems over the REGENERATED table Flags/Generated.v
   (registry of Go functions with their declared compliance flags, call graph,
   sinks).  Re-checked by coqc on every run of ./check C08 against what
   /repo's source says now.  A function wrongly declared iosafe makes
   [table_ok] fail to compile (the check then names the row and its path). *)
From Coq Require Import List String PArith NArith Bool Arith.
From GV Require Import Flags.Reach Flags.Generated.
Import ListNotations.

Definition row := (string * string * positive * N)%type.
Definition row_root (r : row) : positive := snd (fst r).
Definition row_flags (r : row) : N := snd r.
(* ComplyIoSafe = 1 << 2 *)
Definition iosafe (fl : N) : bool := N.testbit fl 2.

Definition checked_roots : list positive :=
  map row_root (filter (fun r => iosafe (row_flags r)) registry).

Lemma table_ok : no_path_b graph checked_roots sinks = true.
Proof. vm_compute. reflexivity. Qed.

Lemma resolved_ok : unresolved = [].
Proof. reflexivity. Qed.

(* every function declared iosafe reaches no sink: no exception list *)
Theorem iosafe_functions_reach_no_sink :
  forall go lua root fl, In (go, lua, root, fl) registry ->
  N.testbit fl 2 = true ->
  forall s, In s sinks -> ~ path graph root s.
Proof.
  intros go lua root fl Hin Hio s Hs.
  apply (no_path_sound graph checked_roots sinks table_ok); [|exact Hs].
  unfold checked_roots. apply in_map_iff. exists (go, lua, root, fl). split; [reflexivity|].
  apply filter_In. split; [exact Hin|].
  unfold row_flags, iosafe; cbn [fst snd]. exact Hio.
Qed.

(* the statement is not vacuous: there are rows declared iosafe, sinks, and edges *)
Lemma table_nonvacuous :
  (0 <? List.length checked_roots)%nat && (0 <? List.length sinks)%nat && (0 <? List.length graph)%nat = true.
Proof. vm_compute. reflexivity. Qed.

Definition checked_root_count : nat := List.length checked_roots.
Definition registry_count : nat := List.length registry.
