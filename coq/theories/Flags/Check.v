(* Flags/Check.v — the theorems over the REGENERATED table Flags/Generated.v
   (registry of Go functions with their declared compliance flags, call graph,
   sinks).  Re-checked by coqc on every run of ./check C08 against what
   /repo's source says now.  A function wrongly declared iosafe makes
   [table_ok] fail to compile. *)
From Coq Require Import List String PArith NArith Bool.
From GV Require Import Flags.Reach Flags.Generated.
Import ListNotations.

Definition row := (string * string * positive * N)%type.
Definition row_root (r : row) : positive := snd (fst r).
Definition row_flags (r : row) : N := snd r.
(* ComplyIoSafe = 1 << 2 *)
Definition iosafe (fl : N) : bool := N.testbit fl 2.

Definition is_known (n : positive) : bool :=
  existsb (fun k => Pos.eqb (fst k) n) known_exceptions.

Definition checked_roots : list positive :=
  map row_root (filter (fun r => iosafe (row_flags r) && negb (is_known (row_root r))) registry).

Lemma table_ok : no_path_b graph checked_roots sinks = true.
Proof. vm_compute. reflexivity. Qed.

Lemma known_ok :
  forallb (fun k => witness_ok graph sinks k &&
                    existsb (fun r => Pos.eqb (row_root r) (fst k) && iosafe (row_flags r)) registry)
          known_exceptions = true.
Proof. vm_compute. reflexivity. Qed.

Lemma resolved_ok : unresolved = [].
Proof. reflexivity. Qed.

Theorem iosafe_functions_reach_no_sink_partial :
  forall go lua root fl, In (go, lua, root, fl) registry ->
  N.testbit fl 2 = true -> is_known root = false ->
  forall s, In s sinks -> ~ path graph root s.
Proof.
  intros go lua root fl Hin Hio Hk s Hs.
  apply (no_path_sound graph checked_roots sinks table_ok); [|exact Hs].
  unfold checked_roots. apply in_map_iff. exists (go, lua, root, fl). split; [reflexivity|].
  apply filter_In. split; [exact Hin|].
  unfold row_flags, row_root, iosafe; cbn [fst snd]. now rewrite Hio, Hk.
Qed.

Theorem known_exceptions_refuted :
  forall k, In k known_exceptions ->
  (exists r, In r registry /\ row_root r = fst k /\ N.testbit (row_flags r) 2 = true) /\
  exists s, In s sinks /\ path graph (fst k) s.
Proof.
  intros k Hk. pose proof known_ok as H. rewrite forallb_forall in H. specialize (H k Hk).
  apply andb_true_iff in H. destruct H as [H1 H2]. split.
  - apply existsb_exists in H2. destruct H2 as (r & Hr & E). apply andb_true_iff in E. destruct E as [E1 E2].
    apply Pos.eqb_eq in E1. exists r; auto.
  - now apply witness_sound.
Qed.

(* how much is excepted: with an empty list the _partial theorem is the full statement *)
Definition known_exception_count : nat := List.length known_exceptions.
Definition checked_root_count : nat := List.length checked_roots.
Definition registry_count : nat := List.length registry.
