(* Flags/Gate.v — the compliance-flag gate.

   Mirrors, line by line:
     runtime/gocont.go            GoCont.RunInThread   (first statements)
     runtime/runtimecontextmanager.go  CheckRequiredFlags, RequiredFlags
     runtime/runtimecontext.go    ComplianceFlags.Names
     safeio/file.go               OpenFile / TempFile / RemoveFile / RenameFile
   The context manager (type of contexts, its requiredFlags, RequireCPU), the
   Go function's body, the Lua-visible state and the world outside the process
   are Section variables: the theorems hold for ANY body and any manager.
   Flags/Nesting.v instantiates the manager with GV.Ctx.Model (C07's model). *)
From Coq Require Import ZArith NArith List Bool String.
Import ListNotations.

(* ComplyIoSafe = 1 << 2 *)
Definition F_IO : N := 4.

(* ---- ComplianceFlags.Names(): for i = 1; i < complyflagsLimit; i <<= 1 ---- *)
Definition flag_names : list (N * string) :=
  [(1%N, "memsafe"%string); (2%N, "cpusafe"%string); (4%N, "iosafe"%string); (8%N, "timesafe"%string)].
Definition names (f : N) : list string :=
  map snd (filter (fun p => negb (N.eqb (N.land (fst p) f) 0)) flag_names).
(* fmt.Errorf("missing flags: %s", strings.Join(missingFlags.Names(), " ")) *)
Definition missing_msg (missing : N) : string :=
  ("missing flags: " ++ String.concat " " (names missing))%string.

(* missingFlags := m.requiredFlags &^ flags *)
Definition missing (required declared : N) : N := N.ldiff required declared.

Section Gate.
  Variable ctx : Type.     (* the runtime context manager's state *)
  Variable flags : ctx -> N.        (* runtimeContextManager.requiredFlags *)
  Variable term : Type.             (* reason of a ContextTerminationError *)
  (* t.RequireCPU(1): completes, or panics with a termination error, or with a Go panic *)
  Inductive r1 := ROk (c : ctx) | RTerm (c : ctx) (t : term) | RPanic (c : ctx).
  Variable requireCPU : Z -> Z -> ctx -> r1.
  Variable Lua : Type.     (* everything the Lua program can observe inside the runtime *)
  Variable World : Type.   (* everything outside: files, processes, plugins, network *)

  Inductive outcome :=
  | Returned                         (* body returned a continuation *)
  | LuaError (msg : string)          (* an ordinary error value: catchable by pcall *)
  | Terminated (t : term)            (* ContextTerminationError panic (quota) *)
  | GoPanic.

  Record gofunction := mkGoFunction {
    declared : N;          (* GoFunction.safetyFlags *)
    body : ctx -> Lua -> World -> outcome * ctx * Lua * World
  }.

  Definition maxGoFunctionCallDepth : Z := 1000.

  (* GoCont.RunInThread, with t.goFunctionCallDepth as [depth] *)
  Definition run_in_thread (now : Z) (depth : Z) (f : gofunction) (c : ctx) (l : Lua) (w : World)
    : outcome * ctx * Lua * World :=
    let missingFlags := missing (flags c) (declared f) in
    if negb (N.eqb missingFlags 0) then (LuaError (missing_msg missingFlags), c, l, w) else
    match requireCPU now 1 c with
    | RTerm c1 t => (Terminated t, c1, l, w)
    | RPanic c1 => (GoPanic, c1, l, w)
    | ROk c1 =>
      if (maxGoFunctionCallDepth <? depth + 1)%Z then (LuaError "stack overflow", c1, l, w)
      else body f c1 l w
    end.

  (* The same function with t.goFunctionCallDepth made explicit as thread state: the gate returns BEFORE
     the increment; past the gate the counter is incremented and the deferred decrement runs on every
     path (return, error, panic).  Second component = the counter after the call. *)
  Definition run_in_thread_depth (now : Z) (depth : Z) (f : gofunction) (c : ctx) (l : Lua) (w : World)
    : (outcome * ctx * Lua * World) * Z :=
    let missingFlags := missing (flags c) (declared f) in
    if negb (N.eqb missingFlags 0) then ((LuaError (missing_msg missingFlags), c, l, w), depth) else
    match requireCPU now 1 c with
    | RTerm c1 t => ((Terminated t, c1, l, w), depth)
    | RPanic c1 => ((GoPanic, c1, l, w), depth)
    | ROk c1 =>
      let d1 := (depth + 1)%Z in
      let res := if (maxGoFunctionCallDepth <? d1)%Z then (LuaError "stack overflow", c1, l, w) else body f c1 l w in
      (res, (d1 - 1)%Z)
    end.

  (* safeio.*: if r.RequiredFlags()&rt.ComplyIoSafe != 0 { return ErrNotAllowed } ; return os.X(...) *)
  Inductive io_result (A : Type) := NotAllowed | Performed (a : A).
  Definition safeio (A : Type) (c : ctx) (prim : World -> A * World) (w : World) : io_result A * World :=
    if negb (N.eqb (N.land (flags c) F_IO) 0) then (NotAllowed A, w)
    else let '(a, w') := prim w in (Performed A a, w').

  (* ------------------------------------------------------------------ *)

  Lemma ldiff_zero_iff : forall r d,
    N.ldiff r d = 0%N <-> forall i, N.testbit r i = true -> N.testbit d i = true.
  Proof.
    intros r d; split.
    - intros H i Hr. assert (E : N.testbit (N.ldiff r d) i = false) by (rewrite H; apply N.bits_0).
      rewrite N.ldiff_spec, Hr in E. destruct (N.testbit d i); [reflexivity|discriminate].
    - intros H. apply N.bits_inj_0. intros i. rewrite N.ldiff_spec.
      destruct (N.testbit r i) eqn:E; [|reflexivity]. now rewrite (H i E).
  Qed.

  (* The gate: a function that has not declared every required flag fails with
     an ordinary Lua error naming the missing flags; the context (status, used
     resources, flags), the Lua state and the world are exactly as before —
     the body was not entered and not even the CPU tick was charged. *)
  Theorem gate_blocks : forall now depth f c l w,
    missing (flags c) (declared f) <> 0%N ->
    run_in_thread now depth f c l w = (LuaError (missing_msg (missing (flags c) (declared f))), c, l, w).
  Proof.
    intros now depth f c l w H. unfold run_in_thread.
    destruct (N.eqb (missing (flags c) (declared f)) 0) eqn:E; [apply N.eqb_eq in E; contradiction|reflexivity].
  Qed.

  (* ... stated with the property's vocabulary: required ⊄ declared *)
  Theorem gate_blocks_subset : forall now depth f c l w i,
    N.testbit (flags c) i = true -> N.testbit (declared f) i = false ->
    exists msg, run_in_thread now depth f c l w = (LuaError msg, c, l, w).
  Proof.
    intros now depth f c l w i Hr Hd. eexists; apply gate_blocks.
    intros E. unfold missing in E. rewrite ldiff_zero_iff in E. rewrite (E i Hr) in Hd. discriminate.
  Qed.

  (* conversely the gate lets a compliant function through: the error is raised IFF required ⊄ declared *)
  Theorem gate_passes : forall now depth f c l w,
    missing (flags c) (declared f) = 0%N ->
    run_in_thread now depth f c l w =
      match requireCPU now 1 c with
      | RTerm c1 t => (Terminated t, c1, l, w)
      | RPanic c1 => (GoPanic, c1, l, w)
      | ROk c1 => if (maxGoFunctionCallDepth <? depth + 1)%Z then (LuaError "stack overflow", c1, l, w)
                  else body f c1 l w
      end.
  Proof. intros now depth f c l w H. unfold run_in_thread. rewrite H. reflexivity. Qed.

  (* the context keeps running: a blocked call followed by a compliant call
     behaves exactly like the compliant call alone *)
  Theorem blocked_call_is_invisible : forall now depth f g c l w,
    missing (flags c) (declared f) <> 0%N ->
    let '(_, c1, l1, w1) := run_in_thread now depth f c l w in
    run_in_thread now depth g c1 l1 w1 = run_in_thread now depth g c l w.
  Proof. intros now depth f g c l w H. rewrite gate_blocks by exact H. reflexivity. Qed.

  (* the Go call depth is the same after every call, rejected or not: any number of rejected
     calls leaves the thread exactly as able to call Go functions as before *)
  Theorem call_depth_balanced : forall now depth f c l w,
    snd (run_in_thread_depth now depth f c l w) = depth /\
    fst (run_in_thread_depth now depth f c l w) = run_in_thread now depth f c l w.
  Proof.
    intros now depth f c l w. unfold run_in_thread_depth, run_in_thread.
    destruct (negb (N.eqb (missing (flags c) (declared f)) 0)); [split; reflexivity|].
    destruct (requireCPU now 1 c); cbn [fst snd]; split; try reflexivity. apply Z.add_simpl_r.
  Qed.

  Fixpoint run_many (now : Z) (depth : Z) (fs : list gofunction) (c : ctx) (l : Lua) (w : World) : ctx * Lua * World * Z :=
    match fs with
    | [] => (c, l, w, depth)
    | f :: rest => let '((_, c1, l1, w1), d1) := run_in_thread_depth now depth f c l w in run_many now d1 rest c1 l1 w1
    end.

  (* any sequence of rejected calls, however long, changes nothing at all *)
  Theorem rejected_calls_change_nothing : forall now fs depth c l w,
    Forall (fun f => missing (flags c) (declared f) <> 0%N) fs ->
    run_many now depth fs c l w = (c, l, w, depth).
  Proof.
    intros now fs; induction fs as [|f rest IH]; intros depth c l w H; [reflexivity|].
    inversion H as [|? ? Hf Hr]; subst. cbn [run_many]. unfold run_in_thread_depth.
    destruct (N.eqb (missing (flags c) (declared f)) 0) eqn:E; [apply N.eqb_eq in E; contradiction|].
    cbn [negb]. apply IH. exact Hr.
  Qed.

  (* safeio refuses under iosafe and leaves the world untouched *)
  Theorem safeio_refuses : forall A c prim w,
    N.testbit (flags c) 2 = true -> safeio A c prim w = (NotAllowed A, w).
  Proof.
    intros A c prim w H. unfold safeio.
    destruct (N.eqb (N.land (flags c) F_IO) 0) eqn:E; [|reflexivity].
    apply N.eqb_eq in E. assert (B : N.testbit (N.land (flags c) F_IO) 2 = false) by (rewrite E; apply N.bits_0).
    rewrite N.land_spec, H in B. discriminate.
  Qed.

End Gate.

