(* Flags/Reach.v — a generic graph-reachability checker and its soundness.

   A graph is an association list [node -> successors] over [positive] node
   numbers (rows with the same key are merged).  [reach] is a fuelled
   depth-first search with a visited set; [no_path_b g roots sinks] answers
   [true] only if the search completed and no sink was visited.

   Soundness (no bound on the graph): [no_path_b g roots sinks = true] implies
   that there is NO path, of any length, from any root to any sink.
   [path_ok] validates a concrete witness path (used for known findings). *)
From Coq Require Import FSets.FMapPositive FSets.FSetPositive PArith List Bool.
Import ListNotations.

Definition graph := list (positive * list positive).
Definition adj := PositiveMap.t (list positive).

Definition succs (m : adj) (n : positive) : list positive :=
  match PositiveMap.find n m with Some l => l | None => [] end.

Definition add_row (m : adj) (row : positive * list positive) : adj :=
  PositiveMap.add (fst row) (snd row ++ succs m (fst row)) m.

Definition build (g : graph) : adj := fold_left add_row g (PositiveMap.empty _).

Definition edge (g : graph) (a b : positive) : Prop := exists l, In (a, l) g /\ In b l.

Inductive path (g : graph) : positive -> positive -> Prop :=
| path_refl : forall a, path g a a
| path_step : forall a b c, edge g a b -> path g b c -> path g a c.

Fixpoint dfs (fuel : nat) (m : adj) (work : list positive) (vis : PositiveSet.t) : option PositiveSet.t :=
  match fuel with
  | O => None
  | S f =>
    match work with
    | [] => Some vis
    | n :: w =>
      if PositiveSet.mem n vis then dfs f m w vis
      else dfs f m (succs m n ++ w) (PositiveSet.add n vis)
    end
  end.

Definition edge_count (g : graph) : nat := fold_left (fun n row => n + length (snd row)) g 0.
Definition fuel_for (g : graph) (roots : list positive) : nat :=
  S (S (length roots + length g + edge_count g)).

Definition reach (g : graph) (roots : list positive) : option PositiveSet.t :=
  dfs (fuel_for g roots) (build g) roots PositiveSet.empty.

Definition no_path_b (g : graph) (roots sinks : list positive) : bool :=
  match reach g roots with
  | Some vis => forallb (fun s => negb (PositiveSet.mem s vis)) sinks
  | None => false
  end.

(* ---- the adjacency map has exactly the edges of the list ---- *)

Lemma succs_add_row_same : forall m a l, succs (add_row m (a, l)) a = l ++ succs m a.
Proof. intros; unfold succs at 1, add_row; cbn [fst snd]. now rewrite PositiveMap.gss. Qed.

Lemma succs_add_row_other : forall m a x l, x <> a -> succs (add_row m (x, l)) a = succs m a.
Proof. intros; unfold succs, add_row; cbn [fst snd]. now rewrite PositiveMap.gso by congruence. Qed.

Lemma fold_complete : forall g m a b,
  (In b (succs m a) \/ edge g a b) -> In b (succs (fold_left add_row g m) a).
Proof.
  induction g as [|[x l] g IH]; intros m a b H; cbn [fold_left].
  - destruct H as [H|[l [[] _]]]; exact H.
  - apply IH. destruct (Pos.eq_dec x a) as [->|Hne].
    + rewrite succs_add_row_same. destruct H as [H|[l' [[Heq|Hin] Hb]]].
      * left; apply in_or_app; now right.
      * inversion Heq; subst. left; apply in_or_app; now left.
      * right; now exists l'.
    + rewrite succs_add_row_other by exact Hne. destruct H as [H|[l' [[Heq|Hin] Hb]]].
      * now left.
      * inversion Heq; congruence.
      * right; now exists l'.
Qed.

Lemma fold_sound : forall g m a b,
  In b (succs (fold_left add_row g m) a) -> In b (succs m a) \/ edge g a b.
Proof.
  induction g as [|[x l] g IH]; intros m a b H; cbn [fold_left] in H.
  - now left.
  - apply IH in H. destruct H as [H|[l' [Hin Hb]]].
    + destruct (Pos.eq_dec x a) as [->|Hne].
      * rewrite succs_add_row_same in H. apply in_app_or in H. destruct H as [H|H].
        -- right; exists l; split; [now left|exact H].
        -- now left.
      * rewrite succs_add_row_other in H by exact Hne. now left.
    + right; exists l'; split; [now right|exact Hb].
Qed.

Lemma succs_empty : forall a, succs (PositiveMap.empty _) a = [].
Proof. intros; unfold succs. now rewrite PositiveMap.gempty. Qed.

Lemma build_complete : forall g a b, edge g a b -> In b (succs (build g) a).
Proof. intros; apply fold_complete; now right. Qed.

Lemma build_sound : forall g a b, In b (succs (build g) a) -> edge g a b.
Proof.
  intros g a b H; apply fold_sound in H. destruct H as [H|H]; [|exact H].
  rewrite succs_empty in H; destruct H.
Qed.

(* ---- DFS invariant ---- *)

Definition mem := PositiveSet.mem.

Definition closed_upto (m : adj) (vis : PositiveSet.t) (work : list positive) : Prop :=
  forall a b, mem a vis = true -> In b (succs m a) -> mem b vis = true \/ In b work.

Lemma mem_add : forall x n s, mem x (PositiveSet.add n s) = true <-> n = x \/ mem x s = true.
Proof. intros; exact (PositiveSet.add_spec n x s). Qed.

Lemma dfs_inv : forall m fuel work vis res,
  dfs fuel m work vis = Some res -> closed_upto m vis work ->
  (forall x, mem x vis = true -> mem x res = true) /\
  (forall x, In x work -> mem x res = true) /\
  closed_upto m res [].
Proof.
  induction fuel as [|f IH]; intros work vis res H C; cbn [dfs] in H; [discriminate|].
  destruct work as [|n w].
  - inversion H; subst. repeat split; auto; intros x [].
  - destruct (PositiveSet.mem n vis) eqn:E.
    + assert (C' : closed_upto m vis w).
      { intros a b Ha Hb. destruct (C a b Ha Hb) as [Hv|[->|Hw]]; auto. }
      destruct (IH _ _ _ H C') as (A & B & D). repeat split; auto.
      intros x [->|Hx]; auto.
    + assert (C' : closed_upto m (PositiveSet.add n vis) (succs m n ++ w)).
      { intros a b Ha Hb. apply mem_add in Ha. destruct Ha as [->|Ha].
        - right; apply in_or_app; now left.
        - destruct (C a b Ha Hb) as [Hv|[->|Hw]].
          + left; apply mem_add; now right.
          + left; apply mem_add; now left.
          + right; apply in_or_app; now right. }
      destruct (IH _ _ _ H C') as (A & B & D). repeat split; auto.
      * intros x Hx; apply A, mem_add; now right.
      * intros x [->|Hx]; [apply A, mem_add; now left | apply B, in_or_app; now right].
Qed.

Lemma empty_closed : forall m work, closed_upto m PositiveSet.empty work.
Proof.
  intros m work a b Ha. unfold mem in Ha.
  assert (E : PositiveSet.mem a PositiveSet.empty = false) by (destruct a; reflexivity).
  rewrite E in Ha; discriminate.
Qed.

Theorem reach_sound : forall g roots vis,
  reach g roots = Some vis ->
  forall r s, In r roots -> path g r s -> PositiveSet.mem s vis = true.
Proof.
  intros g roots vis H r s Hr P. unfold reach in H.
  destruct (dfs_inv _ _ _ _ _ H (empty_closed _ _)) as (_ & B & D).
  specialize (B r Hr). clear Hr H.
  induction P as [a|a b c E P IH]; [exact B|].
  apply IH. destruct (D a b B (build_complete _ _ _ E)) as [Hm|[]]; exact Hm.
Qed.

Theorem no_path_sound : forall g roots sinks,
  no_path_b g roots sinks = true ->
  forall r s, In r roots -> In s sinks -> ~ path g r s.
Proof.
  intros g roots sinks H r s Hr Hs P. unfold no_path_b in H.
  destruct (reach g roots) as [vis|] eqn:E; [|discriminate].
  rewrite forallb_forall in H. specialize (H s Hs).
  rewrite (reach_sound _ _ _ E r s Hr P) in H. discriminate.
Qed.

(* ---- witness paths ---- *)

Fixpoint path_ok (m : adj) (p : list positive) : bool :=
  match p with
  | a :: ((b :: _) as t) => existsb (Pos.eqb b) (succs m a) && path_ok m t
  | _ => true
  end.

Definition witness_ok (g : graph) (sinks : list positive) (w : positive * list positive) : bool :=
  match snd w with
  | r :: _ => Pos.eqb r (fst w) && path_ok (build g) (snd w) && existsb (Pos.eqb (last (snd w) r)) sinks
  | [] => false
  end.

Lemma path_ok_path : forall g p a, path_ok (build g) (a :: p) = true -> path g a (last (a :: p) a).
Proof.
  intros g p; induction p as [|b t IH]; intros a H.
  - cbn. constructor.
  - cbn [path_ok] in H. apply andb_true_iff in H. destruct H as [H1 H2].
    apply existsb_exists in H1. destruct H1 as (x & Hx & Hbx). apply Pos.eqb_eq in Hbx. subst x.
    apply path_step with b; [now apply build_sound|].
    specialize (IH b H2).
    replace (last (a :: b :: t) a) with (last (b :: t) b); [exact IH|].
    clear. revert b; induction t as [|c t IHt]; intros b; [reflexivity|].
    change (last (b :: c :: t) b) with (last (c :: t) b).
    change (last (a :: b :: c :: t) a) with (last (c :: t) a).
    clear IHt. revert c; induction t as [|d t IHt]; intros c; [reflexivity|].
    change (last (c :: d :: t) b) with (last (d :: t) b).
    change (last (c :: d :: t) a) with (last (d :: t) a). apply IHt.
Qed.

Theorem witness_sound : forall g sinks w,
  witness_ok g sinks w = true -> exists s, In s sinks /\ path g (fst w) s.
Proof.
  intros g sinks [r p] H. unfold witness_ok in H; cbn [fst snd] in *.
  destruct p as [|a t]; [discriminate|].
  apply andb_true_iff in H; destruct H as [H H3]. apply andb_true_iff in H; destruct H as [H1 H2].
  apply Pos.eqb_eq in H1; subst a.
  apply existsb_exists in H3. destruct H3 as (s & Hs & E). apply Pos.eqb_eq in E.
  exists s; split; [exact Hs|]. subst s. now apply path_ok_path.
Qed.

(* the checker is not vacuous: it accepts a graph without a path and rejects one with *)
Example reach_example_no :
  no_path_b [(1, [2; 3]); (2, [3]); (4, [5])]%positive [1%positive] [5%positive] = true.
Proof. reflexivity. Qed.
Example reach_example_yes :
  no_path_b [(1, [2; 3]); (2, [4]); (4, [5])]%positive [1%positive] [5%positive] = false.
Proof. reflexivity. Qed.
