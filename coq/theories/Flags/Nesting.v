(* Flags/Nesting.v — the gate instantiated with C07's context-manager model
   (GV.Ctx.Model: requiredFlags = [flags], RequireCPU = [requireCPU]) and the
   consequence of C07's [flags_monotone]: requirements only grow under nesting. *)
From Coq Require Import ZArith NArith List Bool String Lia.
From GV Require Import Ctx.Model Ctx.Proofs Flags.Gate.
Import ListNotations.

Section Nesting.
  Variable Lua : Type.
  Variable World : Type.

  Definition lift_r1 (r : Model.r1) : Gate.r1 ctx term :=
    match r with
    | Model.ROk c => Gate.ROk ctx term c
    | Model.RTerm c t => Gate.RTerm ctx term c t
    | Model.RPanic c => Gate.RPanic ctx term c
    end.
  Definition reqCPU (now amt : Z) (c : ctx) := lift_r1 (requireCPU now amt c).

  Definition gofun := gofunction ctx term Lua World.
  Definition run_go (now depth : Z) (f : gofun) (c : ctx) (l : Lua) (w : World) :=
    run_in_thread ctx flags term reqCPU Lua World now depth f c l w.
  Definition safe_io (A : Type) (c : ctx) (prim : World -> A * World) (w : World) :=
    safeio ctx flags World A c prim w.

  Lemma chain_sup : forall (l : list ctx) (c0 : ctx),
    (forall above c p below, c0 :: l = above ++ c :: p :: below -> N.ldiff (flags p) (flags c) = 0%N) ->
    forall k, In k (c0 :: l) -> forall i, N.testbit (flags k) i = true -> N.testbit (flags c0) i = true.
  Proof.
    induction l as [|q l IH]; intros c0 H k Hk i Hi.
    - destruct Hk as [<-|[]]; exact Hi.
    - destruct Hk as [<-|Hk]; [exact Hi|].
      assert (Hq : N.testbit (flags q) i = true).
      { apply (IH q) with (k := k); [|exact Hk|exact Hi].
        intros above c p below E. apply (H (c0 :: above) c p below). cbn. now rewrite E. }
      assert (E := H [] c0 q l eq_refl). rewrite ldiff_zero_iff in E. now apply E.
  Qed.

  (* In every reachable state of the context manager, a flag required by ANY
     enclosing context (pcall, coroutine, callcontext, load all run inside the
     current chain) is required by the current one. *)
  Theorem gate_monotone_under_nesting : forall os k i,
    hist_ok os -> In k (parents (run init os)) ->
    N.testbit (flags k) i = true -> N.testbit (flags (cur (run init os))) i = true.
  Proof.
    intros os k i Hos Hk Hi.
    apply (chain_sup (parents (run init os)) (cur (run init os))) with (k := k); [|now right|exact Hi].
    intros above c p below E. exact (flags_monotone os Hos above c p below E).
  Qed.

  (* a child context created below an iosafe context is iosafe, whatever it asks for *)
  Theorem child_inherits_flags : forall now d c i,
    N.testbit (flags c) i = true -> N.testbit (flags (pushCtx now d c)) i = true.
  Proof.
    intros now d c i H. assert (E := push_flags_sup now d c). rewrite ldiff_zero_iff in E. now apply E.
  Qed.

  (* Putting it together: wherever an enclosing context required iosafe, a
     function that did not declare iosafe is stopped at the gate with nothing
     changed, and safeio refuses. *)
  Theorem iosafe_everywhere_below : forall os k now depth (f : gofun) l w,
    hist_ok os -> In k (parents (run init os)) -> N.testbit (flags k) 2 = true ->
    N.testbit (declared ctx term Lua World f) 2 = false ->
    let c := cur (run init os) in
    (exists msg, run_go now depth f c l w = (LuaError term msg, c, l, w)) /\
    (forall A prim, safe_io A c prim w = (NotAllowed A, w)).
  Proof.
    intros os k now depth f l w Hos Hk Hi Hd c.
    assert (Hc : N.testbit (flags c) 2 = true) by (apply (gate_monotone_under_nesting os k 2%N Hos Hk Hi)).
    split.
    - exact (gate_blocks_subset ctx flags term reqCPU Lua World now depth f c l w 2%N Hc Hd).
    - intros A prim. now apply safeio_refuses.
  Qed.
End Nesting.

(* the hypotheses are satisfiable and the conclusions are not trivial *)
Example gate_example_blocked :
  let f := mkGoFunction ctx term unit unit 3%N (fun c l w => (Returned term, c, l, w)) in
  let c := pushCtx 0 (mkDef res0 res0 4%N false) root in
  run_go unit unit 0 0 f c tt tt = (LuaError term "missing flags: iosafe", c, tt, tt).
Proof. vm_compute. reflexivity. Qed.

Example gate_example_passes :
  let f := mkGoFunction ctx term unit unit 15%N (fun c l w => (Returned term, c, l, w)) in
  let c := pushCtx 0 (mkDef res0 res0 4%N false) root in
  run_go unit unit 0 0 f c tt tt = (Returned term, c, tt, tt).
Proof. vm_compute. reflexivity. Qed.

Example nesting_example :
  let os := [(0%Z, OPush (mkDef res0 res0 4%N false)); (0%Z, OPush (mkDef (mkRes 100 0 0) res0 0%N false))] in
  hist_ok os /\ N.testbit (flags (cur (run init os))) 2 = true /\ List.length (parents (run init os)) = 2%nat.
Proof. split; [|vm_compute; auto]. repeat constructor; cbn; unfold res_inr, inr, W; cbn; lia. Qed.

Example names_example : missing_msg 13%N = "missing flags: memsafe iosafe timesafe"%string.
Proof. reflexivity. Qed.
