(* Marshal/SuffixProofs.v — the reader consumes a prefix of its input and nothing else:
   on ANY byte string, any budget, any allocation limit, when UnmarshalConst returns a
   value the unread input it leaves is a suffix of the input (the input is
   prefix ++ consumed ++ unread).  Together with Proofs.unmarshal_total_no_panic
   (value / error / budget stop, never a panic) this is "total on arbitrary bytes and
   never reads beyond the input". *)
From Coq Require Import ZArith List Bool Lia ZifyBool.
From GV Require Import Marshal.Model Marshal.Proofs.
Import ListNotations.
Open Scope Z_scope.

Definition sfx {A} (inp : bytes) (r : ures A) : Prop :=
  match r with
  | UOk _ rest _ => exists pre, inp = pre ++ rest
  | _ => True
  end.

Lemma sfx_bind {A B} inp (r : ures A) (f : A -> bytes -> Z -> ures B) :
  sfx inp r -> (forall a i b1, r = UOk a i b1 -> sfx i (f a i b1)) -> sfx inp (ubind r f).
Proof.
  destruct r as [a i b1| | | | |]; cbn [ubind sfx]; auto.
  intros [pre ->] H. specialize (H a i b1 eq_refl).
  destruct (f a i b1); cbn [sfx] in *; auto.
  destruct H as [pre2 ->]. exists (pre ++ pre2). now rewrite app_assoc.
Qed.

Lemma sfx_refl {A} (a : A) inp b : sfx inp (UOk a inp b).
Proof. exists []. reflexivity. Qed.

Lemma take_split : forall inp n a rest, take inp n = Some (a, rest) -> inp = a ++ rest.
Proof.
  induction inp as [|x r IH]; intros n a rest; cbn [take].
  - destruct (n <=? 0); [|discriminate]. intros X; inversion X; reflexivity.
  - destruct (n <=? 0). { intros X; inversion X; reflexivity. }
    destruct (take r (n - 1)) as [[a' rest']|] eqn:T; [|discriminate].
    intros X; inversion X; subst. cbn. f_equal. eapply IH; eassumption.
Qed.

Section Suffix.
Variable lim : Z.
Variable unl : bool.

Lemma with_mk_sfx {A} inp n elt (k : ures A) : sfx inp k -> sfx inp (with_mk lim n elt k).
Proof. unfold with_mk. destruct (mk lim n elt); cbn; auto. Qed.

Lemma rd_fixed_sfx n inp b : sfx inp (rd_fixed unl n inp b).
Proof.
  unfold rd_fixed. destruct (consume unl b n) as [b'|]; [|exact I].
  unfold readfull. destruct (take inp n) as [[a rest]|] eqn:T; [|exact I].
  cbn. exists a. eapply take_split; eassumption.
Qed.

Lemma rd_raw_sfx n inp b : sfx inp (rd_raw n inp b).
Proof.
  unfold rd_raw, readfull. destruct (take inp n) as [[a rest]|] eqn:T; [|exact I].
  cbn. exists a. eapply take_split; eassumption.
Qed.

Lemma rd_bytes_sfx n item inp b : sfx inp (rd_bytes lim unl n item inp b).
Proof.
  unfold rd_bytes.
  destruct (n <? 0); [exact I|]. destruct (maxInt64 / item <? n); [exact I|].
  destruct (consume unl b (n * item)) as [b'|]; [|exact I]. unfold readfull.
  destruct (n * item <=? maxEagerRead); destruct (take inp (n * item)) as [[a rest]|] eqn:T;
    apply with_mk_sfx; try exact I; cbn; exists a; eapply take_split; eassumption.
Qed.

Lemma rd_str_sfx inp b : sfx inp (rd_str lim unl inp b).
Proof.
  unfold rd_str. apply sfx_bind; [apply rd_fixed_sfx|]. intros. apply rd_bytes_sfx.
Qed.

Lemma rd_words_sfx n inp b : sfx inp (rd_words lim unl n inp b).
Proof.
  unfold rd_words. apply sfx_bind; [apply rd_bytes_sfx|]. intros. apply with_mk_sfx, sfx_refl.
Qed.

Lemma rd_many_sfx {A} (rd : bytes -> Z -> ures A) elt :
  (forall inp b, sfx inp (rd inp b)) ->
  forall n have inp b, sfx inp (rd_many lim rd elt n have inp b).
Proof.
  intros Hrd. induction n as [|n IH]; intros have inp b; cbn [rd_many].
  - apply sfx_refl.
  - apply sfx_bind; [apply Hrd|]. intros a i b1 _. apply with_mk_sfx.
    apply sfx_bind; [apply IH|]. intros. apply sfx_refl.
Qed.

Lemma rd_code_sfx (rdk : bytes -> Z -> ures cst) inp b :
  (forall i b', sfx i (rdk i b')) -> sfx inp (rd_code lim unl rdk inp b).
Proof.
  intros Hk. unfold rd_code.
  destruct (consume unl b 8) as [b0|]; [|exact I].
  apply sfx_bind; [apply rd_str_sfx|]. intros src i1 b1 _.
  apply sfx_bind; [apply rd_str_sfx|]. intros nm i2 b2 _.
  apply sfx_bind; [apply rd_raw_sfx|]. intros v3 i3 b3 _.
  apply sfx_bind; [apply rd_words_sfx|]. intros opw i4 b4 _.
  apply sfx_bind; [apply rd_fixed_sfx|]. intros v5 i5 b5 _.
  apply sfx_bind; [apply rd_words_sfx|]. intros lnw i6 b6 _.
  apply sfx_bind; [apply rd_fixed_sfx|]. intros v7 i7 b7 _.
  cbv zeta. destruct (signed 64 v7 <? 0); [exact I|].
  apply sfx_bind; [apply rd_many_sfx; exact Hk|]. intros ks i8 b8 _.
  destruct (consume unl b8 (2 + 2 + 2 + 8)) as [b9|]; [|exact I].
  apply sfx_bind; [apply rd_raw_sfx|]. intros uc i9 b10 _.
  apply sfx_bind; [apply rd_raw_sfx|]. intros rc i10 b11 _.
  apply sfx_bind; [apply rd_raw_sfx|]. intros cc i11 b12 _.
  apply sfx_bind; [apply rd_raw_sfx|]. intros v12 i12 b13 _.
  destruct ((signed 16 uc <? 0) || (signed 16 rc <? 0) || (signed 16 cc <? 0)); [exact I|].
  destruct (signed 64 v12 <? 0); [exact I|].
  apply sfx_bind; [apply rd_many_sfx; intros; apply rd_str_sfx|]. intros ups i13 b14 _.
  destruct (Z.of_nat (length ks) <? signed 64 v7); [exact I|].
  destruct (Z.of_nat (length ups) <? signed 64 v12); [exact I|].
  apply sfx_refl.
Qed.

Lemma rd_cst_sfx : forall fuel inp b, sfx inp (rd_cst lim unl fuel inp b).
Proof.
  induction fuel as [|f IH]; intros inp b; cbn [rd_cst]; [exact I|].
  apply sfx_bind; [apply rd_fixed_sfx|]. intros tp i1 b1 _.
  destruct (tp =? T_INT).
  { apply sfx_bind; [apply rd_fixed_sfx|]. intros; apply sfx_refl. }
  destruct (tp =? T_FLOAT).
  { apply sfx_bind; [apply rd_fixed_sfx|]. intros; apply sfx_refl. }
  destruct (tp =? T_STRING).
  { apply sfx_bind; [apply rd_str_sfx|]. intros; apply sfx_refl. }
  destruct (tp =? T_CODE); [|exact I].
  apply rd_code_sfx. intros. apply IH.
Qed.
End Suffix.

(* ANY byte string, ANY budget, ANY allocation limit: a value is only returned after the
   prefix 06 00 04 was there, and the unread input is a suffix of the input: the reader
   consumed [6;0;4] ++ consumed and nothing beyond the input. *)
Theorem unmarshal_consumes_prefix : forall lim budget inp k rest b',
  unmarshal lim budget inp = UOk k rest b' ->
  exists consumed, inp = marshalPrefix ++ consumed ++ rest.
Proof.
  intros lim budget inp k rest b' H. unfold unmarshal in H.
  destruct inp as [|x0 [|x1 [|x2 inp]]]; try discriminate.
  destruct ((x0 =? 6) && (x1 =? 0) && (x2 =? 4)) eqn:E; [|discriminate].
  pose proof (rd_cst_sfx lim (budget =? 0) (S (length inp)) inp budget) as B.
  rewrite H in B. cbn [sfx] in B. destruct B as [pre ->].
  exists pre. unfold marshalPrefix. cbn [app].
  assert (x0 = 6 /\ x1 = 0 /\ x2 = 4) as (-> & -> & ->) by lia. reflexivity.
Qed.

(* totality and input containment in one statement, for ALL byte strings and ALL budgets *)
Theorem unmarshal_total_within_input : forall lim budget inp,
  48 * zlen inp + 66048 <= lim <= maxAlloc ->
  match unmarshal lim budget inp with
  | UOk _ rest _ => exists consumed, inp = marshalPrefix ++ consumed ++ rest
  | UErr _ _ | UBudget => True
  | UPanic | UFatal _ | UOutOfFuel => False
  end.
Proof.
  intros lim budget inp Hl. pose proof (unmarshal_total_no_panic lim budget inp Hl) as T.
  destruct (unmarshal lim budget inp) eqn:E; auto.
  eapply unmarshal_consumes_prefix; eassumption.
Qed.
