(* Marshal/BudgetProofs.v — the reader's budget: on every input, when
   UnmarshalConst succeeds under a budget, the budget it reports as used is
   exactly the number of bytes it read (so, with Proofs.unmarshal_total_no_panic:
   no allocation above 48 bytes per byte charged, plus a constant). *)
From Coq Require Import ZArith List Bool Lia ZifyBool.
From GV Require Import Marshal.Model Marshal.Proofs.
Import ListNotations.
Open Scope Z_scope.

(* from input inp and budget b: on success, budget spent = bytes read + d *)
Definition bdg {A} (inp : bytes) (b d : Z) (r : ures A) : Prop :=
  match r with
  | UOk _ rest b' => zlen rest <= zlen inp /\ b - b' = zlen inp - zlen rest + d
  | _ => True
  end.

Lemma bdg_bind {A B} inp b d1 d2 (r : ures A) (f : A -> bytes -> Z -> ures B) :
  bdg inp b d1 r -> (forall a i b1, r = UOk a i b1 -> bdg i b1 d2 (f a i b1)) ->
  bdg inp b (d1 + d2) (ubind r f).
Proof.
  destruct r as [a i b1| | | | |]; cbn [ubind bdg]; auto.
  intros [H1 H2] H. specialize (H a i b1 eq_refl).
  destruct (f a i b1); cbn [bdg] in *; auto. lia.
Qed.

Lemma bdg_eq {A} inp b d d' (r : ures A) : bdg inp b d r -> d = d' -> bdg inp b d' r.
Proof. intros H <-. exact H. Qed.

Section Budget.
Variable lim : Z.
(* a real budget: UnmarshalConst was given a non-zero one *)
Let unl := false.

Lemma consume_spent b n b' : consume unl b n = Some b' -> b - b' = n.
Proof. unfold consume, unl. destruct (b <? n); [discriminate|]. intros X; inversion X; lia. Qed.

Lemma with_mk_bdg {A} inp b d n elt (k : ures A) : bdg inp b d k -> bdg inp b d (with_mk lim n elt k).
Proof. unfold with_mk. destruct (mk lim n elt); cbn; auto. Qed.

Lemma rd_fixed_bdg n inp b : 0 <= n -> bdg inp b 0 (rd_fixed unl n inp b).
Proof.
  intros Hn. unfold rd_fixed. destruct (consume unl b n) as [b'|] eqn:C; [|exact I].
  apply consume_spent in C. unfold readfull.
  destruct (take inp n) as [[a rest]|] eqn:T; [|exact I].
  cbn. destruct (take_len _ _ _ _ T Hn). pose proof (zlen_nonneg a). lia.
Qed.

Lemma rd_raw_bdg n inp b : 0 <= n -> bdg inp b (- n) (rd_raw n inp b).
Proof.
  intros Hn. unfold rd_raw, readfull. destruct (take inp n) as [[a rest]|] eqn:T; [|exact I].
  cbn. destruct (take_len _ _ _ _ T Hn). lia.
Qed.

Lemma rd_bytes_bdg n item inp b : 1 <= item -> bdg inp b 0 (rd_bytes lim unl n item inp b).
Proof.
  intros Hi. unfold rd_bytes.
  destruct (n <? 0) eqn:E1; [exact I|]. destruct (maxInt64 / item <? n); [exact I|].
  destruct (consume unl b (n * item)) as [b'|] eqn:C; [|exact I]. apply consume_spent in C.
  assert (0 <= n * item) by nia. unfold readfull.
  destruct (n * item <=? maxEagerRead); destruct (take inp (n * item)) as [[a rest]|] eqn:T;
    apply with_mk_bdg; try exact I; cbn; destruct (take_len _ _ _ _ T ltac:(lia)); lia.
Qed.

Lemma rd_str_bdg inp b : bdg inp b 0 (rd_str lim unl inp b).
Proof.
  unfold rd_str. eapply bdg_eq; [apply bdg_bind with (d1 := 0) (d2 := 0)|lia].
  - apply rd_fixed_bdg; lia.
  - intros. apply rd_bytes_bdg; lia.
Qed.

Lemma rd_words_bdg n inp b : bdg inp b 0 (rd_words lim unl n inp b).
Proof.
  unfold rd_words. eapply bdg_eq; [apply bdg_bind with (d1 := 0) (d2 := 0)|lia].
  - apply rd_bytes_bdg; lia.
  - intros. apply with_mk_bdg. cbn. lia.
Qed.

Lemma rd_many_bdg {A} (rd : bytes -> Z -> ures A) elt :
  (forall inp b, bdg inp b 0 (rd inp b)) ->
  forall n have inp b, bdg inp b 0 (rd_many lim rd elt n have inp b).
Proof.
  intros Hrd. induction n as [|n IH]; intros have inp b; cbn [rd_many].
  - cbn. lia.
  - eapply bdg_eq; [apply bdg_bind with (d1 := 0) (d2 := 0)|lia]; [apply Hrd|].
    intros a i b1 _. apply with_mk_bdg.
    eapply bdg_eq; [apply bdg_bind with (d1 := 0) (d2 := 0)|lia]; [apply IH|].
    intros. cbn. lia.
Qed.

Lemma rd_code_bdg (rdk : bytes -> Z -> ures cst) inp b :
  (forall i b', bdg i b' 0 (rdk i b')) -> bdg inp b 0 (rd_code lim unl rdk inp b).
Proof.
  intros Hk. unfold rd_code.
  destruct (consume unl b 8) as [b0|] eqn:C0; [|exact I]. apply consume_spent in C0.
  (* from here: budget b0 = b - 8, same input *)
  assert (G : forall r : ures cst, bdg inp b0 (-8) r -> bdg inp b 0 r).
  { intros r. destruct r; cbn; auto. lia. }
  apply G. clear G.
  eapply bdg_eq; [apply bdg_bind with (d1 := 0)|]; [apply rd_str_bdg| |]. intros src i1 b1 _.
  eapply bdg_eq; [apply bdg_bind with (d1 := 0)|reflexivity]; [apply rd_str_bdg|]. intros nm i2 b2 _.
  eapply bdg_eq; [apply bdg_bind with (d1 := -8)|reflexivity]; [apply rd_raw_bdg; lia|]. intros v3 i3 b3 _.
  eapply bdg_eq; [apply bdg_bind with (d1 := 0)|reflexivity]; [apply rd_words_bdg|]. intros opw i4 b4 _.
  eapply bdg_eq; [apply bdg_bind with (d1 := 0)|reflexivity]; [apply rd_fixed_bdg; lia|]. intros v5 i5 b5 _.
  eapply bdg_eq; [apply bdg_bind with (d1 := 0)|reflexivity]; [apply rd_words_bdg|]. intros lnw i6 b6 _.
  eapply bdg_eq; [apply bdg_bind with (d1 := 0)|reflexivity]; [apply rd_fixed_bdg; lia|]. intros v7 i7 b7 _.
  cbv zeta. destruct (signed 64 v7 <? 0); [exact I|].
  eapply bdg_eq; [apply bdg_bind with (d1 := 0)|reflexivity]; [apply rd_many_bdg; exact Hk|]. intros ks i8 b8 _.
  destruct (consume unl b8 (2 + 2 + 2 + 8)) as [b9|] eqn:C9; [|exact I]. apply consume_spent in C9.
  assert (G : forall r : ures cst, bdg i8 b9 (-14) r -> bdg i8 b8 0 r).
  { intros r. destruct r; cbn; auto. lia. }
  apply G. clear G.
  eapply bdg_eq; [apply bdg_bind with (d1 := -2)|]; [apply rd_raw_bdg; lia| |]. intros uc i9 b10 _.
  eapply bdg_eq; [apply bdg_bind with (d1 := -2)|reflexivity]; [apply rd_raw_bdg; lia|]. intros rc i10 b11 _.
  eapply bdg_eq; [apply bdg_bind with (d1 := -2)|reflexivity]; [apply rd_raw_bdg; lia|]. intros cc i11 b12 _.
  eapply bdg_eq; [apply bdg_bind with (d1 := -8)|reflexivity]; [apply rd_raw_bdg; lia|]. intros v12 i12 b13 _.
  destruct ((signed 16 uc <? 0) || (signed 16 rc <? 0) || (signed 16 cc <? 0)); [exact I|].
  destruct (signed 64 v12 <? 0); [exact I|].
  eapply bdg_eq; [apply bdg_bind with (d1 := 0)|reflexivity]; [apply rd_many_bdg; intros; apply rd_str_bdg|].
  intros ups i13 b14 _.
  destruct (Z.of_nat (length ks) <? signed 64 v7); [exact I|].
  destruct (Z.of_nat (length ups) <? signed 64 v12); [exact I|].
  cbn. instantiate (1 := 0). lia.
  all: lia.
Qed.

Lemma rd_cst_bdg : forall fuel inp b, bdg inp b 0 (rd_cst lim unl fuel inp b).
Proof.
  induction fuel as [|f IH]; intros inp b; cbn [rd_cst]; [exact I|].
  eapply bdg_eq; [apply bdg_bind with (d1 := 0) (d2 := 0)|lia]; [apply rd_fixed_bdg; lia|].
  intros tp i1 b1 _.
  destruct (tp =? T_INT).
  { eapply bdg_eq; [apply bdg_bind with (d1 := 0) (d2 := 0)|lia]; [apply rd_fixed_bdg; lia|]. intros; cbn; lia. }
  destruct (tp =? T_FLOAT).
  { eapply bdg_eq; [apply bdg_bind with (d1 := 0) (d2 := 0)|lia]; [apply rd_fixed_bdg; lia|]. intros; cbn; lia. }
  destruct (tp =? T_STRING).
  { eapply bdg_eq; [apply bdg_bind with (d1 := 0) (d2 := 0)|lia]; [apply rd_str_bdg|]. intros; cbn; lia. }
  destruct (tp =? T_CODE); [|exact I].
  apply rd_code_bdg. intros. apply IH.
Qed.
End Budget.

(* UnmarshalConst under a budget, ANY byte string: when it returns a value, `used` is exactly
   the number of bytes read after the 3-byte prefix. *)
Theorem unmarshal_used_is_bytes_read : forall lim budget inp k rest b',
  budget <> 0 -> unmarshal lim budget inp = UOk k rest b' ->
  budget - b' = zlen inp - 3 - zlen rest.
Proof.
  intros lim budget inp k rest b' Hb H. unfold unmarshal in H.
  destruct inp as [|x0 [|x1 [|x2 inp]]]; try discriminate.
  destruct ((x0 =? 6) && (x1 =? 0) && (x2 =? 4)); [|discriminate].
  assert (E : (budget =? 0) = false) by lia. rewrite E in H.
  pose proof (rd_cst_bdg lim (S (length inp)) inp budget) as B. rewrite H in B. cbn [bdg] in B.
  rewrite !zlen_cons. lia.
Qed.
