(* Marshal/RefactorProofs.v — RefactorCodeConsts preserves what every
   constant-loading opcode loads, and is idempotent; hence dumping a reloaded
   function gives the same bytes. *)
From Coq Require Import ZArith List Bool Lia ZifyBool.
From GV Require Import Marshal.Model Marshal.ModelRefactor Marshal.Proofs.
Import ListNotations.
Open Scope Z_scope.

(* ------------------------------------------------------------------ *)
(* opcode fields                                                        *)

Lemma hi_setk op m : 0 <= m < 65536 -> hi (setk op m) = hi op.
Proof.
  intros H. unfold hi, setk. rewrite Z.div_add_l by lia. rewrite (Z.div_small m) by lia. unfold hi. lia.
Qed.

Lemma kidx_setk op m : 0 <= m < 65536 -> kidx (setk op m) = m.
Proof.
  intros H. unfold kidx, setk. rewrite Z.add_comm, Z.mod_add by lia. now apply Z.mod_small.
Qed.

Lemma loadsK_setk op m : 0 <= m < 65536 -> loadsK (setk op m) = loadsK op.
Proof. intros H. unfold loadsK, isType3, yop. now rewrite hi_setk. Qed.

Lemma isClosureK_setk op m : 0 <= m < 65536 -> isClosureK (setk op m) = isClosureK op.
Proof. intros H. unfold isClosureK, isType3, yop. now rewrite hi_setk. Qed.

Lemma setk_setk op m : 0 <= m < 65536 -> setk (setk op m) m = setk op m.
Proof. intros H. unfold setk at 1. now rewrite hi_setk. Qed.

Lemma kidx_nonneg op : 0 <= kidx op.
Proof. unfold kidx. apply Z.mod_pos_bound. lia. Qed.

Lemma nth_error_len {A} (l : list A) (x : A) ext : nth_error ((l ++ [x]) ++ ext) (Z.to_nat (zlen l)) = Some x.
Proof.
  unfold zlen. rewrite Nat2Z.id, <- app_assoc. rewrite nth_error_app2 by lia.
  now rewrite Nat.sub_diag.
Qed.

Lemma nth_error_prefix {A} (l ext : list A) m : 0 <= m < zlen l ->
  nth_error (l ++ ext) (Z.to_nat m) = nth_error l (Z.to_nat m).
Proof. unfold zlen. intros H. apply nth_error_app1. lia. Qed.

Lemma zlen_snoc {A} (l : list A) (x : A) : zlen (l ++ [x]) = zlen l + 1.
Proof. rewrite zlen_app. reflexivity. Qed.

Section Loop.
Variables getk getclos : Z -> rres cst.

Definition src_ok (n : Z) (k : cst) : Prop := getk n = ROk k \/ getclos n = ROk k.

(* what one K-loading opcode loads after the loop, in terms of before *)
Definition op_rel (consts' : list cst) (op op' : Z) : Prop :=
  if loadsK op
  then hi op' = hi op /\ exists k, nth_error consts' (Z.to_nat (kidx op')) = Some k /\ src_ok (kidx op) k
  else op' = op.

Lemma rloop_lookup : forall ops cmap acc ops' consts',
  rloop getk getclos ops cmap acc = ROk (ops', consts') ->
  zlen acc <= 65536 ->
  (forall n m, assoc n cmap = Some m ->
     0 <= m < zlen acc /\ exists k, nth_error acc (Z.to_nat m) = Some k /\ src_ok n k) ->
  (exists ext, consts' = acc ++ ext) /\ zlen consts' <= 65536 /\ Forall2 (op_rel consts') ops ops'.
Proof.
  induction ops as [|op r IH]; intros cmap acc ops' consts' H Hlen Hinv; cbn [rloop] in H.
  - inversion H; subst. split; [exists []; now rewrite app_nil_r|]. split; [exact Hlen|constructor].
  - destruct (loadsK op) eqn:LK.
    + destruct (assoc (kidx op) cmap) as [m|] eqn:AS.
      * destruct (rloop getk getclos r cmap acc) as [[o a]| | |] eqn:R; try discriminate.
        inversion H; subst. destruct (IH _ _ _ _ R Hlen Hinv) as ([ext ->] & L & F).
        split; [now exists ext|]. split; [exact L|]. constructor; [|exact F].
        destruct (Hinv _ _ AS) as (Hm & k & Hk & Hs).
        unfold op_rel. rewrite LK. rewrite hi_setk, kidx_setk by lia. split; [reflexivity|].
        exists k. rewrite nth_error_prefix by lia. auto.
      * destruct (65535 <? zlen acc) eqn:LT; [discriminate|].
        destruct (if isClosureK op then getclos (kidx op) else getk (kidx op)) as [k| | |] eqn:G; try discriminate.
        destruct (rloop getk getclos r ((kidx op, zlen acc) :: cmap) (acc ++ [k])) as [[o a]| | |] eqn:R; try discriminate.
        inversion H; subst.
        assert (Hs : src_ok (kidx op) k) by (unfold src_ok; destruct (isClosureK op); auto).
        assert (Hlen' : zlen (acc ++ [k]) <= 65536) by (rewrite zlen_snoc; lia).
        assert (Hinv' : forall n m, assoc n ((kidx op, zlen acc) :: cmap) = Some m ->
                  0 <= m < zlen (acc ++ [k]) /\ exists k0, nth_error (acc ++ [k]) (Z.to_nat m) = Some k0 /\ src_ok n k0).
        { intros n m. cbn [assoc]. rewrite zlen_snoc.
          destruct (kidx op =? n) eqn:E.
          - intros X; inversion X; subst m. pose proof (zlen_nonneg acc). split; [lia|].
            exists k. pose proof (nth_error_len acc k []) as Q. rewrite app_nil_r in Q. rewrite Q.
            replace n with (kidx op) by lia. auto.
          - intros X. destruct (Hinv _ _ X) as (Hm & k0 & Hk0 & Hs0). split; [lia|].
            exists k0. rewrite nth_error_prefix by lia. auto. }
        destruct (IH _ _ _ _ R Hlen' Hinv') as ([ext ->] & L & F).
        split; [exists (k :: ext); now rewrite <- app_assoc|]. split; [exact L|].
        constructor; [|exact F].
        pose proof (zlen_nonneg acc).
        unfold op_rel. rewrite LK. rewrite hi_setk, kidx_setk by lia. split; [reflexivity|].
        exists k. now rewrite nth_error_len.
    + destruct (rloop getk getclos r cmap acc) as [[o a]| | |] eqn:R; try discriminate.
      inversion H; subst. destruct (IH _ _ _ _ R Hlen Hinv) as (E & L & F).
      split; [exact E|]. split; [exact L|]. constructor; [|exact F].
      unfold op_rel. now rewrite LK.
Qed.

Lemma rloop_ext : forall ops cmap acc ops' consts',
  rloop getk getclos ops cmap acc = ROk (ops', consts') -> exists ext, consts' = acc ++ ext.
Proof.
  induction ops as [|x r IHr]; intros cm ac o' c' R; cbn [rloop] in R.
  - inversion R; subst. exists []. now rewrite app_nil_r.
  - destruct (loadsK x).
    + destruct (assoc (kidx x) cm).
      * destruct (rloop getk getclos r cm ac) as [[o1 a1]| | |] eqn:R1; try discriminate.
        inversion R; subst. eapply IHr; eauto.
      * destruct (65535 <? zlen ac); [discriminate|].
        destruct (if isClosureK x then getclos (kidx x) else getk (kidx x)) as [c| | |]; try discriminate.
        destruct (rloop getk getclos r ((kidx x, zlen ac) :: cm) (ac ++ [c])) as [[o1 a1]| | |] eqn:R1; try discriminate.
        inversion R; subst. destruct (IHr _ _ _ _ R1) as [e ->]. exists (c :: e). now rewrite <- app_assoc.
    + destruct (rloop getk getclos r cm ac) as [[o1 a1]| | |] eqn:R1; try discriminate.
      inversion R; subst. eapply IHr; eauto.
Qed.

(* second run of the loop on its own output *)
Variables getk2 getclos2 : Z -> rres cst.

Lemma rloop_idem : forall ops cmap acc ops' consts',
  rloop getk getclos ops cmap acc = ROk (ops', consts') ->
  zlen acc <= 65536 ->
  (forall n m, assoc n cmap = Some m -> 0 <= m < zlen acc) ->
  (forall m k, 0 <= m -> nth_error consts' (Z.to_nat m) = Some k -> getk2 m = ROk k) ->
  (forall n k, getclos n = ROk k -> forall m, 0 <= m -> nth_error consts' (Z.to_nat m) = Some k -> getclos2 m = ROk k) ->
  forall cmap2,
  (forall m, assoc m cmap2 = if (0 <=? m) && (m <? zlen acc) then Some m else None) ->
  rloop getk2 getclos2 ops' cmap2 acc = ROk (ops', consts').
Proof.
  induction ops as [|op r IH]; intros cmap acc ops' consts' H Hlen Hinv H2k H2c cmap2 Hid; cbn [rloop] in H.
  - inversion H; subst. reflexivity.
  - destruct (loadsK op) eqn:LK.
    + destruct (assoc (kidx op) cmap) as [m|] eqn:AS.
      * destruct (rloop getk getclos r cmap acc) as [[o a]| | |] eqn:R; try discriminate.
        inversion H; subst. pose proof (Hinv _ _ AS) as Hm.
        cbn [rloop]. rewrite loadsK_setk, LK, kidx_setk by lia.
        rewrite Hid. destruct ((0 <=? m) && (m <? zlen acc)) eqn:C; [|lia].
        rewrite (IH _ _ _ _ R Hlen Hinv H2k H2c _ Hid). now rewrite setk_setk by lia.
      * destruct (65535 <? zlen acc) eqn:LT; [discriminate|].
        destruct (if isClosureK op then getclos (kidx op) else getk (kidx op)) as [k| | |] eqn:G; try discriminate.
        destruct (rloop getk getclos r ((kidx op, zlen acc) :: cmap) (acc ++ [k])) as [[o a]| | |] eqn:R; try discriminate.
        inversion H; subst. pose proof (zlen_nonneg acc) as Hn.
        assert (Hlen' : zlen (acc ++ [k]) = zlen acc + 1) by apply zlen_snoc.
        (* the result extends acc ++ [k] *)
        destruct (rloop_ext _ _ _ _ _ R) as [ext ->].
        cbn [rloop]. rewrite loadsK_setk, LK, kidx_setk, isClosureK_setk by lia.
        rewrite Hid. destruct ((0 <=? zlen acc) && (zlen acc <? zlen acc)) eqn:C; [lia|].
        rewrite LT.
        assert (G2 : (if isClosureK op then getclos2 (zlen acc) else getk2 (zlen acc)) = ROk k).
        { destruct (isClosureK op).
          - eapply H2c; [exact G|lia|apply nth_error_len].
          - apply H2k; [lia|apply nth_error_len]. }
        rewrite G2.
        rewrite (IH _ _ _ _ R); [now rewrite setk_setk by lia|lia| |exact H2k|exact H2c|].
        -- intros n m. cbn [assoc]. destruct (kidx op =? n).
           ++ intros X; inversion X; lia.
           ++ intros X. pose proof (Hinv _ _ X). lia.
        -- intros m. cbn [assoc]. rewrite Hlen'. rewrite Hid.
           destruct (zlen acc =? m) eqn:E.
           ++ replace m with (zlen acc) by lia.
              destruct ((0 <=? zlen acc) && (zlen acc <? zlen acc + 1)) eqn:D; [reflexivity|lia].
           ++ destruct ((0 <=? m) && (m <? zlen acc)) eqn:D1;
              destruct ((0 <=? m) && (m <? zlen acc + 1)) eqn:D2; try reflexivity; lia.
    + destruct (rloop getk getclos r cmap acc) as [[o a]| | |] eqn:R; try discriminate.
      inversion H; subst. cbn [rloop]. rewrite LK.
      now rewrite (IH _ _ _ _ R Hlen Hinv H2k H2c _ Hid).
Qed.
End Loop.

(* ------------------------------------------------------------------ *)
(* codes with their own constants (everything load() produces)          *)

Lemma nth_r_map {A B} (f : A -> rres B) (l : list A) (m : Z) (a : A) :
  nth_error l (Z.to_nat m) = Some a -> nth_r (map f l) m = f a.
Proof. intros H. unfold nth_r. now rewrite nth_error_map, H. Qed.

Lemma nth_r_map_inv {A B} (f : A -> rres B) (l : list A) (m : Z) (b : B) :
  nth_r (map f l) m = ROk b -> exists a, nth_error l (Z.to_nat m) = Some a /\ f a = ROk b.
Proof.
  unfold nth_r. rewrite nth_error_map. destruct (nth_error l (Z.to_nat m)) as [a|]; cbn; [|discriminate].
  intros H. now exists a.
Qed.

Lemma Forall2_weaken {A B} (P Q : A -> B -> Prop) l l' :
  (forall a b, P a b -> Q a b) -> Forall2 P l l' -> Forall2 Q l l'.
Proof. intros H F. induction F; constructor; auto. Qed.

Lemma refactor_cst_shape k k' : refactor_cst k = ROk k' ->
  exists h ks o a, k = KCode h ks /\ k' = KCode (set_ops h o) a /\
    rloop (nth_r (map ROk ks)) (nth_r (map refactor_cst ks)) (ops h) [] [] = ROk (o, a).
Proof.
  destruct k as [z|b|s|h ks]; cbn [refactor_cst]; try discriminate.
  destruct (rloop _ _ (ops h) [] []) as [[o a]| | |] eqn:R; try discriminate.
  intros H; inversion H; subst. now exists h, ks, o, a.
Qed.

(* Every opcode that loads a constant loads, after the refactoring, the same
   constant as before — or, for a nested function, its refactoring, to which
   the same statement applies. *)
Theorem refactor_preserves_lookup : forall h ks k',
  refactor_cst (KCode h ks) = ROk k' ->
  exists o a, k' = KCode (set_ops h o) a /\ zlen a <= 65536 /\
    Forall2 (fun op op' =>
      if loadsK op
      then hi op' = hi op /\
           exists c', nth_error a (Z.to_nat (kidx op')) = Some c' /\
             (nth_error ks (Z.to_nat (kidx op)) = Some c' \/
              exists c, nth_error ks (Z.to_nat (kidx op)) = Some c /\ refactor_cst c = ROk c')
      else op' = op) (ops h) o.
Proof.
  intros h ks k' H. destruct (refactor_cst_shape _ _ H) as (h0 & ks0 & o & a & E & -> & R).
  inversion E; subst h0 ks0. exists o, a. split; [reflexivity|].
  destruct (rloop_lookup _ _ _ _ _ _ _ R) as (_ & L & F); [unfold zlen; cbn; lia|cbn; discriminate|].
  split; [exact L|].
  eapply Forall2_weaken; [|exact F]. intros op op'. unfold op_rel, src_ok.
  destruct (loadsK op); [|auto]. intros (Hh & c' & Hn & [Hs|Hs]); split; auto; exists c'; split; auto.
  - left. destruct (nth_r_map_inv _ _ _ _ Hs) as (c & Hc & Ec). inversion Ec; subst. exact Hc.
  - right. destruct (nth_r_map_inv _ _ _ _ Hs) as (c & Hc & Ec). now exists c.
Qed.

Lemma set_ops_idem h o : set_ops (set_ops h o) o = set_ops h o.
Proof. reflexivity. Qed.

Lemma refactor_fixed_from_loop getk getclos h o a :
  rloop getk getclos (ops h) [] [] = ROk (o, a) ->
  (forall n k, getclos n = ROk k -> refactor_cst k = ROk k) ->
  refactor_cst (KCode (set_ops h o) a) = ROk (KCode (set_ops h o) a).
Proof.
  intros R Hfix. cbn [refactor_cst]. change (ops (set_ops h o)) with o.
  rewrite (rloop_idem getk getclos (nth_r (map ROk a)) (nth_r (map refactor_cst a)) _ _ _ _ _ R).
  - reflexivity.
  - unfold zlen; cbn; lia.
  - cbn; discriminate.
  - intros m k Hm Hk. now rewrite (nth_r_map _ _ _ _ Hk).
  - intros n k Hg m Hm Hk. rewrite (nth_r_map _ _ _ _ Hk). eapply Hfix; eauto.
  - intros m. cbn [assoc]. unfold zlen. cbn [length].
    destruct ((0 <=? m) && (m <? Z.of_nat 0)) eqn:C; [lia|reflexivity].
Qed.

Theorem refactor_idempotent : forall k k', refactor_cst k = ROk k' -> refactor_cst k' = ROk k'.
Proof.
  induction k as [z|b|s|h ks IH] using cst_ind'; intros k' H; try discriminate.
  destruct (refactor_cst_shape _ _ H) as (h0 & ks0 & o & a & E & -> & R).
  inversion E; subst h0 ks0.
  eapply refactor_fixed_from_loop; [exact R|].
  intros n k Hg. destruct (nth_r_map_inv _ _ _ _ Hg) as (c & Hc & Ec).
  eapply IH; [|exact Ec]. eapply nth_error_In; eauto.
Qed.

(* a freshly compiled closure (shared constant vector): what string.dump
   marshals is already a fixed point of the refactoring *)
Theorem refactor_unit_fixed_point : forall fuel u n k,
  refactor_unit fuel u n = ROk k -> refactor_cst k = ROk k.
Proof.
  induction fuel as [|f IH]; intros u n k H; cbn [refactor_unit] in H; [discriminate|].
  destruct (nth_error u (Z.to_nat n)) as [[z|b|s|h]|]; try discriminate.
  destruct (rloop (getk_u u) (refactor_unit f u) (ops h) [] []) as [[o a]| | |] eqn:R; try discriminate.
  inversion H; subst. eapply refactor_fixed_from_loop; [exact R|].
  intros m c Hc. eapply IH; eauto.
Qed.

Theorem refactor_unit_preserves_lookup : forall f u n k',
  refactor_unit (S f) u n = ROk k' ->
  exists h o a, nth_error u (Z.to_nat n) = Some (UCode h) /\ k' = KCode (set_ops h o) a /\
    Forall2 (fun op op' =>
      if loadsK op
      then hi op' = hi op /\
           exists c', nth_error a (Z.to_nat (kidx op')) = Some c' /\
             (getk_u u (kidx op) = ROk c' \/ refactor_unit f u (kidx op) = ROk c')
      else op' = op) (ops h) o.
Proof.
  intros f u n k' H. cbn [refactor_unit] in H.
  destruct (nth_error u (Z.to_nat n)) as [[z|b|s|h]|]; try discriminate.
  destruct (rloop (getk_u u) (refactor_unit f u) (ops h) [] []) as [[o a]| | |] eqn:R; try discriminate.
  inversion H; subst. exists h, o, a. split; [reflexivity|]. split; [reflexivity|].
  destruct (rloop_lookup _ _ _ _ _ _ _ R) as (_ & _ & F); [unfold zlen; cbn; lia|cbn; discriminate|].
  exact F.
Qed.

(* ------------------------------------------------------------------ *)
(* the refactoring keeps every field in its Go range                     *)

Lemma setk_u32 op m : u32_ok op -> 0 <= m < 65536 -> u32_ok (setk op m).
Proof.
  unfold u32_ok, setk, hi. intros H Hm.
  assert (0 <= op / 65536 < 65536).
  { split; [apply Z.div_pos; lia|apply Z.div_lt_upper_bound; lia]. }
  lia.
Qed.

Lemma rloop_wf (getk getclos : Z -> rres cst) :
  (forall n k, getk n = ROk k -> wf k) -> (forall n k, getclos n = ROk k -> wf k) ->
  forall ops cmap acc ops' consts',
  rloop getk getclos ops cmap acc = ROk (ops', consts') ->
  Forall u32_ok ops -> (forall k, In k acc -> wf k) -> zlen acc <= 65536 ->
  (forall n m, assoc n cmap = Some m -> 0 <= m < zlen acc) ->
  Forall u32_ok ops' /\ (forall k, In k consts' -> wf k).
Proof.
  intros Hgk Hgc. induction ops as [|op r IH]; intros cmap acc ops' consts' H Hops Hacc Hlen Hinv; cbn [rloop] in H.
  - inversion H; subst. split; [constructor|exact Hacc].
  - inversion Hops as [|? ? Hop Hr]; subst. pose proof (zlen_nonneg acc).
    destruct (loadsK op) eqn:LK.
    + destruct (assoc (kidx op) cmap) as [m|] eqn:AS.
      * destruct (rloop getk getclos r cmap acc) as [[o a]| | |] eqn:R; try discriminate.
        inversion H; subst. destruct (IH _ _ _ _ R Hr Hacc Hlen Hinv) as [F W].
        split; [|exact W]. constructor; [|exact F]. apply setk_u32; [exact Hop|]. pose proof (Hinv _ _ AS). lia.
      * destruct (65535 <? zlen acc) eqn:LT; [discriminate|].
        destruct (if isClosureK op then getclos (kidx op) else getk (kidx op)) as [k| | |] eqn:G; try discriminate.
        destruct (rloop getk getclos r ((kidx op, zlen acc) :: cmap) (acc ++ [k])) as [[o a]| | |] eqn:R; try discriminate.
        inversion H; subst.
        assert (Wk : wf k) by (destruct (isClosureK op); eauto).
        destruct (IH _ _ _ _ R Hr) as [F W].
        -- intros x Hx. apply in_app_or in Hx. destruct Hx as [Hx|[<-|[]]]; auto.
        -- rewrite zlen_snoc. lia.
        -- intros n m. cbn [assoc]. rewrite zlen_snoc. destruct (kidx op =? n).
           ++ intros X; inversion X; lia.
           ++ intros X. pose proof (Hinv _ _ X). lia.
        -- split; [|exact W]. constructor; [|exact F]. apply setk_u32; [exact Hop|lia].
    + destruct (rloop getk getclos r cmap acc) as [[o a]| | |] eqn:R; try discriminate.
      inversion H; subst. destruct (IH _ _ _ _ R Hr Hacc Hlen Hinv) as [F W].
      split; [|exact W]. now constructor.
Qed.

Lemma wf_head_set_ops h o : wf_head h -> Forall u32_ok o -> wf_head (set_ops h o).
Proof. intros [H1 H2 H3 H4 H5] Ho. constructor; cbn; assumption. Qed.

Theorem refactor_wf : forall k k', wf k -> refactor_cst k = ROk k' -> wf k'.
Proof.
  induction k as [z|b|s|h ks IH] using cst_ind'; intros k' Hwf H; try discriminate.
  destruct (refactor_cst_shape _ _ H) as (h0 & ks0 & o & a & E & -> & R).
  inversion E; subst h0 ks0. rewrite wf_code in Hwf. destruct Hwf as [Hh Hks].
  assert (P1 : forall n k, nth_r (map ROk ks) n = ROk k -> wf k).
  { intros n k Hg. destruct (nth_r_map_inv _ _ _ _ Hg) as (c & Hc & Ec). inversion Ec; subst.
    apply Hks. eapply nth_error_In; eauto. }
  assert (P2 : forall n k, nth_r (map refactor_cst ks) n = ROk k -> wf k).
  { intros n k Hg. destruct (nth_r_map_inv _ _ _ _ Hg) as (c & Hc & Ec).
    apply nth_error_In in Hc. eapply IH; eauto. }
  destruct (rloop_wf _ _ P1 P2 _ _ _ _ _ R) as [F W].
  - destruct Hh; assumption.
  - intros k [].
  - unfold zlen; cbn; lia.
  - cbn; discriminate.
  - rewrite wf_code. split; [apply wf_head_set_ops; assumption|exact W].
Qed.

(* a compiled unit whose entries are in range *)
Definition wf_ucst (c : ucst) : Prop :=
  match c with
  | UInt z => - two63 <= z < two63
  | UFlt b => 0 <= b < two64
  | UStr _ => True
  | UCode h => wf_head h
  end.

Theorem refactor_unit_wf : forall fuel u n k,
  (forall c, In c u -> wf_ucst c) -> refactor_unit fuel u n = ROk k -> wf k.
Proof.
  induction fuel as [|f IH]; intros u n k Hu H; cbn [refactor_unit] in H; [discriminate|].
  destruct (nth_error u (Z.to_nat n)) as [[z|b|s|h]|] eqn:En; try discriminate.
  destruct (rloop (getk_u u) (refactor_unit f u) (ops h) [] []) as [[o a]| | |] eqn:R; try discriminate.
  inversion H; subst. apply nth_error_In in En. pose proof (Hu _ En) as Hh. cbn in Hh.
  assert (P1 : forall m c, getk_u u m = ROk c -> wf c).
  { intros m c. unfold getk_u. destruct (nth_error u (Z.to_nat m)) as [[z|b|s|h']|] eqn:Em; try discriminate;
      intros X; inversion X; subst; apply nth_error_In in Em; pose proof (Hu _ Em) as Q; cbn in Q; cbn [wf]; auto. }
  assert (P2 : forall m c, refactor_unit f u m = ROk c -> wf c).
  { intros m c Hc. eapply IH; eauto. }
  destruct (rloop_wf _ _ P1 P2 _ _ _ _ _ R) as [F W].
  - destruct Hh; assumption.
  - intros c [].
  - unfold zlen; cbn; lia.
  - cbn; discriminate.
  - rewrite wf_code. split; [apply wf_head_set_ops; assumption|exact W].
Qed.

(* ------------------------------------------------------------------ *)
(* string.dump, load, string.dump                                        *)

Theorem dump_load_dump_stable : forall lim k h' ks' bs,
  wf k -> dump k = ROk bs -> refactor_cst k = ROk (KCode h' ks') ->
  48 * zlen bs + 66048 <= lim <= maxAlloc ->
  load_binary lim 0 bs = LFun (KCode h' ks') (upvalueCount h') /\
  dump (KCode h' ks') = ROk bs.
Proof.
  intros lim k h' ks' bs Hwf Hd Hr Hl. unfold dump in *. rewrite Hr in Hd.
  assert (E : bs = marshal (KCode h' ks')) by (inversion Hd; reflexivity). subst bs.
  split.
  - apply load_marshal; [eapply refactor_wf; eauto|].
    unfold marshal, marshalPrefix in Hl. rewrite zlen_app in Hl. fold (cost (KCode h' ks')) in Hl.
    pose proof (zlen_nonneg [6; 0; 4]). lia.
  - now rewrite (refactor_idempotent _ _ Hr).
Qed.

Theorem dump_unit_load_dump_stable : forall lim u n h' ks' bs,
  (forall c, In c u -> wf_ucst c) ->
  dump_unit u n = ROk bs -> refactor_unit (S (length u)) u n = ROk (KCode h' ks') ->
  48 * zlen bs + 66048 <= lim <= maxAlloc ->
  load_binary lim 0 bs = LFun (KCode h' ks') (upvalueCount h') /\
  dump (KCode h' ks') = ROk bs.
Proof.
  intros lim u n h' ks' bs Hu Hd Hr Hl. unfold dump_unit, dump in *. rewrite Hr in Hd.
  assert (E : bs = marshal (KCode h' ks')) by (inversion Hd; reflexivity). subst bs.
  split.
  - apply load_marshal; [eapply refactor_unit_wf; eauto|].
    unfold marshal, marshalPrefix in Hl. rewrite zlen_app in Hl. fold (cost (KCode h' ks')) in Hl.
    pose proof (zlen_nonneg [6; 0; 4]). lia.
  - now rewrite (refactor_unit_fixed_point _ _ _ _ Hr).
Qed.

(* dumping is a function of the code: equal codes, equal bytes; and different
   refactored codes never share their bytes *)
Theorem dump_deterministic_injective : forall k1 k2 k1' k2',
  wf k1 -> wf k2 -> refactor_cst k1 = ROk k1' -> refactor_cst k2 = ROk k2' -> fits k1' ->
  (dump k1 = dump k2 <-> k1' = k2').
Proof.
  intros k1 k2 k1' k2' W1 W2 H1 H2 F. unfold dump. rewrite H1, H2. split.
  - intros E. apply (marshal_injective k1' k2'); [exact (refactor_wf _ _ W1 H1)|exact (refactor_wf _ _ W2 H2)|exact F|].
    exact (f_equal (fun r : rres bytes => match r with ROk x => x | _ => [] end) E).
  - now intros ->.
Qed.

(* the hypotheses are satisfiable: a code whose opcodes use constants 2, 0, 2 and a nested code *)
Definition ex_r_head : chead :=
  mkHead [99] [102] [1627389954; 1627389952; 1627389954; 1644167171; 42] [1; 1; 2; 2; 3] 1 3 0 [[95; 69; 78; 86]].
Definition ex_r_inner : cst :=
  KCode (mkHead [99] [] [1627389953] [5] 0 1 0 []) [KInt 7; KStr [1; 2; 3]].
Definition ex_r_code : cst := KCode ex_r_head [KInt 70000; KFlt 4602678819172646912; KStr [104; 105]; ex_r_inner].
Example ex_refactor :
  refactor_cst ex_r_code =
  ROk (KCode (set_ops ex_r_head [1627389952; 1627389953; 1627389952; 1644167170; 42])
         [KStr [104; 105]; KInt 70000; KCode (mkHead [99] [] [1627389952] [5] 0 1 0 []) [KStr [1; 2; 3]]]).
Proof. vm_compute. reflexivity. Qed.
