(* Marshal/AllocProofs.v — "loading code charges before allocating":
   for every byte string and every non-zero budget, on every path (value,
   error, budget stop) the bytes allocated by one UnmarshalConst call are at
   most 48 times the budget it reports as used, plus 163. *)
From Coq Require Import ZArith List Bool Lia ZifyBool.
From GV Require Import Marshal.Model Marshal.ModelAlloc Marshal.Proofs.
Import ListNotations.
Open Scope Z_scope.

(* r is what a reader returned from budget b, al what it allocated;
   g is a bonus the reader leaves unspent when it succeeds *)
Definition A {T} (g b : Z) (r : ures T) (al : Z) : Prop :=
  match r with
  | UOk _ _ b' => 0 <= b' /\ al + g <= 48 * (b - b')
  | UErr _ b' => al <= 48 * (b - b') + 144
  | UBudget => al <= 48 * b + 144
  | UPanic | UFatal _ | UOutOfFuel => True
  end.

Lemma A_weaken {T} g g' b (r : ures T) al : A g b r al -> g' <= g -> A g' b r al.
Proof. destruct r; cbn; auto. intros [H1 H2] H. split; lia. Qed.

Lemma A_bind {T U} g1 g2 b (r : ures T) ar (f : T -> bytes -> Z -> ures U) af :
  A g1 b r ar -> 0 <= g1 ->
  (forall a i b1, r = UOk a i b1 -> 0 <= b1 -> A g2 b1 (f a i b1) (af a i b1)) ->
  A (g1 + g2) b (ubind r f) (abind r ar af).
Proof.
  unfold abind. destruct r as [a i b1| | | | |]; cbn [ubind A]; intros H Hg Hf; try lia; auto.
  destruct H as [H1 H2]. specialize (Hf a i b1 eq_refl H1).
  destruct (f a i b1); cbn [A] in *; try lia; auto.
Qed.

Lemma A_bind0 {T U} b (r : ures T) ar (f : T -> bytes -> Z -> ures U) af :
  A 0 b r ar ->
  (forall a i b1, r = UOk a i b1 -> 0 <= b1 -> A 0 b1 (f a i b1) (af a i b1)) ->
  A 0 b (ubind r f) (abind r ar af).
Proof. intros H Hf. apply (A_bind 0 0 b r ar f af H ltac:(lia) Hf). Qed.

Lemma consume_some b n b' : consume false b n = Some b' -> n <= b /\ b' = b - n.
Proof. unfold consume. destruct (b <? n) eqn:E; [discriminate|]. intros X; inversion X. lia. Qed.

Lemma consume_none b n : consume false b n = None -> b < n.
Proof. unfold consume. destruct (b <? n) eqn:E; [lia|discriminate]. Qed.

(* a budget step of n pays for c0 bytes allocated around it *)
Lemma A_pay {T} g g' c0 n b b0 (r : ures T) al :
  consume false b n = Some b0 -> 0 <= c0 <= 48 * n -> c0 + g <= 48 * n + g' ->
  A g' b0 r al -> A g b r (c0 + al).
Proof.
  intros C Hc Hg H. apply consume_some in C. destruct r; cbn [A] in *; try lia; auto.
Qed.

Lemma take_none inp n : take inp n = None -> zlen inp < n.
Proof.
  revert n. induction inp as [|x inp IH]; intros n; cbn [take].
  - destruct (n <=? 0) eqn:E; [discriminate|]. unfold zlen; cbn. lia.
  - destruct (n <=? 0) eqn:E; [discriminate|].
    destruct (take inp (n - 1)) as [[a r]|] eqn:T; [discriminate|]. intros _.
    specialize (IH _ T). rewrite zlen_cons. lia.
Qed.

Section Bound.
Variable lim : Z.

Lemma rnd_le n : 0 <= n -> rnd n <= n + n / 4 + 16 /\ 0 <= rnd n.
Proof. intros H. unfold rnd. assert (0 <= n / 4) by (apply Z.div_pos; lia). destruct (n <=? 0) eqn:E; lia. Qed.

Lemma rnd_small n : 1 <= n -> rnd n <= 18 * n.
Proof. intros H. unfold rnd. destruct (n <=? 0) eqn:E; [lia|]. assert (n / 4 <= n) by (apply Z.div_le_upper_bound; lia). lia. Qed.

Lemma A_fixed n inp b : 1 <= n -> 0 <= b ->
  A (30 * n) b (rd_fixed false n inp b) (al_fixed n inp b).
Proof.
  intros Hn Hb. unfold rd_fixed, al_fixed. pose proof (rnd_small n Hn).
  destruct (consume false b n) as [b'|] eqn:C; [|cbn [A]; lia].
  apply consume_some in C. destruct (readfull inp n) as [[a rest]|e]; cbn [A]; lia.
Qed.

Lemma A_fixed8 inp b : 0 <= b -> A 358 b (rd_fixed false 8 inp b) (al_fixed 8 inp b).
Proof.
  intros Hb. unfold rd_fixed, al_fixed. change (rnd 8) with 26.
  destruct (consume false b 8) as [b'|] eqn:C; [|cbn [A]; lia].
  apply consume_some in C. destruct (readfull inp 8) as [[a rest]|e]; cbn [A]; lia.
Qed.

Lemma A_raw n inp b : 0 <= b -> A 0 b (rd_raw n inp b) 0.
Proof. intros Hb. unfold rd_raw. destruct (readfull inp n) as [[a rest]|e]; cbn [A]; lia. Qed.

(* readBytes, with what the caller allocates next for the same bytes (a copy, or the typed slice) *)
Lemma A_bytes_then n item inp b : 1 <= item -> 0 <= b ->
  A 0 b (rd_bytes lim false n item inp b)
        (abind (rd_bytes lim false n item inp b) (al_bytes n item inp b) (fun a _ _ => rnd (zlen a))).
Proof.
  intros Hi Hb. unfold abind, rd_bytes, al_bytes.
  destruct (n <? 0) eqn:E1; [cbn [A]; lia|].
  destruct (maxInt64 / item <? n) eqn:E2; [cbn [A]; lia|].
  destruct (consume false b (n * item)) as [b'|] eqn:C; [|cbn [A]; lia].
  apply consume_some in C. assert (H0 : 0 <= n * item) by nia.
  pose proof (rnd_le (n * item) H0) as [R1 R2].
  assert (R3 : n * item / 4 <= n * item) by (apply Z.div_le_upper_bound; lia).
  assert (R4 : n * item = 0 -> rnd (n * item) = 0) by (intros ->; reflexivity).
  unfold readfull, with_mk.
  destruct (n * item <=? maxEagerRead) eqn:E3; unfold maxEagerRead in E3;
    destruct (take inp (n * item)) as [[a rest]|] eqn:T;
    match goal with |- context [mk ?l ?x ?y] => destruct (mk l x y) end; cbn [A]; auto;
    try (destruct (take_len _ _ _ _ T ltac:(lia)) as [T1 T2]; rewrite T1;
         destruct (Z.eq_dec (n * item) 0) as [Z0|Z0]; [rewrite (R4 Z0); lia|lia]);
    try (apply take_none in T; pose proof (zlen_nonneg inp); destruct (Z.eq_dec (n * item) 0); lia); try lia.
Qed.

Lemma A_str inp b : 0 <= b -> A 358 b (rd_str lim false inp b) (al_str lim inp b).
Proof.
  intros Hb. unfold rd_str, al_str.
  apply (A_bind 358 0); [apply A_fixed8; lia|lia|].
  intros v i1 b1 _ H1. apply A_bytes_then; lia.
Qed.

Lemma A_words n inp b : 0 <= b -> A 0 b (rd_words lim false n inp b) (al_words lim n inp b).
Proof.
  intros Hb. unfold rd_words, al_words.
  pose proof (A_bytes_then n 4 inp b ltac:(lia) Hb) as H. unfold abind in *.
  destruct (rd_bytes lim false n 4 inp b) as [raw i1 b1| | | | |]; cbn [ubind A] in *; auto.
  unfold with_mk. destruct (mk lim n 4); cbn [A]; auto.
Qed.

Lemma A_many {T} (rd : bytes -> Z -> ures T) (al : bytes -> Z -> Z) elt :
  0 <= elt ->
  (forall inp b, 0 <= b -> A (GROW * elt) b (rd inp b) (al inp b)) ->
  forall n have inp b, 0 <= b ->
  A 0 b (rd_many lim rd elt n have inp b) (al_many rd al elt n have inp b).
Proof.
  intros He Hrd. induction n as [|n IH]; intros have inp b Hb; cbn [rd_many al_many].
  - cbn [A]. lia.
  - pose proof (Hrd inp b Hb) as H. unfold abind.
    destruct (rd inp b) as [a i1 b1| | | | |]; cbn [ubind A] in *; try lia; auto.
    destruct H as [H1 H2]. unfold with_mk. destruct (mk lim (2 * (have + 1)) elt); cbn [A]; auto.
    specialize (IH (have + 1) i1 b1 H1).
    destruct (rd_many lim rd elt n (have + 1) i1 b1); cbn [ubind A] in *; try lia; auto.
Qed.

Lemma A_code (rdk : bytes -> Z -> ures cst) (alk : bytes -> Z -> Z) inp b :
  (forall i b', 0 <= b' -> A 240 b' (rdk i b') (alk i b')) -> 0 <= b ->
  A 214 b (rd_code lim false rdk inp b) (al_code lim rdk alk inp b).
Proof.
  intros Hk Hb. unfold rd_code, al_code, SZ_CODE.
  destruct (consume false b 8) as [b0|] eqn:C0; [|cbn [A]; lia].
  pose proof (consume_some _ _ _ C0) as [C0a C0b].
  change (rnd 8) with 26.
  match goal with |- A _ _ _ (144 + (26 + ?x)) => replace (144 + (26 + x)) with (170 + x) by lia end.
  apply (A_pay 214 0 170 8 b b0); [exact C0|lia|lia|].
  apply A_bind0; [eapply A_weaken; [apply A_str; lia|lia]|]. intros src i1 b1 _ P1.
  apply A_bind0; [eapply A_weaken; [apply A_str; lia|lia]|]. intros nm i2 b2 _ P2.
  apply A_bind0; [apply A_raw; lia|]. intros v3 i3 b3 _ P3.
  apply A_bind0; [apply A_words; lia|]. intros opw i4 b4 _ P4.
  apply A_bind0; [eapply A_weaken; [apply A_fixed8; lia|lia]|]. intros v5 i5 b5 _ P5.
  apply A_bind0; [apply A_words; lia|]. intros lnw i6 b6 _ P6.
  apply A_bind0; [eapply A_weaken; [apply A_fixed8; lia|lia]|]. intros v7 i7 b7 _ P7.
  cbv zeta. destruct (signed 64 v7 <? 0); [cbn [A]; lia|].
  apply A_bind0.
  { apply A_many; [unfold SZ_VALUE; lia| |lia]. intros i b' Hb'. change (GROW * SZ_VALUE) with 240. apply Hk. exact Hb'. }
  intros ks i8 b8 _ P8.
  destruct (consume false b8 (2 + 2 + 2 + 8)) as [b9|] eqn:C9; [|cbn [A]; lia].
  pose proof (consume_some _ _ _ C9) as [C9a C9b].
  change (rnd 2 + rnd 2 + rnd 2 + rnd 8) with 80.
  apply (A_pay 0 0 80 (2 + 2 + 2 + 8) b8 b9); [exact C9|lia|lia|].
  apply A_bind0; [apply A_raw; lia|]. intros uc i9 b10 _ P9.
  apply A_bind0; [apply A_raw; lia|]. intros rc i10 b11 _ P10.
  apply A_bind0; [apply A_raw; lia|]. intros cc i11 b12 _ P11.
  apply A_bind0; [apply A_raw; lia|]. intros v12 i12 b13 _ P12.
  destruct ((signed 16 uc <? 0) || (signed 16 rc <? 0) || (signed 16 cc <? 0)); [cbn [A]; lia|].
  destruct (signed 64 v12 <? 0); [cbn [A]; lia|].
  assert (HS : forall i b', 0 <= b' -> A (GROW * SZ_STRING) b' (rd_str lim false i b') (al_str lim i b')).
  { intros i b' H. eapply A_weaken; [apply A_str; exact H|unfold SZ_STRING, GROW; lia]. }
  pose proof (A_many (rd_str lim false) (al_str lim) SZ_STRING ltac:(unfold SZ_STRING; lia) HS
                (loop_count (signed 64 v12) i12) 0 i12 b13 P12) as M.
  destruct (rd_many lim (rd_str lim false) SZ_STRING (loop_count (signed 64 v12) i12) 0 i12 b13);
    cbn [ubind A] in *; try lia; auto.
  destruct (Z.of_nat (length ks) <? signed 64 v7); [exact I|].
  destruct (Z.of_nat (length a) <? signed 64 v12); [exact I|]. cbn [A]. lia.
Qed.

Lemma A_cst : forall fuel inp b, 0 <= b ->
  A 240 b (rd_cst lim false fuel inp b) (al_cst lim fuel inp b).
Proof.
  induction fuel as [|f IH]; intros inp b Hb; cbn [rd_cst al_cst]; [exact I|].
  apply (A_bind 30 210); [apply (A_fixed 1); lia|lia|].
  intros tp i1 b1 _ H1.
  destruct (tp =? T_INT).
  { pose proof (A_fixed8 i1 b1 H1) as H.
    destruct (rd_fixed false 8 i1 b1); cbn [ubind A] in *; try lia; auto. }
  destruct (tp =? T_FLOAT).
  { pose proof (A_fixed8 i1 b1 H1) as H.
    destruct (rd_fixed false 8 i1 b1); cbn [ubind A] in *; try lia; auto. }
  destruct (tp =? T_STRING).
  { pose proof (A_str i1 b1 H1) as H.
    destruct (rd_str lim false i1 b1); cbn [ubind A] in *; try lia; auto. }
  destruct (tp =? T_CODE); [|cbn [A]; lia].
  eapply A_weaken; [apply A_code; [intros; apply IH; assumption|exact H1]|lia].
Qed.

End Bound.

(* UnmarshalConst, ANY byte string, ANY non-zero budget, EVERY path: the bytes
   allocated are at most 48 * (budget spent) + 163. *)
Theorem unmarshal_alloc_bounded : forall lim budget inp,
  0 < budget ->
  match unmarshal lim budget inp with
  | UOk _ _ b' | UErr _ b' => al_unmarshal lim budget inp <= 48 * (budget - b') + 163
  | UBudget => al_unmarshal lim budget inp <= 48 * budget + 163
  | UPanic | UFatal _ | UOutOfFuel => True
  end.
Proof.
  intros lim budget inp Hb. unfold unmarshal, al_unmarshal.
  change (rnd 3) with 19.
  destruct inp as [|x0 [|x1 [|x2 inp]]]; try lia.
  destruct ((x0 =? 6) && (x1 =? 0) && (x2 =? 4)); [|lia].
  assert (E : (budget =? 0) = false) by lia. rewrite E.
  pose proof (A_cst lim (S (length inp)) inp budget ltac:(lia)) as H.
  destruct (rd_cst lim false (S (length inp)) inp budget); cbn [A] in H; try lia; auto.
Qed.

(* in terms of what the caller sees, when memory suffices for the single allocations
   (Proofs.unmarshal_total_no_panic): allocated <= 48 * used + 163 whatever the outcome *)
Corollary go_unmarshal_alloc_bounded : forall lim budget inp,
  0 < budget -> 48 * zlen inp + 66048 <= lim <= maxAlloc ->
  match go_unmarshal lim budget inp with
  | GVal _ used | GErr _ used | GNil used => al_unmarshal lim budget inp <= 48 * used + 163
  | GCrash _ | GOutOfFuel => False
  end.
Proof.
  intros lim budget inp Hb Hl.
  pose proof (unmarshal_alloc_bounded lim budget inp Hb) as B.
  pose proof (unmarshal_total_no_panic lim budget inp Hl) as T.
  unfold go_unmarshal. destruct (unmarshal lim budget inp); try contradiction; exact B.
Qed.
