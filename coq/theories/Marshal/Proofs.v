(* Marshal/Proofs.v — unmarshal ∘ marshal = id (any nesting depth, any
   budget that is unlimited or large enough), injectivity of marshal. *)
From Coq Require Import ZArith List Bool Lia ZifyBool.
From GV Require Import Marshal.Model.
Import ListNotations.
Open Scope Z_scope.

(* ------------------------------------------------------------------ *)
(* little-endian fields                                                 *)

Lemma le_enc_length n v : length (le_enc n v) = n.
Proof. revert v; induction n; intros; cbn [le_enc length]; auto. Qed.

Lemma le_dec_enc n v : le_dec (le_enc n v) = v mod 256 ^ Z.of_nat n.
Proof.
  revert v; induction n; intros v.
  - cbn. now rewrite Z.mod_1_r.
  - cbn [le_enc le_dec]. rewrite IHn.
    rewrite Nat2Z.inj_succ, Z.pow_succ_r by lia.
    rewrite Z.rem_mul_r by lia. lia.
Qed.

Lemma take_app a rest : take (a ++ rest) (zlen a) = Some (a, rest).
Proof.
  unfold zlen. induction a as [|x a IH]; cbn [app length take].
  - destruct rest; reflexivity.
  - destruct (Z.of_nat (S (length a)) <=? 0) eqn:E; [lia|].
    replace (Z.of_nat (S (length a)) - 1) with (Z.of_nat (length a)) by lia.
    now rewrite IH.
Qed.

Lemma readfull_app a rest n : n = zlen a -> readfull (a ++ rest) n = inl (a, rest).
Proof. intros ->. unfold readfull. now rewrite take_app. Qed.

Lemma take_pad_app a rest : take_pad (a ++ rest) (length a) = (a, rest).
Proof. induction a as [|x a IH]; simpl; [destruct rest; reflexivity|now rewrite IH]. Qed.

Lemma signed_unsigned bits v :
  0 < bits -> - 2 ^ (bits - 1) <= v < 2 ^ (bits - 1) -> signed bits (v mod 2 ^ bits) = v.
Proof.
  intros Hb Hv. unfold signed.
  assert (E : 2 ^ bits = 2 * 2 ^ (bits - 1)).
  { replace bits with (Z.succ (bits - 1)) at 1 by lia. rewrite Z.pow_succ_r; lia. }
  assert (0 < 2 ^ (bits - 1)) by (apply Z.pow_pos_nonneg; lia).
  destruct (Z_lt_dec v 0).
  - replace (v mod 2 ^ bits) with (v + 2 ^ bits).
    2:{ apply Z.mod_unique with (q := -1); lia. }
    destruct (v + 2 ^ bits <? 2 ^ (bits - 1)) eqn:C; lia.
  - rewrite Z.mod_small by lia.
    destruct (v <? 2 ^ (bits - 1)) eqn:C; lia.
Qed.

(* ------------------------------------------------------------------ *)
(* budget                                                               *)

Definition after (b n : Z) : Z := if b =? 0 then 0 else b - n.
Definition enough (b n : Z) : Prop := b = 0 \/ n < b.

Lemma consume_ok b n : enough b n -> consume b n = Some (after b n).
Proof.
  unfold enough, consume, after. intros [->|H]; [reflexivity|].
  destruct (b =? 0) eqn:E; [reflexivity|]. destruct (b <? n) eqn:F; [lia|reflexivity].
Qed.

Lemma after_after b n m : enough b (n + m) -> 0 <= m -> after (after b n) m = after b (n + m).
Proof.
  unfold enough, after. intros [->|H] Hm; [reflexivity|].
  destruct (b =? 0) eqn:E; [reflexivity|]. destruct (b - n =? 0) eqn:F; lia.
Qed.

Lemma enough_after b n m : enough b (n + m) -> 0 <= n -> 0 <= m -> enough (after b n) m.
Proof.
  unfold enough, after. intros [->|H] Hn Hm; [left; reflexivity|].
  destruct (b =? 0) eqn:E; [left; reflexivity|right; lia].
Qed.

Lemma enough_le b n m : enough b m -> n <= m -> enough b n.
Proof. unfold enough. intros [->|H] L; [left; reflexivity|right; lia]. Qed.

Lemma after_0 b : after b 0 = b.
Proof. unfold after. destruct (b =? 0) eqn:E; lia. Qed.

(* ------------------------------------------------------------------ *)
(* single fields                                                        *)

Lemma rd_fixed_enc n v rest b :
  enough b (Z.of_nat n) ->
  rd_fixed (Z.of_nat n) (le_enc n v ++ rest) b = UOk (v mod 256 ^ Z.of_nat n) rest (after b (Z.of_nat n)).
Proof.
  intros H. unfold rd_fixed. rewrite consume_ok by exact H.
  rewrite readfull_app by (unfold zlen; now rewrite le_enc_length).
  now rewrite le_dec_enc.
Qed.

Lemma rd_raw_enc n v rest b :
  rd_raw (Z.of_nat n) (le_enc n v ++ rest) b = UOk (v mod 256 ^ Z.of_nat n) rest b.
Proof.
  unfold rd_raw. rewrite readfull_app by (unfold zlen; now rewrite le_enc_length).
  now rewrite le_dec_enc.
Qed.

Lemma rd_raw8_enc v rest b : rd_raw 8 (le_enc 8 v ++ rest) b = UOk (v mod 256 ^ Z.of_nat 8) rest b.
Proof. exact (rd_raw_enc 8 v rest b). Qed.
Lemma rd_raw2_enc v rest b : rd_raw 2 (le_enc 2 v ++ rest) b = UOk (v mod 256 ^ Z.of_nat 2) rest b.
Proof. exact (rd_raw_enc 2 v rest b). Qed.

Definition two63 := 9223372036854775808.

Lemma mk_ok lim n elt : 0 <= n -> 0 <= elt -> n * elt <= lim -> lim <= maxAlloc -> mk lim n elt = MkOk.
Proof.
  intros. unfold mk.
  destruct (n <? 0) eqn:A; [lia|]. destruct (maxAlloc <? n * elt) eqn:B; [lia|].
  destruct (lim <? n * elt) eqn:C; [lia|]. reflexivity.
Qed.

Lemma maxAlloc_lt : maxAlloc < two63.
Proof. reflexivity. Qed.

Lemma len64 n : 0 <= n < two63 -> signed 64 (n mod 256 ^ Z.of_nat 8) = n.
Proof.
  intros H. change (256 ^ Z.of_nat 8) with (2 ^ 64). apply signed_unsigned; [lia|].
  change (2 ^ (64 - 1)) with two63. lia.
Qed.

Section RoundTrip.
Variable lim : Z.
Hypothesis lim_ok : 0 <= lim <= maxAlloc.

Lemma zlen_nonneg {A} (l : list A) : 0 <= zlen l.
Proof. unfold zlen. lia. Qed.

Lemma rd_str_enc s rest b :
  zlen s <= lim -> enough b (8 + zlen s) ->
  rd_str lim (wstr s ++ rest) b = UOk s rest (after b (8 + zlen s)).
Proof.
  intros Hl Hb. pose proof (zlen_nonneg s) as Hn. pose proof maxAlloc_lt.
  unfold rd_str, wstr. rewrite <- app_assoc.
  change 8 with (Z.of_nat 8) at 1.
  rewrite rd_fixed_enc by (eapply enough_le; [exact Hb|change (Z.of_nat 8) with 8; lia]).
  rewrite len64 by lia. change (Z.of_nat 8) with 8.
  unfold u64. rewrite Z.mod_small by (unfold two64; unfold two63 in *; lia).
  rewrite consume_ok by (apply enough_after; [exact Hb|lia|lia]).
  rewrite after_after by (auto; lia).
  rewrite mk_ok by lia.
  destruct (zlen s =? 0) eqn:E.
  - destruct s; [reflexivity|unfold zlen in E; cbn [length] in E; lia].
  - destruct s as [|x s]; [unfold zlen in E; cbn in E; lia|].
    cbn [app]. unfold zlen. rewrite Nat2Z.id.
    change (x :: s ++ rest) with ((x :: s) ++ rest). now rewrite take_pad_app.
Qed.

(* ------------------------------------------------------------------ *)
(* arrays of fixed-width words                                          *)

Lemma chunks4_cons v r : chunks4 (le_enc 4 v ++ r) = le_dec (le_enc 4 v) :: chunks4 r.
Proof. reflexivity. Qed.

Lemma chunks4_enc (l : list Z) :
  chunks4 (flat_map (le_enc 4) l) = map (fun v => v mod 2 ^ 32) l.
Proof.
  induction l as [|v l IH]; [reflexivity|].
  cbn [flat_map map]. rewrite chunks4_cons, IH, le_dec_enc. reflexivity.
Qed.

Lemma flat_map_len4 (l : list Z) : zlen (flat_map (le_enc 4) l) = 4 * zlen l.
Proof.
  unfold zlen. induction l as [|v l IH]; [reflexivity|].
  cbn [flat_map]. rewrite app_length, le_enc_length. cbn [length]. lia.
Qed.

Definition u32_ok (v : Z) := 0 <= v < 2 ^ 32.
Definition i32_ok (v : Z) := - 2 ^ 31 <= v < 2 ^ 31.
Definition i16_ok (v : Z) := - 2 ^ 15 <= v < 2 ^ 15.

Lemma map_mod_u32 l : Forall u32_ok l -> map (fun v => v mod 2 ^ 32) l = l.
Proof.
  induction 1 as [|v l Hv _ IH]; [reflexivity|]. cbn [map]. rewrite IH. f_equal.
  apply Z.mod_small. exact Hv.
Qed.

Lemma map_signed_i32 l : Forall i32_ok l -> map (signed 32) (map (fun v => v mod 2 ^ 32) l) = l.
Proof.
  induction 1 as [|v l Hv _ IH]; [reflexivity|]. cbn [map]. rewrite IH. f_equal.
  apply signed_unsigned; [lia|]. exact Hv.
Qed.

(* ------------------------------------------------------------------ *)
(* sequences                                                            *)

Fixpoint sumz {A} (f : A -> Z) (l : list A) : Z :=
  match l with [] => 0 | a :: r => f a + sumz f r end.

Lemma sumz_nonneg {A} (f : A -> Z) l : (forall a, In a l -> 0 <= f a) -> 0 <= sumz f l.
Proof.
  induction l as [|a l IH]; cbn [sumz]; intros H; [lia|].
  assert (0 <= f a) by (apply H; now left).
  assert (0 <= sumz f l) by (apply IH; intros; apply H; now right). lia.
Qed.

Lemma rd_many_enc {A} (rd : bytes -> Z -> ures A) (enc : A -> bytes) (cost : A -> Z) (l : list A) :
  (forall a, In a l -> 0 <= cost a /\
     forall rest b, enough b (cost a) -> rd (enc a ++ rest) b = UOk a rest (after b (cost a))) ->
  forall rest b, enough b (sumz cost l) ->
  rd_many rd (length l) (flat_map enc l ++ rest) b = UOk l rest (after b (sumz cost l)).
Proof.
  induction l as [|a l IH]; intros H rest b Hb.
  - cbn. now rewrite after_0.
  - cbn [length flat_map rd_many sumz] in *.
    destruct (H a (or_introl eq_refl)) as [Ha Hrd].
    assert (Hs : 0 <= sumz cost l) by (apply sumz_nonneg; intros x Hx; apply H; now right).
    rewrite <- app_assoc. rewrite Hrd by (eapply enough_le; [exact Hb|lia]).
    rewrite IH; [|intros x Hx; apply H; now right|apply enough_after; [exact Hb|lia|lia]].
    rewrite after_after by (auto; lia). reflexivity.
Qed.

(* ------------------------------------------------------------------ *)
(* well-formed constants: what a Go value of these types can hold, and   *)
(* every slice small enough for one allocation of lim bytes              *)

Definition byte_ok (v : Z) := 0 <= v < 256.

Record wf_head (h : chead) : Prop := {
  wf_src : zlen (source h) <= lim;
  wf_name : zlen (name h) <= lim;
  wf_ops : Forall u32_ok (ops h);
  wf_nops : zlen (ops h) * SZ_OP <= lim;
  wf_lines : Forall i32_ok (lines h);
  wf_nlines : zlen (lines h) * SZ_LINE <= lim;
  wf_uc : i16_ok (upvalueCount h);
  wf_rc : i16_ok (regCount h);
  wf_cc : i16_ok (cellCount h);
  wf_ups : Forall (fun s => zlen s <= lim) (upnames h);
  wf_nups : zlen (upnames h) * SZ_STRING <= lim }.

Fixpoint wf (k : cst) : Prop :=
  match k with
  | KInt z => - two63 <= z < two63
  | KFlt b => 0 <= b < two64
  | KStr s => zlen s <= lim
  | KCode h ks =>
      wf_head h /\ zlen ks * SZ_VALUE <= lim /\
      (fix all (l : list cst) : Prop := match l with [] => True | k :: r => wf k /\ all r end) ks
  end.

Lemma wf_all ks :
  (fix all (l : list cst) : Prop := match l with [] => True | k :: r => wf k /\ all r end) ks <->
  (forall k, In k ks -> wf k).
Proof.
  induction ks as [|k ks IH]; cbn [In]; [tauto|].
  rewrite IH. split.
  - intros [H1 H2] x [<-|Hx]; auto.
  - intros H. split; [apply H; now left|intros x Hx; apply H; now right].
Qed.

(* induction principle for the nested type *)
Section CstInd.
  Variable P : cst -> Prop.
  Hypothesis HI : forall z, P (KInt z).
  Hypothesis HF : forall b, P (KFlt b).
  Hypothesis HS : forall s, P (KStr s).
  Hypothesis HC : forall h ks, (forall k, In k ks -> P k) -> P (KCode h ks).
  Fixpoint cst_ind' (k : cst) : P k :=
    match k with
    | KInt z => HI z
    | KFlt b => HF b
    | KStr s => HS s
    | KCode h ks =>
        HC h ks ((fix go (l : list cst) : forall k, In k l -> P k :=
                    match l with
                    | [] => fun k (H : In k []) => match H with end
                    | x :: r => fun k (H : In k (x :: r)) =>
                        match H with
                        | or_introl E => eq_rect x P (cst_ind' x) k E
                        | or_intror H' => go r k H'
                        end
                    end) ks)
    end.
End CstInd.

(* nesting depth: the fuel rd_cst needs *)
Fixpoint depth (k : cst) : nat :=
  match k with
  | KCode _ ks => S (fold_right (fun k n => Nat.max (depth k) n) O ks)
  | _ => 1%nat
  end.

Lemma depth_in k ks : In k ks -> (depth k <= fold_right (fun k n => Nat.max (depth k) n) O ks)%nat.
Proof.
  induction ks as [|x ks IH]; cbn [In fold_right]; [tauto|].
  intros [->|H]; [lia|]. specialize (IH H). lia.
Qed.

Definition cost (k : cst) : Z := zlen (marshal_cst k).

Lemma wstr_len s : zlen (wstr s) = 8 + zlen s.
Proof. unfold wstr, zlen. rewrite app_length, le_enc_length. lia. Qed.

Lemma zlen_app {A} (a b : list A) : zlen (a ++ b) = zlen a + zlen b.
Proof. unfold zlen. rewrite app_length. lia. Qed.

Lemma zlen_cons {A} (x : A) l : zlen (x :: l) = 1 + zlen l.
Proof. unfold zlen. cbn [length]. lia. Qed.

Lemma zlen_enc n v : zlen (le_enc n v) = Z.of_nat n.
Proof. unfold zlen. now rewrite le_enc_length. Qed.

Lemma zlen_flat_map {A} (f : A -> bytes) l : zlen (flat_map f l) = sumz (fun a => zlen (f a)) l.
Proof.
  induction l as [|a l IH]; [reflexivity|]. cbn [flat_map sumz]. now rewrite zlen_app, IH.
Qed.

Lemma rd_strs_enc ups rest b :
  Forall (fun s => zlen s <= lim) ups ->
  enough b (zlen (flat_map wstr ups)) ->
  rd_many (rd_str lim) (length ups) (flat_map wstr ups ++ rest) b
  = UOk ups rest (after b (zlen (flat_map wstr ups))).
Proof.
  intros Hu Hb. rewrite zlen_flat_map in *.
  apply rd_many_enc with (cost := fun s => zlen (wstr s)); [|exact Hb].
  intros s Hs. split; [apply zlen_nonneg|].
  intros r b' Hb'. rewrite wstr_len in *. apply rd_str_enc; [|exact Hb'].
  rewrite Forall_forall in Hu. now apply Hu.
Qed.

Ltac bud Hb :=
  first [ eapply enough_le; [exact Hb|lia]
        | apply enough_after; [eapply enough_le; [exact Hb|lia]|lia|lia] ].

Theorem rd_cst_marshal : forall k fuel rest b,
  wf k -> (depth k <= fuel)%nat -> enough b (cost k) ->
  rd_cst lim fuel (marshal_cst k ++ rest) b = UOk k rest (after b (cost k)).
Proof.
  induction k as [z|bits|s|h ks IH] using cst_ind'; intros fuel rest b Hwf Hfuel Hb;
    (destruct fuel as [|f]; [cbn [depth] in Hfuel; lia|]); unfold cost in *.
  - (* KInt *)
    cbn [marshal_cst wf] in *. rewrite zlen_cons, zlen_enc in *.
    cbn [rd_cst]. change (T_INT :: le_enc 8 z) with (le_enc 1 T_INT ++ le_enc 8 z).
    rewrite <- app_assoc. change 1 with (Z.of_nat 1) at 1.
    rewrite rd_fixed_enc by (eapply enough_le; [exact Hb|lia]).
    change (T_INT mod 256 ^ Z.of_nat 1) with 1. cbv iota beta. change (1 =? T_INT) with true. cbv iota.
    change 8 with (Z.of_nat 8) at 1.
    rewrite rd_fixed_enc by (apply enough_after; [exact Hb|lia|lia]).
    rewrite after_after by (auto; lia).
    change (256 ^ Z.of_nat 8) with (2 ^ 64). rewrite signed_unsigned; [reflexivity|lia|].
    change (2 ^ (64 - 1)) with two63. exact Hwf.
  - (* KFlt *)
    cbn [marshal_cst wf] in *. rewrite zlen_cons, zlen_enc in *.
    cbn [rd_cst]. change (T_FLOAT :: le_enc 8 bits) with (le_enc 1 T_FLOAT ++ le_enc 8 bits).
    rewrite <- app_assoc. change 1 with (Z.of_nat 1) at 1.
    rewrite rd_fixed_enc by (eapply enough_le; [exact Hb|lia]).
    change (T_FLOAT mod 256 ^ Z.of_nat 1) with 2. cbv iota beta.
    change (2 =? T_INT) with false. change (2 =? T_FLOAT) with true. cbv iota.
    change 8 with (Z.of_nat 8) at 1.
    rewrite rd_fixed_enc by (apply enough_after; [exact Hb|lia|lia]).
    rewrite after_after by (auto; lia).
    change (256 ^ Z.of_nat 8) with two64. rewrite Z.mod_small by exact Hwf. reflexivity.
  - (* KStr *)
    cbn [marshal_cst wf] in *. rewrite zlen_cons, wstr_len in *.
    pose proof (zlen_nonneg s).
    cbn [rd_cst]. change (T_STRING :: wstr s) with (le_enc 1 T_STRING ++ wstr s).
    rewrite <- app_assoc. change 1 with (Z.of_nat 1) at 1.
    rewrite rd_fixed_enc by (eapply enough_le; [exact Hb|lia]).
    change (T_STRING mod 256 ^ Z.of_nat 1) with 4. cbv iota beta.
    change (4 =? T_INT) with false. change (4 =? T_FLOAT) with false. change (4 =? T_STRING) with true. cbv iota.
    rewrite rd_str_enc; [|exact Hwf|apply enough_after; [exact Hb|lia|lia]].
    rewrite after_after by (auto; lia). reflexivity.
  - (* KCode *)
    cbn [wf] in Hwf. destruct Hwf as (Hh & Hnk & Hks). rewrite wf_all in Hks.
    destruct Hh. cbn [depth] in Hfuel.
    pose proof maxAlloc_lt as HM. unfold two63 in HM.
    pose proof (zlen_nonneg (source h)). pose proof (zlen_nonneg (name h)).
    pose proof (zlen_nonneg (ops h)). pose proof (zlen_nonneg (lines h)).
    pose proof (zlen_nonneg ks). pose proof (zlen_nonneg (upnames h)).
    unfold SZ_OP, SZ_LINE, SZ_VALUE, SZ_STRING in *.
    (* sizes *)
    set (cks := zlen (flat_map marshal_cst ks)) in *.
    set (cup := zlen (flat_map wstr (upnames h))) in *.
    assert (Hcks : 0 <= cks) by apply zlen_nonneg.
    assert (Hcup : 0 <= cup) by apply zlen_nonneg.
    assert (Hcost : zlen (marshal_cst (KCode h ks)) =
              1 + (8 + zlen (source h)) + (8 + zlen (name h)) + 8 + 4 * zlen (ops h) + 8 + 4 * zlen (lines h) + 8
              + cks + 14 + cup).
    { cbn [marshal_cst]. unfold marshal_head1, marshal_head2.
      rewrite zlen_cons. repeat rewrite zlen_app. repeat rewrite wstr_len. repeat rewrite zlen_enc.
      repeat rewrite flat_map_len4. fold cks. fold cup. lia. }
    rewrite Hcost in *. clear Hcost.
    cbn [marshal_cst rd_cst]. unfold marshal_head1, marshal_head2.
    change (T_CODE :: ?x) with (le_enc 1 T_CODE ++ x).
    repeat rewrite <- app_assoc.
    change 1 with (Z.of_nat 1) at 1.
    rewrite rd_fixed_enc by (eapply enough_le; [exact Hb|lia]).
    change (T_CODE mod 256 ^ Z.of_nat 1) with 5. cbv iota beta.
    change (5 =? T_INT) with false. change (5 =? T_FLOAT) with false.
    change (5 =? T_STRING) with false. change (5 =? T_CODE) with true. cbv iota.
    change (Z.of_nat 1) with 1.
    unfold rd_code.
    (* header *)
    rewrite consume_ok by (bud Hb).
    rewrite after_after by (try lia; bud Hb).
    rewrite rd_str_enc; [|assumption|bud Hb].
    rewrite after_after by (try lia; bud Hb).
    rewrite rd_str_enc; [|assumption|bud Hb].
    rewrite after_after by (try lia; bud Hb).
    rewrite rd_raw8_enc. rewrite len64 by (unfold two63; lia).
    unfold SZ_OP. rewrite mk_ok by lia.
    unfold u64. rewrite (Z.mod_small (zlen (ops h))) by (unfold two64; lia).
    rewrite Z.mod_small by (unfold two64; lia).
    rewrite consume_ok by (bud Hb).
    rewrite after_after by (try lia; bud Hb).
    rewrite readfull_app by (rewrite flat_map_len4; lia).
    rewrite rd_raw8_enc. rewrite len64 by (unfold two63; lia).
    unfold SZ_LINE. rewrite mk_ok by lia.
    rewrite (Z.mod_small (zlen (lines h))) by (unfold two64; lia).
    rewrite Z.mod_small by (unfold two64; lia).
    rewrite consume_ok by (bud Hb).
    rewrite after_after by (try lia; bud Hb).
    rewrite readfull_app by (rewrite flat_map_len4; lia).
    rewrite rd_raw8_enc. rewrite len64 by (unfold two63; lia).
    unfold SZ_VALUE. rewrite mk_ok by lia.
    unfold zlen at 1. rewrite Nat2Z.id.
    (* constants *)
    rewrite (rd_many_enc (rd_cst lim f) marshal_cst (fun k => zlen (marshal_cst k))).
    2:{ intros k Hk. split; [apply zlen_nonneg|]. intros r b' Hb'.
        apply IH; [exact Hk|apply Hks; exact Hk| |exact Hb'].
        pose proof (depth_in k ks Hk). lia. }
    2:{ rewrite <- zlen_flat_map. fold cks. bud Hb. }
    rewrite <- zlen_flat_map. fold cks.
    rewrite after_after by (try lia; bud Hb).
    (* tail *)
    rewrite consume_ok by (bud Hb).
    rewrite after_after by (try lia; bud Hb).
    rewrite rd_raw2_enc.
    rewrite rd_raw2_enc.
    rewrite rd_raw2_enc.
    rewrite rd_raw8_enc. rewrite len64 by (unfold two63; lia).
    unfold SZ_STRING. rewrite mk_ok by lia.
    unfold zlen at 1. rewrite Nat2Z.id.
    rewrite rd_strs_enc; [|assumption|fold cup; bud Hb].
    fold cup.
    rewrite after_after by (try lia; bud Hb).
    rewrite chunks4_enc, map_mod_u32 by assumption.
    rewrite chunks4_enc, map_signed_i32 by assumption.
    change (256 ^ Z.of_nat 2) with (2 ^ 16).
    rewrite !signed_unsigned by (try lia; assumption).
    destruct h as [a1 a2 a3 a4 a5 a6 a7 a8]; cbn [source name ops lines upvalueCount regCount cellCount upnames].
    f_equal. f_equal. lia.
Qed.

End RoundTrip.

(* ------------------------------------------------------------------ *)
(* top level                                                            *)

Lemma depth_le_len k : (depth k <= length (marshal_cst k))%nat.
Proof.
  induction k as [z|bits|s|h ks IH] using cst_ind'; cbn [depth marshal_cst length]; try lia.
  rewrite !app_length.
  assert (fold_right (fun k n => Nat.max (depth k) n) O ks <= length (flat_map marshal_cst ks))%nat.
  { induction ks as [|x ks IHks]; cbn [fold_right flat_map]; [lia|].
    rewrite app_length.
    assert (depth x <= length (marshal_cst x))%nat by (apply IH; now left).
    assert (fold_right (fun k n => Nat.max (depth k) n) 0%nat ks <= length (flat_map marshal_cst ks))%nat
      by (apply IHks; intros; apply IH; now right).
    lia. }
  lia.
Qed.

Theorem unmarshal_marshal : forall lim k rest b,
  0 <= lim <= maxAlloc -> wf lim k -> enough b (cost k) ->
  unmarshal lim b (marshal k ++ rest) = UOk k rest (after b (cost k)).
Proof.
  intros lim k rest b Hl Hwf Hb. unfold marshal, marshalPrefix, unmarshal. cbn [app].
  apply rd_cst_marshal; auto.
  pose proof (depth_le_len k). rewrite app_length. lia.
Qed.

Corollary unmarshal_marshal_unlimited : forall lim k rest,
  0 <= lim <= maxAlloc -> wf lim k -> unmarshal lim 0 (marshal k ++ rest) = UOk k rest 0.
Proof. intros. rewrite unmarshal_marshal by (auto; now left). reflexivity. Qed.

Theorem marshal_injective : forall lim k1 k2,
  0 <= lim <= maxAlloc -> wf lim k1 -> wf lim k2 -> marshal k1 = marshal k2 -> k1 = k2.
Proof.
  intros lim k1 k2 Hl H1 H2 E.
  pose proof (unmarshal_marshal_unlimited lim k1 [] Hl H1) as U1.
  pose proof (unmarshal_marshal_unlimited lim k2 [] Hl H2) as U2.
  rewrite E in U1. rewrite U1 in U2. now inversion U2.
Qed.

(* prefix-freeness: what follows a marshalled constant does not matter *)
Theorem marshal_prefix_free : forall lim k1 k2 r1 r2,
  0 <= lim <= maxAlloc -> wf lim k1 -> wf lim k2 -> marshal k1 ++ r1 = marshal k2 ++ r2 -> k1 = k2 /\ r1 = r2.
Proof.
  intros lim k1 k2 r1 r2 Hl H1 H2 E.
  pose proof (unmarshal_marshal_unlimited lim k1 r1 Hl H1) as U1.
  pose proof (unmarshal_marshal_unlimited lim k2 r2 Hl H2) as U2.
  rewrite E in U1. rewrite U1 in U2. now inversion U2.
Qed.

(* load(string-with-a-dump) gives back the code, with UpvalueCount cells *)
Theorem load_marshal : forall lim h ks,
  0 <= lim <= maxAlloc -> wf lim (KCode h ks) -> 0 <= upvalueCount h ->
  load_binary lim 0 (marshal (KCode h ks)) = LFun (KCode h ks) (upvalueCount h).
Proof.
  intros lim h ks Hl Hwf Hu. unfold load_binary, go_unmarshal.
  rewrite <- (app_nil_r (marshal (KCode h ks))).
  rewrite unmarshal_marshal_unlimited by auto.
  destruct (upvalueCount h <? 0) eqn:E; [lia|reflexivity].
Qed.

(* The hypotheses are satisfiable: a code with a nested code, every constant type. *)
Definition ex_head : chead := mkHead [99; 0; 255] [102] [1610678273; 1644232704] [1; -1] 1 3 0 [[95; 69; 78; 86]].
Definition ex_code : cst :=
  KCode ex_head [KInt (-5); KFlt 9218868437227405312; KStr [0; 1; 2]; KCode ex_head [KInt (two63 - 1)]].
Example ex_code_wf : wf 1048576 ex_code.
Proof.
  assert (W : wf_head 1048576 ex_head).
  { constructor; cbn; repeat constructor; unfold u32_ok, i32_ok, i16_ok, zlen; cbn; lia. }
  cbn [wf ex_code]. repeat split; try exact W; unfold zlen, two63, two64, SZ_VALUE; cbn; try lia; try discriminate; try reflexivity;
    repeat constructor; unfold u32_ok, i32_ok, zlen; cbn; lia.
Qed.
Example ex_code_roundtrip : unmarshal 1048576 0 (marshal ex_code ++ [7; 7]) = UOk ex_code [7; 7] 0.
Proof. vm_compute. reflexivity. Qed.

(* ------------------------------------------------------------------ *)
(* what the decoder does on hostile input: refutations                  *)

(* 28 bytes: prefix, a code with empty source and name and 2^40 opcodes *)
Definition crash_witness : bytes := [6; 0; 4; 5] ++ repeat 0 16 ++ le_enc 8 (2 ^ 40).

(* "UnmarshalConst never takes the process down" is false: with 4 GiB available to one
   allocation the 28-byte stream requests 4 TiB before anything is checked, budget or not. *)
Theorem unmarshal_total_no_panic_refuted :
  exists inp, length inp = 28%nat /\
    go_unmarshal (2 ^ 32) 0 inp = GCrash (2 ^ 42) /\
    go_unmarshal (2 ^ 32) 1000 inp = GCrash (2 ^ 42) /\
    load_binary (2 ^ 32) 1000 inp = LCrash (2 ^ 42).
Proof. exists crash_witness. vm_compute. repeat split. Qed.

(* a negative length is a Go run-time panic that the blanket recover() turns into "nil, no error" *)
Theorem unmarshal_swallows_panic :
  exists inp, go_unmarshal (2 ^ 32) 0 inp = GNil 0.
Proof. exists ([6; 0; 4; 4] ++ le_enc 8 (-5)). vm_compute. reflexivity. Qed.

(* 58 bytes that decode to a code with UpvalueCount = -1: load() panics in NewClosure *)
Definition upvalue_witness : bytes := [6; 0; 4; 5] ++ repeat 0 40 ++ [255; 255; 0; 0; 0; 0] ++ repeat 0 8.
Theorem load_no_panic_refuted :
  exists inp, length inp = 58%nat /\ load_binary (2 ^ 32) 0 inp = LPanic.
Proof. exists upvalue_witness. vm_compute. split; reflexivity. Qed.
