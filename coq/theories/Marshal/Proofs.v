(* Marshal/Proofs.v — unmarshal ∘ marshal = id, injectivity of marshal. *)
From Coq Require Import ZArith List Bool Lia ZifyBool.
From GV Require Import Marshal.Model.
Import ListNotations.
Open Scope Z_scope.

(* ------------------------------------------------------------------ *)
(* little-endian fields                                                 *)

Lemma le_enc_length n v : length (le_enc n v) = n.
Proof. revert v; induction n; intros; cbn [le_enc length]; auto. Qed.

Lemma le_dec_enc n v : le_dec (le_enc n v) = v mod 256 ^ Z.of_nat n.
Proof.
  revert v; induction n; intros v.
  - cbn. now rewrite Z.mod_1_r.
  - cbn [le_enc le_dec]. rewrite IHn.
    rewrite Nat2Z.inj_succ, Z.pow_succ_r by lia.
    rewrite Z.rem_mul_r by lia. lia.
Qed.

Lemma take_app a rest : take (a ++ rest) (zlen a) = Some (a, rest).
Proof.
  unfold zlen. induction a as [|x a IH]; cbn [app length take].
  - destruct rest; reflexivity.
  - destruct (Z.of_nat (S (length a)) <=? 0) eqn:E; [lia|].
    replace (Z.of_nat (S (length a)) - 1) with (Z.of_nat (length a)) by lia.
    now rewrite IH.
Qed.
