(* Marshal/Proofs.v — unmarshal ∘ marshal = id (any nesting depth, any
   budget that is unlimited or large enough), injectivity of marshal. *)
From Coq Require Import ZArith List Bool Lia ZifyBool.
From GV Require Import Marshal.Model.
Import ListNotations.
Open Scope Z_scope.

(* ------------------------------------------------------------------ *)
(* little-endian fields                                                 *)

Lemma le_enc_length n v : length (le_enc n v) = n.
Proof. revert v; induction n; intros; cbn [le_enc length]; auto. Qed.

Lemma le_dec_enc n v : le_dec (le_enc n v) = v mod 256 ^ Z.of_nat n.
Proof.
  revert v; induction n; intros v.
  - cbn. now rewrite Z.mod_1_r.
  - cbn [le_enc le_dec]. rewrite IHn.
    rewrite Nat2Z.inj_succ, Z.pow_succ_r by lia.
    rewrite Z.rem_mul_r by lia. lia.
Qed.

Lemma take_app a rest : take (a ++ rest) (zlen a) = Some (a, rest).
Proof.
  unfold zlen. induction a as [|x a IH]; cbn [app length take].
  - destruct rest; reflexivity.
  - destruct (Z.of_nat (S (length a)) <=? 0) eqn:E; [lia|].
    replace (Z.of_nat (S (length a)) - 1) with (Z.of_nat (length a)) by lia.
    now rewrite IH.
Qed.

Lemma readfull_app a rest n : n = zlen a -> readfull (a ++ rest) n = inl (a, rest).
Proof. intros ->. unfold readfull. now rewrite take_app. Qed.

Lemma signed_unsigned bits v :
  0 < bits -> - 2 ^ (bits - 1) <= v < 2 ^ (bits - 1) -> signed bits (v mod 2 ^ bits) = v.
Proof.
  intros Hb Hv. unfold signed.
  assert (E : 2 ^ bits = 2 * 2 ^ (bits - 1)).
  { replace bits with (Z.succ (bits - 1)) at 1 by lia. rewrite Z.pow_succ_r; lia. }
  assert (0 < 2 ^ (bits - 1)) by (apply Z.pow_pos_nonneg; lia).
  destruct (Z_lt_dec v 0).
  - replace (v mod 2 ^ bits) with (v + 2 ^ bits).
    2:{ apply Z.mod_unique with (q := -1); lia. }
    destruct (v + 2 ^ bits <? 2 ^ (bits - 1)) eqn:C; lia.
  - rewrite Z.mod_small by lia.
    destruct (v <? 2 ^ (bits - 1)) eqn:C; lia.
Qed.

(* ------------------------------------------------------------------ *)
(* generic list facts                                                   *)

Lemma zlen_nonneg {A} (l : list A) : 0 <= zlen l.
Proof. unfold zlen. lia. Qed.

Lemma zlen_app {A} (a b : list A) : zlen (a ++ b) = zlen a + zlen b.
Proof. unfold zlen. rewrite app_length. lia. Qed.

Lemma zlen_cons {A} (x : A) l : zlen (x :: l) = 1 + zlen l.
Proof. unfold zlen. cbn [length]. lia. Qed.

Lemma zlen_enc n v : zlen (le_enc n v) = Z.of_nat n.
Proof. unfold zlen. now rewrite le_enc_length. Qed.

Lemma wstr_len s : zlen (wstr s) = 8 + zlen s.
Proof. unfold wstr. rewrite zlen_app, zlen_enc. lia. Qed.

Fixpoint sumz {A} (f : A -> Z) (l : list A) : Z :=
  match l with [] => 0 | a :: r => f a + sumz f r end.

Lemma sumz_nonneg {A} (f : A -> Z) l : (forall a, In a l -> 0 <= f a) -> 0 <= sumz f l.
Proof.
  induction l as [|a l IH]; cbn [sumz]; intros H; [lia|].
  assert (0 <= f a) by (apply H; now left).
  assert (0 <= sumz f l) by (apply IH; intros; apply H; now right). lia.
Qed.

Lemma sumz_ge_len {A} (f : A -> Z) l : (forall a, In a l -> 1 <= f a) -> zlen l <= sumz f l.
Proof.
  induction l as [|a l IH]; cbn [sumz]; intros H; [unfold zlen; cbn; lia|].
  rewrite zlen_cons. assert (1 <= f a) by (apply H; now left).
  assert (zlen l <= sumz f l) by (apply IH; intros; apply H; now right). lia.
Qed.

Lemma sumz_in {A} (f : A -> Z) l a : (forall x, In x l -> 0 <= f x) -> In a l -> f a <= sumz f l.
Proof.
  induction l as [|x l IH]; cbn [sumz In]; intros H Hi; [tauto|]. destruct Hi as [->|Hi].
  - assert (0 <= sumz f l) by (apply sumz_nonneg; intros; apply H; now right). lia.
  - assert (0 <= f x) by (apply H; now left).
    assert (f a <= sumz f l) by (apply IH; auto; intros; apply H; now right). lia.
Qed.

Lemma zlen_flat_map {A} (f : A -> bytes) l : zlen (flat_map f l) = sumz (fun a => zlen (f a)) l.
Proof.
  induction l as [|a l IH]; [reflexivity|]. cbn [flat_map sumz]. now rewrite zlen_app, IH.
Qed.

Lemma chunks4_cons v r : chunks4 (le_enc 4 v ++ r) = le_dec (le_enc 4 v) :: chunks4 r.
Proof. reflexivity. Qed.

Lemma chunks4_enc (l : list Z) :
  chunks4 (flat_map (le_enc 4) l) = map (fun v => v mod 2 ^ 32) l.
Proof.
  induction l as [|v l IH]; [reflexivity|].
  cbn [flat_map map]. rewrite chunks4_cons, IH, le_dec_enc. reflexivity.
Qed.

Lemma flat_map_len4 (l : list Z) : zlen (flat_map (le_enc 4) l) = 4 * zlen l.
Proof.
  unfold zlen. induction l as [|v l IH]; [reflexivity|].
  cbn [flat_map]. rewrite app_length, le_enc_length. cbn [length]. lia.
Qed.

Definition u32_ok (v : Z) := 0 <= v < 2 ^ 32.
Definition i32_ok (v : Z) := - 2 ^ 31 <= v < 2 ^ 31.
Definition cnt_ok (v : Z) := 0 <= v < 2 ^ 15.   (* a non-negative int16 *)

Lemma map_mod_u32 l : Forall u32_ok l -> map (fun v => v mod 2 ^ 32) l = l.
Proof.
  induction 1 as [|v l Hv _ IH]; [reflexivity|]. cbn [map]. rewrite IH. f_equal.
  apply Z.mod_small. exact Hv.
Qed.

Lemma map_signed_i32 l : Forall i32_ok l -> map (signed 32) (map (fun v => v mod 2 ^ 32) l) = l.
Proof.
  induction 1 as [|v l Hv _ IH]; [reflexivity|]. cbn [map]. rewrite IH. f_equal.
  apply signed_unsigned; [lia|]. exact Hv.
Qed.

Definition two63 := 9223372036854775808.

Lemma len64 n : 0 <= n < two63 -> signed 64 (n mod 256 ^ Z.of_nat 8) = n.
Proof.
  intros H. change (256 ^ Z.of_nat 8) with (2 ^ 64). apply signed_unsigned; [lia|].
  change (2 ^ (64 - 1)) with two63. lia.
Qed.

Lemma mk_ok lim n elt : 0 <= n -> 0 <= elt -> n * elt <= lim -> lim <= maxAlloc -> mk lim n elt = MkOk.
Proof.
  intros. unfold mk.
  destruct (n <? 0) eqn:A; [lia|]. destruct (maxAlloc <? n * elt) eqn:B; [lia|].
  destruct (lim <? n * elt) eqn:C; [lia|]. reflexivity.
Qed.

(* induction principle for the nested type *)
Section CstInd.
  Variable P : cst -> Prop.
  Hypothesis HI : forall z, P (KInt z).
  Hypothesis HF : forall b, P (KFlt b).
  Hypothesis HS : forall s, P (KStr s).
  Hypothesis HC : forall h ks, (forall k, In k ks -> P k) -> P (KCode h ks).
  Fixpoint cst_ind' (k : cst) : P k :=
    match k with
    | KInt z => HI z
    | KFlt b => HF b
    | KStr s => HS s
    | KCode h ks =>
        HC h ks ((fix go (l : list cst) : forall k, In k l -> P k :=
                    match l with
                    | [] => fun k (H : In k []) => match H with end
                    | x :: r => fun k (H : In k (x :: r)) =>
                        match H with
                        | or_introl E => eq_rect x P (cst_ind' x) k E
                        | or_intror H' => go r k H'
                        end
                    end) ks)
    end.
End CstInd.

(* ------------------------------------------------------------------ *)
(* well-formed constants: what Go values of these types can hold         *)

Record wf_head (h : chead) : Prop := {
  wf_ops : Forall u32_ok (ops h);
  wf_lines : Forall i32_ok (lines h);
  wf_uc : cnt_ok (upvalueCount h);
  wf_rc : cnt_ok (regCount h);
  wf_cc : cnt_ok (cellCount h) }.

Fixpoint wf (k : cst) : Prop :=
  match k with
  | KInt z => - two63 <= z < two63
  | KFlt b => 0 <= b < two64
  | KStr s => True
  | KCode h ks =>
      wf_head h /\
      (fix all (l : list cst) : Prop := match l with [] => True | k :: r => wf k /\ all r end) ks
  end.

Lemma wf_all ks :
  (fix all (l : list cst) : Prop := match l with [] => True | k :: r => wf k /\ all r end) ks <->
  (forall k, In k ks -> wf k).
Proof.
  induction ks as [|k ks IH]; cbn [In]; [tauto|].
  rewrite IH. split.
  - intros [H1 H2] x [<-|Hx]; auto.
  - intros H. split; [apply H; now left|intros x Hx; apply H; now right].
Qed.

Lemma wf_code h ks : wf (KCode h ks) <-> wf_head h /\ forall k, In k ks -> wf k.
Proof. cbn [wf]. now rewrite wf_all. Qed.

(* nesting depth: the fuel rd_cst needs *)
Fixpoint depth (k : cst) : nat :=
  match k with
  | KCode _ ks => S (fold_right (fun k n => Nat.max (depth k) n) O ks)
  | _ => 1%nat
  end.

Lemma depth_in k ks : In k ks -> (depth k <= fold_right (fun k n => Nat.max (depth k) n) O ks)%nat.
Proof.
  induction ks as [|x ks IH]; cbn [In fold_right]; [tauto|].
  intros [->|H]; [lia|]. specialize (IH H). lia.
Qed.

(* number of bytes of the encoding = budget the reader consumes *)
Definition cost (k : cst) : Z := zlen (marshal_cst k).

Lemma cost_pos k : 1 <= cost k.
Proof.
  unfold cost. destruct k; cbn [marshal_cst]; rewrite zlen_cons;
  match goal with |- 1 <= 1 + zlen ?l => pose proof (zlen_nonneg l); lia end.
Qed.

Lemma cost_code h ks :
  cost (KCode h ks) =
    1 + (8 + zlen (source h)) + (8 + zlen (name h)) + 8 + 4 * zlen (ops h) + 8 + 4 * zlen (lines h) + 8
    + sumz cost ks + 14 + sumz (fun s => 8 + zlen s) (upnames h).
Proof.
  unfold cost at 1. cbn [marshal_cst]. unfold marshal_head1, marshal_head2.
  rewrite zlen_cons. repeat rewrite zlen_app. repeat rewrite wstr_len. repeat rewrite zlen_enc.
  repeat rewrite flat_map_len4. rewrite !zlen_flat_map.
  assert (E : sumz (fun a => zlen (wstr a)) (upnames h) = sumz (fun s => 8 + zlen s) (upnames h)).
  { induction (upnames h) as [|x l IH]; cbn [sumz]; [reflexivity|]. now rewrite wstr_len, IH. }
  rewrite E. unfold cost. lia.
Qed.

(* ------------------------------------------------------------------ *)
(* the reader on well-formed encodings                                  *)

Section RoundTrip.
Variable lim : Z.
Variable unl : bool.
Hypothesis lim_ok : 66048 <= lim <= maxAlloc.

Definition after (b n : Z) : Z := if unl then b else b - n.
Definition enough (b n : Z) : Prop := unl = true \/ n <= b.

Lemma consume_ok b n : enough b n -> consume unl b n = Some (after b n).
Proof.
  unfold enough, consume, after. destruct unl; [reflexivity|]. intros [H|H]; [discriminate|].
  destruct (b <? n) eqn:F; [lia|reflexivity].
Qed.

Lemma after_after b n m : after (after b n) m = after b (n + m).
Proof. unfold after. destruct unl; lia. Qed.

Lemma enough_after b n m : enough b (n + m) -> enough (after b n) m.
Proof. unfold enough, after. destruct unl; [now left|]. intros [H|H]; [discriminate|right; lia]. Qed.

Lemma enough_le b n m : enough b m -> n <= m -> enough b n.
Proof. unfold enough. intros [H|H] L; [now left|right; lia]. Qed.

Lemma after_0 b : after b 0 = b.
Proof. unfold after. destruct unl; lia. Qed.

Lemma rd_fixed_enc n v rest b :
  enough b (Z.of_nat n) ->
  rd_fixed unl (Z.of_nat n) (le_enc n v ++ rest) b = UOk (v mod 256 ^ Z.of_nat n) rest (after b (Z.of_nat n)).
Proof.
  intros H. unfold rd_fixed. rewrite consume_ok by exact H.
  rewrite readfull_app by (unfold zlen; now rewrite le_enc_length).
  now rewrite le_dec_enc.
Qed.

Lemma rd_fixed1_enc v rest b : enough b 1 ->
  rd_fixed unl 1 (le_enc 1 v ++ rest) b = UOk (v mod 256 ^ Z.of_nat 1) rest (after b 1).
Proof. exact (rd_fixed_enc 1 v rest b). Qed.
Lemma rd_fixed8_enc v rest b : enough b 8 ->
  rd_fixed unl 8 (le_enc 8 v ++ rest) b = UOk (v mod 256 ^ Z.of_nat 8) rest (after b 8).
Proof. exact (rd_fixed_enc 8 v rest b). Qed.

Lemma rd_raw_enc n v rest b :
  rd_raw (Z.of_nat n) (le_enc n v ++ rest) b = UOk (v mod 256 ^ Z.of_nat n) rest b.
Proof.
  unfold rd_raw. rewrite readfull_app by (unfold zlen; now rewrite le_enc_length).
  now rewrite le_dec_enc.
Qed.
Lemma rd_raw8_enc v rest b : rd_raw 8 (le_enc 8 v ++ rest) b = UOk (v mod 256 ^ Z.of_nat 8) rest b.
Proof. exact (rd_raw_enc 8 v rest b). Qed.
Lemma rd_raw2_enc v rest b : rd_raw 2 (le_enc 2 v ++ rest) b = UOk (v mod 256 ^ Z.of_nat 2) rest b.
Proof. exact (rd_raw_enc 2 v rest b). Qed.

Lemma with_mk_ok {A} n elt (k : ures A) : 0 <= n -> 0 <= elt -> n * elt <= lim -> with_mk lim n elt k = k.
Proof. intros. unfold with_mk. rewrite mk_ok by lia. reflexivity. Qed.

Lemma rd_bytes_enc a n item rest b :
  0 <= n -> 1 <= item <= 4 -> zlen a = n * item -> 2 * (n * item) + 512 <= lim -> enough b (n * item) ->
  rd_bytes lim unl n item (a ++ rest) b = UOk a rest (after b (n * item)).
Proof.
  intros Hn Hi Ha Hl Hb. unfold rd_bytes.
  destruct (n <? 0) eqn:E1; [lia|].
  assert (n <= maxInt64 / item).
  { apply Z.div_le_lower_bound; [lia|]. unfold maxInt64. unfold maxAlloc in lim_ok. nia. }
  destruct (maxInt64 / item <? n) eqn:E2; [lia|].
  rewrite consume_ok by exact Hb.
  rewrite readfull_app by lia.
  destruct (n * item <=? maxEagerRead) eqn:E3; rewrite with_mk_ok; try reflexivity; try lia.
Qed.

Lemma rd_str_enc s rest b :
  2 * zlen s + 512 <= lim -> enough b (8 + zlen s) ->
  rd_str lim unl (wstr s ++ rest) b = UOk s rest (after b (8 + zlen s)).
Proof.
  intros Hl Hb. pose proof (zlen_nonneg s) as Hn.
  unfold rd_str, wstr. rewrite <- app_assoc.
  rewrite rd_fixed8_enc by (eapply enough_le; [exact Hb|lia]). cbn [ubind].
  rewrite len64 by (unfold two63; unfold maxAlloc in lim_ok; lia).
  rewrite rd_bytes_enc; try lia.
  - rewrite after_after. do 2 f_equal. lia.
  - apply enough_after. eapply enough_le; [exact Hb|lia].
Qed.

Lemma rd_words_enc (l : list Z) rest b :
  2 * (4 * zlen l) + 512 <= lim -> enough b (4 * zlen l) ->
  rd_words lim unl (zlen l) (flat_map (le_enc 4) l ++ rest) b
  = UOk (map (fun v => v mod 2 ^ 32) l) rest (after b (4 * zlen l)).
Proof.
  intros Hl Hb. pose proof (zlen_nonneg l). unfold rd_words.
  rewrite rd_bytes_enc; try lia; [|rewrite flat_map_len4; lia|replace (zlen l * 4) with (4 * zlen l) by lia; exact Hb].
  cbn [ubind]. rewrite with_mk_ok by lia. rewrite chunks4_enc. do 2 f_equal. lia.
Qed.

Lemma rd_many_enc {A} (rd : bytes -> Z -> ures A) (enc : A -> bytes) (cst_ : A -> Z) (elt : Z) (l : list A) :
  (forall a, In a l -> 0 <= cst_ a /\
     forall rest b, enough b (cst_ a) -> rd (enc a ++ rest) b = UOk a rest (after b (cst_ a))) ->
  forall have rest b, 0 <= have -> 0 <= elt -> 2 * (have + zlen l) * elt <= lim ->
  enough b (sumz cst_ l) ->
  rd_many lim rd elt (length l) have (flat_map enc l ++ rest) b = UOk l rest (after b (sumz cst_ l)).
Proof.
  induction l as [|a l IH]; intros H have rest b Hh He Hl Hb.
  - cbn. now rewrite after_0.
  - cbn [length flat_map rd_many sumz] in *. rewrite zlen_cons in Hl.
    pose proof (zlen_nonneg l) as Hz.
    destruct (H a (or_introl eq_refl)) as [Ha Hrd].
    assert (Hs : 0 <= sumz cst_ l) by (apply sumz_nonneg; intros x Hx; apply H; now right).
    rewrite <- app_assoc. rewrite Hrd by (eapply enough_le; [exact Hb|lia]). cbn [ubind].
    rewrite with_mk_ok by nia.
    rewrite IH; [|intros x Hx; apply H; now right|lia|lia|nia|apply enough_after; exact Hb].
    cbn [ubind]. now rewrite after_after.
Qed.

Lemma loop_count_eq {A} (l : list A) (inp : bytes) : zlen l <= zlen inp -> loop_count (zlen l) inp = length l.
Proof.
  intros H. unfold loop_count. destruct (zlen l <=? 4096); [|rewrite Z.min_l by lia]; unfold zlen; apply Nat2Z.id.
Qed.

Lemma rd_strs_enc ups have rest b :
  0 <= have ->
  2 * (have + zlen ups) * SZ_STRING <= lim ->
  2 * sumz (fun s => 8 + zlen s) ups + 512 <= lim ->
  enough b (sumz (fun s => 8 + zlen s) ups) ->
  rd_many lim (rd_str lim unl) SZ_STRING (length ups) have (flat_map wstr ups ++ rest) b
  = UOk ups rest (after b (sumz (fun s => 8 + zlen s) ups)).
Proof.
  intros Hh Hl Hs Hb.
  apply rd_many_enc; auto; [|unfold SZ_STRING; lia].
  intros s Hi. pose proof (zlen_nonneg s). split; [lia|].
  intros r b' Hb'. apply rd_str_enc; [|exact Hb'].
  assert (8 + zlen s <= sumz (fun s => 8 + zlen s) ups).
  { apply (sumz_in (fun s => 8 + zlen s)); auto. intros x _. pose proof (zlen_nonneg x). lia. }
  lia.
Qed.

Ltac bud Hb := first [ exact Hb | eapply enough_le; [exact Hb|lia] ].

Theorem rd_cst_marshal : forall k fuel rest b,
  wf k -> (depth k <= fuel)%nat -> 48 * cost k + 512 <= lim -> enough b (cost k) ->
  rd_cst lim unl fuel (marshal_cst k ++ rest) b = UOk k rest (after b (cost k)).
Proof.
  induction k as [z|bits|s|h ks IH] using cst_ind'; intros fuel rest b Hwf Hfuel Hsz Hb;
    (destruct fuel as [|f]; [cbn [depth] in Hfuel; lia|]).
  - (* KInt *)
    unfold cost in *. cbn [marshal_cst wf] in *. rewrite zlen_cons, zlen_enc in *.
    cbn [rd_cst]. change (T_INT :: le_enc 8 z) with (le_enc 1 T_INT ++ le_enc 8 z).
    rewrite <- app_assoc. rewrite rd_fixed1_enc by bud Hb. cbn [ubind].
    change (T_INT mod 256 ^ Z.of_nat 1 =? T_INT) with true. cbv iota.
    rewrite rd_fixed8_enc by (apply enough_after; bud Hb). cbn [ubind].
    rewrite after_after. change (256 ^ Z.of_nat 8) with (2 ^ 64).
    rewrite signed_unsigned; [reflexivity|lia|]. change (2 ^ (64 - 1)) with two63. exact Hwf.
  - (* KFlt *)
    unfold cost in *. cbn [marshal_cst wf] in *. rewrite zlen_cons, zlen_enc in *.
    cbn [rd_cst]. change (T_FLOAT :: le_enc 8 bits) with (le_enc 1 T_FLOAT ++ le_enc 8 bits).
    rewrite <- app_assoc. rewrite rd_fixed1_enc by bud Hb. cbn [ubind].
    change (T_FLOAT mod 256 ^ Z.of_nat 1 =? T_INT) with false.
    change (T_FLOAT mod 256 ^ Z.of_nat 1 =? T_FLOAT) with true. cbv iota.
    rewrite rd_fixed8_enc by (apply enough_after; bud Hb). cbn [ubind].
    rewrite after_after. change (256 ^ Z.of_nat 8) with two64. rewrite Z.mod_small by exact Hwf. reflexivity.
  - (* KStr *)
    unfold cost in *. cbn [marshal_cst wf] in *. rewrite zlen_cons, wstr_len in *.
    pose proof (zlen_nonneg s).
    cbn [rd_cst]. change (T_STRING :: wstr s) with (le_enc 1 T_STRING ++ wstr s).
    rewrite <- app_assoc. rewrite rd_fixed1_enc by bud Hb. cbn [ubind].
    change (T_STRING mod 256 ^ Z.of_nat 1 =? T_INT) with false.
    change (T_STRING mod 256 ^ Z.of_nat 1 =? T_FLOAT) with false.
    change (T_STRING mod 256 ^ Z.of_nat 1 =? T_STRING) with true. cbv iota.
    rewrite rd_str_enc; [|lia|apply enough_after; bud Hb]. cbn [ubind].
    now rewrite after_after.
  - (* KCode *)
    rewrite wf_code in Hwf. destruct Hwf as (Hh & Hks). destruct Hh. cbn [depth] in Hfuel.
    rewrite cost_code in *.
    pose proof (zlen_nonneg (source h)). pose proof (zlen_nonneg (name h)).
    pose proof (zlen_nonneg (ops h)). pose proof (zlen_nonneg (lines h)).
    pose proof (zlen_nonneg ks). pose proof (zlen_nonneg (upnames h)).
    set (cks := sumz cost ks) in *.
    set (cup := sumz (fun s => 8 + zlen s) (upnames h)) in *.
    assert (Hcks : zlen ks <= cks) by (apply sumz_ge_len; intros; apply cost_pos).
    assert (Hcup : zlen (upnames h) <= cup).
    { apply sumz_ge_len. intros x _. pose proof (zlen_nonneg x). lia. }
    assert (Hcup8 : 8 * zlen (upnames h) <= cup).
    { unfold cup. clear. induction (upnames h) as [|x l IHl]; cbn [sumz]; [unfold zlen; cbn; lia|].
      rewrite zlen_cons. pose proof (zlen_nonneg x). lia. }
    assert (HM : maxAlloc < two63) by reflexivity. unfold two63 in HM.
    cbn [marshal_cst rd_cst]. unfold marshal_head1, marshal_head2.
    change (T_CODE :: ?x) with (le_enc 1 T_CODE ++ x).
    repeat rewrite <- app_assoc.
    rewrite rd_fixed1_enc by bud Hb. cbn [ubind].
    change (T_CODE mod 256 ^ Z.of_nat 1 =? T_INT) with false.
    change (T_CODE mod 256 ^ Z.of_nat 1 =? T_FLOAT) with false.
    change (T_CODE mod 256 ^ Z.of_nat 1 =? T_STRING) with false.
    change (T_CODE mod 256 ^ Z.of_nat 1 =? T_CODE) with true. cbv iota.
    unfold rd_code.
    rewrite consume_ok by (apply enough_after; bud Hb). rewrite after_after.
    rewrite rd_str_enc; [|lia|apply enough_after; bud Hb]. cbn [ubind]. rewrite after_after.
    rewrite rd_str_enc; [|lia|apply enough_after; bud Hb]. cbn [ubind]. rewrite after_after.
    rewrite rd_raw8_enc. cbn [ubind]. rewrite len64 by (unfold two63; lia).
    rewrite rd_words_enc; [|lia|apply enough_after; bud Hb]. cbn [ubind]. rewrite after_after.
    rewrite rd_fixed8_enc by (apply enough_after; bud Hb). cbn [ubind]. rewrite after_after.
    rewrite len64 by (unfold two63; lia).
    rewrite rd_words_enc; [|lia|apply enough_after; bud Hb]. cbn [ubind]. rewrite after_after.
    rewrite rd_fixed8_enc by (apply enough_after; bud Hb). cbn [ubind]. rewrite after_after.
    rewrite len64 by (unfold two63; lia).
    destruct (zlen ks <? 0) eqn:E0; [lia|].
    rewrite loop_count_eq.
    2:{ rewrite zlen_app, zlen_flat_map. fold cost. fold cks.
        match goal with |- _ <= _ + zlen ?r => pose proof (zlen_nonneg r) end. lia. }
    rewrite (rd_many_enc (rd_cst lim unl f) marshal_cst cost).
    2:{ intros k Hk. pose proof (cost_pos k). split; [lia|]. intros r b' Hb'.
        assert (cost k <= cks) by (apply (sumz_in cost); auto; intros x _; pose proof (cost_pos x); lia).
        apply IH; [exact Hk|apply Hks; exact Hk| |lia|exact Hb'].
        pose proof (depth_in k ks Hk). lia. }
    2:lia. 2:unfold SZ_VALUE; lia. 2:unfold SZ_VALUE; lia.
    2:{ fold cks. apply enough_after; bud Hb. }
    cbn [ubind]. fold cks. rewrite after_after.
    rewrite consume_ok by (apply enough_after; bud Hb). rewrite after_after.
    rewrite rd_raw2_enc. cbn [ubind]. rewrite rd_raw2_enc. cbn [ubind]. rewrite rd_raw2_enc. cbn [ubind].
    rewrite rd_raw8_enc. cbn [ubind]. rewrite len64 by (unfold two63; lia).
    change (256 ^ Z.of_nat 2) with (2 ^ 16).
    unfold cnt_ok in *.
    rewrite !signed_unsigned by (try lia; change (2 ^ (16 - 1)) with (2 ^ 15); lia).
    destruct ((upvalueCount h <? 0) || (regCount h <? 0) || (cellCount h <? 0)) eqn:E1; [lia|].
    destruct (zlen (upnames h) <? 0) eqn:E2; [lia|].
    rewrite loop_count_eq.
    2:{ rewrite zlen_app, zlen_flat_map.
        assert (E : sumz (fun a => zlen (wstr a)) (upnames h) = cup).
        { unfold cup. clear. induction (upnames h) as [|x l IHl]; cbn [sumz]; [reflexivity|]. now rewrite wstr_len, IHl. }
        rewrite E. pose proof (zlen_nonneg rest). lia. }
    rewrite rd_strs_enc; [|lia|unfold SZ_STRING, bytes in *; lia|fold cup; lia|fold cup; apply enough_after; bud Hb].
    cbn [ubind]. fold cup. rewrite after_after.
    destruct (Z.of_nat (length ks) <? zlen ks) eqn:E3; [unfold zlen in E3; lia|].
    destruct (Z.of_nat (length (upnames h)) <? zlen (upnames h)) eqn:E4; [unfold zlen in E4; lia|].
    rewrite map_mod_u32 by assumption. rewrite map_signed_i32 by assumption.
    destruct h as [a1 a2 a3 a4 a5 a6 a7 a8]; cbn [source name ops lines upvalueCount regCount cellCount upnames].
    f_equal. f_equal. lia.
Qed.

End RoundTrip.

(* ------------------------------------------------------------------ *)
(* every byte string, every budget: the reader never panics, never asks  *)
(* for more memory than a constant times the input, never runs out of    *)
(* fuel                                                                  *)

Definition sf {A} (strict : bool) (n0 : Z) (r : ures A) : Prop :=
  match r with
  | UOk _ rest _ => zlen rest + (if strict then 1 else 0) <= n0
  | UErr _ _ | UBudget => True
  | UPanic | UFatal _ | UOutOfFuel => False
  end.

Lemma sf_weaken {A} s n0 n1 (r : ures A) : sf s n0 r -> n0 <= n1 -> sf false n1 r.
Proof. destruct r; cbn; auto. destruct s; lia. Qed.

Lemma sf_bind {A B} s n0 (r : ures A) (f : A -> bytes -> Z -> ures B) :
  sf false n0 r -> (forall a i b, r = UOk a i b -> sf s n0 (f a i b)) -> sf s n0 (ubind r f).
Proof. destruct r; cbn; auto; try tauto. Qed.

Lemma take_len inp n a rest : take inp n = Some (a, rest) -> 0 <= n -> zlen a = n /\ zlen inp = n + zlen rest.
Proof.
  revert n a rest. induction inp as [|x inp IH]; intros n a rest H Hn; cbn [take] in H.
  - destruct (n <=? 0) eqn:E; [|discriminate]. inversion H; subst. unfold zlen; cbn. lia.
  - destruct (n <=? 0) eqn:E.
    + inversion H; subst. unfold zlen; cbn [length]. lia.
    + destruct (take inp (n - 1)) as [[a' r']|] eqn:T; [|discriminate]. inversion H; subst.
      destruct (IH _ _ _ T) as [H1 H2]; [lia|]. rewrite !zlen_cons. lia.
Qed.

Section Safe.
Variable lim : Z.
Variable unl : bool.
Variable N : Z.
Hypothesis HN : 48 * N + 66048 <= lim <= maxAlloc.

Lemma with_mk_sf {A} s n0 n elt (k : ures A) :
  0 <= n -> 0 <= elt -> n * elt <= lim -> sf s n0 k -> sf s n0 (with_mk lim n elt k).
Proof. intros. unfold with_mk. rewrite mk_ok by lia. assumption. Qed.

Lemma rd_fixed_sf n inp b : 1 <= n -> sf true (zlen inp) (rd_fixed unl n inp b).
Proof.
  intros Hn. unfold rd_fixed. destruct (consume unl b n); [|exact I].
  unfold readfull. destruct (take inp n) as [[a rest]|] eqn:T; [|exact I].
  cbn. destruct (take_len _ _ _ _ T); lia.
Qed.

Lemma rd_raw_sf n inp b : 1 <= n -> sf true (zlen inp) (rd_raw n inp b).
Proof.
  intros Hn. unfold rd_raw, readfull. destruct (take inp n) as [[a rest]|] eqn:T; [|exact I].
  cbn. destruct (take_len _ _ _ _ T); lia.
Qed.

(* on success the bytes returned are n*item many and were in the input *)
Lemma rd_bytes_sf n item inp b : 1 <= item <= 4 -> zlen inp <= N ->
  sf false (zlen inp) (rd_bytes lim unl n item inp b) /\
  (forall a rest b', rd_bytes lim unl n item inp b = UOk a rest b' -> 0 <= n /\ zlen a = n * item /\ n * item <= zlen inp).
Proof.
  intros Hi Hl. unfold rd_bytes. pose proof (zlen_nonneg inp) as Hz.
  destruct (n <? 0) eqn:E1; [split; [exact I|discriminate]|].
  destruct (maxInt64 / item <? n) eqn:E2; [split; [exact I|discriminate]|].
  destruct (consume unl b (n * item)) as [b1|]; [|split; [exact I|discriminate]].
  assert (0 <= n * item) by nia.
  unfold readfull.
  destruct (n * item <=? maxEagerRead) eqn:E3.
  - unfold maxEagerRead in E3.
    destruct (take inp (n * item)) as [[a rest]|] eqn:T.
    + destruct (take_len _ _ _ _ T) as [T1 T2]; [lia|]. pose proof (zlen_nonneg rest).
      split; [apply with_mk_sf; try lia; cbn; lia|].
      unfold with_mk. rewrite mk_ok by lia. intros ? ? ? X; inversion X; subst. lia.
    + split; [apply with_mk_sf; try lia; exact I|].
      unfold with_mk. rewrite mk_ok by lia. discriminate.
  - destruct (take inp (n * item)) as [[a rest]|] eqn:T.
    + destruct (take_len _ _ _ _ T) as [T1 T2]; [lia|]. pose proof (zlen_nonneg rest).
      split; [apply with_mk_sf; try lia; cbn; lia|].
      unfold with_mk. rewrite mk_ok by lia. intros ? ? ? X; inversion X; subst. lia.
    + split; [apply with_mk_sf; try lia; exact I|].
      unfold with_mk. rewrite mk_ok by lia. discriminate.
Qed.

Lemma rd_str_sf inp b : zlen inp <= N -> sf true (zlen inp) (rd_str lim unl inp b).
Proof.
  intros Hl. unfold rd_str.
  pose proof (rd_fixed_sf 8 inp b) as F. destruct (rd_fixed unl 8 inp b) as [v i1 b1| | | | |]; cbn [ubind sf] in *; auto; try (apply F; lia).
  specialize (F ltac:(lia)).
  destruct (rd_bytes_sf (signed 64 v) 1 i1 b1) as [S _]; [lia|lia|].
  destruct (rd_bytes lim unl (signed 64 v) 1 i1 b1); cbn [sf] in *; auto. lia.
Qed.

Lemma rd_words_sf n inp b : zlen inp <= N -> sf false (zlen inp) (rd_words lim unl n inp b).
Proof.
  intros Hl. unfold rd_words.
  destruct (rd_bytes_sf n 4 inp b) as [S L]; [lia|lia|].
  destruct (rd_bytes lim unl n 4 inp b) as [raw i1 b1| | | | |] eqn:E; cbn [ubind sf] in *; auto.
  destruct (L _ _ _ eq_refl) as (L1 & L2 & L3).
  apply with_mk_sf; try lia. exact S.
Qed.

Lemma rd_many_sf {A} (rd : bytes -> Z -> ures A) elt M :
  0 <= elt <= 24 ->
  (forall inp b, zlen inp <= M -> sf true (zlen inp) (rd inp b)) ->
  forall n have inp b, 0 <= have -> zlen inp <= M -> have + zlen inp <= N ->
  match rd_many lim rd elt n have inp b with
  | UOk l rest _ => zlen rest + Z.of_nat n <= zlen inp /\ length l = n
  | UErr _ _ | UBudget => True
  | _ => False
  end.
Proof.
  intros He Hrd. induction n as [|n IH]; intros have inp b Hh Hm Hl; cbn [rd_many].
  - split; [lia|reflexivity].
  - pose proof (Hrd inp b Hm) as S.
    destruct (rd inp b) as [a i1 b1| | | | |]; cbn [ubind sf] in *; auto.
    pose proof (zlen_nonneg i1).
    unfold with_mk. rewrite mk_ok by nia.
    specialize (IH (have + 1) i1 b1 ltac:(lia) ltac:(lia) ltac:(lia)).
    destruct (rd_many lim rd elt n (have + 1) i1 b1); cbn [ubind]; auto.
    destruct IH as [I1 I2]. split; [lia|cbn [length]; lia].
Qed.

Lemma loop_count_nonneg_case {A} n inp (l : list A) (rest : bytes) :
  0 <= n -> zlen rest + Z.of_nat (loop_count n inp) <= zlen inp -> length l = loop_count n inp ->
  (Z.of_nat (length l) <? n) = false.
Proof.
  intros Hn H1 H2. unfold loop_count in *. pose proof (zlen_nonneg rest). pose proof (zlen_nonneg inp).
  destruct (n <=? 4096) eqn:E.
  - rewrite H2. rewrite Z2Nat.id by lia. lia.
  - destruct (Z_le_dec n (zlen inp + 1)).
    + rewrite Z.min_l in * by lia. rewrite H2. rewrite Z2Nat.id by lia. lia.
    + rewrite Z.min_r in * by lia. rewrite Z2Nat.id in H1 by lia. lia.
Qed.

Lemma rd_code_sf (rdk : bytes -> Z -> ures cst) inp b :
  zlen inp <= N ->
  (forall i b', zlen i <= zlen inp -> sf true (zlen i) (rdk i b')) ->
  sf false (zlen inp) (rd_code lim unl rdk inp b).
Proof.
  intros Hl Hk. unfold rd_code. set (n0 := zlen inp).
  destruct (consume unl b 8) as [b0|]; [|exact I].
  apply sf_bind; [eapply sf_weaken; [apply rd_str_sf; lia|lia]|]. intros src i1 b1 E1.
  pose proof (rd_str_sf inp b0 Hl) as S1. rewrite E1 in S1. cbn [sf] in S1.
  apply sf_bind; [eapply sf_weaken; [apply rd_str_sf; lia|lia]|]. intros nm i2 b2 E2.
  pose proof (rd_str_sf i1 b1 ltac:(lia)) as S2. rewrite E2 in S2. cbn [sf] in S2.
  apply sf_bind; [eapply sf_weaken; [apply rd_raw_sf; lia|lia]|]. intros v3 i3 b3 E3.
  pose proof (rd_raw_sf 8 i2 b2 ltac:(lia)) as S3. rewrite E3 in S3. cbn [sf] in S3.
  apply sf_bind; [eapply sf_weaken; [apply rd_words_sf; lia|lia]|]. intros opw i4 b4 E4.
  pose proof (rd_words_sf (signed 64 v3) i3 b3 ltac:(lia)) as S4. rewrite E4 in S4. cbn [sf] in S4.
  apply sf_bind; [eapply sf_weaken; [apply rd_fixed_sf; lia|lia]|]. intros v5 i5 b5 E5.
  pose proof (rd_fixed_sf 8 i4 b4 ltac:(lia)) as S5. rewrite E5 in S5. cbn [sf] in S5.
  apply sf_bind; [eapply sf_weaken; [apply rd_words_sf; lia|lia]|]. intros lnw i6 b6 E6.
  pose proof (rd_words_sf (signed 64 v5) i5 b5 ltac:(lia)) as S6. rewrite E6 in S6. cbn [sf] in S6.
  apply sf_bind; [eapply sf_weaken; [apply rd_fixed_sf; lia|lia]|]. intros v7 i7 b7 E7.
  pose proof (rd_fixed_sf 8 i6 b6 ltac:(lia)) as S7. rewrite E7 in S7. cbn [sf] in S7.
  cbv zeta. destruct (signed 64 v7 <? 0) eqn:N7; [exact I|].
  pose proof (zlen_nonneg i7) as Z7.
  pose proof (rd_many_sf rdk SZ_VALUE (zlen i7) ltac:(unfold SZ_VALUE; lia)
                (fun i b' H => Hk i b' ltac:(lia)) (loop_count (signed 64 v7) i7) 0 i7 b7
                ltac:(lia) ltac:(lia) ltac:(lia)) as M8.
  destruct (rd_many lim rdk SZ_VALUE (loop_count (signed 64 v7) i7) 0 i7 b7) as [ks i8 b8| | | | |] eqn:E8;
    cbn [ubind sf]; auto.
  destruct M8 as [M8a M8b].
  assert (S8 : zlen i8 <= zlen i7) by lia.
  destruct (consume unl b8 (2 + 2 + 2 + 8)) as [b9|]; [|exact I].
  apply sf_bind; [eapply sf_weaken; [apply rd_raw_sf; lia|lia]|]. intros uc i9 b10 E9.
  pose proof (rd_raw_sf 2 i8 b9 ltac:(lia)) as S9. rewrite E9 in S9. cbn [sf] in S9.
  apply sf_bind; [eapply sf_weaken; [apply rd_raw_sf; lia|lia]|]. intros rc i10 b11 E10.
  pose proof (rd_raw_sf 2 i9 b10 ltac:(lia)) as S10. rewrite E10 in S10. cbn [sf] in S10.
  apply sf_bind; [eapply sf_weaken; [apply rd_raw_sf; lia|lia]|]. intros cc i11 b12 E11.
  pose proof (rd_raw_sf 2 i10 b11 ltac:(lia)) as S11. rewrite E11 in S11. cbn [sf] in S11.
  apply sf_bind; [eapply sf_weaken; [apply rd_raw_sf; lia|lia]|]. intros v12 i12 b13 E12.
  pose proof (rd_raw_sf 8 i11 b12 ltac:(lia)) as S12. rewrite E12 in S12. cbn [sf] in S12.
  destruct ((signed 16 uc <? 0) || (signed 16 rc <? 0) || (signed 16 cc <? 0)); [exact I|].
  destruct (signed 64 v12 <? 0) eqn:N12; [exact I|].
  pose proof (zlen_nonneg i12) as Z12.
  pose proof (rd_many_sf (rd_str lim unl) SZ_STRING (zlen i12) ltac:(unfold SZ_STRING; lia)
                (fun i b' H => rd_str_sf i b' ltac:(lia)) (loop_count (signed 64 v12) i12) 0 i12 b13
                ltac:(lia) ltac:(lia) ltac:(lia)) as M13.
  destruct (rd_many lim (rd_str lim unl) SZ_STRING (loop_count (signed 64 v12) i12) 0 i12 b13) as [ups i13 b14| | | | |] eqn:E13;
    cbn [ubind sf]; auto.
  destruct M13 as [M13a M13b].
  rewrite (loop_count_nonneg_case (signed 64 v7) i7 ks i8) by (auto; lia).
  rewrite (loop_count_nonneg_case (signed 64 v12) i12 ups i13) by (auto; lia).
  cbn [sf]. pose proof (zlen_nonneg i13). lia.
Qed.

Lemma rd_cst_sf : forall fuel inp b,
  zlen inp <= N -> zlen inp < Z.of_nat fuel -> sf true (zlen inp) (rd_cst lim unl fuel inp b).
Proof.
  induction fuel as [|f IH]; intros inp b Hl Hf; [pose proof (zlen_nonneg inp); lia|].
  cbn [rd_cst].
  pose proof (rd_fixed_sf 1 inp b ltac:(lia)) as S1.
  destruct (rd_fixed unl 1 inp b) as [tp i1 b1| | | | |]; cbn [ubind sf] in *; auto.
  destruct (tp =? T_INT).
  { pose proof (rd_fixed_sf 8 i1 b1 ltac:(lia)) as S2.
    destruct (rd_fixed unl 8 i1 b1); cbn [ubind sf] in *; auto. lia. }
  destruct (tp =? T_FLOAT).
  { pose proof (rd_fixed_sf 8 i1 b1 ltac:(lia)) as S2.
    destruct (rd_fixed unl 8 i1 b1); cbn [ubind sf] in *; auto. lia. }
  destruct (tp =? T_STRING).
  { pose proof (rd_str_sf i1 b1 ltac:(lia)) as S2.
    destruct (rd_str lim unl i1 b1); cbn [ubind sf] in *; auto. lia. }
  destruct (tp =? T_CODE); [|exact I].
  pose proof (rd_code_sf (rd_cst lim unl f) i1 b1 ltac:(lia)) as S2.
  assert (Hk : forall i b', zlen i <= zlen i1 -> sf true (zlen i) (rd_cst lim unl f i b')).
  { intros i b' Hi. apply IH; lia. }
  specialize (S2 Hk).
  destruct (rd_code lim unl (rd_cst lim unl f) i1 b1); cbn [sf] in *; auto. lia.
Qed.

End Safe.

(* UnmarshalConst on ANY byte string with ANY budget: it returns a value or an error
   or stops on the budget; it never raises a Go panic, and no single allocation exceeds
   48 bytes per input byte plus 66048 — so with that much memory it never dies. *)
Theorem unmarshal_total_no_panic : forall lim budget inp,
  48 * zlen inp + 66048 <= lim <= maxAlloc ->
  match unmarshal lim budget inp with
  | UOk _ _ _ | UErr _ _ | UBudget => True
  | UPanic | UFatal _ | UOutOfFuel => False
  end.
Proof.
  intros lim budget inp H. unfold unmarshal.
  destruct inp as [|x0 [|x1 [|x2 inp]]]; try exact I.
  destruct ((x0 =? 6) && (x1 =? 0) && (x2 =? 4)); [|exact I].
  rewrite !zlen_cons in H. pose proof (zlen_nonneg inp).
  pose proof (rd_cst_sf lim (budget =? 0) (zlen inp) ltac:(lia) (S (length inp)) inp budget
                ltac:(lia) ltac:(unfold zlen; lia)) as HS.
  destruct (rd_cst lim (budget =? 0) (S (length inp)) inp budget); cbn [sf] in HS; auto.
Qed.

Corollary go_unmarshal_never_crashes : forall lim budget inp,
  48 * zlen inp + 66048 <= lim <= maxAlloc ->
  match go_unmarshal lim budget inp with
  | GVal _ _ | GErr _ _ => True
  | GNil u => u = budget          (* only the budget can yield "nil, no error" *)
  | GCrash _ | GOutOfFuel => False
  end.
Proof.
  intros lim budget inp H. pose proof (unmarshal_total_no_panic lim budget inp H) as U.
  unfold go_unmarshal. destruct (unmarshal lim budget inp); try exact I; try reflexivity; try contradiction.
Qed.

(* ------------------------------------------------------------------ *)
(* top level                                                            *)

Lemma depth_le_len k : (depth k <= length (marshal_cst k))%nat.
Proof.
  induction k as [z|bits|s|h ks IH] using cst_ind'; cbn [depth marshal_cst length]; try lia.
  rewrite !app_length.
  assert (fold_right (fun k n => Nat.max (depth k) n) O ks <= length (flat_map marshal_cst ks))%nat.
  { induction ks as [|x ks IHks]; cbn [fold_right flat_map]; [lia|].
    rewrite app_length.
    assert (depth x <= length (marshal_cst x))%nat by (apply IH; now left).
    assert (fold_right (fun k n => Nat.max (depth k) n) 0%nat ks <= length (flat_map marshal_cst ks))%nat
      by (apply IHks; intros; apply IH; now right).
    lia. }
  lia.
Qed.

(* budget left after reading n bytes / budget that suffices for n bytes *)
Definition left_after (budget n : Z) : Z := if budget =? 0 then 0 else budget - n.
Definition suffices (budget n : Z) : Prop := budget = 0 \/ n <= budget.

Theorem unmarshal_marshal : forall lim k rest b,
  wf k -> 48 * cost k + 66048 <= lim <= maxAlloc -> suffices b (cost k) ->
  unmarshal lim b (marshal k ++ rest) = UOk k rest (left_after b (cost k)).
Proof.
  intros lim k rest b Hwf Hl Hb. unfold marshal, marshalPrefix, unmarshal. cbn [app].
  change ((6 =? 6) && (0 =? 0) && (4 =? 4)) with true. cbv iota.
  pose proof (cost_pos k) as Hc.
  rewrite (rd_cst_marshal lim (b =? 0) ltac:(lia) k _ rest b Hwf).
  - unfold after, left_after. destruct Hb as [->|Hb]; [reflexivity|].
    destruct (b =? 0) eqn:E; [|reflexivity]. pose proof (cost_pos k). lia.
  - pose proof (depth_le_len k). rewrite app_length. lia.
  - lia.
  - unfold enough. destruct Hb as [->|Hb]; [now left|].
    destruct (b =? 0) eqn:E; [now left|now right].
Qed.

Corollary unmarshal_marshal_unlimited : forall lim k rest,
  wf k -> 48 * cost k + 66048 <= lim <= maxAlloc -> unmarshal lim 0 (marshal k ++ rest) = UOk k rest 0.
Proof. intros. rewrite unmarshal_marshal by (auto; now left). reflexivity. Qed.

(* sizes: an encoding of c bytes can be read back when 48 c + 66048 bytes fit in one allocation *)
Definition fits (k : cst) : Prop := 48 * cost k + 66048 <= maxAlloc.

Theorem marshal_injective : forall k1 k2, wf k1 -> wf k2 -> fits k1 -> marshal k1 = marshal k2 -> k1 = k2.
Proof.
  intros k1 k2 H1 H2 F E. unfold fits in F.
  assert (C : cost k1 = cost k2).
  { unfold cost. unfold marshal in E. apply app_inv_head in E. now rewrite E. }
  pose proof (unmarshal_marshal_unlimited maxAlloc k1 [] H1 ltac:(lia)) as U1.
  pose proof (unmarshal_marshal_unlimited maxAlloc k2 [] H2 ltac:(lia)) as U2.
  rewrite E in U1. rewrite U1 in U2. now inversion U2.
Qed.

(* prefix-freeness: what follows a marshalled constant does not matter *)
Theorem marshal_prefix_free : forall k1 k2 r1 r2,
  wf k1 -> wf k2 -> fits k1 -> fits k2 -> marshal k1 ++ r1 = marshal k2 ++ r2 -> k1 = k2 /\ r1 = r2.
Proof.
  intros k1 k2 r1 r2 H1 H2 F1 F2 E. unfold fits in *.
  pose proof (unmarshal_marshal_unlimited maxAlloc k1 r1 H1 ltac:(lia)) as U1.
  pose proof (unmarshal_marshal_unlimited maxAlloc k2 r2 H2 ltac:(lia)) as U2.
  rewrite E in U1. rewrite U1 in U2. now inversion U2.
Qed.

(* load(string-with-a-dump) gives back the code, with UpvalueCount cells *)
Theorem load_marshal : forall lim h ks,
  wf (KCode h ks) -> 48 * cost (KCode h ks) + 66048 <= lim <= maxAlloc ->
  load_binary lim 0 (marshal (KCode h ks)) = LFun (KCode h ks) (upvalueCount h).
Proof.
  intros lim h ks Hwf Hl. unfold load_binary, go_unmarshal.
  rewrite <- (app_nil_r (marshal (KCode h ks))).
  rewrite unmarshal_marshal_unlimited by auto.
  rewrite wf_code in Hwf. destruct Hwf as [[_ _ [Hu _] _ _] _].
  destruct (upvalueCount h <? 0) eqn:E; [lia|reflexivity].
Qed.

(* a code that comes out of the reader has non-negative counts *)
Lemma rd_code_counts lim unl rdk inp b h ks rest b' :
  rd_code lim unl rdk inp b = UOk (KCode h ks) rest b' ->
  0 <= upvalueCount h /\ 0 <= regCount h /\ 0 <= cellCount h.
Proof.
  unfold rd_code. destruct (consume unl b 8); [|discriminate].
  repeat match goal with
  | |- ubind ?r _ = _ -> _ => destruct r; cbn [ubind]; try discriminate
  | |- (let _ := _ in _) = _ -> _ => cbv zeta
  | |- (if ?c then _ else _) = _ -> _ => destruct c eqn:?; try discriminate
  | |- match consume ?u ?x ?y with _ => _ end = _ -> _ => destruct (consume u x y); try discriminate
  end.
  intros X. inversion X; subst. cbn [upvalueCount regCount cellCount]. lia.
Qed.

Lemma rd_cst_counts lim unl fuel inp b h ks rest b' :
  rd_cst lim unl fuel inp b = UOk (KCode h ks) rest b' ->
  0 <= upvalueCount h /\ 0 <= regCount h /\ 0 <= cellCount h.
Proof.
  destruct fuel as [|f]; cbn [rd_cst]; [discriminate|].
  destruct (rd_fixed unl 1 inp b) as [tp i1 b1| | | | |]; cbn [ubind]; try discriminate.
  destruct (tp =? T_INT); [destruct (rd_fixed unl 8 i1 b1); cbn [ubind]; discriminate|].
  destruct (tp =? T_FLOAT); [destruct (rd_fixed unl 8 i1 b1); cbn [ubind]; discriminate|].
  destruct (tp =? T_STRING); [destruct (rd_str lim unl i1 b1); cbn [ubind]; discriminate|].
  destruct (tp =? T_CODE); [|discriminate].
  apply rd_code_counts.
Qed.

(* load(s, name, "b") on ANY byte string: a function, or an ordinary error; never a Go
   panic (NewClosure always gets a non-negative count), never a fatal allocation. *)
Theorem load_no_panic : forall lim budget inp,
  48 * zlen inp + 66048 <= lim <= maxAlloc ->
  match load_binary lim budget inp with
  | LFun (KCode h _) nup => nup = upvalueCount h /\ 0 <= nup
  | LFun _ _ => False
  | LNotFunction | LErr _ => True
  | LPanic | LCrash _ | LOutOfFuel => False
  end.
Proof.
  intros lim budget inp H. pose proof (unmarshal_total_no_panic lim budget inp H) as U.
  unfold load_binary, go_unmarshal.
  destruct (unmarshal lim budget inp) as [k rest b'| | | | |] eqn:E; auto.
  destruct k as [z|bits|s|h ks]; auto.
  assert (C : 0 <= upvalueCount h).
  { unfold unmarshal in E. destruct inp as [|x0 [|x1 [|x2 inp]]]; try discriminate.
    destruct ((x0 =? 6) && (x1 =? 0) && (x2 =? 4)); [|discriminate].
    apply rd_cst_counts in E. lia. }
  destruct (upvalueCount h <? 0) eqn:F; [lia|]. split; [reflexivity|exact C].
Qed.

(* The hypotheses are satisfiable: a code with a nested code, every constant type. *)
Definition ex_head : chead := mkHead [99; 0; 255] [102] [1610678273; 1644232704] [1; -1] 1 3 0 [[95; 69; 78; 86]].
Definition ex_code : cst :=
  KCode ex_head [KInt (-5); KFlt 9218868437227405312; KStr [0; 1; 2]; KCode ex_head [KInt (two63 - 1)]].
Example ex_code_wf : wf ex_code /\ fits ex_code.
Proof.
  assert (W : wf_head ex_head).
  { constructor; cbn; repeat constructor; unfold u32_ok, i32_ok, cnt_ok; cbn; lia. }
  split.
  - cbn [wf ex_code]. split; [exact W|]. split; [unfold two63; lia|]. split; [unfold two64; lia|].
    split; [exact I|]. split; [|exact I]. split; [exact W|]. split; [unfold two63; lia|exact I].
  - unfold fits. vm_compute. discriminate.
Qed.
Example ex_code_roundtrip : unmarshal 1048576 1000 (marshal ex_code ++ [7; 7]) = UOk ex_code [7; 7] (1000 - cost ex_code).
Proof. vm_compute. reflexivity. Qed.

(* the two streams that used to kill the process / panic are now ordinary errors *)
Definition crash_witness : bytes := [6; 0; 4; 5] ++ repeat 0 16 ++ le_enc 8 (2 ^ 40).
Definition upvalue_witness : bytes := [6; 0; 4; 5] ++ repeat 0 40 ++ [255; 255; 0; 0; 0; 0] ++ repeat 0 8.
Example crash_witness_now_error :
  go_unmarshal 1048576 0 crash_witness = GErr EEof 0 /\
  go_unmarshal 1048576 100000 crash_witness = GNil 100000 /\
  load_binary 1048576 0 upvalue_witness = LErr EInvalidCode.
Proof. vm_compute. repeat split. Qed.

(* a negative length is now an error, not a swallowed Go panic *)
Example negative_length_is_error :
  go_unmarshal 1048576 0 ([6; 0; 4; 4] ++ le_enc 8 (-5)) = GErr EInvalidLength 0.
Proof. vm_compute. reflexivity. Qed.

(* ------------------------------------------------------------------ *)
(* the writer's budget                                                  *)

Fixpoint words (k : cst) : Z :=
  match k with
  | KCode h ks => zlen (ops h) + zlen (lines h) + fold_right (fun k acc => words k + acc) 0 ks
  | _ => 0
  end.

(* MarshalConst charges every byte it writes except the opcode and line arrays
   (4 bytes per opcode and per line entry, at every nesting level, are not charged). *)
Theorem marshal_charge : forall k, mcharge k + 4 * words k = cost k.
Proof.
  induction k as [z|bits|s|h ks IH] using cst_ind'.
  - unfold cost. cbn [mcharge words marshal_cst]. rewrite zlen_cons, zlen_enc. lia.
  - unfold cost. cbn [mcharge words marshal_cst]. rewrite zlen_cons, zlen_enc. lia.
  - unfold cost. cbn [mcharge words marshal_cst]. rewrite zlen_cons, wstr_len. lia.
  - rewrite cost_code. cbn [mcharge words].
    assert (E1 : fold_right (fun k acc => mcharge k + acc) 0 ks + 4 * fold_right (fun k acc => words k + acc) 0 ks
                 = sumz cost ks).
    { induction ks as [|x ks IHks]; cbn [fold_right sumz]; [lia|].
      rewrite <- (IH x (or_introl eq_refl)). rewrite <- IHks by (intros; apply IH; now right). lia. }
    assert (E2 : fold_right (fun s acc => 8 + zlen s + acc) 0 (upnames h) = sumz (fun s => 8 + zlen s) (upnames h)).
    { induction (upnames h) as [|x l IHl]; cbn [fold_right sumz]; [reflexivity|]. now rewrite IHl. }
    lia.
Qed.

(* ------------------------------------------------------------------ *)
(* no size hypothesis                                                   *)

(* The round trip holds for EVERY well-formed constant whose encoding fits in one Go
   allocation (fits: 48 bytes per encoded byte + 66048 <= 2^48, the allocator's own limit):
   no bound on the number of opcodes, lines, constants, nested functions, nesting depth or
   string lengths, and independent of maxEagerRead — the proof of rd_bytes_enc goes through
   both branches of readBytes (n <= maxEagerRead: make + ReadFull; beyond: io.CopyN). *)
Theorem unmarshal_marshal_any_size : forall k rest,
  wf k -> fits k -> unmarshal maxAlloc 0 (marshal k ++ rest) = UOk k rest 0.
Proof. intros k rest W F. apply unmarshal_marshal_unlimited; [exact W|unfold fits in F; lia]. Qed.

Lemma Forall_repeat {A} (P : A -> Prop) x n : P x -> Forall P (repeat x n).
Proof. intros H. induction n; cbn [repeat]; constructor; auto. Qed.

(* an instance above every size threshold of marshal.go: 16385 opcodes and lines (65540 bytes
   each: the io.CopyN branch), a 65537-byte string constant, 201 sibling functions *)
Definition ex_big : cst :=
  KCode (mkHead [99] [102] (repeat 1207959552 (Z.to_nat 16385)) (repeat 7 (Z.to_nat 16385)) 0 1 0 [])
        (KStr (repeat 65 (Z.to_nat 65537)) :: repeat (KCode (mkHead [99] [] [1207959552] [1] 0 1 0 []) []) 201).

Example ex_big_roundtrip : unmarshal maxAlloc 0 (marshal ex_big ++ [1; 2; 3]) = UOk ex_big [1; 2; 3] 0.
Proof.
  apply unmarshal_marshal_any_size.
  - unfold ex_big. rewrite wf_code. split.
    + constructor; cbn [ops lines upvalueCount regCount cellCount].
      * apply Forall_repeat. unfold u32_ok. lia.
      * apply Forall_repeat. unfold i32_ok. lia.
      * unfold cnt_ok; lia.
      * unfold cnt_ok; lia.
      * unfold cnt_ok; lia.
    + intros k [<-|Hk]; [exact I|]. apply repeat_spec in Hk. subst k. rewrite wf_code. split.
      * constructor; cbn; repeat constructor; unfold u32_ok, i32_ok, cnt_ok; lia.
      * intros k [].
  - unfold fits. assert (E : cost ex_big = 209547) by (vm_compute; reflexivity). rewrite E. vm_compute. discriminate.
Qed.
