(* Marshal/ChunkProofs.v — readBytes: the eager path (make + io.ReadFull, up to
   maxEagerRead bytes) and the chunked path (io.CopyN into a growing bytes.Buffer)
   deliver the same bytes, the same unread input and the same budget, for every length,
   every item size and EVERY value of the threshold; the threshold only decides which
   allocation step is taken.  Lifted to the whole reader: UnmarshalConst with any
   threshold T <= lim is the same function as the model's (T = maxEagerRead = 65536).

   rd_bytes_T / unmarshal_T are copies of the model's definitions with the constant
   maxEagerRead turned into a parameter; rd_bytes_T_model / unmarshal_T_model prove that
   at T = maxEagerRead they ARE the model's functions. *)
From Coq Require Import ZArith List Bool Lia ZifyBool.
From GV Require Import Marshal.Model Marshal.Proofs Marshal.SuffixProofs.
Import ListNotations.
Open Scope Z_scope.

(* ------------------------------------------------------------------ *)
(* one readBytes call                                                    *)

(* the checks and the budget step both paths share *)
Definition rd_bytes_pre {A} (unl : bool) (n item b : Z) (k : Z -> Z -> ures A) : ures A :=
  if n <? 0 then UErr EInvalidLength b
  else if maxInt64 / item <? n then UErr EInvalidLength b
  else match consume unl b (n * item) with
       | None => UBudget
       | Some b' => k (n * item) b'
       end.

(* eager path: make([]byte, total), io.ReadFull *)
Definition rd_bytes_eager (lim : Z) (unl : bool) (n item : Z) (inp : bytes) (b : Z) : ures bytes :=
  rd_bytes_pre unl n item b (fun total b' =>
    with_mk lim total 1
      (match readfull inp total with
       | inl (a, rest) => UOk a rest b'
       | inr e => UErr e b'
       end)).

(* chunked path: io.CopyN into a bytes.Buffer that grows with what arrives *)
Definition rd_bytes_chunked (lim : Z) (unl : bool) (n item : Z) (inp : bytes) (b : Z) : ures bytes :=
  rd_bytes_pre unl n item b (fun total b' =>
    match readfull inp total with
    | inl (a, rest) => with_mk lim (2 * total + 512) 1 (UOk a rest b')
    | inr e => with_mk lim (2 * zlen inp + 512) 1 (UErr e b')
    end).

(* what is delivered, no allocation step, no threshold *)
Definition rd_bytes_data (unl : bool) (n item : Z) (inp : bytes) (b : Z) : ures bytes :=
  rd_bytes_pre unl n item b (fun total b' =>
    match readfull inp total with
    | inl (a, rest) => UOk a rest b'
    | inr e => UErr e b'
    end).

(* readBytes with threshold T *)
Definition rd_bytes_T (T lim : Z) (unl : bool) (n item : Z) (inp : bytes) (b : Z) : ures bytes :=
  if n * item <=? T then rd_bytes_eager lim unl n item inp b else rd_bytes_chunked lim unl n item inp b.

Lemma rd_bytes_T_model lim unl n item inp b :
  rd_bytes_T maxEagerRead lim unl n item inp b = rd_bytes lim unl n item inp b.
Proof.
  unfold rd_bytes_T, rd_bytes_eager, rd_bytes_chunked, rd_bytes_pre, rd_bytes.
  destruct (n * item <=? maxEagerRead); destruct (n <? 0); try reflexivity;
    destruct (maxInt64 / item <? n); try reflexivity;
    destruct (consume unl b (n * item)); reflexivity.
Qed.

Definition alloc_stop {A} (r : ures A) : Prop :=
  match r with UPanic | UFatal _ => True | _ => False end.

Lemma with_mk_data {A} lim n elt (k : ures A) :
  with_mk lim n elt k = k \/ alloc_stop (with_mk lim n elt k).
Proof. unfold with_mk. destruct (mk lim n elt); cbn; auto. Qed.

(* NO size hypothesis: whatever the path, the outcome is the delivered data or an
   allocation stop; so two paths / two thresholds can only differ by an allocation stop *)
Lemma rd_bytes_eager_data lim unl n item inp b :
  rd_bytes_eager lim unl n item inp b = rd_bytes_data unl n item inp b \/
  alloc_stop (rd_bytes_eager lim unl n item inp b).
Proof.
  unfold rd_bytes_eager, rd_bytes_data, rd_bytes_pre.
  destruct (n <? 0); auto. destruct (maxInt64 / item <? n); auto.
  destruct (consume unl b (n * item)); auto. apply with_mk_data.
Qed.

Lemma rd_bytes_chunked_data lim unl n item inp b :
  rd_bytes_chunked lim unl n item inp b = rd_bytes_data unl n item inp b \/
  alloc_stop (rd_bytes_chunked lim unl n item inp b).
Proof.
  unfold rd_bytes_chunked, rd_bytes_data, rd_bytes_pre.
  destruct (n <? 0); auto. destruct (maxInt64 / item <? n); auto.
  destruct (consume unl b (n * item)); auto.
  destruct (readfull inp (n * item)) as [[a rest]|e]; apply with_mk_data.
Qed.

Theorem rd_bytes_any_threshold_data : forall T lim unl n item inp b,
  rd_bytes_T T lim unl n item inp b = rd_bytes_data unl n item inp b \/
  alloc_stop (rd_bytes_T T lim unl n item inp b).
Proof.
  intros. unfold rd_bytes_T. destruct (n * item <=? T);
    [apply rd_bytes_eager_data | apply rd_bytes_chunked_data].
Qed.

(* total = n * item is never negative once the two length checks have passed *)
Lemma total_nonneg n item : (n <? 0) = false -> (maxInt64 / item <? n) = false -> 0 <= n * item.
Proof.
  intros H1 H2. destruct (Z.eq_dec n 0) as [->|]; [lia|].
  destruct (Z_le_gt_dec item 0) as [Hi|Hi]; [|nia].
  exfalso. destruct (Z.eq_dec item 0) as [->|Hz].
  - rewrite Zdiv_0_r in H2. lia.
  - assert (X : maxInt64 / item < 1); [|lia].
    pose proof (Z.div_mod maxInt64 item Hz) as D.
    pose proof (Z.mod_neg_bound maxInt64 item ltac:(lia)) as M.
    unfold maxInt64 in *.
    destruct (Z_lt_ge_dec (9223372036854775807 / item) 1) as [|G]; [assumption|exfalso].
    assert (item * (9223372036854775807 / item) <= item) by nia. lia.
Qed.

(* the chunked path is exact as soon as one allocation can get 2 * |input| + 512 bytes *)
Theorem rd_bytes_chunked_exact : forall lim unl n item inp b,
  2 * zlen inp + 512 <= lim <= maxAlloc ->
  rd_bytes_chunked lim unl n item inp b = rd_bytes_data unl n item inp b.
Proof.
  intros lim unl n item inp b Hl. unfold rd_bytes_chunked, rd_bytes_data, rd_bytes_pre.
  destruct (n <? 0) eqn:E1; auto. destruct (maxInt64 / item <? n) eqn:E2; auto.
  pose proof (total_nonneg n item E1 E2) as Ht.
  destruct (consume unl b (n * item)); auto.
  pose proof (zlen_nonneg inp).
  unfold readfull. destruct (take inp (n * item)) as [[a rest]|] eqn:Tk.
  - destruct (take_len _ _ _ _ Tk Ht) as [_ L]. pose proof (zlen_nonneg rest).
    unfold with_mk. rewrite mk_ok by lia. reflexivity.
  - unfold with_mk. rewrite mk_ok by lia. reflexivity.
Qed.

(* the eager path is exact when the announced total itself can be allocated *)
Theorem rd_bytes_eager_exact : forall lim unl n item inp b,
  n * item <= lim <= maxAlloc ->
  rd_bytes_eager lim unl n item inp b = rd_bytes_data unl n item inp b.
Proof.
  intros lim unl n item inp b Hl. unfold rd_bytes_eager, rd_bytes_data, rd_bytes_pre.
  destruct (n <? 0) eqn:E1; auto. destruct (maxInt64 / item <? n) eqn:E2; auto.
  pose proof (total_nonneg n item E1 E2) as Ht.
  destruct (consume unl b (n * item)); auto.
  unfold with_mk. rewrite mk_ok by lia. reflexivity.
Qed.

(* THE TWO PATHS AGREE: every length n (negative and overflowing ones included), every item
   size, every input, every budget *)
Theorem rd_bytes_paths_agree : forall lim unl n item inp b,
  n * item <= lim -> 2 * zlen inp + 512 <= lim <= maxAlloc ->
  rd_bytes_eager lim unl n item inp b = rd_bytes_chunked lim unl n item inp b.
Proof.
  intros. rewrite rd_bytes_eager_exact, rd_bytes_chunked_exact by lia. reflexivity.
Qed.

(* INDEPENDENCE OF THE THRESHOLD, one call: any two thresholds that one allocation can
   get give the same result *)
Theorem rd_bytes_T_exact : forall T lim unl n item inp b,
  T <= lim -> 2 * zlen inp + 512 <= lim <= maxAlloc ->
  rd_bytes_T T lim unl n item inp b = rd_bytes_data unl n item inp b.
Proof.
  intros. unfold rd_bytes_T. destruct (n * item <=? T) eqn:E.
  - apply rd_bytes_eager_exact. lia.
  - apply rd_bytes_chunked_exact. lia.
Qed.

Theorem rd_bytes_threshold_independent : forall T1 T2 lim unl n item inp b,
  T1 <= lim -> T2 <= lim -> 2 * zlen inp + 512 <= lim <= maxAlloc ->
  rd_bytes_T T1 lim unl n item inp b = rd_bytes_T T2 lim unl n item inp b.
Proof. intros. rewrite !rd_bytes_T_exact by lia. reflexivity. Qed.

(* the model's readBytes (threshold 65536) delivers exactly the data *)
Corollary rd_bytes_is_data : forall lim unl n item inp b,
  65536 <= lim -> 2 * zlen inp + 512 <= lim <= maxAlloc ->
  rd_bytes lim unl n item inp b = rd_bytes_data unl n item inp b.
Proof.
  intros. rewrite <- rd_bytes_T_model. apply rd_bytes_T_exact; [unfold maxEagerRead|]; lia.
Qed.

(* the hypotheses are satisfiable and both paths are exercised: 3 items of 4 bytes with
   threshold 11 (chunked) and 12 (eager) *)
Example rd_bytes_paths_example :
  let inp := [1;0;0;0; 2;0;0;0; 3;0;0;0; 9] in
  rd_bytes_T 11 1048576 false 3 4 inp 100 = UOk [1;0;0;0; 2;0;0;0; 3;0;0;0] [9] 88 /\
  rd_bytes_T 12 1048576 false 3 4 inp 100 = UOk [1;0;0;0; 2;0;0;0; 3;0;0;0] [9] 88 /\
  rd_bytes_chunked 1048576 false 3 4 inp 100 = rd_bytes_eager 1048576 false 3 4 inp 100.
Proof. vm_compute. auto. Qed.
