(* Marshal/Model.v — executable model of golua's constant marshaller
   (runtime/marshal.go: bwriter/breader, MarshalConst/UnmarshalConst).
   Definitions only; proofs are in Marshal/Proofs.v.

   Conventions
   * bytes are Z in [0,256); a byte string is a list of them;
   * fixed-width integers are written little endian (encoding/binary,
     LittleEndian); a Go string / a slice is preceded by its int64 length;
   * float constants are carried as their 64 IEEE bits (a Z in [0,2^64));
   * opcodes are uint32 words, line numbers int32, the three counts int16;
   * Go run-time events are explicit outcomes of [unmarshal]:
       UBudget  = panic(budgetConsumed)          (recovered: used = budget)
       UPanic   = "makeslice: len out of range"  (a recoverable Go panic; the
                  blanket recover() of UnmarshalConst swallows it)
       UFatal r = a [make] of r bytes that exceeds the memory the process can
                  get: "fatal error: runtime: out of memory", not recoverable. *)
From Coq Require Import ZArith List Bool.
Import ListNotations.
Open Scope Z_scope.

Definition bytes := list Z.

(* Everything of runtime.Code except the constants. *)
Record chead : Type := mkHead {
  source : bytes; name : bytes;
  ops : list Z;            (* []code.Opcode, uint32 *)
  lines : list Z;          (* []int32 *)
  upvalueCount : Z; regCount : Z; cellCount : Z;   (* int16 *)
  upnames : list bytes }.

(* A constant: runtime.Value restricted to the types that reach a constant
   vector (nil and booleans are always inlined in the opcode, see
   ircomp/compinstr.go ProcessLoadConstInstr).  [KCode h ks] is a *Code with
   header h and constant vector ks. *)
Inductive cst : Type :=
| KInt (z : Z)
| KFlt (bits : Z)
| KStr (s : bytes)
| KCode (h : chead) (ks : list cst).

Record code : Type := mkCode { hd : chead; consts : list cst }.
Definition KC (c : code) : cst := KCode (hd c) (consts c).

Definition zlen {A} (l : list A) : Z := Z.of_nat (length l).

(* ------------------------------------------------------------------ *)
(* bwriter                                                              *)

Fixpoint le_enc (n : nat) (v : Z) : bytes :=
  match n with O => [] | S m => (v mod 256) :: le_enc m (v / 256) end.

Definition wstr (s : bytes) : bytes := le_enc 8 (zlen s) ++ s.

Definition T_INT := 1.
Definition T_FLOAT := 2.
Definition T_STRING := 4.
Definition T_CODE := 5.

Definition marshal_head1 (h : chead) (nconsts : Z) : bytes :=
  wstr (source h) ++ wstr (name h)
  ++ le_enc 8 (zlen (ops h)) ++ flat_map (le_enc 4) (ops h)
  ++ le_enc 8 (zlen (lines h)) ++ flat_map (le_enc 4) (lines h)
  ++ le_enc 8 nconsts.

Definition marshal_head2 (h : chead) : bytes :=
  le_enc 2 (upvalueCount h) ++ le_enc 2 (regCount h) ++ le_enc 2 (cellCount h)
  ++ le_enc 8 (zlen (upnames h)) ++ flat_map wstr (upnames h).

(* bwriter.writeConst / writeCode *)
Fixpoint marshal_cst (k : cst) : bytes :=
  match k with
  | KInt z => T_INT :: le_enc 8 z
  | KFlt b => T_FLOAT :: le_enc 8 b
  | KStr s => T_STRING :: wstr s
  | KCode h ks =>
      T_CODE :: marshal_head1 h (zlen ks) ++ flat_map marshal_cst ks ++ marshal_head2 h
  end.

Definition marshalPrefix : bytes := [6; 0; 4].

(* MarshalConst with an unlimited budget *)
Definition marshal (k : cst) : bytes := marshalPrefix ++ marshal_cst k.

(* ------------------------------------------------------------------ *)
(* breader                                                              *)

Inductive err := EEof | EUnexpectedEof | EInvalidType | EPrefix.

Inductive ures (A : Type) : Type :=
| UOk (a : A) (inp : bytes) (b : Z)   (* value, unread input, budget left *)
| UErr (e : err) (b : Z)              (* r.err, budget left when it was set *)
| UBudget
| UPanic
| UFatal (req : Z)
| UOutOfFuel.
Arguments UOk {A}. Arguments UErr {A}. Arguments UBudget {A}.
Arguments UPanic {A}. Arguments UFatal {A}. Arguments UOutOfFuel {A}.

Definition two64 := 18446744073709551616.
Definition u64 (v : Z) := v mod two64.

(* breader.consumeBudget: budget 0 means unlimited *)
Definition consume (b amount : Z) : option Z :=
  if b =? 0 then Some 0 else if b <? amount then None else Some (b - amount).

(* make([]T, n) with sizeof(T) = elt.  maxAlloc on linux/amd64 is 2^48;
   lim is the number of bytes one allocation can really get. *)
Inductive mkres := MkOk | MkPanic | MkFatal (req : Z).
Definition maxAlloc := 281474976710656.
Definition mk (lim n elt : Z) : mkres :=
  if n <? 0 then MkPanic
  else if maxAlloc <? n * elt then MkPanic
  else if lim <? n * elt then MkFatal (n * elt)
  else MkOk.

Fixpoint le_dec (l : bytes) : Z :=
  match l with [] => 0 | b :: r => b + 256 * le_dec r end.

Definition signed (bits v : Z) : Z := if v <? 2 ^ (bits - 1) then v else v - 2 ^ bits.

(* n bytes off the front, None when fewer are left *)
Fixpoint take (inp : bytes) (n : Z) : option (bytes * bytes) :=
  if n <=? 0 then Some ([], inp) else
  match inp with
  | [] => None
  | x :: r => match take r (n - 1) with
              | Some (a, rest) => Some (x :: a, rest)
              | None => None
              end
  end.

(* io.ReadFull of n bytes: EOF when nothing could be read, ErrUnexpectedEOF
   on a short read; reading 0 bytes succeeds *)
Definition readfull (inp : bytes) (n : Z) : (bytes * bytes) + err :=
  match take inp n with
  | Some p => inl p
  | None => inr (match inp with [] => EEof | _ => EUnexpectedEof end)
  end.

(* bytes.Buffer.Read into a buffer of n>0 bytes when the input is not empty:
   copies what is there, leaves the rest of the buffer zero, no error *)
Fixpoint take_pad (inp : bytes) (n : nat) : bytes * bytes :=
  match n with
  | O => ([], inp)
  | S m => match inp with
           | [] => (repeat 0 n, [])
           | x :: r => let (a, rest) := take_pad r m in (x :: a, rest)
           end
  end.

Fixpoint chunks4 (l : bytes) : list Z :=
  match l with
  | a :: b :: c :: d :: r => le_dec [a; b; c; d] :: chunks4 r
  | _ => []
  end.

Section Reader.
Variable lim : Z.

(* r.read(8, &x) for a fixed-width integer of n bytes *)
Definition rd_fixed (n : Z) (inp : bytes) (b : Z) : ures Z :=
  match consume b n with
  | None => UBudget
  | Some b' => match readfull inp n with
               | inl (a, rest) => UOk (le_dec a) rest b'
               | inr e => UErr e b'
               end
  end.

(* the same without a budget step (second and later targets of one r.read) *)
Definition rd_raw (n : Z) (inp : bytes) (b : Z) : ures Z :=
  match readfull inp n with
  | inl (a, rest) => UOk (le_dec a) rest b
  | inr e => UErr e b
  end.

(* breader.readString *)
Definition rd_str (inp : bytes) (b : Z) : ures bytes :=
  match rd_fixed 8 inp b with
  | UOk v inp1 b1 =>
      let sl := signed 64 v in
      match consume b1 (u64 sl) with
      | None => UBudget
      | Some b2 =>
          match mk lim sl 1 with
          | MkPanic => UPanic
          | MkFatal r => UFatal r
          | MkOk =>
              if sl =? 0 then UOk [] inp1 b2
              else match inp1 with
                   | [] => UErr EEof b2
                   | _ => let (a, rest) := take_pad inp1 (Z.to_nat sl) in UOk a rest b2
                   end
          end
      end
  | UErr e b' => UErr e b'
  | UBudget => UBudget | UPanic => UPanic | UFatal r => UFatal r | UOutOfFuel => UOutOfFuel
  end.

(* after r.err is set inside readCode the remaining make calls still run,
   with the stale length; [stale] lists their element sizes *)
Fixpoint stale_makes {A} (sz : Z) (elts : list Z) (e : err) (b : Z) : ures A :=
  match elts with
  | [] => UErr e b
  | elt :: r => match mk lim sz elt with
                | MkPanic => UPanic
                | MkFatal q => UFatal q
                | MkOk => stale_makes sz r e b
                end
  end.

Definition SZ_OP := 4.
Definition SZ_LINE := 4.
Definition SZ_VALUE := 24.
Definition SZ_STRING := 16.

(* n successive reads with the reader rd *)
Fixpoint rd_many {A} (rd : bytes -> Z -> ures A) (n : nat) (inp : bytes) (b : Z) : ures (list A) :=
  match n with
  | O => UOk [] inp b
  | S m => match rd inp b with
           | UOk a inp1 b1 =>
               match rd_many rd m inp1 b1 with
               | UOk l inp2 b2 => UOk (a :: l) inp2 b2
               | UErr e b' => UErr e b'
               | UBudget => UBudget | UPanic => UPanic | UFatal r => UFatal r | UOutOfFuel => UOutOfFuel
               end
           | UErr e b' => UErr e b'
           | UBudget => UBudget | UPanic => UPanic | UFatal r => UFatal r | UOutOfFuel => UOutOfFuel
           end
  end.

(* breader.readCode, given the reader for one constant *)
Definition rd_code (rdk : bytes -> Z -> ures cst) (inp : bytes) (b : Z) : ures cst :=
  match consume b 8 with None => UBudget | Some b0 =>
  match rd_str inp b0 with
  | UOk src inp1 b1 =>
  match rd_str inp1 b1 with
  | UOk nm inp2 b2 =>
  match rd_raw 8 inp2 b2 with
  | UOk v3 inp3 b3 =>
    let nops := signed 64 v3 in
    match mk lim nops SZ_OP with
    | MkPanic => UPanic | MkFatal r => UFatal r
    | MkOk =>
    match consume b3 (u64 (4 * u64 nops + 8)) with None => UBudget | Some b4 =>
    match readfull inp3 (4 * nops) with
    | inr e => stale_makes nops [SZ_LINE; SZ_VALUE; SZ_STRING] e b4
    | inl (opb, inp4) =>
    match rd_raw 8 inp4 b4 with
    | UOk v5 inp5 b5 =>
      let nlines := signed 64 v5 in
      match mk lim nlines SZ_LINE with
      | MkPanic => UPanic | MkFatal r => UFatal r
      | MkOk =>
      match consume b5 (u64 (4 * u64 nlines + 8)) with None => UBudget | Some b6 =>
      match readfull inp5 (4 * nlines) with
      | inr e => stale_makes nlines [SZ_VALUE; SZ_STRING] e b6
      | inl (lnb, inp6) =>
      match rd_raw 8 inp6 b6 with
      | UOk v7 inp7 b7 =>
        let nk := signed 64 v7 in
        match mk lim nk SZ_VALUE with
        | MkPanic => UPanic | MkFatal r => UFatal r
        | MkOk =>
        match rd_many rdk (Z.to_nat nk) inp7 b7 with
        | UOk ks inp8 b8 =>
          match consume b8 (2 + 2 + 2 + 8) with None => UBudget | Some b9 =>
          match rd_raw 2 inp8 b9 with
          | UOk uc inp9 b10 =>
          match rd_raw 2 inp9 b10 with
          | UOk rc inp10 b11 =>
          match rd_raw 2 inp10 b11 with
          | UOk cc inp11 b12 =>
          match rd_raw 8 inp11 b12 with
          | UOk v12 inp12 b13 =>
            let nup := signed 64 v12 in
            match mk lim nup SZ_STRING with
            | MkPanic => UPanic | MkFatal r => UFatal r
            | MkOk =>
            match rd_many rd_str (Z.to_nat nup) inp12 b13 with
            | UOk ups inp13 b14 =>
                UOk (KCode (mkHead src nm (chunks4 opb) (map (signed 32) (chunks4 lnb))
                                   (signed 16 uc) (signed 16 rc) (signed 16 cc) ups) ks)
                    inp13 b14
            | UErr e b' => UErr e b'
            | UBudget => UBudget | UPanic => UPanic | UFatal r => UFatal r | UOutOfFuel => UOutOfFuel
            end
            end
          | UErr e b' => UErr e b'
          | UBudget => UBudget | UPanic => UPanic | UFatal r => UFatal r | UOutOfFuel => UOutOfFuel
          end
          | UErr e b' => UErr e b'
          | UBudget => UBudget | UPanic => UPanic | UFatal r => UFatal r | UOutOfFuel => UOutOfFuel
          end
          | UErr e b' => UErr e b'
          | UBudget => UBudget | UPanic => UPanic | UFatal r => UFatal r | UOutOfFuel => UOutOfFuel
          end
          | UErr e b' => UErr e b'
          | UBudget => UBudget | UPanic => UPanic | UFatal r => UFatal r | UOutOfFuel => UOutOfFuel
          end
          end
        | UErr e b' => UErr e b'
        | UBudget => UBudget | UPanic => UPanic | UFatal r => UFatal r | UOutOfFuel => UOutOfFuel
        end
        end
      | UErr e b' => stale_makes nlines [SZ_VALUE; SZ_STRING] e b'
      | UBudget => UBudget | UPanic => UPanic | UFatal r => UFatal r | UOutOfFuel => UOutOfFuel
      end
      end
      end
      end
    | UErr e b' => stale_makes nops [SZ_LINE; SZ_VALUE; SZ_STRING] e b'
    | UBudget => UBudget | UPanic => UPanic | UFatal r => UFatal r | UOutOfFuel => UOutOfFuel
    end
    end
    end
    end
  | UErr e b' => UErr e b'
  | UBudget => UBudget | UPanic => UPanic | UFatal r => UFatal r | UOutOfFuel => UOutOfFuel
  end
  | UErr e b' => UErr e b'
  | UBudget => UBudget | UPanic => UPanic | UFatal r => UFatal r | UOutOfFuel => UOutOfFuel
  end
  | UErr e b' => UErr e b'
  | UBudget => UBudget | UPanic => UPanic | UFatal r => UFatal r | UOutOfFuel => UOutOfFuel
  end
  end.

(* breader.readConst; fuel bounds the nesting depth *)
Fixpoint rd_cst (fuel : nat) (inp : bytes) (b : Z) : ures cst :=
  match fuel with
  | O => UOutOfFuel
  | S f =>
    match rd_fixed 1 inp b with
    | UOk tp inp1 b1 =>
        if tp =? T_INT then
          match rd_fixed 8 inp1 b1 with
          | UOk v i2 b2 => UOk (KInt (signed 64 v)) i2 b2
          | UErr e b' => UErr e b'
          | UBudget => UBudget | UPanic => UPanic | UFatal r => UFatal r | UOutOfFuel => UOutOfFuel
          end
        else if tp =? T_FLOAT then
          match rd_fixed 8 inp1 b1 with
          | UOk v i2 b2 => UOk (KFlt v) i2 b2
          | UErr e b' => UErr e b'
          | UBudget => UBudget | UPanic => UPanic | UFatal r => UFatal r | UOutOfFuel => UOutOfFuel
          end
        else if tp =? T_STRING then
          match rd_str inp1 b1 with
          | UOk s i2 b2 => UOk (KStr s) i2 b2
          | UErr e b' => UErr e b'
          | UBudget => UBudget | UPanic => UPanic | UFatal r => UFatal r | UOutOfFuel => UOutOfFuel
          end
        else if tp =? T_CODE then rd_code (rd_cst f) inp1 b1
        else UErr EInvalidType b1
    | UErr e b' => UErr e b'
    | UBudget => UBudget | UPanic => UPanic | UFatal r => UFatal r | UOutOfFuel => UOutOfFuel
    end
  end.

(* UnmarshalConst: r.Read(pfx) on a bytes.Buffer copies what is there; any
   mismatch (including a short input) is ErrInvalidMarshalPrefix *)
Definition unmarshal (budget : Z) (inp : bytes) : ures cst :=
  match inp with
  | 6 :: 0 :: 4 :: rest => rd_cst (S (length rest)) rest budget
  | _ => UErr EPrefix budget
  end.

End Reader.

(* What UnmarshalConst returns to its caller: (value or nil, used, error). *)
Inductive goret :=
| GVal (k : cst) (used : Z)
| GNil (used : Z)             (* nil value, nil error: a swallowed panic *)
| GErr (e : err) (used : Z)
| GCrash (req : Z)
| GOutOfFuel.

Definition go_unmarshal (lim budget : Z) (inp : bytes) : goret :=
  match unmarshal lim budget inp with
  | UOk k _ b => GVal k (budget - b)
  | UErr e b => GErr e (budget - b)
  | UBudget => GNil budget
  | UPanic => GNil 0
  | UFatal r => GCrash r
  | UOutOfFuel => GOutOfFuel
  end.

(* Runtime.LoadFromSourceOrCode, binary branch (runtime/lib.go:421-440), which
   is what load(s, name, "b") runs on a string with the marshal prefix:
   UnmarshalConst, TryCode, NewClosure (runtime/closure.go: make([]Cell,
   c.UpvalueCount) — a Go run-time panic when the count is negative), then
   _ENV and nil cells as upvalues. *)
Inductive lres :=
| LFun (k : cst) (nup : Z)     (* a closure over code k with nup upvalue cells *)
| LNotFunction                  (* error "Expected function to load" *)
| LErr (e : err)
| LPanic                        (* makeslice: len out of range, outside any recover *)
| LCrash (req : Z)
| LOutOfFuel.

Definition load_binary (lim budget : Z) (inp : bytes) : lres :=
  match go_unmarshal lim budget inp with
  | GVal (KCode h ks) _ =>
      if upvalueCount h <? 0 then LPanic else LFun (KCode h ks) (upvalueCount h)
  | GVal _ _ => LNotFunction
  | GNil _ => LNotFunction
  | GErr e _ => LErr e
  | GCrash r => LCrash r
  | GOutOfFuel => LOutOfFuel
  end.
