(* Marshal/Model.v — executable model of golua's constant marshaller
   (runtime/marshal.go: bwriter/breader, MarshalConst/UnmarshalConst).
   Definitions only; proofs are in Marshal/Proofs.v.

   Conventions
   * bytes are Z in [0,256); a byte string is a list of them;
   * fixed-width integers are written little endian (encoding/binary,
     LittleEndian); a Go string / a slice is preceded by its int64 length;
   * float constants are carried as their 64 IEEE bits (a Z in [0,2^64));
   * opcodes are uint32 words, line numbers int32, the three counts int16;
   * Go run-time events are explicit outcomes of [unmarshal]:
       UBudget  = panic(budgetConsumed)          (recovered: used = budget)
       UPanic   = "makeslice: len out of range"  (a recoverable Go panic; the
                  blanket recover() of UnmarshalConst swallows it)
       UFatal r = a [make] of r bytes that exceeds the memory the process can
                  get: "fatal error: runtime: out of memory", not recoverable.
     Every allocation the reader makes is kept in the model as a [mk] step, so
     that "never panics, never dies" is a theorem (Proofs.v) and not a
     property of the result type.
   * The reader is the REPAIRED one (lengths are validated and budget is
     consumed before anything is allocated; memory follows what the input
     delivers; negative counts are a corrupt chunk; a budget that reaches 0
     is exhausted, not unlimited). *)
From Coq Require Import ZArith List Bool.
Import ListNotations.
Open Scope Z_scope.

Definition bytes := list Z.

(* Everything of runtime.Code except the constants. *)
Record chead : Type := mkHead {
  source : bytes; name : bytes;
  ops : list Z;            (* []code.Opcode, uint32 *)
  lines : list Z;          (* []int32 *)
  upvalueCount : Z; regCount : Z; cellCount : Z;   (* int16 *)
  upnames : list bytes }.

(* A constant: runtime.Value restricted to the types that reach a constant
   vector (nil and booleans are always inlined in the opcode, see
   ircomp/compinstr.go ProcessLoadConstInstr).  [KCode h ks] is a *Code with
   header h and constant vector ks. *)
Inductive cst : Type :=
| KInt (z : Z)
| KFlt (bits : Z)
| KStr (s : bytes)
| KCode (h : chead) (ks : list cst).

Record code : Type := mkCode { hd : chead; consts : list cst }.
Definition KC (c : code) : cst := KCode (hd c) (consts c).

Definition zlen {A} (l : list A) : Z := Z.of_nat (length l).

(* ------------------------------------------------------------------ *)
(* bwriter                                                              *)

Fixpoint le_enc (n : nat) (v : Z) : bytes :=
  match n with O => [] | S m => (v mod 256) :: le_enc m (v / 256) end.

Definition wstr (s : bytes) : bytes := le_enc 8 (zlen s) ++ s.

Definition T_INT := 1.
Definition T_FLOAT := 2.
Definition T_STRING := 4.
Definition T_CODE := 5.

Definition marshal_head1 (h : chead) (nconsts : Z) : bytes :=
  wstr (source h) ++ wstr (name h)
  ++ le_enc 8 (zlen (ops h)) ++ flat_map (le_enc 4) (ops h)
  ++ le_enc 8 (zlen (lines h)) ++ flat_map (le_enc 4) (lines h)
  ++ le_enc 8 nconsts.

Definition marshal_head2 (h : chead) : bytes :=
  le_enc 2 (upvalueCount h) ++ le_enc 2 (regCount h) ++ le_enc 2 (cellCount h)
  ++ le_enc 8 (zlen (upnames h)) ++ flat_map wstr (upnames h).

(* bwriter.writeConst / writeCode *)
Fixpoint marshal_cst (k : cst) : bytes :=
  match k with
  | KInt z => T_INT :: le_enc 8 z
  | KFlt b => T_FLOAT :: le_enc 8 b
  | KStr s => T_STRING :: wstr s
  | KCode h ks =>
      T_CODE :: marshal_head1 h (zlen ks) ++ flat_map marshal_cst ks ++ marshal_head2 h
  end.

Definition marshalPrefix : bytes := [6; 0; 4].

(* MarshalConst with an unlimited budget *)
Definition marshal (k : cst) : bytes := marshalPrefix ++ marshal_cst k.

(* ------------------------------------------------------------------ *)
(* breader                                                              *)

Inductive err := EEof | EUnexpectedEof | EInvalidType | EPrefix | EInvalidLength | EInvalidCode.

Inductive ures (A : Type) : Type :=
| UOk (a : A) (inp : bytes) (b : Z)   (* value, unread input, budget left *)
| UErr (e : err) (b : Z)              (* r.err, budget left when it was set *)
| UBudget
| UPanic
| UFatal (req : Z)
| UOutOfFuel.
Arguments UOk {A}. Arguments UErr {A}. Arguments UBudget {A}.
Arguments UPanic {A}. Arguments UFatal {A}. Arguments UOutOfFuel {A}.

Definition ubind {A B} (r : ures A) (f : A -> bytes -> Z -> ures B) : ures B :=
  match r with
  | UOk a i b => f a i b
  | UErr e b => UErr e b
  | UBudget => UBudget | UPanic => UPanic | UFatal q => UFatal q | UOutOfFuel => UOutOfFuel
  end.

Definition two64 := 18446744073709551616.
Definition maxInt64 := 9223372036854775807.

(* make([]T, n) with sizeof(T) = elt.  maxAlloc on linux/amd64 is 2^48;
   lim is the number of bytes one allocation can really get. *)
Inductive mkres := MkOk | MkPanic | MkFatal (req : Z).
Definition maxAlloc := 281474976710656.
Definition mk (lim n elt : Z) : mkres :=
  if n <? 0 then MkPanic
  else if maxAlloc <? n * elt then MkPanic
  else if lim <? n * elt then MkFatal (n * elt)
  else MkOk.

Fixpoint le_dec (l : bytes) : Z :=
  match l with [] => 0 | b :: r => b + 256 * le_dec r end.

Definition signed (bits v : Z) : Z := if v <? 2 ^ (bits - 1) then v else v - 2 ^ bits.

(* n bytes off the front, None when fewer are left *)
Fixpoint take (inp : bytes) (n : Z) : option (bytes * bytes) :=
  if n <=? 0 then Some ([], inp) else
  match inp with
  | [] => None
  | x :: r => match take r (n - 1) with
              | Some (a, rest) => Some (x :: a, rest)
              | None => None
              end
  end.

(* io.ReadFull / io.CopyN of n bytes: EOF when nothing could be read,
   ErrUnexpectedEOF on a short read; reading 0 bytes succeeds *)
Definition readfull (inp : bytes) (n : Z) : (bytes * bytes) + err :=
  match take inp n with
  | Some p => inl p
  | None => inr (match inp with [] => EEof | _ => EUnexpectedEof end)
  end.

Fixpoint chunks4 (l : bytes) : list Z :=
  match l with
  | a :: b :: c :: d :: r => le_dec [a; b; c; d] :: chunks4 r
  | _ => []
  end.

Definition SZ_OP := 4.
Definition SZ_LINE := 4.
Definition SZ_VALUE := 24.
Definition SZ_STRING := 16.
Definition maxEagerRead := 65536.

Section Reader.
Variable lim : Z.
(* breader.unlimited: there is no budget at all (UnmarshalConst was given 0) *)
Variable unl : bool.

(* breader.consumeBudget *)
Definition consume (b amount : Z) : option Z :=
  if unl then Some b else if b <? amount then None else Some (b - amount).

Definition with_mk {A} (n elt : Z) (k : ures A) : ures A :=
  match mk lim n elt with MkPanic => UPanic | MkFatal r => UFatal r | MkOk => k end.

(* r.read(n, &x) for one fixed-width integer of n bytes: budget, then io.ReadFull *)
Definition rd_fixed (n : Z) (inp : bytes) (b : Z) : ures Z :=
  match consume b n with
  | None => UBudget
  | Some b' => match readfull inp n with
               | inl (a, rest) => UOk (le_dec a) rest b'
               | inr e => UErr e b'
               end
  end.

(* the same without a budget step (second and later targets of one r.read) *)
Definition rd_raw (n : Z) (inp : bytes) (b : Z) : ures Z :=
  match readfull inp n with
  | inl (a, rest) => UOk (le_dec a) rest b
  | inr e => UErr e b
  end.

(* breader.readBytes(n, itemSize): length checks, budget, then memory in
   proportion to what the reader delivers: at most maxEagerRead bytes are
   allocated up front, beyond that a bytes.Buffer grows with the data (its
   capacity stays below twice what was read plus bytes.MinRead). *)
Definition rd_bytes (n item : Z) (inp : bytes) (b : Z) : ures bytes :=
  if n <? 0 then UErr EInvalidLength b
  else if maxInt64 / item <? n then UErr EInvalidLength b
  else
    let total := n * item in
    match consume b total with
    | None => UBudget
    | Some b' =>
        if total <=? maxEagerRead then
          with_mk total 1
            (match readfull inp total with
             | inl (a, rest) => UOk a rest b'
             | inr e => UErr e b'
             end)
        else
          match readfull inp total with
          | inl (a, rest) => with_mk (2 * total + 512) 1 (UOk a rest b')
          | inr e => with_mk (2 * zlen inp + 512) 1 (UErr e b')
          end
    end.

(* breader.readString *)
Definition rd_str (inp : bytes) (b : Z) : ures bytes :=
  ubind (rd_fixed 8 inp b) (fun v inp1 b1 => rd_bytes (signed 64 v) 1 inp1 b1).

(* a length-prefixed array of 4-byte words: r.read(8, &sz) has happened, sz = n;
   readBytes, then make([]T, n) once the bytes are there *)
Definition rd_words (n : Z) (inp : bytes) (b : Z) : ures (list Z) :=
  ubind (rd_bytes n 4 inp b) (fun raw inp1 b1 => with_mk n 4 (UOk (chunks4 raw) inp1 b1)).

(* for i := 0; i < n && r.err == nil; i++ { xs = append(xs, rd()) }: the slice
   is grown by append, to a capacity below twice the number of items read *)
Fixpoint rd_many {A} (rd : bytes -> Z -> ures A) (elt : Z) (n : nat) (have : Z) (inp : bytes) (b : Z) : ures (list A) :=
  match n with
  | O => UOk [] inp b
  | S m =>
      ubind (rd inp b) (fun a inp1 b1 =>
      with_mk (2 * (have + 1)) elt
        (ubind (rd_many rd elt m (have + 1) inp1 b1) (fun l inp2 b2 => UOk (a :: l) inp2 b2)))
  end.

(* the loop bound is the announced length, but the loop stops at the first
   error, which comes at the latest when the input is exhausted: announcing more
   items than there are bytes left cannot succeed.  (The length of the input is
   only looked at for large announcements: it costs a pass over the input.) *)
Definition loop_count (n : Z) (inp : bytes) : nat :=
  Z.to_nat (if n <=? 4096 then n else Z.min n (zlen inp + 1)).

(* breader.readCode, given the reader for one constant *)
Definition rd_code (rdk : bytes -> Z -> ures cst) (inp : bytes) (b : Z) : ures cst :=
  match consume b 8 with None => UBudget | Some b0 =>
  ubind (rd_str inp b0) (fun src inp1 b1 =>
  ubind (rd_str inp1 b1) (fun nm inp2 b2 =>
  ubind (rd_raw 8 inp2 b2) (fun v3 inp3 b3 =>
  ubind (rd_words (signed 64 v3) inp3 b3) (fun opw inp4 b4 =>
  ubind (rd_fixed 8 inp4 b4) (fun v5 inp5 b5 =>
  ubind (rd_words (signed 64 v5) inp5 b5) (fun lnw inp6 b6 =>
  ubind (rd_fixed 8 inp6 b6) (fun v7 inp7 b7 =>
  let nk := signed 64 v7 in
  if nk <? 0 then UErr EInvalidLength b7 else
  ubind (rd_many rdk SZ_VALUE (loop_count nk inp7) 0 inp7 b7) (fun ks inp8 b8 =>
  match consume b8 (2 + 2 + 2 + 8) with None => UBudget | Some b9 =>
  ubind (rd_raw 2 inp8 b9) (fun uc inp9 b10 =>
  ubind (rd_raw 2 inp9 b10) (fun rc inp10 b11 =>
  ubind (rd_raw 2 inp10 b11) (fun cc inp11 b12 =>
  ubind (rd_raw 8 inp11 b12) (fun v12 inp12 b13 =>
  if (signed 16 uc <? 0) || (signed 16 rc <? 0) || (signed 16 cc <? 0) then UErr EInvalidCode b13 else
  let nup := signed 64 v12 in
  if nup <? 0 then UErr EInvalidLength b13 else
  ubind (rd_many rd_str SZ_STRING (loop_count nup inp12) 0 inp12 b13) (fun ups inp13 b14 =>
  if Z.of_nat (length ks) <? nk then UOutOfFuel
  else if Z.of_nat (length ups) <? nup then UOutOfFuel
  else
  UOk (KCode (mkHead src nm opw (map (signed 32) lnw)
                     (signed 16 uc) (signed 16 rc) (signed 16 cc) ups) ks)
      inp13 b14)))))
  end))))))))
  end.

(* breader.readConst; fuel bounds the nesting depth *)
Fixpoint rd_cst (fuel : nat) (inp : bytes) (b : Z) : ures cst :=
  match fuel with
  | O => UOutOfFuel
  | S f =>
    ubind (rd_fixed 1 inp b) (fun tp inp1 b1 =>
      if tp =? T_INT then ubind (rd_fixed 8 inp1 b1) (fun v i2 b2 => UOk (KInt (signed 64 v)) i2 b2)
      else if tp =? T_FLOAT then ubind (rd_fixed 8 inp1 b1) (fun v i2 b2 => UOk (KFlt v) i2 b2)
      else if tp =? T_STRING then ubind (rd_str inp1 b1) (fun s i2 b2 => UOk (KStr s) i2 b2)
      else if tp =? T_CODE then rd_code (rd_cst f) inp1 b1
      else UErr EInvalidType b1)
  end.

End Reader.

(* UnmarshalConst: r.Read(pfx) on a bytes.Buffer copies what is there; any
   mismatch (including a short input) is ErrInvalidMarshalPrefix *)
Definition unmarshal (lim budget : Z) (inp : bytes) : ures cst :=
  match inp with
  | p0 :: p1 :: p2 :: rest =>
      if (p0 =? 6) && (p1 =? 0) && (p2 =? 4)
      then rd_cst lim (budget =? 0) (S (length rest)) rest budget
      else UErr EPrefix budget
  | _ => UErr EPrefix budget
  end.

(* What UnmarshalConst returns to its caller: (value or nil, used, error). *)
Inductive goret :=
| GVal (k : cst) (used : Z)
| GNil (used : Z)             (* nil value, nil error: a swallowed panic *)
| GErr (e : err) (used : Z)
| GCrash (req : Z)
| GOutOfFuel.

Definition go_unmarshal (lim budget : Z) (inp : bytes) : goret :=
  match unmarshal lim budget inp with
  | UOk k _ b => GVal k (budget - b)
  | UErr e b => GErr e (budget - b)
  | UBudget => GNil budget
  | UPanic => GNil 0
  | UFatal r => GCrash r
  | UOutOfFuel => GOutOfFuel
  end.

(* Runtime.LoadFromSourceOrCode, binary branch (runtime/lib.go:421-440), which
   is what load(s, name, "b") runs on a string with the marshal prefix:
   UnmarshalConst, TryCode, NewClosure (runtime/closure.go: make([]Cell,
   c.UpvalueCount) — a Go run-time panic when the count is negative), then
   _ENV and nil cells as upvalues. *)
Inductive lres :=
| LFun (k : cst) (nup : Z)     (* a closure over code k with nup upvalue cells *)
| LNotFunction                  (* error "Expected function to load" *)
| LErr (e : err)
| LPanic                        (* makeslice: len out of range, outside any recover *)
| LCrash (req : Z)
| LOutOfFuel.

Definition load_binary (lim budget : Z) (inp : bytes) : lres :=
  match go_unmarshal lim budget inp with
  | GVal (KCode h ks) _ =>
      if upvalueCount h <? 0 then LPanic else LFun (KCode h ks) (upvalueCount h)
  | GVal _ _ => LNotFunction
  | GNil _ => LNotFunction
  | GErr e _ => LErr e
  | GCrash r => LCrash r
  | GOutOfFuel => LOutOfFuel
  end.

(* ------------------------------------------------------------------ *)
(* bwriter.consumeBudget amounts: what MarshalConst charges for k        *)

Fixpoint mcharge (k : cst) : Z :=
  match k with
  | KInt _ => 1 + 8
  | KFlt _ => 1 + 8
  | KStr s => 1 + 0 + (8 + zlen s)
  | KCode h ks =>
      (1 + 0 + 0 + 8 + 8 + 8)
      + (8 + zlen (source h)) + (8 + zlen (name h))
      + fold_right (fun k acc => mcharge k + acc) 0 ks
      + (2 + 2 + 2 + 8)
      + fold_right (fun s acc => (8 + zlen s) + acc) 0 (upnames h)
  end.
