(* Marshal/ModelAlloc.v — the reader of Marshal/Model.v with its memory
   accounted: for every reader rd_X there is al_X with the same arguments, the
   number of bytes the Go code allocates during that call, on whatever path the
   call takes (it follows the control flow of rd_X by calling it).  Definitions
   only; the bound is proved in Marshal/AllocProofs.v.

   What is counted (runtime/marshal.go after the repairs):
   * binary.Read of a fixed-width field: a buffer of the field's size.  For the
     fields read by one r.read call with several targets, the buffers are
     counted when that call consumes its budget (8 for the header, 2+2+2+8
     for the tail), i.e. not later than they are made;
   * every make / buffer of n bytes is counted as rnd n = n + n/4 + 16 (0 for
     n = 0): Go rounds a request up to its size class (at most 18.7% above
     the request, at least 8 bytes) or, above 32 KiB, to whole 8 KiB pages;
   * readBytes: the eager make([]byte, n) for n <= 64 KiB; beyond, the
     bytes.Buffer filled by io.CopyN grows geometrically from bytes.MinRead =
     512: all its backing arrays together stay below 4 times what was
     delivered plus 2048, with rounding below 5 times plus 4096;
   * string(b): a copy of the bytes; make([]Opcode, n), make([]int32, n): 4n;
   * append to consts / UpNames, one item at a time: all the backing arrays
     ever allocated for a slice that ends with m items have together fewer
     than 10 m elements (doubling up to 256 items, then growth by a quarter
     plus 192, each rounded up to a size class): GROW * elt per appended item;
   * new(Code): SZ_CODE = 144 bytes, before readCode's first budget step;
   * the 3-byte prefix buffer of UnmarshalConst.
   Only a real budget is considered (unl = false). *)
From Coq Require Import ZArith List Bool.
From GV Require Import Marshal.Model.
Import ListNotations.
Open Scope Z_scope.

Definition SZ_CODE := 144.
Definition GROW := 10.
Definition rnd (n : Z) : Z := if n <=? 0 then 0 else n + n / 4 + 16.

(* allocation of [r >>= f]: that of r, plus that of f when r succeeded *)
Definition abind {A} (r : ures A) (ar : Z) (af : A -> bytes -> Z -> Z) : Z :=
  ar + match r with UOk a i b => af a i b | _ => 0 end.

Section Alloc.
Variable lim : Z.
Let unl := false.

Definition al_fixed (n : Z) (inp : bytes) (b : Z) : Z :=
  match consume unl b n with None => 0 | Some _ => rnd n end.

Definition al_bytes (n item : Z) (inp : bytes) (b : Z) : Z :=
  if n <? 0 then 0
  else if maxInt64 / item <? n then 0
  else
    let total := n * item in
    match consume unl b total with
    | None => 0
    | Some _ =>
        if total <=? maxEagerRead then rnd total
        else match readfull inp total with
             | inl _ => 5 * total + 4096
             | inr _ => 5 * zlen inp + 4096
             end
    end.

Definition al_str (inp : bytes) (b : Z) : Z :=
  abind (rd_fixed unl 8 inp b) (al_fixed 8 inp b) (fun v i1 b1 =>
  abind (rd_bytes lim unl (signed 64 v) 1 i1 b1) (al_bytes (signed 64 v) 1 i1 b1) (fun a _ _ => rnd (zlen a))).

Definition al_words (n : Z) (inp : bytes) (b : Z) : Z :=
  abind (rd_bytes lim unl n 4 inp b) (al_bytes n 4 inp b) (fun raw _ _ => rnd (zlen raw)).

Fixpoint al_many {A} (rd : bytes -> Z -> ures A) (al : bytes -> Z -> Z) (elt : Z) (n : nat) (have : Z)
    (inp : bytes) (b : Z) : Z :=
  match n with
  | O => 0
  | S m => abind (rd inp b) (al inp b) (fun _ i1 b1 => GROW * elt + al_many rd al elt m (have + 1) i1 b1)
  end.

Definition al_code (rdk : bytes -> Z -> ures cst) (alk : bytes -> Z -> Z) (inp : bytes) (b : Z) : Z :=
  SZ_CODE +
  match consume unl b 8 with None => 0 | Some b0 =>
  rnd 8 +
  abind (rd_str lim unl inp b0) (al_str inp b0) (fun src inp1 b1 =>
  abind (rd_str lim unl inp1 b1) (al_str inp1 b1) (fun nm inp2 b2 =>
  abind (rd_raw 8 inp2 b2) 0 (fun v3 inp3 b3 =>
  abind (rd_words lim unl (signed 64 v3) inp3 b3) (al_words (signed 64 v3) inp3 b3) (fun opw inp4 b4 =>
  abind (rd_fixed unl 8 inp4 b4) (al_fixed 8 inp4 b4) (fun v5 inp5 b5 =>
  abind (rd_words lim unl (signed 64 v5) inp5 b5) (al_words (signed 64 v5) inp5 b5) (fun lnw inp6 b6 =>
  abind (rd_fixed unl 8 inp6 b6) (al_fixed 8 inp6 b6) (fun v7 inp7 b7 =>
  let nk := signed 64 v7 in
  if nk <? 0 then 0 else
  abind (rd_many lim rdk SZ_VALUE (loop_count nk inp7) 0 inp7 b7)
        (al_many rdk alk SZ_VALUE (loop_count nk inp7) 0 inp7 b7) (fun ks inp8 b8 =>
  match consume unl b8 (2 + 2 + 2 + 8) with None => 0 | Some b9 =>
  (rnd 2 + rnd 2 + rnd 2 + rnd 8) +
  abind (rd_raw 2 inp8 b9) 0 (fun uc inp9 b10 =>
  abind (rd_raw 2 inp9 b10) 0 (fun rc inp10 b11 =>
  abind (rd_raw 2 inp10 b11) 0 (fun cc inp11 b12 =>
  abind (rd_raw 8 inp11 b12) 0 (fun v12 inp12 b13 =>
  if (signed 16 uc <? 0) || (signed 16 rc <? 0) || (signed 16 cc <? 0) then 0 else
  let nup := signed 64 v12 in
  if nup <? 0 then 0 else
  al_many (rd_str lim unl) al_str SZ_STRING (loop_count nup inp12) 0 inp12 b13))))
  end))))))))
  end.

Fixpoint al_cst (fuel : nat) (inp : bytes) (b : Z) : Z :=
  match fuel with
  | O => 0
  | S f =>
    abind (rd_fixed unl 1 inp b) (al_fixed 1 inp b) (fun tp inp1 b1 =>
      if tp =? T_INT then al_fixed 8 inp1 b1
      else if tp =? T_FLOAT then al_fixed 8 inp1 b1
      else if tp =? T_STRING then al_str inp1 b1
      else if tp =? T_CODE then al_code (rd_cst lim unl f) (al_cst f) inp1 b1
      else 0)
  end.

End Alloc.

(* UnmarshalConst with a non-zero budget *)
Definition al_unmarshal (lim budget : Z) (inp : bytes) : Z :=
  rnd 3 +
  match inp with
  | p0 :: p1 :: p2 :: rest =>
      if (p0 =? 6) && (p1 =? 0) && (p2 =? 4) then al_cst lim (S (length rest)) rest budget else 0
  | _ => 0
  end.
