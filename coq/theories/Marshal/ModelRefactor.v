(* Marshal/ModelRefactor.v — executable model of Runtime.RefactorCodeConsts
   (runtime/loadunit.go) and of string.dump / load(...,"b") built on it.
   Definitions only; proofs are in Marshal/RefactorProofs.v.

   Opcode bit layout used by the refactoring (code/opcodes.go):
     Type3:  0110FaYY AAAAAAAA NNNNNNNN NNNNNNNN
     TypePfx  = c & 0xf0000000          (Type3Pfx = 6<<28)
     GetY     = (c >> 24) & 3           (OpInt16=0, OpK=1, OpClosureK=2, OpStr2=3)
     GetKIndex= uint16(c)   SetKIndex(i) = c&0xffff0000 | i
   Opcodes are uint32, so all of it is arithmetic on op/65536 and op mod 65536. *)
From Coq Require Import ZArith List Bool.
From GV Require Import Marshal.Model.
Import ListNotations.
Open Scope Z_scope.

Definition hi (op : Z) : Z := op / 65536.
Definition kidx (op : Z) : Z := op mod 65536.
Definition setk (op m : Z) : Z := hi op * 65536 + m.
Definition isType3 (op : Z) : bool := hi op / 4096 =? 6.
Definition yop (op : Z) : Z := (hi op / 256) mod 4.
Definition isClosureK (op : Z) : bool := isType3 op && (yop op =? 2).
Definition loadsK (op : Z) : bool := isType3 op && ((yop op =? 1) || (yop op =? 2)).

Inductive rres (A : Type) : Type :=
| ROk (a : A)
| RPanic        (* Go run-time panic: index out of range, interface conversion,
                   "constant index out of range" *)
| RUnsup        (* shape the tree model cannot represent (see getk_u) *)
| ROutOfFuel.
Arguments ROk {A}. Arguments RPanic {A}. Arguments RUnsup {A}. Arguments ROutOfFuel {A}.

Fixpoint assoc (n : Z) (m : list (Z * Z)) : option Z :=
  match m with
  | [] => None
  | (a, b) :: r => if a =? n then Some b else assoc n r
  end.

Definition set_ops (h : chead) (o : list Z) : chead :=
  mkHead (source h) (name h) o (lines h) (upvalueCount h) (regCount h) (cellCount h) (upnames h).

Section Loop.
(* c.consts[n] as is, and CodeValue(r.RefactorCodeConsts(c.consts[n].AsCode())) *)
Variable getk : Z -> rres cst.
Variable getclos : Z -> rres cst.

(* the loop of RefactorCodeConsts: cmap is constMap, acc is consts *)
Fixpoint rloop (ops : list Z) (cmap : list (Z * Z)) (acc : list cst) : rres (list Z * list cst) :=
  match ops with
  | [] => ROk ([], acc)
  | op :: r =>
      if loadsK op then
        let n := kidx op in
        match assoc n cmap with
        | Some m =>
            match rloop r cmap acc with
            | ROk (o, a) => ROk (setk op m :: o, a)
            | e => e
            end
        | None =>
            let m := zlen acc in
            if 65535 <? m then RPanic else
            match (if isClosureK op then getclos n else getk n) with
            | ROk k =>
                match rloop r ((n, m) :: cmap) (acc ++ [k]) with
                | ROk (o, a) => ROk (setk op m :: o, a)
                | e => e
                end
            | RPanic => RPanic | RUnsup => RUnsup | ROutOfFuel => ROutOfFuel
            end
        end
      else
        match rloop r cmap acc with
        | ROk (o, a) => ROk (op :: o, a)
        | e => e
        end
  end.
End Loop.

Definition nth_r {A} (l : list (rres A)) (n : Z) : rres A :=
  match nth_error l (Z.to_nat n) with Some r => r | None => RPanic end.

(* RefactorCodeConsts on a code whose constants are its own (the shape every
   unmarshalled code has).  Applied to a non-code value it is the failing
   interface conversion of Value.AsCode. *)
Fixpoint refactor_cst (k : cst) : rres cst :=
  match k with
  | KCode h ks =>
      match rloop (nth_r (map ROk ks)) (nth_r (map refactor_cst ks)) (ops h) [] [] with
      | ROk (o, a) => ROk (KCode (set_ops h o) a)
      | RPanic => RPanic | RUnsup => RUnsup | ROutOfFuel => ROutOfFuel
      end
  | _ => RPanic
  end.

Definition refactor (c : code) : rres cst := refactor_cst (KC c).

(* A freshly compiled unit: LoadLuaUnit gives every code of the unit the same
   constant vector, in which the codes themselves sit; so here a code constant
   carries no constants of its own. *)
Inductive ucst := UInt (z : Z) | UFlt (bits : Z) | UStr (s : bytes) | UCode (h : chead).

Definition getk_u (u : list ucst) (n : Z) : rres cst :=
  match nth_error u (Z.to_nat n) with
  | Some (UInt z) => ROk (KInt z)
  | Some (UFlt b) => ROk (KFlt b)
  | Some (UStr s) => ROk (KStr s)
  | Some (UCode _) => RUnsup   (* a code loaded with OpK: Go would keep the cyclic value *)
  | None => RPanic
  end.

(* RefactorCodeConsts(u[n].AsCode()) *)
Fixpoint refactor_unit (fuel : nat) (u : list ucst) (n : Z) : rres cst :=
  match fuel with
  | O => ROutOfFuel
  | S f =>
      match nth_error u (Z.to_nat n) with
      | Some (UCode h) =>
          match rloop (getk_u u) (refactor_unit f u) (ops h) [] [] with
          | ROk (o, a) => ROk (KCode (set_ops h o) a)
          | RPanic => RPanic | RUnsup => RUnsup | ROutOfFuel => ROutOfFuel
          end
      | _ => RPanic
      end
  end.

(* string.dump f  (lib/stringlib/dump.go): refactor, then MarshalConst *)
Definition dump (k : cst) : rres bytes :=
  match refactor_cst k with
  | ROk k' => ROk (marshal k')
  | RPanic => RPanic | RUnsup => RUnsup | ROutOfFuel => ROutOfFuel
  end.

Definition dump_unit (u : list ucst) (n : Z) : rres bytes :=
  match refactor_unit (S (length u)) u n with
  | ROk k' => ROk (marshal k')
  | RPanic => RPanic | RUnsup => RUnsup | ROutOfFuel => ROutOfFuel
  end.
