(* Marshal/ChunkReader.v — independence of maxEagerRead for the WHOLE reader.
   rd_*_g are the model's readers with readBytes abstracted to a parameter rb;
   unmarshal_T T is UnmarshalConst with threshold T.  Proved: for ANY byte string, ANY budget,
   every T <= lim (and lim at least 2*|input|+512 and 65536): unmarshal_T T = the model's
   unmarshal (value, unread input, budget left, error, budget stop — everything). *)
From Coq Require Import ZArith List Bool Lia ZifyBool.
From GV Require Import Marshal.Model Marshal.Proofs Marshal.SuffixProofs Marshal.ChunkProofs.
Import ListNotations.
Open Scope Z_scope.

Lemma ubind_congr {A B} (r : ures A) (f1 f2 : A -> bytes -> Z -> ures B) :
  (forall a i b1, r = UOk a i b1 -> f1 a i b1 = f2 a i b1) -> ubind r f1 = ubind r f2.
Proof. destruct r; cbn [ubind]; auto. Qed.

Lemma sfx_len {A} inp (r : ures A) a i b : sfx inp r -> r = UOk a i b -> zlen i <= zlen inp.
Proof.
  intros H ->. destruct H as [pre ->]. rewrite zlen_app. pose proof (zlen_nonneg pre). lia.
Qed.

Section Generic.
Variable lim : Z.
Variable unl : bool.
Variable rb : Z -> Z -> bytes -> Z -> ures bytes.   (* readBytes *)

Definition rd_str_g (inp : bytes) (b : Z) : ures bytes :=
  ubind (rd_fixed unl 8 inp b) (fun v inp1 b1 => rb (signed 64 v) 1 inp1 b1).

Definition rd_words_g (n : Z) (inp : bytes) (b : Z) : ures (list Z) :=
  ubind (rb n 4 inp b) (fun raw inp1 b1 => with_mk lim n 4 (UOk (chunks4 raw) inp1 b1)).

Definition rd_code_g (rdk : bytes -> Z -> ures cst) (inp : bytes) (b : Z) : ures cst :=
  match consume unl b 8 with None => UBudget | Some b0 =>
  ubind (rd_str_g inp b0) (fun src inp1 b1 =>
  ubind (rd_str_g inp1 b1) (fun nm inp2 b2 =>
  ubind (rd_raw 8 inp2 b2) (fun v3 inp3 b3 =>
  ubind (rd_words_g (signed 64 v3) inp3 b3) (fun opw inp4 b4 =>
  ubind (rd_fixed unl 8 inp4 b4) (fun v5 inp5 b5 =>
  ubind (rd_words_g (signed 64 v5) inp5 b5) (fun lnw inp6 b6 =>
  ubind (rd_fixed unl 8 inp6 b6) (fun v7 inp7 b7 =>
  let nk := signed 64 v7 in
  if nk <? 0 then UErr EInvalidLength b7 else
  ubind (rd_many lim rdk SZ_VALUE (loop_count nk inp7) 0 inp7 b7) (fun ks inp8 b8 =>
  match consume unl b8 (2 + 2 + 2 + 8) with None => UBudget | Some b9 =>
  ubind (rd_raw 2 inp8 b9) (fun uc inp9 b10 =>
  ubind (rd_raw 2 inp9 b10) (fun rc inp10 b11 =>
  ubind (rd_raw 2 inp10 b11) (fun cc inp11 b12 =>
  ubind (rd_raw 8 inp11 b12) (fun v12 inp12 b13 =>
  if (signed 16 uc <? 0) || (signed 16 rc <? 0) || (signed 16 cc <? 0) then UErr EInvalidCode b13 else
  let nup := signed 64 v12 in
  if nup <? 0 then UErr EInvalidLength b13 else
  ubind (rd_many lim rd_str_g SZ_STRING (loop_count nup inp12) 0 inp12 b13) (fun ups inp13 b14 =>
  if Z.of_nat (length ks) <? nk then UOutOfFuel
  else if Z.of_nat (length ups) <? nup then UOutOfFuel
  else
  UOk (KCode (mkHead src nm opw (map (signed 32) lnw)
                     (signed 16 uc) (signed 16 rc) (signed 16 cc) ups) ks)
      inp13 b14)))))
  end))))))))
  end.

Fixpoint rd_cst_g (fuel : nat) (inp : bytes) (b : Z) : ures cst :=
  match fuel with
  | O => UOutOfFuel
  | S f =>
    ubind (rd_fixed unl 1 inp b) (fun tp inp1 b1 =>
      if tp =? T_INT then ubind (rd_fixed unl 8 inp1 b1) (fun v i2 b2 => UOk (KInt (signed 64 v)) i2 b2)
      else if tp =? T_FLOAT then ubind (rd_fixed unl 8 inp1 b1) (fun v i2 b2 => UOk (KFlt v) i2 b2)
      else if tp =? T_STRING then ubind (rd_str_g inp1 b1) (fun s i2 b2 => UOk (KStr s) i2 b2)
      else if tp =? T_CODE then rd_code_g (rd_cst_g f) inp1 b1
      else UErr EInvalidType b1)
  end.

(* if rb is the model's readBytes on every input of at most N bytes (item sizes 1 and 4,
   the only ones the reader uses), the generic reader is the model's reader on such inputs *)
Variable N : Z.
Hypothesis Hrb : forall n item inp b, item = 1 \/ item = 4 -> zlen inp <= N ->
  rd_bytes lim unl n item inp b = rb n item inp b.

Lemma rd_str_g_eq inp b : zlen inp <= N -> rd_str lim unl inp b = rd_str_g inp b.
Proof.
  intros H. unfold rd_str, rd_str_g. apply ubind_congr. intros v i b1 E.
  apply Hrb; [auto|]. pose proof (sfx_len _ _ _ _ _ (rd_fixed_sfx unl 8 inp b) E). lia.
Qed.

Lemma rd_words_g_eq n inp b : zlen inp <= N -> rd_words lim unl n inp b = rd_words_g n inp b.
Proof. intros H. unfold rd_words, rd_words_g. rewrite Hrb by auto. reflexivity. Qed.

Lemma rd_many_g_eq {A} (rd1 rd2 : bytes -> Z -> ures A) elt :
  (forall inp b, zlen inp <= N -> rd1 inp b = rd2 inp b) ->
  (forall inp b, sfx inp (rd1 inp b)) ->
  forall n have inp b, zlen inp <= N ->
  rd_many lim rd1 elt n have inp b = rd_many lim rd2 elt n have inp b.
Proof.
  intros He Hs. induction n as [|n IH]; intros have inp b H; cbn [rd_many]; [reflexivity|].
  rewrite <- He by exact H. apply ubind_congr. intros a i b1 E.
  pose proof (sfx_len _ _ _ _ _ (Hs inp b) E).
  rewrite IH by lia. reflexivity.
Qed.

Ltac step L := apply ubind_congr; let E := fresh "E" in intros ? ? ? E;
  let X := fresh "X" in pose proof (sfx_len _ _ _ _ _ L E) as X.

Lemma rd_code_g_eq (rdk1 rdk2 : bytes -> Z -> ures cst) inp b :
  (forall i b', zlen i <= N -> rdk1 i b' = rdk2 i b') ->
  (forall i b', sfx i (rdk1 i b')) ->
  zlen inp <= N -> rd_code lim unl rdk1 inp b = rd_code_g rdk2 inp b.
Proof.
  intros Hk Hks H. unfold rd_code, rd_code_g.
  destruct (consume unl b 8) as [b0|]; [|reflexivity].
  rewrite <- rd_str_g_eq by lia. step (rd_str_sfx lim unl inp b0).
  rewrite <- rd_str_g_eq by lia. step (rd_str_sfx lim unl i b1).
  step (rd_raw_sfx 8 i0 b2).
  rewrite <- rd_words_g_eq by lia. step (rd_words_sfx lim unl (signed 64 a1) i1 b3).
  step (rd_fixed_sfx unl 8 i2 b4).
  rewrite <- rd_words_g_eq by lia. step (rd_words_sfx lim unl (signed 64 a3) i3 b5).
  step (rd_fixed_sfx unl 8 i4 b6).
  cbv zeta. destruct (signed 64 a5 <? 0); [reflexivity|].
  rewrite <- (rd_many_g_eq rdk1 rdk2 SZ_VALUE Hk Hks) by lia.
  step (rd_many_sfx lim rdk1 SZ_VALUE Hks (loop_count (signed 64 a5) i5) 0 i5 b7).
  destruct (consume unl b8 (2 + 2 + 2 + 8)) as [b9|]; [|reflexivity].
  step (rd_raw_sfx 2 i6 b9).
  step (rd_raw_sfx 2 i7 b10).
  step (rd_raw_sfx 2 i8 b11).
  step (rd_raw_sfx 8 i9 b12).
  destruct ((signed 16 a7 <? 0) || (signed 16 a8 <? 0) || (signed 16 a9 <? 0)); [reflexivity|].
  destruct (signed 64 a10 <? 0); [reflexivity|].
  rewrite <- (rd_many_g_eq (rd_str lim unl) rd_str_g SZ_STRING
                (fun i b' Hi => rd_str_g_eq i b' Hi) (rd_str_sfx lim unl)) by lia.
  reflexivity.
Qed.

Lemma rd_cst_g_eq : forall fuel inp b, zlen inp <= N -> rd_cst lim unl fuel inp b = rd_cst_g fuel inp b.
Proof.
  induction fuel as [|f IH]; intros inp b H; cbn [rd_cst rd_cst_g]; [reflexivity|].
  apply ubind_congr. intros tp i b1 E.
  pose proof (sfx_len _ _ _ _ _ (rd_fixed_sfx unl 1 inp b) E).
  destruct (tp =? T_INT); [reflexivity|]. destruct (tp =? T_FLOAT); [reflexivity|].
  destruct (tp =? T_STRING). { rewrite <- rd_str_g_eq by lia. reflexivity. }
  destruct (tp =? T_CODE); [|reflexivity].
  apply rd_code_g_eq; [intros; apply IH; assumption | intros; apply rd_cst_sfx | lia].
Qed.
End Generic.

(* UnmarshalConst with eager-read threshold T *)
Definition unmarshal_T (T lim budget : Z) (inp : bytes) : ures cst :=
  match inp with
  | p0 :: p1 :: p2 :: rest =>
      if (p0 =? 6) && (p1 =? 0) && (p2 =? 4)
      then rd_cst_g lim (budget =? 0) (rd_bytes_T T lim (budget =? 0)) (S (length rest)) rest budget
      else UErr EPrefix budget
  | _ => UErr EPrefix budget
  end.

(* with the threshold of the source, unmarshal_T is the model's unmarshal — no size hypothesis *)
Theorem unmarshal_T_model : forall lim budget inp,
  unmarshal_T maxEagerRead lim budget inp = unmarshal lim budget inp.
Proof.
  intros. unfold unmarshal_T, unmarshal.
  destruct inp as [|x0 [|x1 [|x2 inp]]]; [reflexivity|reflexivity|reflexivity|].
  destruct ((x0 =? 6) && (x1 =? 0) && (x2 =? 4)); [|reflexivity].
  symmetry. apply rd_cst_g_eq with (N := zlen inp); [|lia].
  intros. symmetry. apply rd_bytes_T_model.
Qed.

(* INDEPENDENCE OF maxEagerRead, whole reader: ANY byte string, ANY budget, EVERY threshold one
   allocation can get (negative ones included: everything chunked) *)
Theorem unmarshal_threshold_independent : forall T lim budget inp,
  T <= lim -> 65536 <= lim -> 2 * zlen inp + 512 <= lim <= maxAlloc ->
  unmarshal_T T lim budget inp = unmarshal lim budget inp.
Proof.
  intros T lim budget inp HT H6 Hl. unfold unmarshal_T, unmarshal.
  destruct inp as [|x0 [|x1 [|x2 inp]]]; [reflexivity|reflexivity|reflexivity|].
  destruct ((x0 =? 6) && (x1 =? 0) && (x2 =? 4)); [|reflexivity].
  symmetry. apply rd_cst_g_eq with (N := zlen inp); [|lia].
  intros n item i b _ Hi. rewrite !zlen_cons in Hl.
  rewrite rd_bytes_is_data, rd_bytes_T_exact by lia. reflexivity.
Qed.

Corollary unmarshal_any_two_thresholds : forall T1 T2 lim budget inp,
  T1 <= lim -> T2 <= lim -> 65536 <= lim -> 2 * zlen inp + 512 <= lim <= maxAlloc ->
  unmarshal_T T1 lim budget inp = unmarshal_T T2 lim budget inp.
Proof. intros. rewrite !unmarshal_threshold_independent by lia. reflexivity. Qed.

(* satisfiable, and the threshold really switches paths: the example dump read with threshold 0
   (every array through the chunked path) and with the source's threshold *)
Example unmarshal_T_example :
  unmarshal_T 0 1048576 0 (marshal ex_code) = UOk ex_code [] 0 /\
  unmarshal_T maxEagerRead 1048576 0 (marshal ex_code) = UOk ex_code [] 0.
Proof. vm_compute. auto. Qed.
