(* Pool/RegPool.v — implementation model of golua's register pools
   (runtime/regpool.go: valuePool / cellPool get and release — the two types
   run the same algorithm).  A register set is modelled by an identity (which
   Go slice it is) and its contents (list of N, 0 = the zero Value / Cell).
   Go's index-out-of-range panic (pool created with fewer than regPoolSize
   slots) is explicit.  No proofs in this file. *)
From Coq Require Import NArith List Bool.
Import ListNotations.
Open Scope N_scope.

Definition regPoolSize : nat := 10.   (* const regPoolSize: the default number of slots *)

(* one pool slot: p.values[i] (None = nil) and p.exps[i] *)
Record slot := mkSlot { sVal : option (N * list N); sExp : N }.
Record vpool := mkVPool { slots : list slot; gen : N; maxAge : N }.

Definition mkValuePool (size : nat) (age : N) : vpool := mkVPool (repeat (mkSlot None 0) size) 0 age.

Definition slotLen (s : slot) : nat := match sVal s with None => 0 | Some (_, c) => length c end.

Fixpoint setNth {A} (i : nat) (x : A) (l : list A) : list A :=
  match l, i with
  | [], _ => []
  | _ :: t, O => x :: t
  | y :: t, S j => y :: setNth j x t
  end.

Inductive getres :=
| GReused (id : N) (c : list N)   (* a pooled slice *)
| GNil                            (* the nil slice of an empty slot (only for sz = 0) *)
| GFresh (c : list N)             (* make([]Value, sz) *)
| GPanic.                         (* index out of range *)

(* for i := 0; i < len(p.values); i++ { v := p.values[i]; if len(v) == sz { ... } }
   (the loops ran to the constant regPoolSize before the repair of WithRegPoolSize(n < 10): an index panic) *)
Fixpoint getScan (ss : list slot) (sz : nat) (i n : nat) : option (nat * getres) :=
  match n with
  | O => None
  | S n' =>
      match nth_error ss i with
      | None => Some (i, GPanic)
      | Some s =>
          if Nat.eqb (slotLen s) sz then
            Some (i, match sVal s with None => GNil | Some (id, c) => GReused id c end)
          else getScan ss sz (S i) n'
      end
  end.

Definition get (p : vpool) (sz : nat) : vpool * getres :=
  let g := gen p + 1 in
  match getScan (slots p) sz 0 (length (slots p)) with
  | None => (mkVPool (slots p) g (maxAge p), GFresh (repeat 0 sz))
  | Some (_, GPanic) => (mkVPool (slots p) g (maxAge p), GPanic)
  | Some (i, r) => (mkVPool (setNth i (mkSlot None 0) (slots p)) g (maxAge p), r)
  end.

(* for i := 0; i < len(p.values); i++ { if p.exps[i] < p.gen { zero v; p.values[i] = v; p.exps[i] = p.gen + p.maxAge; return } } *)
Fixpoint relScan (ss : list slot) (g : N) (i n : nat) : option (option nat) :=
  match n with
  | O => None                         (* no slot: the slice is dropped *)
  | S n' =>
      match nth_error ss i with
      | None => Some None             (* panic *)
      | Some s => if sExp s <? g then Some (Some i) else relScan ss g (S i) n'
      end
  end.

Inductive relres := RStored (i : nat) | RDropped | RPanic.

Definition release (p : vpool) (id : N) (c : list N) : vpool * relres :=
  match relScan (slots p) (gen p) 0 (length (slots p)) with
  | None => (p, RDropped)
  | Some None => (p, RPanic)
  | Some (Some i) =>
      (mkVPool (setNth i (mkSlot (Some (id, repeat 0 (length c))) (gen p + maxAge p)) (slots p)) (gen p) (maxAge p),
       RStored i)
  end.

(* operations of a client.  OScribble is what the client discipline forbids:
   writing through a retained reference into a register set it has released
   (slot i, position j). *)
Inductive op :=
| OGet (sz : nat)
| ORelease (id : N) (c : list N)
| OScribble (i j : nat) (v : N).

Inductive res := RGet (r : getres) | RRel (r : relres) | RNone.

Definition scribble (p : vpool) (i j : nat) (v : N) : vpool :=
  match nth_error (slots p) i with
  | Some (mkSlot (Some (id, c)) e) => mkVPool (setNth i (mkSlot (Some (id, setNth j v c)) e) (slots p)) (gen p) (maxAge p)
  | _ => p
  end.

Definition step (p : vpool) (o : op) : vpool * res :=
  match o with
  | OGet sz => let '(p', r) := get p sz in (p', RGet r)
  | ORelease id c => let '(p', r) := release p id c in (p', RRel r)
  | OScribble i j v => (scribble p i j v, RNone)
  end.

Fixpoint run (p : vpool) (os : list op) : list res :=
  match os with [] => [] | o :: t => let '(p', r) := step p o in r :: run p' t end.

Fixpoint final (p : vpool) (os : list op) : vpool :=
  match os with [] => p | o :: t => final (fst (step p o)) t end.

(* the contents a get hands to its caller *)
Definition contents (r : getres) : option (list N) :=
  match r with GReused _ c => Some c | GNil => Some [] | GFresh c => Some c | GPanic => None end.

(* specification: the noregpool build — make([]Value, sz) every time, release does nothing *)
Definition fresh_step (o : op) : option (list N) :=
  match o with OGet sz => Some (repeat 0 sz) | _ => None end.

Definition disciplined (o : op) : bool := match o with OScribble _ _ _ => false | _ => true end.
