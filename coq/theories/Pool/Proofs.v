(* Pool/Proofs.v — the register pool and the continuation pools are
   observationally fresh allocation (under the client discipline). *)
From Coq Require Import NArith List Bool Lia Arith.
From GV Require Import Pool.RegPool Pool.ContPool.
Import ListNotations.
Open Scope N_scope.

Definition zeroed (c : list N) : Prop := Forall (fun x => x = 0) c.
Definition slotOK (s : slot) : Prop := match sVal s with Some (_, c) => zeroed c | None => True end.
Definition Zeroed (p : vpool) : Prop := Forall slotOK (slots p).

Lemma zeroed_repeat n : zeroed (repeat 0 n).
Proof. induction n; simpl; constructor; auto. Qed.

Lemma zeroed_eq c : zeroed c -> c = repeat 0 (length c).
Proof. induction 1; simpl; [reflexivity|]. subst. f_equal. assumption. Qed.

Lemma setNth_Forall {A} (P : A -> Prop) i x l : Forall P l -> P x -> Forall P (setNth i x l).
Proof.
  intros H Hx. revert i. induction H; intros i; simpl.
  - destruct i; constructor.
  - destruct i; constructor; auto.
Qed.

Lemma setNth_length {A} i (x : A) l : length (setNth i x l) = length l.
Proof. revert i. induction l; intros i; simpl; [destruct i; reflexivity|]. destruct i; simpl; auto. Qed.

Lemma Zeroed_mk size age : Zeroed (mkValuePool size age).
Proof. unfold Zeroed, mkValuePool. simpl. induction size; simpl; constructor; auto. exact I. Qed.

Lemma getScan_spec ss sz n : forall i j r, getScan ss sz i n = Some (j, r) ->
  r = GPanic \/ exists s, nth_error ss j = Some s /\ slotLen s = sz /\
                 r = match sVal s with None => GNil | Some (id, c) => GReused id c end.
Proof.
  induction n; intros i j r H; simpl in H; [discriminate|].
  destruct (nth_error ss i) as [s|] eqn:E.
  - destruct (Nat.eqb (slotLen s) sz) eqn:L.
    + inversion H; subst. right. exists s. apply Nat.eqb_eq in L. auto.
    + eapply IHn; eauto.
  - inversion H. left. reflexivity.
Qed.

Lemma get_zeroed p sz : Zeroed p -> Zeroed (fst (get p sz)).
Proof.
  intros Z. unfold get. destruct (getScan (slots p) sz 0 (length (slots p))) as [[i r]|]; [|exact Z].
  destruct r; try exact Z; cbn [fst]; unfold Zeroed; cbn [slots]; apply setNth_Forall; try exact Z; exact I.
Qed.

(* every register set handed out has exactly the requested size and is all zero *)
Theorem get_zeroed_right_size p sz c :
  Zeroed p -> contents (snd (get p sz)) = Some c -> c = repeat 0 sz.
Proof.
  intros Z. unfold get. destruct (getScan (slots p) sz 0 (length (slots p))) as [[i r]|] eqn:G.
  - destruct (getScan_spec _ _ _ _ _ _ G) as [->|(s & Hn & Hl & Hr)]; [discriminate|].
    assert (OK : slotOK s).
    { unfold Zeroed in Z. rewrite Forall_forall in Z. apply Z. eapply nth_error_In; eauto. }
    unfold slotOK, slotLen in *. destruct (sVal s) as [[id c0]|]; subst r; cbn [snd contents]; intros E; inversion E; subst.
    + apply zeroed_eq. exact OK.
    + reflexivity.
  - cbn. intros E. inversion E. reflexivity.
Qed.

Lemma release_zeroed p id c : Zeroed p -> Zeroed (fst (release p id c)).
Proof.
  intros Z. unfold release. destruct (relScan (slots p) (gen p) 0 (length (slots p))) as [[i|]|]; try exact Z.
  cbn [fst]. unfold Zeroed. cbn [slots]. apply setNth_Forall; [exact Z|]. unfold slotOK. cbn. apply zeroed_repeat.
Qed.

Lemma step_zeroed p o : Zeroed p -> disciplined o = true -> Zeroed (fst (step p o)).
Proof.
  intros Z D. destruct o; try discriminate; cbn [step].
  - destruct (get p sz) eqn:E. cbn [fst]. change v with (fst (v, g)). rewrite <- E. apply get_zeroed. exact Z.
  - destruct (release p id c) eqn:E. cbn [fst]. change v with (fst (v, r)). rewrite <- E. apply release_zeroed. exact Z.
Qed.

(* observational refinement: as long as the client keeps the discipline (never
   touches a register set after releasing it), every get returns what
   make([]Value, sz) returns — for every pool state reachable from a fresh
   pool, every sequence of gets and releases of arbitrary slices *)
Definition agrees (o : op) (r : res) : Prop :=
  match r with RGet g => g = GPanic \/ contents g = fresh_step o | _ => True end.

Theorem pool_refines_fresh os : forall p,
  Zeroed p -> forallb disciplined os = true -> Forall2 agrees os (run p os).
Proof.
  induction os as [|o os IH]; intros p Z D; simpl; [constructor|].
  simpl in D. apply andb_true_iff in D. destruct D as [D1 D2].
  destruct (step p o) as [p' r] eqn:S. constructor.
  - destruct o; cbn [step] in S; try discriminate.
    + destruct (get p sz) as [q g] eqn:G. inversion S; subst. cbn.
      destruct (contents g) as [c|] eqn:C.
      * right. cbn. f_equal. apply (get_zeroed_right_size p sz c Z). rewrite G. exact C.
      * left. destruct g; cbn in C; try discriminate. reflexivity.
    + destruct (release p id c). inversion S; subst. exact I.
  - apply IH; [|exact D2]. change p' with (fst (p', r)). rewrite <- S. apply step_zeroed; assumption.
Qed.

Corollary pool_refines_fresh_from_new size age os :
  forallb disciplined os = true -> Forall2 agrees os (run (mkValuePool size age) os).
Proof. apply pool_refines_fresh, Zeroed_mk. Qed.

(* the discipline is needed: a write through a retained reference shows up in an unrelated later get *)
Example discipline_needed :
  run (mkValuePool 10 10) [OGet 2; ORelease 7 [5; 6]; OScribble 0 1 9; OGet 2]
  = [RGet (GFresh [0; 0]); RRel (RStored 0); RNone; RGet (GReused 7 [0; 9])].
Proof. vm_compute. reflexivity. Qed.

(* no index panic when the pool has at least regPoolSize slots (the runtime's default) *)
Lemma getScan_nopanic ss sz n : forall i, (i + n <= length ss)%nat -> forall j r, getScan ss sz i n = Some (j, r) -> r <> GPanic.
Proof.
  induction n; intros i L j r H; simpl in H; [discriminate|].
  destruct (nth_error ss i) as [s|] eqn:E.
  - destruct (Nat.eqb (slotLen s) sz).
    + inversion H; subst. destruct (sVal s) as [[? ?]|]; discriminate.
    + eapply IHn; [|exact H]. lia.
  - apply nth_error_None in E. lia.
Qed.

Lemma relScan_nopanic ss g n : forall i, (i + n <= length ss)%nat -> relScan ss g i n <> Some None.
Proof.
  induction n; intros i L; simpl; [discriminate|].
  destruct (nth_error ss i) as [s|] eqn:E.
  - destruct (sExp s <? g); [discriminate|]. apply IHn. lia.
  - apply nth_error_None in E. lia.
Qed.

Theorem pool_no_panic os : forall p,
  Forall (fun r => r <> RGet GPanic /\ r <> RRel RPanic) (run p os).
Proof.
  induction os as [|o os IH]; intros p; simpl; [constructor|].
  destruct (step p o) as [p' r] eqn:S.
  constructor; [|apply IH].
  destruct o; cbn [step] in S.
  - unfold get in S. destruct (getScan (slots p) sz 0 (length (slots p))) as [[i g]|] eqn:G.
    + assert (g <> GPanic) by (eapply getScan_nopanic; [|exact G]; simpl; lia).
      destruct g; try congruence; inversion S; subst; split; congruence.
    + inversion S; subst. split; discriminate.
  - unfold release in S. pose proof (relScan_nopanic (slots p) (gen p) (length (slots p)) 0) as NP.
    destruct (relScan (slots p) (gen p) 0 (length (slots p))) as [[i|]|].
    + inversion S; subst. split; discriminate.
    + exfalso. apply NP; [simpl; lia|reflexivity].
    + inversion S; subst. split; discriminate.
  - inversion S; subst. split; discriminate.
Qed.

(* ---- continuation pools ---- *)

Definition CZero (p : cpool) : Prop := Forall (fun x => snd x = 0) (conts p) /\ (length (conts p) <= size p)%nat.

Lemma cstep_zero p o : CZero p -> CZero (fst (cstep p o)).
Proof.
  intros [Z L]. destruct o; cbn [cstep].
  - unfold cget_op. destruct (conts p) as [|[id f] t] eqn:E; cbn [fst]; [split; rewrite ?E; assumption|].
    inversion Z; subst. split; cbn [conts size]; [assumption|simpl in L; lia].
  - cbn [fst]. unfold crelease. destruct (Nat.eqb (length (conts p)) (size p)) eqn:E; [split; assumption|].
    apply Nat.eqb_neq in E. split; cbn [conts size]; [constructor; auto|simpl; lia].
Qed.

(* every continuation object handed out is indistinguishable from new(LuaCont):
   all its fields are zero; and the stack never exceeds its array (no index panic) *)
Theorem contpool_refines_new os : forall p, CZero p ->
  Forall (fun r => match r with Some g => cfields g = 0 | None => True end) (crun p os) /\
  (length (conts (cfinal p os)) <= size (cfinal p os))%nat.
Proof.
  induction os as [|o os IH]; intros p Z; simpl; [split; [constructor|apply Z]|].
  destruct (cstep p o) as [p' r] eqn:S.
  assert (Z' : CZero p') by (change p' with (fst (p', r)); rewrite <- S; apply cstep_zero; exact Z).
  destruct (IH p' Z') as [A B]. cbn [fst]. split; [|exact B]. constructor; [|exact A].
  destruct o; cbn [cstep] in S.
  - unfold cget_op in S. destruct Z as [Z _]. destruct (conts p) as [|[id f] t]; inversion S; subst; cbn; [reflexivity|].
    inversion Z; subst. assumption.
  - inversion S. exact I.
Qed.

Lemma CZero_mk sz : CZero (mkContPool sz).
Proof. split; [constructor|simpl; lia]. Qed.
