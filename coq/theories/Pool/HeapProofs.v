(* Pool/HeapProofs.v — with aliasing made explicit, the pool is invisible to
   every client that keeps the discipline, whatever the pool's slot policy. *)
From Coq Require Import NArith List Bool Lia Permutation Arith.
From GV Require Import Pool.HeapModel.
Import ListNotations.
Open Scope N_scope.

Definition isSome (o : option N) : bool := match o with Some _ => true | None => false end.
Definition lives (tab : list (option N)) : list N :=
  flat_map (fun o => match o with Some id => [id] | None => [] end) tab.

Lemma upd_same h id c : upd h id c id = c.
Proof. unfold upd. rewrite N.eqb_refl. reflexivity. Qed.
Lemma upd_other h id c id' : id' <> id -> upd h id c id' = h id'.
Proof. intros H. unfold upd. apply N.eqb_neq in H. rewrite H. reflexivity. Qed.

Lemma lives_app a b : lives (a ++ b) = lives a ++ lives b.
Proof. unfold lives. apply flat_map_app. Qed.

Lemma owned_app_last tab id h :
  owned (tab ++ [Some id]) h = if Nat.eqb h (length tab) then Some id else owned tab h.
Proof.
  unfold owned. destruct (Nat.eqb h (length tab)) eqn:E.
  - apply Nat.eqb_eq in E. subst h. rewrite nth_error_app2 by lia. rewrite Nat.sub_diag. reflexivity.
  - apply Nat.eqb_neq in E. destruct (lt_dec h (length tab)) as [L|L].
    + rewrite nth_error_app1 by exact L. reflexivity.
    + assert (nth_error (tab ++ [Some id]) h = None) as ->.
      { apply nth_error_None. rewrite app_length. simpl. lia. }
      assert (nth_error tab h = None) as -> by (apply nth_error_None; lia). reflexivity.
Qed.

Lemma owned_in tab h id : owned tab h = Some id -> In id (lives tab).
Proof.
  unfold owned. revert h. induction tab as [|x tab IH]; intros h H; [destruct h; discriminate|].
  destruct h; simpl in H.
  - destruct x; inversion H; subst. simpl. left. reflexivity.
  - unfold lives. simpl. apply in_or_app. right. apply (IH h). exact H.
Qed.

Lemma owned_inj tab : NoDup (lives tab) -> forall h h' id, owned tab h = Some id -> owned tab h' = Some id -> h = h'.
Proof.
  induction tab as [|x tab IH]; intros ND h h' id H H'; [destruct h; discriminate|].
  unfold lives in ND. simpl in ND. fold (lives tab) in ND.
  assert (NDt : NoDup (lives tab)).
  { destruct x; simpl in ND; [inversion ND; assumption|exact ND]. }
  destruct h, h'; unfold owned in *; simpl in *.
  - reflexivity.
  - exfalso. destruct x; inversion H; subst. simpl in ND. inversion ND; subst. apply H2. apply (owned_in tab h'). exact H'.
  - exfalso. destruct x; inversion H'; subst. simpl in ND. inversion ND; subst. apply H2. apply (owned_in tab h). exact H.
  - f_equal. eapply IH; eauto.
Qed.

Lemma owned_setAt tab h h' : owned (setAt h None tab) h' = if Nat.eqb h' h then None else owned tab h'.
Proof.
  unfold owned. revert h h'. induction tab as [|x tab IH]; intros h h'.
  - destruct h; simpl; destruct h'; simpl; try reflexivity; destruct (Nat.eqb h' h); reflexivity.
  - destruct h; simpl.
    + destruct h'; simpl; reflexivity.
    + destruct h'; simpl; [reflexivity|]. apply IH.
Qed.

Lemma lives_setAt tab h id : owned tab h = Some id -> Permutation (lives tab) (id :: lives (setAt h None tab)).
Proof.
  unfold owned. revert h. induction tab as [|x tab IH]; intros h H; [destruct h; discriminate|].
  destruct h; simpl in *.
  - destruct x; inversion H; subst. unfold lives. simpl. reflexivity.
  - unfold lives. simpl. fold (lives tab). fold (lives (setAt h None tab)).
    rewrite (IH h H). destruct x; simpl; [apply perm_swap|reflexivity].
Qed.

Lemma isSome_setAt tab h : map isSome (setAt h None tab) = setAt h false (map isSome tab).
Proof. revert h. induction tab as [|x tab IH]; intros h; destruct h; simpl; auto. f_equal. apply IH. Qed.

Lemma owned_none_iff a b h : map isSome a = map isSome b -> (owned a h = None <-> owned b h = None).
Proof.
  intros E. assert (H : nth_error (map isSome a) h = nth_error (map isSome b) h) by (rewrite E; reflexivity).
  rewrite !nth_error_map in H. unfold owned.
  destruct (nth_error a h) as [[x|]|]; destruct (nth_error b h) as [[y|]|]; simpl in H; try discriminate; split; intros; try discriminate; reflexivity.
Qed.

Lemma dropAt_in {A} (x : A) i l : In x (dropAt i l) -> In x l.
Proof.
  revert i. induction l as [|y l IH]; intros i H; [destruct i; exact H|].
  destruct i; simpl in *; [right; exact H|]. destruct H as [H|H]; [left; exact H|right; eapply IH; exact H].
Qed.

Lemma dropAt_perm {A} (x : A) i l : nth_error l i = Some x -> Permutation l (x :: dropAt i l).
Proof.
  revert i. induction l as [|y l IH]; intros i H; [destruct i; discriminate|].
  destruct i; simpl in *.
  - inversion H. reflexivity.
  - rewrite (IH i H) at 1. apply perm_swap.
Qed.

Lemma dropAt_nodup_app {A} i (a b : list A) : NoDup (a ++ b) -> NoDup (dropAt i a ++ b).
Proof.
  revert i. induction a as [|y a IH]; intros i H; [destruct i; exact H|].
  simpl in H. inversion H; subst. destruct i; simpl; [exact H3|].
  constructor; [|apply IH; exact H3]. intros Hin. apply H2. apply in_app_or in Hin. apply in_or_app.
  destruct Hin as [Hin|Hin]; [left; eapply dropAt_in; exact Hin|right; exact Hin].
Qed.

Lemma nodup_app_r {A} (a b : list A) : NoDup (a ++ b) -> NoDup b.
Proof. induction a; simpl; intros H; [exact H|]. inversion H; auto. Qed.

Lemma zero_eq c : Forall (fun x => x = 0) c -> c = repeat 0 (length c).
Proof. induction 1; simpl; [reflexivity|]. subst. f_equal. assumption. Qed.
Lemma zero_repeat n : Forall (fun x : N => x = 0) (repeat 0 n).
Proof. induction n; simpl; constructor; auto. Qed.

Record Sim (p : pst) (f : fst_) : Prop := {
  s_live : map isSome (ptab p) = map isSome (ftab f);
  s_eq : forall h idp idf, owned (ptab p) h = Some idp -> owned (ftab f) h = Some idf -> ph p idp = fh f idf;
  s_nd : NoDup (ppool p ++ lives (ptab p));
  s_lt : forall id, In id (ppool p ++ lives (ptab p)) -> id < pnext p;
  s_fnd : NoDup (lives (ftab f));
  s_flt : forall id, In id (lives (ftab f)) -> id < fnext f;
  s_zero : forall id, In id (ppool p) -> Forall (fun x => x = 0) (ph p id)
}.

Lemma Sim0 : Sim p0 f0.
Proof. constructor; simpl; try constructor; try (intros ? []); try (intros ? ? ? H; destruct h; discriminate). Qed.

Lemma tab_len p f : Sim p f -> length (ptab p) = length (ftab f).
Proof. intros S. rewrite <- (map_length isSome (ptab p)), (s_live _ _ S), map_length. reflexivity. Qed.

Lemma owned_both p f h idp : Sim p f -> owned (ptab p) h = Some idp -> exists idf, owned (ftab f) h = Some idf.
Proof.
  intros S H. destruct (owned (ftab f) h) as [idf|] eqn:E; [eauto|].
  apply (owned_none_iff _ _ h (s_live _ _ S)) in E. congruence.
Qed.

Lemma nodup_snoc {A} (l : list A) x : NoDup l -> ~ In x l -> NoDup (l ++ [x]).
Proof.
  intros H Hx. apply (Permutation_NoDup (l := x :: l)); [apply Permutation_cons_append|]. constructor; assumption.
Qed.

Lemma step_sim p f o ch :
  Sim p f ->
  match pstep p o ch with
  | Some (p', ob) => exists f', fstep f o = Some (f', ob) /\ Sim p' f'
  | None => fstep f o = None
  end.
Proof.
  intros S. pose proof (tab_len _ _ S) as TL. pose proof S as S0. destruct S as [SL SE SN SLT SFN SFL SZ].
  assert (NDL : NoDup (lives (ptab p))) by (eapply nodup_app_r; exact SN).
  destruct o as [sz|h j v|h j|h]; cbn [pstep fstep].
  - (* get *)
    assert (FND : NoDup (lives (ftab f ++ [Some (fnext f)]))).
    { rewrite lives_app. simpl. apply nodup_snoc; [exact SFN|]. intros Hin. apply SFL in Hin. lia. }
    assert (FLT : forall id, In id (lives (ftab f ++ [Some (fnext f)])) -> id < fnext f + 1).
    { intros id Hin. rewrite lives_app in Hin. apply in_app_or in Hin. simpl in Hin.
      destruct Hin as [Hin|[<-|[]]]; [apply SFL in Hin|]; lia. }
    assert (FEQ : forall h idf, owned (ftab f) h = Some idf -> upd (fh f) (fnext f) (repeat 0 sz) idf = fh f idf).
    { intros h idf H. apply upd_other. apply owned_in in H. apply SFL in H. lia. }
    set (reuse := match ch with
                  | ChReuse i => match nth_error (ppool p) i with
                                 | Some id => if Nat.eqb (length (ph p id)) sz then Some (i, id) else None
                                 | None => None end
                  | _ => None end).
    destruct reuse as [[i id]|] eqn:RU.
    + (* a pooled set is reused *)
      assert (RI : nth_error (ppool p) i = Some id /\ length (ph p id) = sz).
      { subst reuse. destruct ch; try discriminate. destruct (nth_error (ppool p) i0) as [id0|] eqn:E; [|discriminate].
        destruct (Nat.eqb (length (ph p id0)) sz) eqn:L; [|discriminate]. inversion RU; subst. apply Nat.eqb_eq in L. auto. }
      destruct RI as [RI RL]. rewrite RL.
      eexists. split; [reflexivity|].
      assert (Ipool : In id (ppool p)) by (eapply nth_error_In; exact RI).
      constructor; cbn [ph ppool pnext ptab fh fnext ftab].
      * rewrite !map_app, SL. reflexivity.
      * intros h idp idf Hp Hf. rewrite owned_app_last in Hp, Hf. rewrite <- TL in Hf.
        destruct (Nat.eqb h (length (ptab p))).
        -- inversion Hp; inversion Hf; subst idp idf. rewrite upd_same. rewrite (zero_eq _ (SZ _ Ipool)), RL. reflexivity.
        -- rewrite (FEQ h idf Hf). eapply SE; eauto.
      * rewrite lives_app. simpl. rewrite app_assoc. apply nodup_snoc.
        -- apply dropAt_nodup_app. exact SN.
        -- (* id occurs once in pool ++ lives: not in dropAt i pool ++ lives *)
           assert (P : Permutation (ppool p ++ lives (ptab p)) (id :: dropAt i (ppool p) ++ lives (ptab p))).
           { rewrite (dropAt_perm id i (ppool p) RI) at 1. reflexivity. }
           pose proof (Permutation_NoDup P SN) as ND'. inversion ND'; assumption.
      * intros x Hin. apply SLT. rewrite lives_app in Hin. apply in_app_or in Hin. apply in_or_app.
        destruct Hin as [Hin|Hin]; [left; eapply dropAt_in; exact Hin|].
        apply in_app_or in Hin. simpl in Hin. destruct Hin as [Hin|[<-|[]]]; [right; exact Hin|left; exact Ipool].
      * exact FND.
      * exact FLT.
      * intros x Hin. apply SZ. eapply dropAt_in. exact Hin.
    + (* fresh allocation on both sides *)
      eexists. split; [reflexivity|].
      assert (PEQ : forall x, In x (ppool p ++ lives (ptab p)) -> upd (ph p) (pnext p) (repeat 0 sz) x = ph p x).
      { intros x Hin. apply upd_other. apply SLT in Hin. lia. }
      constructor; cbn [ph ppool pnext ptab fh fnext ftab].
      * rewrite !map_app, SL. reflexivity.
      * intros h idp idf Hp Hf. rewrite owned_app_last in Hp, Hf. rewrite <- TL in Hf.
        destruct (Nat.eqb h (length (ptab p))).
        -- inversion Hp; inversion Hf; subst idp idf. rewrite !upd_same. reflexivity.
        -- rewrite (FEQ h idf Hf). rewrite PEQ by (apply in_or_app; right; eapply owned_in; exact Hp). eapply SE; eauto.
      * rewrite lives_app. simpl. rewrite app_assoc. apply nodup_snoc; [exact SN|]. intros Hin. apply SLT in Hin. lia.
      * intros x Hin. rewrite lives_app, app_assoc in Hin. apply in_app_or in Hin. simpl in Hin.
        destruct Hin as [Hin|[<-|[]]]; [apply SLT in Hin|]; lia.
      * exact FND.
      * exact FLT.
      * intros x Hin. rewrite PEQ by (apply in_or_app; left; exact Hin). apply SZ. exact Hin.
  - (* write *)
    destruct (owned (ptab p) h) as [idp|] eqn:Hp.
    2:{ apply (owned_none_iff _ _ h SL) in Hp. rewrite Hp. reflexivity. }
    destruct (owned_both p f h idp S0 Hp) as [idf Hf]. rewrite Hf.
    eexists. split; [reflexivity|].
    constructor; cbn [ph ppool pnext ptab fh fnext ftab]; auto.
    + intros h' idp' idf' Hp' Hf'.
      destruct (Nat.eq_dec h' h) as [->|NE].
      * rewrite Hp in Hp'. rewrite Hf in Hf'. inversion Hp'; inversion Hf'; subst. rewrite !upd_same.
        rewrite (SE h idp' idf' Hp Hf). reflexivity.
      * assert (idp' <> idp) by (intros ->; apply NE; eapply (owned_inj (ptab p) NDL); eauto).
        assert (idf' <> idf) by (intros ->; apply NE; eapply (owned_inj (ftab f) SFN); eauto).
        rewrite !upd_other by assumption. eapply SE; eauto.
    + intros x Hin. assert (x <> idp).
      { intros ->. apply owned_in in Hp. clear -SN Hin Hp. induction (ppool p) as [|y l IH]; [destruct Hin|].
        simpl in SN. inversion SN; subst. destruct Hin as [->|Hin]; [apply H1; apply in_or_app; right; exact Hp|apply IH; assumption]. }
      rewrite upd_other by assumption. apply SZ. exact Hin.
  - (* read *)
    destruct (owned (ptab p) h) as [idp|] eqn:Hp.
    2:{ apply (owned_none_iff _ _ h SL) in Hp. rewrite Hp. reflexivity. }
    destruct (owned_both p f h idp S0 Hp) as [idf Hf]. rewrite Hf.
    eexists. split; [rewrite (SE h idp idf Hp Hf); reflexivity|exact S0].
  - (* release *)
    destruct (owned (ptab p) h) as [idp|] eqn:Hp.
    2:{ apply (owned_none_iff _ _ h SL) in Hp. rewrite Hp. reflexivity. }
    destruct (owned_both p f h idp S0 Hp) as [idf Hf]. rewrite Hf.
    pose proof (lives_setAt _ _ _ Hp) as PP. pose proof (lives_setAt _ _ _ Hf) as PF.
    assert (FND : NoDup (lives (setAt h None (ftab f)))).
    { pose proof (Permutation_NoDup PF SFN) as X. inversion X; assumption. }
    assert (FLT : forall id, In id (lives (setAt h None (ftab f))) -> id < fnext f).
    { intros id Hin. apply SFL. eapply Permutation_in; [symmetry; exact PF|right; exact Hin]. }
    assert (LIVE : map isSome (setAt h None (ptab p)) = map isSome (setAt h None (ftab f))).
    { rewrite !isSome_setAt, SL. reflexivity. }
    assert (OTHER : forall h' idp' idf', owned (setAt h None (ptab p)) h' = Some idp' ->
                    owned (setAt h None (ftab f)) h' = Some idf' ->
                    h' <> h /\ owned (ptab p) h' = Some idp' /\ owned (ftab f) h' = Some idf' /\ idp' <> idp).
    { intros h' idp' idf' A B. rewrite owned_setAt in A, B. destruct (Nat.eqb h' h) eqn:E; [discriminate|].
      apply Nat.eqb_neq in E. repeat split; auto. intros ->. apply E. eapply (owned_inj (ptab p) NDL); eauto. }
    assert (PND : NoDup (idp :: ppool p ++ lives (setAt h None (ptab p)))).
    { apply (Permutation_NoDup (l := ppool p ++ lives (ptab p))); [|exact SN].
      rewrite PP. symmetry. apply Permutation_middle. }
    destruct ch as [|i|ev].
    + (* dropped *)
      eexists. split; [reflexivity|].
      constructor; cbn [ph ppool pnext ptab fh fnext ftab]; auto.
      * intros h' idp' idf' A B. destruct (OTHER _ _ _ A B) as (_ & A' & B' & _). eapply SE; eauto.
      * inversion PND; assumption.
      * intros x Hin. apply SLT. apply in_app_or in Hin. apply in_or_app. destruct Hin as [Hin|Hin]; [left; exact Hin|].
        right. eapply Permutation_in; [symmetry; exact PP|right; exact Hin].
    + eexists. split; [reflexivity|].
      constructor; cbn [ph ppool pnext ptab fh fnext ftab]; auto.
      * intros h' idp' idf' A B. destruct (OTHER _ _ _ A B) as (_ & A' & B' & _). eapply SE; eauto.
      * inversion PND; assumption.
      * intros x Hin. apply SLT. apply in_app_or in Hin. apply in_or_app. destruct Hin as [Hin|Hin]; [left; exact Hin|].
        right. eapply Permutation_in; [symmetry; exact PP|right; exact Hin].
    + (* zeroed and kept, possibly evicting one pooled set *)
      eexists. split; [reflexivity|].
      set (pool' := match ev with Some i => dropAt i (ppool p) | None => ppool p end).
      assert (SUB : forall x, In x pool' -> In x (ppool p)).
      { intros x Hin. subst pool'. destruct ev; [eapply dropAt_in; exact Hin|exact Hin]. }
      assert (PND' : NoDup (idp :: pool' ++ lives (setAt h None (ptab p)))).
      { inversion PND; subst. constructor.
        - intros Hin. apply H1. apply in_app_or in Hin. apply in_or_app. destruct Hin as [Hin|Hin]; [left; apply SUB; exact Hin|right; exact Hin].
        - subst pool'. destruct ev; [apply dropAt_nodup_app|]; assumption. }
      constructor; cbn [ph ppool pnext ptab fh fnext ftab]; auto.
      * intros h' idp' idf' A B. destruct (OTHER _ _ _ A B) as (_ & A' & B' & NE).
        rewrite upd_other by exact NE. eapply SE; eauto.
      * intros x Hin. simpl in Hin. destruct Hin as [<-|Hin].
        -- apply SLT. apply in_or_app. right. eapply owned_in. exact Hp.
        -- apply SLT. apply in_app_or in Hin. apply in_or_app. destruct Hin as [Hin|Hin]; [left; apply SUB; exact Hin|].
           right. eapply Permutation_in; [symmetry; exact PP|right; exact Hin].
      * intros x [<-|Hin].
        -- rewrite upd_same. apply zero_repeat.
        -- assert (x <> idp).
           { intros ->. inversion PND'; subst. apply H1. apply in_or_app. left. exact Hin. }
           rewrite upd_other by assumption. apply SZ. apply SUB. exact Hin.
Qed.

(* For every client program and every pool policy: either the client breaks the
   discipline (both worlds stop at the same operation) or the sequence of
   observations (lengths seen at get, values read) is the same with the pool
   as with plain allocation. *)
Theorem heap_pool_refines_fresh os : forall chs p f, Sim p f -> prun p os chs = frun f os.
Proof.
  induction os as [|o os IH]; intros chs p f S; simpl; [reflexivity|].
  pose proof (step_sim p f o (match chs with c :: _ => c | [] => ChFresh end) S) as H.
  destruct (pstep p o _) as [[p' ob]|].
  - destruct H as (f' & -> & S'). rewrite (IH (tl chs) p' f' S'). reflexivity.
  - rewrite H. reflexivity.
Qed.

Corollary heap_pool_refines_fresh_from_new os chs : prun p0 os chs = frun f0 os.
Proof. apply heap_pool_refines_fresh, Sim0. Qed.

(* the statement is not vacuous: a client that reuses registers through the pool and reads them back *)
Example heap_example :
  prun p0 [CGet 2; CWrite 0 1 9; CRead 0 1; CRelease 0; CGet 2; CRead 1 1; CRead 0 1] [ChFresh; ChFresh; ChFresh; ChKeep None; ChReuse 0]
  = None /\
  prun p0 [CGet 2; CWrite 0 1 9; CRead 0 1; CRelease 0; CGet 2; CRead 1 1] [ChFresh; ChFresh; ChFresh; ChKeep None; ChReuse 0]
  = Some [2; 9; 2; 0].
Proof. vm_compute. split; reflexivity. Qed.
