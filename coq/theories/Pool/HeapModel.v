(* Pool/HeapModel.v — the register pool with real aliasing.  Register sets live
   in one heap (identity -> contents); the pool keeps identities of released
   sets, so a client that wrote through a stale reference WOULD corrupt a later
   get.  The client refers to its register sets by handles (the n-th get);
   using a handle after releasing it is a violation of the client discipline
   and stops the run (None).  The pool's slot policy is left open: an arbitrary
   stream of choices decides which pooled set (of the right length) a get
   reuses, whether a release keeps the set and which pooled set it evicts —
   runtime/regpool.go (first slot of equal length; first expired slot) is one
   such policy.  No proofs in this file. *)
From Coq Require Import NArith List Bool.
Import ListNotations.
Open Scope N_scope.

Definition heap := N -> list N.
Definition upd (h : heap) (id : N) (c : list N) : heap := fun x => if x =? id then c else h x.

Fixpoint setAt {A} (i : nat) (x : A) (l : list A) : list A :=
  match l, i with
  | [], _ => []
  | _ :: t, O => x :: t
  | y :: t, S j => y :: setAt j x t
  end.

Fixpoint dropAt {A} (i : nat) (l : list A) : list A :=
  match l, i with
  | [], _ => []
  | _ :: t, O => t
  | y :: t, S j => y :: dropAt j t
  end.

Definition owned (tab : list (option N)) (h : nat) : option N :=
  match nth_error tab h with Some (Some id) => Some id | _ => None end.

Inductive cop :=
| CGet (sz : nat)                (* acquire a register set; it becomes handle #(number of gets so far) *)
| CWrite (h j : nat) (v : N)     (* registers[j] = v *)
| CRead (h j : nat)              (* observe registers[j] *)
| CRelease (h : nat).            (* give the set back *)

Inductive choice :=
| ChFresh                        (* get: allocate / release: drop the set *)
| ChReuse (i : nat)              (* get: reuse the i-th pooled set if it has the requested length *)
| ChKeep (evict : option nat).   (* release: zero the set and keep it, evicting at most one pooled set *)

(* world with a pool *)
Record pst := mkP { ph : heap; ppool : list N; pnext : N; ptab : list (option N) }.
Definition p0 : pst := mkP (fun _ => []) [] 0 [].

Definition pstep (s : pst) (o : cop) (ch : choice) : option (pst * list N) :=
  match o with
  | CGet sz =>
      let reuse :=
        match ch with
        | ChReuse i =>
            match nth_error (ppool s) i with
            | Some id => if Nat.eqb (length (ph s id)) sz then Some (i, id) else None
            | None => None
            end
        | _ => None
        end in
      match reuse with
      | Some (i, id) =>
          Some (mkP (ph s) (dropAt i (ppool s)) (pnext s) (ptab s ++ [Some id]), [N.of_nat (length (ph s id))])
      | None =>
          Some (mkP (upd (ph s) (pnext s) (repeat 0 sz)) (ppool s) (pnext s + 1) (ptab s ++ [Some (pnext s)]),
                [N.of_nat sz])
      end
  | CWrite h j v =>
      match owned (ptab s) h with
      | Some id => Some (mkP (upd (ph s) id (setAt j v (ph s id))) (ppool s) (pnext s) (ptab s), [])
      | None => None
      end
  | CRead h j =>
      match owned (ptab s) h with
      | Some id => Some (s, [nth j (ph s id) 0])
      | None => None
      end
  | CRelease h =>
      match owned (ptab s) h with
      | Some id =>
          let tab' := setAt h None (ptab s) in
          match ch with
          | ChKeep ev =>
              let pool' := match ev with Some i => dropAt i (ppool s) | None => ppool s end in
              Some (mkP (upd (ph s) id (repeat 0 (length (ph s id)))) (id :: pool') (pnext s) tab', [])
          | _ => Some (mkP (ph s) (ppool s) (pnext s) tab', [])
          end
      | None => None
      end
  end.

(* world without a pool (the noregpool build): make every time, release does nothing *)
Record fst_ := mkF { fh : heap; fnext : N; ftab : list (option N) }.
Definition f0 : fst_ := mkF (fun _ => []) 0 [].

Definition fstep (s : fst_) (o : cop) : option (fst_ * list N) :=
  match o with
  | CGet sz =>
      Some (mkF (upd (fh s) (fnext s) (repeat 0 sz)) (fnext s + 1) (ftab s ++ [Some (fnext s)]), [N.of_nat sz])
  | CWrite h j v =>
      match owned (ftab s) h with
      | Some id => Some (mkF (upd (fh s) id (setAt j v (fh s id))) (fnext s) (ftab s), [])
      | None => None
      end
  | CRead h j =>
      match owned (ftab s) h with
      | Some id => Some (s, [nth j (fh s id) 0])
      | None => None
      end
  | CRelease h =>
      match owned (ftab s) h with
      | Some id => Some (mkF (fh s) (fnext s) (setAt h None (ftab s)), [])
      | None => None
      end
  end.

(* observations of a whole client program; None = the client broke the discipline *)
Fixpoint prun (s : pst) (os : list cop) (chs : list choice) : option (list N) :=
  match os with
  | [] => Some []
  | o :: t =>
      let ch := match chs with c :: _ => c | [] => ChFresh end in
      match pstep s o ch with
      | None => None
      | Some (s', ob) => match prun s' t (tl chs) with Some r => Some (ob ++ r) | None => None end
      end
  end.

Fixpoint frun (s : fst_) (os : list cop) : option (list N) :=
  match os with
  | [] => Some []
  | o :: t =>
      match fstep s o with
      | None => None
      | Some (s', ob) => match frun s' t with Some r => Some (ob ++ r) | None => None end
      end
  end.
