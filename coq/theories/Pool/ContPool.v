(* Pool/ContPool.v — implementation model of luaContPool / goContPool
   (runtime/luacontpool.go, gocontpool.go): a bounded stack of continuation
   objects, erased (`*cont = LuaCont{}`) on release.  An object is modelled by
   its identity and a summary of its fields (0 = all fields zero).
   No proofs in this file. *)
From Coq Require Import NArith List Bool.
Import ListNotations.
Open Scope N_scope.

Record cpool := mkCPool { conts : list (N * N);  (* the occupied part of p.conts, top first: (id, fields) *)
                          size : nat }.          (* luaContPoolSize = 100, goContPoolSize = 10 *)
Definition mkContPool (sz : nat) : cpool := mkCPool [] sz.

Inductive cget := CNew | CReused (id : N) (fields : N).

(* if p.next == 0 { return new(LuaCont) }; p.next--; c := p.conts[p.next]; p.conts[p.next] = nil; return c *)
Definition cget_op (p : cpool) : cpool * cget :=
  match conts p with
  | [] => (p, CNew)
  | (id, f) :: t => (mkCPool t (size p), CReused id f)
  end.

(* *cont = LuaCont{}; if p.next == size { return }; p.conts[p.next] = cont; p.next++ *)
Definition crelease (p : cpool) (id : N) (fields : N) : cpool :=
  if Nat.eqb (length (conts p)) (size p) then p
  else mkCPool ((id, 0) :: conts p) (size p).

Inductive cop := CGet | CRelease (id : N) (fields : N).

Definition cstep (p : cpool) (o : cop) : cpool * option cget :=
  match o with
  | CGet => let '(p', r) := cget_op p in (p', Some r)
  | CRelease id f => (crelease p id f, None)
  end.

Fixpoint crun (p : cpool) (os : list cop) : list (option cget) :=
  match os with [] => [] | o :: t => let '(p', r) := cstep p o in r :: crun p' t end.

Fixpoint cfinal (p : cpool) (os : list cop) : cpool :=
  match os with [] => p | o :: t => cfinal (fst (cstep p o)) t end.

(* what the caller can observe of the object it got: its fields *)
Definition cfields (r : cget) : N := match r with CNew => 0 | CReused _ f => f end.
