(* Pool/NoQuotas.v — the `noquotas` build replaces the context manager by a
   stub whose RequireCPU/RequireMem/ReleaseMem do nothing.  On the model of
   the real manager (GV.Ctx.Model) a context that tracks nothing — which is
   what every context is for a program that never sets a limit, the root
   included — behaves the same way. *)
From Coq Require Import ZArith List Bool.
From GV Require Import Ctx.Model.
Open Scope Z_scope.

Theorem unlimited_manager_is_noop now amt c :
  trackCpu c = false -> trackMem c = false -> mem (hard c) = 0 ->
  requireCPU now amt c = ROk c /\ requireMem amt c = ROk c /\ releaseMem amt c = ROk c.
Proof.
  intros H1 H2 H3. unfold requireCPU, requireMem, releaseMem. rewrite H1, H2, H3. simpl. auto.
Qed.

Example root_is_unlimited : trackCpu root = false /\ trackMem root = false /\ mem (hard root) = 0.
Proof. vm_compute. auto. Qed.
