(* Ctx/MemExact.v — exactness of a hard MEMORY limit on programs without a
   nested boundary: the context is killed exactly at the first request that
   would take the accounted balance to or past the limit, never earlier,
   never later; releases saturate at zero; a limit above the peak balance
   changes nothing.

   The specification side is the three-line function [mspec]: a running
   balance.  The implementation side is the IM of requireMem / ReleaseMem
   (Ctx/Model.v) driven through the CallContext skeleton (Ctx/NestModel.v),
   the same definitions the extracted oracle runs against the Go manager. *)
From Coq Require Import ZArith List Bool Lia.
From GV Require Import Ctx.Model Ctx.Proofs Ctx.NestModel Ctx.Nest Ctx.Exact.
Import ListNotations.
Open Scope Z_scope.

Inductive mop := MA (x : Z) | MR (y : Z).

Definition mop_ok (o : mop) : Prop :=
  match o with MA x => 0 <= x < SMALL | MR y => 0 <= y end.

Fixpoint mflat (os : list mop) : acts :=
  match os with
  | [] => ANil
  | MA x :: r => ACons (AOp (OMem x)) (mflat r)
  | MR y :: r => ACons (AOp (ORel y)) (mflat r)
  end.

(* S: the accounted balance.  None = the limit was reached (killed). *)
Fixpoint mspec (L u : Z) (os : list mop) : option Z :=
  match os with
  | [] => Some u
  | MA x :: r => if L <=? u + x then None else mspec L (u + x) r
  | MR y :: r => mspec L (if y <=? u then u - y else 0) r
  end.

(* every balance the program goes through (after each operation) *)
Fixpoint balances (u : Z) (os : list mop) : list Z :=
  match os with
  | [] => []
  | MA x :: r => (u + x) :: balances (u + x) r
  | MR y :: r => let u' := if y <=? u then u - y else 0 in u' :: balances u' r
  end.

(* a context with a hard memory limit L and nothing else, below the root *)
Definition mlimited (L : Z) : mgr :=
  mkMgr (pushCtx 0 (mkDef (mkRes 0 L 0) res0 0%N false) root) [root].

Lemma mlimited_fields L : 0 < L ->
  hard (cur (mlimited L)) = mkRes 0 L 0 /\ mem (used (cur (mlimited L))) = 0 /\
  st (cur (mlimited L)) = Live /\ hard_stop (cur (mlimited L)) = false /\
  trackMem (cur (mlimited L)) = true.
Proof.
  intros HL.
  assert (Hm : merge1 0 L = L).
  { unfold merge1, smallerLimit. destruct (Z.ltb_spec 0 L); [|lia]. reflexivity. }
  unfold mlimited, pushCtx. cbn -[merge1].
  change (sat_sub 0 0) with 0. rewrite Hm. change (merge1 0 0) with 0.
  destruct (Z.ltb_spec 0 L); [|lia]. cbn.
  split; [|auto]. unfold merge, remove. cbn -[merge1]. change (sat_sub 0 0) with 0.
  rewrite Hm. reflexivity.
Qed.

Lemma mflat_exec_from L os : 0 < L < SMALL -> Forall mop_ok os ->
  forall u c ps, 0 <= u < L ->
  hard c = mkRes 0 L 0 -> mem (used c) = u -> st c = Live -> hard_stop c = false ->
  trackMem c = true ->
  let '(m', r) := exec (mkMgr c ps) (mflat os) in
  match mspec L u os with
  | None => r = Terminated /\ st (cur m') = Killed /\ 0 <= mem (used (cur m')) < L
  | Some b => r = Normal /\ st (cur m') = Live /\ mem (used (cur m')) = b /\ 0 <= b < L
  end /\ parents m' = ps.
Proof.
  intros HL Hos. induction Hos as [|o os Ho Hos IH]; intros u c ps Hu Hh Hused Hst Hhs Htm.
  - cbn. repeat split; auto; lia.
  - destruct o as [x|y]; cbn [mflat mspec exec exec_act step]; unfold lift; cbn [cur parents].
    + cbn in Ho. unfold requireMem. rewrite Htm, Hhs. cbn [negb andb].
      rewrite Hh. cbn [mem]. rewrite Hused.
      rewrite (u64_small_sum u x) by (unfold SMALL in *; lia).
      assert (Lv : live c = true) by (apply live_true; exact Hst). rewrite Lv, andb_true_r.
      destruct (atLimit (u + x) L) eqn:A.
      * apply atLimit_true in A. destruct (Z.leb_spec L (u + x)); [|lia].
        cbn. rewrite Hused. repeat split; auto; lia.
      * apply atLimit_false in A. destruct (Z.leb_spec L (u + x)); [lia|].
        cbn [mres_mgr].
        specialize (IH (u + x) (set_mem c (u + x)) ps ltac:(lia) Hh eq_refl Hst Hhs Htm).
        exact IH.
    + cbn in Ho. unfold releaseMem. rewrite Hh. cbn [mem].
      destruct (Z.ltb_spec 0 L); [|lia]. rewrite Hused.
      destruct (Z.leb_spec y u).
      * cbn [mres_mgr].
        specialize (IH (u - y) (set_mem c (u - y)) ps ltac:(lia) Hh eq_refl Hst Hhs Htm).
        exact IH.
      * cbn [mres_mgr].
        specialize (IH 0 (set_mem c 0) ps ltac:(lia) Hh eq_refl Hst Hhs Htm).
        exact IH.
Qed.

(* MAIN: IM = S for every flat memory program and every limit. *)
Theorem flat_mem_exact L os :
  0 < L < SMALL -> Forall mop_ok os ->
  let '(m', r) := exec (mlimited L) (mflat os) in
  match mspec L 0 os with
  | None => r = Terminated /\ st (cur m') = Killed /\ 0 <= mem (used (cur m')) < L
  | Some b => r = Normal /\ st (cur m') = Live /\ mem (used (cur m')) = b /\ 0 <= b < L
  end.
Proof.
  intros HL Hos.
  destruct (mlimited_fields L (proj1 HL)) as (F1 & F2 & F3 & F4 & F5).
  pose proof (mflat_exec_from L os HL Hos 0 (cur (mlimited L)) (parents (mlimited L))
                ltac:(lia) F1 F2 F3 F4 F5) as H.
  replace (mkMgr (cur (mlimited L)) (parents (mlimited L))) with (mlimited L) in H by reflexivity.
  destruct (exec (mlimited L) (mflat os)) as [m' r]. exact (proj1 H).
Qed.

(* S is what the property says: the program completes iff every balance it
   goes through stays below L, and is killed at the FIRST request that does
   not (nothing after it runs). *)
Lemma mspec_some_iff L os : Forall mop_ok os -> forall u, 0 <= u < L ->
  (exists b, mspec L u os = Some b) <-> Forall (fun b => b < L) (balances u os).
Proof.
  intros Hos. induction Hos as [|o os Ho Hos IH]; intros u Hu.
  - cbn. split; [constructor|eauto].
  - destruct o as [x|y]; cbn [mspec balances]; cbn in Ho.
    + destruct (Z.leb_spec L (u + x)).
      * split; [intros [b Hb]; discriminate|]. intros F. inversion F; subst. lia.
      * rewrite (IH (u + x)) by lia. split; [intros F; constructor; [lia|exact F]|].
        intros F. inversion F; subst. assumption.
    + assert (Hu' : 0 <= (if y <=? u then u - y else 0) < L)
        by (destruct (Z.leb_spec y u); lia).
      rewrite (IH _ Hu'). split; [intros F; constructor; [lia|exact F]|].
      intros F. inversion F; subst. assumption.
Qed.

Lemma last_cons_default (l : list Z) z d1 d2 : last (z :: l) d1 = last (z :: l) d2.
Proof. revert z. induction l as [|a l IH]; intros z; [reflexivity|]. cbn [last] in *. apply IH. Qed.

Lemma mspec_final L os : Forall mop_ok os -> forall u b, 0 <= u < L ->
  mspec L u os = Some b -> b = last (balances u os) u.
Proof.
  intros Hos. induction Hos as [|o os Ho Hos IH]; intros u b Hu H.
  - cbn in *. congruence.
  - destruct o as [x|y]; cbn [mspec balances] in *; cbn in Ho.
    + destruct (Z.leb_spec L (u + x)); [discriminate|].
      specialize (IH (u + x) b ltac:(lia) H). rewrite IH.
      destruct (balances (u + x) os); [reflexivity|]. cbn [last]. apply last_cons_default.
    + assert (Hu' : 0 <= (if y <=? u then u - y else 0) < L)
        by (destruct (Z.leb_spec y u); lia).
      specialize (IH _ b Hu' H). rewrite IH.
      destruct (balances _ os); [reflexivity|]. cbn [last]. apply last_cons_default.
Qed.

(* a limit above the peak never changes the outcome: S is monotone in L *)
Lemma mspec_mono L1 L2 os : Forall mop_ok os -> forall u b, 0 <= u < L1 -> L1 <= L2 ->
  mspec L1 u os = Some b -> mspec L2 u os = Some b.
Proof.
  intros Hos. induction Hos as [|o os Ho Hos IH]; intros u b Hu HL H.
  - exact H.
  - destruct o as [x|y]; cbn [mspec] in *; cbn in Ho.
    + destruct (Z.leb_spec L1 (u + x)); [discriminate|].
      destruct (Z.leb_spec L2 (u + x)); [lia|]. apply IH; auto; lia.
    + apply IH; auto. destruct (Z.leb_spec y u); lia.
Qed.

(* Put together on the IM: killed iff some balance reaches the limit. *)
Theorem flat_mem_kill_iff_peak L os :
  0 < L < SMALL -> Forall mop_ok os ->
  let '(m', r) := exec (mlimited L) (mflat os) in
  (r = Terminated <-> Exists (fun b => L <= b) (balances 0 os)) /\
  (r = Normal \/ r = Terminated).
Proof.
  intros HL Hos. pose proof (flat_mem_exact L os HL Hos) as H.
  pose proof (mspec_some_iff L os Hos 0 ltac:(lia)) as S.
  destruct (exec (mlimited L) (mflat os)) as [m' r].
  destruct (mspec L 0 os) as [b|] eqn:E.
  - destruct H as (-> & _). split; [|auto].
    assert (F : Forall (fun b => b < L) (balances 0 os)) by (apply S; eauto).
    split; [discriminate|]. intros X. exfalso.
    apply Exists_exists in X. destruct X as (z & Hz & Hz').
    rewrite Forall_forall in F. specialize (F z Hz). lia.
  - destruct H as (-> & _). split; [|auto]. split; [|reflexivity]. intros _.
    destruct (Exists_dec (fun b => L <= b) (balances 0 os)) as [X|X].
    { intros z. destruct (Z_le_dec L z); auto. }
    + exact X.
    + exfalso. assert (F : Forall (fun b => b < L) (balances 0 os)).
      { apply Forall_forall. intros z Hz. destruct (Z_lt_dec z L); auto.
        exfalso. apply X. apply Exists_exists. exists z. split; auto. lia. }
      apply S in F. destruct F as [b Hb]. discriminate.
Qed.

(* Two limits: the run under the smaller one equals the run under the larger
   one whenever the larger run never reaches the smaller limit. *)
Theorem flat_mem_limit_above_peak_same L1 L2 os :
  0 < L1 <= L2 -> L2 < SMALL -> Forall mop_ok os ->
  Forall (fun b => b < L1) (balances 0 os) ->
  let '(m1, r1) := exec (mlimited L1) (mflat os) in
  let '(m2, r2) := exec (mlimited L2) (mflat os) in
  r1 = Normal /\ r2 = Normal /\ mem (used (cur m1)) = mem (used (cur m2)) /\
  st (cur m1) = Live /\ st (cur m2) = Live.
Proof.
  intros H1 H2 Hos F.
  pose proof (flat_mem_exact L1 os ltac:(lia) Hos) as A1.
  pose proof (flat_mem_exact L2 os ltac:(lia) Hos) as A2.
  apply (mspec_some_iff L1 os Hos 0 ltac:(lia)) in F. destruct F as [b Hb].
  pose proof (mspec_mono L1 L2 os Hos 0 b ltac:(lia) ltac:(lia) Hb) as Hb2.
  destruct (exec (mlimited L1) (mflat os)) as [m1 r1].
  destruct (exec (mlimited L2) (mflat os)) as [m2 r2].
  rewrite Hb in A1. rewrite Hb2 in A2.
  destruct A1 as (-> & S1 & U1 & _). destruct A2 as (-> & S2 & U2 & _).
  repeat split; auto. congruence.
Qed.

(* non-vacuity, and the saturating release at work: 30 allocated, 50 released
   (balance 0, not -20), 90 allocated: completes under 100; with 99 -> 110 it
   is killed at the third request and the fourth never runs *)
Example mem_exact_applies :
  (let '(m, r) := exec (mlimited 100) (mflat [MA 30; MR 50; MA 90]) in
     r = Normal /\ mem (used (cur m)) = 90) /\
  (let '(m, r) := exec (mlimited 100) (mflat [MA 30; MR 20; MA 90; MA 1]) in
     r = Terminated /\ mem (used (cur m)) = 10 /\ st (cur m) = Killed) /\
  balances 0 [MA 30; MR 20; MA 90; MA 1] = [30; 10; 100; 101].
Proof. vm_compute. repeat split. Qed.
