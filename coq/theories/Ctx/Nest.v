(* Ctx/Nest.v — proofs about the CallContext skeleton: the context stack is
   balanced whatever happens inside, and the returned context's status tells
   how the call really ended. *)
From Coq Require Import ZArith List Bool Lia.
From GV Require Import Ctx.Model Ctx.Proofs Ctx.NestModel.
Import ListNotations.
Open Scope Z_scope.

Definition calm_ctx (c : ctx) : Prop :=
  st c = Live /\ hard_stop c = false /\ trackTime c = false /\ ms (hard c) = 0 /\ ms (soft c) = 0.
Definition calm (m : mgr) : Prop := calm_ctx (cur m) /\ Forall calm_ctx (parents m).

Definition notime (d : ctxdef) : Prop := ms (dHard d) = 0 /\ ms (dSoft d) = 0.

Fixpoint act_ok (a : act) : Prop :=
  match a with
  | AOp o => match o with OPush _ | OPop => False | ORel x => 0 <= x | _ => True end
  | ACall d body _ => def_ok d /\ notime d /\ acts_ok body
  end
with acts_ok (l : acts) : Prop :=
  match l with ANil => True | ACons a rest => act_ok a /\ acts_ok rest end.

Scheme act_ind2 := Induction for act Sort Prop
  with acts_ind2 := Induction for acts Sort Prop.
Combined Scheme act_acts_ind from act_ind2, acts_ind2.

(* what we know of the manager after a computation handed control back *)
Definition post (r : result) (m' : mgr) : Prop :=
  match r with
  | Normal | Panicked => calm_ctx (cur m')
  | Terminated => st (cur m') = Killed /\ within (cur m')
  end.

Lemma requireCPU_facts a c :
  ctx_ok c -> calm_ctx c ->
  match requireCPU 0 a c with
  | ROk c' => calm_ctx c'
  | RTerm c' _ => st c' = Killed /\ within c'
  | RPanic _ => False
  end.
Proof.
  intros Hc (Hl & Hs & Ht & Hm1 & Hm2). unfold requireCPU. rewrite Hs, Ht. cbn [andb].
  destruct (negb (trackCpu c)); [repeat split; assumption|].
  destruct (atLimit _ _ && live c).
  - cbn. split; [reflexivity|]. apply (live_within c Hc Hl).
  - unfold calm_ctx; cbn. repeat split; assumption.
Qed.

Lemma requireMem_facts a c :
  ctx_ok c -> calm_ctx c ->
  match requireMem a c with
  | ROk c' => calm_ctx c'
  | RTerm c' _ => st c' = Killed /\ within c'
  | RPanic _ => False
  end.
Proof.
  intros Hc (Hl & Hs & Ht & Hm1 & Hm2). unfold requireMem. rewrite Hs. cbn [andb].
  destruct (negb (trackMem c)); [repeat split; assumption|].
  destruct (atLimit _ _ && live c).
  - cbn. split; [reflexivity|]. apply (live_within c Hc Hl).
  - unfold calm_ctx; cbn. repeat split; assumption.
Qed.

Lemma releaseMem_facts a c :
  calm_ctx c ->
  match releaseMem a c with
  | ROk c' => calm_ctx c'
  | RTerm _ _ => False
  | RPanic c' => calm_ctx c'
  end.
Proof.
  intros Hcalm. unfold releaseMem. destruct (0 <? mem (hard c)); [|exact Hcalm].
  destruct Hcalm as (Hl & Hs & Ht & Hm1 & Hm2).
  destruct (a <=? mem (used c)); unfold calm_ctx; cbn; repeat split; assumption.
Qed.

Lemma setStopLevel_facts l c :
  ctx_ok c -> calm_ctx c ->
  match setStopLevel l c with
  | ROk c' => calm_ctx c'
  | RTerm c' _ => st c' = Killed /\ within c'
  | RPanic _ => False
  end.
Proof.
  intros Hc (Hl & Hs & Ht & Hm1 & Hm2). unfold setStopLevel.
  destruct (N.testbit l 1) eqn:El; cbn [andb].
  - replace (live (set_stop c (N.lor (stopLevel c) l))) with true
      by (symmetry; apply live_true; exact Hl).
    cbn. split; [reflexivity|]. apply (live_within c Hc Hl).
  - unfold calm_ctx, hard_stop in *; cbn. rewrite N.lor_spec, Hs, El. repeat split; assumption.
Qed.

Lemma pop_stop now c p rest p' co :
  trackTime p = false ->
  pop now (mkMgr c (p :: rest)) = MOk (mkMgr p' rest) co -> stopLevel p' = stopLevel p.
Proof.
  intros Ht. unfold pop. cbn [cur parents].
  assert (H1 : forall p1, requireMem (mem (used c)) p = ROk p1 ->
            stopLevel p1 = stopLevel p /\ trackTime p1 = false).
  { unfold requireMem.
    destruct (negb (trackMem p)); [intros p1 H; inversion H; subst; auto|].
    destruct (hard_stop p && live p); [discriminate|].
    destruct (atLimit _ _ && live p); [discriminate|].
    intros p1 H; inversion H; subst; cbn; auto. }
  destruct (requireMem (mem (used c)) p) as [p1| |]; try discriminate.
  destruct (H1 p1 eq_refl) as [S1 T1].
  assert (H2 : forall p2, requireCPU now (cpu (used c)) p1 = ROk p2 ->
            stopLevel p2 = stopLevel p1 /\ trackTime p2 = false).
  { unfold requireCPU. rewrite T1. cbn [andb].
    destruct (negb (trackCpu p1)); [intros p2 H; inversion H; subst; auto|].
    destruct (hard_stop p1 && live p1); [discriminate|].
    destruct (atLimit _ _ && live p1); [discriminate|].
    intros p2 H; inversion H; subst; cbn; auto. }
  destruct (requireCPU now (cpu (used c)) p1) as [p2| |]; try discriminate.
  destruct (H2 p2 eq_refl) as [S2 T2]. rewrite T2.
  intros H; inversion H; subst. congruence.
Qed.

Lemma same_frame_trans a b c : same_frame a b -> same_frame b c -> same_frame a c.
Proof.
  intros (a1 & a2 & a3 & a4 & a5 & a6) (b1 & b2 & b3 & b4 & b5 & b6).
  unfold same_frame. rewrite b1, b2, b3, b4, b5, b6. intuition.
Qed.

Lemma same_frame_refl c : same_frame c c.
Proof. unfold same_frame; intuition. Qed.

Definition Pact (a : act) : Prop :=
  forall m, Inv m -> calm m -> act_ok a ->
  let '(m', r, co) := exec_act m a in
  Inv m' /\ parents m' = parents m /\ same_frame (cur m) (cur m') /\ post r m'.
Definition Pacts (l : acts) : Prop :=
  forall m, Inv m -> calm m -> acts_ok l ->
  let '(m', r) := exec m l in
  Inv m' /\ parents m' = parents m /\ same_frame (cur m) (cur m') /\ post r m'.

Lemma lift_case m r :
  Inv m -> calm m -> evolves (cur m) (r1_ctx r) ->
  match r with
  | ROk c' => calm_ctx c'
  | RTerm c' _ => st c' = Killed /\ within c'
  | RPanic c' => calm_ctx c'
  end ->
  let '(m', res, co) :=
    match lift m r with
    | MOk m' _ => (m', Normal, @None ctx)
    | MTerm m' _ => (m', Terminated, None)
    | MPanic m' => (m', Panicked, None)
    end in
  Inv m' /\ parents m' = parents m /\ same_frame (cur m) (cur m') /\ post res m'.
Proof.
  intros HI Hcalm E Hf.
  pose proof (lift_inv m r HI E) as HI'.
  destruct r as [c'|c' t|c']; cbn in *; (split; [exact HI'|]); (split; [reflexivity|]);
    (split; [apply (ev_frame _ _ E)|exact Hf]).
Qed.

Lemma calm_push d m :
  Inv m -> calm m -> def_ok d -> notime d ->
  exists m1, push 0 d m = MOk m1 None /\ Inv m1 /\ calm m1 /\
             parents m1 = cur m :: parents m.
Proof.
  intros HI (Hc & Hps) Hd (Hn1 & Hn2).
  destruct Hc as (Hl & Hs & Ht & Hm1 & Hm2).
  unfold push. rewrite Ht.
  eexists. split; [reflexivity|]. split.
  - pose proof (inv_step 0 m (OPush d) HI Hd) as H. cbn [step] in H. unfold push in H.
    rewrite Ht in H. exact H.
  - split; [|reflexivity]. split; [|constructor; [repeat split; assumption|exact Hps]].
    cbn [cur]. unfold calm_ctx, pushCtx, hard_stop; cbn -[merge1 sat_sub].
    rewrite Hm1, Hm2, Hn1, Hn2. cbn.
    assert (Hz : sat_sub 0 (ms (used (cur m))) = 0).
    { destruct (ok_used _ (proj1 HI)) as (_ & _ & (U1 & U2)). unfold sat_sub.
      destruct (Z.leb_spec (ms (used (cur m))) 0); lia. }
    rewrite Hz. cbn. repeat split; auto.
Qed.

Lemma pop_after_body c p rest :
  Inv (mkMgr c (p :: rest)) -> within c -> calm_ctx p ->
  exists p', pop 0 (mkMgr c (p :: rest)) = MOk (mkMgr p' rest) (Some (if live c then set_st c Done else c)) /\
    Inv (mkMgr p' rest) /\ same_frame p p' /\ calm_ctx p'.
Proof.
  intros HI Hw (Hl & Hs & Ht & Hm1 & Hm2).
  destruct (pop_charges_parent_gen 0 c p rest HI Hw Hl Hs Ht) as (p' & E & Hl' & Hf & _).
  exists p'. split; [exact E|]. split.
  - pose proof (inv_step 0 _ OPop HI I) as H. cbn [step] in H. rewrite E in H. exact H.
  - split; [exact Hf|]. destruct Hf as (f1 & f2 & f3 & f4 & f5 & f6).
    unfold calm_ctx, hard_stop. rewrite (pop_stop _ _ _ _ _ _ Ht E), f1, f2, f6.
    repeat split; assumption.
Qed.

Theorem exec_balanced_both : (forall a, Pact a) /\ (forall l, Pacts l).
Proof.
  apply act_acts_ind.
  - (* AOp *)
    intros o m HI Hcalm Hok. cbn [exec_act].
    pose proof (proj1 HI) as Hc. pose proof (proj1 Hcalm) as Hcc.
    destruct o as [d| |a|a|a|l]; cbn in Hok; try contradiction; cbn [step].
    + apply lift_case; auto; [apply requireCPU_evolves; exact Hc|].
      pose proof (requireCPU_facts a _ Hc Hcc) as F.
      destruct (requireCPU 0 a (cur m)); auto; contradiction.
    + apply lift_case; auto; [apply requireMem_evolves; exact Hc|].
      pose proof (requireMem_facts a _ Hc Hcc) as F.
      destruct (requireMem a (cur m)); auto; contradiction.
    + apply lift_case; auto; [apply releaseMem_evolves; [exact Hc|exact Hok]|].
      pose proof (releaseMem_facts a _ Hcc) as F.
      destruct (releaseMem a (cur m)); auto; contradiction.
    + apply lift_case; auto; [apply setStopLevel_evolves; exact Hc|].
      pose proof (setStopLevel_facts l _ Hc Hcc) as F.
      destruct (setStopLevel l (cur m)); auto; contradiction.
  - (* ACall *)
    intros d body IH err m HI Hcalm (Hd & Hnt & Hbody). cbn [exec_act].
    destruct (calm_push d m HI Hcalm Hd Hnt) as (m1 & -> & HI1 & Hcalm1 & Hp1).
    specialize (IH m1 HI1 Hcalm1 Hbody).
    destruct (exec m1 body) as [m2 r].
    destruct IH as (HI2 & Hp2 & Hf2 & Hpost).
    rewrite Hp1 in Hp2.
    (* the state the deferred PopContext sees *)
    set (m3 := match r with Normal => if err then set_cur_st m2 Err else m2 | _ => m2 end).
    assert (H3 : Inv m3 /\ parents m3 = cur m :: parents m /\ within (cur m3)).
    { destruct r; cbn in Hpost.
      - destruct err; subst m3.
        + split; [|split; [exact Hp2|]].
          * destruct HI2 as (A & B & C). split; [|split; [exact B|]]; cbn.
            -- eapply evolves_ok; [exact A|].
               destruct A as [A1 A2 A3 A4 A5 A6 A7 A8 A9 A10].
               constructor; cbn; auto; try (intros; discriminate). unfold same_frame; cbn; intuition.
            -- eapply chain_child_evolves; [|exact C].
               destruct A as [A1 A2 A3 A4 A5 A6 A7 A8 A9 A10].
               constructor; cbn; auto; try (intros; discriminate). unfold same_frame; cbn; intuition.
          * cbn. apply (live_within _ (proj1 HI2)). apply Hpost.
        + split; [exact HI2|]. split; [exact Hp2|]. apply (live_within _ (proj1 HI2)). apply Hpost.
      - subst m3. split; [exact HI2|]. split; [exact Hp2|]. apply Hpost.
      - subst m3. split; [exact HI2|]. split; [exact Hp2|]. apply (live_within _ (proj1 HI2)). apply Hpost. }
    destruct H3 as (HI3 & Hp3 & Hw3).
    destruct m3 as [c3 ps3]. cbn [parents cur] in *. subst ps3.
    destruct (pop_after_body c3 (cur m) (parents m) HI3 Hw3 (proj1 Hcalm)) as (p' & -> & HI4 & Hf4 & Hc4).
    split; [exact HI4|]. split; [reflexivity|]. split; [exact Hf4|].
    destruct r; exact Hc4.
  - (* ANil *)
    intros m HI Hcalm _. cbn. split; [exact HI|]. split; [reflexivity|]. split; [apply same_frame_refl|apply Hcalm].
  - (* ACons *)
    intros a IHa rest IHrest m HI Hcalm (Ha & Hrest). cbn [exec].
    specialize (IHa m HI Hcalm Ha).
    destruct (exec_act m a) as [[m' r] co].
    destruct IHa as (HI' & Hp' & Hf' & Hpost').
    destruct r; cbn in Hpost'.
    + assert (Hcalm' : calm m') by (split; [exact Hpost'|rewrite Hp'; apply Hcalm]).
      specialize (IHrest m' HI' Hcalm' Hrest).
      destruct (exec m' rest) as [m'' r''].
      destruct IHrest as (A & B & C & D).
      split; [exact A|]. split; [congruence|]. split; [eapply same_frame_trans; eauto|exact D].
    + split; [exact HI'|]. split; [exact Hp'|]. split; [exact Hf'|exact Hpost'].
    + split; [exact HI'|]. split; [exact Hp'|]. split; [exact Hf'|exact Hpost'].
Qed.

(* Whatever a tree of nested CallContext calls does, the manager ends with
   the same parent chain and the same current frame; if it ended normally the
   current context is still live, if by termination it is the killed one. *)
Theorem exec_balanced :
  forall l m, Inv m -> calm m -> acts_ok l ->
  let '(m', r) := exec m l in
  Inv m' /\ parents m' = parents m /\ same_frame (cur m) (cur m') /\
  (r = Normal -> calm m') /\ (r = Terminated -> st (cur m') = Killed).
Proof.
  intros l m HI Hcalm Hok. pose proof (proj2 exec_balanced_both l m HI Hcalm Hok) as H.
  destruct (exec m l) as [m' r]. destruct H as (A & B & C & D).
  split; [exact A|]. split; [exact B|]. split; [exact C|]. split.
  - intros ->. split; [exact D|rewrite B; apply Hcalm].
  - intros ->. apply D.
Qed.

(* CallContext returns to its caller normally even when the body was
   terminated (that is what makes a context a boundary), pops exactly its own
   context, and the context object it returns reports how the body ended. *)
Theorem call_status_truthful :
  forall d body err m, Inv m -> calm m -> def_ok d -> notime d -> acts_ok body ->
  let '(m', r, ctxo) := call m d body err in
  (r = Normal \/ r = Panicked) /\ parents m' = parents m /\ calm m' /\
  exists c, ctxo = Some c /\
    st c = (match snd (exec (mres_mgr (push 0 d m)) body) with
            | Terminated => Killed
            | Normal => if err then Err else Done
            | Panicked => Done end) /\
    (r = Panicked <-> snd (exec (mres_mgr (push 0 d m)) body) = Panicked) /\
    within c.
Proof.
  intros d body err m HI Hcalm Hd Hnt Hbody. unfold call. cbn [exec_act].
  destruct (calm_push d m HI Hcalm Hd Hnt) as (m1 & -> & HI1 & Hcalm1 & Hp1). cbn [mres_mgr].
  pose proof (proj2 exec_balanced_both body m1 HI1 Hcalm1 Hbody) as IH.
  destruct (exec m1 body) as [m2 r]. cbn [snd].
  destruct IH as (HI2 & Hp2 & Hf2 & Hpost). rewrite Hp1 in Hp2.
  set (m3 := match r with Normal => if err then set_cur_st m2 Err else m2 | _ => m2 end).
  assert (H3 : Inv m3 /\ parents m3 = cur m :: parents m /\ within (cur m3) /\
               (if live (cur m3) then Done else st (cur m3)) =
               match r with Terminated => Killed | Normal => if err then Err else Done | Panicked => Done end).
  { destruct r; cbn in Hpost.
    - destruct err; subst m3.
      + split; [|split; [exact Hp2|split]].
        * destruct HI2 as (A & B & C). split; [|split; [exact B|]]; cbn.
          -- eapply evolves_ok; [exact A|].
             destruct A as [A1 A2 A3 A4 A5 A6 A7 A8 A9 A10].
             constructor; cbn; auto; try (intros; discriminate). unfold same_frame; cbn; intuition.
          -- eapply chain_child_evolves; [|exact C].
             destruct A as [A1 A2 A3 A4 A5 A6 A7 A8 A9 A10].
             constructor; cbn; auto; try (intros; discriminate). unfold same_frame; cbn; intuition.
        * cbn. apply (live_within _ (proj1 HI2)). apply Hpost.
        * reflexivity.
      + split; [exact HI2|]. split; [exact Hp2|]. split; [apply (live_within _ (proj1 HI2)); apply Hpost|].
        replace (live (cur m2)) with true; [reflexivity|]. symmetry; apply live_true; apply Hpost.
    - subst m3. split; [exact HI2|]. split; [exact Hp2|]. split; [apply Hpost|].
      destruct Hpost as [Hk _]. unfold live. rewrite Hk. reflexivity.
    - subst m3. split; [exact HI2|]. split; [exact Hp2|]. split; [apply (live_within _ (proj1 HI2)); apply Hpost|].
      replace (live (cur m2)) with true; [reflexivity|]. symmetry; apply live_true; apply Hpost. }
  destruct H3 as (HI3 & Hp3 & Hw3 & Hst3).
  destruct m3 as [c3 ps3]. cbn [parents cur] in *. subst ps3.
  destruct (pop_after_body c3 (cur m) (parents m) HI3 Hw3 (proj1 Hcalm)) as (p' & -> & HI4 & Hf4 & Hc4).
  split; [destruct r; auto|]. split; [reflexivity|]. split; [split; [exact Hc4|apply Hcalm]|].
  eexists. split; [reflexivity|]. split.
  - rewrite <- Hst3. destruct (live c3); reflexivity.
  - split; [destruct r; split; intros; auto; discriminate|].
    destruct (live c3); [|exact Hw3]. exact Hw3.
Qed.
