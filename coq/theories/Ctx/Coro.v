(* Ctx/Coro.v — proofs about coroutines x contexts (Ctx/CoroModel.v).

   coro_disciplined_sound : if no coroutine ever yields inside an open CallContext frame, then in every
     history each frame pops exactly the context it pushed and the flags required by the open frames of the
     running thread are always in force.
   coro_exit_pops_own_refuted, coro_flags_in_force_refuted : without that discipline — which golua does not
     enforce: pcall, xpcall and runtime.callcontext may all be yielded across — both statements fail; the
     witnesses are replayed on the implementation by the C07 and C08 checks (known finding
     context-stack-shared-by-coroutines). *)
From Coq Require Import NArith List Bool Arith Lia.
From GV Require Import Ctx.CoroModel.
Import ListNotations.

Lemma ldiff0_lor_l a b c : N.ldiff (N.lor a b) c = 0%N <-> N.ldiff a c = 0%N /\ N.ldiff b c = 0%N.
Proof.
  split.
  - intros H; split; apply N.bits_inj; intros n; rewrite N.bits_0;
      assert (Hn : N.testbit (N.ldiff (N.lor a b) c) n = false) by (rewrite H; apply N.bits_0);
      rewrite N.ldiff_spec, N.lor_spec in Hn; rewrite N.ldiff_spec;
      destruct (N.testbit a n), (N.testbit b n), (N.testbit c n); cbn in *; congruence.
  - intros [Ha Hb]. apply N.bits_inj; intros n; rewrite N.bits_0.
    assert (Hna : N.testbit (N.ldiff a c) n = false) by (rewrite Ha; apply N.bits_0).
    assert (Hnb : N.testbit (N.ldiff b c) n = false) by (rewrite Hb; apply N.bits_0).
    rewrite N.ldiff_spec in Hna, Hnb. rewrite N.ldiff_spec, N.lor_spec.
    destruct (N.testbit a n), (N.testbit b n), (N.testbit c n); cbn in *; congruence.
Qed.

Lemma ldiff0_trans a b c : N.ldiff a b = 0%N -> N.ldiff b c = 0%N -> N.ldiff a c = 0%N.
Proof.
  intros Hab Hbc. apply N.bits_inj; intros n; rewrite N.bits_0.
  assert (H1 : N.testbit (N.ldiff a b) n = false) by (rewrite Hab; apply N.bits_0).
  assert (H2 : N.testbit (N.ldiff b c) n = false) by (rewrite Hbc; apply N.bits_0).
  rewrite N.ldiff_spec in *. destruct (N.testbit a n), (N.testbit b n), (N.testbit c n); cbn in *; congruence.
Qed.

Lemma ldiff0_lor_r a b : N.ldiff a (N.lor b a) = 0%N.
Proof.
  apply N.bits_inj; intros n. rewrite N.ldiff_spec, N.lor_spec, N.bits_0.
  destruct (N.testbit a n), (N.testbit b n); reflexivity.
Qed.

Lemma ldiff0_lor_r' a b : N.ldiff a (N.lor a b) = 0%N.
Proof.
  apply N.bits_inj; intros n. rewrite N.ldiff_spec, N.lor_spec, N.bits_0.
  destruct (N.testbit a n), (N.testbit b n); reflexivity.
Qed.

(* all open frames of the running threads, in stack order *)
Definition frs (s : cst) : list frame := flat_map (frames s) (chain s).

(* a stack is sound for a list of frames: same identities in the same order, each context's flags contain what its
   frame required and what the context below it requires *)
Fixpoint sound (st : list entry) (fl : list frame) : Prop :=
  match st, fl with
  | [], [] => True
  | en :: st', f :: fl' =>
    eid en = fr_id f /\ N.ldiff (fr_req f) (eflags en) = 0%N /\ N.ldiff (top_flags st') (eflags en) = 0%N /\ sound st' fl'
  | _, _ => False
  end.

Record Inv (s : cst) : Prop := {
  inv_sound : sound (stack s) (frs s);
  inv_susp : forall t, ~ In t (chain s) -> frames s t = [];
  inv_nodup : NoDup (chain s)
}.

Lemma sound_req st fl : sound st fl -> N.ldiff (req_of fl) (top_flags st) = 0%N.
Proof.
  revert fl; induction st as [|en st IH]; intros [|f fl] H; cbn in *; try contradiction; [reflexivity|].
  destruct H as (_ & Hr & Hm & Hs). apply ldiff0_lor_l. split; [exact Hr|].
  apply (ldiff0_trans _ (top_flags st)); [apply IH; exact Hs | exact Hm].
Qed.

Lemma req_of_app a b : req_of (a ++ b) = N.lor (req_of a) (req_of b).
Proof. induction a as [|f a IH]; cbn; [reflexivity|]. rewrite IH, N.lor_assoc. reflexivity. Qed.

Lemma memb_in t l : memb t l = true <-> In t l.
Proof.
  unfold memb. rewrite existsb_exists. split.
  - intros (x & Hx & He). apply Nat.eqb_eq in He. subst. exact Hx.
  - intros H. exists t. split; [exact H | apply Nat.eqb_refl].
Qed.

Lemma flat_map_upd_notin f t v l : ~ In t l -> flat_map (upd f t v) l = flat_map f l.
Proof.
  induction l as [|x l IH]; intros H; cbn; [reflexivity|].
  rewrite IH by (intros Hc; apply H; right; exact Hc).
  unfold upd at 1. destruct (Nat.eqb x t) eqn:E; [|reflexivity].
  apply Nat.eqb_eq in E. subst. exfalso. apply H. left. reflexivity.
Qed.

Lemma upd_same f t v : upd f t v t = v.
Proof. unfold upd. rewrite Nat.eqb_refl. reflexivity. Qed.

Lemma upd_other f t v x : x <> t -> upd f t v x = f x.
Proof. intros H. unfold upd. destruct (Nat.eqb x t) eqn:E; [apply Nat.eqb_eq in E; contradiction | reflexivity]. Qed.

Lemma init_inv : Inv init.
Proof.
  split; cbn.
  - exact I.
  - intros t _. reflexivity.
  - constructor; [intros []|constructor].
Qed.

(* one disciplined event keeps the invariant and produces only good observations *)
Lemma step_inv s e s' o :
  Inv s -> step s e = Some (s', o) ->
  (match e, chain s with EYield, t :: _ => frames s t = [] | _, _ => True end) ->
  Inv s' /\ all_ok o = true.
Proof.
  intros [Hs Hsu Hnd] Hstep Hdisc. unfold step in Hstep.
  destruct (chain s) as [|t rest] eqn:Hch; [discriminate|].
  assert (Hnt : ~ In t rest) by (inversion Hnd; assumption).
  assert (Hndr : NoDup rest) by (inversion Hnd; assumption).
  unfold frs in Hs. rewrite ?Hch in Hs. cbn [flat_map] in Hs.
  destruct e.
  - (* EPush *)
    inversion Hstep; subst; clear Hstep. split; [|reflexivity]. split; cbn [stack frames chain].
    + unfold frs. cbn [chain frames]. rewrite ?Hch. cbn [flat_map]. rewrite upd_same.
      rewrite flat_map_upd_notin by exact Hnt. cbn [app sound eid fr_id eflags fr_req].
      repeat split; [apply ldiff0_lor_r' | apply ldiff0_lor_r | exact Hs].
    + intros x Hx. rewrite ?Hch in Hx. rewrite upd_other; [apply Hsu; rewrite ?Hch; exact Hx|].
      intros ->. apply Hx. left. reflexivity.
    + rewrite ?Hch. exact Hnd.
  - (* EExit *)
    destruct (frames s t) as [|f fs] eqn:Hfr; [discriminate|].
    cbn [app] in Hs. destruct (stack s) as [|en st] eqn:Hst; [contradiction|].
    destruct Hs as (Hid & Hr & Hm & Hs').
    inversion Hstep; subst; clear Hstep. split.
    + split; cbn [stack frames chain].
      * unfold frs. cbn [chain frames]. rewrite ?Hch. cbn [flat_map]. rewrite upd_same.
        rewrite flat_map_upd_notin by exact Hnt. exact Hs'.
      * intros x Hx. rewrite ?Hch in Hx. rewrite upd_other; [apply Hsu; rewrite ?Hch; exact Hx|].
        intros ->. apply Hx. left. reflexivity.
      * rewrite ?Hch. exact Hnd.
    + cbn. rewrite Hid, Nat.eqb_refl. reflexivity.
  - (* EResume *)
    destruct (memb u (t :: rest) || memb u (dead s)) eqn:Hm; [discriminate|].
    apply orb_false_iff in Hm. destruct Hm as [Hm _].
    assert (Hu : ~ In u (t :: rest)) by (intros Hc; apply memb_in in Hc; congruence).
    inversion Hstep; subst; clear Hstep. split; [|reflexivity]. split; cbn [stack frames chain].
    + unfold frs. cbn [chain frames flat_map]. rewrite (Hsu u) by (rewrite ?Hch; exact Hu). cbn [app]. exact Hs.
    + intros x Hx. apply Hsu. rewrite ?Hch. intros Hc. apply Hx. right. exact Hc.
    + constructor; assumption.
  - (* EYield *)
    destruct rest as [|r rest']; [discriminate|].
    inversion Hstep; subst; clear Hstep. split; [|reflexivity].
    rewrite Hdisc in Hs. cbn [app] in Hs. split; cbn [stack frames chain].
    + unfold frs. cbn [chain frames]. exact Hs.
    + intros x Hx. destruct (Nat.eq_dec x t) as [->|Hne]; [exact Hdisc|].
      apply Hsu. rewrite ?Hch. intros [Hc|Hc]; [congruence | contradiction].
    + exact Hndr.
  - (* EEnd *)
    destruct rest as [|r rest']; [discriminate|].
    destruct (frames s t) as [|f fs] eqn:Hfr; [|discriminate].
    inversion Hstep; subst; clear Hstep. split; [|reflexivity].
    cbn [app] in Hs. split; cbn [stack frames chain].
    + unfold frs. cbn [chain frames]. exact Hs.
    + intros x Hx. destruct (Nat.eq_dec x t) as [->|Hne]; [exact Hfr|].
      apply Hsu. rewrite ?Hch. intros [Hc|Hc]; [congruence | contradiction].
    + exact Hndr.
  - (* EObs *)
    inversion Hstep; subst; clear Hstep. split.
    + split; [unfold frs; rewrite Hch; cbn [flat_map]; exact Hs | rewrite Hch; exact Hsu | rewrite Hch; exact Hnd].
    + cbn. rewrite andb_true_r. apply N.eqb_eq.
      pose proof (sound_req _ _ Hs) as Hreq. rewrite req_of_app in Hreq.
      apply ldiff0_lor_l in Hreq. exact (proj1 Hreq).
Qed.

Lemma all_ok_app a b : all_ok (a ++ b) = all_ok a && all_ok b.
Proof. unfold all_ok. apply forallb_app. Qed.

Theorem run_disciplined s l s' o :
  Inv s -> run s l = Some (s', o) -> disciplined s l = true -> Inv s' /\ all_ok o = true.
Proof.
  revert s s' o; induction l as [|e l IH]; intros s s' o Hi Hr Hd; cbn in Hr.
  - inversion Hr; subst. split; [exact Hi | reflexivity].
  - destruct (step s e) as [[s1 o1]|] eqn:Hst; [|discriminate].
    destruct (run s1 l) as [[s2 o2]|] eqn:Hrun; [|discriminate].
    inversion Hr; subst; clear Hr. cbn in Hd. rewrite Hst in Hd. apply andb_true_iff in Hd. destruct Hd as [Hd1 Hd2].
    assert (Hdisc : match e, chain s with EYield, t :: _ => frames s t = [] | _, _ => True end).
    { destruct e; try exact I. destruct (chain s) as [|t r]; [exact I|].
      destruct (frames s t); [reflexivity | discriminate]. }
    destruct (step_inv _ _ _ _ Hi Hst Hdisc) as [Hi1 Ho1].
    destruct (IH _ _ _ Hi1 Hrun Hd2) as [Hi2 Ho2].
    split; [exact Hi2|]. rewrite all_ok_app, Ho1, Ho2. reflexivity.
Qed.

Theorem coro_disciplined_sound l s o :
  run init l = Some (s, o) -> disciplined init l = true ->
  all_ok o = true /\ map eid (stack s) = map fr_id (frs s).
Proof.
  intros Hr Hd. destruct (run_disciplined _ _ _ _ init_inv Hr Hd) as [[Hs _ _] Ho]. split; [exact Ho|].
  revert Hs. generalize (stack s) (frs s). induction l0 as [|en st IH]; intros [|f fl] H; cbn in *; try contradiction; [reflexivity|].
  destruct H as (Hid & _ & _ & Hs). rewrite Hid, (IH _ Hs). reflexivity.
Qed.

(* ---- golua does not enforce the discipline ---- *)

(* main: callcontext{}( resume co ) ; co: callcontext{iosafe}( yield ... ) : the exit of main's frame pops the coroutine's context *)
Definition witness_exit : list ev := [EPush 0; EResume 1; EPush 4; EYield; EExit].

Theorem coro_exit_pops_own_refuted :
  exists l s o, run init l = Some (s, o) /\ all_ok o = false /\
  exists own en, In (OExit own (Some en)) o /\ eid en <> own.
Proof.
  exists witness_exit. eexists. eexists. split; [vm_compute; reflexivity|]. split; [vm_compute; reflexivity|].
  exists 0, (mkEntry 1 4). split; [left; reflexivity | cbn; discriminate].
Qed.

(* ... and when the coroutine is resumed again the body of its iosafe context runs without iosafe in force *)
Definition witness_flags : list ev := [EPush 0; EResume 1; EPush 4; EYield; EExit; EResume 1; EObs].

Theorem coro_flags_in_force_refuted :
  exists l s o, run init l = Some (s, o) /\ In (OFlags 4 0) o.
Proof.
  exists witness_flags. eexists. eexists. split; [vm_compute; reflexivity|]. right. left. reflexivity.
Qed.

(* the positive theorem is not vacuous: a history with coroutines, nesting and yields outside frames *)
Example disciplined_example :
  let l := [EPush 2; EResume 1; EPush 4; EObs; EResume 2; EPush 1; EObs; EExit; EYield; EExit; EYield; EObs; EResume 2; EEnd; EExit] in
  disciplined init l = true /\ exists s o, run init l = Some (s, o) /\ length o = 6.
Proof. split; [vm_compute; reflexivity|]. eexists. eexists. split; [vm_compute; reflexivity | reflexivity]. Qed.
