(* Ctx/Model.v — implementation model (IM) of golua's runtime context manager.
   Mirrors runtime/runtimecontextmanager.go and runtime/runtimecontext.go
   (RuntimeResources.Remove/Merge/Dominates, smallerLimit, atLimit,
   PushContext, PopContext, requireCPU, requireMem, ReleaseMem, SetStopLevel,
   Due, KillContext, TerminateContext, updateTimeUsed), with uint64
   arithmetic written as [mod 2^64] on Z and Go's panics made explicit.

   No proofs in this file: it must keep running (extraction, vm_compute)
   even when a proof elsewhere breaks. *)
From Coq Require Import ZArith List Bool.
Import ListNotations.
Open Scope Z_scope.

Definition W : Z := 18446744073709551616. (* 2^64 *)
Definition u64 (z : Z) : Z := z mod W.

Record res := mkRes { cpu : Z; mem : Z; ms : Z }.
Definition res0 : res := mkRes 0 0 0.

(* n < m with 0 = +infinity on both sides *)
Definition smallerLimit (n m : Z) : bool := (0 <? n) && ((m =? 0) || (n <? m)).
(* l <= v with 0 = +infinity for l *)
Definition atLimit (v l : Z) : bool := (0 <? l) && (l <=? v).

Definition sat_sub (a b : Z) : Z := if b <=? a then a - b else 0.
Definition remove (r v : res) : res :=
  mkRes (sat_sub (cpu r) (cpu v)) (sat_sub (mem r) (mem v)) (sat_sub (ms r) (ms v)).
Definition merge1 (a b : Z) : Z := if smallerLimit b a then b else a.
Definition merge (r r1 : res) : res :=
  mkRes (merge1 (cpu r) (cpu r1)) (merge1 (mem r) (mem r1)) (merge1 (ms r) (ms r1)).
Definition dominates (r v : res) : bool :=
  negb (atLimit (cpu v) (cpu r)) && negb (atLimit (mem v) (mem r)) && negb (atLimit (ms v) (ms r)).

Inductive status := Live | Done | Err | Killed.
Definition status_eqb (a b : status) : bool :=
  match a, b with Live, Live | Done, Done | Err, Err | Killed, Killed => true | _, _ => false end.

(* compliance flags as a bit set on N: memsafe=1 cpusafe=2 iosafe=4 timesafe=8 *)
Definition F_MEM : N := 1.  Definition F_CPU : N := 2.
Definition F_IO  : N := 4.  Definition F_TIME : N := 8.
(* stop levels: SoftStop = 1, HardStop = 2 *)
Definition SOFT : N := 1.  Definition HARD : N := 2.

Record ctx := mkCtx {
  hard : res; soft : res; used : res;
  flags : N; st : status;
  trackCpu : bool; trackMem : bool; trackTime : bool;
  stopLevel : N; startTime : Z; nextThr : Z;
  gcIso : bool
}.

Definition root : ctx :=
  mkCtx res0 res0 res0 0 Live false false false 0 0 0 true.

(* the manager: current context + the chain of saved parents (innermost first) *)
Record mgr := mkMgr { cur : ctx; parents : list ctx }.
Definition init : mgr := mkMgr root [].

Inductive term := TForce | TCpu (l : Z) | TMem (l : Z) | TTime (l : Z).

(* result of an operation on one context: either it completes, or the Go code
   panics with a ContextTerminationError (state as left at the panic), or it
   panics with a plain Go panic *)
Inductive r1 := ROk (c : ctx) | RTerm (c : ctx) (t : term) | RPanic (c : ctx).

Definition set_st (c : ctx) (s : status) : ctx :=
  mkCtx (hard c) (soft c) (used c) (flags c) s (trackCpu c) (trackMem c) (trackTime c)
        (stopLevel c) (startTime c) (nextThr c) (gcIso c).
Definition set_used (c : ctx) (u : res) : ctx :=
  mkCtx (hard c) (soft c) u (flags c) (st c) (trackCpu c) (trackMem c) (trackTime c)
        (stopLevel c) (startTime c) (nextThr c) (gcIso c).
Definition set_stop (c : ctx) (l : N) : ctx :=
  mkCtx (hard c) (soft c) (used c) (flags c) (st c) (trackCpu c) (trackMem c) (trackTime c)
        l (startTime c) (nextThr c) (gcIso c).
Definition set_thr (c : ctx) (t : Z) : ctx :=
  mkCtx (hard c) (soft c) (used c) (flags c) (st c) (trackCpu c) (trackMem c) (trackTime c)
        (stopLevel c) (startTime c) t (gcIso c).

Definition live (c : ctx) : bool := status_eqb (st c) Live.
Definition kill (c : ctx) : ctx := set_st c Killed.

(* TerminateContext(msg) is: if status != Live return; status = Killed; panic.
   Below, "cond && live c" guards each call site: when the context is not live
   the Go code falls through and carries on. *)

Definition hard_stop (c : ctx) : bool := N.testbit (stopLevel c) 1.
Definition soft_stop (c : ctx) : bool := N.testbit (stopLevel c) 0.

Definition set_ms (c : ctx) (v : Z) : ctx := set_used c (mkRes (cpu (used c)) (mem (used c)) v).
Definition set_cpu (c : ctx) (v : Z) : ctx := set_used c (mkRes v (mem (used c)) (ms (used c))).
Definition set_mem (c : ctx) (v : Z) : ctx := set_used c (mkRes (cpu (used c)) v (ms (used c))).

(* updateTimeUsed: returns the new context and whether it panicked *)
Definition updateTimeUsed (now : Z) (c : ctx) : ctx * bool :=
  let c1 := set_ms c (u64 (now - startTime c)) in
  if atLimit (ms (used c1)) (ms (hard c1)) && live c1 then (kill c1, true) else (c1, false).

Definition requireCPU (now amt : Z) (c : ctx) : r1 :=
  if negb (trackCpu c) then ROk c else
  if hard_stop c && live c then RTerm (kill c) TForce else
  let cpuUsed := u64 (cpu (used c) + amt) in
  if atLimit cpuUsed (cpu (hard c)) && live c then RTerm (kill c) (TCpu (cpu (hard c))) else
  (* the CPU is recorded before the clock is looked at: it is not lost when the time limit terminates the context *)
  if trackTime c && (nextThr c <=? cpuUsed) then
    let '(c2, t) := updateTimeUsed now (set_thr (set_cpu c cpuUsed) (u64 (cpuUsed + 10000))) in
    if t then RTerm c2 (TTime (ms (hard c))) else ROk c2
  else ROk (set_cpu c cpuUsed).

Definition requireMem (amt : Z) (c : ctx) : r1 :=
  if negb (trackMem c) then ROk c else
  if hard_stop c && live c then RTerm (kill c) TForce else
  let memUsed := u64 (mem (used c) + amt) in
  if atLimit memUsed (mem (hard c)) && live c then RTerm (kill c) (TMem (mem (hard c))) else
  ROk (set_mem c memUsed).

(* ReleaseMem: only accounted when a HARD memory limit is set (RequireMem counts under a soft-only limit too, so
   there the counter never goes down: open finding C07-soft-only-memory-limit-never-released); the counter
   saturates at zero (it used to panic "Too much mem released": repaired by a
   fix: commit, see known_findings.json C06-release-underflow-crash) *)
Definition releaseMem (amt : Z) (c : ctx) : r1 :=
  if 0 <? mem (hard c) then
    if amt <=? mem (used c)
    then ROk (set_mem c (mem (used c) - amt))
    else ROk (set_mem c 0)
  else ROk c.

Definition setStopLevel (l : N) (c : ctx) : r1 :=
  let c1 := set_stop c (N.lor (stopLevel c) l) in
  if N.testbit l 1 && live c1 then RTerm (kill c1) TForce else ROk c1.

Definition due (c : ctx) : bool := soft_stop c || negb (dominates (soft c) (used c)).

Definition checkFlags (c : ctx) (declared : N) : bool :=
  N.eqb (N.ldiff (flags c) declared) 0.

Record ctxdef := mkDef { dHard : res; dSoft : res; dFlags : N; dIso : bool }.

Definition pushCtx (now : Z) (d : ctxdef) (m : ctx) : ctx :=
  let hard' := merge (remove (hard m) (used m)) (dHard d) in
  let soft' := merge (merge hard' (soft m)) (dSoft d) in
  let fl := N.lor (flags m) (dFlags d) in
  let fl := if 0 <? cpu (dHard d) then N.lor fl F_CPU else fl in
  let fl := if 0 <? mem (dHard d) then N.lor fl F_MEM else fl in
  let fl := if 0 <? ms (dHard d) then N.lor fl F_TIME else fl in
  let tt := (0 <? ms hard') || (0 <? ms soft') in
  let tc := (0 <? cpu hard') || (0 <? cpu soft') || tt in
  let tm := (0 <? mem hard') || (0 <? mem soft') in
  let iso := dIso d || (0 <? ms (dHard d)) || (0 <? cpu (dHard d)) || (0 <? mem (dHard d)) in
  (* the CPU counter restarts at 0 and so does the threshold at which the clock is next looked at *)
  mkCtx hard' soft' res0 fl Live tc tm tt (stopLevel m) now 0 iso.

(* results at manager level *)
Inductive mres :=
| MOk (m : mgr) (popped : option ctx)     (* popped: value returned by PopContext *)
| MTerm (m : mgr) (t : term)
| MPanic (m : mgr).

Definition lift (m : mgr) (r : r1) : mres :=
  match r with
  | ROk c => MOk (mkMgr c (parents m)) None
  | RTerm c t => MTerm (mkMgr c (parents m)) t
  | RPanic c => MPanic (mkMgr c (parents m))
  end.

Definition push (now : Z) (d : ctxdef) (m : mgr) : mres :=
  (* PushContext: if trackTime then updateTimeUsed (may terminate) *)
  let go (c : ctx) := MOk (mkMgr (pushCtx now d c) (c :: parents m)) None in
  if trackTime (cur m) then
    let '(c, t) := updateTimeUsed now (cur m) in
    if t then MTerm (mkMgr c (parents m)) (TTime (ms (hard c))) else go c
  else go (cur m).

Definition pop (now : Z) (m : mgr) : mres :=
  match parents m with
  | [] => MOk m None
  | p :: rest =>
    let c := cur m in
    let copy := if live c then set_st c Done else c in
    (* the parent is reinstated first, then charged: a termination while charging it leaves the stack popped *)
    (* memory first: charging the CPU looks at the clock and can terminate the parent *)
    match requireMem (mem (used c)) p with
    | RTerm p' t => MTerm (mkMgr p' rest) t
    | RPanic p' => MPanic (mkMgr p' rest)
    | ROk p1 =>
      match requireCPU now (cpu (used c)) p1 with
      | RTerm p' t => MTerm (mkMgr p' rest) t
      | RPanic p' => MPanic (mkMgr p' rest)
      | ROk p2 =>
        if trackTime p2 then
          let '(p3, t) := updateTimeUsed now p2 in
          if t then MTerm (mkMgr p3 rest) (TTime (ms (hard p3))) else MOk (mkMgr p3 rest) (Some copy)
        else MOk (mkMgr p2 rest) (Some copy)
      end
    end
  end.

Inductive op :=
| OPush (d : ctxdef)
| OPop
| OCpu (amt : Z)
| OMem (amt : Z)
| ORel (amt : Z)
| OStop (l : N).

Definition step (now : Z) (m : mgr) (o : op) : mres :=
  match o with
  | OPush d => push now d m
  | OPop => pop now m
  | OCpu a => lift m (requireCPU now a (cur m))
  | OMem a => lift m (requireMem a (cur m))
  | ORel a => lift m (releaseMem a (cur m))
  | OStop l => lift m (setStopLevel l (cur m))
  end.

Definition mres_mgr (r : mres) : mgr :=
  match r with MOk m _ => m | MTerm m _ => m | MPanic m => m end.

(* run a history (each operation comes with the clock reading [now] it sees);
   the manager state persists across panics exactly as the Go object does
   when the caller recovers *)
Fixpoint run (m : mgr) (os : list (Z * op)) : mgr :=
  match os with
  | [] => m
  | (now, o) :: os' => run (mres_mgr (step now m o)) os'
  end.
