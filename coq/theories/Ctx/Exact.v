(* Ctx/Exact.v — exactness / determinism / monotonicity of the CPU limit.

   Two runs of the same abstract program (a tree of requests and nested
   CallContext calls, Ctx/NestModel.v) that differ only in the CPU limit of
   the context they run in: L1 <= L2.  If the run under L2 completes with a
   total usage below L1, the run under L1 makes exactly the same decisions:
   same outcome at every node of the tree, same usage, same statuses.  So a
   limit above the usage never changes behaviour, accounting is deterministic,
   and whether a program is killed is monotone in the limit. *)
From Coq Require Import ZArith List Bool Lia.
From GV Require Import Ctx.Model Ctx.Proofs Ctx.NestModel Ctx.Nest.
Import ListNotations.
Open Scope Z_scope.

Definition SMALL : Z := 4611686018427387904. (* 2^62: amounts and limits below this never wrap *)

Definition tot (m : mgr) : Z := sum_cpu (cur m :: parents m).
Definition lim_top (m : mgr) : Prop := 0 < cpu (hard (cur m)) < SMALL.

(* requests allowed in this development: CPU / memory requests and releases
   with non-wrapping amounts; nested calls without time or soft-stop *)
Fixpoint act_ok2 (a : act) : Prop :=
  match a with
  | AOp o => match o with
             | OCpu x => 0 <= x < SMALL
             | OMem x => 0 <= x < W
             | ORel x => 0 <= x
             | _ => False end
  | ACall d body _ => def_ok d /\ notime d /\ acts_ok2 body
  end
with acts_ok2 (l : acts) : Prop :=
  match l with ANil => True | ACons a rest => act_ok2 a /\ acts_ok2 rest end.

Lemma act_ok2_ok : (forall a, act_ok2 a -> act_ok a) /\ (forall l, acts_ok2 l -> acts_ok l).
Proof.
  apply act_acts_ind.
  - intros o H. destruct o; cbn in *; try contradiction; auto; lia.
  - intros d body IH err (A & B & C). cbn. auto.
  - intros _. exact I.
  - intros a IHa rest IHr (A & B). cbn. auto.
Qed.

Section TwoRuns.
Variable L1 : Z.

(* everything but the CPU hard limit and the soft limits coincides *)
Record simc (c1 c2 : ctx) : Prop := {
  s_used : used c1 = used c2;
  s_st : st c1 = st c2;
  s_flags : flags c1 = flags c2;
  s_stop : stopLevel c1 = stopLevel c2;
  s_tm : trackMem c1 = trackMem c2;
  s_tt : trackTime c1 = trackTime c2;
  s_hm : mem (hard c1) = mem (hard c2);
  s_ht : ms (hard c1) = ms (hard c2);
  s_sm : mem (soft c1) = mem (soft c2);
  s_st' : ms (soft c1) = ms (soft c2);
  s_start : startTime c1 = startTime c2;
  s_thr : nextThr c1 = nextThr c2;
  s_iso : gcIso c1 = gcIso c2;
}.

(* one level of the two stacks; S = CPU used by this level and all below it *)
Definition lvl (c1 c2 : ctx) (S : Z) : Prop :=
  c1 = c2 \/
  (simc c1 c2 /\ 0 < cpu (hard c1) <= cpu (hard c2) /\ cpu (hard c2) < SMALL /\
   (cpu (hard c1) = cpu (hard c2) \/ cpu (hard c1) - cpu (used c1) = L1 - S)).

Fixpoint J (l1 l2 : list ctx) : Prop :=
  match l1, l2 with
  | [], [] => True
  | c1 :: t1, c2 :: t2 => lvl c1 c2 (sum_cpu (c1 :: t1)) /\ J t1 t2
  | _, _ => False
  end.

Definition JM (m1 m2 : mgr) : Prop := J (cur m1 :: parents m1) (cur m2 :: parents m2).

Lemma simc_refl c : simc c c.
Proof. constructor; reflexivity. Qed.

Lemma J_sum l1 l2 : J l1 l2 -> sum_cpu l1 = sum_cpu l2.
Proof.
  revert l2. induction l1 as [|c1 t1 IH]; intros [|c2 t2] H; cbn in H; try contradiction; [reflexivity|].
  destruct H as [Hl Hj]. specialize (IH _ Hj). unfold sum_cpu in *. cbn [fold_right].
  destruct Hl as [->|(Hs & _)]; [lia|]. rewrite (s_used _ _ Hs). lia.
Qed.

Lemma JM_tot m1 m2 : JM m1 m2 -> tot m1 = tot m2.
Proof. apply J_sum. Qed.

(* ---------- one request at the top of two related stacks ---------- *)

Definition same_kind (r1 r2 : mres) : Prop :=
  match r1, r2 with
  | MOk _ None, MOk _ None => True
  | MTerm _ _, MTerm _ _ => True
  | MPanic _, MPanic _ => True
  | _, _ => False
  end.

Lemma lvl_top_cases c1 c2 S : lvl c1 c2 S ->
  c1 = c2 \/ (simc c1 c2 /\ 0 < cpu (hard c1) <= cpu (hard c2) /\ cpu (hard c2) < SMALL /\
              (cpu (hard c1) = cpu (hard c2) \/ cpu (hard c1) - cpu (used c1) = L1 - S)).
Proof. auto. Qed.

Lemma u64_small_sum a b : 0 <= a < SMALL -> 0 <= b < SMALL -> u64 (a + b) = a + b.
Proof. intros. apply u64_add_small; unfold SMALL, W in *; lia. Qed.

(* requireCPU on related contexts *)
Lemma requireCPU_sim c1 c2 t1 a :
  ctx_ok c1 -> ctx_ok c2 -> calm_ctx c1 -> calm_ctx c2 -> 0 <= a < SMALL ->
  lvl c1 c2 (sum_cpu (c1 :: t1)) ->
  match requireCPU 0 a c2 with
  | ROk c2' =>
      sum_cpu (c2' :: t1) < L1 ->
      exists c1', requireCPU 0 a c1 = ROk c1' /\ lvl c1' c2' (sum_cpu (c1' :: t1))
  | RTerm c2' _ =>
      exists c1' t, requireCPU 0 a c1 = RTerm c1' t /\ lvl c1' c2' (sum_cpu (c1' :: t1))
  | RPanic _ => False
  end.
Proof.
  intros Hc1 Hc2 (Hl1 & Hs1 & Ht1 & _) (Hl2 & Hs2 & Ht2 & _) Ha Hlvl.
  destruct Hlvl as [->|(Hs & (Hh1 & Hh12) & Hsm & Hrel)].
  - (* identical contexts *)
    destruct (requireCPU 0 a c2) as [c2'|c2' t|c2'] eqn:E.
    + intros _. exists c2'. split; [reflexivity|left; reflexivity].
    + exists c2', t. split; [reflexivity|left; reflexivity].
    + eapply requireCPU_nopanic; eauto.
  - pose proof (ok_tc _ Hc1 Hh1) as Tc1.
    assert (Hh2 : 0 < cpu (hard c2)) by lia. pose proof (ok_tc _ Hc2 Hh2) as Tc2.
    pose proof (ok_cpu _ Hc1 Hl1 Hh1) as U1. pose proof (ok_cpu _ Hc2 Hl2 Hh2) as U2.
    destruct (ok_used _ Hc1) as ((u1a & u1b) & _).
    assert (Eu : cpu (used c1) = cpu (used c2)) by (rewrite (s_used _ _ Hs); reflexivity).
    assert (Ew : u64 (cpu (used c2) + a) = cpu (used c2) + a) by (apply u64_small_sum; lia).
    unfold requireCPU. rewrite Tc1, Tc2, Hs1, Hs2, Ht1, Ht2. cbn [negb andb].
    rewrite Eu, Ew.
    assert (Lv1 : live c1 = true) by (apply live_true; exact Hl1).
    assert (Lv2 : live c2 = true) by (apply live_true; exact Hl2).
    rewrite Lv1, Lv2, !andb_true_r.
    destruct (atLimit (cpu (used c2) + a) (cpu (hard c2))) eqn:A2.
    + (* killed under the larger limit: killed under the smaller one too *)
      apply atLimit_true in A2.
      assert (A1 : atLimit (cpu (used c2) + a) (cpu (hard c1)) = true) by (apply atLimit_true; lia).
      rewrite A1. eexists _, _. split; [reflexivity|].
      right. split; [|cbn; split; [lia|split; [exact Hsm|]]].
      * destruct Hs. constructor; cbn; auto.
      * unfold sum_cpu in *. cbn in *. exact Hrel.
    + apply atLimit_false in A2. intros Hsum.
      assert (A1 : atLimit (cpu (used c2) + a) (cpu (hard c1)) = false).
      { apply atLimit_false. right. destruct Hrel as [Hrel|Hrel]; [lia|].
        unfold sum_cpu in *. cbn in *. lia. }
      rewrite A1. eexists. split; [reflexivity|].
      right. split; [|cbn; split; [lia|split; [exact Hsm|]]].
      * destruct Hs. constructor; cbn; auto. rewrite s_used0. reflexivity.
      * destruct Hrel as [Hrel|Hrel]; [left; exact Hrel|right].
        unfold sum_cpu in *. cbn in *. lia.
Qed.

Lemma requireMem_sim c1 c2 S a :
  lvl c1 c2 S ->
  match requireMem a c2 with
  | ROk c2' => exists c1', requireMem a c1 = ROk c1' /\ lvl c1' c2' S /\ cpu (used c2') = cpu (used c2) /\ cpu (used c1') = cpu (used c1)
  | RTerm c2' _ => exists c1' t, requireMem a c1 = RTerm c1' t /\ lvl c1' c2' S /\ cpu (used c2') = cpu (used c2) /\ cpu (used c1') = cpu (used c1)
  | RPanic _ => False
  end.
Proof.
  intros [->|(Hs & Hh & Hsm & Hrel)].
  - destruct (requireMem a c2) as [c2'|c2' t|c2'] eqn:E.
    + exists c2'. split; [reflexivity|]. split; [left; reflexivity|].
      revert E. unfold requireMem. destruct (negb (trackMem c2)); [intros H; inversion H; auto|].
      destruct (hard_stop c2 && live c2); [discriminate|]. destruct (atLimit _ _ && live c2); [discriminate|].
      intros H; inversion H; cbn; auto.
    + exists c2', t. split; [reflexivity|]. split; [left; reflexivity|].
      revert E. unfold requireMem. destruct (negb (trackMem c2)); [discriminate|].
      destruct (hard_stop c2 && live c2); [intros H; inversion H; cbn; auto|].
      destruct (atLimit _ _ && live c2); [intros H; inversion H; cbn; auto|discriminate].
    + eapply requireMem_nopanic; eauto.
  - destruct Hs as [su sst sfl sstop stm stt shm sht ssm sst' sstart sthr siso].
    assert (Elive : live c1 = live c2) by (unfold live; rewrite sst; reflexivity).
    assert (Ehs : hard_stop c1 = hard_stop c2) by (unfold hard_stop; rewrite sstop; reflexivity).
    unfold requireMem. rewrite stm, Ehs, Elive, su, shm.
    assert (Hfin : forall c1' c2', simc c1' c2' -> hard c1' = hard c1 -> hard c2' = hard c2 ->
              cpu (used c1') = cpu (used c1) -> lvl c1' c2' S).
    { intros c1' c2' Hs' E1 E2 E3. right. split; [exact Hs'|]. rewrite E1, E2, E3.
      split; [exact Hh|]. split; [exact Hsm|exact Hrel]. }
    destruct (negb (trackMem c2)).
    { exists c1. split; [reflexivity|]. split; [|rewrite ?su; auto].
      apply Hfin; auto. constructor; auto. }
    destruct (hard_stop c2 && live c2).
    { eexists _, _. split; [reflexivity|]. split; [|cbn; rewrite ?su; auto].
      apply Hfin; auto. constructor; cbn; auto. }
    destruct (atLimit _ _ && live c2).
    { eexists _, _. split; [reflexivity|]. split; [|cbn; rewrite ?su; auto].
      apply Hfin; auto. constructor; cbn; auto. }
    eexists. split; [reflexivity|]. split; [|cbn; rewrite ?su; auto].
    apply Hfin; auto. constructor; cbn; auto. rewrite su. reflexivity.
Qed.

Lemma releaseMem_sim c1 c2 S a :
  lvl c1 c2 S ->
  match releaseMem a c2 with
  | ROk c2' => exists c1', releaseMem a c1 = ROk c1' /\ lvl c1' c2' S /\ cpu (used c2') = cpu (used c2) /\ cpu (used c1') = cpu (used c1)
  | _ => False
  end.
Proof.
  intros [->|(Hs & Hh & Hsm & Hrel)].
  - unfold releaseMem. destruct (0 <? mem (hard c2)); [destruct (a <=? mem (used c2))|];
      eexists; (split; [reflexivity|]); (split; [left; reflexivity|cbn; auto]).
  - destruct Hs as [su sst sfl sstop stm stt shm sht ssm sst' sstart sthr siso].
    assert (Hfin : forall c1' c2', simc c1' c2' -> hard c1' = hard c1 -> hard c2' = hard c2 ->
              cpu (used c1') = cpu (used c1) -> lvl c1' c2' S).
    { intros c1' c2' Hs' E1 E2 E3. right. split; [exact Hs'|]. rewrite E1, E2, E3.
      split; [exact Hh|]. split; [exact Hsm|exact Hrel]. }
    unfold releaseMem. rewrite su, shm.
    destruct (0 <? mem (hard c2)); [destruct (a <=? mem (used c2))|];
      eexists; (split; [reflexivity|]); (split; [|cbn; rewrite ?su; auto]);
      apply Hfin; auto; constructor; cbn; auto; rewrite ?su; try reflexivity; congruence.
Qed.

(* ---------- PushContext on related stacks ---------- *)

Lemma merge1_pos_cases r d : 0 < r ->
  merge1 r d = (if (0 <? d) && (d <? r) then d else r).
Proof.
  intros Hr. unfold merge1, smallerLimit.
  destruct (0 <? d); cbn [andb]; [|reflexivity].
  destruct (Z.eqb_spec r 0); [lia|]. cbn [orb]. reflexivity.
Qed.

Lemma pushCtx_sim d p1 p2 t1 :
  ctx_ok p1 -> ctx_ok p2 -> st p1 = Live -> st p2 = Live ->
  lvl p1 p2 (sum_cpu (p1 :: t1)) ->
  lvl (pushCtx 0 d p1) (pushCtx 0 d p2) (sum_cpu (pushCtx 0 d p1 :: p1 :: t1)).
Proof.
  intros Hc1 Hc2 Hl1 Hl2 [->|(Hs & (Hh1 & Hh12) & Hsm & Hrel)]; [left; reflexivity|].
  destruct Hs as [su sst sfl sstop stm stt shm sht ssm sst' sstart sthr siso].
  assert (Hh2 : 0 < cpu (hard p2)) by lia.
  pose proof (ok_cpu _ Hc1 Hl1 Hh1) as U1. pose proof (ok_cpu _ Hc2 Hl2 Hh2) as U2.
  destruct (ok_used _ Hc1) as ((u1a & u1b) & _).
  assert (Eu : cpu (used p1) = cpu (used p2)) by (rewrite su; reflexivity).
  assert (R1 : sat_sub (cpu (hard p1)) (cpu (used p1)) = cpu (hard p1) - cpu (used p1))
    by (unfold sat_sub; destruct (Z.leb_spec (cpu (used p1)) (cpu (hard p1))); lia).
  assert (R2 : sat_sub (cpu (hard p2)) (cpu (used p2)) = cpu (hard p2) - cpu (used p2))
    by (unfold sat_sub; destruct (Z.leb_spec (cpu (used p2)) (cpu (hard p2))); lia).
  right. split; [|split; [|split]].
  - unfold pushCtx. constructor; cbn -[merge1 sat_sub]; rewrite ?su, ?sfl, ?sstop, ?shm, ?sht, ?ssm, ?sst', ?sthr; reflexivity.
  - unfold pushCtx. cbn -[merge1 sat_sub]. rewrite R1, R2.
    rewrite !merge1_pos_cases by lia.
    destruct (0 <? cpu (dHard d)) eqn:E0; cbn [andb]; [|lia].
    apply Z.ltb_lt in E0.
    destruct (Z.ltb_spec (cpu (dHard d)) (cpu (hard p1) - cpu (used p1)));
    destruct (Z.ltb_spec (cpu (dHard d)) (cpu (hard p2) - cpu (used p2))); lia.
  - unfold pushCtx. cbn -[merge1 sat_sub]. rewrite R2.
    rewrite merge1_pos_cases by lia.
    destruct ((0 <? cpu (dHard d)) && (cpu (dHard d) <? cpu (hard p2) - cpu (used p2))) eqn:E; [|lia].
    apply andb_true_iff in E. destruct E as [_ E]. apply Z.ltb_lt in E. lia.
  - unfold pushCtx, sum_cpu in *. cbn -[merge1 sat_sub] in *. rewrite R1, R2.
    rewrite !merge1_pos_cases by lia.
    destruct (0 <? cpu (dHard d)) eqn:E0; cbn [andb].
    + destruct (Z.ltb_spec (cpu (dHard d)) (cpu (hard p1) - cpu (used p1)));
      destruct (Z.ltb_spec (cpu (dHard d)) (cpu (hard p2) - cpu (used p2))); try lia;
      destruct Hrel as [Hrel|Hrel]; first [left; lia | right; lia].
    + destruct Hrel as [Hrel|Hrel]; [left; lia|right; lia].
Qed.

(* ---------- PopContext: the explicit form of the charged parent ---------- *)

Definition charged (p c : ctx) : ctx :=
  set_used p (mkRes (if trackCpu p then u64 (cpu (used p) + cpu (used c)) else cpu (used p))
                    (if trackMem p then u64 (mem (used p) + mem (used c)) else mem (used p))
                    (ms (used p))).

Lemma set_used_eta c : set_used c (used c) = c.
Proof. destruct c; reflexivity. Qed.

Lemma requireCPU_only_used a c c' :
  trackTime c = false -> requireCPU 0 a c = ROk c' ->
  c' = set_used c (used c') /\ ms (used c') = ms (used c) /\ mem (used c') = mem (used c).
Proof.
  intros Ht. unfold requireCPU. rewrite Ht. cbn [andb].
  destruct (negb (trackCpu c)); [intros H; inversion H; subst; rewrite set_used_eta; auto|].
  destruct (hard_stop c && live c); [discriminate|].
  destruct (atLimit _ _ && live c); [discriminate|].
  intros H; inversion H; subst; cbn. auto.
Qed.

Lemma requireMem_only_used a c c' :
  requireMem a c = ROk c' ->
  c' = set_used c (used c') /\ ms (used c') = ms (used c) /\ cpu (used c') = cpu (used c).
Proof.
  unfold requireMem.
  destruct (negb (trackMem c)); [intros H; inversion H; subst; rewrite set_used_eta; auto|].
  destruct (hard_stop c && live c); [discriminate|].
  destruct (atLimit _ _ && live c); [discriminate|].
  intros H; inversion H; subst; cbn. auto.
Qed.

Lemma pop_explicit c p rest :
  Inv (mkMgr c (p :: rest)) -> within c -> calm_ctx p ->
  pop 0 (mkMgr c (p :: rest)) = MOk (mkMgr (charged p c) rest) (Some (if live c then set_st c Done else c)).
Proof.
  intros HI Hw Hcalm. pose proof Hcalm as (Hl & Hs & Ht & _).
  destruct (pop_charges_parent_gen 0 c p rest HI Hw Hl Hs Ht) as (p' & E & Hl' & Hf & Ecpu & Emem & _).
  rewrite E. f_equal. f_equal.
  assert (Hp' : p' = set_used p (used p') /\ ms (used p') = ms (used p)).
  { revert E. unfold pop. cbn [cur parents].
    destruct (requireMem (mem (used c)) p) as [p1| |] eqn:R1; try discriminate.
    destruct (requireMem_only_used _ _ _ R1) as (A1 & A2 & A3).
    assert (Ht1 : trackTime p1 = false) by (rewrite A1; cbn; exact Ht).
    destruct (requireCPU 0 (cpu (used c)) p1) as [p2| |] eqn:R2; try discriminate.
    destruct (requireCPU_only_used _ _ _ Ht1 R2) as (B1 & B2 & B3).
    assert (Ht2 : trackTime p2 = false).
    { rewrite B1, A1. cbn. exact Ht. }
    rewrite Ht2. intros H; inversion H; subst p'.
    split; [|congruence]. rewrite B1 at 1. rewrite A1. cbn. reflexivity. }
  destruct Hp' as [Hp' Hms]. rewrite Hp'. unfold charged. f_equal.
  destruct (used p') as [a b c0] eqn:Eu. cbn in *. subst. reflexivity.
Qed.

End TwoRuns.

(* ---------- a packaged description of one CallContext in a calm state ---------- *)

Definition after_body (r : result) (err : bool) (c : ctx) : ctx :=
  match r with Normal => if err then set_st c Err else c | _ => c end.

Lemma set_st_evolves c s : ctx_ok c -> s <> Live -> evolves c (set_st c s).
Proof.
  intros [A1 A2 A3 A4 A5 A6 A7 A8 A9 A10] Hs.
  constructor; cbn; auto; try (intros; congruence). unfold same_frame; cbn; intuition.
Qed.

Lemma call_unfold d body err m :
  Inv m -> calm m -> def_ok d -> notime d -> acts_ok body ->
  exists m1, push 0 d m = MOk m1 None /\ Inv m1 /\ calm m1 /\
    parents m1 = cur m :: parents m /\ cur m1 = pushCtx 0 d (cur m) /\
    let '(m2, r) := exec m1 body in
    let c3 := after_body r err (cur m2) in
    Inv m2 /\ parents m2 = cur m :: parents m /\ post r m2 /\ within c3 /\
    Inv (mkMgr c3 (cur m :: parents m)) /\ cpu (used c3) = cpu (used (cur m2)) /\
    exec_act m (ACall d body err) =
      (mkMgr (charged (cur m) c3) (parents m),
       match r with Panicked => Panicked | _ => Normal end,
       Some (if live c3 then set_st c3 Done else c3)).
Proof.
  intros HI Hcalm Hd Hnt Hbody.
  destruct (calm_push d m HI Hcalm Hd Hnt) as (m1 & Epush & HI1 & Hcalm1 & Hp1).
  exists m1. split; [exact Epush|]. split; [exact HI1|]. split; [exact Hcalm1|]. split; [exact Hp1|].
  assert (Ecur : cur m1 = pushCtx 0 d (cur m)).
  { revert Epush. unfold push. destruct Hcalm as ((_ & _ & Ht & _) & _). rewrite Ht.
    intros H; inversion H; reflexivity. }
  split; [exact Ecur|].
  pose proof (proj2 exec_balanced_both body m1 HI1 Hcalm1 Hbody) as IH.
  cbn [exec_act]. rewrite Epush.
  destruct (exec m1 body) as [m2 r].
  destruct IH as (HI2 & Hp2 & Hf2 & Hpost). rewrite Hp1 in Hp2.
  set (c3 := after_body r err (cur m2)).
  assert (H3 : within c3 /\ Inv (mkMgr c3 (cur m :: parents m)) /\ cpu (used c3) = cpu (used (cur m2))).
  { assert (Hbase : Inv (mkMgr (cur m2) (cur m :: parents m))).
    { destruct m2 as [c2 ps2]. cbn in *. subst ps2. exact HI2. }
    assert (Hw : forall c, evolves (cur m2) c -> used c = used (cur m2) -> within (cur m2) ->
                 within c /\ Inv (mkMgr c (cur m :: parents m)) /\ cpu (used c) = cpu (used (cur m2))).
    { intros c E Eu Hwc. pose proof (ev_frame _ _ E) as (h & _). split; [|split].
      - unfold within. rewrite h, Eu. exact Hwc.
      - destruct Hbase as (A & B & C). cbn [cur parents] in *.
        split; [eapply evolves_ok; eauto|]. split; [exact B|].
        cbn [cur parents]. exact (chain_child_evolves _ _ _ E C).
      - rewrite Eu. reflexivity. }
    subst c3. unfold after_body. destruct r; cbn in Hpost.
    - pose proof (live_within _ (proj1 HI2) (proj1 Hpost)) as W.
      destruct err.
      + apply Hw; [apply set_st_evolves; [apply HI2|discriminate]|reflexivity|exact W].
      + apply Hw; [apply evolves_refl; apply HI2|reflexivity|exact W].
    - apply Hw; [apply evolves_refl; apply HI2|reflexivity|apply Hpost].
    - pose proof (live_within _ (proj1 HI2) (proj1 Hpost)) as W.
      apply Hw; [apply evolves_refl; apply HI2|reflexivity|exact W]. }
  destruct H3 as (Hw3 & HI3 & Eu3).
  split; [exact HI2|]. split; [exact Hp2|]. split; [exact Hpost|]. split; [exact Hw3|].
  split; [exact HI3|]. split; [exact Eu3|].
  assert (Em3 : (match r with Normal => if err then set_cur_st m2 Err else m2 | _ => m2 end) = mkMgr c3 (cur m :: parents m)).
  { subst c3. unfold after_body, set_cur_st. destruct m2 as [c2 ps2]. cbn in *. subst ps2.
    destruct r; [destruct err|..]; reflexivity. }
  rewrite Em3. rewrite (pop_explicit c3 (cur m) (parents m) HI3 Hw3 (proj1 Hcalm)).
  reflexivity.
Qed.

(* ---------- total consumption never decreases along an execution ---------- *)

Lemma sum_cpu_cons c l : sum_cpu (c :: l) = cpu (used c) + sum_cpu l.
Proof. reflexivity. Qed.

Lemma charged_cpu p c :
  ctx_ok p -> 0 < cpu (hard p) < SMALL -> 0 <= cpu (used c) -> cpu (used p) + cpu (used c) < cpu (hard p) ->
  cpu (used (charged p c)) = cpu (used p) + cpu (used c).
Proof.
  intros Hp Hh Hc Hs. unfold charged. cbn. rewrite (ok_tc _ Hp (proj1 Hh)).
  destruct (ok_used _ Hp) as ((a & b) & _). apply u64_small_sum; lia.
Qed.

(* in a calm invariant state the child's use fits in what the parent has left *)
Lemma child_fits c p rest :
  Inv (mkMgr c (p :: rest)) -> within c -> st p = Live -> 0 < cpu (hard p) ->
  0 <= cpu (used c) /\ cpu (used p) + cpu (used c) < cpu (hard p).
Proof.
  intros (Hc & Hps & Hch) [Wc _] Hl Hh. cbn in *. destruct Hch as [Hlk _].
  destruct (lk_cpu _ _ Hlk Hl Hh) as [L1' L2']. specialize (Wc L1').
  destruct (ok_used _ Hc) as ((a & b) & _). lia.
Qed.

Definition Pmono_act (a : act) : Prop :=
  forall m, Inv m -> calm m -> lim_top m -> act_ok2 a ->
  tot m <= tot (fst (fst (exec_act m a))).
Definition Pmono_acts (l : acts) : Prop :=
  forall m, Inv m -> calm m -> lim_top m -> acts_ok2 l ->
  tot m <= tot (fst (exec m l)).

Lemma lim_top_frame m m' : same_frame (cur m) (cur m') -> lim_top m -> lim_top m'.
Proof. intros (h & _) H. unfold lim_top in *. rewrite h. exact H. Qed.

Lemma push_lim_top d m :
  Inv m -> calm m -> lim_top m -> def_ok d -> lim_top (mkMgr (pushCtx 0 d (cur m)) (cur m :: parents m)).
Proof.
  intros HI Hcalm Hlt Hd. destruct (pushCtx_ok 0 d (cur m) (proj1 HI) Hd) as [_ Hl].
  destruct (lk_cpu _ _ Hl (proj1 (proj1 Hcalm)) (proj1 Hlt)) as [A B].
  destruct (ok_used _ (proj1 HI)) as ((a & b) & _).
  unfold lim_top in *. cbn [cur]. lia.
Qed.

Theorem tot_mono : (forall a, Pmono_act a) /\ (forall l, Pmono_acts l).
Proof.
  apply act_acts_ind.
  - intros o m HI Hcalm Hlt Hok. cbn [exec_act].
    destruct o as [d| |a|a|a|l]; cbn in Hok; try contradiction; cbn [step].
    + (* OCpu *)
      unfold lift. pose proof (proj1 HI) as Hc. destruct Hcalm as ((Hl & Hs & Ht & _) & _).
      unfold requireCPU. rewrite (ok_tc _ Hc (proj1 Hlt)), Hs, Ht. cbn [negb andb].
      destruct (ok_used _ Hc) as ((u1 & u2) & _).
      pose proof (ok_cpu _ Hc Hl (proj1 Hlt)) as Hu.
      rewrite u64_small_sum by (unfold lim_top in Hlt; lia).
      destruct (atLimit _ _ && live (cur m)); cbn; unfold tot, sum_cpu; cbn; lia.
    + unfold lift. destruct (requireMem a (cur m)) as [c'|c' t|c'] eqn:E; cbn.
      * destruct (requireMem_only_used _ _ _ E) as (_ & _ & Eq). unfold tot, sum_cpu; cbn; lia.
      * assert (cpu (used c') = cpu (used (cur m))).
        { revert E. unfold requireMem. destruct (negb _); [discriminate|].
          destruct (hard_stop _ && _); [intros H; inversion H; reflexivity|].
          destruct (atLimit _ _ && _); [intros H; inversion H; reflexivity|discriminate]. }
        unfold tot, sum_cpu; cbn; lia.
      * exfalso. eapply requireMem_nopanic; eauto.
    + unfold lift, releaseMem. destruct (0 <? mem (hard (cur m))); [destruct (a <=? _)|]; cbn; unfold tot, sum_cpu; cbn; lia.
  - intros d body IH err m HI Hcalm Hlt (Hd & Hnt & Hbody).
    destruct (call_unfold d body err m HI Hcalm Hd Hnt (proj2 act_ok2_ok body Hbody))
      as (m1 & Epush & HI1 & Hcalm1 & Hp1 & Ecur & Hrest).
    assert (Hlt1 : lim_top m1).
    { destruct m1 as [c1 ps1]. cbn in *. subst. apply push_lim_top; assumption. }
    specialize (IH m1 HI1 Hcalm1 Hlt1 Hbody).
    destruct (exec m1 body) as [m2 r]. cbn [fst] in IH.
    destruct Hrest as (HI2 & Hp2 & Hpost & Hw3 & HI3 & Eu3 & ->). cbn [fst].
    assert (T1 : tot m1 = tot m).
    { unfold tot. rewrite Hp1, Ecur. rewrite sum_cpu_cons. cbn. lia. }
    destruct (child_fits _ _ _ HI3 Hw3 (proj1 (proj1 Hcalm)) (proj1 Hlt)) as [F1 F2].
    unfold tot in *. cbn [cur parents]. rewrite !sum_cpu_cons.
    rewrite (charged_cpu _ _ (proj1 HI) Hlt F1 F2).
    rewrite Hp2, !sum_cpu_cons in IH. rewrite Eu3. rewrite sum_cpu_cons in T1. lia.
  - intros m _ _ _ _. cbn. lia.
  - intros a IHa rest IHr m HI Hcalm Hlt (Ha & Hrest). cbn [exec].
    specialize (IHa m HI Hcalm Hlt Ha).
    pose proof (proj1 exec_balanced_both a m HI Hcalm (proj1 act_ok2_ok a Ha)) as B.
    destruct (exec_act m a) as [[m' r] co]. cbn [fst] in *.
    destruct B as (HI' & Hp' & Hf' & Hpost').
    destruct r; cbn [fst]; try exact IHa.
    assert (Hcalm' : calm m') by (split; [exact Hpost'|rewrite Hp'; apply Hcalm]).
    specialize (IHr m' HI' Hcalm' (lim_top_frame _ _ Hf' Hlt) Hrest).
    destruct (exec m' rest) as [m'' r'']. cbn [fst] in *. lia.
Qed.

(* ---------- the simulation between the two runs ---------- *)

Definition corel (o1 o2 : option ctx) : Prop :=
  match o1, o2 with
  | None, None => True
  | Some c1, Some c2 => st c1 = st c2 /\ used c1 = used c2
  | _, _ => False
  end.

Lemma lvl_used L1 c1 c2 S : lvl L1 c1 c2 S -> used c1 = used c2 /\ st c1 = st c2.
Proof. intros [->|(Hs & _)]; [auto|]. split; [apply (s_used _ _ Hs)|apply (s_st _ _ Hs)]. Qed.

Lemma lvl_set_st L1 c1 c2 S s : lvl L1 c1 c2 S -> lvl L1 (set_st c1 s) (set_st c2 s) S.
Proof.
  intros [->|(Hs & Hh & Hsm & Hrel)]; [left; reflexivity|].
  right. split; [destruct Hs; constructor; cbn; auto|]. cbn. auto.
Qed.

Lemma lvl_after_body L1 r err c1 c2 S :
  lvl L1 c1 c2 S -> lvl L1 (after_body r err c1) (after_body r err c2) S.
Proof. intros H. unfold after_body. destruct r; [destruct err|..]; auto using lvl_set_st. Qed.

Lemma charged_lvl L1 p1 p2 c1 c2 t1 :
  ctx_ok p1 -> ctx_ok p2 ->
  used c1 = used c2 ->
  (0 < cpu (hard p1) -> 0 <= cpu (used c1) /\ cpu (used p1) + cpu (used c1) < cpu (hard p1)) ->
  lvl L1 p1 p2 (sum_cpu (p1 :: t1)) ->
  lvl L1 (charged p1 c1) (charged p2 c2) (sum_cpu (c1 :: p1 :: t1)).
Proof.
  intros Hp1 Hp2 Eu Hfit [->|(Hs & (Hh1 & Hh12) & Hsm & Hrel)].
  - left. unfold charged. rewrite Eu. reflexivity.
  - destruct Hs as [su sst sfl sstop stm stt shm sht ssm sst' sstart sthr siso].
    assert (Hh2 : 0 < cpu (hard p2)) by lia.
    destruct (Hfit Hh1) as [F1 F2].
    right. split; [|cbn; split; [lia|split; [exact Hsm|]]].
    + unfold charged. constructor; cbn; auto.
      rewrite (ok_tc _ Hp1 Hh1), (ok_tc _ Hp2 Hh2), stm, su, Eu. reflexivity.
    + destruct Hrel as [Hrel|Hrel]; [left; exact Hrel|right].
      rewrite (ok_tc _ Hp1 Hh1).
      destruct (ok_used _ Hp1) as ((a & b) & _).
      rewrite u64_small_sum by lia.
      unfold sum_cpu in *. cbn in *. lia.
Qed.

Definition Psim_act (L1 : Z) (a : act) : Prop :=
  forall m1 m2, Inv m1 -> Inv m2 -> calm m1 -> calm m2 -> lim_top m2 -> JM L1 m1 m2 -> act_ok2 a ->
  let '(m2', r2, co2) := exec_act m2 a in
  tot m2' < L1 ->
  let '(m1', r1, co1) := exec_act m1 a in
  r1 = r2 /\ JM L1 m1' m2' /\ corel co1 co2.

Definition Psim_acts (L1 : Z) (l : acts) : Prop :=
  forall m1 m2, Inv m1 -> Inv m2 -> calm m1 -> calm m2 -> lim_top m2 -> JM L1 m1 m2 -> acts_ok2 l ->
  let '(m2', r2) := exec m2 l in
  tot m2' < L1 ->
  let '(m1', r1) := exec m1 l in
  r1 = r2 /\ JM L1 m1' m2'.

Theorem sim_both L1 : (forall a, Psim_act L1 a) /\ (forall l, Psim_acts L1 l).
Proof.
  apply act_acts_ind.
  - (* AOp *)
    intros o m1 m2 HI1 HI2 Hc1 Hc2 Hlt HJ Hok. cbn [exec_act].
    destruct HJ as [Hl HJt]. cbn [cur parents] in *.
    assert (Esum : sum_cpu (parents m1) = sum_cpu (parents m2)) by (apply (J_sum L1); exact HJt).
    destruct o as [d| |a|a|a|l]; cbn in Hok; try contradiction; cbn [step]; unfold lift.
    + pose proof (requireCPU_sim L1 _ _ (parents m1) a (proj1 HI1) (proj1 HI2) (proj1 Hc1) (proj1 Hc2) Hok Hl) as R.
      destruct (requireCPU 0 a (cur m2)) as [c2'|c2' t2|c2']; [| |contradiction].
      * intros Htot. unfold tot in Htot. cbn [cur parents] in Htot.
        rewrite sum_cpu_cons, <- Esum, <- sum_cpu_cons in Htot.
        destruct (R Htot) as (c1' & -> & Hl'). split; [reflexivity|]. split; [|exact I].
        split; [exact Hl'|exact HJt].
      * intros _. destruct R as (c1' & t & -> & Hl'). split; [reflexivity|]. split; [|exact I].
        split; [exact Hl'|exact HJt].
    + pose proof (requireMem_sim L1 _ _ _ a Hl) as R.
      destruct (requireMem a (cur m2)) as [c2'|c2' t2|c2']; [| |contradiction]; intros _.
      * destruct R as (c1' & -> & Hl' & E2 & E1). split; [reflexivity|]. split; [|exact I].
        split; [|exact HJt]. cbn [cur parents]. rewrite sum_cpu_cons, E1, <- sum_cpu_cons. exact Hl'.
      * destruct R as (c1' & t & -> & Hl' & E2 & E1). split; [reflexivity|]. split; [|exact I].
        split; [|exact HJt]. cbn [cur parents]. rewrite sum_cpu_cons, E1, <- sum_cpu_cons. exact Hl'.
    + pose proof (releaseMem_sim L1 _ _ _ a Hl) as R.
      destruct (releaseMem a (cur m2)) as [c2'|c2' t2|c2']; [|contradiction|contradiction]; intros _.
      destruct R as (c1' & -> & Hl' & E2 & E1). split; [reflexivity|]. split; [|exact I].
      split; [|exact HJt]. cbn [cur parents]. rewrite sum_cpu_cons, E1, <- sum_cpu_cons. exact Hl'.
  - (* ACall *)
    intros d body IH err m1 m2 HI1 HI2 Hc1 Hc2 Hlt HJ (Hd & Hnt & Hbody).
    pose proof (proj2 act_ok2_ok body Hbody) as Hbody'.
    destruct (call_unfold d body err m1 HI1 Hc1 Hd Hnt Hbody') as (n1 & Ep1 & HIn1 & Hcn1 & Hpn1 & Ecn1 & Hrest1).
    destruct (call_unfold d body err m2 HI2 Hc2 Hd Hnt Hbody') as (n2 & Ep2 & HIn2 & Hcn2 & Hpn2 & Ecn2 & Hrest2).
    assert (Hltn2 : lim_top n2).
    { destruct n2 as [c ps]. cbn in *. subst. apply push_lim_top; assumption. }
    assert (HJn : JM L1 n1 n2).
    { unfold JM. rewrite Hpn1, Hpn2, Ecn1, Ecn2. destruct HJ as [Hl HJt].
      split; [|split; [exact Hl|exact HJt]].
      apply pushCtx_sim; [apply HI1|apply HI2|apply Hc1|apply Hc2|exact Hl]. }
    specialize (IH n1 n2 HIn1 HIn2 Hcn1 Hcn2 Hltn2 HJn Hbody).
    pose proof (proj2 tot_mono body n2 HIn2 Hcn2 Hltn2 Hbody) as Hmono.
    destruct (exec n2 body) as [k2 r2]. cbn [fst] in Hmono.
    destruct Hrest2 as (HIk2 & Hpk2 & Hpost2 & Hw2 & HI32 & Eu2 & ->).
    (* the total after the pop is the total after the body *)
    destruct (child_fits _ _ _ HI32 Hw2 (proj1 (proj1 Hc2)) (proj1 Hlt)) as [F1 F2].
    assert (Etot : tot (mkMgr (charged (cur m2) (after_body r2 err (cur k2))) (parents m2)) = tot k2).
    { unfold tot. cbn [cur parents]. rewrite Hpk2, !sum_cpu_cons.
      rewrite (charged_cpu _ _ (proj1 HI2) Hlt F1 F2). rewrite Eu2. lia. }
    intros Htot. rewrite Etot in Htot. specialize (IH Htot).
    destruct (exec n1 body) as [k1 r1].
    destruct IH as (-> & HJk).
    destruct Hrest1 as (HIk1 & Hpk1 & Hpost1 & Hw1 & HI31 & Eu1 & ->).
    unfold JM in HJk. rewrite Hpk1, Hpk2 in HJk. destruct HJk as (Hlc & Hlp & HJt).
    pose proof (lvl_after_body L1 r2 err _ _ _ Hlc) as Hlc3.
    destruct (lvl_used _ _ _ _ Hlc3) as [Eu3 Est3].
    split; [reflexivity|]. split.
    + unfold JM. cbn [cur parents]. split; [|exact HJt].
      assert (Hsum : sum_cpu (charged (cur m1) (after_body r2 err (cur k1)) :: parents m1) =
                     sum_cpu (after_body r2 err (cur k1) :: cur m1 :: parents m1) \/
                     True) by (right; exact I).
      (* the level S of the charged parent is the sum with the child's use included *)
      assert (Hl' : lvl L1 (charged (cur m1) (after_body r2 err (cur k1)))
                        (charged (cur m2) (after_body r2 err (cur k2)))
                        (sum_cpu (after_body r2 err (cur k1) :: cur m1 :: parents m1))).
      { apply charged_lvl; [apply HI1|apply HI2|exact Eu3| |exact Hlp].
        intros Hh. apply (child_fits _ _ _ HI31 Hw1 (proj1 (proj1 Hc1)) Hh). }
      destruct Hl' as [Eq|(Hs & Hh & Hsm & Hrel)]; [left; exact Eq|].
      right. split; [exact Hs|]. split; [exact Hh|]. split; [exact Hsm|].
      destruct Hrel as [Hrel|Hrel]; [left; exact Hrel|right].
      rewrite Hrel. f_equal.
      (* sums agree because charging adds exactly the child's use *)
      cbn [hard charged set_used] in Hh.
      destruct (child_fits _ _ _ HI31 Hw1 (proj1 (proj1 Hc1)) (proj1 Hh)) as [G1 G2].
      assert (Hsm1 : 0 < cpu (hard (cur m1)) < SMALL) by (cbn [hard charged set_used] in Hsm; lia).
      rewrite !sum_cpu_cons. rewrite (charged_cpu _ _ (proj1 HI1) Hsm1 G1 G2). lia.
    + cbn. unfold live. rewrite Est3. destruct (status_eqb _ _); cbn; auto.
  - (* ANil *)
    intros m1 m2 _ _ _ _ _ HJ _. cbn. intros _. split; [reflexivity|exact HJ].
  - (* ACons *)
    intros a IHa rest IHr m1 m2 HI1 HI2 Hc1 Hc2 Hlt HJ (Ha & Hrest). cbn [exec].
    specialize (IHa m1 m2 HI1 HI2 Hc1 Hc2 Hlt HJ Ha).
    pose proof (proj1 exec_balanced_both a m2 HI2 Hc2 (proj1 act_ok2_ok a Ha)) as B2.
    pose proof (proj1 exec_balanced_both a m1 HI1 Hc1 (proj1 act_ok2_ok a Ha)) as B1.
    destruct (exec_act m2 a) as [[k2 r2] co2].
    destruct B2 as (HIk2 & Hpk2 & Hfk2 & Hpost2).
    destruct r2.
    + (* the first action ended normally: continue *)
      assert (Hck2 : calm k2) by (split; [exact Hpost2|rewrite Hpk2; apply Hc2]).
      pose proof (lim_top_frame _ _ Hfk2 Hlt) as Hltk2.
      pose proof (proj2 tot_mono rest k2 HIk2 Hck2 Hltk2 Hrest) as Hmono.
      destruct (exec k2 rest) as [k2' r2'] eqn:E2. cbn [fst] in Hmono.
      intros Htot. assert (Htot1 : tot k2 < L1) by lia. specialize (IHa Htot1).
      destruct (exec_act m1 a) as [[k1 r1] co1].
      destruct IHa as (-> & HJk & _).
      destruct B1 as (HIk1 & Hpk1 & Hfk1 & Hpost1).
      assert (Hck1 : calm k1) by (split; [exact Hpost1|rewrite Hpk1; apply Hc1]).
      specialize (IHr k1 k2 HIk1 HIk2 Hck1 Hck2 Hltk2 HJk Hrest). rewrite E2 in IHr.
      exact (IHr Htot).
    + intros Htot. specialize (IHa Htot).
      destruct (exec_act m1 a) as [[k1 r1] co1]. destruct IHa as (-> & HJk & _). auto.
    + intros Htot. specialize (IHa Htot).
      destruct (exec_act m1 a) as [[k1 r1] co1]. destruct IHa as (-> & HJk & _). auto.
Qed.

(* ---------- top-level statements ---------- *)

(* a fresh runtime with one context limited to L cpu units on top of the root *)
Definition limited (L : Z) : mgr :=
  mkMgr (pushCtx 0 (mkDef (mkRes L 0 0) res0 0%N false) root) [root].

Lemma limited_ok L : 0 < L < SMALL -> Inv (limited L) /\ calm (limited L) /\ lim_top (limited L).
Proof.
  intros HL.
  assert (Hd : def_ok (mkDef (mkRes L 0 0) res0 0%N false)).
  { unfold def_ok, res_inr, inr, W, SMALL in *; cbn; lia. }
  pose proof (inv_step 0 init (OPush (mkDef (mkRes L 0 0) res0 0%N false)) inv_init Hd) as HI.
  cbn in HI. split; [exact HI|].
  assert (Hm : merge1 0 L = L).
  { unfold merge1, smallerLimit. destruct (Z.ltb_spec 0 L); [|lia]. reflexivity. }
  split.
  - split; [|constructor; [|constructor]]; unfold calm_ctx, hard_stop; cbn; auto.
  - unfold lim_top, limited. cbn -[merge1]. change (sat_sub 0 0) with 0. rewrite Hm. exact HL.
Qed.

Lemma limited_JM L1 L2 : 0 < L1 <= L2 -> L2 < SMALL -> JM L1 (limited L1) (limited L2).
Proof.
  intros H1 H2.
  assert (Hm : forall L, 0 < L -> merge1 0 L = L).
  { intros L HL. unfold merge1, smallerLimit. destruct (Z.ltb_spec 0 L); [|lia]. reflexivity. }
  unfold JM, limited. cbn [cur parents J]. split; [|split; [left; reflexivity|exact I]].
  right. split; [|split; [|split]].
  - constructor; cbn; auto.
    all: destruct (Z.ltb_spec 0 L1); destruct (Z.ltb_spec 0 L2); try lia; reflexivity.
  - cbn -[merge1]. change (sat_sub 0 0) with 0. rewrite !Hm by lia. lia.
  - cbn -[merge1]. change (sat_sub 0 0) with 0. rewrite !Hm by lia. lia.
  - right. cbn -[merge1]. change (sat_sub 0 0) with 0. rewrite !Hm by lia. unfold sum_cpu. cbn. lia.
Qed.

(* MAIN THEOREM.  Run the same abstract program under limits L1 <= L2.  If
   under L2 it hands control back (in whatever way) having used less than L1
   in total, then under L1 it hands control back in the same way, with the
   same usage and status — and (by the simulation it is proved with) every
   nested call returned the same context status and usage.  Hence: a limit
   above the usage never changes behaviour; CPU accounting does not depend on
   the limit; "not killed" is monotone in the limit. *)
Theorem limit_above_usage_same_behaviour L1 L2 l :
  0 < L1 <= L2 -> L2 < SMALL -> acts_ok2 l ->
  let '(m2', r2) := exec (limited L2) l in
  cpu (used (cur m2')) < L1 ->
  let '(m1', r1) := exec (limited L1) l in
  r1 = r2 /\ used (cur m1') = used (cur m2') /\ st (cur m1') = st (cur m2').
Proof.
  intros H1 H2 Hl.
  destruct (limited_ok L1) as (I1 & C1 & _); [lia|].
  destruct (limited_ok L2) as (I2 & C2 & T2); [lia|].
  pose proof (proj2 (sim_both L1) l _ _ I1 I2 C1 C2 T2 (limited_JM L1 L2 H1 H2) Hl) as S.
  pose proof (proj2 exec_balanced_both l _ I2 C2 (proj2 act_ok2_ok l Hl)) as B2.
  destruct (exec (limited L2) l) as [m2' r2].
  destruct B2 as (_ & Hp2 & _ & _).
  intros Hu.
  assert (Htot : tot m2' < L1).
  { unfold tot. rewrite Hp2. unfold limited, sum_cpu. cbn. lia. }
  specialize (S Htot).
  destruct (exec (limited L1) l) as [m1' r1].
  destruct S as (-> & (Hl' & _)). cbn [cur parents] in Hl'.
  split; [reflexivity|]. apply (lvl_used _ _ _ _ Hl').
Qed.

(* Flat programs (no nested context): killed exactly when the limit does not
   exceed the usage. *)
Fixpoint flat (xs : list Z) : acts :=
  match xs with [] => ANil | x :: xs' => ACons (AOp (OCpu x)) (flat xs') end.
Definition usage (xs : list Z) : Z := fold_right Z.add 0 xs.

Lemma flat_exec_from L u xs c :
  0 < L < SMALL -> 0 <= u -> Forall (fun x => 0 <= x) xs -> u + usage xs < SMALL ->
  hard c = mkRes L 0 0 -> cpu (used c) = u -> st c = Live -> hard_stop c = false ->
  trackTime c = false -> trackCpu c = true -> u < L ->
  forall ps,
  let '(m', r) := exec (mkMgr c ps) (flat xs) in
  (r = Terminated <-> L <= u + usage xs) /\
  (u + usage xs < L -> r = Normal /\ cpu (used (cur m')) = u + usage xs /\ st (cur m') = Live) /\
  (r = Terminated -> cpu (used (cur m')) < L /\ st (cur m') = Killed).
Proof.
  intros HL. revert u c. induction xs as [|x xs IH]; intros u c Hu Hxs Hsmall Hh Hused Hst Hhs Htt Htc HuL ps.
  - cbn. unfold usage. cbn. split; [split; [discriminate|lia]|]. split; [intros _; repeat split; auto; lia|discriminate].
  - revert Hused. inversion Hxs as [|? ? Hx Hxs']; subst. intros Hused. cbn [flat exec exec_act step]. unfold lift.
    unfold usage in *. cbn [fold_right] in *.
    assert (Hxx : 0 <= fold_right Z.add 0 xs).
    { clear -Hxs'. induction Hxs'; cbn; lia. }
    cbn [cur parents]. unfold requireCPU. rewrite Htc, Hhs, Htt. cbn [negb andb].
    rewrite Hh. cbn [cpu].
    rewrite (u64_small_sum (cpu (used c)) x) by (rewrite ?Hused; unfold SMALL in *; lia).
    assert (Lv : live c = true) by (apply live_true; exact Hst). rewrite Lv, andb_true_r.
    destruct (atLimit (cpu (used c) + x) L) eqn:A.
    + apply atLimit_true in A. rewrite Hused in A. cbn.
      split; [split; [lia|reflexivity]|]. split; [lia|]. intros _. rewrite Hused. split; [lia|reflexivity].
    + apply atLimit_false in A. rewrite Hused in A.
      specialize (IH (u + x) (set_cpu c (u + x))).
      rewrite Hused.
      specialize (IH ltac:(lia) Hxs' ltac:(lia) Hh eq_refl Hst Hhs Htt Htc ltac:(lia) ps).
      cbn [mres_mgr]. destruct (exec _ (flat xs)) as [m' r].
      destruct IH as (A1 & A2 & A3).
      rewrite <- Z.add_assoc in A1, A2.
      split; [rewrite A1; lia|]. split; [intros H; apply A2; lia|exact A3].
Qed.

Lemma limited_fields L : 0 < L ->
  hard (cur (limited L)) = mkRes L 0 0 /\ cpu (used (cur (limited L))) = 0 /\
  st (cur (limited L)) = Live /\ hard_stop (cur (limited L)) = false /\
  trackTime (cur (limited L)) = false /\ trackCpu (cur (limited L)) = true.
Proof.
  intros HL.
  assert (Hm : merge1 0 L = L).
  { unfold merge1, smallerLimit. destruct (Z.ltb_spec 0 L); [|lia]. reflexivity. }
  unfold limited, pushCtx. cbn -[merge1].
  change (sat_sub 0 0) with 0. rewrite Hm. change (merge1 0 0) with 0.
  destruct (Z.ltb_spec 0 L); [|lia]. cbn.
  split; [|auto]. unfold merge, remove. cbn -[merge1]. change (sat_sub 0 0) with 0.
  rewrite Hm. reflexivity.
Qed.

Theorem flat_kill_exact L xs :
  0 < L < SMALL -> Forall (fun x => 0 <= x) xs -> usage xs < SMALL ->
  let '(m', r) := exec (limited L) (flat xs) in
  (r = Terminated <-> L <= usage xs) /\
  (usage xs < L -> r = Normal /\ cpu (used (cur m')) = usage xs /\ st (cur m') = Live) /\
  (r = Terminated -> cpu (used (cur m')) < L /\ st (cur m') = Killed).
Proof.
  intros HL Hxs Hs.
  destruct (limited_fields L (proj1 HL)) as (F1 & F2 & F3 & F4 & F5 & F6).
  pose proof (flat_exec_from L 0 xs (cur (limited L)) HL ltac:(lia) Hxs ltac:(lia)
                F1 F2 F3 F4 F5 F6 ltac:(lia) (parents (limited L))) as H.
  replace (mkMgr (cur (limited L)) (parents (limited L))) with (limited L) in H by reflexivity.
  replace (0 + usage xs) with (usage xs) in H by lia. exact H.
Qed.

(* With a nested boundary the converse fails on the model exactly as on the
   code: a request larger than what is left is refused inside the nested
   context, which is killed and popped, and the outer context carries on. *)
Definition intercept_witness : acts :=
  ACons (AOp (OCpu 10))
  (ACons (ACall (mkDef res0 res0 0%N false) (ACons (AOp (OCpu 1000)) ANil) false)
  (ACons (AOp (OCpu 5)) ANil)).

Lemma nested_kill_is_intercepted_refuted :
  (* unlimited-enough run: usage 1015 *)
  (let '(m, r) := exec (limited 100000) intercept_witness in r = Normal /\ cpu (used (cur m)) = 1015) /\
  (* under L = 100 <= 1015 the context is NOT killed: it ends normally having used 15 *)
  (let '(m, r) := exec (limited 100) intercept_witness in r = Normal /\ cpu (used (cur m)) = 15 /\ st (cur m) = Live).
Proof. vm_compute. repeat split. Qed.

Example main_theorem_applies :
  acts_ok2 intercept_witness /\
  (let '(m, r) := exec (limited 100000) intercept_witness in cpu (used (cur m)) < 2000).
Proof. split; [cbn; unfold def_ok, notime, res_inr, inr, W, SMALL; cbn; repeat split; lia|vm_compute; reflexivity]. Qed.
