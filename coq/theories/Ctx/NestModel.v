(* Ctx/NestModel.v — the control skeleton around the context manager:
   Thread.CallContext (runtime/thread.go), which pcall/xpcall (lib/base/pcall.go)
   and runtime.callcontext (lib/runtimelib) are built on.

     CallContext def f =
       PushContext def
       defer { ctx = PopContext(); if r := recover(); r != nil {
                 truncate close stack; if r is not a termination: re-panic; err = r } }
       err = cleanup (f ())
       if err != nil { setStatus(StatusError) }

   A computation is abstracted to the stream of requests it makes to the
   manager ("abstract program"): leaves are manager operations, nodes are
   nested CallContext calls.  [err] says whether f returned a Lua error. *)
From Coq Require Import ZArith List Bool.
From GV Require Import Ctx.Model.
Import ListNotations.
Open Scope Z_scope.

Inductive act :=
| AOp (o : op)
| ACall (d : ctxdef) (body : acts) (err : bool)
with acts :=
| ANil
| ACons (a : act) (rest : acts).

(* how a computation hands control back: normally, by a termination panic
   (ContextTerminationError) or by another Go panic *)
Inductive result := Normal | Terminated | Panicked.

Definition set_cur_st (m : mgr) (s : status) : mgr := mkMgr (set_st (cur m) s) (parents m).

Fixpoint exec_act (m : mgr) (a : act) : mgr * result * option ctx :=
  match a with
  | AOp o =>
    match step 0 m o with
    | MOk m' _ => (m', Normal, None)
    | MTerm m' _ => (m', Terminated, None)
    | MPanic m' => (m', Panicked, None)
    end
  | ACall d body err =>
    match push 0 d m with
    | MOk m1 _ =>
      let '(m2, r) := exec m1 body in
      let m3 := match r with Normal => if err then set_cur_st m2 Err else m2 | _ => m2 end in
      (* the deferred function: PopContext first, then recover *)
      match pop 0 m3 with
      | MOk m4 co => (m4, match r with Panicked => Panicked | _ => Normal end, co)
      | MTerm m4 _ => (m4, Terminated, None)
      | MPanic m4 => (m4, Panicked, None)
      end
    | MTerm m1 _ => (m1, Terminated, None)
    | MPanic m1 => (m1, Panicked, None)
    end
  end
with exec (m : mgr) (l : acts) : mgr * result :=
  match l with
  | ANil => (m, Normal)
  | ACons a rest =>
    let '(m', r, _) := exec_act m a in
    match r with Normal => exec m' rest | _ => (m', r) end
  end.

Definition call (m : mgr) (d : ctxdef) (body : acts) (err : bool) := exec_act m (ACall d body err).
