(* Ctx/Proofs.v — invariants of the context manager model, for every history. *)
From Coq Require Import ZArith List Bool Lia.
From GV Require Import Ctx.Model.
Import ListNotations.
Open Scope Z_scope.

Definition inr (z : Z) : Prop := 0 <= z < W.
Definition res_inr (r : res) : Prop := inr (cpu r) /\ inr (mem r) /\ inr (ms r).

(* "a <= b" in the order where 0 stands for +infinity *)
Definition lim_le (a b : Z) : Prop := b = 0 \/ (0 < a /\ a <= b).

Lemma W_pos : 0 < W. Proof. reflexivity. Qed.

Lemma u64_inr z : inr (u64 z).
Proof. unfold inr, u64. apply Z.mod_pos_bound. exact W_pos. Qed.

Lemma u64_small z : inr z -> u64 z = z.
Proof. unfold inr, u64. intros. apply Z.mod_small. assumption. Qed.

Lemma u64_add_small a b : 0 <= a -> 0 <= b -> a + b < W -> u64 (a + b) = a + b.
Proof. intros. apply u64_small. unfold inr. lia. Qed.

(* ---------- limit algebra ---------- *)

Lemma atLimit_true v l : atLimit v l = true <-> 0 < l /\ l <= v.
Proof. unfold atLimit. rewrite andb_true_iff, Z.ltb_lt, Z.leb_le. tauto. Qed.

Lemma atLimit_false v l : atLimit v l = false <-> l <= 0 \/ v < l.
Proof.
  unfold atLimit. rewrite andb_false_iff, Z.ltb_ge, Z.leb_gt. tauto.
Qed.

Lemma merge1_spec a b : inr a -> inr b ->
  lim_le (merge1 a b) a /\ lim_le (merge1 a b) b /\ (merge1 a b = a \/ merge1 a b = b) /\ inr (merge1 a b).
Proof.
  unfold merge1, smallerLimit, lim_le, inr. intros Ha Hb.
  destruct (Z.ltb_spec 0 b); destruct (Z.eqb_spec a 0); destruct (Z.ltb_spec b a); cbn; lia.
Qed.

Lemma sat_sub_spec a b : inr a -> inr b ->
  inr (sat_sub a b) /\ (b <= a -> sat_sub a b = a - b) /\ (a < b -> sat_sub a b = 0).
Proof. unfold sat_sub, inr. intros. destruct (Z.leb_spec b a); lia. Qed.

Lemma lim_le_trans a b c : lim_le a b -> lim_le b c -> lim_le a c.
Proof. unfold lim_le. lia. Qed.

(* ---------- per-context invariant ---------- *)

Record ctx_ok (c : ctx) : Prop := {
  ok_hard : res_inr (hard c);
  ok_soft : res_inr (soft c);
  ok_used : res_inr (used c);
  ok_tc : 0 < cpu (hard c) -> trackCpu c = true;
  ok_tm : 0 < mem (hard c) -> trackMem c = true;
  (* a live context has not reached its hard limits *)
  ok_cpu : st c = Live -> 0 < cpu (hard c) -> cpu (used c) < cpu (hard c);
  ok_mem : st c = Live -> 0 < mem (hard c) -> mem (used c) < mem (hard c);
  (* soft limits never exceed hard limits *)
  ok_scpu : lim_le (cpu (soft c)) (cpu (hard c));
  ok_smem : lim_le (mem (soft c)) (mem (hard c));
  ok_sms  : lim_le (ms (soft c)) (ms (hard c));
  (* hard limits imply their compliance flags *)
}.

(* relation between a context [c] and the saved parent [p] right below it *)
Record link_ok (c p : ctx) : Prop := {
  lk_flags : N.ldiff (flags p) (flags c) = 0%N;
  (* while the parent is live, the child's hard budget is positive (limited)
     and at most what the parent had left when the child was created *)
  lk_cpu : st p = Live -> 0 < cpu (hard p) ->
           0 < cpu (hard c) /\ cpu (hard c) <= cpu (hard p) - cpu (used p);
  lk_mem : st p = Live -> 0 < mem (hard p) ->
           0 < mem (hard c) /\ mem (hard c) <= mem (hard p) - mem (used p);
  lk_ms  : st p = Live -> 0 < ms (hard p) -> ms (used p) < ms (hard p) ->
           0 < ms (hard c) /\ ms (hard c) <= ms (hard p) - ms (used p);
}.

Fixpoint chain_ok (c : ctx) (ps : list ctx) : Prop :=
  match ps with
  | [] => True
  | p :: ps' => link_ok c p /\ chain_ok p ps'
  end.

Definition Inv (m : mgr) : Prop :=
  ctx_ok (cur m) /\ Forall ctx_ok (parents m) /\ chain_ok (cur m) (parents m).

Lemma root_ok : ctx_ok root.
Proof.
  constructor; cbn; unfold res_inr, inr, lim_le, W; cbn; try lia; try discriminate; intuition lia.
Qed.

Theorem inv_init : Inv init.
Proof. split; [exact root_ok|]. split; [constructor|exact I]. Qed.

(* ---------- how one context may evolve under require/release/stop ---------- *)

Definition same_frame (c c' : ctx) : Prop :=
  hard c' = hard c /\ soft c' = soft c /\ flags c' = flags c /\
  trackCpu c' = trackCpu c /\ trackMem c' = trackMem c /\ trackTime c' = trackTime c.

Record evolves (c c' : ctx) : Prop := {
  ev_frame : same_frame c c';
  ev_used : res_inr (used c');
  ev_live : st c' = Live -> st c = Live;
  ev_cpu : st c' = Live -> 0 < cpu (hard c) -> cpu (used c') < cpu (hard c);
  ev_mem : st c' = Live -> 0 < mem (hard c) -> mem (used c') < mem (hard c);
}.

Lemma evolves_ok c c' : ctx_ok c -> evolves c c' -> ctx_ok c'.
Proof.
  intros [A B C D E F G H I J] [(h & s & f & tc & tm & tt) U L Cc Mm].
  constructor; rewrite ?h, ?s, ?tc, ?tm; auto.
Qed.

Lemma evolves_refl c : ctx_ok c -> evolves c c.
Proof.
  intros [A B C D E F G H I J]. constructor; auto. unfold same_frame; intuition.
Qed.

Lemma evolves_trans a b c : evolves a b -> evolves b c -> evolves a c.
Proof.
  intros [(h & s & f & tc & tm & tt) U L Cc Mm] [(h' & s' & f' & tc' & tm' & tt') U' L' Cc' Mm'].
  constructor; auto.
  - unfold same_frame. rewrite h', s', f', tc', tm', tt'. intuition.
  - rewrite <- h. auto.
  - rewrite <- h. auto.
Qed.

Lemma live_true c : live c = true <-> st c = Live.
Proof. unfold live. destruct (st c); cbn; split; intros; try discriminate; auto. Qed.

Lemma live_false c : live c = false <-> st c <> Live.
Proof. unfold live. destruct (st c); cbn; split; intros; try discriminate; try congruence; auto. Qed.

Lemma kill_evolves c : ctx_ok c -> evolves c (kill c).
Proof.
  intros [A B C D E F G H I J]. constructor; cbn; auto; try (intros; discriminate).
  unfold same_frame; cbn; intuition.
Qed.

Lemma updateTimeUsed_evolves now c :
  ctx_ok c -> evolves c (fst (updateTimeUsed now c)) /\
              cpu (used (fst (updateTimeUsed now c))) = cpu (used c) /\
              mem (used (fst (updateTimeUsed now c))) = mem (used c) /\
              (snd (updateTimeUsed now c) = false ->
                 st (fst (updateTimeUsed now c)) = st c).
Proof.
  intros Hc. unfold updateTimeUsed.
  set (c1 := set_ms c _).
  assert (E1 : evolves c c1).
  { destruct Hc as [A B C D E F G H I J]. constructor; cbn; auto.
    - unfold same_frame; cbn; intuition.
    - destruct C as (C1 & C2 & C3). repeat split; try apply C1; try apply C2; apply u64_inr. }
  destruct (atLimit _ _ && live c1) eqn:Eb; cbn [fst snd].
  - split; [|cbn; intuition discriminate].
    eapply evolves_trans; [exact E1|]. apply kill_evolves. eapply evolves_ok; eauto.
  - split; [exact E1|]. cbn. intuition.
Qed.

Definition r1_ctx (r : r1) : ctx := match r with ROk c => c | RTerm c _ => c | RPanic c => c end.

Lemma set_thr_evolves c t : ctx_ok c -> evolves c (set_thr c t).
Proof.
  intros [A B C D E F G H I J]. constructor; cbn; auto. unfold same_frame; cbn; intuition.
Qed.

Lemma set_cpu_evolves c v :
  ctx_ok c -> inr v -> (st c = Live -> 0 < cpu (hard c) -> v < cpu (hard c)) ->
  evolves c (set_cpu c v).
Proof.
  intros [A B C D E F G H I J] Hv Hl. constructor; cbn; auto.
  - unfold same_frame; cbn; intuition.
  - destruct C as (C1 & C2 & C3). repeat split; try apply C2; try apply C3; apply Hv.
Qed.

Lemma set_mem_evolves c v :
  ctx_ok c -> inr v -> (st c = Live -> 0 < mem (hard c) -> v < mem (hard c)) ->
  evolves c (set_mem c v).
Proof.
  intros [A B C D E F G H I J] Hv Hl. constructor; cbn; auto.
  - unfold same_frame; cbn; intuition.
  - destruct C as (C1 & C2 & C3). repeat split; try apply C1; try apply C3; apply Hv.
Qed.

Lemma requireCPU_evolves now amt c :
  ctx_ok c -> evolves c (r1_ctx (requireCPU now amt c)).
Proof.
  intros Hc. unfold requireCPU.
  destruct (trackCpu c) eqn:Etc; cbn [negb]; [|apply evolves_refl; assumption].
  destruct (hard_stop c && live c); [cbn; apply kill_evolves; assumption|].
  set (cpuUsed := u64 (cpu (used c) + amt)).
  destruct (atLimit cpuUsed (cpu (hard c)) && live c) eqn:Eal; [cbn; apply kill_evolves; assumption|].
  assert (Hlim : st c = Live -> 0 < cpu (hard c) -> cpuUsed < cpu (hard c)).
  { intros Hl Hp. apply andb_false_iff in Eal. destruct Eal as [Eal|Eal].
    - apply atLimit_false in Eal. lia.
    - apply live_false in Eal. contradiction. }
  assert (Hcpu : evolves c (set_cpu c cpuUsed)) by (apply set_cpu_evolves; [assumption|apply u64_inr|exact Hlim]).
  destruct (trackTime c && (nextThr c <=? cpuUsed)).
  - set (c1 := set_cpu c cpuUsed) in *.
    assert (Hc1 : ctx_ok c1) by (eapply evolves_ok; eauto).
    set (c0 := set_thr c1 _).
    assert (H0 : evolves c1 c0) by (apply set_thr_evolves; assumption).
    assert (Hc0 : ctx_ok c0) by (eapply evolves_ok; eauto).
    destruct (updateTimeUsed_evolves now c0 Hc0) as (E2 & _ & _ & Hst).
    destruct (updateTimeUsed now c0) as [c2 t] eqn:Eu. cbn [fst snd] in *.
    destruct t; cbn [r1_ctx]; (eapply evolves_trans; [exact Hcpu|]; eapply evolves_trans; [exact H0|exact E2]).
  - cbn [r1_ctx]. exact Hcpu.
Qed.

Lemma requireMem_evolves amt c :
  ctx_ok c -> evolves c (r1_ctx (requireMem amt c)).
Proof.
  intros Hc. unfold requireMem.
  destruct (trackMem c) eqn:Etc; cbn [negb]; [|apply evolves_refl; assumption].
  destruct (hard_stop c && live c); [cbn; apply kill_evolves; assumption|].
  set (memUsed := u64 (mem (used c) + amt)).
  destruct (atLimit memUsed (mem (hard c)) && live c) eqn:Eal; [cbn; apply kill_evolves; assumption|].
  cbn [r1_ctx]. apply set_mem_evolves; [assumption|apply u64_inr|].
  intros Hl Hp. apply andb_false_iff in Eal. destruct Eal as [Eal|Eal].
  - apply atLimit_false in Eal. lia.
  - apply live_false in Eal. contradiction.
Qed.

Lemma releaseMem_evolves amt c :
  ctx_ok c -> 0 <= amt -> evolves c (r1_ctx (releaseMem amt c)).
Proof.
  intros Hc Ha. unfold releaseMem.
  destruct (0 <? mem (hard c)); [|apply evolves_refl; assumption].
  pose proof (ok_used _ Hc) as (_ & (U1 & U2) & _).
  destruct (Z.leb_spec amt (mem (used c))); cbn [r1_ctx].
  - apply set_mem_evolves; [assumption|unfold inr; lia|].
    intros Hl Hp. pose proof (ok_mem _ Hc Hl Hp). lia.
  - apply set_mem_evolves; [assumption|unfold inr, W; lia|].
    intros Hl Hp. exact Hp.
Qed.

Lemma setStopLevel_evolves l c :
  ctx_ok c -> evolves c (r1_ctx (setStopLevel l c)).
Proof.
  intros Hc. unfold setStopLevel.
  set (c1 := set_stop c _).
  assert (E1 : evolves c c1).
  { destruct Hc as [A B C D E F G H I J]. constructor; cbn; auto. unfold same_frame; cbn; intuition. }
  destruct (N.testbit l 1 && live c1); cbn [r1_ctx]; [|exact E1].
  eapply evolves_trans; [exact E1|]. apply kill_evolves. eapply evolves_ok; eauto.
Qed.

(* ---------- chains ---------- *)

Lemma link_child_evolves c c' p : evolves c c' -> link_ok c p -> link_ok c' p.
Proof.
  intros [(h & s & f & _) _ _ _ _] [A B C D]. constructor; rewrite ?h, ?f; assumption.
Qed.

Lemma chain_child_evolves c c' ps : evolves c c' -> chain_ok c ps -> chain_ok c' ps.
Proof.
  destruct ps as [|p ps]; cbn; [auto|]. intros E [L R]. split; [eapply link_child_evolves; eauto|exact R].
Qed.

Lemma lift_inv m r :
  Inv m -> evolves (cur m) (r1_ctx r) -> Inv (mres_mgr (lift m r)).
Proof.
  intros (Hc & Hp & Hch) E.
  assert (Inv (mkMgr (r1_ctx r) (parents m))).
  { split; [eapply evolves_ok; eauto|]. split; [exact Hp|]. cbn. eapply chain_child_evolves; eauto. }
  destruct r; cbn in *; assumption.
Qed.

(* ---------- push ---------- *)

Definition def_ok (d : ctxdef) : Prop := res_inr (dHard d) /\ res_inr (dSoft d).

Lemma ldiff_lor_l a b : N.ldiff a (N.lor a b) = 0%N.
Proof.
  apply N.bits_inj. intros n. rewrite N.ldiff_spec, N.lor_spec, N.bits_0.
  destruct (N.testbit a n); cbn; auto.
Qed.

Lemma ldiff_sub_lor a b c : N.ldiff a b = 0%N -> N.ldiff a (N.lor b c) = 0%N.
Proof.
  intros H. apply N.bits_inj. intros n.
  assert (Hn : N.testbit (N.ldiff a b) n = false) by (rewrite H; apply N.bits_0).
  rewrite N.ldiff_spec in Hn.
  rewrite N.ldiff_spec, N.lor_spec, N.bits_0.
  destruct (N.testbit a n), (N.testbit b n); cbn in *; auto; discriminate.
Qed.

Lemma push_flags_sup now d m : N.ldiff (flags m) (flags (pushCtx now d m)) = 0%N.
Proof.
  unfold pushCtx. cbn [flags].
  repeat match goal with |- context [if ?b then _ else _] => destruct b end;
  repeat apply ldiff_sub_lor; first [apply ldiff_lor_l | apply N.ldiff_diag].
Qed.

Lemma merge_remove_bound h u d :
  inr h -> inr u -> inr d ->
  let x := merge1 (sat_sub h u) d in
  inr x /\ lim_le x d /\ (0 < h -> u < h -> 0 < x /\ x <= h - u).
Proof.
  intros Hh Hu Hd x.
  destruct (sat_sub_spec h u Hh Hu) as (S1 & S2 & S3).
  destruct (merge1_spec (sat_sub h u) d S1 Hd) as (M1 & M2 & M3 & M4).
  subst x. split; [exact M4|]. split; [exact M2|].
  intros Hp Hlt. rewrite S2 in * by lia. unfold lim_le in M1. lia.
Qed.

Lemma pushCtx_ok now d m :
  ctx_ok m -> def_ok d -> ctx_ok (pushCtx now d m) /\ link_ok (pushCtx now d m) m.
Proof.
  intros Hm (Hdh & Hds).
  destruct (ok_hard _ Hm) as (H1 & H2 & H3).
  destruct (ok_used _ Hm) as (U1 & U2 & U3).
  destruct (ok_soft _ Hm) as (S1 & S2 & S3).
  destruct Hdh as (D1 & D2 & D3). destruct Hds as (E1 & E2 & E3).
  destruct (merge_remove_bound _ _ _ H1 U1 D1) as (A1 & A2 & A3).
  destruct (merge_remove_bound _ _ _ H2 U2 D2) as (B1 & B2 & B3).
  destruct (merge_remove_bound _ _ _ H3 U3 D3) as (C1 & C2 & C3).
  set (hc := merge1 (sat_sub (cpu (hard m)) (cpu (used m))) (cpu (dHard d))) in *.
  set (hm := merge1 (sat_sub (mem (hard m)) (mem (used m))) (mem (dHard d))) in *.
  set (ht := merge1 (sat_sub (ms (hard m)) (ms (used m))) (ms (dHard d))) in *.
  (* soft limits *)
  destruct (merge1_spec hc (cpu (soft m)) A1 S1) as (P1 & _ & _ & P4).
  destruct (merge1_spec (merge1 hc (cpu (soft m))) (cpu (dSoft d)) P4 E1) as (P5 & _ & _ & P8).
  destruct (merge1_spec hm (mem (soft m)) B1 S2) as (Q1 & _ & _ & Q4).
  destruct (merge1_spec (merge1 hm (mem (soft m))) (mem (dSoft d)) Q4 E2) as (Q5 & _ & _ & Q8).
  destruct (merge1_spec ht (ms (soft m)) C1 S3) as (R1 & _ & _ & R4).
  destruct (merge1_spec (merge1 ht (ms (soft m))) (ms (dSoft d)) R4 E3) as (R5 & _ & _ & R8).
  split.
  - constructor; cbn -[merge1 sat_sub]; fold hc hm ht.
    + repeat split; try apply A1; try apply B1; apply C1.
    + repeat split; try apply P8; try apply Q8; apply R8.
    + unfold res_inr, inr, W; cbn; lia.
    + intros Hp. destruct (Z.ltb_spec 0 hc); [reflexivity|lia].
    + intros Hp. destruct (Z.ltb_spec 0 hm); [reflexivity|lia].
    + intros _ Hp. exact Hp.
    + intros _ Hp. exact Hp.
    + eapply lim_le_trans; eauto.
    + eapply lim_le_trans; eauto.
    + eapply lim_le_trans; eauto.
  - constructor; [exact (push_flags_sup now d m)|..]; cbn -[merge1 sat_sub]; fold hc hm ht.
    + intros Hl Hp. apply A3; [exact Hp|apply (ok_cpu _ Hm Hl Hp)].
    + intros Hl Hp. apply B3; [exact Hp|apply (ok_mem _ Hm Hl Hp)].
    + intros _. exact C3.
Qed.

(* ---------- the invariant is preserved by every operation ---------- *)

Definition op_ok (o : op) : Prop :=
  match o with
  | OPush d => def_ok d
  | ORel a => 0 <= a
  | _ => True
  end.

Lemma time_inv now m :
  Inv m -> Inv (mkMgr (fst (updateTimeUsed now (cur m))) (parents m)).
Proof.
  intros (Hc & Hp & Hch). destruct (updateTimeUsed_evolves now _ Hc) as (E & _).
  split; [eapply evolves_ok; eauto|]. split; [exact Hp|]. cbn. eapply chain_child_evolves; eauto.
Qed.


Lemma requireCPU_term now a c c' t : requireCPU now a c = RTerm c' t -> st c' = Killed.
Proof.
  unfold requireCPU.
  destruct (negb (trackCpu c)); [discriminate|].
  destruct (hard_stop c && live c); [intros H; inversion H; reflexivity|].
  destruct (atLimit _ _ && live c); [intros H; inversion H; reflexivity|].
  destruct (trackTime c && _); [|discriminate].
  unfold updateTimeUsed.
  match goal with |- context [if ?b then (kill ?x, true) else _] => destruct b end.
  - intros H; inversion H; reflexivity.
  - discriminate.
Qed.

Lemma requireCPU_nopanic now a c c' : requireCPU now a c <> RPanic c'.
Proof.
  unfold requireCPU.
  destruct (negb (trackCpu c)); [discriminate|].
  destruct (hard_stop c && live c); [discriminate|].
  destruct (atLimit _ _ && live c); [discriminate|].
  destruct (trackTime c && _); [|discriminate].
  destruct (updateTimeUsed _ _) as [c2 [|]]; discriminate.
Qed.

Lemma requireMem_term a c c' t : requireMem a c = RTerm c' t -> st c' = Killed.
Proof.
  unfold requireMem.
  destruct (negb (trackMem c)); [discriminate|].
  destruct (hard_stop c && live c); [intros H; inversion H; reflexivity|].
  destruct (atLimit _ _ && live c); [intros H; inversion H; reflexivity|discriminate].
Qed.

Lemma requireMem_nopanic a c c' : requireMem a c <> RPanic c'.
Proof.
  unfold requireMem.
  destruct (negb (trackMem c)); [discriminate|].
  destruct (hard_stop c && live c); [discriminate|].
  destruct (atLimit _ _ && live c); discriminate.
Qed.

Lemma link_dead_parent c p p' :
  evolves p p' -> st p' <> Live -> link_ok c p -> link_ok c p'.
Proof.
  intros [(h & s & f & _) _ _ _ _] Hd [A B C D]. constructor; rewrite ?f; auto; intros; contradiction.
Qed.

Theorem inv_step now m o : Inv m -> op_ok o -> Inv (mres_mgr (step now m o)).
Proof.
  intros HI Ho. destruct o as [d| |a|a|a|l]; cbn [step].
  - (* push *)
    unfold push.
    assert (Hgo : forall c, Inv (mkMgr c (parents m)) -> Inv (mkMgr (pushCtx now d c) (c :: parents m))).
    { intros c (Hc & Hp & Hch). destruct (pushCtx_ok now d c Hc Ho) as [P1 P2].
      split; [exact P1|]. split; [constructor; assumption|]. cbn. split; assumption. }
    destruct (trackTime (cur m)).
    + pose proof (time_inv now m HI) as HI'.
      destruct (updateTimeUsed now (cur m)) as [c t]. cbn [fst] in HI'.
      destruct t; cbn [mres_mgr]; [exact HI'|apply Hgo; exact HI'].
    + cbn [mres_mgr]. apply Hgo. destruct m; exact HI.
  - (* pop *)
    unfold pop. destruct m as [c ps]. cbn [parents cur] in *.
    destruct ps as [|p rest]; [exact HI|].
    destruct HI as (Hc & Hps & Hch). inversion Hps as [|? ? Hp Hrest]; subst.
    cbn in Hch. destruct Hch as [Hl Hch].
    (* the parent is reinstated before it is charged: whether or not charging it terminates it, the stack is popped *)
    assert (Hsucc : forall p', evolves p p' -> Inv (mkMgr p' rest)).
    { intros p' E. split; [eapply evolves_ok; eauto|]. split; [exact Hrest|].
      cbn. eapply chain_child_evolves; eauto. }
    pose proof (requireMem_evolves (mem (used c)) p Hp) as E1.
    destruct (requireMem (mem (used c)) p) as [p1|p1 t1|p1] eqn:R1; cbn [r1_ctx] in E1.
    + assert (Hp1 : ctx_ok p1) by (eapply evolves_ok; eauto).
      pose proof (requireCPU_evolves now (cpu (used c)) p1 Hp1) as E2.
      destruct (requireCPU now (cpu (used c)) p1) as [p2|p2 t2|p2] eqn:R2; cbn [r1_ctx] in E2.
      * assert (E12 : evolves p p2) by (eapply evolves_trans; eauto).
        assert (Hp2 : ctx_ok p2) by (eapply evolves_ok; eauto).
        destruct (trackTime p2).
        -- destruct (updateTimeUsed_evolves now p2 Hp2) as (E3 & _).
           destruct (updateTimeUsed now p2) as [p3 t]. cbn [fst] in E3.
           destruct t; cbn [mres_mgr]; apply Hsucc; eapply evolves_trans; eauto.
        -- cbn [mres_mgr]. apply Hsucc. exact E12.
      * cbn [mres_mgr]. apply Hsucc. eapply evolves_trans; eauto.
      * exfalso. eapply requireCPU_nopanic; eauto.
    + cbn [mres_mgr]. apply Hsucc. exact E1.
    + exfalso. eapply requireMem_nopanic; eauto.
  - apply lift_inv; [exact HI|apply requireCPU_evolves; apply HI].
  - apply lift_inv; [exact HI|apply requireMem_evolves; apply HI].
  - apply lift_inv; [exact HI|apply releaseMem_evolves; [apply HI|exact Ho]].
  - apply lift_inv; [exact HI|apply setStopLevel_evolves; apply HI].
Qed.

Theorem inv_run os m : Inv m -> Forall (fun no => op_ok (snd no)) os -> Inv (run m os).
Proof.
  revert m. induction os as [|[now o] os IH]; cbn [run]; intros m HI Hos; [exact HI|].
  inversion Hos as [|? ? Ho Hos']; subst. apply IH; [|exact Hos'].
  apply inv_step; assumption.
Qed.

(* ---------- conservation: what is consumed anywhere above a limited context
   stays below that context's hard limit ---------- *)

Definition sum_cpu (l : list ctx) : Z := fold_right (fun c a => cpu (used c) + a) 0 l.
Definition sum_mem (l : list ctx) : Z := fold_right (fun c a => mem (used c) + a) 0 l.

Lemma sum_cpu_app a b : sum_cpu (a ++ b) = sum_cpu a + sum_cpu b.
Proof. induction a as [|x a IH]; cbn; [reflexivity|]. unfold sum_cpu in *. cbn. rewrite IH. ring. Qed.
Lemma sum_mem_app a b : sum_mem (a ++ b) = sum_mem a + sum_mem b.
Proof. induction a as [|x a IH]; cbn; [reflexivity|]. unfold sum_mem in *. cbn. rewrite IH. ring. Qed.

(* with the top context's consumption replaced by its whole budget *)
Lemma budget_chain_cpu : forall ps c above k below,
  ctx_ok c -> Forall ctx_ok ps -> chain_ok c ps -> Forall (fun p => st p = Live) ps ->
  c :: ps = above ++ k :: below -> 0 < cpu (hard k) ->
  0 < cpu (hard c) /\ cpu (hard c) - cpu (used c) + sum_cpu (above ++ [k]) <= cpu (hard k).
Proof.
  induction ps as [|p ps IH]; intros c above k below Hc Hps Hch Hlive Hsplit Hk.
  - destruct above as [|a above]; cbn in Hsplit.
    + inversion Hsplit; subst. cbn. unfold sum_cpu; cbn. lia.
    + inversion Hsplit as [[Ha Hnil]]. destruct above; discriminate.
  - destruct above as [|a above]; cbn in Hsplit.
    + inversion Hsplit; subst. unfold sum_cpu; cbn. lia.
    + inversion Hsplit as [[Ha Hrest]]. subst a.
      inversion Hps as [|? ? Hp Hps']; subst. inversion Hlive as [|? ? Hlp Hlive']; subst.
      cbn in Hch. destruct Hch as [Hl Hch].
      destruct (IH p above k below Hp Hps' Hch Hlive' Hrest Hk) as [Hhp Hsum].
      destruct (lk_cpu _ _ Hl Hlp Hhp) as [Hc1 Hc2].
      split; [exact Hc1|].
      change ((c :: above) ++ [k]) with (c :: (above ++ [k])).
      unfold sum_cpu in *. cbn [fold_right].
      (* sum(above++[k]) starts with used p *)
      destruct above as [|a' above']; cbn in Hrest; inversion Hrest; subst; cbn in *; lia.
Qed.

Lemma budget_chain_mem : forall ps c above k below,
  ctx_ok c -> Forall ctx_ok ps -> chain_ok c ps -> Forall (fun p => st p = Live) ps ->
  c :: ps = above ++ k :: below -> 0 < mem (hard k) ->
  0 < mem (hard c) /\ mem (hard c) - mem (used c) + sum_mem (above ++ [k]) <= mem (hard k).
Proof.
  induction ps as [|p ps IH]; intros c above k below Hc Hps Hch Hlive Hsplit Hk.
  - destruct above as [|a above]; cbn in Hsplit.
    + inversion Hsplit; subst. cbn. unfold sum_mem; cbn. lia.
    + inversion Hsplit as [[Ha Hnil]]. destruct above; discriminate.
  - destruct above as [|a above]; cbn in Hsplit.
    + inversion Hsplit; subst. unfold sum_mem; cbn. lia.
    + inversion Hsplit as [[Ha Hrest]]. subst a.
      inversion Hps as [|? ? Hp Hps']; subst. inversion Hlive as [|? ? Hlp Hlive']; subst.
      cbn in Hch. destruct Hch as [Hl Hch].
      destruct (IH p above k below Hp Hps' Hch Hlive' Hrest Hk) as [Hhp Hsum].
      destruct (lk_mem _ _ Hl Hlp Hhp) as [Hc1 Hc2].
      split; [exact Hc1|].
      change ((c :: above) ++ [k]) with (c :: (above ++ [k])).
      unfold sum_mem in *. cbn [fold_right].
      destruct above as [|a' above']; cbn in Hrest; inversion Hrest; subst; cbn in *; lia.
Qed.

Definition all_live (m : mgr) : Prop := st (cur m) = Live /\ Forall (fun p => st p = Live) (parents m).

(* For every limited context k on the stack, everything consumed by k and by
   all the contexts nested inside it is strictly below k's hard limit. *)
Theorem conservation_cpu m above k below :
  Inv m -> all_live m -> cur m :: parents m = above ++ k :: below ->
  0 < cpu (hard k) -> sum_cpu (above ++ [k]) < cpu (hard k).
Proof.
  intros (Hc & Hps & Hch) (Hl & Hlp) Hsplit Hk.
  destruct (budget_chain_cpu _ _ _ _ _ Hc Hps Hch Hlp Hsplit Hk) as [H1 H2].
  pose proof (ok_cpu _ Hc Hl H1). lia.
Qed.

Theorem conservation_mem m above k below :
  Inv m -> all_live m -> cur m :: parents m = above ++ k :: below ->
  0 < mem (hard k) -> sum_mem (above ++ [k]) < mem (hard k).
Proof.
  intros (Hc & Hps & Hch) (Hl & Hlp) Hsplit Hk.
  destruct (budget_chain_mem _ _ _ _ _ Hc Hps Hch Hlp Hsplit Hk) as [H1 H2].
  pose proof (ok_mem _ Hc Hl H1). lia.
Qed.

(* ---------- PopContext charges the parent and, in a sane state, cannot kill it ---------- *)

Definition within (c : ctx) : Prop :=
  (0 < cpu (hard c) -> cpu (used c) < cpu (hard c)) /\
  (0 < mem (hard c) -> mem (used c) < mem (hard c)).

Lemma live_within c : ctx_ok c -> st c = Live -> within c.
Proof. intros Hc Hl. split; [apply (ok_cpu _ Hc Hl)|apply (ok_mem _ Hc Hl)]. Qed.

Theorem pop_charges_parent_gen now c p rest :
  Inv (mkMgr c (p :: rest)) -> within c -> st p = Live ->
  hard_stop p = false -> trackTime p = false ->
  exists p',
    pop now (mkMgr c (p :: rest)) = MOk (mkMgr p' rest) (Some (if live c then set_st c Done else c)) /\
    st p' = Live /\ same_frame p p' /\
    cpu (used p') = (if trackCpu p then u64 (cpu (used p) + cpu (used c)) else cpu (used p)) /\
    mem (used p') = (if trackMem p then u64 (mem (used p) + mem (used c)) else mem (used p)) /\
    (0 < cpu (hard p) -> cpu (used p') = cpu (used p) + cpu (used c)) /\
    (0 < mem (hard p) -> mem (used p') = mem (used p) + mem (used c)).
Proof.
  intros (Hc & Hps & Hch) [Wc Wm] Hlp Hhs Htt. cbn [cur parents] in *.
  inversion Hps as [|? ? Hp Hrest]; subst. cbn in Hch. destruct Hch as [Hl Hch].
  destruct (ok_used _ Hc) as ((C1 & C2) & (C3 & C4) & _).
  destruct (ok_used _ Hp) as ((P1 & P2) & (P3 & P4) & _).
  (* the sums stay below the parent's limits *)
  assert (Scpu : 0 < cpu (hard p) -> cpu (used p) + cpu (used c) < cpu (hard p)).
  { intros Hh. destruct (lk_cpu _ _ Hl Hlp Hh) as [L1 L2]. specialize (Wc L1). lia. }
  assert (Smem : 0 < mem (hard p) -> mem (used p) + mem (used c) < mem (hard p)).
  { intros Hh. destruct (lk_mem _ _ Hl Hlp Hh) as [L1 L2]. specialize (Wm L1). lia. }
  destruct (ok_hard _ Hp) as ((Hh1 & Hh2) & (Hh3 & Hh4) & _).
  unfold pop. cbn [cur parents].
  (* requireMem on the parent comes first ... *)
  assert (R1 : exists p1, requireMem (mem (used c)) p = ROk p1 /\ st p1 = Live /\ same_frame p p1 /\
            hard_stop p1 = false /\ cpu (used p1) = cpu (used p) /\ nextThr p1 = nextThr p /\
            mem (used p1) = (if trackMem p then u64 (mem (used p) + mem (used c)) else mem (used p))).
  { unfold requireMem. rewrite Hhs. cbn [andb].
    destruct (trackMem p) eqn:Etm; cbn [negb].
    - destruct (atLimit _ _ && live p) eqn:Eal.
      + exfalso. apply andb_true_iff in Eal. destruct Eal as [Eal _]. apply atLimit_true in Eal.
        destruct Eal as [Eh Ele]. specialize (Smem Eh).
        rewrite u64_add_small in Ele; lia.
      + eexists. split; [reflexivity|]. cbn. unfold same_frame; cbn. intuition.
    - eexists. split; [reflexivity|]. unfold same_frame. intuition. }
  destruct R1 as (p1 & -> & Hl1 & Hf1 & Hhs1 & Hc1 & Hthr1 & Hm1).
  (* ... then requireCPU *)
  assert (R2 : exists p2, requireCPU now (cpu (used c)) p1 = ROk p2 /\ st p2 = Live /\ same_frame p1 p2 /\
            mem (used p2) = mem (used p1) /\
            cpu (used p2) = (if trackCpu p then u64 (cpu (used p) + cpu (used c)) else cpu (used p))).
  { destruct Hf1 as (fh & fs & ff & ftc & ftm & ftt).
    unfold requireCPU. rewrite Hhs1, ftt, Htt, ftc. cbn [andb].
    destruct (trackCpu p) eqn:Etc; cbn [negb].
    - rewrite Hc1, fh. destruct (atLimit _ _ && live p1) eqn:Eal.
      + exfalso. apply andb_true_iff in Eal. destruct Eal as [Eal _]. apply atLimit_true in Eal.
        destruct Eal as [Eh Ele]. specialize (Scpu Eh).
        rewrite u64_add_small in Ele; lia.
      + eexists. split; [reflexivity|]. cbn. unfold same_frame; cbn. intuition.
    - eexists. split; [reflexivity|]. unfold same_frame. intuition. }
  destruct R2 as (p2 & -> & Hl2 & Hf2 & Hm2 & Hc2).
  assert (Hf : same_frame p p2).
  { destruct Hf1 as (a1 & a2 & a3 & a4 & a5 & a6). destruct Hf2 as (b1 & b2 & b3 & b4 & b5 & b6).
    unfold same_frame. rewrite b1, b2, b3, b4, b5, b6. intuition. }
  destruct Hf as (g1 & g2 & g3 & g4 & g5 & g6) eqn:Hfe.
  rewrite g6, Htt.
  exists p2. split; [reflexivity|]. split; [exact Hl2|]. split; [unfold same_frame; intuition|].
  rewrite Hc2, Hm2, Hm1. split; [reflexivity|]. split; [reflexivity|]. split.
  - intros Hh. rewrite (ok_tc _ Hp Hh). apply u64_add_small; lia.
  - intros Hh. rewrite (ok_tm _ Hp Hh). apply u64_add_small; lia.
Qed.

Theorem pop_charges_parent now c p rest :
  Inv (mkMgr c (p :: rest)) -> st c = Live -> st p = Live ->
  hard_stop p = false -> trackTime p = false ->
  exists p',
    pop now (mkMgr c (p :: rest)) = MOk (mkMgr p' rest) (Some (set_st c Done)) /\
    st p' = Live /\ same_frame p p' /\
    cpu (used p') = (if trackCpu p then u64 (cpu (used p) + cpu (used c)) else cpu (used p)) /\
    mem (used p') = (if trackMem p then u64 (mem (used p) + mem (used c)) else mem (used p)) /\
    (0 < cpu (hard p) -> cpu (used p') = cpu (used p) + cpu (used c)) /\
    (0 < mem (hard p) -> mem (used p') = mem (used p) + mem (used c)).
Proof.
  intros HI Hlc Hlp Hhs Htt.
  destruct (pop_charges_parent_gen now c p rest HI (live_within c (proj1 HI) Hlc) Hlp Hhs Htt) as (p' & E & R).
  exists p'. split; [|exact R]. rewrite E. replace (live c) with true; [reflexivity|].
  symmetry. apply live_true. exact Hlc.
Qed.

(* ---------- Due ---------- *)

Theorem due_iff c :
  due c = true <->
  (soft_stop c = true \/ atLimit (cpu (used c)) (cpu (soft c)) = true
   \/ atLimit (mem (used c)) (mem (soft c)) = true \/ atLimit (ms (used c)) (ms (soft c)) = true).
Proof.
  unfold due, dominates. rewrite orb_true_iff, negb_true_iff, !andb_false_iff, !negb_false_iff. tauto.
Qed.

(* ---------- wrap-around of the unguarded uint64 addition ---------- *)

(* The model (like the Go code) adds the requested amount modulo 2^64 before
   comparing with the limit: a request of 2^64-1 units in a context limited to
   10 units that has already used 1 is granted. *)
Definition wrap_witness : list (Z * op) :=
  [(0, OPush (mkDef (mkRes 10 0 0) res0 0%N false)); (0, OCpu 1); (0, OCpu (W - 1))].

Lemma requireCPU_wraps_refuted :
  let m := run init wrap_witness in
  st (cur m) = Live /\ cpu (used (cur m)) = 0.
Proof. vm_compute. split; reflexivity. Qed.

(* Without wrap-around a live limited context never grants past its limit. *)
Theorem requireCPU_grant_bound now amt c c' :
  ctx_ok c -> st c = Live -> 0 < cpu (hard c) -> 0 <= amt ->
  cpu (used c) + amt < W ->
  requireCPU now amt c = ROk c' -> cpu (used c) + amt < cpu (hard c) /\ cpu (used c') = cpu (used c) + amt.
Proof.
  intros Hc Hl Hh Ha Hw. destruct (ok_used _ Hc) as ((C1 & C2) & _).
  unfold requireCPU. rewrite (ok_tc _ Hc Hh). cbn [negb].
  destruct (hard_stop c && live c); [discriminate|].
  rewrite u64_add_small by lia.
  assert (Hlv : live c = true) by (apply live_true; exact Hl). rewrite Hlv, andb_true_r.
  destruct (atLimit _ _) eqn:Eal; [discriminate|]. apply atLimit_false in Eal.
  destruct (trackTime c && _).
  - set (c0 := set_thr (set_cpu c (cpu (used c) + amt)) _).
    assert (Hcpu0 : cpu (used c0) = cpu (used c) + amt) by reflexivity.
    unfold updateTimeUsed.
    match goal with |- context [if ?b then _ else _] => destruct b end; [discriminate|].
    intros H; inversion H; subst; cbn. lia.
  - intros H; inversion H; subst; cbn. lia.
Qed.

(* ---------- statements over every reachable state ---------- *)

Definition hist_ok (os : list (Z * op)) : Prop := Forall (fun no => op_ok (snd no)) os.

Theorem reachable_inv os : hist_ok os -> Inv (run init os).
Proof. intros H. apply inv_run; [exact inv_init|exact H]. Qed.

(* the child created by PushContext in any reachable state *)
Theorem child_budget now d os :
  hist_ok os -> def_ok d ->
  let p := cur (run init os) in
  let c := pushCtx now d p in
  (* never more than the parent has left, per resource, while the parent is live *)
  (st p = Live -> 0 < cpu (hard p) -> 0 < cpu (hard c) /\ cpu (hard c) <= cpu (hard p) - cpu (used p)) /\
  (st p = Live -> 0 < mem (hard p) -> 0 < mem (hard c) /\ mem (hard c) <= mem (hard p) - mem (used p)) /\
  (st p = Live -> 0 < ms (hard p) -> ms (used p) < ms (hard p) ->
     0 < ms (hard c) /\ ms (hard c) <= ms (hard p) - ms (used p)) /\
  (* never more than requested *)
  lim_le (cpu (hard c)) (cpu (dHard d)) /\ lim_le (mem (hard c)) (mem (dHard d)) /\
  lim_le (ms (hard c)) (ms (dHard d)) /\
  (* soft never above hard *)
  lim_le (cpu (soft c)) (cpu (hard c)) /\ lim_le (mem (soft c)) (mem (hard c)) /\
  lim_le (ms (soft c)) (ms (hard c)) /\
  (* flags: parent's, requested, and those implied by hard limits *)
  N.ldiff (flags p) (flags c) = 0%N /\ N.ldiff (dFlags d) (flags c) = 0%N /\
  (0 < cpu (dHard d) -> N.testbit (flags c) 1 = true) /\
  (0 < mem (dHard d) -> N.testbit (flags c) 0 = true) /\
  (0 < ms (dHard d) -> N.testbit (flags c) 3 = true).
Proof.
  intros Hos Hd p c.
  destruct (reachable_inv os Hos) as (Hp & _ & _). fold p in Hp.
  destruct (pushCtx_ok now d p Hp Hd) as [Hc Hl]. fold c in Hc, Hl.
  destruct Hl as [L1 L2 L3 L4].
  split; [exact L2|]. split; [exact L3|]. split; [exact L4|].
  destruct Hd as ((D1 & D2 & D3) & _).
  destruct (ok_hard _ Hp) as (H1 & H2 & H3). destruct (ok_used _ Hp) as (U1 & U2 & U3).
  destruct (merge_remove_bound _ _ _ H1 U1 D1) as (_ & A2 & _).
  destruct (merge_remove_bound _ _ _ H2 U2 D2) as (_ & B2 & _).
  destruct (merge_remove_bound _ _ _ H3 U3 D3) as (_ & C2 & _).
  split; [exact A2|]. split; [exact B2|]. split; [exact C2|].
  split; [exact (ok_scpu _ Hc)|]. split; [exact (ok_smem _ Hc)|]. split; [exact (ok_sms _ Hc)|].
  split; [exact L1|].
  assert (Hbits : forall n, N.testbit (flags c) n =
     (N.testbit (flags p) n || N.testbit (dFlags d) n
      || ((0 <? cpu (dHard d)) && N.eqb n 1) || ((0 <? mem (dHard d)) && N.eqb n 0)
      || ((0 <? ms (dHard d)) && N.eqb n 3))%bool).
  { intros n. subst c. unfold pushCtx. cbn [flags].
    assert (T1 : N.testbit F_MEM n = N.eqb n 0) by (rewrite N.eqb_sym; exact (N.pow2_bits_eqb 0 n)).
    assert (T2 : N.testbit F_CPU n = N.eqb n 1) by (rewrite N.eqb_sym; exact (N.pow2_bits_eqb 1 n)).
    assert (T8 : N.testbit F_TIME n = N.eqb n 3) by (rewrite N.eqb_sym; exact (N.pow2_bits_eqb 3 n)).
    destruct (0 <? cpu (dHard d)); destruct (0 <? mem (dHard d)); destruct (0 <? ms (dHard d));
      rewrite ?N.lor_spec, ?T1, ?T2, ?T8; cbn [andb];
      destruct (N.testbit (flags p) n), (N.testbit (dFlags d) n), (N.eqb n 1), (N.eqb n 0), (N.eqb n 3);
      reflexivity. }
  split.
  { apply N.bits_inj. intros n. rewrite N.ldiff_spec, N.bits_0, Hbits.
    destruct (N.testbit (dFlags d) n); cbn; [|reflexivity].
    rewrite orb_true_r. reflexivity. }
  split; [|split]; intros H; rewrite Hbits; apply Z.ltb_lt in H; rewrite H; cbn;
    rewrite ?orb_true_r; reflexivity.
Qed.

(* used never reaches kill in a live context, for every history *)
Theorem used_lt_kill os c :
  hist_ok os -> In c (cur (run init os) :: parents (run init os)) -> st c = Live ->
  (0 < cpu (hard c) -> cpu (used c) < cpu (hard c)) /\
  (0 < mem (hard c) -> mem (used c) < mem (hard c)).
Proof.
  intros Hos Hin Hl. destruct (reachable_inv os Hos) as (Hc & Hps & _).
  assert (Hok : ctx_ok c).
  { destruct Hin as [<-|Hin]; [exact Hc|]. rewrite Forall_forall in Hps. apply Hps. exact Hin. }
  split; [apply (ok_cpu _ Hok Hl)|apply (ok_mem _ Hok Hl)].
Qed.

Theorem flags_monotone os :
  hist_ok os ->
  let m := run init os in
  forall above c p below, cur m :: parents m = above ++ c :: p :: below ->
  N.ldiff (flags p) (flags c) = 0%N.
Proof.
  intros Hos m. destruct (reachable_inv os Hos) as (_ & _ & Hch). fold m in Hch.
  generalize dependent (cur m). generalize (parents m).
  induction l as [|q l IH]; intros c0 Hch above c p below Hs.
  - destruct above as [|a [|b above]]; cbn in Hs; inversion Hs.
  - cbn in Hch. destruct Hch as [Hl Hch].
    destruct above as [|a above]; cbn in Hs; inversion Hs; subst.
    + exact (lk_flags _ _ Hl).
    + eapply IH; eauto.
Qed.

(* non-vacuity: a concrete history with three nested limited contexts, work in
   each, a kill at the innermost level and two pops *)
Definition example_history : list (Z * op) :=
  [(0, OPush (mkDef (mkRes 1000 5000 0) (mkRes 500 0 0) 4%N false));
   (0, OCpu 100); (0, OMem 300);
   (0, OPush (mkDef (mkRes 0 0 0) res0 0%N false));
   (0, OCpu 50);
   (0, OPush (mkDef (mkRes 200 0 0) (mkRes 900 0 0) 0%N false));
   (0, OCpu 199); (0, OCpu 1); (0, OPop); (0, OMem 10); (0, ORel 5); (0, OPop)].

Example example_history_ok : hist_ok example_history.
Proof. unfold hist_ok, example_history. repeat constructor; cbn; unfold res_inr, inr, W; cbn; lia. Qed.

Example example_history_result :
  let m := run init example_history in
  cpu (used (cur m)) = 349 /\ mem (used (cur m)) = 305 /\ cpu (hard (cur m)) = 1000 /\
  st (cur m) = Live /\ length (parents m) = 1%nat /\ due (cur m) = false.
Proof. vm_compute. repeat split. Qed.

(* ---------- releasing memory never panics and never underflows ---------- *)

Theorem releaseMem_total amt c :
  0 <= amt -> 0 <= mem (used c) ->
  exists c', releaseMem amt c = ROk c' /\ 0 <= mem (used c') <= mem (used c).
Proof.
  intros Ha Hu. unfold releaseMem. destruct (0 <? mem (hard c)).
  - destruct (Z.leb_spec amt (mem (used c))); eexists; (split; [reflexivity|]); cbn.
    + lia.
    + lia.
  - eexists; split; [reflexivity|]. lia.
Qed.

(* PopContext reinstates the parent before charging it, so the context stack is popped on every path — also when
   charging the parent terminates it (time limit reached while the child ran, stop request).  Before the repair
   (fix: PopContext reinstates the parent before charging it) the child stayed current on those paths. *)
Theorem pop_always_pops now c p rest :
  parents (mres_mgr (pop now (mkMgr c (p :: rest)))) = rest.
Proof.
  unfold pop. cbn [parents cur].
  destruct (requireMem (mem (used c)) p) as [p1|p1 t1|p1]; cbn [mres_mgr parents]; try reflexivity.
  destruct (requireCPU now (cpu (used c)) p1) as [p2|p2 t2|p2]; cbn [mres_mgr parents]; try reflexivity.
  destruct (trackTime p2); [|cbn; reflexivity].
  destruct (updateTimeUsed now p2) as [p3 t]. destruct t; cbn; reflexivity.
Qed.

(* ---- the clock is looked at often enough ----
   A context that tracks time reads the clock whenever its CPU counter passes nextThr, which is then moved 10000
   ticks ahead.  A new context starts with nextThr = 0 (before the repair "fix: a new context's first time check is
   not delayed" it inherited the parent's threshold, on the parent's CPU scale: a child with a 50 ms limit was not
   checked until it had used as much CPU as its parent). *)
Definition thr_ok (c : ctx) : Prop := nextThr c <= cpu (used c) + 10000.

Lemma pushCtx_thr now d p : nextThr (pushCtx now d p) = 0 /\ cpu (used (pushCtx now d p)) = 0.
Proof. unfold pushCtx. cbn. split; reflexivity. Qed.

Lemma u64_le_self z : 0 <= z -> 0 <= u64 z <= z.
Proof. intros H. unfold u64. split; [apply Z.mod_pos_bound; unfold W; lia | apply Z.mod_le; [exact H | unfold W; lia]]. Qed.

Local Opaque u64.

Theorem child_clock_read_at_first_request now0 d p now amt c' :
  let c := pushCtx now0 d p in
  trackTime c = true -> 0 <= amt ->
  requireCPU now amt c = ROk c' ->
  ms (used c') = u64 (now - now0) /\ thr_ok c'.
Proof.
  intros c Ht Ha. unfold requireCPU.
  assert (Htc : trackCpu c = true).
  { unfold c, pushCtx in *. cbn in *. rewrite Ht. apply orb_true_r. }
  rewrite Htc, Ht. cbn [negb].
  destruct (hard_stop c && live c); [discriminate|].
  destruct (atLimit _ _ && live c); [discriminate|].
  assert (Hthr : nextThr c = 0) by apply pushCtx_thr.
  assert (Hu : cpu (used c) = 0) by apply pushCtx_thr.
  rewrite Hthr, Hu. cbn [andb].
  pose proof (u64_le_self (0 + amt) ltac:(lia)) as Hx.
  assert (Hle : (0 <=? u64 (0 + amt)) = true) by (apply Z.leb_le; lia).
  rewrite Hle.
  unfold updateTimeUsed.
  match goal with |- context [if ?b then _ else _] => destruct b end; [discriminate|].
  intros H; inversion H; subst; clear H. split.
  - unfold c, pushCtx. cbn. reflexivity.
  - unfold thr_ok. cbn. pose proof (u64_le_self amt Ha). pose proof (u64_le_self (u64 amt + 10000) ltac:(lia)). lia.
Qed.

(* in general: one granted request keeps the threshold within 10000 ticks of the counter (no wrap-around) *)
Theorem thr_ok_step now amt c c' :
  trackTime c = true -> thr_ok c -> 0 <= amt -> 0 <= cpu (used c) -> cpu (used c) + amt < W ->
  requireCPU now amt c = ROk c' -> thr_ok c'.
Proof.
  intros Ht Hok Ha Hu Hw. unfold requireCPU.
  destruct (negb (trackCpu c)); [intros H; inversion H; subst; exact Hok|].
  destruct (hard_stop c && live c); [discriminate|].
  destruct (atLimit _ _ && live c); [discriminate|].
  rewrite Ht. cbn [andb].
  rewrite (u64_add_small _ _ Hu Ha Hw).
  destruct (nextThr c <=? cpu (used c) + amt) eqn:E.
  - unfold updateTimeUsed.
    match goal with |- context [if ?b then _ else _] => destruct b end; [discriminate|].
    intros H; inversion H; subst; clear H. unfold thr_ok. cbn.
    pose proof (u64_le_self (cpu (used c) + amt + 10000) ltac:(lia)). lia.
  - intros H; inversion H; subst; clear H. unfold thr_ok in *. cbn. apply Z.leb_gt in E. lia.
Qed.

(* ---- a termination by the time limit does not lose the charge ----
   requireCPU records the CPU before it looks at the clock, and PopContext charges the memory before the CPU (the
   charge that can look at the clock): when the parent is terminated by its time limit while it absorbs what a child
   used, its counters hold everything the child used, so its own parent is charged with it in turn.  (Before the
   repair "fix: what a child used is charged in full even when the charge terminates the parent by its time limit"
   the CPU of the request and the child's memory were dropped: a context with a CPU limit could do unbounded work
   inside nested time-limited contexts that kept dying.) *)
Theorem requireCPU_time_kill_keeps_cpu now amt c c' l :
  requireCPU now amt c = RTerm c' (TTime l) ->
  cpu (used c') = u64 (cpu (used c) + amt) /\ mem (used c') = mem (used c).
Proof.
  unfold requireCPU.
  destruct (negb (trackCpu c)); [discriminate|].
  destruct (hard_stop c && live c); [discriminate|].
  destruct (atLimit _ _ && live c); [discriminate|].
  destruct (trackTime c && _); [|discriminate].
  unfold updateTimeUsed.
  match goal with |- context [if ?b then _ else _] => destruct b end; [|discriminate].
  intros H; inversion H; subst; clear H. cbn. split; reflexivity.
Qed.

Theorem pop_time_kill_keeps_charge now c p rest p' l :
  pop now (mkMgr c (p :: rest)) = MTerm (mkMgr p' rest) (TTime l) ->
  (exists p1, requireMem (mem (used c)) p = ROk p1 /\
     ((cpu (used p') = u64 (cpu (used p1) + cpu (used c)) /\ mem (used p') = mem (used p1)) \/
      (exists p2, requireCPU now (cpu (used c)) p1 = ROk p2 /\ cpu (used p') = cpu (used p2) /\ mem (used p') = mem (used p2)))).
Proof.
  unfold pop. cbn [parents cur].
  destruct (requireMem (mem (used c)) p) as [p1|p1 t1|p1] eqn:R1.
  - destruct (requireCPU now (cpu (used c)) p1) as [p2|p2 t2|p2] eqn:R2.
    + destruct (trackTime p2); [|discriminate].
      unfold updateTimeUsed.
      match goal with |- context [if ?b then _ else _] => destruct b end; [|discriminate].
      intros H; inversion H; subst; clear H. exists p1. split; [reflexivity|]. right. exists p2. cbn. auto.
    + intros H; inversion H; subst; clear H. exists p1. split; [reflexivity|]. left.
      exact (requireCPU_time_kill_keeps_cpu _ _ _ _ _ R2).
    + discriminate.
  - intros H; inversion H; subst; clear H. exfalso.
    revert R1. unfold requireMem. destruct (negb (trackMem p)); [discriminate|].
    destruct (hard_stop p && live p); [intros H; inversion H|].
    destruct (atLimit _ _ && live p); [intros H; inversion H|discriminate].
  - discriminate.
Qed.
