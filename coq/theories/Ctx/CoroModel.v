(* Ctx/CoroModel.v — coroutines x execution contexts, as golua implements them.

   runtime/runtimecontextmanager.go keeps ONE context stack per Runtime (PushContext /
   PopContext on the embedded manager), shared by every coroutine of that runtime, while
   every coroutine runs on its own goroutine with its own Go stack of Thread.CallContext
   frames (pcall, xpcall and runtime.callcontext are all CallContext; lib/base/pcall.go,
   lib/runtimelib).  A frame pushes a context when it is entered and its deferred function
   pops "the" current context when it is left — whichever context that is.

   The model keeps exactly that: a shared stack, per-thread open frames, the chain of
   running coroutines (resumer below resumee) and the events a program can cause.  Only
   the required compliance flags of a context are tracked (bit set on N as in Ctx/Model.v:
   memsafe=1 cpusafe=2 iosafe=4 timesafe=8); budgets are the subject of Ctx/Model.v, whose
   theorems hold for every sequence of manager operations whichever thread issues them. *)
From Coq Require Import NArith List Bool Arith.
Import ListNotations.

Definition tid := nat.   (* 0 is the main thread *)
Definition fid := nat.   (* identity of a CallContext frame = of the context it pushes *)

Record entry := mkEntry { eid : fid; eflags : N }.            (* a context on the shared stack *)
Record frame := mkFrame { fr_id : fid; fr_req : N }.          (* an open CallContext frame of a thread *)

Record cst := mkCst {
  stack : list entry;              (* shared context stack, current context first; the root context is not listed *)
  frames : tid -> list frame;      (* open frames per thread, innermost first *)
  chain : list tid;                (* running thread first, then its resumer, ..., main thread last *)
  dead : list tid;
  next : fid
}.

Inductive ev :=
| EPush (req : N)        (* the running thread enters CallContext with these required flags (pcall: 0) *)
| EExit                  (* the running thread leaves its innermost CallContext frame *)
| EResume (u : tid)      (* the running thread resumes coroutine u *)
| EYield                 (* the running coroutine yields to its resumer *)
| EEnd                   (* the running coroutine's body returns *)
| EObs.                  (* the running thread looks at runtime.context().flags *)

(* what a program can see *)
Inductive obs :=
| OExit (own : fid) (popped : option entry)   (* frame [own] was left; its deferred PopContext removed [popped] *)
| OFlags (required : N) (current : N).        (* flags required by the open frames of the running thread / flags in force *)

Definition upd (f : tid -> list frame) (t : tid) (v : list frame) : tid -> list frame :=
  fun x => if Nat.eqb x t then v else f x.

Definition top_flags (s : list entry) : N := match s with [] => 0%N | e :: _ => eflags e end.

Fixpoint req_of (l : list frame) : N := match l with [] => 0%N | f :: r => N.lor (fr_req f) (req_of r) end.

Definition memb (t : tid) (l : list tid) : bool := existsb (Nat.eqb t) l.

Definition init : cst := mkCst [] (fun _ => []) [0] [] 0.

(* one event; None = the event cannot happen in that state (the generator never produces it) *)
Definition step (s : cst) (e : ev) : option (cst * list obs) :=
  match chain s with
  | [] => None
  | t :: rest =>
    match e with
    | EPush req =>
      let en := mkEntry (next s) (N.lor req (top_flags (stack s))) in
      Some (mkCst (en :: stack s) (upd (frames s) t (mkFrame (next s) req :: frames s t)) (chain s) (dead s) (S (next s)), [])
    | EExit =>
      match frames s t with
      | [] => None
      | f :: fs =>
        let (popped, st') := match stack s with [] => (None, []) | en :: st' => (Some en, st') end in
        Some (mkCst st' (upd (frames s) t fs) (chain s) (dead s) (next s), [OExit (fr_id f) popped])
      end
    | EResume u =>
      if memb u (chain s) || memb u (dead s) then None
      else Some (mkCst (stack s) (frames s) (u :: chain s) (dead s) (next s), [])
    | EYield =>
      match rest with [] => None | _ => Some (mkCst (stack s) (frames s) rest (dead s) (next s), []) end
    | EEnd =>
      match rest, frames s t with
      | _ :: _, [] => Some (mkCst (stack s) (frames s) rest (t :: dead s) (next s), [])
      | _, _ => None
      end
    | EObs => Some (s, [OFlags (req_of (frames s t)) (top_flags (stack s))])
    end
  end.

Fixpoint run (s : cst) (l : list ev) : option (cst * list obs) :=
  match l with
  | [] => Some (s, [])
  | e :: r =>
    match step s e with
    | None => None
    | Some (s', o) =>
      match run s' r with None => None | Some (s'', o') => Some (s'', o ++ o') end
    end
  end.

(* ---- what C07 / C08 promise about these observations ---- *)

(* every CallContext frame ends the context it created (so the object it returns describes that context) *)
Definition exit_ok (o : obs) : bool :=
  match o with
  | OExit own (Some en) => Nat.eqb (eid en) own
  | OExit _ None => false
  | OFlags req cur => N.eqb (N.ldiff req cur) 0
  end.
(* ... and while the body of a context requiring flags F runs, F is in force *)
Definition all_ok (l : list obs) : bool := forallb exit_ok l.

(* the discipline under which the shared stack is sound: no coroutine is suspended inside an open frame *)
Fixpoint disciplined (s : cst) (l : list ev) : bool :=
  match l with
  | [] => true
  | e :: r =>
    (match e, chain s with
     | EYield, t :: _ => match frames s t with [] => true | _ => false end
     | _, _ => true
     end) &&
    match step s e with None => true | Some (s', _) => disciplined s' r end
  end.

(* executable comparison used by the correspondence check (lib/props/C07.py): what a Lua program can report —
   for an exit the flags of the context object it got back, for a look the flags in force — against the model's *)
Inductive pobs :=
| PExit (own : fid) (fl : option N)   (* runtime.callcontext returned an object with these flags (None: it returned nil) *)
| PExitAny (own : fid)                (* pcall/xpcall returned: no context object to look at *)
| PCur (cur : N).                     (* runtime.context().flags *)
Definition proj (o : obs) : pobs :=
  match o with OExit own p => PExit own (option_map eflags p) | OFlags _ c => PCur c end.
Definition optN_eqb (a b : option N) : bool :=
  match a, b with Some x, Some y => N.eqb x y | None, None => true | _, _ => false end.
Definition pobs_eqb (model seen : pobs) : bool :=
  match model, seen with
  | PExit x f1, PExit y f2 => Nat.eqb x y && optN_eqb f1 f2
  | PExit x _, PExitAny y => Nat.eqb x y
  | PCur c1, PCur c2 => N.eqb c1 c2
  | _, _ => false
  end.
Fixpoint pobs_list_eqb (a b : list pobs) : bool :=
  match a, b with
  | [], [] => true
  | x :: a', y :: b' => pobs_eqb x y && pobs_list_eqb a' b'
  | _, _ => false
  end.
(* verdict on one observed history: bit 0 = the model reproduces what the implementation reported,
   bit 1 = the observations satisfy the property, bit 2 = the history is disciplined *)
Definition verdict (h : list ev) (seen : list pobs) : N :=
  match run init h with
  | None => 8%N
  | Some (_, o) =>
    ((if pobs_list_eqb (map proj o) seen then 1 else 0) + (if all_ok o then 2 else 0) + (if disciplined init h then 4 else 0))%N
  end.
