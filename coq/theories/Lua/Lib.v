(* Lua/Lib.v — pure parts of the standard-library functions LuaCore offers
   (manual 6.1, 6.4, 6.6, 6.7) and the initial store with the global table.
   Definitions only.  The functions that need the machine (pcall, error,
   ipairs, ...) are dispatched in Lua/Machine.v. *)
From Coq Require Import ZArith NArith List Bool String FMapPositive.
From GV Require Import Base.W64 Base.F64 Lua.Syntax Lua.Num Lua.Value.
Import ListNotations.
Open Scope Z_scope.

Definition slen (s : str) : Z := Z.of_nat (List.length s).

(* string positions (manual 6.4: negative positions count from the end) *)
Definition posrelatI (pos len : Z) : Z :=
  if 0 <? pos then pos else if pos =? 0 then 1 else if pos <? - len then 1 else len + pos + 1.
Definition getendpos (pos len : Z) : Z :=
  if len <? pos then len else if 0 <=? pos then pos else if pos <? - len then 0 else len + pos + 1.

Definition slice (s : str) (i j : Z) : str :=   (* 1-based inclusive, already clipped *)
  if j <? i then [] else firstn (Z.to_nat (j - i + 1)) (skipn (Z.to_nat (i - 1)) s).

Definition str_sub (s : str) (i j : Z) : str :=
  let l := slen s in slice s (posrelatI i l) (getendpos j l).

Fixpoint rep_nat (n : nat) (s : str) : str :=
  match n with O => [] | S m => s ++ rep_nat m s end.
Definition str_rep (s : str) (n : Z) : str := if n <=? 0 then [] else rep_nat (Z.to_nat n) s.

Definition str_byte (s : str) (i j : Z) : list value :=
  let l := slen s in
  map (fun c => VInt (Z.of_N c)) (slice s (posrelatI i l) (getendpos j l)).

Fixpoint str_char (vs : list value) : option str :=
  match vs with
  | [] => Some []
  | VInt z :: r => if (0 <=? z) && (z <=? 255) then
                     match str_char r with Some s => Some (Z.to_N z :: s) | None => None end
                   else None
  | _ => None
  end.

(* tostring for the values whose rendering the manual fixes *)
Definition tostring_basic (v : value) : option str :=
  match v with
  | VNil => Some ((lit "nil"))
  | VBool true => Some ((lit "true"))
  | VBool false => Some ((lit "false"))
  | VInt z => Some (dec_of_Z z)
  | VStr s => Some s
  | _ => None
  end.

(* the string form of a concatenation operand *)
Definition concat_str (v : value) : option (option str) :=   (* None: not string/number; Some None: unsupported float *)
  match v with
  | VStr s => Some (Some s)
  | VInt z => Some (Some (dec_of_Z z))
  | VFlt _ => Some None
  | _ => None
  end.

(* table.unpack *)
Fixpoint seq_get (m : tmap) (i : Z) (n : nat) : list value :=
  match n with O => [] | S k => tm_get m (VInt i) :: seq_get m (i + 1) k end.

Fixpoint seq_set (m : tmap) (i : Z) (vs : list value) : tmap :=
  match vs with [] => m | v :: r => seq_set (tm_set m (VInt i) v) (i + 1) r end.

(* table.insert(t, pos, v) for 1 <= pos <= n+1 *)
Definition tab_insert (m : tmap) (pos : Z) (v : value) : tmap :=
  let n := border m in
  let tail := seq_get m pos (Z.to_nat (n - pos + 1)) in
  seq_set m pos (v :: tail).

(* table.remove(t, pos): literal transcription of the manual's description *)
Definition tab_remove (m : tmap) (pos : Z) : value * tmap :=
  let n := border m in
  let v := tm_get m (VInt pos) in
  let tail := seq_get m (pos + 1) (Z.to_nat (n - pos)) in
  let m1 := seq_set m pos tail in
  (v, tm_set m1 (VInt (if pos <? n then n else pos)) VNil).

Fixpoint concat_list (vs : list value) (sep : str) : option str :=
  match vs with
  | [] => Some []
  | v :: r =>
      match concat_str v with
      | Some (Some s) =>
          match r with
          | [] => Some s
          | _ => match concat_list r sep with Some t => Some (s ++ sep ++ t) | None => None end
          end
      | _ => None
      end
  end.

Definition select_vals (n : Z) (vs : list value) : option (list value) :=
  let cnt := Z.of_nat (List.length vs) in
  if 0 <? n then Some (skipn (Z.to_nat (n - 1)) vs)
  else if (n <? 0) && (- n <=? cnt) then Some (skipn (Z.to_nat (cnt + n)) vs)
  else None.

(* ------------------------------------------------------------ initial store *)

Definition fld (n : str) (b : builtin) : value * value := (VStr n, VBuiltin b).

Definition string_id : positive := 3%positive.
Definition math_id : positive := 4%positive.
Definition table_id : positive := 5%positive.
Definition coroutine_id : positive := 6%positive.

Definition globals_tab : table := mkTab [
  fld (lit "emit") BEmit; fld (lit "pcall") BPcall; fld (lit "xpcall") BXpcall; fld (lit "error") BError;
  fld (lit "assert") BAssert; fld (lit "select") BSelect; fld (lit "type") BType; fld (lit "rawget") BRawget;
  fld (lit "rawset") BRawset; fld (lit "rawequal") BRawequal; fld (lit "rawlen") BRawlen; fld (lit "ipairs") BIpairs;
  fld (lit "setmetatable") BSetmt; fld (lit "getmetatable") BGetmt; fld (lit "tostring") BTostring;
  fld (lit "tonumber") BTonumber; fld (lit "next") BNext; fld (lit "pairs") BPairs;
  (VStr ((lit "string")), VTab string_id); (VStr ((lit "math")), VTab math_id);
  (VStr ((lit "table")), VTab table_id); (VStr ((lit "coroutine")), VTab coroutine_id) ] None.

Definition strmeta_tab : table := mkTab [ (VStr ((lit "__index")), VTab string_id) ] None.
Definition string_tab : table := mkTab [
  fld (lit "len") BStrLen; fld (lit "sub") BStrSub; fld (lit "rep") BStrRep; fld (lit "byte") BStrByte; fld (lit "char") BStrChar ] None.
Definition math_tab : table := mkTab [
  fld (lit "type") BMathType; fld (lit "tointeger") BMathToint;
  (VStr ((lit "maxinteger")), VInt maxint); (VStr ((lit "mininteger")), VInt minint);
  (VStr ((lit "huge")), VFlt (finf false)) ] None.
Definition table_tab : table := mkTab [
  fld (lit "insert") BTabInsert; fld (lit "remove") BTabRemove; fld (lit "unpack") BTabUnpack; fld (lit "pack") BTabPack;
  fld (lit "concat") BTabConcat ] None.
Definition coroutine_tab : table := mkTab [
  fld (lit "create") BCoCreate; fld (lit "resume") BCoResume; fld (lit "yield") BCoYield; fld (lit "status") BCoStatus;
  fld (lit "wrap") BCoWrap; fld (lit "close") BCoClose; fld (lit "isyieldable") BCoIsYieldable; fld (lit "running") BCoRunning ] None.

Definition init_tabs : PositiveMap.t table :=
  PositiveMap.add globals_id globals_tab
  (PositiveMap.add strmeta_id strmeta_tab
  (PositiveMap.add string_id string_tab
  (PositiveMap.add math_id math_tab
  (PositiveMap.add table_id table_tab
  (PositiveMap.add coroutine_id coroutine_tab (PositiveMap.empty table)))))).

Definition init_store : store :=
  mkStore (PositiveMap.empty value) 1%positive init_tabs 7%positive (PositiveMap.empty closure) 1%positive.
