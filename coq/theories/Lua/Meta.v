(* Lua/Meta.v — theorems about LuaCore (the machine of Lua/Machine.v).
   Everything is universally quantified over configurations, stacks, stores
   and step counts; nothing is bounded. *)
From Coq Require Import ZArith NArith List Bool Lia FMapPositive.
From GV Require Import Base.W64 Base.F64 Lua.Syntax Lua.Num Lua.Value Lua.Lib Lua.Machine.
Import ListNotations.
Open Scope Z_scope.

(* ------------------------------------------------------------ running *)

Lemma steps_plus : forall n m c,
  steps (n + m) c = match steps n c with inl c' => steps m c' | inr f => inr f end.
Proof.
  induction n; intros; simpl; auto.
  destruct (step c); auto.
Qed.

Lemma steps_final_stable : forall n c f, step c = inr f -> steps (S n) c = inr f.
Proof. intros. simpl. rewrite H. reflexivity. Qed.

(* ------------------------------------------------------------ adjustment *)

(* (e) yields exactly one value whatever e delivered *)
Lemma paren_one_value : forall c vs k,
  ctl c = CRet vs -> stk c = KFirst :: k ->
  step c = inl (mkCfg (CRet [first vs]) k (sto c) (trace c) (cline c)).
Proof. intros c vs k H1 H2. unfold step. rewrite H1, H2. reflexivity. Qed.

(* an expression that is not the last of a list contributes exactly one value *)
Lemma list_middle_one_value : forall c vs acc e rest ρ lk k,
  ctl c = CRet vs -> stk c = KList acc (e :: rest) ρ lk :: k ->
  step c = inl (mkCfg (CExp e ρ) (KList (acc ++ [first vs]) rest ρ lk :: k) (sto c) (trace c) (cline c)).
Proof. intros. unfold step. rewrite H, H0. reflexivity. Qed.

(* the last expression of a list contributes all its values *)
Lemma list_last_all_values : forall c vs acc ρ lk k,
  ctl c = CRet vs -> stk c = KList acc [] ρ lk :: k ->
  step c = finish_list c (acc ++ vs) ρ lk k.
Proof. intros. unfold step. rewrite H, H0. reflexivity. Qed.
