(* Lua/Meta.v — theorems about LuaCore (the machine of Lua/Machine.v).
   Everything is universally quantified over configurations, stacks, stores
   and step counts; nothing is bounded. *)
From Coq Require Import ZArith NArith List Bool Lia FMapPositive.
From GV Require Import Base.W64 Base.F64 Lua.Syntax Lua.Num Lua.Value Lua.Lib Lua.Machine.
Import ListNotations.
Open Scope Z_scope.

(* ------------------------------------------------------------ running *)

Lemma steps_plus : forall n m c,
  steps (n + m) c = match steps n c with inl c' => steps m c' | inr f => inr f end.
Proof.
  induction n; intros; simpl; auto.
  destruct (step c); auto.
Qed.

Lemma steps_final_stable : forall n c f, step c = inr f -> steps (S n) c = inr f.
Proof. intros. simpl. rewrite H. reflexivity. Qed.

(* ------------------------------------------------------------ adjustment *)

(* (e) yields exactly one value whatever e delivered *)
Lemma paren_one_value : forall c vs k,
  ctl c = CRet vs -> stk c = KFirst :: k ->
  step c = inl (mkCfg (CRet [first vs]) k (sto c) (trace c) (cline c) (cot c)).
Proof. intros c vs k H1 H2. unfold step. rewrite H1, H2. reflexivity. Qed.

(* an expression that is not the last of a list contributes exactly one value *)
Lemma list_middle_one_value : forall c vs acc e rest ρ lk k,
  ctl c = CRet vs -> stk c = KList acc (e :: rest) ρ lk :: k ->
  step c = inl (mkCfg (CExp e ρ) (KList (acc ++ [first vs]) rest ρ lk :: k) (sto c) (trace c) (cline c) (cot c)).
Proof. intros. unfold step. rewrite H, H0. reflexivity. Qed.

(* the last expression of a list contributes all its values *)
Lemma list_last_all_values : forall c vs acc ρ lk k,
  ctl c = CRet vs -> stk c = KList acc [] ρ lk :: k ->
  step c = finish_list c (acc ++ vs) ρ lk k.
Proof. intros. unfold step. rewrite H, H0. reflexivity. Qed.

(* ------------------------------------------------------------ errors (C11) *)

(* frames that an error outcome passes through without stopping *)
Definition passes_error (fr : frame) : bool :=
  match fr with KPcall _ | KCoBottom _ _ | KScope _ | KClosing (POut (OClose _)) => false | _ => true end.

(* the current line after unwinding through the frames k1 *)
Fixpoint unwind_line (k1 : list frame) (ln : Z) : Z :=
  match k1 with
  | [] => ln
  | KCallB saved _ :: r => unwind_line r saved
  | _ :: r => unwind_line r ln
  end.

Lemma step_error_pop : forall fr v k σ tr ln cs,
  passes_error fr = true ->
  step (mkCfg (COut (OError v)) (fr :: k) σ tr ln cs) =
  inl (mkCfg (COut (OError v)) k σ tr (unwind_line [fr] ln) cs).
Proof. intros. destruct fr; try discriminate; try reflexivity. destruct p as [|[]]; try discriminate; reflexivity. Qed.

(* nearest_barrier_only + error_value_intact + the `false, v` half of pcall_results:
   an error unwinds the frames up to and including the nearest barrier, and nothing
   else: the frames further out (k2), the store and the trace are untouched, and the
   barrier's continuation receives exactly `false` and the value raised. *)
Theorem error_reaches_nearest_barrier : forall k1 h k2 v σ tr ln cs,
  forallb passes_error k1 = true ->
  steps (length k1 + 1) (mkCfg (COut (OError v)) (k1 ++ KPcall h :: k2) σ tr ln cs) =
  inl (mkCfg (CRet [VBool false; v]) k2 σ tr (unwind_line k1 ln) cs).
Proof.
  induction k1 as [|fr k1 IH]; intros h k2 v σ tr ln cs H.
  - reflexivity.
  - simpl in H. apply andb_prop in H. destruct H as [Hf Hr].
    change (length (fr :: k1) + 1)%nat with (S (length k1 + 1)).
    cbn [steps app].
    rewrite (step_error_pop fr v (k1 ++ KPcall h :: k2) σ tr ln cs Hf).
    rewrite (IH h k2 v σ tr _ cs Hr).
    destruct fr; reflexivity.
Qed.

(* an uncaught error reaches the embedding caller with its value intact *)
Theorem error_reaches_host : forall k1 v σ tr ln cs,
  forallb passes_error k1 = true ->
  steps (length k1 + 1) (mkCfg (COut (OError v)) k1 σ tr ln cs) = inr (FError v).
Proof.
  induction k1 as [|fr k1 IH]; intros v σ tr ln cs H.
  - reflexivity.
  - simpl in H. apply andb_prop in H. destruct H as [Hf Hr].
    change (length (fr :: k1) + 1)%nat with (S (length k1 + 1)).
    cbn [steps].
    rewrite (step_error_pop fr v k1 σ tr ln cs Hf).
    apply IH. exact Hr.
Qed.

(* pcall_results, normal return: true followed by all results *)
Theorem pcall_returns_true_and_all : forall vs h k σ tr ln cs,
  step (mkCfg (CRet vs) (KPcall h :: k) σ tr ln cs) = inl (mkCfg (CRet (VBool true :: vs)) k σ tr ln cs).
Proof. reflexivity. Qed.

(* frames that neither stop an error nor hide the barrier's handler *)
Definition plain_frame (fr : frame) : bool :=
  match fr with KPcall _ | KCoBottom _ _ | KScope _ | KHandler | KClosing (POut (OClose _)) => false | _ => true end.

Lemma plain_passes : forall k, forallb plain_frame k = true -> forallb passes_error k = true.
Proof.
  induction k as [|fr k IH]; simpl; auto. intros H. apply andb_prop in H. destruct H as [H1 H2].
  rewrite (IH H2). destruct fr; try discriminate; try reflexivity. destruct p as [|[]]; try discriminate; reflexivity.
Qed.

Lemma find_handler_nearest : forall k1 h k2,
  forallb plain_frame k1 = true -> find_handler (k1 ++ KPcall h :: k2) = h.
Proof.
  induction k1 as [|fr k1 IH]; simpl; intros; auto.
  apply andb_prop in H. destruct H as [H1 H2].
  destruct fr; try discriminate; apply IH; auto.
Qed.

(* a raise under a plain pcall: no handler runs — in particular not the handler of
   an xpcall further out (in k2) — and the barrier's continuation gets false, v. *)
Theorem raise_under_pcall_no_outer_handler : forall k1 k2 v σ tr ln cs,
  forallb plain_frame k1 = true ->
  steps (S (length k1 + 1)) (mkCfg (CRaise v) (k1 ++ KPcall None :: k2) σ tr ln cs) =
  inl (mkCfg (CRet [VBool false; v]) k2 σ tr (unwind_line k1 ln) cs).
Proof.
  intros. cbn [steps]. unfold step at 1. cbn [ctl stk].
  rewrite find_handler_nearest by assumption.
  unfold go. cbn [sto trace cline cot].
  apply error_reaches_nearest_barrier. apply plain_passes; assumption.
Qed.

(* xpcall: the handler is called once, at the point of the error (the whole stack is
   still in place under the KHandler frame) ... *)
Theorem raise_calls_handler_at_raise_point : forall k1 h k2 v σ tr ln cs,
  forallb plain_frame k1 = true ->
  step (mkCfg (CRaise v) (k1 ++ KPcall (Some h) :: k2) σ tr ln cs) =
  inl (mkCfg (CCall h [v] false) (KHandler :: k1 ++ KPcall (Some h) :: k2) σ tr ln cs).
Proof.
  intros. unfold step. cbn [ctl stk]. rewrite find_handler_nearest by assumption. reflexivity.
Qed.

(* ... and when it returns, its first result replaces the error value, which then goes
   to the barrier without the handler being consulted again. *)
Theorem handler_result_replaces_error : forall k1 h k2 vs σ tr ln cs,
  forallb passes_error k1 = true ->
  steps (S (length k1 + 1)) (mkCfg (CRet vs) (KHandler :: k1 ++ KPcall (Some h) :: k2) σ tr ln cs) =
  inl (mkCfg (CRet [VBool false; first vs]) k2 σ tr (unwind_line k1 ln) cs).
Proof.
  intros. cbn [steps]. unfold step at 1. cbn [ctl stk step_ret]. unfold go. cbn [sto trace cline cot].
  apply error_reaches_nearest_barrier. assumption.
Qed.

(* while a handler runs, a further error does not start another handler *)
Theorem no_handler_inside_handler : forall k1 k v σ tr ln cs,
  forallb plain_frame k1 = true ->
  step (mkCfg (CRaise v) (k1 ++ KHandler :: k) σ tr ln cs) =
  inl (mkCfg (COut (OError v)) (k1 ++ KHandler :: k) σ tr ln cs).
Proof.
  intros. unfold step. cbn [ctl stk].
  assert (E : find_handler (k1 ++ KHandler :: k) = None).
  { clear -H. induction k1 as [|fr k1 IH]; simpl in *; auto.
    apply andb_prop in H. destruct H as [H1 H2]. destruct fr; try discriminate; auto. }
  rewrite E. reflexivity.
Qed.

(* error(v) with a non-string value, or level 0, raises v itself *)
Theorem error_builtin_raises_value : forall v k σ tr ln cs,
  (forall s, v <> VStr s) ->
  step (mkCfg (CCall (VBuiltin BError) [v] true) k σ tr ln cs) = inl (mkCfg (CRaise v) k σ tr ln cs).
Proof.
  intros. unfold step, step_call, call_builtin. cbn [ctl stk opt_int nth_error first].
  destruct v; try reflexivity. exfalso. apply (H s). reflexivity.
Qed.

Theorem error_builtin_level1_position : forall s k σ tr ln cs,
  step (mkCfg (CCall (VBuiltin BError) [VStr s] true) k σ tr ln cs) =
  inl (mkCfg (CRaise (VStr (position_at ln ++ s))) k σ tr ln cs).
Proof. reflexivity. Qed.

Theorem error_builtin_level0_intact : forall s k σ tr ln cs,
  step (mkCfg (CCall (VBuiltin BError) [VStr s; VInt 0] true) k σ tr ln cs) =
  inl (mkCfg (CRaise (VStr s)) k σ tr ln cs).
Proof. reflexivity. Qed.

(* the hypotheses are satisfiable: a call frame, a loop frame and a block frame above a barrier *)
Example barrier_example :
  forallb plain_frame [KSeq [] (mkEnv [] []) []; KCallB 3 true; KForNumI [120%N] 1 3 1 [] (mkEnv [] []) 2] = true.
Proof. reflexivity. Qed.

(* ------------------------------------------------------------ scoping (C01) *)

(* assign_rhs_first: in `a, b = b, a` both right-hand sides are evaluated before any
   assignment: the two variables are swapped, for every store, stack and pair of
   distinct cells. *)
Definition na : name := [97%N].
Definition nb : name := [98%N].

Theorem assign_rhs_first_swap : forall ca cb rest va' k σ tr ln ln0 cs,
  let ρ := mkEnv ((nb, cb) :: (na, ca) :: rest) va' in
  steps 8 (mkCfg (CStat ln (SAssign [EVar na; EVar nb] [EVar nb; EVar na]) ρ) k σ tr ln0 cs) =
  inl (mkCfg CDone k (cell_set (cell_set σ ca (cell_get σ cb)) cb (cell_get σ ca)) tr ln0 cs).
Proof. intros. reflexivity. Qed.

(* every execution of a `local` statement binds a cell that was not allocated before *)
Definition cells_below (s : store) : Prop :=
  forall c, PositiveMap.find c (cells s) <> None -> (c < ncell s)%positive.

Lemma cell_alloc_fresh : forall s v, cells_below s -> PositiveMap.find (fst (cell_alloc s v)) (cells s) = None.
Proof.
  intros s v H. unfold cell_alloc. cbn [fst].
  destruct (PositiveMap.find (ncell s) (cells s)) eqn:E; auto.
  assert (ncell s < ncell s)%positive by (apply H; rewrite E; discriminate). lia.
Qed.

Lemma cell_alloc_below : forall s v, cells_below s -> cells_below (snd (cell_alloc s v)).
Proof.
  intros s v H c. unfold cell_alloc. cbn [snd cells ncell].
  rewrite PositiveMapAdditionalFacts.gsspec.
  destruct (PositiveMap.E.eq_dec c (ncell s)).
  - intros _. subst. lia.
  - intros Hc. specialize (H c Hc). lia.
Qed.

(* fresh_cell_per_iteration, numeric for: when the loop goes on, the loop variable of
   the next iteration lives in the cell `ncell` of the current store — a cell no
   earlier iteration (nor anything else) can hold — and the counter moves past it. *)
Theorem fresh_cell_per_iteration_fornum : forall x cur lim st b ρ ln k σ tr ln0 cs,
  ((if 0 <? st then cur + st <=? lim else lim <=? cur + st) && in64b (cur + st))%bool = true ->
  step (mkCfg CDone (KForNumI x cur lim st b ρ ln :: k) σ tr ln0 cs) =
  inl (mkCfg (CBlock b (mkEnv ((x, ncell σ) :: vars ρ) (va ρ)) [])
             (KForNumI x (cur + st) lim st b ρ ln :: k)
             (snd (cell_alloc σ (VInt (cur + st)))) tr ln0 cs)
  /\ ncell (snd (cell_alloc σ (VInt (cur + st)))) = Pos.succ (ncell σ).
Proof.
  intros. split; [|reflexivity].
  unfold step. cbn [ctl stk step_done]. unfold enter_fornum_i. cbn [sto].
  rewrite H. reflexivity.
Qed.

(* the same for generic for: each iteration binds its variables with bind_names on the
   current store, i.e. in fresh cells *)
Theorem fresh_cells_per_iteration_forin : forall xs f s b ρ ln k σ tr ln0 cs v vs,
  v <> VNil ->
  step (mkCfg (CRet (v :: vs)) (KForInC xs f s b ρ ln :: k) σ tr ln0 cs) =
  inl (let '(ρv, s', _) := bind_names xs (v :: vs) (vars ρ) σ in
       mkCfg (CBlock b (mkEnv ρv (va ρ)) []) (KForIn xs f s v b ρ ln :: k) s' tr ln0 cs).
Proof.
  intros. unfold step. cbn [ctl stk step_ret first sto].
  destruct v; try congruence; destruct (bind_names xs _ (vars ρ) σ) as [[? ?] ?]; reflexivity.
Qed.

Lemma bind_names_ncell : forall xs vs ρ s,
  (ncell s <= ncell (snd (fst (bind_names xs vs ρ s))))%positive.
Proof.
  induction xs; intros; simpl. lia.
  specialize (IHxs (tl vs) ((a, ncell s) :: ρ)
    (mkStore (PositiveMap.add (ncell s) (first vs) (cells s)) (Pos.succ (ncell s)) (tabs s) (ntab s) (clos s) (nclo s))).
  cbn [ncell] in IHxs. lia.
Qed.

(* a `local` statement with values already evaluated binds fresh cells and continues the block *)
Lemma close_val_none : forall xs vals, has_close xs = false -> close_val xs vals = None.
Proof.
  induction xs as [|[x a] xs IH]; intros vals H; simpl in *; auto.
  destruct a; simpl in H; try discriminate; apply IH; auto.
Qed.

Theorem local_binds_fresh : forall xs rest seen acc ρ k σ tr ln cs vs,
  has_close xs = false ->
  step (mkCfg (CRet vs) (KList acc [] ρ (LLocal xs rest seen) :: k) σ tr ln cs) =
  inl (let '(ρv, s, _) := bind_names (map fst xs) (acc ++ vs) (vars ρ) σ in
       mkCfg (CBlock rest (mkEnv ρv (va ρ)) seen) k s tr ln cs).
Proof.
  intros. unfold step. cbn [ctl stk step_ret finish_list sto]. rewrite (close_val_none xs (acc ++ vs) H).
  destruct (bind_names (map fst xs) (acc ++ vs) (vars ρ) σ) as [[? ?] ?]. reflexivity.
Qed.

(* ------------------------------------------------------------ identities are never reused *)

Definition mono (s s' : store) : Prop :=
  (ncell s <= ncell s')%positive /\ (ntab s <= ntab s')%positive /\ (nclo s <= nclo s')%positive.

Lemma mono_refl : forall s, mono s s.
Proof. intros; repeat split; lia. Qed.
Lemma mono_trans : forall a b c, mono a b -> mono b c -> mono a c.
Proof. unfold mono; intros; intuition lia. Qed.

Definition res_mono (s : store) (r : res) : Prop :=
  match r with inl c' => mono s (sto c') | inr _ => True end.

Lemma mono_cell_set : forall s c v, mono s (cell_set s c v).
Proof. intros; repeat split; cbn; lia. Qed.
Lemma mono_cell_alloc : forall s v, mono s (snd (cell_alloc s v)).
Proof. intros; repeat split; cbn; lia. Qed.
Lemma mono_tab_put : forall s t x, mono s (tab_put s t x).
Proof. intros; repeat split; cbn; lia. Qed.
Lemma mono_tab_alloc : forall s x, mono s (snd (tab_alloc s x)).
Proof. intros; repeat split; cbn; lia. Qed.
Lemma mono_clo_alloc : forall s x, mono s (snd (clo_alloc s x)).
Proof. intros; repeat split; cbn; lia. Qed.
Lemma mono_rawset : forall s t k v, mono s (rawset s t k v).
Proof. intros; unfold rawset; apply mono_tab_put. Qed.
Lemma mono_bind_names : forall xs vs ρ s, mono s (snd (fst (bind_names xs vs ρ s))).
Proof.
  induction xs; intros; simpl. apply mono_refl.
  eapply mono_trans; [|apply IHxs]. repeat split; cbn; lia.
Qed.

Ltac msolve := first [ exact (mono_refl _) | exact I
  | (unfold mono, rawset, tab_put, cell_set, put_map; cbn [ncell ntab nclo sto]; repeat split; lia) ].

Ltac fin :=
  repeat match goal with
  | |- res_mono _ (go _ _ _) => exact (mono_refl _)
  | |- res_mono _ (gol _ _ _ _) => exact (mono_refl _)
  | |- res_mono _ (goc _ _ _ _ _) => exact (mono_refl _)
  | |- res_mono _ (rterr _ _ _) => exact (mono_refl _)
  | |- res_mono _ (inr _) => exact I
  | |- res_mono _ (inl _) => cbn [res_mono sto]
  | |- res_mono _ (gos _ _ _ _) => unfold gos; cbn [res_mono sto]
  end; try msolve.

Ltac brk :=
  repeat match goal with
  | |- res_mono _ (match ?x with _ => _ end) => destruct x
  | |- res_mono _ (if ?x then _ else _) => destruct x
  | |- res_mono _ (let '(_, _) := ?x in _) => destruct x eqn:?
  end.

Lemma enter_fornum_i_mono : forall c x cur lim st b ρ ln k, res_mono (sto c) (enter_fornum_i c x cur lim st b ρ ln k).
Proof. intros. unfold enter_fornum_i, cell_alloc. brk; fin. Qed.
Lemma enter_fornum_f_mono : forall c x cur lim st b ρ ln k, res_mono (sto c) (enter_fornum_f c x cur lim st b ρ ln k).
Proof. intros. unfold enter_fornum_f, cell_alloc. brk; fin. Qed.

Lemma fornum_init_mono : forall c x b ρ ln vals k, res_mono (sto c) (fornum_init c x b ρ ln vals k).
Proof.
  intros. unfold fornum_init.
  brk; fin; try apply enter_fornum_i_mono; try apply enter_fornum_f_mono.
Qed.

Lemma finish_list_mono : forall c vals ρ lk k, res_mono (sto c) (finish_list c vals ρ lk k).
Proof.
  intros. unfold finish_list, tab_alloc. destruct lk.
  - brk; fin.
  - fin.
  - pose proof (mono_bind_names (map fst xs) vals (vars ρ) (sto c)) as M.
    destruct (bind_names (map fst xs) vals (vars ρ) (sto c)) as [[? ?] ?]. cbn [fst snd] in M.
    brk; fin; exact M.
  - brk; fin.
  - brk; fin.
  - apply fornum_init_mono.
  - brk; fin.
Qed.

Lemma start_list_mono : forall c acc es ρ lk k, res_mono (sto c) (start_list c acc es ρ lk k).
Proof. intros. unfold start_list. destruct es; fin. apply finish_list_mono. Qed.

Lemma step_binop_mono : forall c o a b k, res_mono (sto c) (step_binop c o a b k).
Proof. intros. unfold step_binop. destruct o; brk; fin. Qed.
Lemma step_unop_mono : forall c o a k, res_mono (sto c) (step_unop c o a k).
Proof. intros. unfold step_unop. destruct o; brk; fin. Qed.
Lemma step_index_mono : forall c t kk k, res_mono (sto c) (step_index c t kk k).
Proof. intros. unfold step_index. brk; fin. Qed.
Lemma step_setindex_mono : forall c t kk v k, res_mono (sto c) (step_setindex c t kk v k).
Proof. intros. unfold step_setindex. brk; fin. Qed.
Lemma resume_co_mono : forall c id args k, res_mono (sto c) (resume_co c id args k).
Proof. intros. unfold resume_co. brk; fin. Qed.
Lemma call_builtin_mono : forall c b args lua k, res_mono (sto c) (call_builtin c b args lua k).
Proof. intros. unfold call_builtin, tab_alloc. destruct b; brk; fin; try apply resume_co_mono. Qed.

Lemma step_call_mono : forall c f args lua k, res_mono (sto c) (step_call c f args lua k).
Proof.
  intros. unfold step_call. destruct f; try (brk; fin; fail).
  - destruct (PositiveMap.find id (clos (sto c))); [|fin].
    pose proof (mono_bind_names (c_params c0) args (c_env c0) (sto c)) as M.
    destruct (bind_names (c_params c0) args (c_env c0) (sto c)) as [[? ?] ?]. cbn [fst snd] in M. fin. exact M.
  - apply call_builtin_mono.
Qed.

Lemma step_stat_mono : forall c ln s ρ k, res_mono (sto c) (step_stat c ln s ρ k).
Proof. intros. unfold step_stat. destruct s; try apply start_list_mono; brk; fin. Qed.

Lemma step_block_mono : forall c ss ρ seen k, res_mono (sto c) (step_block c ss ρ seen k).
Proof.
  intros. unfold step_block, cell_alloc, clo_alloc. destruct ss as [|[ln s] rest]; [fin|].
  destruct s; try (fin; fail).
  - exact (start_list_mono (mkCfg (ctl c) (stk c) (sto c) (trace c) ln (cot c)) [] es ρ (LLocal xs rest seen) k).
  - brk; fin.
Qed.

Lemma step_exp_mono : forall c e ρ k, res_mono (sto c) (step_exp c e ρ k).
Proof. intros. unfold step_exp, clo_alloc. destruct e; try apply start_list_mono; brk; fin. Qed.

Lemma step_ret_mono : forall c vs fr k, res_mono (sto c) (step_ret c vs fr k).
Proof.
  intros. unfold step_ret. destruct fr; try (brk; fin; fail).
  - destruct (first vs); try fin;
    match goal with |- context[bind_names ?a ?b ?c ?d] =>
      pose proof (mono_bind_names a b c d) as M; destruct (bind_names a b c d) as [[? ?] ?]; cbn [fst snd] in M; fin; exact M end.
  - destruct rest; [apply finish_list_mono | fin].
  - apply start_list_mono.
Qed.

Lemma close_scope_mono : forall c v p k, res_mono (sto c) (close_scope c v p k).
Proof. intros. unfold close_scope. brk; fin. Qed.
Lemma step_done_mono : forall c fr k, res_mono (sto c) (step_done c fr k).
Proof.
  intros. unfold step_done. destruct fr; try (fin; fail).
  - apply close_scope_mono.
  - apply enter_fornum_i_mono.
  - apply enter_fornum_f_mono.
Qed.

Lemma step_out_mono : forall c o fr k, res_mono (sto c) (step_out c o fr k).
Proof. intros. unfold step_out. destruct fr; try apply close_scope_mono; destruct o; brk; fin. Qed.

Theorem step_mono : forall c, res_mono (sto c) (step c).
Proof.
  intros. unfold step. destruct (ctl c).
  - apply step_exp_mono.
  - apply step_block_mono.
  - apply step_stat_mono.
  - destruct (stk c); [fin | apply step_ret_mono].
  - destruct (stk c); [fin | apply step_done_mono].
  - destruct (stk c); [brk; fin | apply step_out_mono].
  - brk; fin.
  - apply step_call_mono.
  - apply step_index_mono.
  - apply step_setindex_mono.
  - apply step_binop_mono.
  - apply step_unop_mono.
  - brk; fin.
Qed.

(* along any run, for any number of steps, allocation counters only grow: a cell,
   table or closure identity is never handed out twice *)
Theorem steps_mono : forall n c c', steps n c = inl c' -> mono (sto c) (sto c').
Proof.
  induction n; intros c c' H; simpl in H.
  - inversion H. apply mono_refl.
  - pose proof (step_mono c) as M. destruct (step c) as [c1|f] eqn:E; [|discriminate].
    eapply mono_trans; [exact M | apply IHn; exact H].
Qed.

(* fresh_cell_per_iteration, unbounded form: the cell bound at the start of one
   iteration (ncell of the store at that point) differs from the cell bound at any
   later point of the run, e.g. by the next iteration: closures created in different
   iterations capture different variables. *)
Corollary later_cells_differ : forall n σ v c ct k tr ln cs,
  steps n (mkCfg ct k (snd (cell_alloc σ v)) tr ln cs) = inl c ->
  (ncell σ < ncell (sto c))%positive.
Proof.
  intros. apply steps_mono in H. destruct H as [H _]. cbn [sto cell_alloc snd ncell] in H. lia.
Qed.

(* ------------------------------------------------------------ coroutine boundary and to-be-closed scopes (C11) *)

(* coroutine.resume is a boundary like pcall: the error stops at the bottom frame of the
   coroutine; the resumer's frames (k2), store and trace are untouched; the coroutine is dead *)
Theorem error_stops_at_coroutine_boundary : forall k1 id saved k2 v σ tr ln cs,
  forallb passes_error k1 = true ->
  steps (length k1 + 1) (mkCfg (COut (OError v)) (k1 ++ KCoBottom id saved :: k2) σ tr ln cs) =
  inl (mkCfg (CRet [VBool false; v]) k2 σ tr saved
             (mkCot (PositiveMap.add id CoDead (cos cs)) (nco cs))).
Proof.
  induction k1 as [|fr k1 IH]; intros id saved k2 v σ tr ln cs H.
  - reflexivity.
  - simpl in H. apply andb_prop in H. destruct H as [Hf Hr].
    change (length (fr :: k1) + 1)%nat with (S (length k1 + 1)).
    cbn [steps app].
    rewrite (step_error_pop fr v (k1 ++ KCoBottom id saved :: k2) σ tr ln cs Hf).
    apply IH. exact Hr.
Qed.

Lemma find_handler_coroutine : forall k1 id saved k2,
  forallb plain_frame k1 = true -> find_handler (k1 ++ KCoBottom id saved :: k2) = None.
Proof.
  induction k1 as [|fr k1 IH]; simpl; intros; auto.
  apply andb_prop in H. destruct H as [H1 H2].
  destruct fr; try discriminate; apply IH; auto.
Qed.

(* an error raised inside a coroutine does not run the message handler of an xpcall
   further out (in k2): the nearest boundary is coroutine.resume *)
Theorem raise_in_coroutine_no_outer_handler : forall k1 id saved k2 v σ tr ln cs,
  forallb plain_frame k1 = true ->
  steps (S (length k1 + 1)) (mkCfg (CRaise v) (k1 ++ KCoBottom id saved :: k2) σ tr ln cs) =
  inl (mkCfg (CRet [VBool false; v]) k2 σ tr saved
             (mkCot (PositiveMap.add id CoDead (cos cs)) (nco cs))).
Proof.
  intros. cbn [steps]. unfold step at 1. cbn [ctl stk].
  rewrite find_handler_coroutine by assumption.
  unfold go. cbn [sto trace cline cot].
  apply error_stops_at_coroutine_boundary. apply plain_passes; assumption.
Qed.

(* leaving a to-be-closed scope by an error: the closing method gets the value and the
   error in flight; the error is still in flight (unchanged) when it returns *)
Theorem scope_exit_by_error_calls_close : forall v e h k σ tr ln cs,
  metamethod σ v ev_close = h -> h <> VNil ->
  step (mkCfg (COut (OError e)) (KScope v :: k) σ tr ln cs) =
  inl (mkCfg (CCall h [v; e] true) (KClosing (POut (OError e)) :: k) σ tr ln cs).
Proof.
  intros. unfold step. cbn [ctl stk step_out]. unfold close_scope. cbn [sto]. rewrite H.
  destruct h; try reflexivity. congruence.
Qed.

Theorem closing_done_resumes_exit : forall vs o k σ tr ln cs,
  step (mkCfg (CRet vs) (KClosing (POut o) :: k) σ tr ln cs) = inl (mkCfg (COut o) k σ tr ln cs).
Proof. reflexivity. Qed.

(* ------------------------------------------------------------ unwinding through to-be-closed scopes *)

Definition reaches (c c' : cfg) : Prop := exists n, steps n c = inl c'.

Lemma reaches_refl : forall c, reaches c c.
Proof. intros; exists O; reflexivity. Qed.

Lemma reaches_trans : forall a b c, reaches a b -> reaches b c -> reaches a c.
Proof.
  intros a b c [n H1] [m H2]. exists (n + m)%nat. rewrite steps_plus, H1. exact H2.
Qed.

Lemma reaches_step : forall a b, step a = inl b -> reaches a b.
Proof. intros. exists 1%nat. simpl. rewrite H. reflexivity. Qed.

(* every frame above the barrier either lets an error pass, or is a to-be-closed scope
   whose closing method — called with the value and the error in flight, in whatever
   state the run has reached — returns normally to its closing frame *)
Fixpoint closers_return (e : value) (k1 rest : list frame) : Prop :=
  match k1 with
  | [] => True
  | KScope v :: r =>
      (forall σ tr ln cs, exists h vs σ' tr' ln' cs',
          metamethod σ v ev_close = h /\ h <> VNil /\
          reaches (mkCfg (CCall h [v; e] true) (KClosing (POut (OError e)) :: r ++ rest) σ tr ln cs)
                  (mkCfg (CRet vs) (KClosing (POut (OError e)) :: r ++ rest) σ' tr' ln' cs'))
      /\ closers_return e r rest
  | fr :: r => passes_error fr = true /\ closers_return e r rest
  end.

(* nearest_barrier_only / error_value_intact for stacks that contain to-be-closed scopes:
   the closing methods run (and may change store and trace), then the nearest barrier
   receives `false` and the very value that was raised; frames further out are untouched *)
Theorem error_reaches_barrier_through_scopes : forall k1 h k2 v,
  closers_return v k1 (KPcall h :: k2) ->
  forall σ tr ln cs, exists σ' tr' ln' cs',
  reaches (mkCfg (COut (OError v)) (k1 ++ KPcall h :: k2) σ tr ln cs)
          (mkCfg (CRet [VBool false; v]) k2 σ' tr' ln' cs').
Proof.
  induction k1 as [|fr k1 IH]; intros h k2 v H σ tr ln cs.
  - exists σ, tr, ln, cs. apply reaches_step. reflexivity.
  - assert (Hpass : passes_error fr = true -> closers_return v k1 (KPcall h :: k2) ->
            exists σ' tr' ln' cs',
              reaches (mkCfg (COut (OError v)) ((fr :: k1) ++ KPcall h :: k2) σ tr ln cs)
                      (mkCfg (CRet [VBool false; v]) k2 σ' tr' ln' cs')).
    { intros Hp Hr.
      destruct (IH h k2 v Hr σ tr (unwind_line [fr] ln) cs) as (σ' & tr' & ln' & cs' & R).
      exists σ', tr', ln', cs'. eapply reaches_trans; [|exact R].
      apply reaches_step. apply step_error_pop. exact Hp. }
    destruct fr; try (destruct H as [Hp Hr]; exact (Hpass Hp Hr)).
    (* KScope v0 *)
    destruct H as [Hc Hr].
    destruct (Hc σ tr ln cs) as (hc & vs & σ1 & tr1 & ln1 & cs1 & Hm & Hn & R1).
    destruct (IH h k2 v Hr σ1 tr1 ln1 cs1) as (σ' & tr' & ln' & cs' & R2).
    exists σ', tr', ln', cs'.
    eapply reaches_trans.
    { apply reaches_step. cbn [app]. apply (scope_exit_by_error_calls_close v0 v hc); assumption. }
    eapply reaches_trans; [exact R1|].
    eapply reaches_trans; [|exact R2].
    apply reaches_step. reflexivity.
Qed.

(* the hypothesis is satisfiable: a block frame, a scope whose value has no pending
   obligation problem is expressed by the universally quantified premise; with no scope
   at all it reduces to passes_error *)
Example closers_return_example :
  closers_return VNil [KSeq [] (mkEnv [] []) []; KCallB 3 true] [KPcall None].
Proof. simpl. auto. Qed.

(* ------------------------------------------------------------ generic for: the nil test *)

(* the loop ends exactly when the first value delivered by the iterator is nil (or there
   is none); `false` is an ordinary control value and the body runs *)
Theorem forin_ends_on_nil : forall xs f s b ρ ln k σ tr ln0 cs vs,
  first vs = VNil ->
  step (mkCfg (CRet vs) (KForInC xs f s b ρ ln :: k) σ tr ln0 cs) = inl (mkCfg CDone k σ tr ln0 cs).
Proof. intros. unfold step. cbn [ctl stk step_ret]. rewrite H. reflexivity. Qed.

Theorem forin_continues_on_false : forall xs f s b ρ ln k σ tr ln0 cs bb vs,
  step (mkCfg (CRet (VBool bb :: vs)) (KForInC xs f s b ρ ln :: k) σ tr ln0 cs) =
  inl (let '(ρv, s', _) := bind_names xs (VBool bb :: vs) (vars ρ) σ in
       mkCfg (CBlock b (mkEnv ρv (va ρ)) []) (KForIn xs f s (VBool bb) b ρ ln :: k) s' tr ln0 cs).
Proof. intros. apply fresh_cells_per_iteration_forin. discriminate. Qed.
