(* Lua/Syntax.v — abstract syntax of the Lua 5.4 core handled by LuaCore
   (written from the reference manual, section 3).  Definitions only.

   Names and strings are byte lists (list N, each element < 256).  Every
   statement of a block carries the source line on which it starts; the
   arms of an `if` and the `until` condition carry their own line.  These
   lines are only used for the position prefix of error messages
   (manual section 6.1, `error`). *)
From Coq Require Import ZArith NArith List.
Import ListNotations.

Definition str := list N.
Definition name := str.

Inductive binop := OpAdd | OpSub | OpMul | OpDiv | OpIDiv | OpMod | OpPow | OpConcat
                 | OpEq | OpNe | OpLt | OpLe | OpGt | OpGe | OpBAnd | OpBOr | OpBXor | OpShl | OpShr.
Inductive unop := UNeg | UNot | ULen | UBNot.
Inductive attrib := ANone | AConst | AClose.

Inductive exp :=
| ENil | ETrue | EFalse
| EInt (z : Z)
| EFlt (bits : Z)                 (* IEEE-754 binary64 bit pattern *)
| EStr (s : str)
| EDots
| EVar (x : name)                 (* local if bound in the environment, else global *)
| EIndex (e k : exp)
| ECall (f : exp) (args : list exp)
| EMeth (o : exp) (m : name) (args : list exp)
| EFun (params : list name) (va : bool) (body : list (Z * stat))
| EBin (o : binop) (a b : exp)
| EAnd (a b : exp)
| EOr (a b : exp)
| EUn (o : unop) (a : exp)
| EParen (e : exp)
| ETable (fs : list field)
with field :=
| FPos (e : exp)
| FNamed (k : name) (e : exp)
| FKey (k e : exp)
with stat :=
| SLocal (xs : list (name * attrib)) (es : list exp)
| SAssign (lhs : list exp) (es : list exp)
| SCall (e : exp)
| SDo (b : list (Z * stat))
| SWhile (c : exp) (b : list (Z * stat))
| SRepeat (b : list (Z * stat)) (ln : Z) (c : exp)
| SUntil (c : exp)                (* internal: the `until` test, runs inside the body's scope *)
| SIf (arms : list (Z * exp * list (Z * stat))) (els : list (Z * stat))
| SFor (x : name) (e1 e2 e3 : exp) (b : list (Z * stat))
| SForIn (xs : list name) (es : list exp) (b : list (Z * stat))
| SGoto (l : name)
| SLabel (l : name)
| SBreak
| SReturn (es : list exp)
| SLocalFun (f : name) (fn : exp).

Definition block := list (Z * stat).
