(* Lua/Machine.v — LuaCore: a CEK-style small-step abstract machine for a
   large core of Lua 5.4, written from the reference manual (sections 2.4,
   3.3, 3.4, 3.5, 6.1).  Configuration = control, continuation stack
   (explicit frames), store, event trace, current line.  `step` is total;
   `run` is total by fuel with OutOfFuel distinct from every final outcome.
   Definitions only; the proofs are in Lua/Meta.v.

   Conventions taken from the manual:
   * an expression delivers a LIST of values (CRet); every context that needs
     one value takes the first (or nil); only the last expression of an
     expression list keeps all its values (3.4.12);
   * every execution of a local declaration, every parameter binding and
     every loop iteration allocates fresh cells (3.5);
   * in a multiple assignment all expressions are evaluated before any
     assignment is performed (3.3.3);
   * errors are values; `COut (OError v)` pops frames up to the nearest
     protected-call barrier (KPcall) and no further (2.3, pcall/xpcall);
     a message handler runs at the point of the error, before unwinding;
   * evaluation order of operands and arguments is left to right here; the
     manual leaves it unspecified and the generator never depends on it. *)
From Coq Require Import ZArith NArith List Bool String FMapPositive.
From Flocq Require Import Core.Core IEEE754.BinarySingleNaN.
From GV Require Import Base.W64 Base.F64 Lua.Syntax Lua.Num Lua.Value Lua.Lib.
Import ListNotations.
Open Scope Z_scope.

Inductive outcome := OBreak | OGoto (l : name) | OReturn (vs : list value) | OError (v : value)
                   | OClose (e : option value).   (* coroutine.close: the whole coroutine is being unwound *)

Inductive target := TCell (c : positive) | TGlobal (x : name) | TIdx (t k : value).
Inductive tshape := TSVar (x : name) | TSIdx.
Inductive fshape := FSPos | FSNamed (k : name) | FSKey.

(* labels already passed in the current block: name, the statements from
   the label on, the environment at the label *)
Definition labels := list (name * (block * env)).

(* what to do with a completely evaluated expression list *)
Inductive listk :=
| LCall
| LReturn
| LLocal (xs : list (name * attrib)) (rest : block) (seen : labels)
| LAssign (ts : list tshape)
| LTable (sh : list fshape)
| LForNum (x : name) (b : block) (ln : Z)
| LForIn (xs : list name) (b : block) (ln : Z).

(* what resumes after a closing method returns *)
Inductive pend := PDone | POut (o : outcome).

Inductive frame :=
| KScope (v : value)                                  (* a to-be-closed value; closed on every kind of exit *)
| KClosing (p : pend)                                 (* a closing method is running; p is the exit in flight *)
| KSeq (rest : block) (ρ : env) (seen : labels)       (* rest of the enclosing block *)
| KLoop (ln : Z) (s : stat) (ρ : env)                 (* while / repeat body running *)
| KWhileC (ln : Z) (c : exp) (b : block) (ρ : env)
| KUntilC
| KIfC (t : block) (arms : list (Z * exp * block)) (els : block) (ρ : env)
| KForNumI (x : name) (cur lim step : Z) (b : block) (ρ : env) (ln : Z)
| KForNumF (x : name) (cur lim step : f64) (b : block) (ρ : env) (ln : Z)
| KForInC (xs : list name) (f s : value) (b : block) (ρ : env) (ln : Z)
| KForIn (xs : list name) (f s ctl : value) (b : block) (ρ : env) (ln : Z)
| KCallB (saved : Z) (lua : bool)                     (* function activation boundary *)
| KPcall (h : option value)                           (* protected-call barrier *)
| KHandler                                            (* a message handler is running *)
| KFirst | KDrop | KBool | KNotBool
| KList (acc : list value) (rest : list exp) (ρ : env) (lk : listk)
| KBinL (o : binop) (b : exp) (ρ : env)
| KBinR (o : binop) (a : value)
| KAnd (b : exp) (ρ : env)
| KOr (b : exp) (ρ : env)
| KUn (o : unop)
| KIdxL (k : exp) (ρ : env)
| KIdxR (t : value)
| KMethO (m : name) (args : list exp) (ρ : env)
| KMethF (o : value) (args : list exp) (ρ : env)
| KAssign (ts : list target) (vs : list value)
| KIpairs (i : Z)
| KCoBottom (co : positive) (saved : Z)               (* bottom of a coroutine's stack segment; below it: the resumer *)
| KWrap.                                              (* coroutine.wrap: results of the resume in progress *)

Inductive control :=
| CExp (e : exp) (ρ : env)
| CBlock (ss : block) (ρ : env) (seen : labels)
| CStat (ln : Z) (s : stat) (ρ : env)
| CRet (vs : list value)
| CDone
| COut (o : outcome)
| CRaise (v : value)
| CCall (f : value) (args : list value) (lua : bool)
| CIndex (t k : value)
| CSetIndex (t k v : value)
| CBinop (o : binop) (a b : value)
| CUnop (o : unop) (a : value)
| CAssign (ts : list target) (vs : list value).

Inductive final :=
| FDone (vs : list value)
| FError (v : value)
| FStuck (code : Z)           (* impossible for compiled programs (e.g. break outside a loop) *)
| FUnsupported (code : Z).    (* the program left the modelled fragment *)

(* coroutines: not started (body), suspended (saved stack segment and line), on the
   stack (running or normal), dead *)
Inductive costate := CoFresh (f : value) | CoSusp (k : list frame) (ln : Z) | CoActive | CoDead.
Record cotab := mkCot { cos : PositiveMap.t costate; nco : positive }.
Definition main_co : positive := 1%positive.
Definition init_cot : cotab := mkCot (PositiveMap.add main_co CoActive (PositiveMap.empty costate)) 2%positive.

Record cfg := mkCfg { ctl : control; stk : list frame; sto : store; trace : list (list value); cline : Z; cot : cotab }.

Definition res := (cfg + final)%type.

Definition go (c : cfg) (ct : control) (k : list frame) : res :=
  inl (mkCfg ct k (sto c) (trace c) (cline c) (cot c)).
Definition gos (c : cfg) (ct : control) (k : list frame) (s : store) : res :=
  inl (mkCfg ct k s (trace c) (cline c) (cot c)).
Definition gol (c : cfg) (ct : control) (k : list frame) (ln : Z) : res :=
  inl (mkCfg ct k (sto c) (trace c) ln (cot c)).
Definition goc (c : cfg) (ct : control) (k : list frame) (ln : Z) (t : cotab) : res :=
  inl (mkCfg ct k (sto c) (trace c) ln t).

Definition position_at (ln : Z) : str := (lit "chunk:") ++ dec_of_Z ln ++ (lit ": ").

(* run-time errors raised by the machine itself: "chunk:LINE: #class" *)
Definition rterr (c : cfg) (cls : str) (k : list frame) : res :=
  go c (CRaise (VStr (position_at (cline c) ++ 35%N :: cls))) k.

Definition has_close (xs : list (name * attrib)) : bool :=
  existsb (fun xa => match snd xa with AClose => true | _ => false end) xs.

Fixpoint lhs_exps (lhs : list exp) : list exp :=
  match lhs with
  | [] => []
  | EIndex e k :: r => e :: k :: lhs_exps r
  | _ :: r => lhs_exps r
  end.

Fixpoint lhs_shapes (lhs : list exp) : list tshape :=
  match lhs with
  | [] => []
  | EIndex _ _ :: r => TSIdx :: lhs_shapes r
  | EVar x :: r => TSVar x :: lhs_shapes r
  | _ :: r => lhs_shapes r
  end.

Fixpoint build_targets (ts : list tshape) (vals : list value) (ρ : env) : list target * list value :=
  match ts with
  | [] => ([], vals)
  | TSVar x :: r =>
      let '(tg, rest) := build_targets r vals ρ in
      ((match lookup (vars ρ) x with Some cl => TCell cl | None => TGlobal x end) :: tg, rest)
  | TSIdx :: r =>
      match vals with
      | t :: kk :: vr => let '(tg, rest) := build_targets r vr ρ in (TIdx t kk :: tg, rest)
      | _ => ([], [])
      end
  end.

Fixpoint field_exps (fs : list field) : list exp :=
  match fs with
  | [] => []
  | FPos e :: r => e :: field_exps r
  | FNamed _ e :: r => EParen e :: field_exps r
  | FKey k e :: r => EParen k :: EParen e :: field_exps r
  end.

Fixpoint field_shapes (fs : list field) : list fshape :=
  match fs with
  | [] => []
  | FPos _ :: r => FSPos :: field_shapes r
  | FNamed k _ :: r => FSNamed k :: field_shapes r
  | FKey _ _ :: r => FSKey :: field_shapes r
  end.

Fixpoint build_table (sh : list fshape) (vals : list value) (i : Z) (m : tmap) : tmap + str :=
  match sh with
  | [] => inl m
  | FSPos :: r =>
      match r with
      | [] => inl (seq_set m i vals)
      | _ => build_table r (tl vals) (i + 1) (tm_set m (VInt i) (first vals))
      end
  | FSNamed kn :: r => build_table r (tl vals) i (tm_set m (VStr kn) (first vals))
  | FSKey :: r =>
      match vals with
      | kk :: v :: vr =>
          match norm_key kk with
          | KeyOk k' => build_table r vr i (tm_set m k' v)
          | KeyNil => inr (lit "keynil")
          | KeyNaN => inr (lit "keynan")
          end
      | _ => inr (lit "internal")
      end
  end.

(* goto: a label already passed in this block (with the labels seen up to it) *)
Fixpoint find_seen (l : name) (seen : labels) : option (block * env * labels) :=
  match seen with
  | [] => None
  | (l', (b, ρ)) :: r => if str_eqb l' l then Some (b, ρ, seen) else find_seen l r
  end.

(* goto: a label further down in this block; returns the statements from the
   label on *)
Fixpoint find_label (l : name) (ss : block) : option block :=
  match ss with
  | [] => None
  | (ln, SLabel l') :: r => if str_eqb l' l then Some ss else find_label l r
  | _ :: r => find_label l r
  end.

(* the message handler in force at a raise point: that of the nearest
   barrier, unless a handler is already running above it *)
Fixpoint find_handler (k : list frame) : option value :=
  match k with
  | [] => None
  | KPcall h :: _ => h
  | KHandler :: _ => None
  | KCoBottom _ _ :: _ => None
  | _ :: r => find_handler r
  end.

(* line of the call that activated the running function, if the caller is Lua code *)
Fixpoint caller_line (k : list frame) : option Z :=
  match k with
  | [] => None
  | KCallB saved lua :: _ => if lua && (0 <? saved) then Some saved else None
  | _ :: r => caller_line r
  end.

Definition floor_Z (f : f64) : option Z :=
  match f with
  | B754_zero _ => Some 0
  | B754_finite s m e _ =>
      let fm := cond_Zopp s (Zpos m) in
      if 0 <=? e then Some (fm * 2 ^ e) else Some (fm / 2 ^ (- e))
  | _ => None
  end.
Definition ceil_Z (f : f64) : option Z :=
  match floor_Z (fneg f) with Some z => Some (- z) | None => None end.

Definition int_arg (v : value) : option Z :=
  match v with VInt z => Some z | VFlt f => flt_to_int f | _ => None end.
Definition str_arg (v : value) : option str :=
  match v with VStr s => Some s | VInt z => Some (dec_of_Z z) | _ => None end.

Definition bin_event (o : binop) : str :=
  match o with
  | OpAdd => lit "__add" | OpSub => lit "__sub" | OpMul => lit "__mul" | OpDiv => lit "__div" | OpIDiv => lit "__idiv"
  | OpMod => lit "__mod" | OpPow => lit "__pow" | OpConcat => lit "__concat" | OpEq | OpNe => lit "__eq"
  | OpLt | OpGt => lit "__lt" | OpLe | OpGe => lit "__le" | OpBAnd => lit "__band" | OpBOr => lit "__bor"
  | OpBXor => lit "__bxor" | OpShl => lit "__shl" | OpShr => lit "__shr"
  end.

(* ---------------------------------------------------------------- loops *)

Definition enter_fornum_i (c : cfg) (x : name) (cur lim step : Z) (b : block) (ρ : env) (ln : Z)
  (k : list frame) : res :=
  if (if 0 <? step then cur <=? lim else lim <=? cur) && in64b cur then
    let '(cl, s) := cell_alloc (sto c) (VInt cur) in
    gos c (CBlock b (mkEnv ((x, cl) :: vars ρ) (va ρ)) []) (KForNumI x cur lim step b ρ ln :: k) s
  else go c CDone k.

Definition enter_fornum_f (c : cfg) (x : name) (cur lim step : f64) (b : block) (ρ : env) (ln : Z)
  (k : list frame) : res :=
  if (if fpos0 step then fle cur lim else fle lim cur) then
    let '(cl, s) := cell_alloc (sto c) (VFlt cur) in
    gos c (CBlock b (mkEnv ((x, cl) :: vars ρ) (va ρ)) []) (KForNumF x cur lim step b ρ ln :: k) s
  else go c CDone k.

Definition fornum_init (c : cfg) (x : name) (b : block) (ρ : env) (ln : Z) (vals : list value)
  (k : list frame) : res :=
  let v1 := first vals in let v2 := first (tl vals) in let v3 := first (tl (tl vals)) in
  match v1, v3 with
  | VInt i, VInt st =>
      if st =? 0 then rterr c (lit "forstep") k else
      match v2 with
      | VInt l => enter_fornum_i c x i l st b ρ ln k
      | VFlt f =>
          match f with
          | B754_nan => go c CDone k
          | B754_infinity s => enter_fornum_i c x i (if s then - 2 ^ 65 else 2 ^ 65) st b ρ ln k
          | _ => match (if 0 <? st then floor_Z f else ceil_Z f) with
                 | Some l => enter_fornum_i c x i l st b ρ ln k
                 | None => inr (FStuck 20)
                 end
          end
      | _ => rterr c (lit "forprep") k
      end
  | _, _ =>
      match to_num v1, to_num v2, to_num v3 with
      | Some a, Some l, Some st =>
          let fs := num_to_f st in
          if fis_zero fs then rterr c (lit "forstep") k
          else enter_fornum_f c x (num_to_f a) (num_to_f l) fs b ρ ln k
      | _, _, _ => rterr c (lit "forprep") k
      end
  end.

(* ------------------------------------------------- expression lists *)

(* the value of the to-be-closed variable of a local statement, if any *)
Fixpoint close_val (xs : list (name * attrib)) (vals : list value) : option value :=
  match xs with
  | [] => None
  | (_, AClose) :: _ => Some (first vals)
  | _ :: r => close_val r (tl vals)
  end.

Definition ev_close : str := lit "__close".

Definition closable (s : store) (v : value) : bool :=
  match metamethod s v ev_close with VNil => false | _ => true end.

Definition finish_list (c : cfg) (vals : list value) (ρ : env) (lk : listk) (k : list frame) : res :=
  match lk with
  | LCall => match vals with f :: args => go c (CCall f args true) k | [] => inr (FStuck 1) end
  | LReturn => go c (COut (OReturn vals)) k
  | LLocal xs rest seen =>
      let '(ρv, s, _) := bind_names (map fst xs) vals (vars ρ) (sto c) in
      match close_val xs vals with
      | None | Some VNil | Some (VBool false) => gos c (CBlock rest (mkEnv ρv (va ρ)) seen) k s
      | Some v =>
          (* manual 3.3.8: the rest of the block runs above the scope frame; labels passed
             before the declaration stay reachable below it (jumping there leaves the scope) *)
          if closable (sto c) v
          then gos c (CBlock rest (mkEnv ρv (va ρ)) []) (KScope v :: KSeq [] ρ seen :: k) s
          else rterr c (lit "nonclosable") k
      end
  | LAssign ts => let '(tgs, rhs) := build_targets ts vals ρ in go c (CAssign tgs rhs) k
  | LTable sh =>
      match build_table sh vals 1 [] with
      | inl m => let '(id, s) := tab_alloc (sto c) (mkTab m None) in gos c (CRet [VTab id]) k s
      | inr cls => rterr c cls k
      end
  | LForNum x b ln => fornum_init c x b ρ ln vals k
  | LForIn xs b ln =>
      let f := first vals in let s := first (tl vals) in let ctl := first (tl (tl vals)) in
      match first (tl (tl (tl vals))) with
      | VNil | VBool false => go c (CCall f [s; ctl] true) (KForInC xs f s b ρ ln :: k)
      | cv => if closable (sto c) cv
              then go c (CCall f [s; ctl] true) (KForInC xs f s b ρ ln :: KScope cv :: k)
              else rterr c (lit "nonclosable") k
      end
  end.

Definition start_list (c : cfg) (acc : list value) (es : list exp) (ρ : env) (lk : listk)
  (k : list frame) : res :=
  match es with
  | [] => finish_list c acc ρ lk k
  | e :: r => go c (CExp e ρ) (KList acc r ρ lk :: k)
  end.

(* ----------------------------------------------------------- operators *)

Definition step_binop (c : cfg) (o : binop) (a b : value) (k : list frame) : res :=
  let meta (cls : str) (fr : list frame) :=
    match binmeta (sto c) a b ((bin_event o)) with
    | VNil => rterr c cls k
    | h => go c (CCall h [a; b] true) (fr ++ k)
    end in
  match o with
  | OpAdd | OpSub | OpMul | OpDiv | OpIDiv | OpMod | OpPow =>
      match to_num_coerce a, to_num_coerce b with
      | Some x, Some y =>
          match arith o x y with
          | AOk n => go c (CRet [of_num n]) k
          | ADivZero => rterr c (lit "divzero") k
          | AModZero => rterr c (lit "modzero") k
          | AUnsupported => inr (FUnsupported 3)
          end
      | _, _ =>
          (* the string metamethods only coerce; a string operand never hides
             the other operand's metamethod *)
          match (match a with VStr _ => VNil | _ => metamethod (sto c) a ((bin_event o)) end) with
          | VNil => match (match b with VStr _ => VNil | _ => metamethod (sto c) b ((bin_event o)) end) with
                    | VNil => rterr c (lit "arith") k
                    | h => go c (CCall h [a; b] true) (KFirst :: k)
                    end
          | h => go c (CCall h [a; b] true) (KFirst :: k)
          end
      end
  | OpBAnd | OpBOr | OpBXor | OpShl | OpShr =>
      match to_num a, to_num b with
      | Some x, Some y =>
          match num_to_int x, num_to_int y with
          | Some i, Some j => go c (CRet [VInt (bitop o i j)]) k
          | _, _ => rterr c (lit "intrep") k
          end
      | _, _ =>
          match (match a with VStr _ => VNil | _ => metamethod (sto c) a ((bin_event o)) end) with
          | VNil => match (match b with VStr _ => VNil | _ => metamethod (sto c) b ((bin_event o)) end) with
                    | VNil => rterr c (lit "bitwise") k
                    | h => go c (CCall h [a; b] true) (KFirst :: k)
                    end
          | h => go c (CCall h [a; b] true) (KFirst :: k)
          end
      end
  | OpConcat =>
      match concat_str a, concat_str b with
      | Some (Some x), Some (Some y) => go c (CRet [VStr (x ++ y)]) k
      | Some _, Some _ => inr (FUnsupported 4)
      | _, _ =>
          match (match a with VStr _ => VNil | _ => metamethod (sto c) a ((lit "__concat")) end) with
          | VNil => match (match b with VStr _ => VNil | _ => metamethod (sto c) b ((lit "__concat")) end) with
                    | VNil => rterr c (lit "concat") k
                    | h => go c (CCall h [a; b] true) (KFirst :: k)
                    end
          | h => go c (CCall h [a; b] true) (KFirst :: k)
          end
      end
  | OpEq | OpNe =>
      let neg := match o with OpNe => true | _ => false end in
      if raweq a b then go c (CRet [VBool (negb neg)]) k else
      match a, b with
      | VTab _, VTab _ =>
          match binmeta (sto c) a b ((lit "__eq")) with
          | VNil => go c (CRet [VBool neg]) k
          | h => go c (CCall h [a; b] true) ((if neg then KNotBool else KBool) :: k)
          end
      | _, _ => go c (CRet [VBool neg]) k
      end
  | OpLt | OpLe | OpGt | OpGe =>
      (* a > b is b < a; a >= b is b <= a (manual 3.4.4) *)
      let '(x, y) := match o with OpGt | OpGe => (b, a) | _ => (a, b) end in
      let strict := match o with OpLt | OpGt => true | _ => false end in
      match to_num x, to_num y with
      | Some n, Some m => go c (CRet [VBool (if strict then num_lt n m else num_le n m)]) k
      | _, _ =>
          match x, y with
          | VStr s, VStr t =>
              go c (CRet [VBool (match str_cmp s t with
                                 | Lt => true | Eq => negb strict | Gt => false end)]) k
          | _, _ =>
              match binmeta (sto c) x y (if strict then lit "__lt" else lit "__le") with
              | VNil => rterr c (lit "compare") k
              | h => go c (CCall h [x; y] true) (KBool :: k)
              end
          end
      end
  end.

Definition step_unop (c : cfg) (o : unop) (a : value) (k : list frame) : res :=
  match o with
  | UNot => go c (CRet [VBool (negb (truthy a))]) k
  | UNeg =>
      match to_num_coerce a with
      | Some n => go c (CRet [of_num (num_neg n)]) k
      | None => match (match a with VStr _ => VNil | _ => metamethod (sto c) a ((lit "__unm")) end) with
                | VNil => rterr c (lit "arith") k
                | h => go c (CCall h [a; a] true) (KFirst :: k)
                end
      end
  | UBNot =>
      match to_num a with
      | Some n => match num_to_int n with
                  | Some i => go c (CRet [VInt (Z.lnot i)]) k
                  | None => rterr c (lit "intrep") k
                  end
      | None => match (match a with VStr _ => VNil | _ => metamethod (sto c) a ((lit "__bnot")) end) with
                | VNil => rterr c (lit "bitwise") k
                | h => go c (CCall h [a; a] true) (KFirst :: k)
                end
      end
  | ULen =>
      match a with
      | VStr s => go c (CRet [VInt (slen s)]) k
      | _ =>
          match metamethod (sto c) a ((lit "__len")) with
          | VNil => match a with
                    | VTab t => go c (CRet [VInt (border (t_map (tab_get (sto c) t)))]) k
                    | _ => rterr c (lit "len") k
                    end
          | h => go c (CCall h [a; a] true) (KFirst :: k)
          end
      end
  end.

(* t[k]: manual 2.4, __index *)
Definition step_index (c : cfg) (t kk : value) (k : list frame) : res :=
  match t with
  | VTab id =>
      match rawget (sto c) id kk with
      | VNil =>
          match metamethod (sto c) t ((lit "__index")) with
          | VNil => go c (CRet [VNil]) k
          | h => if is_function h then go c (CCall h [t; kk] true) (KFirst :: k)
                 else go c (CIndex h kk) k
          end
      | v => go c (CRet [v]) k
      end
  | _ =>
      match metamethod (sto c) t ((lit "__index")) with
      | VNil => rterr c (lit "index") k
      | h => if is_function h then go c (CCall h [t; kk] true) (KFirst :: k)
             else go c (CIndex h kk) k
      end
  end.

(* t[k] = v: manual 2.4, __newindex *)
Definition step_setindex (c : cfg) (t kk v : value) (k : list frame) : res :=
  match t with
  | VTab id =>
      let raw (_ : unit) :=
        match norm_key kk with
        | KeyOk k' => gos c CDone k (rawset (sto c) id k' v)
        | KeyNil => rterr c (lit "keynil") k
        | KeyNaN => rterr c (lit "keynan") k
        end in
      match rawget (sto c) id kk with
      | VNil =>
          match metamethod (sto c) t ((lit "__newindex")) with
          | VNil => raw tt
          | h => if is_function h then go c (CCall h [t; kk; v] true) (KDrop :: k)
                 else go c (CSetIndex h kk v) k
          end
      | _ => raw tt
      end
  | _ =>
      match metamethod (sto c) t ((lit "__newindex")) with
      | VNil => rterr c (lit "index") k
      | h => if is_function h then go c (CCall h [t; kk; v] true) (KDrop :: k)
             else go c (CSetIndex h kk v) k
      end
  end.

(* --------------------------------------------------------------- builtins *)

Definition plain_table (c : cfg) (v : value) : option (positive * tmap) :=
  match v with
  | VTab t => let x := tab_get (sto c) t in
              match t_meta x with None => Some (t, t_map x) | Some _ => None end
  | _ => None
  end.

Definition put_map (c : cfg) (t : positive) (m : tmap) : store :=
  tab_put (sto c) t (mkTab m (t_meta (tab_get (sto c) t))).

Definition opt_int (vs : list value) (n : nat) (d : Z) : option Z :=
  match nth_error vs n with
  | None | Some VNil => Some d
  | Some v => int_arg v
  end.

Fixpoint tm_next (m : tmap) (kk : value) : option (option (value * value)) :=
  match m with
  | [] => None
  | (k', _) :: r => if raweq k' kk then Some (match r with [] => None | e :: _ => Some e end)
                    else tm_next r kk
  end.

(* the innermost coroutine on the stack: its frames, its id, the line and stack of its resumer *)
Fixpoint split_co (k : list frame) : option (list frame * positive * Z * list frame) :=
  match k with
  | [] => None
  | KCoBottom id saved :: r => Some ([], id, saved, r)
  | fr :: r => match split_co r with
               | Some (kc, id, saved, rest) => Some (fr :: kc, id, saved, rest)
               | None => None
               end
  end.

Definition current_co (k : list frame) : positive :=
  match split_co k with Some (_, id, _, _) => id | None => main_co end.

Definition co_get (c : cfg) (id : positive) : costate :=
  match PositiveMap.find id (cos (cot c)) with Some x => x | None => CoDead end.
Definition co_put (c : cfg) (id : positive) (x : costate) : cotab :=
  mkCot (PositiveMap.add id x (cos (cot c))) (nco (cot c)).

Definition has_scope (k : list frame) : bool :=
  existsb (fun fr => match fr with KScope _ => true | _ => false end) k.

(* coroutine.resume / a call of a wrap function: transfer control into coroutine id *)
Definition resume_co (c : cfg) (id : positive) (args : list value) (k : list frame) : res :=
  match co_get c id with
  | CoFresh f => goc c (CCall f args false) (KCoBottom id (cline c) :: k) (cline c) (co_put c id CoActive)
  | CoSusp kc ln => goc c (CRet args) (kc ++ KCoBottom id (cline c) :: k) ln (co_put c id CoActive)
  | CoActive | CoDead => go c (CRet [VBool false; VStr (lit "#costate")]) k
  end.

Definition call_builtin (c : cfg) (b : builtin) (args : list value) (lua : bool) (k : list frame) : res :=
  let ret (vs : list value) := go c (CRet vs) k in
  let badarg := rterr c (lit "badarg") k in
  match b with
  | BEmit => inl (mkCfg (CRet args) k (sto c) (args :: trace c) (cline c) (cot c))
  | BPcall => match args with f :: r => go c (CCall f r false) (KPcall None :: k) | [] => badarg end
  | BXpcall => match args with
               | f :: h :: r => go c (CCall f r false) (KPcall (Some h) :: k)
               | _ => badarg
               end
  | BError =>
      let v := first args in
      match opt_int args 1 1 with
      | None => badarg
      | Some lvl =>
          let v' := match v with
                    | VStr s =>
                        (* level 1: the position where `error` was called — a position only
                           exists when the caller is Lua code *)
                        if lvl =? 1 then (if lua then VStr (position_at (cline c) ++ s) else v)
                        else if lvl =? 2 then
                          match caller_line k with Some l => VStr (position_at l ++ s) | None => v end
                        else v
                    | _ => v
                    end in
          go c (CRaise v') k
      end
  | BAssert =>
      match args with
      | [] => badarg
      | v :: r => if truthy v then ret args else
                  (* the reference implementation raises the message through `error` at
                     level 1: a string message (and the default one) gets the position of
                     the call of `assert` when the caller is Lua code *)
                  let m := match r with [] => VStr (lit "assertion failed!") | m :: _ => m end in
                  match m with
                  | VStr s => go c (CRaise (if lua then VStr (position_at (cline c) ++ s) else m)) k
                  | _ => go c (CRaise m) k
                  end
      end
  | BSelect =>
      match args with
      | VStr [35%N] :: r => ret [VInt (Z.of_nat (List.length r))]
      | v :: r => match int_arg v with
                  | Some n => match select_vals n r with Some vs => ret vs | None => badarg end
                  | None => badarg
                  end
      | [] => badarg
      end
  | BType => match args with v :: _ => ret [VStr (type_name v)] | [] => badarg end
  | BRawget => match args with VTab t :: kk :: _ => ret [rawget (sto c) t kk] | _ => badarg end
  | BRawset => match args with
               | VTab t :: kk :: v :: _ =>
                   match norm_key kk with
                   | KeyOk k' => gos c (CRet [VTab t]) k (rawset (sto c) t k' v)
                   | KeyNil => rterr c (lit "keynil") k
                   | KeyNaN => rterr c (lit "keynan") k
                   end
               | _ => badarg
               end
  | BRawequal => match args with a :: b' :: _ => ret [VBool (raweq a b')] | _ => badarg end
  | BRawlen => match args with
               | VTab t :: _ => ret [VInt (border (t_map (tab_get (sto c) t)))]
               | VStr s :: _ => ret [VInt (slen s)]
               | _ => badarg
               end
  | BIpairs => match args with t :: _ => ret [VBuiltin BIpairsIter; t; VInt 0] | [] => badarg end
  | BIpairsIter =>
      match args with
      | t :: VInt i :: _ => go c (CIndex t (VInt (i + 1))) (KIpairs (i + 1) :: k)
      | _ => badarg
      end
  | BSetmt =>
      match args with
      | VTab t :: m :: _ =>
          let x := tab_get (sto c) t in
          let prot := match t_meta x with
                      | Some mt => tm_get (t_map (tab_get (sto c) mt)) (VStr ((lit "__metatable")))
                      | None => VNil end in
          match prot with
          | VNil =>
              match m with
              | VNil => gos c (CRet [VTab t]) k (tab_put (sto c) t (mkTab (t_map x) None))
              | VTab mt => gos c (CRet [VTab t]) k (tab_put (sto c) t (mkTab (t_map x) (Some mt)))
              | _ => badarg
              end
          | _ => rterr c (lit "protected") k
          end
      | _ => badarg
      end
  | BGetmt =>
      match args with
      | v :: _ => match metatable_of (sto c) v with
                  | None => ret [VNil]
                  | Some mt => match tm_get (t_map (tab_get (sto c) mt)) (VStr ((lit "__metatable"))) with
                               | VNil => ret [VTab mt]
                               | p => ret [p]
                               end
                  end
      | [] => badarg
      end
  | BTostring =>
      match args with
      | v :: _ => match metamethod (sto c) v ((lit "__tostring")) with
                  | VNil => match tostring_basic v with
                            | Some s => ret [VStr s]
                            | None => inr (FUnsupported 5)
                            end
                  | h => match v with
                         | VStr s => ret [VStr s]
                         | _ => go c (CCall h [v] false) (KFirst :: k)
                         end
                  end
      | [] => badarg
      end
  | BTonumber =>
      match args with
      | [v] | [v; VNil] => match v with
               | VInt _ | VFlt _ => ret [v]
               | VStr s => match str2num s with Some n => ret [of_num n] | None => ret [VNil] end
               | _ => ret [VNil]
               end
      | [] => badarg
      | _ => inr (FUnsupported 6)
      end
  | BMathType =>
      match args with
      | VInt _ :: _ => ret [VStr ((lit "integer"))]
      | VFlt _ :: _ => ret [VStr ((lit "float"))]
      | _ :: _ => ret [VNil]
      | [] => badarg
      end
  | BMathToint =>
      match args with
      | VInt z :: _ => ret [VInt z]
      | VFlt f :: _ => match flt_to_int f with Some z => ret [VInt z] | None => ret [VNil] end
      | VStr _ :: _ => inr (FUnsupported 7)
      | _ :: _ => ret [VNil]
      | [] => badarg
      end
  | BStrLen => match args with
               | v :: _ => match str_arg v with Some s => ret [VInt (slen s)] | None => badarg end
               | [] => badarg end
  | BStrSub =>
      match args with
      | v :: r => match str_arg v, opt_int args 1 1, opt_int args 2 (-1) with
                  | Some s, Some i, Some j => match nth_error args 1 with
                                              | None | Some VNil => badarg
                                              | _ => ret [VStr (str_sub s i j)] end
                  | _, _, _ => badarg
                  end
      | [] => badarg
      end
  | BStrRep =>
      match args with
      | [v; n] => match str_arg v, int_arg n with
                  | Some s, Some z => if z <? 10000 then ret [VStr (str_rep s z)] else inr (FUnsupported 8)
                  | _, _ => badarg
                  end
      | v :: n :: sep :: _ =>
          match str_arg v, int_arg n, (match sep with VNil => Some [] | _ => str_arg sep end) with
          | Some s, Some z, Some sp =>
              if z <? 10000 then
                ret [VStr (if z <=? 0 then [] else s ++ str_rep (sp ++ s) (z - 1))]
              else inr (FUnsupported 8)
          | _, _, _ => badarg
          end
      | _ => badarg
      end
  | BStrByte =>
      match args with
      | v :: _ => match str_arg v, opt_int args 1 1 with
                  | Some s, Some i => match opt_int args 2 i with
                                      | Some j => ret (str_byte s i j)
                                      | None => badarg end
                  | _, _ => badarg
                  end
      | [] => badarg
      end
  | BStrChar => match str_char args with Some s => ret [VStr s] | None => badarg end
  | BTabInsert =>
      match args with
      | [t; v] => match plain_table c t with
                  | Some (id, m) => gos c (CRet []) k (put_map c id (tm_set m (VInt (border m + 1)) v))
                  | None => match t with VTab _ => inr (FUnsupported 10) | _ => badarg end
                  end
      | [t; p; v] => match plain_table c t, int_arg p with
                     | Some (id, m), Some pos =>
                         if (1 <=? pos) && (pos <=? border m + 1)
                         then gos c (CRet []) k (put_map c id (tab_insert m pos v))
                         else badarg
                     | None, _ => match t with VTab _ => inr (FUnsupported 10) | _ => badarg end
                     | _, _ => badarg
                     end
      | _ => badarg
      end
  | BTabRemove =>
      match args with
      | t :: r => match plain_table c t with
                  | Some (id, m) =>
                      let n := border m in
                      match opt_int args 1 n with
                      | Some pos =>
                          if (pos =? n) || ((1 <=? pos) && (pos <=? n + 1)) then
                            let '(v, m') := tab_remove m pos in gos c (CRet [v]) k (put_map c id m')
                          else badarg
                      | None => badarg
                      end
                  | None => match t with VTab _ => inr (FUnsupported 10) | _ => badarg end
                  end
      | [] => badarg
      end
  | BTabUnpack =>
      match args with
      | t :: _ => match plain_table c t with
                  | Some (id, m) =>
                      match opt_int args 1 1, opt_int args 2 (border m) with
                      | Some i, Some j =>
                          if j <? i then ret [] else
                          if j - i <? 200 then ret (seq_get m i (Z.to_nat (j - i + 1)))
                          else inr (FUnsupported 11)
                      | _, _ => badarg
                      end
                  | None => match t with VTab _ => inr (FUnsupported 10) | _ => badarg end
                  end
      | [] => badarg
      end
  | BTabPack =>
      let m := tm_set (seq_set [] 1 args) (VStr ((lit "n"))) (VInt (Z.of_nat (List.length args))) in
      let '(id, s) := tab_alloc (sto c) (mkTab m None) in gos c (CRet [VTab id]) k s
  | BTabConcat =>
      match args with
      | t :: _ => match plain_table c t with
                  | Some (id, m) =>
                      match (match nth_error args 1 with
                             | None | Some VNil => Some []
                             | Some v => str_arg v end),
                            opt_int args 2 1, opt_int args 3 (border m) with
                      | Some sep, Some i, Some j =>
                          if j <? i then ret [VStr []] else
                          match concat_list (seq_get m i (Z.to_nat (j - i + 1))) sep with
                          | Some s => ret [VStr s]
                          | None => badarg
                          end
                      | _, _, _ => badarg
                      end
                  | None => match t with VTab _ => inr (FUnsupported 10) | _ => badarg end
                  end
      | [] => badarg
      end
  | BNext =>
      match args with
      | VTab t :: r =>
          let m := t_map (tab_get (sto c) t) in
          match first r with
          | VNil => match m with [] => ret [VNil] | (k1, v1) :: _ => ret [k1; v1] end
          | kk => match norm_key kk with
                  | KeyOk k' => match tm_next m k' with
                                | Some (Some (k2, v2)) => ret [k2; v2]
                                | Some None => ret [VNil]
                                | None => rterr c (lit "badarg") k
                                end
                  | _ => badarg
                  end
          end
      | _ => badarg
      end
  | BPairs =>
      match args with
      | v :: _ => match metamethod (sto c) v ((lit "__pairs")) with
                  | VNil => match v with
                            | VTab _ => ret [VBuiltin BNext; v; VNil]
                            | _ => badarg end
                  | h => inr (FUnsupported 12)
                  end
      | [] => badarg
      end
  | BCoCreate =>
      match args with
      | f :: _ => if is_function f then
                    let id := nco (cot c) in
                    goc c (CRet [VCo id]) k (cline c) (mkCot (PositiveMap.add id (CoFresh f) (cos (cot c))) (Pos.succ id))
                  else badarg
      | [] => badarg
      end
  | BCoWrap =>
      match args with
      | f :: _ => if is_function f then
                    let id := nco (cot c) in
                    goc c (CRet [VBuiltin (BCoWrapped id)]) k (cline c)
                        (mkCot (PositiveMap.add id (CoFresh f) (cos (cot c))) (Pos.succ id))
                  else badarg
      | [] => badarg
      end
  | BCoResume => match args with VCo id :: r => resume_co c id r k | _ => badarg end
  | BCoWrapped id => resume_co c id args (KWrap :: k)
  | BCoYield =>
      match split_co k with
      | Some (kc, id, saved, rest) =>
          goc c (CRet (VBool true :: args)) rest saved (co_put c id (CoSusp kc (cline c)))
      | None => rterr c (lit "yieldoutside") k
      end
  | BCoStatus =>
      match args with
      | VCo id :: _ =>
          ret [VStr (match co_get c id with
                     | CoFresh _ | CoSusp _ _ => lit "suspended"
                     | CoDead => lit "dead"
                     | CoActive => if Pos.eqb (current_co k) id then lit "running" else lit "normal"
                     end)]
      | _ => badarg
      end
  | BCoRunning => let id := current_co k in ret [VCo id; VBool (Pos.eqb id main_co)]
  | BCoIsYieldable => ret [VBool (match split_co k with Some _ => true | None => false end)]
  | BCoClose =>
      match args with
      | VCo id :: _ =>
          match co_get c id with
          | CoFresh _ | CoDead => goc c (CRet [VBool true]) k (cline c) (co_put c id CoDead)
          | CoSusp kc _ =>
              if has_scope kc
              then (* close the pending to-be-closed values of the coroutine, innermost first,
                      ignoring its protected calls; the result is delivered at KCoBottom *)
                   goc c (COut (OClose None)) (kc ++ KCoBottom id (cline c) :: k) (cline c) (co_put c id CoActive)
              else goc c (CRet [VBool true]) k (cline c) (co_put c id CoDead)
          | CoActive => rterr c (lit "costate") k
          end
      | _ => badarg
      end
  end.

(* ------------------------------------------------------------------ calls *)

Definition step_call (c : cfg) (f : value) (args : list value) (lua : bool) (k : list frame) : res :=
  match f with
  | VFun id =>
      match PositiveMap.find id (clos (sto c)) with
      | Some cl =>
          let '(ρv, s, extra) := bind_names (c_params cl) args (c_env cl) (sto c) in
          gos c (CBlock (c_body cl) (mkEnv ρv (if c_va cl then extra else [])) [])
                (KCallB (cline c) lua :: k) s
      | None => inr (FStuck 2)
      end
  | VBuiltin b => call_builtin c b args lua k
  | _ =>
      match metamethod (sto c) f ((lit "__call")) with
      | VNil =>
          (* a call made by a library function (pcall(nil), xpcall(42, h)) has no Lua position *)
          if lua then rterr c (lit "call") k
          else go c (CRaise (VStr (lit "?:#call"))) k
      | h => go c (CCall h (f :: args) lua) k
      end
  end.

(* ------------------------------------------------------------- statements *)

Definition step_stat (c : cfg) (ln : Z) (s : stat) (ρ : env) (k : list frame) : res :=
  match s with
  | SAssign lhs es => start_list c [] (lhs_exps lhs ++ es) ρ (LAssign (lhs_shapes lhs)) k
  | SCall e => go c (CExp e ρ) (KDrop :: k)
  | SDo b => go c (CBlock b ρ []) k
  | SWhile cnd b => go c (CExp cnd ρ) (KWhileC ln cnd b ρ :: k)
  | SRepeat b ln2 cnd => go c (CBlock (b ++ [(ln2, SUntil cnd)]) ρ []) (KLoop ln s ρ :: k)
  | SUntil cnd => go c (CExp cnd ρ) (KUntilC :: k)
  | SIf arms els =>
      match arms with
      | [] => go c (CBlock els ρ []) k
      | (l, cnd, t) :: rest => gol c (CExp cnd ρ) (KIfC t rest els ρ :: k) l
      end
  | SFor x e1 e2 e3 b => start_list c [] [EParen e1; EParen e2; EParen e3] ρ (LForNum x b ln) k
  | SForIn xs es b => start_list c [] es ρ (LForIn xs b ln) k
  | SGoto l => go c (COut (OGoto l)) k
  | SBreak => go c (COut OBreak) k
  | SReturn es => start_list c [] es ρ LReturn k
  | SLocal _ _ | SLabel _ | SLocalFun _ _ => inr (FStuck 3)
  end.

Definition step_block (c : cfg) (ss : block) (ρ : env) (seen : labels) (k : list frame) : res :=
  match ss with
  | [] => go c CDone k
  | (ln, s) :: rest =>
      match s with
      | SLocal xs es =>
          match start_list (mkCfg (ctl c) (stk c) (sto c) (trace c) ln (cot c)) [] es ρ (LLocal xs rest seen) k with
          | r => r
          end
      | SLabel l => go c (CBlock rest ρ ((l, (ss, ρ)) :: seen)) k
      | SLocalFun f fn =>
          (* local function f: the name is in scope inside the body (3.4.11) *)
          match fn with
          | EFun ps isva body =>
              let '(cl, s1) := cell_alloc (sto c) VNil in
              let ρv := (f, cl) :: vars ρ in
              let '(id, s2) := clo_alloc s1 (mkClo ps isva body ρv) in
              gos c (CBlock rest (mkEnv ρv (va ρ)) seen) k (cell_set s2 cl (VFun id))
          | _ => inr (FStuck 4)
          end
      | _ => gol c (CStat ln s ρ) (KSeq rest ρ seen :: k) ln
      end
  end.

Definition step_exp (c : cfg) (e : exp) (ρ : env) (k : list frame) : res :=
  match e with
  | ENil => go c (CRet [VNil]) k
  | ETrue => go c (CRet [VBool true]) k
  | EFalse => go c (CRet [VBool false]) k
  | EInt z => go c (CRet [VInt z]) k
  | EFlt b => go c (CRet [VFlt (of_bits b)]) k
  | EStr s => go c (CRet [VStr s]) k
  | EDots => go c (CRet (va ρ)) k
  | EVar x => match lookup (vars ρ) x with
              | Some cl => go c (CRet [cell_get (sto c) cl]) k
              | None => go c (CIndex (VTab globals_id) (VStr x)) k
              end
  | EIndex e1 e2 => go c (CExp e1 ρ) (KIdxL e2 ρ :: k)
  | ECall f args => go c (CExp f ρ) (KFirst :: KList [] args ρ LCall :: k)
  | EMeth o m args => go c (CExp o ρ) (KMethO m args ρ :: k)
  | EFun ps isva body =>
      let '(id, s) := clo_alloc (sto c) (mkClo ps isva body (vars ρ)) in gos c (CRet [VFun id]) k s
  | EBin o a b => go c (CExp a ρ) (KBinL o b ρ :: k)
  | EAnd a b => go c (CExp a ρ) (KAnd b ρ :: k)
  | EOr a b => go c (CExp a ρ) (KOr b ρ :: k)
  | EUn o a => go c (CExp a ρ) (KUn o :: k)
  | EParen e1 => go c (CExp e1 ρ) (KFirst :: k)
  | ETable fs => start_list c [] (field_exps fs) ρ (LTable (field_shapes fs)) k
  end.

(* leaving the scope of a to-be-closed value: call its __close metamethod with the
   value and the error in flight (nil if none); the exit p resumes afterwards *)
Definition close_scope (c : cfg) (v : value) (p : pend) (k : list frame) : res :=
  let e := match p with POut (OError e) | POut (OClose (Some e)) => e | _ => VNil end in
  match metamethod (sto c) v ev_close with
  | VNil => rterr c (lit "call") k
  | h => go c (CCall h [v; e] true) (KClosing p :: k)
  end.

(* values delivered to the top frame *)
Definition step_ret (c : cfg) (vs : list value) (fr : frame) (k : list frame) : res :=
  match fr with
  | KFirst => go c (CRet [first vs]) k
  | KDrop => go c CDone k
  | KBool => go c (CRet [VBool (truthy (first vs))]) k
  | KNotBool => go c (CRet [VBool (negb (truthy (first vs)))]) k
  | KList acc rest ρ lk =>
      match rest with
      | [] => finish_list c (acc ++ vs) ρ lk k
      | e :: r => go c (CExp e ρ) (KList (acc ++ [first vs]) r ρ lk :: k)
      end
  | KBinL o b ρ => go c (CExp b ρ) (KBinR o (first vs) :: k)
  | KBinR o a => go c (CBinop o a (first vs)) k
  | KAnd b ρ => if truthy (first vs) then go c (CExp b ρ) (KFirst :: k) else go c (CRet [first vs]) k
  | KOr b ρ => if truthy (first vs) then go c (CRet [first vs]) k else go c (CExp b ρ) (KFirst :: k)
  | KUn o => go c (CUnop o (first vs)) k
  | KIdxL e2 ρ => go c (CExp e2 ρ) (KIdxR (first vs) :: k)
  | KIdxR t => go c (CIndex t (first vs)) k
  | KMethO m args ρ => go c (CIndex (first vs) (VStr m)) (KMethF (first vs) args ρ :: k)
  | KMethF o args ρ => start_list c [first vs; o] args ρ LCall k
  | KWhileC ln cnd b ρ =>
      if truthy (first vs) then go c (CBlock b ρ []) (KLoop ln (SWhile cnd b) ρ :: k) else go c CDone k
  | KUntilC => if truthy (first vs) then go c (COut OBreak) k else go c CDone k
  | KIfC t arms els ρ =>
      if truthy (first vs) then go c (CBlock t ρ []) k else go c (CStat (cline c) (SIf arms els) ρ) k
  | KForInC xs f s b ρ ln =>
      match first vs with
      | VNil => go c CDone k
      | ctl' =>
          let '(ρv, s', _) := bind_names xs vs (vars ρ) (sto c) in
          gos c (CBlock b (mkEnv ρv (va ρ)) []) (KForIn xs f s ctl' b ρ ln :: k) s'
      end
  | KCallB saved _ => gol c (CRet vs) k saved
  | KPcall _ => go c (CRet (VBool true :: vs)) k
  | KHandler => go c (COut (OError (first vs))) k
  | KIpairs i => match first vs with
                 | VNil => go c (CRet [VNil]) k
                 | v => go c (CRet [VInt i; v]) k
                 end
  | KCoBottom id saved => goc c (CRet (VBool true :: vs)) k saved (co_put c id CoDead)
  | KWrap => match vs with
             | VBool true :: r => go c (CRet r) k
             | _ :: e :: _ => go c (CRaise e) k
             | _ => inr (FStuck 11)
             end
  | KClosing PDone => go c CDone k
  | KClosing (POut o) => go c (COut o) k
  | KScope _ | KSeq _ _ _ | KLoop _ _ _ | KForNumI _ _ _ _ _ _ _ | KForNumF _ _ _ _ _ _ _ | KForIn _ _ _ _ _ _ _
  | KAssign _ _ => inr (FStuck 5)
  end.

(* normal completion of a statement *)
Definition step_done (c : cfg) (fr : frame) (k : list frame) : res :=
  match fr with
  | KSeq rest ρ seen => go c (CBlock rest ρ seen) k
  | KLoop ln s ρ => go c (CStat ln s ρ) k
  | KForNumI x cur lim st b ρ ln => enter_fornum_i c x (cur + st) lim st b ρ ln k
  | KForNumF x cur lim st b ρ ln => enter_fornum_f c x (fadd cur st) lim st b ρ ln k
  | KForIn xs f s ctl' b ρ ln => gol c (CCall f [s; ctl'] true) (KForInC xs f s b ρ ln :: k) ln
  | KCallB saved _ => gol c (CRet []) k saved
  | KAssign ts vs => go c (CAssign ts vs) k
  | KScope v => close_scope c v PDone k
  | _ => inr (FStuck 6)
  end.

(* an abrupt outcome meets the top frame *)
Definition step_out (c : cfg) (o : outcome) (fr : frame) (k : list frame) : res :=
  match fr with
  | KScope v => close_scope c v (POut o) k
  | _ =>
  match o with
  | OBreak =>
      match fr with
      | KLoop _ _ _ | KForNumI _ _ _ _ _ _ _ | KForNumF _ _ _ _ _ _ _ | KForIn _ _ _ _ _ _ _ => go c CDone k
      | KCallB _ _ | KPcall _ | KHandler | KCoBottom _ _ => inr (FStuck 7)
      | _ => go c (COut o) k
      end
  | OGoto l =>
      match fr with
      | KSeq rest ρ seen =>
          match find_seen l seen with
          | Some (b, ρl, seen') => go c (CBlock b ρl (tl seen')) k
          | None => match find_label l rest with
                    | Some b => go c (CBlock b ρ seen) k
                    | None => go c (COut o) k
                    end
          end
      | KCallB _ _ | KPcall _ | KHandler | KCoBottom _ _ => inr (FStuck 8)
      | _ => go c (COut o) k
      end
  | OReturn vs =>
      match fr with
      | KCallB saved _ => gol c (CRet vs) k saved
      | KPcall _ | KHandler | KCoBottom _ _ => inr (FStuck 9)
      | _ => go c (COut o) k
      end
  | OClose e =>
      match fr with
      | KCoBottom id saved =>
          goc c (CRet (match e with None => [VBool true] | Some v => [VBool false; v] end)) k saved (co_put c id CoDead)
      | KCallB saved _ => gol c (COut o) k saved
      | _ => go c (COut o) k
      end
  | OError v =>
      match fr with
      | KClosing (POut (OClose _)) => go c (COut (OClose (Some v))) k
      | KPcall _ => go c (CRet [VBool false; v]) k
      | KCallB saved _ => gol c (COut o) k saved
      | KCoBottom id saved => goc c (CRet [VBool false; v]) k saved (co_put c id CoDead)
      | _ => go c (COut o) k
      end
  end
  end.

Definition step (c : cfg) : res :=
  let k := stk c in
  match ctl c with
  | CExp e ρ => step_exp c e ρ k
  | CBlock ss ρ seen => step_block c ss ρ seen k
  | CStat ln s ρ => step_stat c ln s ρ k
  | CRet vs => match k with [] => inr (FDone vs) | fr :: k' => step_ret c vs fr k' end
  | CDone => match k with [] => inr (FDone []) | fr :: k' => step_done c fr k' end
  | COut o => match k with
              | [] => match o with OError v => inr (FError v) | _ => inr (FStuck 10) end
              | fr :: k' => step_out c o fr k'
              end
  | CRaise v => match find_handler k with
                | Some h => go c (CCall h [v] false) (KHandler :: k)
                | None => go c (COut (OError v)) k
                end
  | CCall f args lua => step_call c f args lua k
  | CIndex t kk => step_index c t kk k
  | CSetIndex t kk v => step_setindex c t kk v k
  | CBinop o a b => step_binop c o a b k
  | CUnop o a => step_unop c o a k
  | CAssign ts vs =>
      match ts with
      | [] => go c CDone k
      | TCell cl :: r => gos c (CAssign r (tl vs)) k (cell_set (sto c) cl (first vs))
      | TGlobal x :: r => go c (CSetIndex (VTab globals_id) (VStr x) (first vs)) (KAssign r (tl vs) :: k)
      | TIdx t kk :: r => go c (CSetIndex t kk (first vs)) (KAssign r (tl vs) :: k)
      end
  end.

(* ------------------------------------------------------------------ running *)

Inductive result := Final (f : final) (tr : list (list value)) | OutOfFuel (c : cfg).

Fixpoint steps (n : nat) (c : cfg) : res :=
  match n with
  | O => inl c
  | S m => match step c with inl c' => steps m c' | r => r end
  end.

(* 2^n steps, with n small: the extracted oracle's driver *)
Fixpoint run_pow (n : nat) (c : cfg) : cfg + (final * list (list value)) :=
  match n with
  | O => match step c with inl c' => inl c' | inr f => inr (f, trace c) end
  | S m => match run_pow m c with inl c' => run_pow m c' | r => r end
  end.

Definition run (n : nat) (c : cfg) : result :=
  match run_pow n c with inl c' => OutOfFuel c' | inr (f, tr) => Final f (rev tr) end.

(* the main chunk is a vararg function applied to the argument tuple *)
Definition init_cfg (body : block) (args : list value) : cfg :=
  mkCfg (CBlock body (mkEnv [] args) []) [KCallB 0 false] init_store [] 0 init_cot.

Definition run_program (fuel : nat) (body : block) (args : list value) : result :=
  run fuel (init_cfg body args).
