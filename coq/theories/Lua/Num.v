(* Lua/Num.v — Lua 5.4 number semantics used by LuaCore (manual 3.4.1-3.4.4,
   3.1 for numeral syntax).  Integers are Z wrapped to int64, floats are
   Flocq binary64 with one NaN (GV.Base.F64).  Definitions only. *)
From Coq Require Import ZArith NArith List Bool.
From Flocq Require Import Core.Core IEEE754.BinarySingleNaN.
From GV Require Import Base.W64 Base.F64 Lua.Syntax.
Import ListNotations.
Open Scope Z_scope.

Inductive num := NI (z : Z) | NF (f : f64).

Definition num_to_f (n : num) : f64 := match n with NI z => of_int z | NF f => f end.

(* mathematical comparison of an integer with a float; None when NaN *)
Definition int_float_cmp (i : Z) (f : f64) : option comparison :=
  match f with
  | B754_nan => None
  | B754_infinity s => Some (if s then Gt else Lt)
  | B754_zero _ => Some (i ?= 0)
  | B754_finite s m e _ =>
      let fm := cond_Zopp s (Zpos m) in
      if 0 <=? e then Some (i ?= fm * 2 ^ e) else Some (i * 2 ^ (- e) ?= fm)
  end.

(* the float has an exact int64 representation *)
Definition flt_to_int (f : f64) : option Z :=
  match f with
  | B754_zero _ => Some 0
  | B754_finite s m e _ =>
      let fm := cond_Zopp s (Zpos m) in
      if 0 <=? e then
        (if e <=? 64 then (let z := fm * 2 ^ e in if in64b z then Some z else None) else None)
      else if (Zpos m) mod 2 ^ (- e) =? 0 then
        (let z := fm / 2 ^ (- e) in if in64b z then Some z else None)
      else None
  | _ => None
  end.

Definition num_to_int (n : num) : option Z :=
  match n with NI z => Some z | NF f => flt_to_int f end.

Definition num_eq (a b : num) : bool :=
  match a, b with
  | NI x, NI y => x =? y
  | NF x, NF y => feq x y
  | NI x, NF y | NF y, NI x =>
      match int_float_cmp x y with Some Eq => true | _ => false end
  end.

Definition num_lt (a b : num) : bool :=
  match a, b with
  | NI x, NI y => x <? y
  | NF x, NF y => flt x y
  | NI x, NF y => match int_float_cmp x y with Some Lt => true | _ => false end
  | NF x, NI y => match int_float_cmp y x with Some Gt => true | _ => false end
  end.

Definition num_le (a b : num) : bool :=
  match a, b with
  | NI x, NI y => x <=? y
  | NF x, NF y => fle x y
  | NI x, NF y => match int_float_cmp x y with Some Lt | Some Eq => true | _ => false end
  | NF x, NI y => match int_float_cmp y x with Some Gt | Some Eq => true | _ => false end
  end.

(* float modulo a - floor(a/b)*b (manual 3.4.1), computed as the reference
   implementation does: C fmod (exact, sign of a), then moved to the sign of the
   divisor when the signs differ *)
Definition fmod_lua (a b : f64) : f64 :=
  let m := fmod a b in
  if (fpos0 m && fneg0 b) || (fneg0 m && fpos0 b) then fadd m b else m.

(* x ^ y for the exactly computable cases only: integral exponent 0..1023 and
   integral base, result below 2^53 *)
Definition pow_exact (a b : f64) : option f64 :=
  match flt_to_int a, flt_to_int b with
  | Some x, Some y =>
      if (0 <=? y) && (y <=? 64) then
        let r := x ^ y in if Z.abs r <=? 2 ^ 53 then Some (of_int r) else None
      else None
  | _, _ => None
  end.

Inductive ares := AOk (n : num) | ADivZero | AModZero | AUnsupported.

Definition arith (o : binop) (a b : num) : ares :=
  match o with
  | OpAdd => match a, b with NI x, NI y => AOk (NI (add64 x y)) | _, _ => AOk (NF (fadd (num_to_f a) (num_to_f b))) end
  | OpSub => match a, b with NI x, NI y => AOk (NI (sub64 x y)) | _, _ => AOk (NF (fsub (num_to_f a) (num_to_f b))) end
  | OpMul => match a, b with NI x, NI y => AOk (NI (mul64 x y)) | _, _ => AOk (NF (fmul (num_to_f a) (num_to_f b))) end
  | OpDiv => AOk (NF (fdiv (num_to_f a) (num_to_f b)))
  | OpPow => match pow_exact (num_to_f a) (num_to_f b) with Some r => AOk (NF r) | None => AUnsupported end
  | OpIDiv => match a, b with
            | NI x, NI y => if y =? 0 then ADivZero else AOk (NI (wrap64 (x / y)))
            | _, _ => AOk (NF (ffloor (fdiv (num_to_f a) (num_to_f b))))
            end
  | OpMod => match a, b with
           | NI x, NI y => if y =? 0 then AModZero else AOk (NI (x mod y))
           | _, _ => AOk (NF (fmod_lua (num_to_f a) (num_to_f b)))
           end
  | _ => AUnsupported
  end.

(* logical shift of a 64-bit pattern; negative count shifts right *)
Definition shift_left (a n : Z) : Z :=
  if n <=? -64 then 0
  else if 64 <=? n then 0
  else if 0 <=? n then wrap64 (u64 a * 2 ^ n)
  else wrap64 (u64 a / 2 ^ (- n)).

Definition bitop (o : binop) (x y : Z) : Z :=
  match o with
  | OpBAnd => Z.land x y
  | OpBOr => Z.lor x y
  | OpBXor => Z.lxor x y
  | OpShl => shift_left x y
  | OpShr => shift_left x (- y)
  | _ => 0
  end.

(* ---------------------------------------------------------------- strings *)

Definition is_space (c : N) : bool :=
  match c with 32%N | 9%N | 10%N | 11%N | 12%N | 13%N => true | _ => false end.
Definition is_digit (c : N) : bool := (48 <=? c)%N && (c <=? 57)%N.
Definition hexval (c : N) : option Z :=
  if is_digit c then Some (Z.of_N c - 48)
  else if (97 <=? c)%N && (c <=? 102)%N then Some (Z.of_N c - 87)
  else if (65 <=? c)%N && (c <=? 70)%N then Some (Z.of_N c - 55)
  else None.

Fixpoint drop_space (s : str) : str :=
  match s with c :: r => if is_space c then drop_space r else s | [] => [] end.

Definition trim (s : str) : str := rev (drop_space (rev (drop_space s))).

(* leading decimal digits: (value, number of digits, rest) *)
Fixpoint take_digits (s : str) (acc : Z) (n : Z) : Z * Z * str :=
  match s with
  | c :: r => if is_digit c then take_digits r (acc * 10 + (Z.of_N c - 48)) (n + 1) else (acc, n, s)
  | [] => (acc, n, [])
  end.

Fixpoint take_hex (s : str) (acc : Z) (n : Z) : Z * Z * str :=
  match s with
  | c :: r => match hexval c with Some d => take_hex r (acc * 16 + d) (n + 1) | None => (acc, n, s) end
  | [] => (acc, n, [])
  end.

(* m / d (m >= 0, d > 0) correctly rounded to nearest-even: quotient with at
   least 60 significant bits plus a sticky bit, rounded once *)
Definition of_ratio (m d : Z) : f64 :=
  if m =? 0 then fzero false else
  let s := Z.max 0 (60 + Z.log2_up d - Z.log2 m) in
  let q := (m * 2 ^ s) / d in
  let r := (m * 2 ^ s) mod d in
  of_mant_exp (if r =? 0 then q else Z.lor q 1) (- s) false.

(* m * 10^e for m >= 0 *)
Definition of_dec (m e : Z) : f64 :=
  if 0 <=? e then of_int (m * 10 ^ e) else of_ratio m (10 ^ (- e)).

(* a numeral following the lexer's rules, without sign and without
   surrounding space.  Hexadecimal floats are not handled (None). *)
Definition parse_unsigned (s : str) : option num :=
  match s with
  | 48%N :: (120%N | 88%N) :: r =>
      let '(v, n, rest) := take_hex r 0 0 in
      if (0 <? n) then match rest with [] => Some (NI (wrap64 v)) | _ => None end else None
  | _ =>
      let '(ip, n1, r1) := take_digits s 0 0 in
      let '(fp, n2, r2) := match r1 with
                           | 46%N :: r => take_digits r ip 0
                           | _ => (ip, 0, r1)
                           end in
      let hasdot := match r1 with 46%N :: _ => true | _ => false end in
      if (n1 + n2 =? 0) then None else
      match r2 with
      | [] => if hasdot then Some (NF (of_dec fp (- n2)))
              else if in64b ip then Some (NI ip) else Some (NF (of_int ip))
      | (101%N | 69%N) :: r3 =>
          let '(sg, r4) := match r3 with
                           | 45%N :: r => (true, r)
                           | 43%N :: r => (false, r)
                           | _ => (false, r3)
                           end in
          let '(ex, n3, r5) := take_digits r4 0 0 in
          if (0 <? n3) && (ex <? 400) then
            match r5 with
            | [] => Some (NF (of_dec fp ((if sg then - ex else ex) - n2)))
            | _ => None
            end
          else None
      | _ => None
      end
  end.

Definition num_neg (n : num) : num :=
  match n with NI z => NI (neg64 z) | NF f => NF (fneg f) end.

Definition str2num (s : str) : option num :=
  match trim s with
  | 45%N :: r => match parse_unsigned r with Some n => Some (num_neg n) | None => None end
  | 43%N :: r => parse_unsigned r
  | r => parse_unsigned r
  end.

Fixpoint dec_digits (fuel : nat) (n : Z) (acc : str) : str :=
  match fuel with
  | O => acc
  | S f => if n <? 10 then (Z.to_N (48 + n)) :: acc
           else dec_digits f (n / 10) (Z.to_N (48 + n mod 10) :: acc)
  end.

Definition dec_of_Z (z : Z) : str :=
  if z <? 0 then 45%N :: dec_digits 25 (- z) [] else dec_digits 25 z [].

Fixpoint str_eqb (a b : str) : bool :=
  match a, b with
  | [], [] => true
  | x :: a', y :: b' => (x =? y)%N && str_eqb a' b'
  | _, _ => false
  end.

(* byte-wise lexicographic order *)
Fixpoint str_cmp (a b : str) : comparison :=
  match a, b with
  | [], [] => Eq
  | [], _ => Lt
  | _, [] => Gt
  | x :: a', y :: b' => match (x ?= y)%N with Eq => str_cmp a' b' | c => c end
  end.
