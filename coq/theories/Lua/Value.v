(* Lua/Value.v — values, environments and the store of LuaCore
   (manual 2.1 values and types, 2.4 metatables, 3.5 visibility: a fresh
   cell for every execution of a local declaration).  Definitions only. *)
From Coq Require Import ZArith NArith List Bool String Ascii FMapPositive.
From Flocq Require Import Core.Core IEEE754.BinarySingleNaN.
From GV Require Import Base.W64 Base.F64 Lua.Syntax Lua.Num.
Import ListNotations.
Open Scope Z_scope.

Inductive builtin :=
| BEmit | BPcall | BXpcall | BError | BAssert | BSelect | BType
| BRawget | BRawset | BRawequal | BRawlen | BIpairs | BIpairsIter
| BSetmt | BGetmt | BTostring | BTonumber
| BMathType | BMathToint
| BStrLen | BStrSub | BStrRep | BStrByte | BStrChar
| BTabInsert | BTabRemove | BTabUnpack | BTabPack | BTabConcat
| BNext | BPairs
| BCoCreate | BCoResume | BCoYield | BCoStatus | BCoWrap | BCoClose | BCoIsYieldable | BCoRunning
| BCoWrapped (co : positive).

Scheme Equality for builtin.

Inductive value :=
| VNil | VBool (b : bool) | VInt (z : Z) | VFlt (f : f64) | VStr (s : str)
| VTab (id : positive) | VFun (id : positive) | VBuiltin (b : builtin) | VCo (id : positive).

Definition s2l (s : string) : str := map N_of_ascii (list_ascii_of_string s).
(* string constants are converted to byte lists when the definition is
   elaborated, so that Coq's `string` type does not reach the extracted code *)
Notation "'lit' s" := (ltac:(let v := eval vm_compute in (s2l s%string) in exact v)) (at level 10, s at level 0, only parsing).

Definition first (vs : list value) : value := match vs with v :: _ => v | [] => VNil end.
Definition truthy (v : value) : bool := match v with VNil | VBool false => false | _ => true end.

Definition to_num (v : value) : option num :=
  match v with VInt z => Some (NI z) | VFlt f => Some (NF f) | _ => None end.
Definition of_num (n : num) : value := match n with NI z => VInt z | NF f => VFlt f end.

(* number, or string convertible to a number (manual 3.4.3) *)
Definition to_num_coerce (v : value) : option num :=
  match v with VInt z => Some (NI z) | VFlt f => Some (NF f) | VStr s => str2num s | _ => None end.

(* primitive (raw) equality, manual 3.4.4 *)
Definition raweq (a b : value) : bool :=
  match a, b with
  | VNil, VNil => true
  | VBool x, VBool y => Bool.eqb x y
  | VInt x, VInt y => x =? y
  | VInt _, VFlt _ | VFlt _, VInt _ | VFlt _, VFlt _ =>
      match to_num a, to_num b with Some x, Some y => num_eq x y | _, _ => false end
  | VStr x, VStr y => str_eqb x y
  | VTab x, VTab y => Pos.eqb x y
  | VFun x, VFun y => Pos.eqb x y
  | VBuiltin x, VBuiltin y => builtin_beq x y
  | VCo x, VCo y => Pos.eqb x y
  | _, _ => false
  end.

Inductive keyres := KeyOk (k : value) | KeyNil | KeyNaN.

(* table keys: floats with an exact integer value are normalised to that
   integer; nil and NaN are not keys (manual 2.1, 3.4.11) *)
Definition norm_key (k : value) : keyres :=
  match k with
  | VNil => KeyNil
  | VFlt f => if fis_nan f then KeyNaN else
              match flt_to_int f with Some z => KeyOk (VInt z) | None => KeyOk k end
  | _ => KeyOk k
  end.

Definition tmap := list (value * value).

Fixpoint tm_get (m : tmap) (k : value) : value :=
  match m with
  | [] => VNil
  | (k', v) :: r => if raweq k' k then v else tm_get r k
  end.

Fixpoint tm_remove (m : tmap) (k : value) : tmap :=
  match m with
  | [] => []
  | (k', v) :: r => if raweq k' k then r else (k', v) :: tm_remove r k
  end.

Fixpoint tm_replace (m : tmap) (k v : value) : option tmap :=
  match m with
  | [] => None
  | (k', v') :: r => if raweq k' k then Some ((k', v) :: r)
                     else match tm_replace r k v with Some r' => Some ((k', v') :: r') | None => None end
  end.

(* k is a normalised key *)
Definition tm_set (m : tmap) (k v : value) : tmap :=
  match v with
  | VNil => tm_remove m k
  | _ => match tm_replace m k v with Some m' => m' | None => (k, v) :: m end
  end.

Record table := mkTab { t_map : tmap; t_meta : option positive }.

(* a border (manual 3.4.7); the generator only measures proper sequences,
   where the border is unique *)
Fixpoint border_from (fuel : nat) (m : tmap) (i : Z) : Z :=
  match fuel with
  | O => i
  | S f => match tm_get m (VInt (i + 1)) with VNil => i | _ => border_from f m (i + 1) end
  end.
Definition border (m : tmap) : Z := border_from (List.length m) m 0.

Record env := mkEnv { vars : list (name * positive); va : list value }.

Fixpoint lookup (vs : list (name * positive)) (x : name) : option positive :=
  match vs with
  | [] => None
  | (y, c) :: r => if str_eqb y x then Some c else lookup r x
  end.

Record closure := mkClo { c_params : list name; c_va : bool; c_body : block; c_env : list (name * positive) }.

Record store := mkStore {
  cells : PositiveMap.t value; ncell : positive;
  tabs : PositiveMap.t table; ntab : positive;
  clos : PositiveMap.t closure; nclo : positive }.

Definition globals_id : positive := 1%positive.
Definition strmeta_id : positive := 2%positive.

Definition cell_get (s : store) (c : positive) : value :=
  match PositiveMap.find c (cells s) with Some v => v | None => VNil end.
Definition cell_set (s : store) (c : positive) (v : value) : store :=
  mkStore (PositiveMap.add c v (cells s)) (ncell s) (tabs s) (ntab s) (clos s) (nclo s).
Definition cell_alloc (s : store) (v : value) : positive * store :=
  (ncell s, mkStore (PositiveMap.add (ncell s) v (cells s)) (Pos.succ (ncell s)) (tabs s) (ntab s) (clos s) (nclo s)).

Definition tab_get (s : store) (t : positive) : table :=
  match PositiveMap.find t (tabs s) with Some x => x | None => mkTab [] None end.
Definition tab_put (s : store) (t : positive) (x : table) : store :=
  mkStore (cells s) (ncell s) (PositiveMap.add t x (tabs s)) (ntab s) (clos s) (nclo s).
Definition tab_alloc (s : store) (x : table) : positive * store :=
  (ntab s, mkStore (cells s) (ncell s) (PositiveMap.add (ntab s) x (tabs s)) (Pos.succ (ntab s)) (clos s) (nclo s)).
Definition clo_alloc (s : store) (x : closure) : positive * store :=
  (nclo s, mkStore (cells s) (ncell s) (tabs s) (ntab s) (PositiveMap.add (nclo s) x (clos s)) (Pos.succ (nclo s))).

Definition rawget (s : store) (t : positive) (k : value) : value :=
  match norm_key k with KeyOk k' => tm_get (t_map (tab_get s t)) k' | _ => VNil end.
(* k already normalised *)
Definition rawset (s : store) (t : positive) (k v : value) : store :=
  let x := tab_get s t in tab_put s t (mkTab (tm_set (t_map x) k v) (t_meta x)).

(* the metatable of a value: tables carry their own, strings share one *)
Definition metatable_of (s : store) (v : value) : option positive :=
  match v with
  | VTab t => t_meta (tab_get s t)
  | VStr _ => Some strmeta_id
  | _ => None
  end.

Definition metamethod (s : store) (v : value) (ev : str) : value :=
  match metatable_of s v with
  | Some mt => tm_get (t_map (tab_get s mt)) (VStr ev)
  | None => VNil
  end.

(* binary events: first operand, then second (manual 2.4) *)
Definition binmeta (s : store) (a b : value) (ev : str) : value :=
  match metamethod s a ev with VNil => metamethod s b ev | h => h end.

Definition is_function (v : value) : bool :=
  match v with VFun _ | VBuiltin _ => true | _ => false end.

Definition type_name (v : value) : str :=
  match v with
  | VNil => (lit "nil") | VBool _ => (lit "boolean") | VInt _ | VFlt _ => (lit "number")
  | VStr _ => (lit "string") | VTab _ => (lit "table") | VFun _ | VBuiltin _ => (lit "function")
  | VCo _ => (lit "thread")
  end.

(* bind fresh cells for a list of names; missing values are nil *)
Fixpoint bind_names (xs : list name) (vs : list value) (ρ : list (name * positive)) (s : store)
  : list (name * positive) * store * list value :=
  match xs with
  | [] => (ρ, s, vs)
  | x :: xr =>
      let '(c, s') := cell_alloc s (first vs) in
      bind_names xr (tl vs) ((x, c) :: ρ) s'
  end.
