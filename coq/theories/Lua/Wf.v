(* Lua/Wf.v — well-formedness of LuaCore configurations and its preservation.
   wf c: every variable that occurs anywhere in the configuration — in the control's
   environment, in the environments and label tables of every frame of the continuation
   stack, in assignment targets, in the captured environment of every closure of the
   store, in the saved stack of every suspended coroutine — denotes a cell identity
   below the allocation counter `ncell`.  `step` preserves wf (proved through every
   case of the machine, all builtins included); hence every configuration reachable
   from the start of any program, after any number of steps, is well formed. *)
From Coq Require Import ZArith NArith List Bool Lia FMapPositive.
From GV Require Import Base.W64 Base.F64 Lua.Syntax Lua.Num Lua.Value Lua.Lib Lua.Machine Lua.Meta.
Import ListNotations.
Open Scope Z_scope.

(* ------------------------------------------------------------ wf: every variable denotes an allocated cell *)

Definition cells_ok (n : positive) (vs : list (name * positive)) : Prop :=
  Forall (fun xc => (snd xc < n)%positive) vs.
Definition env_ok (n : positive) (ρ : env) : Prop := cells_ok n (vars ρ).
Definition labels_ok (n : positive) (seen : labels) : Prop :=
  Forall (fun e => env_ok n (snd (snd e))) seen.
Definition listk_ok (n : positive) (lk : listk) : Prop :=
  match lk with LLocal _ _ seen => labels_ok n seen | _ => True end.
Definition target_ok (n : positive) (t : target) : Prop :=
  match t with TCell c => (c < n)%positive | _ => True end.

Definition frame_ok (n : positive) (fr : frame) : Prop :=
  match fr with
  | KSeq _ ρ seen => env_ok n ρ /\ labels_ok n seen
  | KLoop _ _ ρ | KWhileC _ _ _ ρ | KIfC _ _ _ ρ | KForNumI _ _ _ _ _ ρ _ | KForNumF _ _ _ _ _ ρ _
  | KForInC _ _ _ _ ρ _ | KForIn _ _ _ _ _ ρ _ | KBinL _ _ ρ | KAnd _ ρ | KOr _ ρ | KIdxL _ ρ
  | KMethO _ _ ρ | KMethF _ _ ρ => env_ok n ρ
  | KList _ _ ρ lk => env_ok n ρ /\ listk_ok n lk
  | KAssign ts _ => Forall (target_ok n) ts
  | _ => True
  end.

Definition ctl_ok (n : positive) (ct : control) : Prop :=
  match ct with
  | CExp _ ρ | CStat _ _ ρ => env_ok n ρ
  | CBlock _ ρ seen => env_ok n ρ /\ labels_ok n seen
  | CAssign ts _ => Forall (target_ok n) ts
  | _ => True
  end.

Definition clos_ok (s : store) : Prop :=
  forall id cl, PositiveMap.find id (clos s) = Some cl -> cells_ok (ncell s) (c_env cl).

Definition cot_ok (n : positive) (t : cotab) : Prop :=
  forall id k ln, PositiveMap.find id (cos t) = Some (CoSusp k ln) -> Forall (frame_ok n) k.

Definition wf (c : cfg) : Prop :=
  let n := ncell (sto c) in
  ctl_ok n (ctl c) /\ Forall (frame_ok n) (stk c) /\ clos_ok (sto c) /\ cot_ok n (cot c).

(* monotonicity in the counter *)
Lemma cells_ok_mono : forall n m vs, (n <= m)%positive -> cells_ok n vs -> cells_ok m vs.
Proof. unfold cells_ok; intros. eapply Forall_impl; [|exact H0]. simpl; intros; lia. Qed.
Lemma labels_ok_mono : forall n m l, (n <= m)%positive -> labels_ok n l -> labels_ok m l.
Proof. unfold labels_ok, env_ok; intros. eapply Forall_impl; [|exact H0]. intros; eapply cells_ok_mono; eauto. Qed.
Lemma frame_ok_mono : forall n m fr, (n <= m)%positive -> frame_ok n fr -> frame_ok m fr.
Proof.
  intros n m fr L H. destruct fr; simpl in *; auto;
  try (eapply cells_ok_mono; eauto; fail);
  try (destruct H; split; [eapply cells_ok_mono; eauto | eapply labels_ok_mono; eauto]; fail).
  - destruct H; split; [eapply cells_ok_mono; eauto|]. destruct lk; simpl in *; auto. eapply labels_ok_mono; eauto.
  - eapply Forall_impl; [|exact H]. intros t Ht; destruct t; simpl in *; auto; lia.
Qed.
Lemma stack_ok_mono : forall n m k, (n <= m)%positive -> Forall (frame_ok n) k -> Forall (frame_ok m) k.
Proof. intros. eapply Forall_impl; [|exact H0]. intros; eapply frame_ok_mono; eauto. Qed.

Definition base_ok (c : cfg) : Prop := clos_ok (sto c) /\ cot_ok (ncell (sto c)) (cot c).
Definition res_wf (r : res) : Prop := match r with inl c' => wf c' | inr _ => True end.

Lemma cot_ok_mono : forall n m t, (n <= m)%positive -> cot_ok n t -> cot_ok m t.
Proof. unfold cot_ok; intros. eapply stack_ok_mono; eauto. Qed.

Lemma wf_go : forall c ct k, base_ok c -> ctl_ok (ncell (sto c)) ct -> Forall (frame_ok (ncell (sto c))) k -> res_wf (go c ct k).
Proof. intros c ct k [H1 H2] H3 H4. unfold go, res_wf, wf. cbn. auto. Qed.
Lemma wf_gol : forall c ct k ln, base_ok c -> ctl_ok (ncell (sto c)) ct -> Forall (frame_ok (ncell (sto c))) k -> res_wf (gol c ct k ln).
Proof. intros c ct k ln [H1 H2] H3 H4. unfold gol, res_wf, wf. cbn. auto. Qed.
Lemma wf_goc : forall c ct k ln t, base_ok c -> ctl_ok (ncell (sto c)) ct -> Forall (frame_ok (ncell (sto c))) k ->
  cot_ok (ncell (sto c)) t -> res_wf (goc c ct k ln t).
Proof. intros c ct k ln t [H1 H2] H3 H4 H5. unfold goc, res_wf, wf. cbn. auto. Qed.
Lemma wf_rterr : forall c cls k, base_ok c -> Forall (frame_ok (ncell (sto c))) k -> res_wf (rterr c cls k).
Proof. intros. unfold rterr. apply wf_go; simpl; auto. Qed.
(* a store with the same cells counter and closures *)
Lemma wf_gos_same : forall c ct k s, base_ok c -> ncell s = ncell (sto c) -> clos s = clos (sto c) ->
  ctl_ok (ncell (sto c)) ct -> Forall (frame_ok (ncell (sto c))) k -> res_wf (gos c ct k s).
Proof.
  intros c ct k s [H1 H2] E1 E2 H3 H4. unfold gos, res_wf, wf. cbn. rewrite E1. repeat split; auto.
  unfold clos_ok. rewrite E1, E2. exact H1.
Qed.
(* a store with more cells and the same or more closures, all well formed *)
Lemma wf_gos_grow : forall c ct k s, base_ok c -> (ncell (sto c) <= ncell s)%positive -> clos_ok s ->
  ctl_ok (ncell s) ct -> Forall (frame_ok (ncell s)) k -> res_wf (gos c ct k s).
Proof.
  intros c ct k s [H1 H2] L Hc H3 H4. unfold gos, res_wf, wf. cbn. repeat split; auto.
  eapply cot_ok_mono; eauto.
Qed.

Lemma bind_names_ok : forall xs vs ρ s,
  cells_ok (ncell s) ρ ->
  cells_ok (ncell (snd (fst (bind_names xs vs ρ s)))) (fst (fst (bind_names xs vs ρ s))) /\
  (ncell s <= ncell (snd (fst (bind_names xs vs ρ s))))%positive /\
  clos (snd (fst (bind_names xs vs ρ s))) = clos s.
Proof.
  induction xs; intros vs ρ s H; simpl.
  - repeat split; auto. lia.
  - set (s1 := mkStore (PositiveMap.add (ncell s) (first vs) (cells s)) (Pos.succ (ncell s)) (tabs s) (ntab s) (clos s) (nclo s)).
    assert (H1 : cells_ok (ncell s1) ((a, ncell s) :: ρ)).
    { unfold cells_ok. constructor; [simpl; lia|]. eapply cells_ok_mono; [|exact H]. simpl; lia. }
    destruct (IHxs (tl vs) ((a, ncell s) :: ρ) s1 H1) as (A & B & C).
    repeat split; auto. simpl in B. lia.
Qed.

Lemma clos_ok_grow : forall s s', clos_ok s -> (ncell s <= ncell s')%positive -> clos s' = clos s -> clos_ok s'.
Proof.
  unfold clos_ok; intros s s' H L E id cl F. rewrite E in F. eapply cells_ok_mono; eauto.
Qed.

Lemma split_co_ok : forall (P : frame -> Prop) k kc id saved rest,
  Forall P k -> split_co k = Some (kc, id, saved, rest) -> Forall P kc /\ Forall P rest.
Proof.
  induction k as [|fr k IH]; simpl; intros kc id saved rest H E; [discriminate|].
  inversion H; subst.
  destruct fr; try (destruct (split_co k) as [[[[kc0 id0] sv0] r0]|] eqn:S; [|discriminate];
                    inversion E; subst; destruct (IH _ _ _ _ H3 eq_refl); split; auto; fail).
  inversion E; subst. split; auto.
Qed.

Lemma cot_ok_put : forall n t id x m,
  cot_ok n t -> match x with CoSusp k _ => Forall (frame_ok n) k | _ => True end ->
  cot_ok n (mkCot (PositiveMap.add id x (cos t)) m).
Proof.
  unfold cot_ok; intros n t id x m H Hx id' k ln F. cbn in F.
  rewrite PositiveMapAdditionalFacts.gsspec in F.
  destruct (PositiveMap.E.eq_dec id' id).
  - inversion F; subst. exact Hx.
  - eapply H; eauto.
Qed.

Ltac okt := first [ assumption | exact I
                  | (simpl; repeat split; auto; try assumption; try apply Forall_nil; try (unfold env_ok, labels_ok in *; assumption)) ].
Ltac stk := repeat (apply Forall_cons; [okt|]); try assumption; try apply Forall_nil.
Ltac wfin :=
  match goal with
  | |- res_wf (inr _) => exact I
  | |- res_wf (rterr _ _ _) => apply wf_rterr; [assumption | stk]
  | |- res_wf (go _ _ _) => apply wf_go; [assumption | okt | stk]
  | |- res_wf (gol _ _ _ _) => apply wf_gol; [assumption | okt | stk]
  | |- res_wf (gos _ _ _ _) => apply wf_gos_same; [assumption | reflexivity | reflexivity | okt | stk]
  end.
Ltac wbrk :=
  repeat match goal with
  | |- res_wf (match ?x with _ => _ end) => destruct x
  | |- res_wf (if ?x then _ else _) => destruct x
  | |- res_wf (let '(_, _) := ?x in _) => destruct x eqn:?
  end.

Section WithCfg.
Variable c : cfg.
Hypothesis B : base_ok c.
Notation n := (ncell (sto c)).

Lemma step_binop_wf : forall o a b k, Forall (frame_ok n) k -> res_wf (step_binop c o a b k).
Proof. intros. unfold step_binop. destruct o; wbrk; wfin. Qed.
Lemma step_unop_wf : forall o a k, Forall (frame_ok n) k -> res_wf (step_unop c o a k).
Proof. intros. unfold step_unop. destruct o; wbrk; wfin. Qed.
Lemma step_index_wf : forall t kk k, Forall (frame_ok n) k -> res_wf (step_index c t kk k).
Proof. intros. unfold step_index. wbrk; wfin. Qed.
Lemma step_setindex_wf : forall t kk v k, Forall (frame_ok n) k -> res_wf (step_setindex c t kk v k).
Proof. intros. unfold step_setindex, rawset, tab_put. wbrk; wfin. Qed.
Lemma close_scope_wf : forall v p k, Forall (frame_ok n) k -> res_wf (close_scope c v p k).
Proof. intros. unfold close_scope. wbrk; wfin. Qed.

Lemma enter_fornum_i_wf : forall x cur lim st b ρ ln k, env_ok n ρ -> Forall (frame_ok n) k ->
  res_wf (enter_fornum_i c x cur lim st b ρ ln k).
Proof.
  intros. unfold enter_fornum_i, cell_alloc. wbrk; try wfin.
  apply wf_gos_grow; auto; cbn [ncell].
  - lia.
  - eapply clos_ok_grow; [exact (proj1 B) | cbn; lia | reflexivity].
  - simpl. split; [|constructor]. constructor; [simpl; lia|]. eapply cells_ok_mono; [|exact H]. lia.
  - apply Forall_cons; [simpl; eapply cells_ok_mono; [|exact H]; lia|]. eapply stack_ok_mono; [|exact H0]. lia.
Qed.
Lemma enter_fornum_f_wf : forall x cur lim st b ρ ln k, env_ok n ρ -> Forall (frame_ok n) k ->
  res_wf (enter_fornum_f c x cur lim st b ρ ln k).
Proof.
  intros. unfold enter_fornum_f, cell_alloc. wbrk; try wfin.
  apply wf_gos_grow; auto; cbn [ncell].
  - lia.
  - eapply clos_ok_grow; [exact (proj1 B) | cbn; lia | reflexivity].
  - simpl. split; [|constructor]. constructor; [simpl; lia|]. eapply cells_ok_mono; [|exact H]. lia.
  - apply Forall_cons; [simpl; eapply cells_ok_mono; [|exact H]; lia|]. eapply stack_ok_mono; [|exact H0]. lia.
Qed.
Lemma fornum_init_wf : forall x b ρ ln vals k, env_ok n ρ -> Forall (frame_ok n) k ->
  res_wf (fornum_init c x b ρ ln vals k).
Proof.
  intros. unfold fornum_init. wbrk; try wfin; try (apply enter_fornum_i_wf; auto); try (apply enter_fornum_f_wf; auto).
Qed.
End WithCfg.

Section WithCfg2.
Variable c : cfg.
Hypothesis B : base_ok c.
Notation n := (ncell (sto c)).

Lemma build_targets_ok : forall ts vals ρ, env_ok n ρ -> Forall (target_ok n) (fst (build_targets ts vals ρ)).
Proof.
  induction ts as [|t ts IH]; intros vals ρ H; simpl; auto.
  destruct t.
  - specialize (IH vals ρ H). destruct (build_targets ts vals ρ) as [tg rest]. simpl in *.
    constructor; auto. destruct (lookup (vars ρ) x) eqn:E; simpl; auto.
    clear -H E. unfold env_ok, cells_ok in H. induction (vars ρ) as [|[y cl] r IHr]; simpl in E; [discriminate|].
    inversion H; subst. destruct (str_eqb y x); [inversion E; subst; auto | auto].
  - destruct vals as [|t0 [|kk vr]]; simpl; auto.
    specialize (IH vr ρ H). destruct (build_targets ts vr ρ) as [tg rest]. simpl in *. constructor; simpl; auto.
Qed.

Lemma finish_list_wf : forall vals ρ lk k, env_ok n ρ -> listk_ok n lk -> Forall (frame_ok n) k ->
  res_wf (finish_list c vals ρ lk k).
Proof.
  intros vals ρ lk k He Hl Hk. unfold finish_list, tab_alloc. destruct lk.
  - wbrk; wfin.
  - wfin.
  - destruct (bind_names_ok (map fst xs) vals (vars ρ) (sto c) He) as (A & L & C).
    destruct (bind_names (map fst xs) vals (vars ρ) (sto c)) as [[ρv s] l0]. cbn [fst snd] in A, L, C.
    assert (Hc : clos_ok s) by (eapply clos_ok_grow; [exact (proj1 B) | exact L | exact C]).
    simpl in Hl.
    wbrk; try wfin;
    (apply wf_gos_grow; auto;
     [ simpl; try split; auto; try (eapply labels_ok_mono; eauto); try constructor
     | repeat (apply Forall_cons; [simpl; try split; try (eapply cells_ok_mono; eauto); try (eapply labels_ok_mono; eauto); auto|]);
       eapply stack_ok_mono; eauto ]).
  - pose proof (build_targets_ok ts vals ρ He) as T. destruct (build_targets ts vals ρ) as [tgs rhs]. simpl in T. wfin.
  - wbrk; wfin.
  - apply fornum_init_wf; auto.
  - wbrk; wfin.
Qed.

Lemma start_list_wf : forall acc es ρ lk k, env_ok n ρ -> listk_ok n lk -> Forall (frame_ok n) k ->
  res_wf (start_list c acc es ρ lk k).
Proof. intros. unfold start_list. destruct es; [apply finish_list_wf; auto|]. wfin. Qed.

Lemma resume_co_wf : forall id args k, Forall (frame_ok n) k -> res_wf (resume_co c id args k).
Proof.
  intros. unfold resume_co, co_get, co_put.
  destruct (PositiveMap.find id (cos (cot c))) as [[f|kc ln| |]|] eqn:E; try wfin.
  - apply wf_goc; auto; [simpl; auto | stk | apply cot_ok_put; [exact (proj2 B) | exact I]].
  - apply wf_goc; auto; [simpl; auto | | apply cot_ok_put; [exact (proj2 B) | exact I]].
    apply Forall_app. split; [exact (proj2 B id kc ln E)|]. stk.
Qed.
End WithCfg2.

Section WithCfg3.
Variable c : cfg.
Hypothesis B : base_ok c.
Notation n := (ncell (sto c)).

Ltac wfin2 :=
  first [ wfin
        | (apply wf_goc; [assumption | simpl; auto | stk | first [apply cot_ok_put; [exact (proj2 B) | simpl; auto] | exact (proj2 B)]])
        | (apply resume_co_wf; [assumption | stk])
        | (unfold res_wf, wf; cbn; destruct B; repeat split; auto) ].

Lemma call_builtin_wf : forall b args lua k, Forall (frame_ok n) k -> res_wf (call_builtin c b args lua k).
Proof.
  intros b args lua k Hk. unfold call_builtin, tab_alloc, put_map, rawset, tab_put, co_put.
  destruct b;
  try (destruct (split_co k) as [[[[kc id] saved] rest]|] eqn:S;
       [ destruct (split_co_ok (frame_ok n) k kc id saved rest Hk S) as [H1 H2];
         apply wf_goc; auto; [simpl; auto | apply cot_ok_put; [exact (proj2 B) | exact H1]]
       | wfin ]; fail);
  try (match goal with |- context [has_scope] => idtac end;
       destruct args as [|a0 args0]; [wfin2|];
       destruct a0; try wfin2;
       unfold co_get;
       destruct (PositiveMap.find id (cos (cot c))) as [[f0|kc ln0| |]|] eqn:E; try wfin2;
       destruct (has_scope kc); [|wfin2];
       apply wf_goc; auto;
       [ simpl; auto
       | apply Forall_app; split; [exact (proj2 B id kc ln0 E) | stk]
       | apply cot_ok_put; [exact (proj2 B) | exact I] ]; fail);
  wbrk; wfin2.
Qed.
End WithCfg3.

Section WithCfg4.
Variable c : cfg.
Hypothesis B : base_ok c.
Notation n := (ncell (sto c)).

Lemma step_call_wf : forall f args lua k, Forall (frame_ok n) k -> res_wf (step_call c f args lua k).
Proof.
  intros f args lua k Hk. unfold step_call. destruct f; try (wbrk; wfin; fail).
  - destruct (PositiveMap.find id (clos (sto c))) as [cl|] eqn:E; [|wfin].
    pose proof (proj1 B id cl E) as Hcl.
    destruct (bind_names_ok (c_params cl) args (c_env cl) (sto c) Hcl) as (A & L & C).
    destruct (bind_names (c_params cl) args (c_env cl) (sto c)) as [[ρv s] extra]. cbn [fst snd] in A, L, C.
    apply wf_gos_grow; auto.
    + eapply clos_ok_grow; [exact (proj1 B) | exact L | exact C].
    + simpl. split; [exact A | constructor].
    + apply Forall_cons; [exact I|]. eapply stack_ok_mono; eauto.
  - apply call_builtin_wf; auto.
Qed.

Lemma step_stat_wf : forall ln s ρ k, env_ok n ρ -> Forall (frame_ok n) k -> res_wf (step_stat c ln s ρ k).
Proof.
  intros ln s ρ k He Hk. unfold step_stat.
  destruct s; try (apply start_list_wf; simpl; auto; fail); try (wbrk; wfin; fail).
Qed.

Lemma step_exp_wf : forall e ρ k, env_ok n ρ -> Forall (frame_ok n) k -> res_wf (step_exp c e ρ k).
Proof.
  intros e ρ k He Hk. unfold step_exp, clo_alloc.
  destruct e; try (apply start_list_wf; simpl; auto; fail); try (wbrk; wfin; fail).
  (* EFun: a new closure capturing the environment *)
  apply wf_gos_grow; auto; cbn [ncell].
  - lia.
  - unfold clos_ok. cbn [clos ncell]. intros id cl F. rewrite PositiveMapAdditionalFacts.gsspec in F.
    destruct (PositiveMap.E.eq_dec id (nclo (sto c))).
    + inversion F; subst. exact He.
    + exact (proj1 B id cl F).
  - simpl; auto.
Qed.
End WithCfg4.

Ltac wfin2 :=
  first [ wfin
        | (apply wf_goc; [assumption | okt | stk | first [apply cot_ok_put; [match goal with B : base_ok _ |- _ => exact (proj2 B) end | simpl; auto] | match goal with B : base_ok _ |- _ => exact (proj2 B) end]])
        | (apply resume_co_wf; [assumption | stk])
        | (unfold res_wf, wf; cbn; match goal with B : base_ok _ |- _ => destruct B end; repeat split; auto) ].

Section WithCfg5.
Variable c : cfg.
Hypothesis B : base_ok c.
Notation n := (ncell (sto c)).

Lemma base_ok_line : forall ln, base_ok (mkCfg (ctl c) (stk c) (sto c) (trace c) ln (cot c)).
Proof. intros. exact B. Qed.

Lemma step_block_wf : forall ss ρ seen k, env_ok n ρ -> labels_ok n seen -> Forall (frame_ok n) k ->
  res_wf (step_block c ss ρ seen k).
Proof.
  intros ss ρ seen k He Hs Hk. unfold step_block, cell_alloc, clo_alloc.
  destruct ss as [|[ln s] rest]; [wfin|].
  destruct s; try (wfin; fail).
  - (* local *)
    pose proof (start_list_wf (mkCfg (ctl c) (stk c) (sto c) (trace c) ln (cot c)) (base_ok_line ln) [] es ρ (LLocal xs rest seen) k) as P.
    cbn [sto ncell] in P. apply P; simpl; auto.
  - (* label *)
    apply wf_go; [assumption | | assumption].
    simpl. split; [assumption|]. unfold labels_ok. apply Forall_cons; [simpl; assumption | exact Hs].
  - (* local function *)
    destruct fn; try wfin.
    apply wf_gos_grow; auto; cbn [ncell cell_set].
    + lia.
    + unfold clos_ok. cbn [clos ncell cell_set]. intros id cl F. rewrite PositiveMapAdditionalFacts.gsspec in F.
      match type of F with context [PositiveMap.E.eq_dec ?a ?b] => destruct (PositiveMap.E.eq_dec a b) end.
      * inversion F; subst. cbn [c_env]. constructor; [simpl; lia|]. eapply cells_ok_mono; [|exact He]. lia.
      * eapply cells_ok_mono; [|exact (proj1 B id cl F)]. lia.
    + simpl. split.
      * constructor; [simpl; lia|]. eapply cells_ok_mono; [|exact He]. lia.
      * eapply labels_ok_mono; [|exact Hs]. lia.
    + eapply stack_ok_mono; [|exact Hk]. lia.
Qed.

Lemma step_ret_wf : forall vs fr k, frame_ok n fr -> Forall (frame_ok n) k -> res_wf (step_ret c vs fr k).
Proof.
  intros vs fr k Hf Hk. unfold step_ret, co_put.
  destruct fr; simpl in Hf; try (wbrk; wfin2; fail).
  - (* KForInC *)
    destruct (first vs); try wfin;
    (destruct (bind_names_ok xs vs (vars ρ) (sto c) Hf) as (A & L & C);
     destruct (bind_names xs vs (vars ρ) (sto c)) as [[ρv s'] l0]; cbn [fst snd] in A, L, C;
     apply wf_gos_grow; auto;
     [ eapply clos_ok_grow; [exact (proj1 B) | exact L | exact C]
     | simpl; split; [exact A | constructor]
     | apply Forall_cons; [simpl; eapply cells_ok_mono; eauto | eapply stack_ok_mono; eauto] ]).
  - (* KList *)
    destruct Hf as [He Hl]. destruct rest; [apply finish_list_wf; auto | wfin].
  - (* KMethF *) apply start_list_wf; simpl; auto.
Qed.

Lemma step_done_wf : forall fr k, frame_ok n fr -> Forall (frame_ok n) k -> res_wf (step_done c fr k).
Proof.
  intros fr k Hf Hk. unfold step_done. destruct fr; simpl in Hf; try (wfin; fail).
  - apply close_scope_wf; auto.
  - apply enter_fornum_i_wf; auto.
  - apply enter_fornum_f_wf; auto.
Qed.

Lemma find_seen_ok : forall l seen b ρl seen', labels_ok n seen -> find_seen l seen = Some (b, ρl, seen') ->
  env_ok n ρl /\ labels_ok n seen'.
Proof.
  induction seen as [|[l' [b0 ρ0]] r IH]; simpl; intros b ρl seen' H E; [discriminate|].
  inversion H; subst. destruct (str_eqb l' l).
  - inversion E; subst. split; auto.
  - eapply IH; eauto.
Qed.

Lemma step_out_wf : forall o fr k, frame_ok n fr -> Forall (frame_ok n) k -> res_wf (step_out c o fr k).
Proof.
  intros o fr k Hf Hk. unfold step_out, co_put.
  destruct fr; try (apply close_scope_wf; auto; fail); simpl in Hf;
  destruct o; try (wbrk; wfin2; fail).
  (* goto at a block frame *)
  destruct Hf as [He Hs].
  destruct (find_seen l seen) as [[[b ρl] seen']|] eqn:E.
  - destruct (find_seen_ok l seen b ρl seen' Hs E) as [H1 H2].
    apply wf_go; [assumption | | assumption].
    simpl. split; [assumption|]. destruct seen'; simpl; [constructor|]. inversion H2; auto.
  - wbrk; wfin.
Qed.
End WithCfg5.

Theorem step_wf : forall c, wf c -> res_wf (step c).
Proof.
  intros c [Hc [Hk [Hcl Hco]]].
  assert (B : base_ok c) by (split; assumption).
  unfold step. destruct (ctl c) eqn:E; simpl in Hc.
  - apply step_exp_wf; auto.
  - destruct Hc. apply step_block_wf; auto.
  - apply step_stat_wf; auto.
  - destruct (stk c) as [|fr k]; [exact I|]. inversion Hk; subst. apply step_ret_wf; auto.
  - destruct (stk c) as [|fr k]; [exact I|]. inversion Hk; subst. apply step_done_wf; auto.
  - destruct (stk c) as [|fr k]; [destruct o; exact I|]. inversion Hk; subst. apply step_out_wf; auto.
  - destruct (find_handler (stk c)); wfin.
  - apply step_call_wf; auto.
  - apply step_index_wf; auto.
  - apply step_setindex_wf; auto.
  - apply step_binop_wf; auto.
  - apply step_unop_wf; auto.
  - destruct ts as [|t r]; [wfin|]. inversion Hc; subst. destruct t; wfin.
Qed.

(* wf_cfg preservation, for runs of any length *)
Theorem steps_wf : forall m c c', wf c -> steps m c = inl c' -> wf c'.
Proof.
  induction m; intros c c' H E; simpl in E.
  - inversion E; subst; auto.
  - pose proof (step_wf c H) as S. destruct (step c) as [c1|f]; [|discriminate]. eapply IHm; eauto.
Qed.

Theorem init_wf : forall body args, wf (init_cfg body args).
Proof.
  intros. unfold wf, init_cfg. cbn [ctl stk sto cot ncell init_store].
  split; [|split; [|split]].
  - simpl. split; constructor.
  - constructor; [exact I | constructor].
  - unfold clos_ok, init_store. cbn [clos]. intros id cl F. rewrite PositiveMap.gempty in F. discriminate.
  - unfold cot_ok, init_cot. cbn [cos]. intros id k ln F. rewrite PositiveMapAdditionalFacts.gsspec in F.
    destruct (PositiveMap.E.eq_dec id main_co); [discriminate|]. rewrite PositiveMap.gempty in F. discriminate.
Qed.

(* every configuration reachable from the start of any program is well formed *)
Corollary reachable_wf : forall body args m c, steps m (init_cfg body args) = inl c -> wf c.
Proof. intros. eapply steps_wf; [apply init_wf | exact H]. Qed.
