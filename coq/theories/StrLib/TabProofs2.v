(* StrLib/TabProofs2.v — unpack, pack, concat versus the manual. *)
From Coq Require Import ZArith List Bool Lia.
From GV Require Import StrLib.Str StrLib.StrSpec StrLib.StrProofs StrLib.Tab StrLib.TabSpec StrLib.TabProofs.
Import ListNotations.
Open Scope Z_scope.

Lemma run_pbind {A B} (p : prog A) (f : A -> prog B) : forall st,
  run (pbind p f) st =
  match run p st with
  | (ORet a, st') => run (f a) st'
  | (OFail e, st') => (OFail e, st')
  | (OOutOfFuel, st') => (OOutOfFuel, st')
  end.
Proof.
  induction p; intros st; cbn [pbind run]; auto.
Qed.

(* ------------------------------------------------------------------ unpack *)
Lemma unpack_loop_run n : forall i st,
  i64 i -> i + Z.of_nat n - 1 <= 2^63 - 1 ->
  run (unpack_loop n i) st = (ORet (map (m1 st) (zseq i n)), st).
Proof.
  induction n; intros i st Hi Hn; [reflexivity|].
  cbn [unpack_loop run tget zseq map]. rewrite run_pbind.
  destruct n.
  - reflexivity.
  - rewrite (wrap_i64 (i + 1)) by (unfold i64 in *; lia).
    rewrite IHn by (unfold i64 in *; lia). reflexivity.
Qed.

(* table.unpack: the elements list[i..j] (defaults 1, #list) for all int64
   i, j and any reported length; the only other outcome is the
   implementation's limit on the number of results, raised exactly when
   j - i >= 256 (nothing read, nothing changed). *)
Lemma unpack_body i0 j0 st : i64 i0 -> i64 j0 ->
  run (if (i0 <=? j0) && (maxUnpackSize <=? (j0 - i0) mod 2^64)
       then Fail TETooMany else unpack_loop (Z.to_nat (j0 - i0 + 1)) i0) st
  = if 256 <=? j0 - i0 then (OFail TETooMany, st) else (ORet (unpack_spec (m1 st) i0 j0), st).
Proof.
  unfold i64, maxUnpackSize. intros Hi0 Hj0.
  destruct (i0 <=? j0) eqn:A; [apply Z.leb_le in A|apply Z.leb_gt in A]; cbn [andb].
  - rewrite Z.mod_small by lia.
    destruct (256 <=? j0 - i0) eqn:B; [reflexivity|].
    apply Z.leb_gt in B. rewrite unpack_loop_run by (unfold i64; lia). reflexivity.
  - replace (256 <=? j0 - i0) with false by (symmetry; apply Z.leb_gt; lia).
    rewrite unpack_loop_run by (unfold i64; lia). reflexivity.
Qed.

Theorem unpack_correct i j st :
  oin64 i -> oin64 j -> in64 (len1 st) ->
  let i0 := match i with Some i => i | None => 1 end in
  let j0 := match j with Some j => j | None => len1 st end in
  if 256 <=? j0 - i0
  then run (unpack_im i j) st = (OFail TETooMany, st)
  else run (unpack_im i j) st = (ORet (unpack_spec (m1 st) i0 j0), st).
Proof.
  intros Hi Hj HL i0 j0.
  assert (Hi0 : i64 i0) by (subst i0; destruct i; [exact Hi|unfold i64; lia]).
  assert (Hj0 : i64 j0) by (subst j0; destruct j; [exact Hj|exact HL]).
  assert (E : run (unpack_im i j) st = run (if (i0 <=? j0) && (maxUnpackSize <=? (j0 - i0) mod 2^64)
       then Fail TETooMany else unpack_loop (Z.to_nat (j0 - i0 + 1)) i0) st).
  { unfold unpack_im. fold i0. subst j0. destruct j; reflexivity. }
  rewrite E, unpack_body by assumption.
  destruct (256 <=? j0 - i0); reflexivity.
Qed.

(* -------------------------------------------------------------------- pack *)
Lemma pack_loop_run vs : forall i st,
  exists st', run (pack_loop vs i) st = (ORet (i - 1 + Z.of_nat (length vs)), st') /\ keeps2 st st' /\
    forall k, m1 st' k = if (i <=? k) && (k <? i + Z.of_nat (length vs))
                         then nth (Z.to_nat (k - i)) vs VNil else m1 st k.
Proof.
  induction vs as [|v r IH]; intros i st.
  - exists st. cbn [pack_loop run length]. split; [f_equal; f_equal; lia|].
    split; [apply keeps2_refl|]. intros k. zcase.
  - cbn [pack_loop run].
    destruct (IH (i + 1) (tset st T1 i v)) as (st' & R & K & M).
    exists st'. split; [rewrite R; f_equal; f_equal; cbn [length]; lia|].
    split; [eapply keeps2_set1; exact K|].
    intros k. rewrite M. cbn [tset m1 length]. unfold upd.
    destruct ((i + 1 <=? k) && (k <? i + 1 + Z.of_nat (length r))) eqn:A.
    + zb. replace ((i <=? k) && (k <? i + Z.of_nat (S (length r)))) with true
        by (symmetry; apply andb_true_iff; split; [apply Z.leb_le|apply Z.ltb_lt]; lia).
      replace (Z.to_nat (k - i)) with (S (Z.to_nat (k - (i + 1)))) by lia. reflexivity.
    + destruct (k =? i) eqn:B.
      * apply Z.eqb_eq in B. subst k.
        replace ((i <=? i) && (i <? i + Z.of_nat (S (length r)))) with true
          by (symmetry; apply andb_true_iff; split; [apply Z.leb_le|apply Z.ltb_lt]; lia).
        replace (Z.to_nat (i - i)) with O by lia. reflexivity.
      * apply Z.eqb_neq in B.
        replace ((i <=? k) && (k <? i + Z.of_nat (S (length r)))) with false; [reflexivity|].
        symmetry. apply andb_false_iff. apply andb_false_iff in A.
        destruct A as [A|A]; zb; [left; apply Z.leb_gt; lia|right; apply Z.ltb_ge; lia].
Qed.

(* table.pack on the fresh table: keys 1..n hold the arguments, n is their number *)
Theorem pack_correct vs st :
  (forall k, m1 st k = VNil) ->
  exists st', run (pack_im vs) st = (ORet (snd (pack_spec vs)), st') /\
              forall k, m1 st' k = fst (pack_spec vs) k.
Proof.
  intros Hfresh. unfold pack_im, pack_spec. cbn [fst snd].
  destruct (pack_loop_run vs 1 st) as (st' & R & _ & M).
  exists st'. split; [rewrite R; f_equal; f_equal; lia|].
  intros k. rewrite M, Hfresh.
  destruct (k <? 1) eqn:A; [apply Z.ltb_lt in A|apply Z.ltb_ge in A].
  - replace (1 <=? k) with false by (symmetry; apply Z.leb_gt; lia). reflexivity.
  - replace (1 <=? k) with true by (symmetry; apply Z.leb_le; lia). cbn [andb].
    destruct (k <? 1 + Z.of_nat (length vs)) eqn:B; [reflexivity|].
    apply Z.ltb_ge in B. symmetry. apply nth_overflow. lia.
Qed.

(* ------------------------------------------------------------------ concat *)
(* what the loop appends: sep ++ item for every further item *)
Fixpoint tail_join (sep : bytes) (l : list bytes) : bytes :=
  match l with [] => [] | x :: r => sep ++ x ++ tail_join sep r end.

Lemma join_cons sep x r : join sep (x :: r) = x ++ tail_join sep r.
Proof.
  revert x. induction r as [|y r IH]; intros x; [cbn [join tail_join]; now rewrite app_nil_r|].
  change (join sep (x :: y :: r)) with (x ++ sep ++ join sep (y :: r)).
  rewrite IH. reflexivity.
Qed.

Lemma zrange_cons a b : a <= b -> zrange a b = a :: zrange (a + 1) b.
Proof.
  intros H. unfold zrange. replace (Z.to_nat (b - a + 1)) with (S (Z.to_nat (b - (a + 1) + 1))) by lia.
  reflexivity.
Qed.

Lemma concat_loop_run sep fuel : forall i j acc st,
  i64 i -> i64 j -> i <= j -> (Z.to_nat (j - i) < fuel)%nat ->
  run (concat_loop fuel i j sep acc) st =
  match first_invalid (map (m1 st) (zrange (i + 1) j)) (i + 1) with
  | Some k => (OFail (TEInvalid k), st)
  | None => (ORet (acc ++ tail_join sep (strs (map (m1 st) (zrange (i + 1) j)))), st)
  end.
Proof.
  induction fuel; intros i j acc st Hi Hj Hij Hf; [lia|].
  cbn [concat_loop]. unfold maxint.
  destruct (i =? 2^63 - 1) eqn:A.
  { apply Z.eqb_eq in A. rewrite zrange_empty by (unfold i64 in *; lia). cbn. now rewrite app_nil_r. }
  apply Z.eqb_neq in A. rewrite (wrap_i64 (i + 1)) by (unfold i64 in *; lia).
  rewrite Z.gtb_ltb. destruct (j <? i + 1) eqn:B.
  { apply Z.ltb_lt in B. rewrite zrange_empty by lia. cbn. now rewrite app_nil_r. }
  apply Z.ltb_ge in B. rewrite (zrange_cons (i + 1) j) by lia.
  cbn [run tget map first_invalid strs].
  destruct (tostr (m1 st (i + 1))) as [s|] eqn:T; [|reflexivity].
  rewrite IHfuel by (unfold i64 in *; lia).
  destruct (first_invalid _ _); [reflexivity|].
  cbn [tail_join]. rewrite <- !app_assoc. reflexivity.
Qed.

(* table.concat for all int64 i, j (defaults 1, #list), any separator: the
   manual's string, or the "invalid value" error at the first element that
   is not a string or number; given enough fuel the model never runs out *)
Theorem concat_correct fuel sep i j st :
  oin64 i -> oin64 j -> in64 (len1 st) ->
  let i0 := match i with Some i => i | None => 1 end in
  let j0 := match j with Some j => j | None => len1 st end in
  let sep0 := match sep with Some s => s | None => [] end in
  (Z.to_nat (j0 - i0) < fuel)%nat ->
  run (concat_im fuel sep i j) st =
  match concat_spec (m1 st) sep0 i0 j0 with
  | inl b => (ORet b, st)
  | inr k => (OFail (TEInvalid k), st)
  end.
Proof.
  intros Hi Hj HL i0 j0 sep0 Hf. unfold concat_im, concat_spec. cbn [run tlen].
  fold i0 j0 sep0.
  assert (Hi0 : i64 i0) by (subst i0; destruct i; [exact Hi|unfold i64; lia]).
  assert (Hj0 : i64 j0) by (subst j0; destruct j; [exact Hj|exact HL]).
  rewrite Z.gtb_ltb. destruct (j0 <? i0) eqn:A.
  { apply Z.ltb_lt in A. rewrite zrange_empty by lia. reflexivity. }
  apply Z.ltb_ge in A. rewrite (zrange_cons i0 j0) by lia.
  cbn [run tget map first_invalid strs].
  destruct (tostr (m1 st i0)) as [s|] eqn:T; [|reflexivity].
  rewrite concat_loop_run by (assumption || lia).
  destruct (first_invalid _ _); [reflexivity|].
  rewrite join_cons. reflexivity.
Qed.
