(* StrLib/SortOrder.v — table.sort orders the elements when the comparison is
   consistent, PROVIDED Go's sort.Sort is a correct comparison sort.

   [run_list] is the abstract run of a strategy on a list (Less reads two
   positions, Swap exchanges two positions).  [sort_refines_list] (no
   hypothesis on the procedure beyond in-range indices): what sortf does on
   the table through Index/SetIndex is exactly the abstract run on the list
   t[1..n].  [sort_sorted_if_consistent]: if the procedure sorts every list
   of length n for every consistent comparison (Section hypothesis
   [algo_sorts]; Go's pdqsort is not verified here), the table ends up sorted.
   SortExample.v shows the hypothesis is satisfiable (bubble sort, n = 2, 3). *)
From Coq Require Import ZArith List Bool Lia Permutation.
From GV Require Import StrLib.Str StrLib.StrSpec StrLib.Tab StrLib.Sort.
Import ListNotations.
Open Scope Z_scope.

Fixpoint lupd (l : list value) (i : nat) (v : value) : list value :=
  match l, i with
  | [], _ => []
  | _ :: t, O => v :: t
  | x :: t, S k => x :: lupd t k v
  end.
Definition lswap (l : list value) (i j : nat) : list value :=
  lupd (lupd l i (nth j l VNil)) j (nth i l VNil).

Fixpoint run_list (s : strat) (lt : value -> value -> bool) (l : list value) : list value :=
  match s with
  | SDone => l
  | SLess i j k => run_list (k (lt (nth i l VNil) (nth j l VNil))) lt l
  | SSwap i j k => run_list k lt (lswap l i j)
  end.

(* Lua's postcondition of sort: "not comp(list[j], list[i]) for i < j" *)
Definition sorted (lt : value -> value -> bool) (l : list value) : Prop :=
  forall i j, (i < j < length l)%nat -> lt (nth j l VNil) (nth i l VNil) = false.

(* a consistent comparison: a strict weak order *)
Definition consistent (lt : value -> value -> bool) : Prop :=
  (forall x, lt x x = false) /\
  (forall x y z, lt x y = true -> lt y z = true -> lt x z = true) /\
  (forall x y z, lt x y = false -> lt y z = false -> lt x z = false).

Lemma nth_map_zseq (m : tmap) n : forall a i, (i < n)%nat ->
  nth i (map m (zseq a n)) VNil = m (a + Z.of_nat i).
Proof.
  induction n; intros a i Hi; [lia|].
  destruct i; cbn [zseq map nth]; [f_equal; lia|].
  rewrite IHn by lia. f_equal. lia.
Qed.

Lemma map_upd_outside (m : tmap) k v n : forall a, (k < a \/ a + Z.of_nat n <= k) ->
  map (upd m k v) (zseq a n) = map m (zseq a n).
Proof.
  intros a H. apply map_ext_in. intros x Hx. apply in_zseq in Hx. unfold upd.
  destruct (x =? k) eqn:E; [apply Z.eqb_eq in E; lia|reflexivity].
Qed.

Lemma map_upd_zseq (m : tmap) v n : forall a i, (i < n)%nat ->
  map (upd m (a + Z.of_nat i) v) (zseq a n) = lupd (map m (zseq a n)) i v.
Proof.
  induction n; intros a i Hi; [lia|].
  destruct i; cbn [zseq map lupd].
  - replace (a + Z.of_nat 0) with a by lia. unfold upd at 1. rewrite Z.eqb_refl. f_equal.
    apply map_upd_outside. lia.
  - unfold upd at 1. replace (a =? a + Z.of_nat (S i)) with false by (symmetry; apply Z.eqb_neq; lia).
    f_equal. replace (a + Z.of_nat (S i)) with (a + 1 + Z.of_nat i) by lia. apply IHn. lia.
Qed.

Lemma elems_swap m n i j : (i < n)%nat -> (j < n)%nat ->
  elems (swapm m (key i) (key j)) n = lswap (elems m n) i j.
Proof.
  intros Hi Hj. unfold elems, swapm, lswap, key.
  rewrite (Z.add_comm (Z.of_nat j) 1), (Z.add_comm (Z.of_nat i) 1).
  rewrite (map_upd_zseq _ _ n 1 j Hj), (map_upd_zseq _ _ n 1 i Hi).
  rewrite !nth_map_zseq by assumption. reflexivity.
Qed.

(* sortf on the table = the abstract run on the list t[1..n] *)
Theorem sort_refines_list n lt s : forall c m,
  in_range n s ->
  elems (fst (run_sort s (fun _ x y => Some (lt x y)) c m)) n = run_list s lt (elems m n).
Proof.
  induction s as [|i j k IH|i j k IH]; intros c m Hr; cbn [run_sort run_list].
  - reflexivity.
  - destruct Hr as (Hi & Hj & Hk).
    unfold elems at 2 3. rewrite !nth_map_zseq by assumption.
    unfold key. rewrite (Z.add_comm (Z.of_nat i) 1), (Z.add_comm (Z.of_nat j) 1).
    apply IH. apply Hk.
  - destruct Hr as (Hi & Hj & Hk).
    rewrite IH by exact Hk. rewrite elems_swap by assumption. reflexivity.
Qed.

Section GoSortCorrect.
  Variable algo : nat -> strat.
  Variable n : nat.
  Hypothesis algo_in_range : in_range n (algo n).
  (* sort.Sort is a correct comparison sort on inputs of this length *)
  Hypothesis algo_sorts : forall lt l, length l = n -> consistent lt -> sorted lt (run_list (algo n) lt l).

  Theorem sort_sorted_if_consistent lt m :
    consistent lt ->
    sorted lt (elems (fst (sort_im algo n (fun _ x y => Some (lt x y)) m)) n).
  Proof.
    intros Hc. unfold sort_im. rewrite sort_refines_list by apply algo_in_range.
    apply algo_sorts; [|exact Hc].
    unfold elems. rewrite map_length. clear. generalize 1. induction n; intros; cbn; auto.
  Qed.
End GoSortCorrect.
