(* StrLib/TabSpec.v — specification model (S): the Lua 5.4 manual's
   definitions (§6.6) of the table functions as operations on a table seen as
   a total map Z -> value (absent = nil) with length L = #list, over unbounded
   integers.  Executable (used by the oracle on association lists). *)
From Coq Require Import ZArith List Bool.
From GV Require Import StrLib.Str StrLib.StrSpec StrLib.Tab.
Import ListNotations.
Open Scope Z_scope.

(* table.insert (list, [pos,] value): "Inserts element value at position pos
   in list, shifting up the elements list[pos], list[pos+1], ···, list[#list].
   The default value for pos is #list+1".  pos must be in [1, #list+1].
   The call must fail when #list+1 is not representable (#list = maxinteger). *)
Definition insert_pos_ok (L pos : Z) : bool := (1 <=? pos) && (pos <=? L + 1) && (L + 1 <=? maxint).
Definition insert_spec (m : tmap) (L pos : Z) (v : value) : tmap :=
  fun k => if k <? pos then m k
           else if k =? pos then v
           else if k <=? L + 1 then m (k - 1)
           else m k.

(* table.remove (list [, pos]): "Removes from list the element at position
   pos, returning the value of the removed element.  When pos is an integer
   between 1 and #list, it shifts down the elements list[pos+1], ···,
   list[#list] and erases element list[#list]; the index pos can also be 0
   when #list is 0, or #list + 1" (then only list[pos] is erased).
   Default pos = #list. *)
Definition remove_pos_ok (L pos : Z) : bool :=
  ((1 <=? pos) && (pos <=? L + 1)) || ((L =? 0) && (pos =? 0)) || (pos =? L).
Definition remove_spec (m : tmap) (L pos : Z) : tmap :=
  if (1 <=? pos) && (pos <=? L) then
    fun k => if k <? pos then m k
             else if k <? L then m (k + 1)
             else if k =? L then VNil
             else m k
  else upd m pos VNil.

(* table.move (a1, f, e, t [,a2]): "equivalent to the following multiple
   assignment: a2[t],··· = a1[f],···,a1[e]" — all reads precede all writes.
   The call must fail when the number of elements or the last destination
   index is not representable. *)
Definition move_ok (f e t : Z) : bool :=
  (f >? e) || ((e - f + 1 <=? maxint) && (t + (e - f) <=? maxint)).
Definition move_spec (src dst : tmap) (f e t : Z) : tmap :=
  fun k => if (f <=? e) && (t <=? k) && (k <=? t + (e - f)) then src (k - t + f) else dst k.

(* table.unpack (list [, i [, j]]): "return list[i], list[i+1], ···, list[j]";
   defaults i = 1, j = #list *)
Definition unpack_spec (m : tmap) (i j : Z) : list value := map m (zrange i j).

(* table.concat (list [, sep [, i [, j]]]): "Given a list where all elements
   are strings or numbers, returns the string list[i]..sep..list[i+1] ···
   sep..list[j].  default sep is the empty string, i is 1, j is #list.  If i is
   greater than j, returns the empty string." *)
Fixpoint first_invalid (l : list value) (i : Z) : option Z :=
  match l with
  | [] => None
  | v :: r => match tostr v with None => Some i | Some _ => first_invalid r (i + 1) end
  end.
Fixpoint strs (l : list value) : list bytes :=
  match l with
  | [] => []
  | v :: r => match tostr v with Some s => s :: strs r | None => strs r end
  end.
Fixpoint join (sep : bytes) (l : list bytes) : bytes :=
  match l with
  | [] => []
  | x :: r => match r with [] => x | _ => x ++ sep ++ join sep r end
  end.
(* inl = the string; inr = index of the first element that is not a string or number *)
Definition concat_spec (m : tmap) (sep : bytes) (i j : Z) : bytes + Z :=
  let items := map m (zrange i j) in
  match first_invalid items i with
  | Some k => inr k
  | None => inl (join sep (strs items))
  end.

(* table.pack (···): "a new table with all arguments stored into keys 1, 2,
   etc. and with a field "n" with the total number of arguments" *)
Definition pack_spec (vs : list value) : tmap * Z :=
  (fun k => if k <? 1 then VNil else nth (Z.to_nat (k - 1)) vs VNil, Z.of_nat (length vs)).
