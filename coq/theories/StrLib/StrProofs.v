(* StrLib/StrProofs.v — IM (Str.v) versus S (StrSpec.v): proofs. *)
From Coq Require Import ZArith List Bool Lia.
From GV Require Import StrLib.Str StrLib.StrSpec.
Import ListNotations.
Open Scope Z_scope.

(* A Go string has a length that fits an int and, being allocated memory, is
   smaller than maxint.  This is a representation invariant of the Go type,
   not a bound chosen by us. *)
Definition str_ok (s : bytes) : Prop := len s < maxint.
Definition oin64 (o : option Z) : Prop := match o with Some z => in64 z | None => True end.

Lemma wrap_id z : in64 z -> wrap z = z.
Proof.
  unfold in64, wrap, minint, maxint. intros H.
  rewrite Z.mod_small; lia.
Qed.

Lemma wrap_in64 z : in64 (wrap z).
Proof.
  unfold in64, wrap, minint, maxint.
  pose proof (Z.mod_pos_bound (z + 2^63) (2^64) ltac:(lia)). lia.
Qed.

Lemma len_nonneg s : 0 <= len s.
Proof. unfold len. lia. Qed.

(* ------------------------------------------------------------------ *)
(* lists                                                                *)

Lemma firstn_skipn_seq {A} (d : A) n : forall a (s : list A),
  (a + n <= length s)%nat ->
  firstn n (skipn a s) = map (fun k => nth k s d) (seq a n).
Proof.
  induction n; intros a s H; [reflexivity|].
  assert (Ha : (a < length s)%nat) by lia.
  cbn [seq map].
  rewrite <- (IHn (S a) s) by lia.
  clear IHn H. revert s Ha. induction a; intros s Ha.
  - destruct s; [cbn in Ha; lia|]. reflexivity.
  - destruct s; [cbn in Ha; lia|]. cbn [skipn nth]. apply IHa. cbn in Ha. lia.
Qed.

Lemma chars_seq s n : forall a,
  map (char_at s) (zseq (Z.of_nat a + 1) n) = map (fun k => nth k s 0) (seq a n).
Proof.
  induction n; intros a; [reflexivity|].
  cbn [zseq seq map]. f_equal.
  - unfold char_at. f_equal. lia.
  - replace (Z.of_nat a + 1 + 1) with (Z.of_nat (S a) + 1) by lia. apply IHn.
Qed.

(* Go's s[a:b] is the characters at 1-based positions a+1..b *)
Lemma slice_chars s a b :
  0 <= a -> a <= b -> b <= len s ->
  slice s a b = Ok (map (char_at s) (zrange (a + 1) b)).
Proof.
  intros Ha Hab Hb. unfold slice.
  replace ((0 <=? a) && (a <=? b) && (b <=? len s)) with true
    by (symmetry; rewrite !andb_true_iff, !Z.leb_le; lia).
  f_equal. unfold zrange.
  replace (b - (a + 1) + 1) with (b - a) by lia.
  rewrite (firstn_skipn_seq 0) by (unfold len in Hb; lia).
  replace (a + 1) with (Z.of_nat (Z.to_nat a) + 1) at 1 by lia.
  symmetry. apply chars_seq.
Qed.

Lemma zrange_empty a b : b < a -> zrange a b = [].
Proof. intros H. unfold zrange. replace (Z.to_nat (b - a + 1)) with O by lia. reflexivity. Qed.

(* ------------------------------------------------------------------ *)
(* position normalisation                                               *)

Lemma norm_pos_posrel s p : str_ok s -> in64 p -> norm_pos s p = posrel (len s) p.
Proof.
  unfold str_ok, in64, norm_pos, posrel, minint, maxint. intros Hs Hp.
  pose proof (len_nonneg s).
  destruct (p <? 0) eqn:E; [|reflexivity]. apply Z.ltb_lt in E.
  rewrite (wrap_id (len s + 1)) by (unfold in64, minint, maxint; lia).
  rewrite wrap_id by (unfold in64, minint, maxint; lia). lia.
Qed.

Lemma maxpos_max i j : maxpos i j = Z.max i j.
Proof. unfold maxpos. destruct (i >? j) eqn:E; lia. Qed.
Lemma minpos_min i j : minpos i j = Z.min i j.
Proof. unfold minpos. destruct (i <? j) eqn:E; lia. Qed.

(* ------------------------------------------------------------------ *)
(* string.sub                                                           *)

Theorem sub_correct s i j :
  str_ok s -> in64 i -> oin64 j -> sub_im s i j = Ok (sub_spec s i j).
Proof.
  intros Hs Hi Hj. unfold sub_im, sub_spec.
  rewrite maxpos_max, minpos_min.
  rewrite (norm_pos_posrel s i Hs Hi).
  pose proof (len_nonneg s) as Hl.
  assert (Ej : match j with Some jj => norm_pos s jj | None => len s end
               = posrel (len s) match j with Some j0 => j0 | None => -1 end).
  { destruct j as [jj|]; [apply norm_pos_posrel; assumption|]. unfold posrel. cbn. lia. }
  rewrite Ej. clear Ej.
  set (i' := Z.max 1 (posrel (len s) i)).
  set (j' := Z.min (len s) (posrel (len s) match j with Some j0 => j0 | None => -1 end)).
  assert (1 <= i') by lia. assert (j' <= len s) by lia.
  destruct ((i' <=? len s) && (i' <=? j')) eqn:E.
  - apply andb_true_iff in E. destruct E as [E1 E2]. apply Z.leb_le in E1, E2.
    rewrite wrap_id by (unfold in64, minint, maxint, str_ok, maxint in *; lia).
    rewrite slice_chars by lia. replace (i' - 1 + 1) with i' by lia. reflexivity.
  - rewrite zrange_empty; [reflexivity|].
    apply andb_false_iff in E. destruct E as [E|E]; apply Z.leb_gt in E; lia.
Qed.

Theorem len_correct s : len_im s = Ok (len_spec s).
Proof. reflexivity. Qed.
