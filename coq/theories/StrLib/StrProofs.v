(* StrLib/StrProofs.v — IM (Str.v) versus S (StrSpec.v): proofs. *)
From Coq Require Import ZArith List Bool Lia.
From GV Require Import StrLib.Str StrLib.StrSpec.
Import ListNotations.
Open Scope Z_scope.

(* A Go string has a length that fits an int and, being allocated memory, is
   smaller than maxint.  This is a representation invariant of the Go type,
   not a bound chosen by us. *)
Definition str_ok (s : bytes) : Prop := len s < maxint.
Definition oin64 (o : option Z) : Prop := match o with Some z => in64 z | None => True end.

Lemma wrap_id z : in64 z -> wrap z = z.
Proof.
  unfold in64, wrap, minint, maxint. intros H.
  rewrite Z.mod_small; lia.
Qed.

Lemma wrap_in64 z : in64 (wrap z).
Proof.
  unfold in64, wrap, minint, maxint.
  pose proof (Z.mod_pos_bound (z + 2^63) (2^64) ltac:(lia)). lia.
Qed.

Lemma len_nonneg s : 0 <= len s.
Proof. unfold len. lia. Qed.

(* ------------------------------------------------------------------ *)
(* lists                                                                *)

Lemma firstn_skipn_seq {A} (d : A) n : forall a (s : list A),
  (a + n <= length s)%nat ->
  firstn n (skipn a s) = map (fun k => nth k s d) (seq a n).
Proof.
  induction n; intros a s H; [reflexivity|].
  assert (Ha : (a < length s)%nat) by lia.
  cbn [seq map].
  rewrite <- (IHn (S a) s) by lia.
  clear IHn H. revert s Ha. induction a; intros s Ha.
  - destruct s; [cbn in Ha; lia|]. reflexivity.
  - destruct s; [cbn in Ha; lia|]. cbn [skipn nth]. apply IHa. cbn in Ha. lia.
Qed.

Lemma chars_seq s n : forall a,
  map (char_at s) (zseq (Z.of_nat a + 1) n) = map (fun k => nth k s 0) (seq a n).
Proof.
  induction n; intros a; [reflexivity|].
  cbn [zseq seq map]. f_equal.
  - unfold char_at. f_equal. lia.
  - replace (Z.of_nat a + 1 + 1) with (Z.of_nat (S a) + 1) by lia. apply IHn.
Qed.

(* Go's s[a:b] is the characters at 1-based positions a+1..b *)
Lemma slice_chars s a b :
  0 <= a -> a <= b -> b <= len s ->
  slice s a b = Ok (map (char_at s) (zrange (a + 1) b)).
Proof.
  intros Ha Hab Hb. unfold slice.
  replace ((0 <=? a) && (a <=? b) && (b <=? len s)) with true
    by (symmetry; rewrite !andb_true_iff, !Z.leb_le; lia).
  f_equal. unfold zrange.
  replace (b - (a + 1) + 1) with (b - a) by lia.
  rewrite (firstn_skipn_seq 0) by (unfold len in Hb; lia).
  replace (a + 1) with (Z.of_nat (Z.to_nat a) + 1) at 1 by lia.
  symmetry. apply chars_seq.
Qed.

Lemma zrange_empty a b : b < a -> zrange a b = [].
Proof. intros H. unfold zrange. replace (Z.to_nat (b - a + 1)) with O by lia. reflexivity. Qed.

(* ------------------------------------------------------------------ *)
(* position normalisation                                               *)

Lemma norm_pos_posrel s p : str_ok s -> in64 p -> norm_pos s p = posrel (len s) p.
Proof.
  unfold str_ok, in64, norm_pos, posrel, minint, maxint. intros Hs Hp.
  pose proof (len_nonneg s).
  destruct (p <? 0) eqn:E; [|reflexivity]. apply Z.ltb_lt in E.
  rewrite (wrap_id (len s + 1)) by (unfold in64, minint, maxint; lia).
  rewrite wrap_id by (unfold in64, minint, maxint; lia). lia.
Qed.

Lemma maxpos_max i j : maxpos i j = Z.max i j.
Proof. unfold maxpos. destruct (i >? j) eqn:E; lia. Qed.
Lemma minpos_min i j : minpos i j = Z.min i j.
Proof. unfold minpos. destruct (i <? j) eqn:E; lia. Qed.

(* ------------------------------------------------------------------ *)
(* string.sub                                                           *)

Theorem sub_correct s i j :
  str_ok s -> in64 i -> oin64 j -> sub_im s i j = Ok (sub_spec s i j).
Proof.
  intros Hs Hi Hj. unfold sub_im, sub_spec.
  rewrite maxpos_max, minpos_min.
  rewrite (norm_pos_posrel s i Hs Hi).
  pose proof (len_nonneg s) as Hl.
  assert (Ej : match j with Some jj => norm_pos s jj | None => len s end
               = posrel (len s) match j with Some j0 => j0 | None => -1 end).
  { destruct j as [jj|]; [apply norm_pos_posrel; assumption|]. unfold posrel. cbn. lia. }
  rewrite Ej. clear Ej.
  set (i' := Z.max 1 (posrel (len s) i)).
  set (j' := Z.min (len s) (posrel (len s) match j with Some j0 => j0 | None => -1 end)).
  assert (1 <= i') by lia. assert (j' <= len s) by lia.
  destruct ((i' <=? len s) && (i' <=? j')) eqn:E.
  - apply andb_true_iff in E. destruct E as [E1 E2]. apply Z.leb_le in E1, E2.
    rewrite wrap_id by (unfold in64, minint, maxint, str_ok, maxint in *; lia).
    rewrite slice_chars by lia. replace (i' - 1 + 1) with i' by lia. reflexivity.
  - rewrite zrange_empty; [reflexivity|].
    apply andb_false_iff in E. destruct E as [E|E]; apply Z.leb_gt in E; lia.
Qed.

Theorem len_correct s : len_im s = Ok (len_spec s).
Proof. reflexivity. Qed.

(* ------------------------------------------------------------------ *)
(* string.byte                                                          *)

Lemma index_char s i : 1 <= i -> i <= len s -> len s < maxint ->
  index s (wrap (i - 1)) = Ok (char_at s i).
Proof.
  intros H1 H2 H3. unfold maxint in H3.
  rewrite wrap_id by (unfold in64, minint, maxint; lia).
  unfold index. replace ((0 <=? i - 1) && (i - 1 <? len s)) with true
    by (symmetry; rewrite andb_true_iff, Z.leb_le, Z.ltb_lt; lia).
  reflexivity.
Qed.

Lemma byte_loop_chars s n : forall i,
  str_ok s -> 1 <= i -> i + Z.of_nat n - 1 <= len s ->
  byte_loop n s i = Ok (map (char_at s) (zseq i n)).
Proof.
  induction n; intros i Hs H1 H2; [reflexivity|].
  cbn [byte_loop zseq map]. pose proof Hs as Hs'. unfold str_ok in Hs'.
  assert (Hn : Z.of_nat (S n) = Z.of_nat n + 1) by lia.
  rewrite index_char; [|lia|lia|exact Hs]. cbn [bind].
  assert (Hw : wrap (i + 1) = i + 1).
  { apply wrap_id. unfold in64, minint, maxint, str_ok, maxint in *. lia. }
  rewrite Hw, IHn by (assumption || lia). reflexivity.
Qed.

Theorem byte_correct s i j :
  str_ok s -> oin64 i -> oin64 j -> byte_im s i j = Ok (byte_spec s i j).
Proof.
  intros Hs Hi Hj. unfold byte_im, byte_spec, sub_spec.
  rewrite maxpos_max, minpos_min.
  pose proof (len_nonneg s) as Hl.
  set (i0 := match i with Some i1 => i1 | None => 1 end).
  assert (Ei : match i with Some ii => norm_pos s ii | None => 1 end = posrel (len s) i0).
  { subst i0. destruct i as [ii|]; [apply norm_pos_posrel; assumption|reflexivity]. }
  rewrite Ei.
  assert (Hi0 : in64 i0).
  { subst i0. destruct i; [assumption|]. unfold in64, minint, maxint. lia. }
  assert (Ej : match j with Some jj => norm_pos s jj | None => posrel (len s) i0 end
               = posrel (len s) match j with Some j1 => j1 | None => i0 end).
  { destruct j as [jj|]; [apply norm_pos_posrel; assumption|reflexivity]. }
  rewrite Ej. clear Ei Ej.
  set (i' := Z.max 1 (posrel (len s) i0)).
  set (j' := Z.min (len s) (posrel (len s) match j with Some j1 => j1 | None => i0 end)).
  unfold zrange.
  destruct (Z.to_nat (j' - i' + 1)) eqn:En; [reflexivity|].
  rewrite <- En. apply byte_loop_chars; [assumption|lia|lia].
Qed.

(* ------------------------------------------------------------------ *)
(* string.char                                                          *)

Lemma char_loop_ok vals : forall k,
  forallb (fun x => (0 <=? x) && (x <=? 255)) vals = true -> char_loop vals k = Ok vals.
Proof.
  induction vals as [|x t IH]; intros k H; [reflexivity|].
  cbn [forallb] in H. apply andb_true_iff in H. destruct H as [Hx Ht].
  apply andb_true_iff in Hx. destruct Hx as [H0 H255]. apply Z.leb_le in H0, H255.
  cbn [char_loop].
  assert (E : (x <? 0) || (x >? 255) = false).
  { apply orb_false_iff; split; [apply Z.ltb_ge; lia|]. rewrite Z.gtb_ltb. apply Z.ltb_ge. lia. }
  rewrite E, IH by assumption. reflexivity.
Qed.

Lemma char_loop_err vals : forall k,
  forallb (fun x => (0 <=? x) && (x <=? 255)) vals = false -> exists n, char_loop vals k = Err (ERange n).
Proof.
  induction vals as [|x t IH]; intros k H; [discriminate|].
  cbn [forallb] in H. cbn [char_loop].
  destruct ((x <? 0) || (x >? 255)) eqn:E; [eexists; reflexivity|].
  apply orb_false_iff in E. destruct E as [E1 E2].
  apply Z.ltb_ge in E1. rewrite Z.gtb_ltb in E2. apply Z.ltb_ge in E2.
  replace ((0 <=? x) && (x <=? 255)) with true in H
    by (symmetry; apply andb_true_iff; split; apply Z.leb_le; lia).
  cbn [andb] in H. destruct (IH (k + 1) H) as [n Hn]. rewrite Hn. eexists; reflexivity.
Qed.

(* char succeeds exactly when the manual says so, with the manual's result *)
Theorem char_correct vals :
  match char_spec vals with
  | Some b => char_im vals = Ok b
  | None => exists n, char_im vals = Err (ERange n)
  end.
Proof.
  unfold char_spec, char_im.
  destruct (forallb _ vals) eqn:E; [apply char_loop_ok|apply char_loop_err]; assumption.
Qed.

(* ------------------------------------------------------------------ *)
(* string.upper / lower                                                 *)

Lemma case_loop_map f s : case_loop f s = map f s.
Proof. induction s; cbn; congruence. Qed.

(* for ALL byte strings: byte-wise (ASCII letters only) and length preserving *)
Theorem upper_lower_bytewise s :
  upper_im s = Ok (upper_spec s) /\ lower_im s = Ok (lower_spec s) /\
  length (upper_spec s) = length s /\ length (lower_spec s) = length s.
Proof.
  unfold upper_im, lower_im, upper_spec, lower_spec. rewrite !case_loop_map, !map_length. auto.
Qed.

(* ------------------------------------------------------------------ *)
(* string.rep: negative counts (golua's own test suite expects the error) *)

Theorem rep_refuted :
  exists s n, in64 n /\ str_ok s /\ rep_im s n None = Err (ERange 2) /\ rep_spec s n None = [].
Proof.
  exists [120], (-1). unfold in64, str_ok. vm_compute. intuition congruence.
Qed.

(* ------------------------------------------------------------------ *)
(* string.rep for n >= 0: the overflow tests are exact                  *)

Lemma mul_check L n : 0 <= L < 2^63 -> 1 <= n < 2^63 ->
  (Z.quot (wrap (L * n)) n =? L) = (L * n <? 2^63).
Proof.
  intros HL Hn.
  destruct (L * n <? 2^63) eqn:E.
  - apply Z.ltb_lt in E. rewrite wrap_id by (unfold in64, minint, maxint; nia).
    rewrite Z.quot_mul by lia. apply Z.eqb_refl.
  - apply Z.ltb_ge in E. apply Z.eqb_neq.
    pose proof (wrap_in64 (L * n)) as Hw. unfold in64, minint, maxint in Hw.
    set (W := wrap (L * n)) in *.
    assert (L >= 1) by nia.
    destruct (Z_lt_le_dec W 0).
    + assert (Z.quot W n <= 0).
      { replace W with (- (- W)) by lia. rewrite Z.quot_opp_l by lia.
        pose proof (Z.quot_pos (- W) n ltac:(lia) ltac:(lia)). lia. }
      lia.
    + assert (Z.quot W n < L) by (apply Z.quot_lt_upper_bound; nia). lia.
Qed.

Lemma repeat_sep_copies s n : sep_copies s [] (S n) = repeat_bytes s (S n).
Proof.
  induction n; [cbn; now rewrite app_nil_r|].
  change (sep_copies s [] (S (S n))) with (s ++ [] ++ sep_copies s [] (S n)).
  rewrite IHn. reflexivity.
Qed.

Lemma rep_loop_sep_copies s sep n : s ++ rep_loop n s sep = sep_copies s sep (S n).
Proof.
  induction n; [cbn; now rewrite app_nil_r|].
  change (sep_copies s sep (S (S n))) with (s ++ sep ++ sep_copies s sep (S n)).
  rewrite <- IHn. reflexivity.
Qed.

Lemma sep_copies_nil n : sep_copies [] [] n = [].
Proof. induction n as [|[|n] IH]; cbn in *; auto. Qed.

Definition osep_ok (o : option bytes) : Prop := match o with Some x => str_ok x | None => True end.

(* For every count n >= 0: if the result fits a string the Go code returns
   the manual's result; otherwise it raises the overflow error.  (n < 0 is
   the recorded defect, see rep_refuted.) *)
Theorem rep_correct_nonneg s n sep :
  str_ok s -> osep_ok sep -> in64 n -> 0 <= n ->
  (n = 1 \/ rep_len s n sep <= maxRepSize -> rep_im s n sep = Ok (rep_spec s n sep)) /\
  (2 <= n -> maxRepSize < rep_len s n sep < 2^63 -> rep_im s n sep = Err ETooLarge) /\
  (2^63 <= rep_len s n sep -> rep_im s n sep = Err EOverflow).
Proof.
  intros Hs Hsep Hn H0. unfold str_ok, in64, minint, maxint in *.
  pose proof (len_nonneg s) as Hl.
  unfold rep_im, rep_spec, rep_len, maxRepSize.
  replace (n <? 0) with false by (symmetry; apply Z.ltb_ge; lia).
  destruct (n =? 0) eqn:E0.
  { apply Z.eqb_eq in E0. subst n. cbn. repeat split; (reflexivity || lia). }
  apply Z.eqb_neq in E0.
  replace (n <=? 0) with false by (symmetry; apply Z.leb_gt; lia).
  destruct (n =? 1) eqn:E1.
  { apply Z.eqb_eq in E1. subst n. cbn [Z.to_nat Pos.to_nat Pos.iter_op Nat.add sep_copies].
    split; [reflexivity|]. split; [lia|].
    destruct sep as [x|]; cbn [osep_ok] in Hsep; unfold str_ok, maxint in Hsep; cbn [len length]; lia. }
  apply Z.eqb_neq in E1.
  assert (Hn2 : 2 <= n) by lia.
  destruct (Z.to_nat n) as [|k] eqn:Ek; [lia|].
  destruct sep as [x|].
  - cbn [osep_ok] in Hsep. unfold str_ok, maxint in Hsep. pose proof (len_nonneg x) as Hx.
    rewrite (wrap_id (n - 1)) by (unfold in64, minint, maxint; lia).
    rewrite (Z.mul_comm n (len s)), (Z.mul_comm (n - 1) (len x)).
    rewrite (mul_check (len s) n) by lia.
    rewrite (mul_check (len x) (n - 1)) by lia.
    replace (Z.to_nat (n - 1)) with k by lia.
    rewrite rep_loop_sep_copies.
    destruct (len s * n <? 2^63) eqn:A; cbn [negb orb].
    + apply Z.ltb_lt in A. rewrite (wrap_id (len s * n)) by (unfold in64, minint, maxint; nia).
      destruct (len x * (n - 1) <? 2^63) eqn:B; cbn [negb orb].
      * apply Z.ltb_lt in B. rewrite (wrap_id (len x * (n - 1))) by (unfold in64, minint, maxint; nia).
        destruct (len s * n + len x * (n - 1) <? 2^63) eqn:C.
        -- apply Z.ltb_lt in C. rewrite wrap_id by (unfold in64, minint, maxint; nia).
           replace (len s * n + len x * (n - 1) <? 0) with false by (symmetry; apply Z.ltb_ge; nia).
           rewrite Z.gtb_ltb.
           destruct (2^40 <? len s * n + len x * (n - 1)) eqn:D; [apply Z.ltb_lt in D|apply Z.ltb_ge in D].
           { repeat split; intros; (reflexivity || lia). }
           destruct (len s * n + len x * (n - 1) =? 0) eqn:Z0; [|repeat split; intros; (reflexivity || lia)].
           apply Z.eqb_eq in Z0. split; [intros _|split; lia].
           assert (Es : len s = 0) by nia. assert (Ex : len x = 0) by nia.
           destruct s as [|b0 s0]; [|exfalso; unfold len in Es; cbn [length] in Es; lia].
           destruct x as [|b1 x0]; [|exfalso; unfold len in Ex; cbn [length] in Ex; lia].
           rewrite sep_copies_nil. reflexivity.
        -- apply Z.ltb_ge in C.
           replace (wrap (len s * n + len x * (n - 1)) <? 0) with true.
           ++ repeat split; intros; (reflexivity || lia).
           ++ symmetry. apply Z.ltb_lt. unfold wrap.
              replace (len s * n + len x * (n - 1) + 2^63) with ((len s * n + len x * (n - 1) - 2^63) + 1 * 2^64) by lia.
              rewrite Z.mod_add by lia. rewrite Z.mod_small by nia. lia.
      * apply Z.ltb_ge in B. repeat split; intros; (reflexivity || nia).
    + apply Z.ltb_ge in A. repeat split; intros; (reflexivity || nia).
  - rewrite (mul_check (len s) n) by lia. cbn [len length]. rewrite Z.mul_0_r, Z.add_0_r.
    rewrite (Z.mul_comm n (len s)).
    destruct (len s * n <? 2^63) eqn:A; cbn [negb].
    + apply Z.ltb_lt in A. rewrite (wrap_id (len s * n)) by (unfold in64, minint, maxint; nia).
      rewrite Z.gtb_ltb.
      destruct (2^40 <? len s * n) eqn:D; [apply Z.ltb_lt in D|apply Z.ltb_ge in D].
      * repeat split; intros; (reflexivity || lia).
      * split; [intros _; rewrite repeat_sep_copies; reflexivity|split; lia].
    + apply Z.ltb_ge in A. repeat split; intros; (reflexivity || lia).
Qed.

(* the hypotheses used by the theorems are satisfiable, extreme positions included *)
Example hypotheses_satisfiable :
  str_ok [97; 0; 255] /\ in64 minint /\ in64 maxint /\ oin64 (Some minint) /\ oin64 None /\ osep_ok (Some [44]).
Proof. unfold str_ok, in64, oin64, osep_ok, str_ok. vm_compute. intuition congruence. Qed.
