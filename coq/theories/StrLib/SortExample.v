(* StrLib/SortExample.v — the hypotheses of sort_sorted_if_consistent are
   satisfiable: the bubble-sort strategy of Sort.v is in range for every n and
   sorts every list of length 2 and of length 3 for EVERY consistent comparison
   (case analysis over all answer sequences of the comparison). *)
From Coq Require Import ZArith List Bool Lia Permutation.
From GV Require Import StrLib.Str StrLib.StrSpec StrLib.Tab StrLib.Sort StrLib.SortOrder.
Import ListNotations.
Open Scope Z_scope.

Lemma consistent_asym lt x y : consistent lt -> lt x y = true -> lt y x = false.
Proof.
  intros (Hirr & Htr & _) H. destruct (lt y x) eqn:E; [|reflexivity].
  rewrite <- (Hirr x). symmetry. eapply Htr; eassumption.
Qed.

(* the sortedness hypothesis is satisfiable by a real procedure: bubble sort
   sorts every list of length 2 and 3 for every consistent comparison *)
Example bubble_sorts_2 : forall lt l, length l = 2%nat -> consistent lt -> sorted lt (run_list (bubble 2 2) lt l).
Proof.
  intros lt l Hl Hc. destruct l as [|a [|b [|c l]]]; try discriminate.
  cbn [bubble pass Nat.pred run_list nth lswap lupd].
  destruct (lt b a) eqn:E1; cbn [run_list nth lswap lupd].
  - rewrite (consistent_asym lt b a Hc E1). cbn [run_list].
    intros i j Hij. cbn [length] in Hij. assert (i = 0 /\ j = 1)%nat as [-> ->] by lia. cbn [nth].
    apply (consistent_asym lt b a Hc E1).
  - rewrite E1. cbn [run_list]. intros i j Hij. cbn [length] in Hij. assert (i = 0 /\ j = 1)%nat as [-> ->] by lia. exact E1.
Qed.

Ltac ord_fin lt Hc :=
  let Hirr := fresh in let Htr := fresh in let Hnt := fresh in
  pose proof Hc as (Hirr & Htr & Hnt);
  repeat match goal with
  | H : lt ?x ?y = true |- _ =>
    lazymatch goal with
    | _ : lt y x = false |- _ => fail
    | _ => pose proof (consistent_asym lt x y Hc H)
    end
  end;
  first [ assumption
        | apply Hirr
        | match goal with
          | H1 : lt ?x ?y = false, H2 : lt ?y ?z = false |- lt ?x ?z = false => exact (Hnt x y z H1 H2)
          end
        | exfalso; congruence
        | exfalso;
          match goal with
          | H1 : lt ?x ?y = true, H2 : lt ?y ?z = true, H3 : lt ?x ?z = false |- _ =>
            rewrite (Htr x y z H1 H2) in H3; discriminate
          | H1 : lt ?x ?y = false, H2 : lt ?y ?z = false, H3 : lt ?x ?z = true |- _ =>
            rewrite (Hnt x y z H1 H2) in H3; discriminate
          end ].

Example bubble_sorts_3 : forall lt l, length l = 3%nat -> consistent lt -> sorted lt (run_list (bubble 3 3) lt l).
Proof.
  intros lt l Hl Hc. destruct l as [|a [|b [|c [|d l]]]]; try discriminate.
  cbn [bubble pass Nat.pred].
  repeat (cbn [run_list nth lswap lupd];
          match goal with |- context [if lt ?x ?y then _ else _] => destruct (lt x y) eqn:? end).
  all: cbn [run_list nth lswap lupd].
  all: intros i j Hij; cbn [length] in Hij;
       assert ((i = 0 /\ j = 1) \/ (i = 0 /\ j = 2) \/ (i = 1 /\ j = 2))%nat as [[-> ->]|[[-> ->]|[-> ->]]] by lia;
       cbn [nth].
  all: try (ord_fin lt Hc).
Qed.

Theorem sort_order_hypotheses_satisfiable :
  exists algo, (forall n, in_range n (algo n)) /\
    (forall lt l, length l = 2%nat -> consistent lt -> sorted lt (run_list (algo 2%nat) lt l)) /\
    (forall lt l, length l = 3%nat -> consistent lt -> sorted lt (run_list (algo 3%nat) lt l)).
Proof.
  exists (fun n => bubble n n). split; [intros; apply bubble_in_range|].
  split; [exact bubble_sorts_2|exact bubble_sorts_3].
Qed.
