(* StrLib/StrSpec.v — specification model (S): the Lua 5.4 manual's
   definitions (§6.4) of the non-pattern string functions, over byte lists
   and unbounded integers.  No machine arithmetic here.  Executable. *)
From Coq Require Import ZArith List Bool.
From GV Require Import StrLib.Str.
Import ListNotations.
Open Scope Z_scope.

(* the integers a, a+1, ..., a+n-1 *)
Fixpoint zseq (a : Z) (n : nat) : list Z :=
  match n with O => [] | S k => a :: zseq (a + 1) k end.
(* the integers a..b (empty when a > b) *)
Definition zrange (a b : Z) : list Z := zseq a (Z.to_nat (b - a + 1)).

(* the character at (1-based) position k *)
Definition char_at (s : bytes) (k : Z) : Z := nth (Z.to_nat (k - 1)) s 0.

(* "Indices are allowed to be negative and are interpreted as indexing
   backwards, from the end of the string." *)
Definition posrel (l p : Z) : Z := if p <? 0 then l + p + 1 else p.

(* string.sub (s, i [, j]): "If, after the translation of negative indices, i
   is less than 1, it is corrected to 1.  If j is greater than the string
   length, it is corrected to that length.  If, after these corrections, i is
   greater than j, the function returns the empty string."  default j = -1 *)
Definition sub_spec (s : bytes) (i : Z) (j : option Z) : bytes :=
  let l := len s in
  let i' := Z.max 1 (posrel l i) in
  let j' := Z.min l (posrel l (match j with Some j => j | None => -1 end)) in
  map (char_at s) (zrange i' j').

(* string.byte (s [, i [, j]]): codes of s[i..j]; default i = 1, j = i;
   "These indices are corrected following the same rules of function string.sub." *)
Definition byte_spec (s : bytes) (i j : option Z) : list Z :=
  let i0 := match i with Some i => i | None => 1 end in
  let j0 := match j with Some j => j | None => i0 end in
  sub_spec s i0 (Some j0).

(* string.char (...): a string with length equal to the number of arguments,
   each character has the code of its argument; every argument must be a byte *)
Definition char_spec (vals : list Z) : option bytes :=
  if forallb (fun x => (0 <=? x) && (x <=? 255)) vals then Some vals else None.

Definition len_spec (s : bytes) : Z := Z.of_nat (length s).

Definition reverse_spec (s : bytes) : bytes := rev s.

(* string.rep (s, n [, sep]): "n copies of the string s separated by the
   string sep.  The default value for sep is the empty string.  Returns the
   empty string if n is not positive." *)
Fixpoint sep_copies (s sep : bytes) (n : nat) : bytes :=
  match n with
  | O => []
  | S O => s
  | S k => s ++ sep ++ sep_copies s sep k
  end.
Definition rep_spec (s : bytes) (n : Z) (sep : option bytes) : bytes :=
  if n <=? 0 then [] else
  sep_copies s (match sep with Some x => x | None => [] end) (Z.to_nat n).
(* its length, as an unbounded integer (a string this long must exist for the
   call to succeed) *)
Definition rep_len (s : bytes) (n : Z) (sep : option bytes) : Z :=
  if n <=? 0 then 0 else
  n * len s + (n - 1) * len (match sep with Some x => x | None => [] end).

(* string.upper / lower in the C locale: ASCII letters only, byte-wise *)
Definition upper_spec (s : bytes) : bytes := map ascii_upper s.
Definition lower_spec (s : bytes) : bytes := map ascii_lower s.

(* string.find (s, pattern, init, true): "looks for the first match of pattern
   in s ... a plain 'find substring' operation ... returns the indices of s
   where this occurrence starts and ends; otherwise nil.  init specifies where
   to start the search; its default value is 1 and can be negative."
   (init beyond len+1 finds nothing; 0 and too-negative values start at 1.) *)
Fixpoint bytes_eqb (a b : bytes) : bool :=
  match a, b with
  | [], [] => true
  | x :: a', y :: b' => (x =? y) && bytes_eqb a' b'
  | _, _ => false
  end.
(* p occurs in s at 1-based position k: the |p| characters of s from k on are p *)
Definition occurs_at (s p : bytes) (k : Z) : bool :=
  (1 <=? k) && bytes_eqb (firstn (length p) (skipn (Z.to_nat (k - 1)) s)) p.

Definition find_spec (s p : bytes) (init : option Z) : option (Z * Z) :=
  let l := len s in
  let i0 := Z.max 1 (posrel l (match init with Some i => i | None => 1 end)) in
  if i0 >? l + 1 then None else
  match find (occurs_at s p) (zrange i0 (l + 1)) with
  | Some k => Some (k, k + len p - 1)
  | None => None
  end.

(* S for the oracle: the result exists only if its length does not exceed the
   implementation's maximal string size (otherwise the call must raise:
   "resulting string too large" in the reference implementation) *)
Definition rep_spec_opt (s : bytes) (n : Z) (sep : option bytes) : option bytes :=
  if rep_len s n sep <=? maxRepSize then Some (rep_spec s n sep) else None.
