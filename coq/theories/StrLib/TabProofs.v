(* StrLib/TabProofs.v — the table-library programs (Tab.v) run on any table
   state compute the manual's sequence operations (TabSpec.v). *)
From Coq Require Import ZArith List Bool Lia.
From GV Require Import StrLib.Str StrLib.StrSpec StrLib.StrProofs StrLib.Tab StrLib.TabSpec.
Import ListNotations.
Open Scope Z_scope.

Ltac zb := repeat match goal with
  | H : (_ <? _) = true |- _ => apply Z.ltb_lt in H
  | H : (_ <? _) = false |- _ => apply Z.ltb_ge in H
  | H : (_ <=? _) = true |- _ => apply Z.leb_le in H
  | H : (_ <=? _) = false |- _ => apply Z.leb_gt in H
  | H : (_ >? _) = true |- _ => rewrite Z.gtb_ltb in H
  | H : (_ >? _) = false |- _ => rewrite Z.gtb_ltb in H
  | H : (_ >=? _) = true |- _ => rewrite Z.geb_leb in H
  | H : (_ >=? _) = false |- _ => rewrite Z.geb_leb in H
  | H : (_ =? _) = true |- _ => apply Z.eqb_eq in H
  | H : (_ =? _) = false |- _ => apply Z.eqb_neq in H
  | H : _ && _ = true |- _ => apply andb_true_iff in H; destruct H
  | H : _ || _ = false |- _ => apply orb_false_iff in H; destruct H
  | H : _ && _ = false |- _ => apply andb_false_iff in H; destruct H
  | H : _ || _ = true |- _ => apply orb_true_iff in H; destruct H
  end.
Ltac zcase := repeat (match goal with |- context [if ?b then _ else _] => destruct b eqn:? end);
  zb; try lia; try (f_equal; lia); try congruence.

(* the parts of the state a T1-only program leaves alone *)
Definition keeps2 (st st' : tstate) : Prop :=
  m2 st' = m2 st /\ len1 st' = len1 st /\ len2 st' = len2 st.
Lemma keeps2_refl st : keeps2 st st. Proof. repeat split. Qed.
Lemma keeps2_set1 st st' k v : keeps2 (tset st T1 k v) st' -> keeps2 st st'.
Proof. unfold keeps2. cbn. tauto. Qed.

Definition i64 (z : Z) : Prop := - 2^63 <= z <= 2^63 - 1.
Lemma wrap_i64 z : i64 z -> wrap z = z.
Proof. intros. apply wrap_id. exact H. Qed.

(* ------------------------------------------------------------------ insert *)
Lemma insert_loop_run n : forall pos val st,
  i64 pos -> pos + Z.of_nat n <= 2^63 - 1 ->
  exists st', run (insert_loop n pos val) st = (ORet tt, st') /\ keeps2 st st' /\
    forall k, m1 st' k =
      if k <? pos then m1 st k
      else if k =? pos then val
      else if k <=? pos + Z.of_nat n then m1 st (k - 1)
      else m1 st k.
Proof.
  induction n; intros pos val st Hp Hn.
  - eexists. split; [reflexivity|]. split; [repeat split|].
    intros k. cbn [tset m1]. unfold upd. zcase.
  - cbn [insert_loop run tget].
    rewrite wrap_i64 by (unfold i64 in *; lia).
    destruct (IHn (pos + 1) (m1 st pos) (tset st T1 pos val)) as (st' & R & K & M);
      [unfold i64 in *; lia|lia|].
    exists st'. split; [exact R|]. split; [eapply keeps2_set1; exact K|].
    intros k. rewrite M. cbn [tset m1]. unfold upd. zcase.
Qed.

(* table.insert for every reported length 0 <= L <= maxint: when L = maxint
   (#t + 1 is not an integer) the call fails and changes nothing *)
Theorem insert_correct pos v st :
  0 <= len1 st <= 2^63 - 1 -> oin64 pos ->
  let L := len1 st in
  let p := match pos with Some p => p | None => L + 1 end in
  if insert_pos_ok L p
  then exists st', run (insert_im pos v) st = (ORet tt, st') /\ keeps2 st st' /\
                   forall k, m1 st' k = insert_spec (m1 st) L p v k
  else exists err, run (insert_im pos v) st = (OFail err, st).
Proof.
  intros HL Hpos L p. subst L. unfold insert_im, insert_pos_ok. cbn [run tlen].
  unfold maxint.
  destruct (len1 st =? 2^63 - 1) eqn:EL.
  { apply Z.eqb_eq in EL. replace (len1 st + 1 <=? 2^63 - 1) with false by (symmetry; apply Z.leb_gt; lia).
    rewrite andb_false_r. eexists. reflexivity. }
  apply Z.eqb_neq in EL.
  replace (len1 st + 1 <=? 2^63 - 1) with true by (symmetry; apply Z.leb_le; lia). rewrite andb_true_r.
  rewrite (wrap_i64 (len1 st + 1)) by (unfold i64; lia).
  destruct pos as [q|]; cbn [oin64] in Hpos; subst p.
  - unfold in64, minint, maxint in Hpos.
    destruct ((1 <=? q) && (q <=? len1 st + 1)) eqn:E.
    + zb. replace ((q <=? 0) || (q >? len1 st + 1)) with false
        by (symmetry; apply orb_false_iff; rewrite Z.gtb_ltb; split; [apply Z.leb_gt|apply Z.ltb_ge]; lia).
      destruct (insert_loop_run (Z.to_nat (len1 st - q + 1)) q v st) as (st' & R & K & M);
        [unfold i64; lia|lia|].
      exists st'. split; [exact R|]. split; [exact K|].
      intros k. rewrite M. unfold insert_spec.
      replace (q + Z.of_nat (Z.to_nat (len1 st - q + 1))) with (len1 st + 1) by lia. reflexivity.
    + replace ((q <=? 0) || (q >? len1 st + 1)) with true; [eexists; reflexivity|].
      symmetry. apply orb_true_iff. rewrite Z.gtb_ltb, Z.leb_le, Z.ltb_lt.
      apply andb_false_iff in E. destruct E as [E|E]; zb; lia.
  - replace ((1 <=? len1 st + 1) && (len1 st + 1 <=? len1 st + 1)) with true
      by (symmetry; apply andb_true_iff; split; apply Z.leb_le; lia).
    destruct (insert_loop_run O (len1 st + 1) v st) as (st' & R & K & M); [unfold i64; lia|lia|].
    exists st'. split; [exact R|]. split; [exact K|].
    intros k. rewrite M. unfold insert_spec. cbn [Z.of_nat]. zcase.
Qed.

(* ------------------------------------------------------------------ remove *)
Lemma remove_loop_run n : forall tl nv val st,
  i64 tl -> - 2^63 <= tl - Z.of_nat n ->
  exists st', run (remove_loop (S n) tl nv val) st = (ORet (m1 st (tl - Z.of_nat n)), st') /\ keeps2 st st' /\
    forall k, m1 st' k =
      if (tl - Z.of_nat n <=? k) && (k <? tl) then m1 st (k + 1)
      else if k =? tl then nv
      else m1 st k.
Proof.
  induction n; intros tl nv val st Ht Hn.
  - eexists. cbn [remove_loop run tget]. split; [f_equal; f_equal; f_equal; cbn; lia|].
    split; [repeat split|]. intros k. cbn [tset m1]. unfold upd. cbn [Z.of_nat]. zcase.
  - remember (S n) as n1. cbn [remove_loop run tget]. subst n1.
    rewrite wrap_i64 by (unfold i64 in *; lia).
    destruct (IHn (tl - 1) (m1 st tl) (m1 st tl) (tset st T1 tl nv)) as (st' & R & K & M);
      [unfold i64 in *; lia|lia|].
    exists st'. split.
    + rewrite R. f_equal. f_equal. cbn [tset m1]. unfold upd.
      replace (tl - 1 - Z.of_nat n) with (tl - Z.of_nat (S n)) by lia. zcase.
    + split; [eapply keeps2_set1; exact K|].
      intros k. rewrite M. cbn [tset m1]. unfold upd.
      replace (tl - 1 - Z.of_nat n) with (tl - Z.of_nat (S n)) by lia. zcase.
Qed.

Theorem remove_correct pos st :
  0 <= len1 st <= 2^63 - 1 -> oin64 pos ->
  let L := len1 st in
  let p := match pos with Some p => p | None => L end in
  if remove_pos_ok L p
  then exists st', run (remove_im pos) st = (ORet (m1 st p), st') /\ keeps2 st st' /\
                   forall k, m1 st' k = remove_spec (m1 st) L p k
  else run (remove_im pos) st = (OFail TERange2, st).
Proof.
  intros HL Hpos L p. subst L. unfold remove_im. cbn [run tlen].
  assert (Hp : in64 p).
  { subst p. destruct pos; [exact Hpos|]. unfold in64, minint, maxint. lia. }
  unfold in64, minint, maxint in Hp.
  replace (match pos with Some p0 => p0 | None => len1 st end) with p by reflexivity.
  clearbody p. clear Hpos pos.
  assert (EW : (len1 st <? maxint) && (p =? wrap (len1 st + 1)) = (p =? len1 st + 1)).
  { unfold maxint. destruct (len1 st <? 2^63 - 1) eqn:EL; cbn [andb].
    - apply Z.ltb_lt in EL. rewrite (wrap_i64 (len1 st + 1)) by (unfold i64; lia). reflexivity.
    - apply Z.ltb_ge in EL. symmetry. apply Z.eqb_neq. lia. }
  rewrite EW. clear EW.
  unfold remove_pos_ok, remove_spec.
  destruct ((p =? len1 st) || (p =? len1 st + 1)) eqn:E.
  - (* erase one element *)
    replace ((1 <=? p) && (p <=? len1 st + 1) || (len1 st =? 0) && (p =? 0) || (p =? len1 st)) with true.
    2:{ symmetry. apply orb_true_iff in E. destruct E as [E|E]; zb.
        - rewrite E, Z.eqb_refl, orb_true_r. reflexivity.
        - subst p. replace (1 <=? len1 st + 1) with true by (symmetry; apply Z.leb_le; lia).
          rewrite Z.leb_refl. reflexivity. }
    cbn [run tget]. eexists. split; [reflexivity|]. split; [repeat split|].
    intros k. cbn [tset m1]. unfold upd.
    apply orb_true_iff in E. destruct E as [E|E]; zb; subst p; zcase.
  - zb.
    destruct ((p <=? 0) || (p >? len1 st)) eqn:F.
    + replace ((1 <=? p) && (p <=? len1 st + 1) || (len1 st =? 0) && (p =? 0) || (p =? len1 st)) with false; [reflexivity|].
      symmetry. apply orb_true_iff in F. rewrite Z.gtb_ltb in F.
      repeat (apply orb_false_iff; split).
      * apply andb_false_iff. destruct F as [F|F]; zb; [left; apply Z.leb_gt; lia|right; apply Z.leb_gt; lia].
      * apply andb_false_iff. destruct F as [F|F]; zb.
        -- destruct (Z.eq_dec p 0); [left; apply Z.eqb_neq; lia|right; apply Z.eqb_neq; lia].
        -- right. apply Z.eqb_neq. lia.
      * apply Z.eqb_neq. lia.
    + zb. replace ((1 <=? p) && (p <=? len1 st + 1) || (len1 st =? 0) && (p =? 0) || (p =? len1 st)) with true
        by (symmetry; replace ((1 <=? p) && (p <=? len1 st + 1)) with true; [reflexivity|symmetry; apply andb_true_iff; split; apply Z.leb_le; lia]).
      replace ((1 <=? p) && (p <=? len1 st)) with true
        by (symmetry; apply andb_true_iff; split; apply Z.leb_le; lia).
      replace (Z.to_nat (len1 st - p + 1)) with (S (Z.to_nat (len1 st - p))) by lia.
      destruct (remove_loop_run (Z.to_nat (len1 st - p)) (len1 st) VNil VNil st) as (st' & R & K & M);
        [unfold i64; lia|lia|].
      replace (len1 st - Z.of_nat (Z.to_nat (len1 st - p))) with p in * by lia.
      exists st'. split; [exact R|]. split; [exact K|].
      intros k. rewrite M. zcase.
Qed.

(* -------------------------------------------------------------------- move *)
(* one step of either loop writes the destination table *)
Definition dst_of (st : tstate) (d : tid) : tmap := match d with T1 => m1 st | T2 => m2 st end.
Definition lens_kept (st st' : tstate) : Prop := len1 st' = len1 st /\ len2 st' = len2 st.
(* the table that is not the destination is untouched *)
Definition other_kept (st st' : tstate) (d : tid) : Prop :=
  match d with T1 => m2 st' = m2 st | T2 => m1 st' = m1 st end.

Lemma tset_dst st d k v : dst_of (tset st d k v) d = upd (dst_of st d) k v.
Proof. destruct d; reflexivity. Qed.

Lemma move_asc_run n : forall f t d st,
  i64 f -> i64 t -> f + Z.of_nat n - 1 <= 2^63 - 1 -> t + Z.of_nat n - 1 <= 2^63 - 1 ->
  (d = T1 -> t <= f) ->
  exists st', run (move_asc n f t d) st = (ORet tt, st') /\ lens_kept st st' /\ other_kept st st' d /\
    forall k, dst_of st' d k =
      if (t <=? k) && (k <? t + Z.of_nat n) then m1 st (k - t + f) else dst_of st d k.
Proof.
  induction n; intros f t d st Hf Ht Hfn Htn Hd.
  - eexists. split; [reflexivity|]. split; [split; reflexivity|]. split; [destruct d; reflexivity|].
    intros k. cbn [Z.of_nat]. zcase.
  - cbn [move_asc run tget].
    destruct n.
    + (* last iteration: the incremented indices are not used *)
      cbn [move_asc run]. eexists. split; [reflexivity|].
      split; [destruct d; split; reflexivity|]. split; [destruct d; reflexivity|].
      intros k. rewrite tset_dst. unfold upd. zcase.
    + rewrite (wrap_i64 (f + 1)), (wrap_i64 (t + 1)) by (unfold i64 in *; lia).
      destruct (IHn (f + 1) (t + 1) d (tset st d t (m1 st f))) as (st' & R & L & O & M);
        [unfold i64 in *; lia|unfold i64 in *; lia|lia|lia|intros; specialize (Hd H); lia|].
      exists st'. split; [exact R|].
      split; [destruct d; exact L|]. split; [destruct d; exact O|].
      intros k. rewrite M. rewrite tset_dst. unfold upd.
      destruct d.
      * specialize (Hd eq_refl). cbn [tset m1 dst_of]. unfold upd. zcase.
      * cbn [tset m1 dst_of]. zcase.
Qed.

Lemma move_desc_run n : forall e t d st,
  i64 e -> i64 t -> - 2^63 <= e - Z.of_nat n + 1 -> - 2^63 <= t - Z.of_nat n + 1 ->
  (d = T1 -> e <= t) ->
  exists st', run (move_desc n e t d) st = (ORet tt, st') /\ lens_kept st st' /\ other_kept st st' d /\
    forall k, dst_of st' d k =
      if (t - Z.of_nat n <? k) && (k <=? t) then m1 st (k - t + e) else dst_of st d k.
Proof.
  induction n; intros e t d st He Ht Hen Htn Hd.
  - eexists. split; [reflexivity|]. split; [split; reflexivity|]. split; [destruct d; reflexivity|].
    intros k. cbn [Z.of_nat]. zcase.
  - cbn [move_desc run tget].
    destruct n.
    + cbn [move_desc run]. eexists. split; [reflexivity|].
      split; [destruct d; split; reflexivity|]. split; [destruct d; reflexivity|].
      intros k. rewrite tset_dst. unfold upd. zcase.
    + rewrite (wrap_i64 (e - 1)), (wrap_i64 (t - 1)) by (unfold i64 in *; lia).
      destruct (IHn (e - 1) (t - 1) d (tset st d t (m1 st e))) as (st' & R & L & O & M);
        [unfold i64 in *; lia|unfold i64 in *; lia|lia|lia|intros; specialize (Hd H); lia|].
      exists st'. split; [exact R|].
      split; [destruct d; exact L|]. split; [destruct d; exact O|].
      intros k. rewrite M. rewrite tset_dst. unfold upd.
      destruct d.
      * specialize (Hd eq_refl). cbn [tset m1 dst_of]. unfold upd. zcase.
      * cbn [tset m1 dst_of]. zcase.
Qed.

(* (the same-position shortcut of the original code is gone: f = t on the same
   table performs the gets and sets like any other move, as the reference does)
   table.move for ALL int64 f, e, t, same table or another one: either the
   manual's simultaneous assignment (overlap included) or — exactly when the
   element count or the last destination index is not representable — an
   error that leaves both tables untouched. *)
Theorem move_correct f e t d st :
  in64 f -> in64 e -> in64 t ->
  if move_ok f e t
  then exists st', run (move_im f e t d) st = (ORet tt, st') /\ lens_kept st st' /\ other_kept st st' d /\
                   forall k, dst_of st' d k = move_spec (m1 st) (dst_of st d) f e t k
  else exists err, run (move_im f e t d) st = (OFail err, st).
Proof.
  unfold in64, minint, maxint. intros Hf He Ht.
  unfold move_im, move_ok, move_spec.
  destruct (f >? e) eqn:A.
  - (* nothing to do *)
    cbn [orb].
    exists st. split; [reflexivity|]. split; [split; reflexivity|]. split; [destruct d; reflexivity|].
    intros k. rewrite Z.gtb_ltb in A. zb. zcase.
  - rewrite Z.gtb_ltb in A. apply Z.ltb_ge in A. rename A into Hfe.
    cbn [orb].
    assert (HB : (f <=? 0) && (wrap (f + maxint) <=? e) = negb (e - f + 1 <=? 2^63 - 1)).
    { destruct (f <=? 0) eqn:F0; cbn [andb].
      - apply Z.leb_le in F0. rewrite (wrap_i64 (f + maxint)) by (unfold i64, maxint; lia). unfold maxint.
        destruct (f + (2^63 - 1) <=? e) eqn:G; [apply Z.leb_le in G|apply Z.leb_gt in G]; symmetry.
        + apply negb_true_iff, Z.leb_gt. lia.
        + apply negb_false_iff, Z.leb_le. lia.
      - apply Z.leb_gt in F0. symmetry. apply negb_false_iff, Z.leb_le. lia. }
    rewrite HB. clear HB. unfold maxint.
    destruct (e - f + 1 <=? 2^63 - 1) eqn:Hcnt; cbn [negb andb].
    2:{ eexists. reflexivity. }
    apply Z.leb_le in Hcnt.
    {
      destruct (t >=? f) eqn:C; rewrite Z.geb_leb in C; zb.
      * rewrite (wrap_i64 (e - f)) by (unfold i64; lia).
        rewrite (wrap_i64 (2^63 - 1 - (e - f))) by (unfold i64; lia).
        destruct (t >? 2^63 - 1 - (e - f)) eqn:D; rewrite Z.gtb_ltb in D; zb.
        -- replace (t + (e - f) <=? 2^63 - 1) with false by (symmetry; apply Z.leb_gt; lia).
           eexists. reflexivity.
        -- replace (t + (e - f) <=? 2^63 - 1) with true by (symmetry; apply Z.leb_le; lia).
           rewrite (wrap_i64 (t + (e - f))) by (unfold i64; lia).
           destruct (move_desc_run (Z.to_nat (e - f + 1)) e (t + (e - f)) d st) as (st' & R & L & O & M);
             [unfold i64; lia|unfold i64; lia|lia|lia|intros; lia|].
           exists st'. split; [exact R|]. split; [exact L|]. split; [exact O|].
           intros k. rewrite M.
           replace (t + (e - f) - Z.of_nat (Z.to_nat (e - f + 1))) with (t - 1) by lia.
           replace (f <=? e) with true by (symmetry; apply Z.leb_le; lia). cbn [andb].
           zcase.
      * replace (t + (e - f) <=? 2^63 - 1) with true by (symmetry; apply Z.leb_le; lia).
        destruct (move_asc_run (Z.to_nat (e - f + 1)) f t d st) as (st' & R & L & O & M);
          [unfold i64; lia|unfold i64; lia|lia|lia|intros; lia|].
        exists st'. split; [exact R|]. split; [exact L|]. split; [exact O|].
        intros k. rewrite M.
        replace (f <=? e) with true by (symmetry; apply Z.leb_le; lia). cbn [andb].
        zcase.
    }
Qed.
