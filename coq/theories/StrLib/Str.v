(* StrLib/Str.v — implementation model (IM) of golua's non-pattern string
   functions.  Executable definitions only; proofs are in StrProofs.v.

   Mirrors, line by line:
     /repo/luastrings/misc.go          StringNormPos
     /repo/lib/stringlib/stringlib.go  maxpos minpos bytef char lenf lower upper rep reverse sub
     /repo/lib/stringlib/matching.go   find (the branch `plain || len(ptn) == 0`)

   Conventions
     * a Lua string is a list of bytes; a byte is a Z (0..255 for real strings;
       nothing below depends on the range except upper/lower);
     * Go `int` is int64 on the platform golua is checked on: every Go
       arithmetic operation whose operands come from the caller is written
       with [wrap] (two's complement, mod 2^64);
     * Go run-time panics (slice bounds, index out of range) are the explicit
       outcome [Panic]; Lua errors returned by the function are [Err]. *)
From Coq Require Import ZArith List Bool.
Import ListNotations.
Open Scope Z_scope.

Definition bytes := list Z.

Definition minint : Z := - 2^63.
Definition maxint : Z := 2^63 - 1.
Definition in64 (z : Z) : Prop := minint <= z <= maxint.
Definition wrap (z : Z) : Z := (z + 2^63) mod 2^64 - 2^63.

Definition len (s : bytes) : Z := Z.of_nat (length s).

Inductive err :=
| ERange (argno : Z)        (* "#n out of range" *)
| EOverflow                 (* "rep causes overflow" *)
| ETooLarge                 (* "resulting string too large" *)
| ENotInt.                  (* "arguments must be integers" (not generated: inputs are integers) *)

Inductive res (A : Type) :=
| Ok (a : A)
| Err (e : err)
| Panic.                    (* a Go run-time panic *)
Arguments Ok {A} a.
Arguments Err {A} e.
Arguments Panic {A}.

Definition bind {A B} (r : res A) (f : A -> res B) : res B :=
  match r with Ok a => f a | Err e => Err e | Panic => Panic end.

(* ---- Go primitives on strings/slices ---- *)

(* s[a:b] — panics unless 0 <= a <= b <= len(s) *)
Definition slice (s : bytes) (a b : Z) : res bytes :=
  if (0 <=? a) && (a <=? b) && (b <=? len s)
  then Ok (firstn (Z.to_nat (b - a)) (skipn (Z.to_nat a) s))
  else Panic.

(* s[i] — panics unless 0 <= i < len(s) *)
Definition index (s : bytes) (i : Z) : res Z :=
  if (0 <=? i) && (i <? len s) then Ok (nth (Z.to_nat i) s 0) else Panic.

(* sb[i] = v on a []byte — panics unless in range *)
Fixpoint upd (s : bytes) (i : nat) (v : Z) : bytes :=
  match s, i with
  | [], _ => []
  | _ :: t, O => v :: t
  | x :: t, S k => x :: upd t k v
  end.
Definition store (s : bytes) (i : Z) (v : Z) : res bytes :=
  if (0 <=? i) && (i <? len s) then Ok (upd s (Z.to_nat i) v) else Panic.

(* ---- luastrings.StringNormPos ---- *)
Definition norm_pos (s : bytes) (p : Z) : Z :=
  if p <? 0 then wrap (wrap (len s + 1) + p) else p.

Definition maxpos (i j : Z) : Z := if i >? j then i else j.
Definition minpos (i j : Z) : Z := if i <? j then i else j.

(* ---- string.sub ---- *)
Definition sub_im (s : bytes) (ii : Z) (jj : option Z) : res bytes :=
  let i := norm_pos s ii in
  let j := match jj with Some jj => norm_pos s jj | None => len s end in
  let i := maxpos 1 i in
  let j := minpos (len s) j in
  if (i <=? len s) && (i <=? j) then slice s (wrap (i - 1)) j else Ok [].

(* ---- string.byte ----  `for i <= j { push s[i-1]; i++ }`; the trip count
   of that loop is max(0, j-i+1) (j <= len(s), so i++ cannot wrap) *)
Fixpoint byte_loop (n : nat) (s : bytes) (i : Z) : res (list Z) :=
  match n with
  | O => Ok []
  | S n' => bind (index s (wrap (i - 1))) (fun b =>
            bind (byte_loop n' s (wrap (i + 1))) (fun r => Ok (b :: r)))
  end.

Definition byte_im (s : bytes) (ii jj : option Z) : res (list Z) :=
  let i := match ii with Some ii => norm_pos s ii | None => 1 end in
  let j := match jj with Some jj => norm_pos s jj | None => i end in
  let i := maxpos 1 i in
  let j := minpos (len s) j in
  byte_loop (Z.to_nat (j - i + 1)) s i.

(* ---- string.char ---- *)
Fixpoint char_loop (vals : list Z) (k : Z) : res bytes :=
  match vals with
  | [] => Ok []
  | x :: t => if (x <? 0) || (x >? 255) then Err (ERange k)
              else bind (char_loop t (k + 1)) (fun r => Ok (x :: r))
  end.
Definition char_im (vals : list Z) : res bytes := char_loop vals 1.

(* ---- string.len ---- *)
Definition len_im (s : bytes) : res Z := Ok (len s).

(* ---- string.reverse ----
     sb := []byte(s); l := len(s) - 1
     for i := 0; 2*i <= l; i++ { sb[i], sb[l-i] = sb[l-i], sb[i] } *)
Fixpoint reverse_loop (n : nat) (sb : bytes) (l i : Z) : res bytes :=
  match n with
  | O => Ok sb
  | S n' =>
    bind (index sb (l - i)) (fun a =>
    bind (index sb i) (fun b =>
    bind (store sb i a) (fun sb1 =>
    bind (store sb1 (l - i) b) (fun sb2 =>
    reverse_loop n' sb2 l (i + 1)))))
  end.
Definition reverse_im (s : bytes) : res bytes :=
  let l := len s - 1 in
  (* number of i >= 0 with 2*i <= l *)
  reverse_loop (Z.to_nat (l / 2 + 1)) s l 0.

(* ---- string.rep ----  n, sep as given; sep = None when fewer than 3 args *)
Fixpoint repeat_bytes (s : bytes) (n : nat) : bytes :=
  match n with O => [] | S k => s ++ repeat_bytes s k end.

(* the builder loop: Write(s); for { n--; if n == 0 {break}; Write(sep); Write(s) } *)
Fixpoint rep_loop (n : nat) (s sep : bytes) : bytes :=
  match n with O => [] | S k => sep ++ s ++ rep_loop k s sep end.

(* the largest result rep agrees to build (no Go allocation of more can succeed) *)
Definition maxRepSize : Z := 2^40.

Definition rep_im (s : bytes) (n : Z) (sep : option bytes) : res bytes :=
  if n <? 0 then Err (ERange 2) else
  if n =? 0 then Ok [] else
  if n =? 1 then Ok s else
  match sep with
  | None =>
    if negb (Z.quot (wrap (len s * n)) n =? len s) then Err EOverflow
    else if wrap (n * len s) >? maxRepSize then Err ETooLarge
    else Ok (repeat_bytes s (Z.to_nat n))             (* strings.Repeat *)
  | Some sep =>
    let sz1 := wrap (n * len s) in
    let sz2 := wrap (wrap (n - 1) * len sep) in
    let sz := wrap (sz1 + sz2) in
    if negb (Z.quot sz1 n =? len s) || negb (Z.quot sz2 (wrap (n - 1)) =? len sep) || (sz <? 0)
    then Err EOverflow
    else if sz >? maxRepSize then Err ETooLarge
    else if sz =? 0 then Ok []                         (* nothing to build: no n-fold loop *)
    else Ok (s ++ rep_loop (Z.to_nat (n - 1)) s sep)
  end.

(* ---- strings.Index: first occurrence (Go standard library; modelled by its
   documented meaning, sampled by the correspondence check) ---- *)
Fixpoint prefix_b (p s : bytes) : bool :=
  match p, s with
  | [], _ => true
  | _ :: _, [] => false
  | a :: p', b :: s' => (a =? b) && prefix_b p' s'
  end.
Fixpoint index_of (s p : bytes) (off : Z) : option Z :=
  if prefix_b p s then Some off else
  match s with
  | [] => None
  | _ :: t => index_of t p (off + 1)
  end.
Definition go_index (s p : bytes) : Z :=
  match index_of s p 0 with Some i => i | None => -1 end.

(* ---- string.find(s, ptn, init, true)  (also the branch taken when ptn == "") ---- *)
Definition find_plain_im (s p : bytes) (init : option Z) : res (option (Z * Z)) :=
  let init := match init with Some i => i | None => 1 end in
  let si := wrap (norm_pos s init - 1) in
  let si := if si <? 0 then 0 else si in
  if (si <? 0) || (si >? len s) then Ok None else
  bind (slice s si (len s)) (fun tl =>
  let i := go_index tl p in
  if i =? -1 then Ok None
  else Ok (Some (wrap (wrap (si + i) + 1), wrap (wrap (si + i) + len p)))).   (* i is relative to s[si:] *)

(* ---- string.upper / string.lower ----
     sb := []byte(s)
     for i, b := range sb { if 'a' <= b && b <= 'z' { sb[i] = b - ('a' - 'A') } }
   (byte arithmetic cannot wrap inside the tested range) *)
Definition ascii_upper (b : Z) : Z := if (97 <=? b) && (b <=? 122) then b - 32 else b.
Definition ascii_lower (b : Z) : Z := if (65 <=? b) && (b <=? 90) then b + 32 else b.

Fixpoint case_loop (f : Z -> Z) (sb : bytes) : bytes :=
  match sb with
  | [] => []
  | b :: r => f b :: case_loop f r
  end.
Definition upper_im (s : bytes) : res bytes := Ok (case_loop ascii_upper s).
Definition lower_im (s : bytes) : res bytes := Ok (case_loop ascii_lower s).
