(* StrLib/Sort.v — table.sort (/repo/lib/tablelib/tablelib.go sortf).

   sortf hands Go's sort.Sort three closures over the table:
     Len()      = #t (read once)
     Less(i,j)  = comp(t[i+1], t[j+1])   (or t[i+1] < t[j+1]); a Lua error aborts the sort
     Swap(i,j)  = x, y := t[i+1], t[j+1]; t[i+1] = y; t[j+1] = x
   sort.Sort itself is Go's standard library.  It is modelled as an arbitrary
   *strategy tree*: a terminating (well-founded) decision procedure that can
   do nothing but ask Less and perform Swap.  The only assumption is that the
   indices it uses are below Len (Section hypothesis [algo_in_range]); the
   comparison may answer anything, differently on every call, or fail.

   Theorem sort_is_permutation: whatever the comparison answers, the elements
   t[1..n] after the call are a permutation of those before, every other key
   is untouched — nothing is lost, duplicated or invented. *)
From Coq Require Import ZArith List Bool Lia Permutation FinFun.
From GV Require Import StrLib.Str StrLib.StrSpec StrLib.Tab.
Import ListNotations.
Open Scope Z_scope.

Inductive strat :=
| SDone
| SLess (i j : nat) (k : bool -> strat)
| SSwap (i j : nat) (k : strat).

Fixpoint in_range (n : nat) (s : strat) : Prop :=
  match s with
  | SDone => True
  | SLess i j k => (i < n)%nat /\ (j < n)%nat /\ forall b, in_range n (k b)
  | SSwap i j k => (i < n)%nat /\ (j < n)%nat /\ in_range n k
  end.

Definition key (i : nat) : Z := Z.of_nat i + 1.
Definition swapm (m : tmap) (a b : Z) : tmap := upd (upd m a (m b)) b (m a).

(* cmp c x y: the answer of the c-th call of the comparison (None = it raised) *)
Fixpoint run_sort (s : strat) (cmp : nat -> value -> value -> option bool) (c : nat) (m : tmap)
  : tmap * bool :=
  match s with
  | SDone => (m, true)
  | SLess i j k =>
    match cmp c (m (key i)) (m (key j)) with
    | None => (m, false)
    | Some b => run_sort (k b) cmp (S c) m
    end
  | SSwap i j k => run_sort k cmp c (swapm m (key i) (key j))
  end.

Definition transp (a b k : Z) : Z := if k =? a then b else if k =? b then a else k.

Lemma swapm_transp m a b k : swapm m a b k = m (transp a b k).
Proof.
  unfold swapm, upd, transp.
  destruct (k =? b) eqn:E1; destruct (k =? a) eqn:E2;
    try apply Z.eqb_eq in E1; try apply Z.eqb_eq in E2; subst; try reflexivity.
Qed.

Lemma transp_invol a b k : transp a b (transp a b k) = k.
Proof.
  unfold transp.
  destruct (k =? a) eqn:E1; [apply Z.eqb_eq in E1; subst|].
  - destruct (b =? a) eqn:E2; [apply Z.eqb_eq in E2; congruence|]. rewrite Z.eqb_refl. reflexivity.
  - destruct (k =? b) eqn:E2; [apply Z.eqb_eq in E2; subst|].
    + rewrite Z.eqb_refl. reflexivity.
    + rewrite E1, E2. reflexivity.
Qed.

Lemma transp_inj a b : Injective (transp a b).
Proof. intros x y H. rewrite <- (transp_invol a b x), H. apply transp_invol. Qed.

Lemma in_zseq x n : forall a, In x (zseq a n) <-> a <= x < a + Z.of_nat n.
Proof.
  induction n; intros a; cbn [zseq In]; [lia|].
  rewrite IHn. lia.
Qed.

Lemma nodup_zseq n : forall a, NoDup (zseq a n).
Proof.
  induction n; intros a; cbn [zseq]; constructor; [|apply IHn].
  rewrite in_zseq. lia.
Qed.

Lemma transp_perm a b ks :
  NoDup ks -> In a ks -> In b ks -> Permutation (map (transp a b) ks) ks.
Proof.
  intros Hn Ha Hb. apply NoDup_Permutation.
  - apply Injective_map_NoDup; [apply transp_inj|exact Hn].
  - exact Hn.
  - intros x. rewrite in_map_iff. split.
    + intros (y & E & Hy). subst x. unfold transp.
      destruct (y =? a); [exact Hb|]. destruct (y =? b); [exact Ha|exact Hy].
    + intros Hx. exists (transp a b x). split; [apply transp_invol|].
      unfold transp. destruct (x =? a); [exact Hb|]. destruct (x =? b); [exact Ha|exact Hx].
Qed.

(* the elements at keys 1..n *)
Definition elems (m : tmap) (n : nat) : list value := map m (zseq 1 n).

Lemma swap_perm m n i j : (i < n)%nat -> (j < n)%nat ->
  Permutation (elems (swapm m (key i) (key j)) n) (elems m n) /\
  forall k, (k < 1 \/ Z.of_nat n < k) -> swapm m (key i) (key j) k = m k.
Proof.
  intros Hi Hj. split.
  - unfold elems.
    rewrite (map_ext _ (fun k => m (transp (key i) (key j) k))) by (intros; apply swapm_transp).
    rewrite <- (map_map (transp (key i) (key j)) m).
    apply Permutation_map. apply transp_perm; [apply nodup_zseq| |]; rewrite in_zseq; unfold key; lia.
  - intros k Hk. rewrite swapm_transp. unfold transp, key.
    destruct (k =? Z.of_nat i + 1) eqn:E1; [apply Z.eqb_eq in E1; lia|].
    destruct (k =? Z.of_nat j + 1) eqn:E2; [apply Z.eqb_eq in E2; lia|]. reflexivity.
Qed.

Theorem strat_permutation n s : forall cmp c m,
  in_range n s ->
  Permutation (elems (fst (run_sort s cmp c m)) n) (elems m n) /\
  forall k, (k < 1 \/ Z.of_nat n < k) -> fst (run_sort s cmp c m) k = m k.
Proof.
  induction s as [|i j k IH|i j k IH]; intros cmp c m Hr; cbn [run_sort].
  - split; [apply Permutation_refl|reflexivity].
  - destruct Hr as (Hi & Hj & Hk).
    destruct (cmp c (m (key i)) (m (key j))) as [b|]; cbn [fst].
    + apply IH. apply Hk.
    + split; [apply Permutation_refl|reflexivity].
  - destruct Hr as (Hi & Hj & Hk).
    destruct (IH cmp c (swapm m (key i) (key j)) Hk) as [P U].
    destruct (swap_perm m n i j Hi Hj) as [P2 U2].
    split.
    + eapply Permutation_trans; [exact P|exact P2].
    + intros x Hx. rewrite U by exact Hx. apply U2. exact Hx.
Qed.

Section GoSort.
  (* Go's sort.Sort(data): for a given Len() it is some strategy … *)
  Variable algo : nat -> strat.
  (* … that calls Less and Swap only with indices below Len() *)
  Hypothesis algo_in_range : forall n, in_range n (algo n).

  (* sortf after its guards (0 < #t < 2^40) *)
  Definition sort_im (n : nat) (cmp : nat -> value -> value -> option bool) (m : tmap) : tmap * bool :=
    run_sort (algo n) cmp O m.

  Theorem sort_is_permutation n cmp m :
    Permutation (elems (fst (sort_im n cmp m)) n) (elems m n) /\
    forall k, (k < 1 \/ Z.of_nat n < k) -> fst (sort_im n cmp m) k = m k.
  Proof. apply strat_permutation. apply algo_in_range. Qed.
End GoSort.

(* the hypotheses are satisfiable by a real sorting procedure: one pass of
   compare-and-swap of neighbours (iterated n times this is bubble sort) *)
Fixpoint pass (i : nat) (k : strat) : strat :=
  match i with
  | O => k
  | S i' => SLess (S i') i' (fun b => if b then SSwap (S i') i' (pass i' k) else pass i' k)
  end.
Fixpoint bubble (rounds n : nat) : strat :=
  match rounds with O => SDone | S r => pass (Nat.pred n) (bubble r n) end.

Lemma pass_in_range n i k : (i < n)%nat -> in_range n k -> in_range n (pass i k).
Proof.
  induction i; intros Hi Hk; cbn [pass]; [exact Hk|].
  cbn [in_range]. split; [lia|]. split; [lia|].
  intros [|]; [cbn [in_range]; split; [lia|]; split; [lia|]|]; apply IHi; (lia || exact Hk).
Qed.

Lemma bubble_in_range r n : in_range n (bubble r n).
Proof.
  induction r; cbn [bubble]; [exact I|].
  destruct n; [exact IHr|]. apply pass_in_range; [cbn; lia|exact IHr].
Qed.

Example sort_hypotheses_satisfiable :
  exists algo, (forall n, in_range n (algo n)) /\
    fst (run_sort (algo 3%nat) (fun _ x y => match x, y with VInt a, VInt b => Some (a <? b) | _, _ => None end) O
           (fun k => if k =? 1 then VInt 3 else if k =? 2 then VInt 1 else if k =? 3 then VInt 2 else VNil)) 1 = VInt 1.
Proof.
  exists (fun n => bubble n n). split; [intros; apply bubble_in_range|reflexivity].
Qed.
