(* StrLib/Tab.v — implementation model (IM) of golua's table library
   (insert remove move concat unpack pack), /repo/lib/tablelib/tablelib.go.
   Executable definitions only; proofs are in TabProofs.v.

   The functions never touch a table directly: they call rt.IntLen, rt.Index
   and rt.SetIndex (which go through __len/__index/__newindex).  The model
   makes that explicit: a library function is a *program* over the three
   operations Len/Get/Set (a free monad); it cannot observe anything else of
   the table, so metatable proxies are covered by construction.  [run]
   interprets a program over tables abstracted as total maps Z -> value with a
   reported length, logs every operation and can inject an error at the n-th
   Get/Set (a metamethod that raises).

   int64 arithmetic is explicit ([wrap]). *)
From Coq Require Import ZArith List Bool.
From GV Require Import StrLib.Str.
Import ListNotations.
Open Scope Z_scope.

Inductive value :=
| VNil
| VBool (b : bool)
| VInt (z : Z)
| VStr (s : bytes).

Inductive tid := T1 | T2.
Definition tid_eqb (a b : tid) : bool :=
  match a, b with T1, T1 => true | T2, T2 => true | _, _ => false end.

Inductive terr :=
| TERange2                (* "#2 out of range" *)
| TETooLarge              (* "interval too large" *)
| TEWrap                  (* "destination would wrap around" *)
| TEWrapPos               (* "position would wrap around" (insert when #t = maxinteger) *)
| TETooMany               (* "too many values to unpack" *)
| TEInvalid (idx : Z)     (* "invalid value (…) at index idx in table for 'concat'" *)
| TEInjected.             (* an error raised by a metamethod *)

Inductive prog (A : Type) :=
| Ret (a : A)
| Fail (e : terr)
| OutOfFuel                                        (* model artefact: not enough fuel given *)
| PLen (t : tid) (cont : Z -> prog A)               (* rt.IntLen *)
| PGet (t : tid) (k : Z) (cont : value -> prog A)   (* rt.Index(t, IntValue(k)) *)
| PSet (t : tid) (k : Z) (v : value) (cont : prog A). (* rt.SetIndex *)
Arguments Ret {A} a.
Arguments Fail {A} e.
Arguments OutOfFuel {A}.
Arguments PLen {A} t cont.
Arguments PGet {A} t k cont.
Arguments PSet {A} t k v cont.

Fixpoint pbind {A B} (p : prog A) (f : A -> prog B) : prog B :=
  match p with
  | Ret a => f a
  | Fail e => Fail e
  | OutOfFuel => OutOfFuel
  | PLen t c => PLen t (fun x => pbind (c x) f)
  | PGet t k c => PGet t k (fun x => pbind (c x) f)
  | PSet t k v c => PSet t k v (pbind c f)
  end.

(* ---------------------------------------------------------------- insert *)
(*  for pos <= tblLen { old = t[pos]; t[pos] = val; val = old; pos++ } ; t[pos] = val *)
Fixpoint insert_loop (n : nat) (pos : Z) (val : value) : prog unit :=
  match n with
  | O => PSet T1 pos val (Ret tt)
  | S n' => PGet T1 pos (fun old => PSet T1 pos val (insert_loop n' (wrap (pos + 1)) old))
  end.

Definition insert_im (pos : option Z) (v : value) : prog unit :=
  PLen T1 (fun L =>
    if L =? maxint then Fail TEWrapPos else      (* #t + 1 is not an integer *)
    match pos with
    | Some p =>
      if (p <=? 0) || (p >? wrap (L + 1)) then Fail TERange2
      else insert_loop (Z.to_nat (L - p + 1)) p v
    | None => insert_loop O (wrap (L + 1)) v
    end).

(* ---------------------------------------------------------------- remove *)
(*  for pos <= tblLen { val = t[tblLen]; t[tblLen] = newVal; tblLen--; newVal = val } *)
Fixpoint remove_loop (n : nat) (tl : Z) (newVal val : value) : prog value :=
  match n with
  | O => Ret val
  | S n' => PGet T1 tl (fun v => PSet T1 tl newVal (remove_loop n' (wrap (tl - 1)) v v))
  end.

Definition remove_im (pos : option Z) : prog value :=
  PLen T1 (fun L =>
    let pos := match pos with Some p => p | None => L end in
    if (pos =? L) || ((L <? maxint) && (pos =? wrap (L + 1))) then
      PGet T1 pos (fun v => PSet T1 pos VNil (Ret v))
    else if (pos <=? 0) || (pos >? L) then Fail TERange2
    else remove_loop (Z.to_nat (L - pos + 1)) L VNil VNil).

(* ------------------------------------------------------------------ move *)
Fixpoint move_desc (n : nat) (srcEnd dst : Z) (d : tid) : prog unit :=
  match n with
  | O => Ret tt
  | S n' => PGet T1 srcEnd (fun v => PSet d dst v (move_desc n' (wrap (srcEnd - 1)) (wrap (dst - 1)) d))
  end.
Fixpoint move_asc (n : nat) (srcStart dst : Z) (d : tid) : prog unit :=
  match n with
  | O => Ret tt
  | S n' => PGet T1 srcStart (fun v => PSet d dst v (move_asc n' (wrap (srcStart + 1)) (wrap (dst + 1)) d))
  end.

(* table.move(a1, f, e, t [, a2]); d = T1 when a2 is absent or the same value as a1 *)
Definition move_im (f e t : Z) (d : tid) : prog unit :=
  if f >? e then Ret tt
  else if (f <=? 0) && (wrap (f + maxint) <=? e) then Fail TETooLarge
  else if t >=? f then
    let offset := wrap (e - f) in
    if t >? wrap (maxint - offset) then Fail TEWrap
    else move_desc (Z.to_nat (e - f + 1)) e (wrap (t + offset)) d
  else move_asc (Z.to_nat (e - f + 1)) f t d.

(* ---------------------------------------------------------------- unpack *)
Fixpoint unpack_loop (n : nat) (i : Z) : prog (list value) :=
  match n with
  | O => Ret []
  | S n' => PGet T1 i (fun v => pbind (unpack_loop n' (wrap (i + 1))) (fun l => Ret (v :: l)))
  end.

Definition maxUnpackSize : Z := 256.

Definition unpack_im (i : option Z) (j : option Z) : prog (list value) :=
  let i := match i with Some i => i | None => 1 end in
  let k := fun j : Z =>
    (* i <= j && uint64(j)-uint64(i) >= maxUnpackSize : j - i + 1 values, counted without overflow *)
    if (i <=? j) && (maxUnpackSize <=? (j - i) mod 2^64) then Fail TETooMany
    else unpack_loop (Z.to_nat (j - i + 1)) i in
  match j with Some j => k j | None => PLen T1 k end.

(* ---------------------------------------------------------------- concat *)
(* Value.ToString: strings and numbers (integers here) *)
Definition digit (d : Z) : Z := 48 + d.
Fixpoint dec_digits (fuel : nat) (n : Z) (acc : bytes) : bytes :=
  match fuel with
  | O => acc
  | S f => if n <? 10 then digit n :: acc else dec_digits f (n / 10) (digit (n mod 10) :: acc)
  end.
Definition int_to_dec (z : Z) : bytes :=
  if z <? 0 then 45 :: dec_digits 20 (- z) [] else dec_digits 20 z [].

Definition tostr (v : value) : option bytes :=
  match v with
  | VStr s => Some s
  | VInt z => Some (int_to_dec z)
  | _ => None
  end.

(* The loop is written with its own exit tests and explicit fuel (the range
   i..j may span the whole of int64 while the loop stops at the first element
   that is not a string or number):
     for { if i == MaxInt64 {break}; i++; if i > j {break}; …item i… } *)
Fixpoint concat_loop (fuel : nat) (i j : Z) (sep acc : bytes) : prog bytes :=
  match fuel with
  | O => OutOfFuel
  | S f =>
    if i =? maxint then Ret acc else
    let i := wrap (i + 1) in
    if i >? j then Ret acc else
    PGet T1 i (fun item =>
      match tostr item with
      | None => Fail (TEInvalid i)
      | Some s => concat_loop f i j sep (acc ++ sep ++ s)
      end)
  end.

Definition concat_im (fuel : nat) (sep : option bytes) (i j : option Z) : prog bytes :=
  PLen T1 (fun L =>
    let j := match j with Some j => j | None => L end in
    let i := match i with Some i => i | None => 1 end in
    let sep := match sep with Some s => s | None => [] end in
    if i >? j then Ret [] else
    PGet T1 i (fun item =>
      match tostr item with
      | None => Fail (TEInvalid i)
      | Some s => concat_loop fuel i j sep s
      end)).

(* ------------------------------------------------------------------ pack *)
(* tbl := NewTable(); for i, v := range etc { tbl[i+1] = v }; tbl["n"] = len(etc).
   The fresh table is T1; the value stored under the key "n" is the result. *)
Fixpoint pack_loop (vs : list value) (i : Z) : prog Z :=
  match vs with
  | [] => Ret (i - 1)
  | v :: r => PSet T1 i v (pack_loop r (i + 1))
  end.
Definition pack_im (vs : list value) : prog Z := pack_loop vs 1.

(* ------------------------------------------------------- interpretation *)
Definition tmap := Z -> value.
Definition upd (m : tmap) (k : Z) (v : value) : tmap := fun x => if x =? k then v else m x.

Record tstate := { m1 : tmap; m2 : tmap; len1 : Z; len2 : Z }.
Definition tget (st : tstate) (t : tid) (k : Z) : value :=
  match t with T1 => m1 st k | T2 => m2 st k end.
Definition tset (st : tstate) (t : tid) (k : Z) (v : value) : tstate :=
  match t with
  | T1 => {| m1 := upd (m1 st) k v; m2 := m2 st; len1 := len1 st; len2 := len2 st |}
  | T2 => {| m1 := m1 st; m2 := upd (m2 st) k v; len1 := len1 st; len2 := len2 st |}
  end.
Definition tlen (st : tstate) (t : tid) : Z := match t with T1 => len1 st | T2 => len2 st end.

Inductive outcome (A : Type) :=
| ORet (a : A)
| OFail (e : terr)
| OOutOfFuel.
Arguments ORet {A} a.
Arguments OFail {A} e.
Arguments OOutOfFuel {A}.

(* plain run: no metamethod ever raises *)
Fixpoint run {A} (p : prog A) (st : tstate) : outcome A * tstate :=
  match p with
  | Ret a => (ORet a, st)
  | Fail e => (OFail e, st)
  | OutOfFuel => (OOutOfFuel, st)
  | PLen t c => run (c (tlen st t)) st
  | PGet t k c => run (c (tget st t k)) st
  | PSet t k v c => run c (tset st t k v)
  end.

(* logged run with an error injected at the inj-th Get/Set (0 = never);
   the log is in reverse order *)
Inductive event :=
| ELen (t : tid)
| EGet (t : tid) (k : Z)
| ESet (t : tid) (k : Z) (v : value).

Fixpoint run_log {A} (p : prog A) (st : tstate) (inj : nat) (log : list event)
  : outcome A * tstate * list event :=
  match p with
  | Ret a => (ORet a, st, log)
  | Fail e => (OFail e, st, log)
  | OutOfFuel => (OOutOfFuel, st, log)
  | PLen t c => run_log (c (tlen st t)) st inj (ELen t :: log)
  | PGet t k c =>
    match inj with
    | S O => (OFail TEInjected, st, EGet t k :: log)
    | _ => run_log (c (tget st t k)) st (Nat.pred inj) (EGet t k :: log)
    end
  | PSet t k v c =>
    match inj with
    | S O => (OFail TEInjected, st, ESet t k v :: log)
    | _ => run_log c (tset st t k v) (Nat.pred inj) (ESet t k v :: log)
    end
  end.

(* tables given by association lists (for the oracle) *)
Fixpoint assoc (l : list (Z * value)) (k : Z) : value :=
  match l with
  | [] => VNil
  | (k', v) :: r => if k =? k' then v else assoc r k
  end.
Definition mkstate (a1 a2 : list (Z * value)) (l1 l2 : Z) : tstate :=
  {| m1 := assoc a1; m2 := assoc a2; len1 := l1; len2 := l2 |}.
