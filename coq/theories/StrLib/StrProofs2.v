(* StrLib/StrProofs2.v — plain find, reverse, and no_panic for the string IM. *)
From Coq Require Import ZArith List Bool Lia.
From GV Require Import StrLib.Str StrLib.StrSpec StrLib.StrProofs.
Import ListNotations.
Open Scope Z_scope.

(* ------------------------------------------------------------------ *)
(* strings.Index (model) = leftmost occurrence                          *)

Lemma prefix_firstn p : forall tl, prefix_b p tl = bytes_eqb (firstn (length p) tl) p.
Proof.
  induction p as [|a p IH]; intros [|b tl]; cbn; try reflexivity.
  rewrite IH, Z.eqb_sym. reflexivity.
Qed.

Lemma prefix_len p : forall tl, prefix_b p tl = true -> (length p <= length tl)%nat.
Proof.
  induction p as [|a p IH]; intros [|b tl] H; cbn in *; try lia; try discriminate.
  apply andb_true_iff in H. destruct H as [_ H]. apply IH in H. lia.
Qed.

Lemma occurs_prefix s p pre tl : s = pre ++ tl -> occurs_at s p (len pre + 1) = prefix_b p tl.
Proof.
  intros ->. unfold occurs_at.
  replace (1 <=? len pre + 1) with true by (symmetry; apply Z.leb_le; unfold len; lia).
  replace (Z.to_nat (len pre + 1 - 1)) with (length pre) by (unfold len; lia).
  rewrite skipn_app, skipn_all, Nat.sub_diag. cbn [skipn app andb].
  symmetry. apply prefix_firstn.
Qed.

Lemma index_of_shift p : forall tl off,
  index_of tl p off = option_map (fun i => i + off) (index_of tl p 0).
Proof.
  induction tl as [|a t IH]; intros off; cbn [index_of].
  - destruct (prefix_b p []); reflexivity.
  - destruct (prefix_b p (a :: t)); [reflexivity|].
    rewrite (IH (off + 1)), (IH (0 + 1)).
    destruct (index_of t p 0); cbn; [f_equal; lia|reflexivity].
Qed.

Lemma index_of_bound p : forall tl i, index_of tl p 0 = Some i -> 0 <= i /\ i + len p <= len tl.
Proof.
  induction tl as [|a t IH]; intros i; cbn [index_of].
  - destruct (prefix_b p []) eqn:E; [|discriminate]. intros [= <-].
    apply prefix_len in E. unfold len. cbn in *. lia.
  - destruct (prefix_b p (a :: t)) eqn:E.
    + intros [= <-]. apply prefix_len in E. unfold len. cbn [length] in *. lia.
    + rewrite index_of_shift. destruct (index_of t p 0) as [i0|] eqn:E0; [|discriminate].
      cbn. intros [= <-]. destruct (IH i0 eq_refl). unfold len in *. cbn [length]. lia.
Qed.

Lemma index_of_find s p : forall tl pre, s = pre ++ tl ->
  find (occurs_at s p) (zseq (len pre + 1) (S (length tl)))
  = option_map (fun i => i + 1) (index_of tl p (len pre)).
Proof.
  induction tl as [|a t IH]; intros pre Hs.
  - cbn [zseq find index_of]. rewrite (occurs_prefix s p pre [] Hs).
    destruct (prefix_b p []); reflexivity.
  - cbn [length zseq find index_of]. rewrite (occurs_prefix s p pre (a :: t) Hs).
    destruct (prefix_b p (a :: t)); [reflexivity|].
    specialize (IH (pre ++ [a])). rewrite <- app_assoc in IH. specialize (IH Hs).
    replace (len (pre ++ [a])) with (len pre + 1) in IH
      by (unfold len; rewrite app_length; cbn; lia).
    exact IH.
Qed.

(* string.find(s, p, init, true) — and find with an empty pattern — returns
   the leftmost occurrence of p at or after the normalised init, for every
   string, pattern string and int64 init (or none); nil when init is beyond
   len+1 or there is no occurrence. *)
Theorem find_plain_correct s p init :
  str_ok s -> oin64 init -> find_plain_im s p init = Ok (find_spec s p init).
Proof.
  intros Hs Hi. unfold find_plain_im, find_spec.
  set (i := match init with Some i0 => i0 | None => 1 end).
  assert (Hi' : in64 i).
  { subst i. destruct init; [exact Hi|]. unfold in64, minint, maxint. lia. }
  rewrite (norm_pos_posrel s i Hs Hi').
  pose proof (len_nonneg s) as Hl. pose proof Hs as Hs'. unfold str_ok, maxint in Hs'.
  assert (Hp : - 2^63 + 1 <= posrel (len s) i <= 2^63 - 1).
  { unfold posrel. unfold in64, minint, maxint in Hi'. destruct (i <? 0) eqn:E; [apply Z.ltb_lt in E|apply Z.ltb_ge in E]; lia. }
  rewrite wrap_id by (unfold in64, minint, maxint; lia).
  set (pr := posrel (len s) i) in *.
  set (si := if pr - 1 <? 0 then 0 else pr - 1).
  assert (Esi : si = Z.max 1 pr - 1).
  { subst si. destruct (pr - 1 <? 0) eqn:E; [apply Z.ltb_lt in E|apply Z.ltb_ge in E]; lia. }
  replace (si <? 0) with false by (symmetry; apply Z.ltb_ge; lia). cbn [orb].
  rewrite !Z.gtb_ltb.
  destruct (len s <? si) eqn:E1.
  { apply Z.ltb_lt in E1. replace (len s + 1 <? Z.max 1 pr) with true by (symmetry; apply Z.ltb_lt; lia). reflexivity. }
  apply Z.ltb_ge in E1.
  replace (len s + 1 <? Z.max 1 pr) with false by (symmetry; apply Z.ltb_ge; lia).
  unfold slice.
  replace ((0 <=? si) && (si <=? len s) && (len s <=? len s)) with true
    by (symmetry; rewrite !andb_true_iff, !Z.leb_le; lia).
  cbn [bind].
  set (pre := firstn (Z.to_nat si) s). set (tl := skipn (Z.to_nat si) s).
  assert (Hst : s = pre ++ tl) by (symmetry; apply firstn_skipn).
  assert (Hpre : len pre = si).
  { subst pre. unfold len at 1. rewrite firstn_length_le by (unfold len in E1; lia). lia. }
  assert (Htl : Z.of_nat (length tl) = len s - si).
  { subst tl. rewrite skipn_length. unfold len in *. lia. }
  rewrite firstn_all2 by (fold tl; lia). fold tl.
  unfold zrange.
  replace (Z.to_nat (len s + 1 - Z.max 1 pr + 1)) with (S (length tl)) by lia.
  replace (Z.max 1 pr) with (len pre + 1) by lia.
  rewrite (index_of_find s p tl pre Hst), index_of_shift.
  unfold go_index.
  destruct (index_of tl p 0) as [i0|] eqn:E0; cbn [option_map].
  - destruct (index_of_bound p tl i0 E0) as [B1 B2].
    replace (i0 =? -1) with false by (symmetry; apply Z.eqb_neq; lia).
    assert (len tl = len s - si) by (unfold len at 1; exact Htl).
    pose proof (len_nonneg p) as Hlp.
    rewrite (wrap_id (si + i0)) by (unfold in64, minint, maxint; lia).
    rewrite !wrap_id by (unfold in64, minint, maxint; pose proof (len_nonneg p); lia).
    do 3 f_equal; lia.
  - reflexivity.
Qed.

(* ------------------------------------------------------------------ *)
(* string.reverse: the in-place swap loop is list reversal              *)

Lemma index_mid (u w : bytes) x : index (u ++ x :: w) (len u) = Ok x.
Proof.
  unfold index, len. rewrite app_length. cbn [length].
  replace ((0 <=? Z.of_nat (length u)) && (Z.of_nat (length u) <? Z.of_nat (length u + S (length w)))) with true
    by (symmetry; rewrite andb_true_iff, Z.leb_le, Z.ltb_lt; lia).
  rewrite Nat2Z.id, app_nth2, Nat.sub_diag by lia. reflexivity.
Qed.

Lemma upd_mid (u w : bytes) x v : upd (u ++ x :: w) (length u) v = u ++ v :: w.
Proof. induction u; cbn; congruence. Qed.

Lemma store_mid (u w : bytes) x v : store (u ++ x :: w) (len u) v = Ok (u ++ v :: w).
Proof.
  unfold store, len. rewrite app_length. cbn [length].
  replace ((0 <=? Z.of_nat (length u)) && (Z.of_nat (length u) <? Z.of_nat (length u + S (length w)))) with true
    by (symmetry; rewrite andb_true_iff, Z.leb_le, Z.ltb_lt; lia).
  rewrite Nat2Z.id, upd_mid. reflexivity.
Qed.

Ltac lnorm := repeat (progress (rewrite <- ?app_assoc; cbn [app])); reflexivity.

Lemma reverse_loop_mid : forall n (a mid c : bytes),
  n = ((length mid + 1) / 2)%nat -> length a = length c ->
  reverse_loop n (a ++ mid ++ c) (len (a ++ mid ++ c) - 1) (len a) = Ok (a ++ rev mid ++ c).
Proof.
  induction n; intros a mid c Hn Hac.
  - destruct mid as [|x [|y mid]]; [reflexivity| |]; cbn [length] in Hn.
    + cbv in Hn. discriminate.
    + exfalso. assert (1 <= (S (S (length mid)) + 1) / 2)%nat by (apply Nat.div_le_lower_bound; lia). lia.
  - destruct mid as [|x mid1].
    { cbv in Hn. discriminate. }
    destruct mid1 as [|x1 mid2].
    + (* one element in the middle: swapped with itself *)
      assert (n = O) by (cbn in Hn; lia). subst n.
      cbn [reverse_loop app rev].
      assert (El : len (a ++ [x] ++ c) - 1 - len a = len a).
      { unfold len. rewrite !app_length. cbn [length]. lia. }
      cbn [app] in *. rewrite El, index_mid. cbn [bind]. rewrite store_mid. cbn [bind].
      rewrite store_mid. reflexivity.
    + (* mid = x :: mid' ++ [y] *)
      destruct (exists_last (l := x1 :: mid2) ltac:(discriminate)) as (mid' & y & Em).
      rewrite Em in *. clear Em x1 mid2.
      assert (Hn' : n = ((length mid' + 1) / 2)%nat).
      { cbn [length] in Hn. rewrite app_length in Hn. cbn [length] in Hn.
        replace (S (length mid' + 1) + 1)%nat with (length mid' + 1 + 1 * 2)%nat in Hn by lia.
        rewrite Nat.div_add in Hn by lia. lia. }
      cbn [reverse_loop].
      set (sb := a ++ (x :: mid' ++ [y]) ++ c).
      assert (E1 : sb = (a ++ x :: mid') ++ y :: c).
      { subst sb. lnorm. }
      assert (El : len sb - 1 - len a = len (a ++ x :: mid')).
      { subst sb. unfold len. rewrite !app_length. cbn [length]. rewrite !app_length. cbn [length]. lia. }
      rewrite El. rewrite E1 at 1. rewrite index_mid. cbn [bind].
      assert (E2 : sb = a ++ x :: (mid' ++ [y]) ++ c) by (subst sb; reflexivity).
      rewrite E2 at 1. rewrite index_mid. cbn [bind].
      rewrite E2 at 1. rewrite store_mid. cbn [bind].
      assert (E3 : a ++ y :: (mid' ++ [y]) ++ c = (a ++ y :: mid') ++ y :: c).
      { lnorm. }
      rewrite E3.
      replace (len (a ++ x :: mid')) with (len (a ++ y :: mid'))
        by (unfold len; rewrite !app_length; reflexivity).
      rewrite store_mid. cbn [bind].
      assert (E4 : (a ++ y :: mid') ++ x :: c = (a ++ [y]) ++ mid' ++ ([x] ++ c)).
      { lnorm. }
      rewrite E4.
      replace (len (a ++ y :: mid') + len a - len (a ++ y :: mid')) with (len a) by lia.
      replace (len sb - 1) with (len ((a ++ [y]) ++ mid' ++ [x] ++ c) - 1).
      2:{ subst sb. unfold len. rewrite !app_length. cbn [length]. rewrite !app_length. cbn [length]. lia. }
      replace (len a + 1) with (len (a ++ [y])) by (unfold len; rewrite app_length; cbn; lia).
      rewrite IHn; [|exact Hn'|rewrite !app_length; cbn; lia].
      f_equal. cbn [rev]. rewrite rev_app_distr. cbn [rev app]. lnorm.
Qed.

Theorem reverse_correct s : reverse_im s = Ok (reverse_spec s).
Proof.
  unfold reverse_im, reverse_spec.
  pose proof (reverse_loop_mid (Z.to_nat ((len s - 1) / 2 + 1)) [] s []) as H.
  cbn [app len length] in H. rewrite !app_nil_r in H.
  change (Z.of_nat 0) with 0 in H. apply H; [|reflexivity].
  assert (E : (len s - 1) / 2 + 1 = Z.of_nat ((length s + 1) / 2)).
  { rewrite Nat2Z.inj_div. unfold len. rewrite Nat2Z.inj_add. change (Z.of_nat 1) with 1. change (Z.of_nat 2) with 2.
    generalize (Z.of_nat (length s)). intros z. Z.div_mod_to_equations. lia. }
  rewrite E. apply Nat2Z.id.
Qed.

(* ------------------------------------------------------------------ *)
(* no Go run-time panic in any modelled string function, for all inputs *)

Theorem str_no_panic :
  forall s, str_ok s ->
  (forall i j, in64 i -> oin64 j -> sub_im s i j <> Panic) /\
  (forall i j, oin64 i -> oin64 j -> byte_im s i j <> Panic) /\
  (forall vals, char_im vals <> Panic) /\
  len_im s <> Panic /\ reverse_im s <> Panic /\ upper_im s <> Panic /\ lower_im s <> Panic /\
  (forall n sep, osep_ok sep -> in64 n -> rep_im s n sep <> Panic) /\
  (forall p init, oin64 init -> find_plain_im s p init <> Panic).
Proof.
  intros s Hs. repeat split; intros.
  - rewrite sub_correct by assumption. discriminate.
  - rewrite byte_correct by assumption. discriminate.
  - pose proof (char_correct vals) as C. destruct (char_spec vals); [rewrite C; discriminate|].
    destruct C as [n C]. rewrite C. discriminate.
  - discriminate.
  - rewrite reverse_correct. discriminate.
  - discriminate.
  - discriminate.
  - destruct (Z_lt_le_dec n 0) as [Hn|Hn].
    + unfold rep_im. replace (n <? 0) with true by (symmetry; apply Z.ltb_lt; lia). discriminate.
    + destruct (rep_correct_nonneg s n sep Hs H H0 Hn) as (A & B & C).
      destruct (Z_lt_le_dec (rep_len s n sep) (2^63)) as [L|L]; [|rewrite C by exact L; discriminate].
      destruct (Z_le_gt_dec (rep_len s n sep) maxRepSize) as [M|M]; [rewrite A by (right; exact M); discriminate|].
      destruct (Z_le_gt_dec 2 n) as [N|N]; [rewrite B by lia; discriminate|].
      destruct (Z.eq_dec n 1) as [->|N1]; [rewrite A by (left; reflexivity); discriminate|].
      assert (n = 0) by lia. subst n. vm_compute. discriminate.
  - rewrite find_plain_correct by assumption. discriminate.
Qed.
