(* Front/Token.v — tokens, operators and expression trees of the front-end
   model (C12).  Definitions only.

   Mirrors  /repo/token/token.go (token types; literal tokens carry an abstract
   payload: the index of the literal's decoded value — decoding itself is the
   subject of Front/Lex.v), /repo/ops/ops.go (operators and Precedence()) and
   the expression part of /repo/ast (after undoing NewBinOp's list merging,
   see Front/Parse.v [gexp]). *)
From Coq Require Import NArith List Bool Arith.
Import ListNotations.

(* ---------------------------------------------------------------- operators *)
Inductive binop :=
| OpOr | OpAnd
| OpLt | OpLeq | OpGt | OpGeq | OpEq | OpNeq
| OpBitOr | OpBitXor | OpBitAnd
| OpShiftL | OpShiftR
| OpConcat
| OpAdd | OpSub
| OpMul | OpDiv | OpFloorDiv | OpMod
| OpPow.

Inductive unop := OpNeg | OpNot | OpLen | OpBitNot.

(* ops.Op.Precedence(): the low byte of the constant *)
Definition prec (o : binop) : nat :=
  match o with
  | OpOr => 0 | OpAnd => 1
  | OpLt | OpLeq | OpGt | OpGeq | OpEq | OpNeq => 2
  | OpBitOr => 3 | OpBitXor => 4 | OpBitAnd => 5
  | OpShiftL | OpShiftR => 6
  | OpConcat => 7
  | OpAdd | OpSub => 8
  | OpMul | OpDiv | OpFloorDiv | OpMod => 9
  | OpPow => 11
  end.
Definition unop_prec : nat := 10.

Definition is_concat (o : binop) : bool := match o with OpConcat => true | _ => false end.

(* ------------------------------------------------------------------- tokens *)
Inductive token :=
(* literals and names; payload = index of the denoted value / identifier *)
| TNum (k : N) | TStr (k : N) | TLStr (k : N) | TName (k : N)
(* keywords *)
| TBreak | TGoto | TDo | TWhile | TEnd | TRepeat | TUntil | TThen | TElse | TElseIf
| TIf | TFor | TIn | TFunction | TLocal | TNot | TNil | TTrue | TFalse | TReturn
(* signs *)
| TEtc | TLBrack | TRBrack | TLParen | TRParen | TLBrace | TRBrace
| TSemi | TComma | TDot | TColon | TDColon | TAssign | THash
(* token.IsBinOp() range *)
| TMinus | TPlus | TStar | TSlash | TSlashSlash | TPct | TPipe | TTilde | TAmp | THat
| TShr | TShl | TEqEq | TNe | TLt | TLe | TGt | TGe | TConcat | TAnd | TOr.

(* parsing.binopMap restricted to token.IsBinOp() *)
Definition binop_of (t : token) : option binop :=
  match t with
  | TOr => Some OpOr | TAnd => Some OpAnd
  | TLt => Some OpLt | TLe => Some OpLeq | TGt => Some OpGt | TGe => Some OpGeq
  | TEqEq => Some OpEq | TNe => Some OpNeq
  | TPipe => Some OpBitOr | TTilde => Some OpBitXor | TAmp => Some OpBitAnd
  | TShl => Some OpShiftL | TShr => Some OpShiftR
  | TConcat => Some OpConcat
  | TPlus => Some OpAdd | TMinus => Some OpSub
  | TStar => Some OpMul | TSlash => Some OpDiv | TSlashSlash => Some OpFloorDiv | TPct => Some OpMod
  | THat => Some OpPow
  | _ => None
  end.

Definition tok_of_binop (o : binop) : token :=
  match o with
  | OpOr => TOr | OpAnd => TAnd
  | OpLt => TLt | OpLeq => TLe | OpGt => TGt | OpGeq => TGe | OpEq => TEqEq | OpNeq => TNe
  | OpBitOr => TPipe | OpBitXor => TTilde | OpBitAnd => TAmp
  | OpShiftL => TShl | OpShiftR => TShr
  | OpConcat => TConcat
  | OpAdd => TPlus | OpSub => TMinus
  | OpMul => TStar | OpDiv => TSlash | OpFloorDiv => TSlashSlash | OpMod => TPct
  | OpPow => THat
  end.

(* parsing.unopMap *)
Definition unop_of (t : token) : option unop :=
  match t with
  | TMinus => Some OpNeg | TNot => Some OpNot | THash => Some OpLen | TTilde => Some OpBitNot
  | _ => None
  end.

Definition tok_of_unop (o : unop) : token :=
  match o with OpNeg => TMinus | OpNot => TNot | OpLen => THash | OpBitNot => TTilde end.

(* ---------------------------------------------------------------- expressions
   One type serves as the parser's output (the Go AST) and as the printer's
   input.  Constructors marked "spelling" never occur in parser output; they
   are alternative spellings whose denotation [Print.norm] is another tree.

   Table fields are tuples (kind, key, value, sep): for [FPos] the key is
   ignored (ENil in parser output); [FName n] is the spelling  n = v  of
   ["n"] = v;  [sep] chooses ';' over ',' after the field (spelling). *)
Inductive fkind := FPos | FKey | FName (n : N).

Inductive exp :=
| ENil | ETrue | EFalse
| ENum (k : N)
| EStr (k : N)
| ELStr (k : N)                                   (* spelling: long bracket form *)
| EEtc
| EName (k : N)
| EIndex (e i : exp)
| EDot (e : exp) (k : N)                          (* spelling: e.name = e["name"] *)
| ECall (f : exp) (m : option N) (bare : bool) (args : list exp)
    (* bare (spelling): f{..} / f"s" without parentheses, when args is one table or string *)
| EParen (e : exp)                                (* explicit parentheses; kept by the parser only
                                                     around a call (ast.BFunctionCall) and around
                                                     '...' (ast.UnOp{OpId, Etc}) *)
| ETable (fs : list (fkind * exp * exp * bool)) (trail : bool)   (* trail (spelling): separator after last field *)
| EUn (o : unop) (e : exp)
| EBin (o : binop) (l r : exp).

Definition field := (fkind * exp * exp * bool)%type.

Definition is_call (e : exp) : bool := match e with ECall _ _ _ _ => true | _ => false end.

(* Lua 5.4 manual §3.4.12: function calls and '...' are the multi-valued
   expressions; enclosing one in parentheses adjusts it to one value, so for
   them (and only for them) parentheses are meaningful. *)
Definition multi_valued (e : exp) : bool :=
  match e with
  | ECall _ _ _ _ | EEtc => true
  | _ => false
  end.

(* Parser.PrefixExp after '(' exp:  switch e := exp.(type) { case ast.FunctionCall:
   exp = e.InBrackets(); case ast.Etc: exp = ast.NewUnOp(bktTok, ops.OpId, e) } —
   the parenthesised forms of the two multi-valued expressions are kept as nodes
   (both are dumped as (paren …) by the harness). *)
Definition in_brackets (e : exp) : exp :=
  match e with
  | ECall _ _ _ _ | EEtc => EParen e
  | _ => e
  end.

(* the "level" of an expression as a piece of concrete syntax: binary operators
   by precedence, unary 10, simple expressions 12, prefix expressions 13 *)
Definition level (e : exp) : nat :=
  match e with
  | EBin o _ _ => prec o
  | EUn _ _ => unop_prec
  | EName _ | EIndex _ _ | EDot _ _ | ECall _ _ _ _ | EParen _ => 13
  | _ => 12
  end.
