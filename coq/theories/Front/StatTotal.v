(* Front/StatTotal.v — the chunk parser at its concrete fuel: [parse_chunk]
   never answers OutOfFuel, and whatever it hands back (rest or error position)
   is a suffix of its input. *)
From Coq Require Import NArith List Bool Arith Lia.
From GV Require Import Front.Token Front.Parse Front.Mono Front.Total Front.Exact Front.ErrPos Front.Stat.
Import ListNotations.

Definition okc {A} (r : res (A * list token)) (ts : list token) : Prop := r <> OutOfFuel /\ oks r ts.
Definition okcs {A} (r : res (A * list token)) (ts : list token) : Prop :=
  okc r ts /\ forall x rest, r = Ok (x, rest) -> length rest < length ts.

Lemma sfx_len a b : sfx a b -> length a <= length b.
Proof. intros [p ->]. rewrite app_length. lia. Qed.

Lemma okc_weaken {A} (r : res (A * list token)) ts1 ts2 : okc r ts1 -> sfx ts1 ts2 -> okc r ts2.
Proof. intros [H1 H2] Hs. split; [exact H1|]. eapply oks_weaken; eauto. Qed.

(* ---- expression level at its concrete fuel *)
Lemma exp_at_okc ts : okc (exp_at ts) ts.
Proof.
  unfold exp_at, p_exp. split.
  - destruct (tot_all (fuel_for ts)) as (H & _). apply H. unfold fuel_for. lia.
  - destruct (allsfx_at (fuel_for ts)) as (H & _). apply H.
Qed.

Lemma explist_at_okc ts : okc (explist_at ts) ts.
Proof.
  unfold explist_at, p_explist. split.
  - destruct (tot_all (fuel_for ts)) as (_ & _ & _ & _ & _ & _ & H & _). apply H. unfold fuel_for. lia.
  - destruct (allsfx_at (fuel_for ts)) as (_ & _ & _ & _ & _ & _ & H & _). apply H.
Qed.

Lemma prefix_at_okc ts : okc (prefix_at ts) ts.
Proof.
  unfold prefix_at, p_prefix. split.
  - destruct (tot_all (fuel_for ts)) as (_ & _ & _ & H & _). apply H. unfold fuel_for. lia.
  - destruct (allsfx_at (fuel_for ts)) as (_ & _ & _ & H & _). apply H.
Qed.

(* a prefix expression consumes at least one token *)
Lemma prefix_at_strict ts x rest : prefix_at ts = Ok (x, rest) -> length rest < length ts.
Proof.
  unfold prefix_at, p_prefix, fuel_for. replace (8 * length ts + 8) with (S (8 * length ts + 7)) by lia.
  cbn [parsers_at step r_prefix]. set (m := 8 * length ts + 7).
  destruct (tot_all m) as (He & _ & _ & _ & Hs & _).
  unfold s_prefix. destruct ts as [|t ts']; [discriminate|].
  destruct t; try discriminate.
  - (* name *) intros H. assert (K := Hs (EName k) ts' ltac:(unfold m; simpl; lia)). destruct K as [_ K].
    specialize (K _ _ H). simpl. lia.
  - (* ( *) intros H. assert (K := He ts' ltac:(unfold m; simpl; lia)).
    destruct (r_exp (parsers_at m) ts') as [[e r]| | |]; cbn [bind fst snd] in H; try discriminate H.
    destruct K as [_ K]. specialize (K _ _ eq_refl).
    destruct r as [|t2 r2]; [discriminate H|]. destruct t2; try discriminate H.
    assert (K2 := Hs (in_brackets e) r2 ltac:(unfold m; simpl in *; lia)). destruct K2 as [_ K2].
    specialize (K2 _ _ H). simpl in *. lia.
Qed.

(* ---- automation *)
Ltac lensat :=
  repeat match goal with
  | K : sfx ?a ?b |- _ =>
    lazymatch goal with
    | _ : length a <= length b |- _ => fail
    | _ => pose proof (sfx_len a b K)
    end
  end.

Ltac leafc :=
  solve [ split; [discriminate|];
          split; [ let HH := fresh in intros ? ? HH; try discriminate HH; injection HH as <- <-
                 | let HH := fresh in intros ? HH; try discriminate HH; injection HH as <- ];
          sat; eauto 8 with sfx ].

Ltac leafcs :=
  solve [ split; [leafc|];
          let HH := fresh in intros ? ? HH; try discriminate HH; injection HH as <- <-;
          sat; lensat; simpl length in *; lia ].

Ltac use_okc r K :=
  let E := fresh "E" in
  destruct r as [[? ?]|?| |] eqn:E; cbn [bind fst snd];
  [ destruct K as [_ [K _]]; specialize (K _ _ eq_refl)
  | destruct K as [_ [_ K]]; specialize (K _ eq_refl)
  | clear K
  | destruct K as [K _]; congruence ].

Ltac split_scrutc :=
  match goal with
  | |- okc (match ?x with _ => _ end) _ => destruct x
  | |- okc (if ?c then _ else _) _ => destruct c
  | |- okcs (match ?x with _ => _ end) _ => destruct x
  | |- okcs (if ?c then _ else _) _ => destruct c
  end.

(* ---- the token-list helpers *)
Ltac call_ih :=
  match goal with
  | I : forall ts', length ts' <= _ -> okc (?f ts') ts' |- context [bind (?f ?ts) _] =>
    let K := fresh "K" in
    assert (K : okc (f ts) ts) by (apply I; simpl length in *; lia);
    use_okc (f ts) K
  end.

Lemma more_names_okc : forall ts, okc (more_names ts) ts.
Proof.
  assert (H : forall n ts, length ts <= n -> okc (more_names ts) ts).
  { induction n; intros ts Hl.
    - destruct ts; [leafc|simpl in Hl; lia].
    - destruct ts as [|t ts]; [leafc|]. destruct t; try leafc.
      cbn [more_names]. destruct ts as [|t2 ts2]; [leafc|]. destruct t2; try leafc.
      repeat first [leafc | call_ih | split_scrutc]. }
  intros ts. apply (H (length ts)). lia.
Qed.

Lemma p_dotted_okc : forall ts, okc (p_dotted ts) ts.
Proof.
  assert (H : forall n ts, length ts <= n -> okc (p_dotted ts) ts).
  { induction n; intros ts Hl.
    - destruct ts; [leafc|simpl in Hl; lia].
    - destruct ts as [|t ts]; [leafc|]. destruct t; try leafc.
      cbn [p_dotted]. destruct ts as [|t2 ts2]; [leafc|]. destruct t2; try leafc.
      repeat first [leafc | call_ih | split_scrutc]. }
  intros ts. apply (H (length ts)). lia.
Qed.

Lemma p_params_okc : forall ts, okc (p_params ts) ts.
Proof.
  assert (H : forall n ts, length ts <= n -> okc (p_params ts) ts).
  { induction n; intros ts Hl.
    - destruct ts; [leafc|simpl in Hl; lia].
    - destruct ts as [|t ts]; [leafc|]. destruct t; try leafc.
      cbn [p_params]. destruct ts as [|t2 ts2]; [leafc|]. destruct t2; try leafc.
      repeat first [leafc | call_ih | split_scrutc]. }
  intros ts. apply (H (length ts)). lia.
Qed.

Lemma p_nameattrib_okc ts : okc (p_nameattrib ts) ts.
Proof.
  unfold p_nameattrib. destruct ts as [|t ts]; [leafc|]. destruct t; try leafc.
  destruct ts as [|t2 ts2]; [leafc|]. destruct t2; try leafc.
  destruct ts2 as [|t3 ts3]; [leafc|]. destruct t3; try leafc.
  destruct ((k0 =? CONST_ID)%N); [|destruct ((k0 =? CLOSE_ID)%N)]; cbv zeta;
    try leafc; (destruct ts3 as [|t4 ts4]; [leafc|]; destruct t4; leafc).
Qed.

(* a name with its attribute consumes at least one token *)
Lemma p_nameattrib_strict ts x rest : p_nameattrib ts = Ok (x, rest) -> length rest < length ts.
Proof.
  intros H. unfold p_nameattrib in H. destruct ts as [|t ts]; [discriminate H|].
  destruct t; try discriminate H. destruct ts as [|t2 ts2].
  - injection H; intros; subst; simpl; lia.
  - destruct t2; try (injection H; intros; subst; simpl; lia).
    destruct ts2 as [|t3 ts3]; [discriminate H|]. destruct t3; try discriminate H.
    destruct ((k0 =? CONST_ID)%N); [|destruct ((k0 =? CLOSE_ID)%N)]; cbv zeta in H; try discriminate H;
      (destruct ts3 as [|t4 ts4]; [discriminate H|]; destruct t4; try discriminate H;
       injection H; intros; subst; simpl; lia).
Qed.

Ltac by_ih := match goal with I : _ |- _ => apply I end; sat; lensat; simpl length in *; lia.

Ltac callc :=
  match goal with
  | |- context [bind (exp_at ?ts) _] =>
    let K := fresh "K" in pose proof (exp_at_okc ts) as K; use_okc (exp_at ts) K
  | |- context [bind (explist_at ?ts) _] =>
    let K := fresh "K" in pose proof (explist_at_okc ts) as K; use_okc (explist_at ts) K
  | |- context [bind (prefix_at ?ts) _] =>
    let K := fresh "K" in pose proof (prefix_at_okc ts) as K;
    let S := fresh "S" in pose proof (prefix_at_strict ts) as S;
    let E := fresh "E" in
    destruct (prefix_at ts) as [[? ?]|?| |] eqn:E; cbn [bind fst snd];
    [ specialize (S _ _ eq_refl); destruct K as [_ [K _]]; specialize (K _ _ eq_refl)
    | clear S; destruct K as [_ [_ K]]; specialize (K _ eq_refl)
    | clear S K
    | destruct K as [K _]; congruence ]
  | |- context [bind (more_names ?ts) _] =>
    let K := fresh "K" in pose proof (more_names_okc ts) as K; use_okc (more_names ts) K
  | |- context [bind (p_params ?ts) _] =>
    let K := fresh "K" in pose proof (p_params_okc ts) as K; use_okc (p_params ts) K
  | |- context [bind (p_dotted ?ts) _] =>
    let K := fresh "K" in pose proof (p_dotted_okc ts) as K; use_okc (p_dotted ts) K
  | |- context [bind (p_nameattrib ?ts) _] =>
    let K := fresh "K" in pose proof (p_nameattrib_okc ts) as K;
    let S := fresh "S" in pose proof (p_nameattrib_strict ts) as S;
    let E := fresh "E" in
    destruct (p_nameattrib ts) as [[? ?]|?| |] eqn:E; cbn [bind fst snd];
    [ specialize (S _ _ eq_refl); destruct K as [_ [K _]]; specialize (K _ _ eq_refl)
    | clear S; destruct K as [_ [_ K]]; specialize (K _ eq_refl)
    | clear S K
    | destruct K as [K _]; congruence ]
  | |- context [bind (more_attribs ?n ?ts) _] =>
    let K := fresh "K" in assert (K : okc (more_attribs n ts) ts) by by_ih; use_okc (more_attribs n ts) K
  | |- context [bind (more_vars ?n ?ts) _] =>
    let K := fresh "K" in assert (K : okc (more_vars n ts) ts) by by_ih; use_okc (more_vars n ts) K
  | |- context [bind (r_block ?P ?ts) _] =>
    let K := fresh "K" in assert (K : okc (r_block P ts) ts) by by_ih; use_okc (r_block P ts) K
  | |- context [bind (r_ifrest ?P ?ts) _] =>
    let K := fresh "K" in assert (K : okc (r_ifrest P ts) ts) by by_ih; use_okc (r_ifrest P ts) K
  | |- context [bind (r_stat ?P ?ts) _] =>
    let K := fresh "K" in assert (K : okcs (r_stat P ts) ts) by by_ih;
    let S := fresh "S" in destruct K as [K S];
    let E := fresh "E" in
    destruct (r_stat P ts) as [[? ?]|?| |] eqn:E; cbn [bind fst snd];
    [ specialize (S _ _ eq_refl); destruct K as [_ [K _]]; specialize (K _ _ eq_refl)
    | clear S; destruct K as [_ [_ K]]; specialize (K _ eq_refl)
    | clear S K
    | destruct K as [K _]; congruence ]
  end.

Ltac auto_c := repeat first [leafc | leafcs | callc | split_scrutc].

Lemma more_attribs_okc : forall n ts, length ts < n -> okc (more_attribs n ts) ts.
Proof.
  induction n; intros ts Hl; [lia|]. cbn [more_attribs].
  destruct ts as [|t ts]; [leafc|]. destruct t; try leafc. auto_c.
Qed.

Lemma more_vars_okc : forall n ts, length ts < n -> okc (more_vars n ts) ts.
Proof.
  induction n; intros ts Hl; [lia|]. cbn [more_vars].
  destruct ts as [|t ts]; [leafc|]. destruct t; try leafc. auto_c.
Qed.

Ltac callc2 :=
  match goal with
  | |- context [bind (more_attribs ?n ?ts) _] =>
    let K := fresh "K" in
    assert (K : okc (more_attribs n ts) ts) by (apply more_attribs_okc; sat; lensat; simpl length in *; lia);
    use_okc (more_attribs n ts) K
  | |- context [bind (more_vars ?n ?ts) _] =>
    let K := fresh "K" in
    assert (K : okc (more_vars n ts) ts) by (apply more_vars_okc; sat; lensat; simpl length in *; lia);
    use_okc (more_vars n ts) K
  end.

Ltac auto_c2 := repeat first [leafc | leafcs | callc2 | callc | split_scrutc].

(* ---- blocks, statements, if-chains *)
Definition tots (P : sparsers) (n : nat) : Prop :=
  (forall ts, 2 * length ts + 2 <= n -> okc (r_block P ts) ts) /\
  (forall ts, 2 * length ts + 1 <= n -> okcs (r_stat P ts) ts) /\
  (forall ts, 2 * length ts + 1 <= n -> okc (r_ifrest P ts) ts).

Lemma tots_S P n : tots P n -> tots (sstep P) (S n).
Proof.
  intros (Iblock & Istat & Iifrest).
  refine (conj _ (conj _ _)); cbn [sstep r_block r_stat r_ifrest].
  - (* block *) intros ts Hb. unfold s_block.
    assert (Hdef : okc (bind (r_stat P ts) (fun x =>
                      bind (r_block P (snd x)) (fun y => Ok (BCons (fst x) (fst y), snd y)))) ts) by auto_c2.
    destruct ts as [|t ts']; [leafc|]. destruct t; try exact Hdef; try leafc.
    (* return *) unfold s_return.
    assert (Hd2 : okc (bind (explist_at ts') (fun x =>
                      match snd x with
                      | TSemi :: r => Ok (BNil (Some (fst x)), r)
                      | r => Ok (BNil (Some (fst x)), r)
                      end)) (TReturn :: ts')) by auto_c2.
    destruct ts' as [|t2 ts2]; [leafc|]. destruct t2; try exact Hd2; leafc.
  - (* stat *) intros ts Hb. unfold s_stat, for_body, funcbody, block_end.
    assert (Hdef : okcs (bind (prefix_at ts) (fun x =>
              match fst x with
              | ECall _ _ _ _ => Ok (SCall (fst x), snd x)
              | EName _ | EIndex _ _ =>
                if bracketed ts (snd x) then Err (snd x) else
                bind (more_vars (S (length ts)) (snd x)) (fun vs =>
                  match snd vs with
                  | TAssign :: r2 => bind (explist_at r2) (fun es => Ok (SAssign (fst x :: fst vs) (fst es), snd es))
                  | r2 => Err r2
                  end)
              | _ => Err (snd x)
              end)) ts) by auto_c2.
    destruct ts as [|t ts']; [exact Hdef|]. destruct t; try exact Hdef.
    + (* break *) auto_c2.
    + (* goto *) auto_c2.
    + (* do *) auto_c2.
    + (* while *) auto_c2.
    + (* repeat *) auto_c2.
    + (* if *) auto_c2.
    + (* for *)
      destruct ts' as [|t2 ts2]; [leafcs|]. destruct t2; try leafcs.
      assert (Hd2 : okcs (bind (more_names ts2) (fun ns =>
                match snd ns with
                | TIn :: r2 =>
                  bind (explist_at r2) (fun es =>
                    match snd es with
                    | TDo :: r3 =>
                      bind (r_block P r3) (fun x => match snd x with
                                                    | TEnd :: r => Ok (SForIn (k :: fst ns) (fst es) (fst x), r)
                                                    | r => Err r end)
                    | r3 => Err r3
                    end)
                | r2 => Err r2
                end)) (TFor :: TName k :: ts2)) by auto_c2.
      destruct ts2 as [|t3 ts3]; [exact Hd2|]. destruct t3; try exact Hd2. auto_c2.
    + (* function *) auto_c2.
    + (* local *)
      assert (Hd2 : okcs (bind (p_nameattrib ts') (fun na =>
                bind (more_attribs (S (length ts')) (snd na)) (fun more =>
                  match snd more with
                  | TAssign :: r2 =>
                    bind (explist_at r2) (fun es => Ok (SLocal ((fst (fst na), snd (fst na)) :: fst more) (fst es), snd es))
                  | r2 => Ok (SLocal ((fst (fst na), snd (fst na)) :: fst more) [], r2)
                  end))) (TLocal :: ts')) by auto_c2.
      destruct ts' as [|t2 ts2]; [exact Hd2|]. destruct t2; try exact Hd2. auto_c2.
    + (* ; *) auto_c2.
    + (* :: *) auto_c2.
  - (* ifrest *) intros ts Hb. unfold s_ifrest, block_end. auto_c2.
Qed.

Lemma tots_all : forall n, tots (sparsers_at n) n.
Proof.
  induction n; [|simpl; apply tots_S; exact IHn].
  refine (conj _ (conj _ _)); intros; lia.
Qed.

(* the chunk parser never runs out of its fuel, on any token list *)
Theorem parse_chunk_total : forall ts, parse_chunk ts <> OutOfFuel.
Proof.
  intros ts. unfold parse_chunk, chunk_fuel.
  destruct (tots_all (2 * length ts + 4)) as (Hb & _). destruct (Hb ts ltac:(lia)) as [H1 _].
  destruct (r_block (sparsers_at (2 * length ts + 4)) ts) as [[b r]| | |]; cbn [bind fst snd]; try discriminate; try congruence.
  destruct r; discriminate.
Qed.

(* a syntax error in a chunk is reported at a token of the chunk (or its end) *)
Theorem chunk_first_error_token : forall ts rest, parse_chunk ts = Err rest -> exists pre, ts = pre ++ rest.
Proof.
  intros ts rest H. unfold parse_chunk, chunk_fuel in H.
  destruct (tots_all (2 * length ts + 4)) as (Hb & _). destruct (Hb ts ltac:(lia)) as [_ [H1 H2]].
  destruct (r_block (sparsers_at (2 * length ts + 4)) ts) as [[b r]|r| |]; cbn [bind fst snd] in H; try discriminate H.
  - destruct r as [|t r]; [discriminate H|]. injection H as <-. apply (H1 b _ eq_refl).
  - injection H as <-. apply (H2 _ eq_refl).
Qed.

