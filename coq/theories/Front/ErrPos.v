(* Front/ErrPos.v — error positions are positions of the input: whatever a
   parser function hands back (the rest after a successful parse, or the token
   list at which it reports an error) is a suffix of its input. *)
From Coq Require Import NArith List Bool Arith Lia.
From GV Require Import Front.Token Front.Parse.
Import ListNotations.

Definition sfx (r ts : list token) : Prop := exists pre, ts = pre ++ r.

Lemma sfx_refl ts : sfx ts ts.
Proof. exists []. reflexivity. Qed.
Lemma sfx_cons r t ts : sfx r ts -> sfx r (t :: ts).
Proof. intros [pre ->]. exists (t :: pre). reflexivity. Qed.
Lemma sfx_tail t r ts : sfx (t :: r) ts -> sfx r ts.
Proof. intros [pre ->]. exists (pre ++ [t]). rewrite <- app_assoc. reflexivity. Qed.
Lemma sfx_trans a b c : sfx a b -> sfx b c -> sfx a c.
Proof. intros [p ->] [q ->]. exists (q ++ p). rewrite app_assoc. reflexivity. Qed.
Global Hint Resolve sfx_refl sfx_cons : sfx.

Definition oks {A} (r : res (A * list token)) (ts : list token) : Prop :=
  (forall x rest, r = Ok (x, rest) -> sfx rest ts) /\ (forall rest, r = Err rest -> sfx rest ts).

Lemma oks_weaken {A} (r : res (A * list token)) ts1 ts2 : oks r ts1 -> sfx ts1 ts2 -> oks r ts2.
Proof. intros [H1 H2] Hs. split; intros; eapply sfx_trans; eauto. Qed.

Definition allsfx (P : parsers) : Prop :=
  (forall ts, oks (r_exp P ts) ts) /\
  (forall st l ts, oks (r_loop P st l ts) ts) /\
  (forall ts, oks (r_short P ts) ts) /\
  (forall ts, oks (r_prefix P ts) ts) /\
  (forall e ts, oks (r_suffix P e ts) ts) /\
  (forall ts, oks (r_args P ts) ts) /\
  (forall ts, oks (r_explist P ts) ts) /\
  (forall ts, oks (r_table P ts) ts) /\
  (forall ts, oks (r_fields P ts) ts) /\
  (forall ts, oks (r_field P ts) ts).

(* saturate the context with the consequences of the suffix facts *)
Ltac sat :=
  repeat match goal with
  | K : sfx (?t :: ?r) ?ts |- _ =>
    lazymatch goal with
    | _ : sfx r ts |- _ => fail
    | _ => pose proof (sfx_tail t r ts K)
    end
  | K1 : sfx ?a ?b, K2 : sfx ?b ?c |- _ =>
    lazymatch goal with
    | _ : sfx a c |- _ => fail
    | _ => pose proof (sfx_trans a b c K1 K2)
    end
  end.

Ltac leaf :=
  solve [ split; [ let HH := fresh in intros ? ? HH; try discriminate HH; injection HH as <- <-
                 | let HH := fresh in intros ? HH; try discriminate HH; injection HH as <- ];
          sat; eauto 8 with sfx ].

Ltac call :=
  match goal with
  | |- context [bind (?f ?P ?ts) _] =>
    let K := fresh "K" in
    assert (K : oks (f P ts) ts) by (match goal with I : _ |- _ => apply I end);
    let E := fresh "E" in
    destruct (f P ts) as [[? ?]| ? | |] eqn:E; cbn [bind fst snd];
    [ let K2 := fresh "K" in destruct K as [K K2]; specialize (K _ _ eq_refl); clear K2
    | let K2 := fresh "K" in destruct K as [K2 K]; specialize (K _ eq_refl); clear K2; try leaf
    | try leaf | try leaf ]
  end.

Ltac split_scrut :=
  match goal with
  | |- oks (match ?x with _ => _ end) _ => destruct x
  | |- oks (if ?c then _ else _) _ => destruct c
  end.

Ltac tail :=
  eapply oks_weaken; [ match goal with I : _ |- _ => apply I end | sat; eauto 8 with sfx ].

Ltac auto_sfx := repeat first [leaf | call | split_scrut | tail].

Lemma sfx_step P : allsfx P -> allsfx (step P).
Proof.
  intros (Iexp & Iloop & Ishort & Iprefix & Isuffix & Iargs & Iexplist & Itable & Ifields & Ifield).
  refine (conj _ (conj _ (conj _ (conj _ (conj _ (conj _ (conj _ (conj _ (conj _ _)))))))));
    cbn [step r_exp r_loop r_short r_prefix r_suffix r_args r_explist r_table r_fields r_field].
  - intros ts. unfold s_exp. auto_sfx.
  - intros st l ts. unfold s_loop. cbv zeta. auto_sfx.
  - intros ts. unfold s_short.
    assert (K1 : oks (s_short1 P ts) ts) by (unfold s_short1; auto_sfx).
    unfold s_pow_tail. destruct (s_short1 P ts) as [[e ts1]| | |] eqn:E1; try exact K1.
    destruct K1 as [K1 _]. specialize (K1 _ _ eq_refl).
    destruct ts1 as [|t ts1]; [leaf|]. destruct t; try leaf. auto_sfx.
  - intros ts. unfold s_prefix. auto_sfx.
  - intros e ts. unfold s_suffix.
    assert (Hdef : oks (bind (r_args P ts) (fun r =>
              match fst r with
              | Some args => r_suffix P (ECall e None false args) (snd r)
              | None => Ok (e, snd r)
              end)) ts) by auto_sfx.
    destruct ts as [|t ts']; [exact Hdef|]. destruct t; try exact Hdef; auto_sfx.
  - intros ts. unfold s_args. auto_sfx.
  - intros ts. unfold s_explist. auto_sfx.
  - intros ts. unfold s_table. auto_sfx.
  - intros ts. unfold s_fields. auto_sfx.
  - intros ts. unfold s_field.
    assert (Hdef : oks (bind (r_exp P ts) (fun r =>
              match snd r with
              | TAssign :: ts1 =>
                match field_named ts (fst r) with
                | Some k => bind (r_exp P ts1) (fun r2 => Ok ((FKey, EStr k, fst r2, false), snd r2))
                | None => Err (snd r)
                end
              | ts1 => Ok ((FPos, ENil, fst r, false), ts1)
              end)) ts).
    { call. destruct l as [|t l]; [leaf|]. destruct t; try leaf. destruct (field_named ts e); [auto_sfx|leaf]. }
    destruct ts as [|t ts']; [exact Hdef|]. destruct t; try exact Hdef. auto_sfx.
Qed.

Lemma allsfx_at : forall n, allsfx (parsers_at n).
Proof.
  induction n; [|simpl; apply sfx_step; exact IHn].
  refine (conj _ (conj _ (conj _ (conj _ (conj _ (conj _ (conj _ (conj _ (conj _ _)))))))));
    intros; split; intros; discriminate.
Qed.

(* a syntax error is reported at a position of the input: the offending token
   is one of the input's tokens (or its end), so the reported line is the line
   of that token *)
Theorem first_error_token : forall ts rest, parse ts = Err rest -> exists pre, ts = pre ++ rest.
Proof.
  intros ts rest H. unfold parse, parse_fuel, p_exp in H.
  destruct (allsfx_at (fuel_for ts)) as (He & _). destruct (He ts) as [H1 H2].
  destruct (r_exp (parsers_at (fuel_for ts)) ts) as [[e r]|r| |]; cbn [bind fst snd] in H; try discriminate H.
  - destruct r as [|t r]; [discriminate H|]. injection H as <-. apply (H1 e _ eq_refl).
  - injection H as <-. apply (H2 _ eq_refl).
Qed.
