(* Front/LexStr.v — denotation of string literals (Lua 5.4 manual §3.1), bytes
   as N.  Definitions only.

   [unescape body]  the bytes denoted by the body of a short string (between
                    the quotes, line ends already normalised to \n): every
                    escape \a \b \f \n \r \t \v \\ \" \' \<newline> \xXX \ddd
                    (<= 255) \z \u{XXX} (< 2^31, extended UTF-8); [None] for
                    a malformed or out-of-range escape.
                    (golua: ast.NewString = regexp replacement in
                    /repo/ast/string.go; compared by the correspondence check.)
   [quote s]        a spelling of s: printable ASCII except '"' and '\' as
                    itself, every other byte as \ddd with three digits.
   [long_denot lit] the bytes denoted by a long-bracket literal
                    [=*[ … ]=*]  (ast.NewLongString): contents between the
                    brackets, line ends normalised, first line end skipped. *)
From Coq Require Import NArith List Bool.
Import ListNotations.
Open Scope N_scope.

Definition is_digit (c : N) : bool := (48 <=? c) && (c <=? 57).
Definition hexval (c : N) : option N :=
  if (48 <=? c) && (c <=? 57) then Some (c - 48)
  else if (97 <=? c) && (c <=? 102) then Some (c - 87)
  else if (65 <=? c) && (c <=? 70) then Some (c - 55)
  else None.
Definition is_space (c : N) : bool :=
  (c =? 32) || ((9 <=? c) && (c <=? 13)).

(* Lua's extended UTF-8 (lobject.c luaO_utf8esc), code points below 2^31 *)
Definition utf8enc (c : N) : list N :=
  if c <? 128 then [c]
  else if c <? 2048 then [192 + c / 64; 128 + c mod 64]
  else if c <? 65536 then [224 + c / 4096; 128 + (c / 64) mod 64; 128 + c mod 64]
  else if c <? 2097152 then [240 + c / 262144; 128 + (c / 4096) mod 64; 128 + (c / 64) mod 64; 128 + c mod 64]
  else if c <? 67108864 then
    [248 + c / 16777216; 128 + (c / 262144) mod 64; 128 + (c / 4096) mod 64; 128 + (c / 64) mod 64; 128 + c mod 64]
  else
    [252 + c / 1073741824; 128 + (c / 16777216) mod 64; 128 + (c / 262144) mod 64; 128 + (c / 4096) mod 64;
     128 + (c / 64) mod 64; 128 + c mod 64].

Fixpoint skip_space (l : list N) : list N :=
  match l with
  | c :: r => if is_space c then skip_space r else l
  | [] => []
  end.

(* hex digits up to '}' : value and rest *)
Fixpoint hex_run (l : list N) (acc : N) (n : nat) : option (N * nat * list N) :=
  match l with
  | c :: r =>
    match hexval c with
    | Some v => hex_run r (acc * 16 + v) (S n)
    | None => Some (acc, n, l)
    end
  | [] => Some (acc, n, [])
  end.

Definition simple_escape (c : N) : option N :=
  if c =? 97 then Some 7 else if c =? 98 then Some 8 else if c =? 102 then Some 12
  else if c =? 110 then Some 10 else if c =? 114 then Some 13 else if c =? 116 then Some 9
  else if c =? 118 then Some 11 else if c =? 92 then Some 92 else if c =? 34 then Some 34
  else if c =? 39 then Some 39 else if c =? 10 then Some 10 else None.

Definition cons_opt (h : list N) (t : option (list N)) : option (list N) :=
  match t with Some l => Some (h ++ l) | None => None end.

Fixpoint unesc (fuel : nat) (l : list N) : option (list N) :=
  match fuel with
  | O => None
  | S fuel =>
    match l with
    | [] => Some []
    | c0 :: r =>
      if negb (c0 =? 92) then cons_opt [c0] (unesc fuel r) else
      match r with
      | [] => None
      | c :: r1 =>
        match simple_escape c with
        | Some b => cons_opt [b] (unesc fuel r1)
        | None =>
          if (c =? 120) || (c =? 88) then            (* \xXX *)
            match r1 with
            | h1 :: h2 :: r2 =>
              match hexval h1, hexval h2 with
              | Some a, Some b => cons_opt [a * 16 + b] (unesc fuel r2)
              | _, _ => None
              end
            | _ => None
            end
          else if c =? 122 then unesc fuel (skip_space r1)   (* \z *)
          else if (c =? 117) || (c =? 85) then        (* \u{XXX} *)
            match r1 with
            | ob :: r2 =>
              if negb (ob =? 123) then None else
              match hex_run r2 0 0 with
              | Some (v, n, cb :: r3) =>
                if (cb =? 125) && (0 <? N.of_nat n) && (v <? 2147483648)
                then cons_opt (utf8enc v) (unesc fuel r3) else None
              | _ => None
              end
            | _ => None
            end
          else if is_digit c then                     (* \ddd *)
            match r1 with
            | d2 :: r2 =>
              if is_digit d2 then
                match r2 with
                | d3 :: r3 =>
                  if is_digit d3 then
                    let v := (c - 48) * 100 + (d2 - 48) * 10 + (d3 - 48) in
                    if v <=? 255 then cons_opt [v] (unesc fuel r3) else None
                  else cons_opt [(c - 48) * 10 + (d2 - 48)] (unesc fuel r2)
                | [] => cons_opt [(c - 48) * 10 + (d2 - 48)] (unesc fuel r2)
                end
              else cons_opt [c - 48] (unesc fuel r1)
            | [] => cons_opt [c - 48] (unesc fuel r1)
            end
          else None
        end
      end
    end
  end.

Definition unescape (l : list N) : option (list N) := unesc (S (length l)) l.

Definition plain_byte (b : N) : bool := (32 <=? b) && (b <? 127) && negb (b =? 34) && negb (b =? 92).

Definition quote_byte (b : N) : list N :=
  if plain_byte b then [b] else [92; 48 + b / 100; 48 + (b / 10) mod 10; 48 + b mod 10].

Fixpoint quote (s : list N) : list N :=
  match s with
  | [] => []
  | b :: r => quote_byte b ++ quote r
  end.

(* ------------------------------------------------------------ long brackets *)
(* luastrings.NormalizeNewLines: \r\n | \n\r | \r  ->  \n *)
Fixpoint normalize_nl (l : list N) : list N :=
  match l with
  | c :: r =>
    if c =? 13 then
      10 :: match r with c2 :: r' => if c2 =? 10 then normalize_nl r' else normalize_nl r | [] => [] end
    else if c =? 10 then
      10 :: match r with c2 :: r' => if c2 =? 13 then normalize_nl r' else normalize_nl r | [] => [] end
    else c :: normalize_nl r
  | [] => []
  end.

Definition skip_first_nl (l : list N) : list N := match l with 10 :: r => r | _ => l end.

Fixpoint count_eq (l : list N) : nat :=
  match l with 61 :: r => S (count_eq r) | _ => O end.

Definition long_open (level : nat) : list N := 91 :: repeat 61 level ++ [91].
Definition long_close (level : nat) : list N := 93 :: repeat 61 level ++ [93].

(* ast.NewLongString: idx := IndexByte(s[1:], '[') + 2; contents := s[idx : len(s)-idx];
   then the first newline is dropped (with the length guard of the repaired code) *)
Definition long_denot (lit : list N) : list N :=
  let idx := (count_eq (tl lit) + 2)%nat in
  let contents := firstn (length lit - idx - idx) (skipn idx lit) in
  skip_first_nl (normalize_nl contents).
