(* Front/Print.v — printers from expression trees to token lists and the
   denotation of spellings.  Definitions only.

   [print e]   prints the tree [e]: parentheses are inserted exactly where the
               grammar requires them (decided from the precedence table:
               [lmin]/[rmin]), explicit [EParen] nodes and the other spelling
               constructors (EDot, ELStr, bare call arguments, FName fields,
               ';' separators, trailing separator) are printed as they are.
   [norm e]    the tree the parser must return for [print e]: spellings are
               replaced by what they denote; explicit parentheses disappear
               except around the multi-valued expressions, a call or '...'
               (where they adjust to one value).
   [plain e]   e contains no spelling constructor and no parentheses except
               around calls; then [norm e = e] and [print e] is the printing
               with the minimal parentheses ("print_min"). *)
From Coq Require Import NArith List Bool Arith.
From GV Require Import Front.Token.
Import ListNotations.

(* minimal level of the left / right operand of a binary operator that can be
   written without parentheses: left-associative operators p / p+1,
   '..' (right-associative) 8 / 7, '^' 12 / 10 (the right operand of '^' is a
   ShortExp: unary operators and another '^' need no parentheses) *)
Definition lmin (o : binop) : nat :=
  match o with
  | OpConcat => 8
  | OpPow => 12
  | _ => prec o
  end.
Definition rmin (o : binop) : nat :=
  match o with
  | OpConcat => 7
  | OpPow => 10
  | _ => S (prec o)
  end.

Definition wrap (lvl : nat) (e : exp) (ts : list token) : list token :=
  if level e <? lvl then TLParen :: ts ++ [TRParen] else ts.

Definition sep_tok (semi : bool) : token := if semi then TSemi else TComma.

Definition bare_ok (args : list exp) : bool :=
  match args with
  | [ETable _ _] | [EStr _] | [ELStr _] => true
  | _ => false
  end.

Fixpoint raw (e : exp) : list token :=
  match e with
  | ENil => [TNil] | ETrue => [TTrue] | EFalse => [TFalse]
  | ENum k => [TNum k]
  | EStr k => [TStr k]
  | ELStr k => [TLStr k]
  | EEtc => [TEtc]
  | EName k => [TName k]
  | EIndex t i => wrap 13 t (raw t) ++ TLBrack :: raw i ++ [TRBrack]
  | EDot t k => wrap 13 t (raw t) ++ [TDot; TName k]
  | ECall f m bare args =>
    wrap 13 f (raw f)
    ++ match m with Some k => [TColon; TName k] | None => [] end
    ++ (if bare && bare_ok args
        then match args with a :: _ => raw a | [] => [] end
        else TLParen ::
             (fix go (l : list exp) : list token :=
                match l with
                | [] => []
                | [a] => raw a
                | a :: rest => raw a ++ TComma :: go rest
                end) args ++ [TRParen])
  | EParen x => TLParen :: raw x ++ [TRParen]
  | ETable fs trail =>
    TLBrace ::
    (fix go (l : list field) : list token :=
       match l with
       | [] => []
       | (k, key, v, semi) :: rest =>
         (match k with
          | FPos => raw v
          | FKey => TLBrack :: raw key ++ TRBrack :: TAssign :: raw v
          | FName n => TName n :: TAssign :: raw v
          end)
         ++ match rest with
            | [] => if trail then [sep_tok semi] else []
            | _ => sep_tok semi :: go rest
            end
       end) fs ++ [TRBrace]
  | EUn o x => tok_of_unop o :: wrap unop_prec x (raw x)
  | EBin o l r => wrap (lmin o) l (raw l) ++ tok_of_binop o :: wrap (rmin o) r (raw r)
  end.

Definition print (e : exp) : list token := raw e.

(* a comma-separated expression list (the inner loop of [raw] for call arguments) *)
Fixpoint raw_args (l : list exp) : list token :=
  match l with
  | [] => []
  | [a] => raw a
  | a :: rest => raw a ++ TComma :: raw_args rest
  end.

(* '...' as the head of a prefix expression is necessarily written (...), which
   the parser keeps as a node *)
Definition ntarget (t nt : exp) : exp := match t with EEtc => EParen EEtc | _ => nt end.
Definition is_etc (e : exp) : bool := match e with EEtc => true | _ => false end.

(* what the spellings denote = what the parser returns *)
Fixpoint norm (e : exp) : exp :=
  match e with
  | ELStr k => EStr k
  | EIndex t i => EIndex (ntarget t (norm t)) (norm i)
  | EDot t k => EIndex (ntarget t (norm t)) (EStr k)
  | ECall f m _ args => ECall (ntarget f (norm f)) m false (map norm args)
  | EParen x => in_brackets (norm x)
  | ETable fs _ =>
    ETable (map (fun f : field =>
                   match f with
                   | (FPos, _, v, _) => (FPos, ENil, norm v, false)
                   | (FKey, key, v, _) => (FKey, norm key, norm v, false)
                   | (FName n, _, v, _) => (FKey, EStr n, norm v, false)
                   end) fs) false
  | EUn o x => EUn o (norm x)
  | EBin o l r => EBin o (norm l) (norm r)
  | _ => e
  end.

(* trees without spelling constructors: the parser's range *)
Fixpoint plain (e : exp) : bool :=
  match e with
  | ELStr _ | EDot _ _ => false
  | EIndex t i => negb (is_etc t) && plain t && plain i
  | ECall f _ bare args => negb (is_etc f) && plain f && negb bare && forallb plain args
  | EParen x => multi_valued x && plain x
  | ETable fs trail =>
    negb trail &&
    forallb (fun f : field =>
               match f with
               | (FPos, ENil, v, false) => plain v
               | (FKey, key, v, false) => plain key && plain v
               | _ => false
               end) fs
  | EUn _ x => plain x
  | EBin _ l r => plain l && plain r
  | _ => true
  end.

Fixpoint size (e : exp) : nat :=
  match e with
  | EIndex t i => S (size t + size i)
  | EDot t _ => S (size t)
  | ECall f _ _ args => S (size f + (fix go (l : list exp) := match l with [] => 0 | a :: r => size a + go r end) args)
  | EParen x => S (size x)
  | ETable fs _ =>
    S ((fix go (l : list field) :=
          match l with
          | [] => 0
          | (_, key, v, _) :: r => S (size key + size v + go r)
          end) fs)
  | EUn _ x => S (size x)
  | EBin _ l r => S (size l + size r)
  | _ => 1
  end.
