(* Front/Proofs.v — basic facts about the front-end model: operator tables,
   the operator stack, NewBinOp's list merging. *)
From Coq Require Import NArith List Bool Arith Lia.
From GV Require Import Front.Token Front.Parse Front.Print.
Import ListNotations.

Lemma binop_of_tok_of : forall o, binop_of (tok_of_binop o) = Some o.
Proof. destruct o; reflexivity. Qed.

Lemma unop_of_tok_of : forall o, unop_of (tok_of_unop o) = Some o.
Proof. destruct o; reflexivity. Qed.

Lemma short_head_unop : forall o, short_head (tok_of_unop o) = HUn o.
Proof. destruct o; reflexivity. Qed.

(* '..' is the only operator of precedence 7 *)
Lemma prec7_concat : forall o, prec o = 7 -> o = OpConcat.
Proof. destruct o; simpl; intros; try discriminate; reflexivity. Qed.

Lemma prec_le_11 : forall o, prec o <= 11.
Proof. destruct o; simpl; lia. Qed.

Lemma prec_not_10 : forall o, prec o <> 10.
Proof. destruct o; simpl; lia. Qed.

(* ---------------- ast.NewBinOp: the merged list denotes the left-nested tree *)
Lemma unflatten_go_app : forall ops acc op r,
  (fix go (acc : exp) (ops : list (binop * gexp)) : exp :=
     match ops with
     | [] => acc
     | (op, r) :: rest => go (EBin op acc (unflatten r)) rest
     end) acc (ops ++ [(op, r)])
  = EBin op ((fix go (acc : exp) (ops : list (binop * gexp)) : exp :=
     match ops with
     | [] => acc
     | (op, r) :: rest => go (EBin op acc (unflatten r)) rest
     end) acc ops) (unflatten r).
Proof.
  induction ops as [|[o x] ops IH]; intros; simpl.
  - reflexivity.
  - apply IH.
Qed.

Theorem unflatten_new_binop : forall l op r,
  unflatten (new_binop l op r) = EBin op (unflatten l) (unflatten r).
Proof.
  intros l op r. destruct l as [e|l0 ty ops]; simpl.
  - reflexivity.
  - destruct (ty =? prec op); simpl.
    + apply unflatten_go_app.
    + reflexivity.
Qed.

(* ---------------- parentheses and multi-valued expressions (manual §3.4.12) *)
(* what the parser keeps of explicit parentheses *)
Theorem paren_kept_iff_multi : forall e, norm (EParen e) = in_brackets (norm e).
Proof. reflexivity. Qed.

(* parentheses around a single-valued expression are dropped (harmless) *)
Theorem paren_dropped_single_valued : forall e,
  multi_valued (norm e) = false -> norm (EParen e) = norm e.
Proof.
  intros e H. rewrite paren_kept_iff_multi. destruct (norm e); simpl in *; try reflexivity; discriminate.
Qed.

(* parentheses around a call are kept (ast.BFunctionCall) … *)
Theorem paren_kept_call : forall f m b args,
  norm (EParen (ECall f m b args)) = EParen (norm (ECall f m b args)).
Proof. reflexivity. Qed.

(* … and around '...' (ast.UnOp{OpId, Etc}, after the repair of PrefixExp) *)
Theorem paren_kept_etc : norm (EParen EEtc) = EParen EEtc.
Proof. reflexivity. Qed.

(* parentheses are dropped exactly around the single-valued expressions *)
Theorem paren_only_truncates_multivalue : forall e,
  norm (EParen e) = norm e <-> multi_valued (norm e) = false.
Proof.
  intros e. rewrite paren_kept_iff_multi. destruct (norm e); simpl; split; intros H;
    try reflexivity; try discriminate.
Qed.
