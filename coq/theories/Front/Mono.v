(* Front/Mono.v — more fuel never changes an answer: if a parser function
   answers something other than OutOfFuel with fuel n, it gives the same answer
   with any fuel m >= n. *)
From Coq Require Import NArith List Bool Arith Lia.
From GV Require Import Front.Token Front.Parse.
Import ListNotations.

Definition le_res {A} (a b : res A) : Prop := a = OutOfFuel \/ a = b.

Lemma le_res_refl {A} (a : res A) : le_res a a.
Proof. right. reflexivity. Qed.

Lemma le_res_trans {A} (a b c : res A) : le_res a b -> le_res b c -> le_res a c.
Proof. intros [->| ->] H; [left; reflexivity|exact H]. Qed.

Lemma le_bind {A B} (a b : res A) (k k' : A -> res B) :
  le_res a b -> (forall x, le_res (k x) (k' x)) -> le_res (bind a k) (bind b k').
Proof.
  intros [->| ->] Hk; [left; reflexivity|]. destruct b; simpl; auto using le_res_refl.
Qed.

Definition ple (P Q : parsers) : Prop :=
  (forall ts, le_res (r_exp P ts) (r_exp Q ts)) /\
  (forall st l ts, le_res (r_loop P st l ts) (r_loop Q st l ts)) /\
  (forall ts, le_res (r_short P ts) (r_short Q ts)) /\
  (forall ts, le_res (r_prefix P ts) (r_prefix Q ts)) /\
  (forall e ts, le_res (r_suffix P e ts) (r_suffix Q e ts)) /\
  (forall ts, le_res (r_args P ts) (r_args Q ts)) /\
  (forall ts, le_res (r_explist P ts) (r_explist Q ts)) /\
  (forall ts, le_res (r_table P ts) (r_table Q ts)) /\
  (forall ts, le_res (r_fields P ts) (r_fields Q ts)) /\
  (forall ts, le_res (r_field P ts) (r_field Q ts)).

Lemma ple_bottom Q : ple bottom Q.
Proof. repeat split; intros; left; reflexivity. Qed.

Ltac mono_step :=
  first
    [ apply le_res_refl
    | solve [auto]
    | apply le_bind; [solve [auto]|intros]
    | match goal with
      | |- le_res (match ?x with _ => _ end) (match ?x with _ => _ end) => destruct x
      | |- le_res (if ?c then _ else _) (if ?c then _ else _) => destruct c
      end ].

Lemma step_mono P Q : ple P Q -> ple (step P) (step Q).
Proof.
  intros (H1 & H2 & H3 & H4 & H5 & H6 & H7 & H8 & H9 & H10).
  repeat split; intros; cbn [step r_exp r_loop r_short r_prefix r_suffix r_args r_explist r_table r_fields r_field].
  - unfold s_exp. repeat mono_step.
  - unfold s_loop. repeat mono_step.
  - unfold s_short, s_short1.
    assert (HS : le_res (match ts with
                         | t :: ts' => match short_head t with
                                       | HAtom e => Ok (e, ts')
                                       | HTable => r_table P ts'
                                       | HFunction => Unsupported
                                       | HUn o => bind (r_short P ts') (fun r => Ok (EUn o (fst r), snd r))
                                       | HOther => r_prefix P ts
                                       end
                         | [] => r_prefix P ts end)
                        (match ts with
                         | t :: ts' => match short_head t with
                                       | HAtom e => Ok (e, ts')
                                       | HTable => r_table Q ts'
                                       | HFunction => Unsupported
                                       | HUn o => bind (r_short Q ts') (fun r => Ok (EUn o (fst r), snd r))
                                       | HOther => r_prefix Q ts
                                       end
                         | [] => r_prefix Q ts end)) by (repeat mono_step).
    destruct HS as [-> | ->]; [left; reflexivity|]. unfold s_pow_tail. repeat mono_step.
  - unfold s_prefix. repeat mono_step.
  - unfold s_suffix. repeat mono_step.
  - unfold s_args. repeat mono_step.
  - unfold s_explist. repeat mono_step.
  - unfold s_table. repeat mono_step.
  - unfold s_fields. repeat mono_step.
  - unfold s_field. repeat mono_step.
Qed.

Lemma ple_trans P Q R : ple P Q -> ple Q R -> ple P R.
Proof.
  intros (A1 & A2 & A3 & A4 & A5 & A6 & A7 & A8 & A9 & A10) (B1 & B2 & B3 & B4 & B5 & B6 & B7 & B8 & B9 & B10).
  repeat split; intros; eapply le_res_trans; eauto.
Qed.

Lemma ple_refl P : ple P P.
Proof. repeat split; intros; apply le_res_refl. Qed.

Lemma parsers_mono_S n : ple (parsers_at n) (parsers_at (S n)).
Proof. induction n; [apply ple_bottom|]. simpl. apply step_mono. exact IHn. Qed.

Lemma parsers_mono n m : n <= m -> ple (parsers_at n) (parsers_at m).
Proof.
  induction 1; [apply ple_refl|]. eapply ple_trans; [exact IHle|apply parsers_mono_S].
Qed.

Theorem p_exp_mono n m ts : n <= m -> le_res (p_exp n ts) (p_exp m ts).
Proof. intros H. apply (parsers_mono n m H). Qed.

Theorem parse_fuel_mono n m ts : n <= m -> le_res (parse_fuel n ts) (parse_fuel m ts).
Proof.
  intros H. unfold parse_fuel. apply le_bind; [apply p_exp_mono; exact H|intros; apply le_res_refl].
Qed.
