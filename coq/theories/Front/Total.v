(* Front/Total.v — the fuel [fuel_for ts = 8*|ts| + 8] is enough for every
   input: no parser function answers OutOfFuel when its fuel is at least
   8*|ts| + rank, and what it leaves over is never longer than its input. *)
From Coq Require Import NArith List Bool Arith Lia.
From GV Require Import Front.Token Front.Parse.
Import ListNotations.

Definition okr {A} (r : res (A * list token)) (ts : list token) : Prop :=
  r <> OutOfFuel /\ forall x rest, r = Ok (x, rest) -> length rest <= length ts.

Definition okra (r : res (option (list exp) * list token)) (ts : list token) : Prop :=
  okr r ts /\ forall a rest, r = Ok (Some a, rest) -> length rest < length ts.

Definition tot (P : parsers) (n : nat) : Prop :=
  (forall ts, 8 * length ts + 4 <= n -> okr (r_exp P ts) ts) /\
  (forall st l ts, 8 * length ts + 1 <= n -> okr (r_loop P st l ts) ts) /\
  (forall ts, 8 * length ts + 3 <= n -> okr (r_short P ts) ts) /\
  (forall ts, 8 * length ts + 2 <= n -> okr (r_prefix P ts) ts) /\
  (forall e ts, 8 * length ts + 7 <= n -> okr (r_suffix P e ts) ts) /\
  (forall ts, 8 * length ts + 6 <= n -> okra (r_args P ts) ts) /\
  (forall ts, 8 * length ts + 5 <= n -> okr (r_explist P ts) ts) /\
  (forall ts, 8 * length ts + 7 <= n -> okr (r_table P ts) ts) /\
  (forall ts, 8 * length ts + 6 <= n -> okr (r_fields P ts) ts) /\
  (forall ts, 8 * length ts + 5 <= n -> okr (r_field P ts) ts).

Ltac leaf :=
  solve [ split; [discriminate|];
          let HH := fresh in intros ? ? HH; try discriminate HH;
          injection HH as <- <-; simpl length in *; lia ].

(* destruct the result of the first sub-call in the goal, using its
   induction hypothesis (found by its shape) *)
Ltac call :=
  match goal with
  | |- context [bind (?f ?P ?ts) _] =>
    let K := fresh "K" in
    assert (K : okr (f P ts) ts)
      by (match goal with I : forall ts', _ -> okr (f P ts') ts' |- _ => apply I end; simpl length in *; lia);
    let E := fresh "E" in
    destruct (f P ts) as [[? ?]| | |] eqn:E; cbn [bind fst snd];
    [ destruct K as [_ K]; specialize (K _ _ eq_refl) | try leaf | try leaf | destruct K as [K _]; congruence ]
  end.

Ltac split_scrut :=
  match goal with
  | |- okr (match ?x with _ => _ end) _ => destruct x
  | |- okr (if ?c then _ else _) _ => destruct c
  end.

Lemma okr_weaken {A} (r : res (A * list token)) ts1 ts2 :
  okr r ts1 -> length ts1 <= length ts2 -> okr r ts2.
Proof. intros [H1 H2] Hl. split; [exact H1|]. intros x rest E. specialize (H2 x rest E). lia. Qed.

(* a call whose answer is returned as it is *)
Ltac tail :=
  eapply okr_weaken;
  [ match goal with I : _ |- _ => apply I; simpl length in *; lia end | simpl length in *; lia ].

Ltac auto_tot := repeat first [leaf | call | split_scrut | tail].

Lemma tot_S P n : tot P n -> tot (step P) (S n).
Proof.
  intros (Iexp & Iloop & Ishort & Iprefix & Isuffix & Iargs & Iexplist & Itable & Ifields & Ifield).
  assert (Iargs' : forall ts, 8 * length ts + 6 <= n -> okr (r_args P ts) ts) by (intros; apply Iargs; assumption).
  refine (conj _ (conj _ (conj _ (conj _ (conj _ (conj _ (conj _ (conj _ (conj _ _)))))))));
    cbn [step r_exp r_loop r_short r_prefix r_suffix r_args r_explist r_table r_fields r_field].
  - (* exp *) intros ts Hb. unfold s_exp. auto_tot.
  - (* loop *) intros st l ts Hb. unfold s_loop. cbv zeta. auto_tot.
  - (* short *) intros ts Hb. unfold s_short.
    assert (K1 : okr (s_short1 P ts) ts) by (unfold s_short1; auto_tot).
    unfold s_pow_tail. destruct (s_short1 P ts) as [[e ts1]| | |] eqn:E1; try exact K1.
    destruct K1 as [_ K1]. specialize (K1 _ _ eq_refl).
    destruct ts1 as [|t ts1]; [leaf|]. destruct t; try leaf. auto_tot.
  - (* prefix *) intros ts Hb. unfold s_prefix. auto_tot.
  - (* suffix *) intros e ts Hb. unfold s_suffix.
    destruct ts as [|t ts']; [|destruct t].
    all: try (match goal with |- okr (bind (r_args ?PP ?ts0) _) _ =>
               let KA := fresh "KA" in
               assert (KA : okra (r_args P ts0) ts0) by (apply Iargs; simpl length in *; lia);
               destruct (r_args P ts0) as [[[a|] rest]| | |] eqn:EA; cbn [bind fst snd];
               [ destruct KA as [_ KA]; specialize (KA _ _ eq_refl); tail
               | destruct KA as [[_ KA] _]; specialize (KA _ _ eq_refl); leaf
               | leaf | leaf | destruct KA as [[KA _] _]; congruence ] end).
    + (* [ *) auto_tot.
    + (* . *) auto_tot.
    + (* : *) destruct ts' as [|t2 ts2]; [leaf|]. destruct t2; try leaf.
      assert (KA : okra (r_args P ts2) ts2) by (apply Iargs; simpl length in *; lia).
      destruct (r_args P ts2) as [[[a|] rest]| | |] eqn:EA; cbn [bind fst snd].
      * destruct KA as [_ KA]. specialize (KA _ _ eq_refl). tail.
      * destruct KA as [[_ KA] _]. specialize (KA _ _ eq_refl). leaf.
      * leaf.
      * leaf.
      * destruct KA as [[KA _] _]. congruence.
  - (* args *) intros ts Hb. unfold s_args.
    assert (Hnone : okra (Ok (None, ts)) ts).
    { split; [leaf|]. intros a rest HH. discriminate HH. }
    destruct ts as [|t ts']; [exact Hnone|]. destruct t; try exact Hnone.
    + (* string *) split; [leaf|]. intros a rest HH. injection HH as <- <-. simpl. lia.
    + split; [leaf|]. intros a rest HH. injection HH as <- <-. simpl. lia.
    + (* ( *) destruct ts' as [|t2 ts2].
      * split; [auto_tot|]. cbn [bind]. intros a rest HH.
        assert (K : okr (r_explist P []) []) by (apply Iexplist; simpl; lia).
        destruct (r_explist P []) as [[l r]| | |]; cbn [bind fst snd] in HH; try discriminate HH.
        destruct K as [_ K]. specialize (K _ _ eq_refl). destruct r as [|t3 r]; [discriminate HH|simpl in K; lia].
      * assert (K : okr (r_explist P (t2 :: ts2)) (t2 :: ts2)) by (apply Iexplist; simpl length in *; lia).
        destruct t2; (split; [auto_tot|]); intros a rest HH; try (injection HH as <- <-; simpl; lia);
          (destruct (r_explist P _) as [[l r]| | |]; cbn [bind fst snd] in HH; try discriminate HH;
           destruct K as [_ K]; specialize (K _ _ eq_refl);
           destruct r as [|t3 r]; try discriminate HH; destruct t3; try discriminate HH;
           injection HH as <- <-; simpl length in *; lia).
    + (* { *) assert (K : okr (r_table P ts') ts') by (apply Itable; simpl length in *; lia).
      split; [auto_tot|]. intros a rest HH.
      destruct (r_table P ts') as [[e r]| | |]; cbn [bind fst snd] in HH; try discriminate HH.
      destruct K as [_ K]. specialize (K _ _ eq_refl). injection HH as <- <-. simpl. lia.
  - (* explist *) intros ts Hb. unfold s_explist. auto_tot.
  - (* table *) intros ts Hb. unfold s_table. auto_tot.
  - (* fields *) intros ts Hb. unfold s_fields. auto_tot.
  - (* field *) intros ts Hb. unfold s_field.
    assert (Hdef : okr (bind (r_exp P ts) (fun r =>
              match snd r with
              | TAssign :: ts1 =>
                match field_named ts (fst r) with
                | Some k => bind (r_exp P ts1) (fun r2 => Ok ((FKey, EStr k, fst r2, false), snd r2))
                | None => Err (snd r)
                end
              | ts1 => Ok ((FPos, ENil, fst r, false), ts1)
              end)) ts).
    { call. destruct l as [|t l]; [leaf|]. destruct t; try leaf. destruct (field_named ts e); [auto_tot|leaf]. }
    destruct ts as [|t ts']; [exact Hdef|]. destruct t; try exact Hdef. auto_tot.
Qed.
