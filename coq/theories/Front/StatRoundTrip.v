(* Front/StatRoundTrip.v — parse_chunk (print_chunk b) = Ok b. *)
From Coq Require Import NArith List Bool Arith Lia.
From GV Require Import Front.Token Front.Parse Front.Print Front.Proofs Front.RoundTrip Front.RoundTripMain
  Front.Mono Front.Total Front.Exact Front.Stat Front.StatPrint.
Import ListNotations.

(* ------------------------------------------- expression level, concrete fuel *)
Lemma exact_gen {A} (F : nat -> res A) (R : res A) (B : nat) :
  evals F R -> F B <> OutOfFuel -> (forall n m, n <= m -> le_res (F n) (F m)) -> F B = R.
Proof.
  intros [f0 H] Hn Hm.
  destruct (Hm B (Nat.max f0 B) (Nat.le_max_r _ _)) as [E|E]; [contradiction|].
  rewrite E. apply H. apply Nat.le_max_l.
Qed.

Lemma exp_exact e rest : stop_exp rest -> exp_at (raw e ++ rest) = Ok (norm e, rest).
Proof.
  intros Hs. unfold exp_at.
  apply (exact_gen (fun f => p_exp f (raw e ++ rest))).
  - destruct (all_exp e) as (_ & _ & _ & _ & HE & _). apply HE. exact Hs.
  - destruct (tot_all (fuel_for (raw e ++ rest))) as (He & _). apply He. unfold fuel_for. lia.
  - intros n m H. apply p_exp_mono. exact H.
Qed.

Lemma exp_exact_plain e rest : plain e = true -> stop_exp rest -> exp_at (raw e ++ rest) = Ok (e, rest).
Proof. intros Hp Hs. rewrite exp_exact by exact Hs. rewrite norm_plain by exact Hp. reflexivity. Qed.

Lemma map_norm_plain es : forallb plain es = true -> map norm es = es.
Proof.
  intros H. apply map_fix. intros a Ha. apply norm_plain. rewrite forallb_forall in H. apply H. exact Ha.
Qed.

Lemma explist_exact es rest : es <> [] -> forallb plain es = true -> not_comma rest -> stop_exp rest ->
  explist_at (raw_args es ++ rest) = Ok (es, rest).
Proof.
  intros Hne Hp Hc Hs. unfold explist_at.
  replace (@Ok (list exp * list token) (es, rest)) with (@Ok (list exp * list token) (map norm es, rest))
    by (rewrite map_norm_plain by exact Hp; reflexivity).
  apply (exact_gen (fun f => p_explist f (raw_args es ++ rest))).
  - apply explist_ok; auto. intros a _. destruct (all_exp a) as (_ & _ & _ & _ & HE & _). exact HE.
  - destruct (tot_all (fuel_for (raw_args es ++ rest))) as (_ & _ & _ & _ & _ & _ & Hx & _).
    apply Hx. unfold fuel_for. lia.
  - intros n m H. apply (parsers_mono n m H).
Qed.

Lemma prefix_exact e rest : level e = 13 -> plain e = true -> nosuffix rest ->
  prefix_at (raw e ++ rest) = Ok (e, rest).
Proof.
  intros Hl Hp Hs. unfold prefix_at.
  replace (@Ok (exp * list token) (e, rest)) with (@Ok (exp * list token) (norm e, rest))
    by (rewrite norm_plain by exact Hp; reflexivity).
  apply (exact_gen (fun f => p_prefix f (raw e ++ rest))).
  - destruct (all_exp e) as (_ & _ & HP & _).
    change (raw e) with (wrap 0 e (raw e)). apply HP; [lia|exact Hl|].
    apply evals_S. apply evals_S. eapply evals_ext; [intro f; apply p_suffix_stop; exact Hs|]. apply evals_const.
  - destruct (tot_all (fuel_for (raw e ++ rest))) as (_ & _ & _ & Hx & _).
    apply Hx. unfold fuel_for. lia.
  - intros n m H. apply (parsers_mono n m H).
Qed.

(* ------------------------------------------------------------ follow sets *)
Definition follow_tok (t : token) : bool :=
  match t with
  | TSemi | TBreak | TGoto | TDo | TWhile | TRepeat | TIf | TFor | TFunction | TLocal | TDColon | TName _
  | TReturn | TEnd | TElse | TElseIf | TUntil => true
  | _ => false
  end.
Definition follow (ts : list token) : Prop := match ts with t :: _ => follow_tok t = true | [] => True end.
Definition block_stop (ts : list token) : Prop :=
  match ts with (TEnd | TElse | TElseIf | TUntil) :: _ | [] => True | _ => False end.

Lemma block_stop_follow ts : block_stop ts -> follow ts.
Proof. destruct ts as [|t r]; [auto|]. destruct t; simpl; auto; contradiction. Qed.

Lemma follow_stop_exp ts : follow ts -> stop_exp ts.
Proof. destruct ts as [|t r]; [split; reflexivity|]. destruct t; simpl; intros H; try discriminate H; split; reflexivity. Qed.

Lemma follow_not_comma ts : follow ts -> not_comma ts.
Proof. destruct ts as [|t r]; [exact (fun _ => I)|]. destruct t; simpl; intros H; try discriminate H; exact I. Qed.

Lemma follow_nosuffix ts : follow ts -> nosuffix ts.
Proof. intros H. apply (follow_stop_exp ts H). Qed.

(* ------------------------------------------------------------ small parsers *)
Lemma more_names_ok : forall r rest, not_comma rest ->
  more_names (flat_map (fun k' => [TComma; TName k']) r ++ rest) = Ok (r, rest).
Proof.
  induction r as [|k r IH]; intros rest Hc.
  - cbn [flat_map app]. destruct rest as [|t rr]; [reflexivity|]. destruct t; try reflexivity. contradiction.
  - cbn [flat_map app more_names]. rewrite IH by exact Hc. reflexivity.
Qed.

Lemma params_ok : forall ps dots rest,
  p_params (pr_plist ps dots ++ TRParen :: rest) = Ok (ps, dots, TRParen :: rest).
Proof.
  induction ps as [|k r IH]; intros dots rest.
  - destruct dots; reflexivity.
  - cbn [pr_plist]. destruct r as [|k2 r2].
    + destruct dots.
      * cbn [app p_params pr_plist]. reflexivity.
      * reflexivity.
    + change (TName k :: TComma :: pr_plist (k2 :: r2) dots) with ([TName k; TComma] ++ pr_plist (k2 :: r2) dots).
      rewrite <- app_assoc. cbn [app p_params]. rewrite IH. reflexivity.
Qed.

Definition not_dot (ts : list token) : Prop := match ts with TDot :: _ => False | _ => True end.

Lemma dotted_ok : forall ks rest, not_dot rest -> p_dotted (pr_dotted ks ++ rest) = Ok (ks, rest).
Proof.
  induction ks as [|k r IH]; intros rest Hd.
  - cbn. destruct rest as [|t rr]; [reflexivity|]. destruct t; try reflexivity. contradiction.
  - unfold pr_dotted in *. cbn [flat_map app p_dotted]. rewrite IH by exact Hd. reflexivity.
Qed.

Definition not_lt (ts : list token) : Prop := match ts with TLt :: _ => False | _ => True end.

Lemma nameattrib_ok k a rest : not_lt rest ->
  p_nameattrib (TName k :: pr_attrib a ++ rest) = Ok (k, a, rest).
Proof.
  intros H. destruct a; cbn.
  - destruct rest as [|t rr]; [reflexivity|]. destruct t; try reflexivity. contradiction.
  - reflexivity.
  - reflexivity.
Qed.

Lemma more_attribs_ok : forall r n rest, length r < n -> not_comma rest -> not_lt rest ->
  more_attribs n (flat_map (fun ka => TComma :: TName (fst ka) :: pr_attrib (snd ka)) r ++ rest) = Ok (r, rest).
Proof.
  induction r as [|[k a] r IH]; intros n rest Hn Hc Hl; (destruct n as [|n]; [simpl in Hn; lia|]).
  - cbn [flat_map app more_attribs]. destruct rest as [|t rr]; [reflexivity|]. destruct t; try reflexivity. contradiction.
  - cbn [flat_map fst snd]. cbn [app more_attribs]. rewrite <- app_assoc.
    rewrite nameattrib_ok.
    + cbn [bind fst snd]. rewrite IH; [reflexivity|simpl in Hn; lia|exact Hc|exact Hl].
    + destruct r as [|[k2 a2] r2]; cbn; [exact Hl|exact I].
Qed.

Lemma raw_args_cons v vs : raw_args (v :: vs) = raw v ++ flat_map (fun x => TComma :: raw x) vs.
Proof.
  revert v. induction vs as [|w vs IH]; intros v.
  - cbn. rewrite app_nil_r. reflexivity.
  - change (raw_args (v :: w :: vs)) with (raw v ++ TComma :: raw_args (w :: vs)). rewrite IH. reflexivity.
Qed.

Definition var_follow (ts : list token) : Prop :=
  match ts with (TAssign | TComma) :: _ => True | _ => False end.

Lemma var_follow_nosuffix ts : var_follow ts -> nosuffix ts.
Proof. destruct ts as [|t r]; [contradiction|]. destruct t; simpl; auto; contradiction. Qed.

Lemma var_ok_facts v : var_ok v = true -> plain v = true /\ is_var v = true /\ level v = 13.
Proof.
  unfold var_ok. intros H. apply andb_true_iff in H. destruct H as [H H3]. apply andb_true_iff in H.
  destruct H as [H1 H2]. repeat split; auto. destruct v; try discriminate H2; reflexivity.
Qed.

Lemma var_ok_starts v : var_ok v = true -> starts_name v = true.
Proof. unfold var_ok. intros H. apply andb_true_iff in H. apply H. Qed.

(* an expression that begins with a name is not of the form '(' exp ')' *)
Lemma bracketed_name e more rest : starts_name e = true -> bracketed (raw e ++ more) rest = false.
Proof.
  unfold starts_name. destruct (raw e) as [|t r]; [discriminate|]. destruct t; try discriminate. reflexivity.
Qed.

Lemma more_vars_ok : forall vs n rest, length vs < n -> forallb var_ok vs = true ->
  (match rest with TAssign :: _ => True | _ => False end) ->
  more_vars n (flat_map (fun x => TComma :: raw x) vs ++ rest) = Ok (vs, rest).
Proof.
  induction vs as [|v vs IH]; intros n rest Hn Hv Hr; (destruct n as [|n]; [simpl in Hn; lia|]).
  - cbn [flat_map app more_vars]. destruct rest as [|t rr]; [contradiction|]. destruct t; try contradiction. reflexivity.
  - cbn [forallb] in Hv. apply andb_true_iff in Hv. destruct Hv as [Hv1 Hv2].
    destruct (var_ok_facts v Hv1) as (Hp & Hiv & Hl).
    cbn [flat_map]. cbn [app more_vars]. rewrite <- app_assoc.
    rewrite prefix_exact; auto.
    + cbn [bind fst snd]. rewrite Hiv. rewrite bracketed_name by (apply var_ok_starts; exact Hv1). cbn [negb andb]. rewrite IH; [reflexivity|simpl in Hn; lia|exact Hv2|exact Hr].
    + apply var_follow_nosuffix. destruct vs; cbn; [|exact I].
      destruct rest as [|t rr]; [contradiction|]. destruct t; try contradiction. exact I.
Qed.

(* ------------------------------------------------------------ statement heads *)
Definition stat_start (t : token) : bool :=
  match t with
  | TSemi | TBreak | TGoto | TDo | TWhile | TRepeat | TIf | TFor | TFunction | TLocal | TDColon | TName _ => true
  | _ => false
  end.
Definition stat_head (ts : list token) : Prop := match ts with t :: _ => stat_start t = true | [] => False end.

Lemma stat_head_app ts rest : stat_head ts -> stat_head (ts ++ rest).
Proof. destruct ts; simpl; [contradiction|auto]. Qed.

Lemma stat_head_follow ts : stat_head ts -> follow ts.
Proof. destruct ts as [|t r]; [contradiction|]. destruct t; simpl; intros H; try discriminate H; reflexivity. Qed.

Lemma starts_name_head e more : starts_name e = true -> stat_head (raw e ++ more).
Proof. unfold starts_name. destruct (raw e) as [|t r]; [discriminate|]. destruct t; try discriminate. reflexivity. Qed.

Lemma pr_stat_head s : wf_stat s = true -> stat_head (pr_stat s).
Proof.
  destruct s; intros H; try exact eq_refl.
  - (* assign *) cbn [wf_stat] in H. apply andb_true_iff in H. destruct H as [H _]. apply andb_true_iff in H.
    destruct H as [H _]. apply andb_true_iff in H. destruct H as [H1 H2].
    destruct vs as [|v vs]; [discriminate H1|]. cbn [forallb] in H2. apply andb_true_iff in H2. destruct H2 as [H2 _].
    cbn [pr_stat]. rewrite raw_args_cons. rewrite <- !app_assoc. apply starts_name_head.
    unfold var_ok in H2. apply andb_true_iff in H2. apply H2.
  - (* call *) cbn [wf_stat] in H. unfold call_ok in H. apply andb_true_iff in H. destruct H as [_ H].
    cbn [pr_stat]. rewrite <- (app_nil_r (raw e)). apply starts_name_head. exact H.
Qed.

Lemma pr_block_follow b rest : wf_block b = true -> block_stop rest -> follow (pr_block b ++ rest).
Proof.
  intros Hw Hr. destruct b as [[es|]|s b'].
  - reflexivity.
  - cbn. apply block_stop_follow. exact Hr.
  - cbn [pr_block wf_block] in *. apply andb_true_iff in Hw. destruct Hw as [Hw _].
    rewrite <- app_assoc. apply stat_head_follow. apply stat_head_app. apply pr_stat_head. exact Hw.
Qed.

Lemma s_block_default P ts : stat_head ts ->
  s_block P ts = bind (r_stat P ts) (fun x => bind (r_block P (snd x)) (fun y => Ok (BCons (fst x) (fst y), snd y))).
Proof. destruct ts as [|t r]; [contradiction|]. destruct t; intros H; try reflexivity; simpl in H; discriminate H. Qed.

Lemma s_block_stop P ts : block_stop ts -> s_block P ts = Ok (BNil None, ts).
Proof. destruct ts as [|t r]; [reflexivity|]. destruct t; intros H; try reflexivity; contradiction. Qed.

Lemma s_return_stop ts : block_stop ts -> s_return ts = Ok (BNil (Some []), ts).
Proof. destruct ts as [|t r]; [reflexivity|]. destruct t; intros H; try reflexivity; contradiction. Qed.

Lemma s_return_exps ts : starts ts ->
  s_return ts = bind (explist_at ts) (fun x =>
      match snd x with
      | TSemi :: r => Ok (BNil (Some (fst x)), r)
      | r => Ok (BNil (Some (fst x)), r)
      end).
Proof. destruct ts as [|t r]; [contradiction|]. destruct t; intros H; try reflexivity; simpl in H; discriminate H. Qed.

Lemma raw_args_starts' es more : es <> [] -> starts (raw_args es ++ more).
Proof. destruct es as [|a l]; [congruence|]. intros _. apply raw_args_starts. Qed.

Lemma block_stop_facts ts : block_stop ts -> not_comma ts /\ stop_exp ts /\ (match ts with TSemi :: _ => False | _ => True end).
Proof.
  intros H. pose proof (block_stop_follow ts H) as Hf. repeat split.
  - apply follow_not_comma; auto. - apply (follow_stop_exp ts Hf). - apply (follow_stop_exp ts Hf).
  - destruct ts as [|t r]; auto. destruct t; auto.
Qed.

(* ------------------------------------------------------------ the induction *)
Scheme stat_mind := Induction for stat Sort Prop
  with ifrest_mind := Induction for ifrest Sort Prop
  with block_mind := Induction for block Sort Prop.
Combined Scheme sib_mind from stat_mind, ifrest_mind, block_mind.

Definition Ps (s : stat) : Prop := wf_stat s = true -> forall n rest,
  2 * length (pr_stat s) + 1 <= n -> follow rest ->
  r_stat (sparsers_at n) (pr_stat s ++ rest) = Ok (s, rest).
Definition Pi (r : ifrest) : Prop := wf_ifrest r = true -> forall n rest,
  2 * length (pr_ifrest r) + 1 <= n -> follow rest ->
  r_ifrest (sparsers_at n) (pr_ifrest r ++ rest) = Ok (r, rest).
Definition Pb (b : block) : Prop := wf_block b = true -> forall n rest,
  2 * length (pr_block b) + 2 <= n -> block_stop rest ->
  r_block (sparsers_at n) (pr_block b ++ rest) = Ok (b, rest).

Lemma block_end_ok {A} P b rest (k : block -> list token -> res A) :
  r_block P (pr_block b ++ TEnd :: rest) = Ok (b, TEnd :: rest) ->
  block_end P (pr_block b ++ TEnd :: rest) k = k b rest.
Proof. intros H. unfold block_end. rewrite H. reflexivity. Qed.

Lemma funcbody_ok {A} P ps dots b rest (k : list N -> bool -> block -> list token -> res A) :
  r_block P (pr_block b ++ TEnd :: rest) = Ok (b, TEnd :: rest) ->
  funcbody P (pr_params ps dots ++ pr_block b ++ TEnd :: rest) k = k ps dots b rest.
Proof.
  intros H. unfold funcbody, pr_params. cbn [app]. rewrite <- app_assoc. cbn [app].
  rewrite params_ok. cbn [bind fst snd]. apply block_end_ok. exact H.
Qed.

Lemma ifrest_head r rest : block_stop (pr_ifrest r ++ rest).
Proof. destruct r; exact I. Qed.

Lemma flat_map_len {A} (f : A -> list token) l : (forall a, 1 <= length (f a)) -> length l <= length (flat_map f l).
Proof.
  intros Hf. induction l as [|a l IH]; simpl; [lia|]. rewrite app_length. specialize (Hf a). lia.
Qed.

Lemma starts_name_shape e : starts_name e = true -> exists k r, raw e = TName k :: r.
Proof. unfold starts_name. destruct (raw e) as [|t r]; [discriminate|]. destruct t; try discriminate. eauto. Qed.

Lemma s_stat_name P ts : (exists k r, ts = TName k :: r) ->
  s_stat P ts =
  bind (prefix_at ts) (fun x =>
      match fst x with
      | ECall _ _ _ _ => Ok (SCall (fst x), snd x)
      | EName _ | EIndex _ _ =>
        if bracketed ts (snd x) then Err (snd x) else
        bind (more_vars (S (length ts)) (snd x)) (fun vs =>
          match snd vs with
          | TAssign :: r2 => bind (explist_at r2) (fun es => Ok (SAssign (fst x :: fst vs) (fst es), snd es))
          | r2 => Err r2
          end)
      | _ => Err (snd x)
      end).
Proof. intros (k & r & ->). reflexivity. Qed.

Lemma s_stat_for_in P v r0 : (match r0 with TAssign :: _ => False | _ => True end) ->
  s_stat P (TFor :: TName v :: r0) =
  bind (more_names r0) (fun ns =>
          match snd ns with
          | TIn :: r2 =>
            bind (explist_at r2) (fun es =>
              match snd es with
              | TDo :: r3 => block_end P r3 (fun b r4 => Ok (SForIn (v :: fst ns) (fst es) b, r4))
              | r3 => Err r3
              end)
          | r2 => Err r2
          end).
Proof. destruct r0 as [|t r]; [reflexivity|]. destruct t; intros H; try reflexivity; contradiction. Qed.

Lemma follow_facts rest : follow rest ->
  not_lt rest /\ not_comma rest /\ (match rest with TAssign :: _ => False | _ => True end).
Proof.
  destruct rest as [|t r]; [repeat split; exact I|]. destruct t; simpl; intros H; try discriminate H; repeat split; exact I.
Qed.

Ltac lens H := cbn [pr_stat pr_ifrest pr_block pr_params] in H;
               repeat first [rewrite app_length in H | progress (cbn [length] in H)].
Ltac wfs H := cbn [wf_stat wf_ifrest wf_block] in H;
              repeat match goal with X : (_ && _) = true |- _ => apply andb_true_iff in X; destruct X end.
Ltac enter_stat := cbn [sparsers_at sstep r_stat r_block r_ifrest pr_stat pr_ifrest pr_block]; norm_app.

Theorem stat_roundtrip : (forall s, Ps s) /\ (forall r, Pi r) /\ (forall b, Pb b).
Proof.
  apply sib_mind; unfold Ps, Pi, Pb.
  - (* SEmpty *) intros _ n rest Hn _. destruct n; [lens Hn; lia|]. reflexivity.
  - (* SBreak *) intros _ n rest Hn _. destruct n; [lens Hn; lia|]. reflexivity.
  - (* SGoto *) intros k _ n rest Hn _. destruct n; [lens Hn; lia|]. reflexivity.
  - (* SLabel *) intros k _ n rest Hn _. destruct n; [lens Hn; lia|]. reflexivity.
  - (* SDo *) intros b IHb Hw n rest Hn Hf. destruct n; [lens Hn; lia|]. wfs Hw. lens Hn. enter_stat.
    unfold s_stat. rewrite block_end_ok; [reflexivity|]. apply IHb; [assumption|lia|exact I].
  - (* SWhile *) intros c b IHb Hw n rest Hn Hf. destruct n; [lens Hn; lia|]. wfs Hw. lens Hn. enter_stat.
    unfold s_stat. rewrite exp_exact_plain by (auto; split; reflexivity). cbn [bind fst snd].
    rewrite block_end_ok; [reflexivity|]. apply IHb; [assumption|lia|exact I].
  - (* SRepeat *) intros b IHb c Hw n rest Hn Hf. destruct n; [lens Hn; lia|]. wfs Hw. lens Hn. enter_stat.
    unfold s_stat. rewrite IHb; [|assumption|lia|exact I]. cbn [bind fst snd].
    rewrite exp_exact_plain by (auto using follow_stop_exp). reflexivity.
  - (* SIf *) intros c b IHb r IHr Hw n rest Hn Hf. destruct n; [lens Hn; lia|]. wfs Hw. lens Hn. enter_stat.
    unfold s_stat. rewrite exp_exact_plain by (auto; split; reflexivity). cbn [bind fst snd].
    rewrite IHb; [|assumption|lia|apply ifrest_head]. cbn [bind fst snd].
    rewrite IHr; [reflexivity|assumption|lia|exact Hf].
  - (* SForNum *) intros v e1 e2 e3 b IHb Hw n rest Hn Hf. destruct n; [lens Hn; lia|]. wfs Hw.
    destruct e3 as [e3|]; lens Hn; enter_stat; unfold s_stat.
    + rewrite exp_exact_plain by (auto; split; reflexivity). cbn [bind fst snd].
      rewrite exp_exact_plain by (auto; split; reflexivity). cbn [bind fst snd].
      rewrite exp_exact_plain by (auto; split; reflexivity). cbn [bind fst snd]. unfold for_body.
      rewrite block_end_ok; [reflexivity|]. apply IHb; [assumption|lia|exact I].
    + rewrite exp_exact_plain by (auto; split; reflexivity). cbn [bind fst snd].
      rewrite exp_exact_plain by (auto; split; reflexivity). cbn [bind fst snd]. unfold for_body.
      rewrite block_end_ok; [reflexivity|]. apply IHb; [assumption|lia|exact I].
  - (* SForIn *) intros vs es b IHb Hw n rest Hn Hf. destruct n; [lens Hn; lia|]. wfs Hw.
    destruct vs as [|v vs]; [discriminate|]. lens Hn. enter_stat. unfold pr_names. norm_app.
    rewrite s_stat_for_in by (destruct vs; exact I).
    rewrite more_names_ok by exact I. cbn [bind fst snd].
    rewrite explist_exact; [|destruct es; [discriminate|congruence]|assumption|exact I|split; reflexivity].
    cbn [bind fst snd]. rewrite block_end_ok; [reflexivity|]. apply IHb; [assumption|lia|exact I].
  - (* SLocal *) intros vs es Hw n rest Hn Hf. destruct n; [lens Hn; lia|]. wfs Hw.
    destruct (follow_facts rest Hf) as (Hlt & Hnc & Hna).
    destruct vs as [|[k a] vs]; [discriminate|]. enter_stat. unfold pr_attnames. norm_app. unfold s_stat.
    rewrite nameattrib_ok.
    2:{ destruct vs as [|[k2 a2] vs2]; [|exact I]. destruct es; cbn; [exact Hlt|exact I]. }
    cbn [bind fst snd].
    destruct es as [|e es].
    + rewrite more_attribs_ok; [|cbn [length]; rewrite !app_length; pose proof (flat_map_len (fun ka : N * attrib => TComma :: TName (fst ka) :: pr_attrib (snd ka)) vs ltac:(intros; simpl; lia)); lia|exact Hnc|exact Hlt].
      cbn [bind fst snd app]. destruct rest as [|t rr]; [reflexivity|]. destruct t; try reflexivity. contradiction.
    + rewrite more_attribs_ok; [|cbn [length]; rewrite !app_length; pose proof (flat_map_len (fun ka : N * attrib => TComma :: TName (fst ka) :: pr_attrib (snd ka)) vs ltac:(intros; simpl; lia)); lia|exact I|exact I].
      cbn [bind fst snd app]. rewrite explist_exact; [reflexivity|congruence|assumption|exact Hnc|apply follow_stop_exp; exact Hf].
  - (* SAssign *) intros vs es Hw n rest Hn Hf. destruct n; [lens Hn; lia|]. wfs Hw.
    destruct (follow_facts rest Hf) as (Hlt & Hnc & Hna).
    destruct vs as [|v vs]; [discriminate|].
    match goal with X : forallb var_ok (v :: vs) = true |- _ => cbn [forallb] in X; apply andb_true_iff in X; destruct X as [Hv Hvs] end.
    destruct (var_ok_facts v Hv) as (Hp & Hiv & Hl).
    assert (Hsn : starts_name v = true) by (unfold var_ok in Hv; apply andb_true_iff in Hv; apply Hv).
    enter_stat. rewrite raw_args_cons. norm_app.
    rewrite s_stat_name.
    2:{ destruct (starts_name_shape v Hsn) as (k & r & E). rewrite E. cbn [app]. eauto. }
    rewrite prefix_exact; auto.
    2:{ apply var_follow_nosuffix. destruct vs; exact I. }
    cbn [bind fst snd].
    assert (Hmv : more_vars (S (length (raw v ++ flat_map (fun x : exp => TComma :: raw x) vs ++ TAssign :: raw_args es ++ rest)))
                    (flat_map (fun x : exp => TComma :: raw x) vs ++ TAssign :: raw_args es ++ rest) = Ok (vs, TAssign :: raw_args es ++ rest)).
    { apply more_vars_ok; [|exact Hvs|exact I]. rewrite !app_length.
      pose proof (flat_map_len (fun x : exp => TComma :: raw x) vs ltac:(intros; simpl; lia)). lia. }
    destruct v; try discriminate Hiv; rewrite (bracketed_name _ _ _ Hsn); rewrite Hmv; cbn [bind fst snd];
      (rewrite explist_exact; [reflexivity|destruct es; [discriminate|congruence]|assumption|exact Hnc|apply follow_stop_exp; exact Hf]).
  - (* SCall *) intros e Hw n rest Hn Hf. destruct n; [lens Hn; lia|]. cbn [wf_stat] in Hw. unfold call_ok in Hw.
    apply andb_true_iff in Hw. destruct Hw as [Hw Hsn]. apply andb_true_iff in Hw. destruct Hw as [Hp Hc].
    enter_stat. rewrite s_stat_name.
    2:{ destruct (starts_name_shape e Hsn) as (k & r & E). rewrite E. cbn [app]. eauto. }
    rewrite prefix_exact; [|destruct e; try discriminate Hc; reflexivity|exact Hp|apply follow_nosuffix; exact Hf].
    cbn [bind fst snd]. destruct e; try discriminate Hc. reflexivity.
  - (* SFunction *) intros path m ps dots b IHb Hw n rest Hn Hf. destruct n; [lens Hn; lia|]. wfs Hw.
    destruct path as [|k path]; [discriminate|]. lens Hn. enter_stat. unfold s_stat.
    destruct m as [m|]; cbn [app]; norm_app.
    + rewrite dotted_ok by exact I. cbn [bind fst snd].
      rewrite funcbody_ok; [reflexivity|]. apply IHb; [assumption|lia|exact I].
    + rewrite dotted_ok by exact I. cbn [bind fst snd]. unfold pr_params at 1. cbn [app].
      change (TLParen :: (pr_plist ps dots ++ [TRParen]) ++ pr_block b ++ TEnd :: rest)
        with (pr_params ps dots ++ pr_block b ++ TEnd :: rest).
      rewrite funcbody_ok; [reflexivity|]. apply IHb; [assumption|lia|exact I].
  - (* SLocalFunction *) intros k ps dots b IHb Hw n rest Hn Hf. destruct n; [lens Hn; lia|]. wfs Hw. lens Hn.
    enter_stat. unfold s_stat.
    rewrite funcbody_ok; [reflexivity|]. apply IHb; [assumption|lia|exact I].
  - (* IEnd *) intros _ n rest Hn _. destruct n; [lens Hn; lia|]. reflexivity.
  - (* IElse *) intros b IHb Hw n rest Hn Hf. destruct n; [lens Hn; lia|]. wfs Hw. lens Hn. enter_stat.
    unfold s_ifrest. rewrite block_end_ok; [reflexivity|]. apply IHb; [assumption|lia|exact I].
  - (* IElseIf *) intros c b IHb r IHr Hw n rest Hn Hf. destruct n; [lens Hn; lia|]. wfs Hw. lens Hn. enter_stat.
    unfold s_ifrest. rewrite exp_exact_plain by (auto; split; reflexivity). cbn [bind fst snd].
    rewrite IHb; [|assumption|lia|apply ifrest_head]. cbn [bind fst snd].
    rewrite IHr; [reflexivity|assumption|lia|exact Hf].
  - (* BNil *) intros ret Hw n rest Hn Hs. destruct n; [lia|]. destruct ret as [es|]; enter_stat.
    + change (s_block (sparsers_at n) (TReturn :: raw_args es ++ rest)) with (s_return (raw_args es ++ rest)).
      destruct (block_stop_facts rest Hs) as (Hnc & Hse & Hnsemi).
      destruct es as [|e es].
      * cbn [raw_args app]. apply s_return_stop. exact Hs.
      * rewrite s_return_exps by (apply raw_args_starts'; congruence).
        rewrite explist_exact; [|congruence|exact Hw|exact Hnc|exact Hse]. cbn [bind fst snd].
        destruct rest as [|t rr]; [reflexivity|]. destruct t; try reflexivity. contradiction.
    + apply s_block_stop. exact Hs.
  - (* BCons *) intros s IHs b IHb Hw n rest Hn Hs. destruct n; [lens Hn; lia|]. wfs Hw. lens Hn. enter_stat.
    rewrite s_block_default by (apply stat_head_app; apply pr_stat_head; assumption).
    assert (Hlen : 1 <= length (pr_stat s)).
    { assert (Hh : stat_head (pr_stat s)) by (apply pr_stat_head; assumption).
      destruct (pr_stat s); [contradiction|simpl; lia]. }
    rewrite IHs; [|assumption|lia|apply pr_block_follow; assumption]. cbn [bind fst snd].
    rewrite IHb; [reflexivity|assumption|lia|exact Hs].
Qed.

(* print a well-formed chunk, parse it: the same chunk *)
Theorem parse_chunk_print : forall b, wf_block b = true -> parse_chunk (print_chunk b) = Ok b.
Proof.
  intros b Hw. unfold parse_chunk, print_chunk, chunk_fuel.
  destruct stat_roundtrip as (_ & _ & Hb).
  pose proof (Hb b Hw (2 * length (pr_block b) + 4) [] ltac:(lia) I) as H.
  rewrite app_nil_r in H. rewrite H. reflexivity.
Qed.
