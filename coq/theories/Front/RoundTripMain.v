(* Front/RoundTripMain.v — the induction: parse (print e) = norm e. *)
From Coq Require Import NArith List Bool Arith Lia.
From GV Require Import Front.Token Front.Parse Front.Print Front.Proofs Front.RoundTrip.
Import ListNotations.

Ltac norm_app := cbn [app]; repeat (rewrite <- app_assoc; cbn [app]).

(* --------------------------------------------- printer pieces as functions *)
Definition raw_field (f : field) : list token :=
  match f with
  | (FPos, _, v, _) => raw v
  | (FKey, key, v, _) => TLBrack :: raw key ++ TRBrack :: TAssign :: raw v
  | (FName n, _, v, _) => TName n :: TAssign :: raw v
  end.

Definition fsemi (f : field) : bool := snd f.

Fixpoint raw_fields (trail : bool) (l : list field) : list token :=
  match l with
  | [] => []
  | f :: rest =>
    raw_field f ++ match rest with
                   | [] => if trail then [sep_tok (fsemi f)] else []
                   | _ => sep_tok (fsemi f) :: raw_fields trail rest
                   end
  end.

Definition norm_field (f : field) : field :=
  match f with
  | (FPos, _, v, _) => (FPos, ENil, norm v, false)
  | (FKey, key, v, _) => (FKey, norm key, norm v, false)
  | (FName n, _, v, _) => (FKey, EStr n, norm v, false)
  end.

Definition call_args (bare : bool) (args : list exp) : list token :=
  if bare && bare_ok args
  then match args with a :: _ => raw a | [] => [] end
  else TLParen :: raw_args args ++ [TRParen].

Lemma raw_call f m bare args :
  raw (ECall f m bare args) =
  wrap 13 f (raw f) ++ match m with Some k => [TColon; TName k] | None => [] end ++ call_args bare args.
Proof.
  reflexivity.
Qed.

Lemma raw_table fs trail : raw (ETable fs trail) = TLBrace :: raw_fields trail fs ++ [TRBrace].
Proof.
  cbn [raw]. f_equal. apply (f_equal (fun x => x ++ [TRBrace])).
  induction fs as [|f l IH]; [reflexivity|].
  destruct f as [[[k key] v] semi]. cbn [raw_fields]. rewrite <- IH.
  destruct k; destruct l; reflexivity.
Qed.

Lemma norm_table fs trail : norm (ETable fs trail) = ETable (map norm_field fs) false.
Proof. reflexivity. Qed.

(* --------------------------------------------------------------- sizes *)
Lemma size_pos e : 1 <= size e.
Proof. destruct e; simpl; lia. Qed.

Lemma size_arg f m b args a : In a args -> size a < size (ECall f m b args).
Proof.
  simpl. induction args as [|x l IH]; simpl; [tauto|]. intros [->|H]; [lia|]. specialize (IH H). lia.
Qed.

Lemma size_field fs trail k key v s :
  In (k, key, v, s) fs -> size key < size (ETable fs trail) /\ size v < size (ETable fs trail).
Proof.
  simpl. induction fs as [|x l IH]; simpl; [tauto|]. intros [->|H]; [lia|].
  specialize (IH H). destruct x as [[[k' key'] v'] s']. lia.
Qed.

(* ------------------------------------------------------- the statements *)
Definition A1_stmt (e : exp) : Prop := forall lvl rest, lvl <= 12 -> 12 <= eff lvl e -> nosuffix rest ->
  evals (fun f => p_short1 f (wrap lvl e (raw e) ++ rest)) (Ok (norm e, rest)).
Definition A_stmt (e : exp) : Prop := forall lvl rest, lvl <= 12 -> 10 <= eff lvl e -> stop_short rest ->
  evals (fun f => p_short f (wrap lvl e (raw e) ++ rest)) (Ok (norm e, rest)).
Definition Px_stmt (e : exp) : Prop := forall lvl rest R, lvl <= 12 -> eff lvl e = 13 ->
  evals (fun f => p_suffix f (norm e) rest) R ->
  evals (fun f => p_prefix f (wrap lvl e (raw e) ++ rest)) R.
Definition C_stmt (e : exp) : Prop := forall lvl stack o rest R, lvl <= 12 ->
  (stack = [] \/ 10 <= eff lvl e \/ breaks_at (eff lvl e) o = true) ->
  closes (eff lvl e) rest -> stop_short rest ->
  evals (fun f => p_loop f stack (norm e, o) rest) R ->
  evals (fun f => run f stack o (wrap lvl e (raw e) ++ rest)) R.
(* as the head of a prefix expression (context level 13) *)
Definition PxT_stmt (e : exp) : Prop := forall rest R,
  evals (fun f => p_suffix f (ntarget e (norm e)) rest) R ->
  evals (fun f => p_prefix f (wrap 13 e (raw e) ++ rest)) R.
Definition E_stmt (e : exp) : Prop := forall rest, stop_exp rest ->
  evals (fun f => p_exp f (raw e ++ rest)) (Ok (norm e, rest)).

(* ------------------------------------------------------ generic pieces *)
Lemma p_prefix_paren n ts :
  p_prefix (S n) (TLParen :: ts) =
  bind (p_exp n ts) (fun r => match snd r with
                              | TRParen :: ts2 => p_suffix n (in_brackets (fst r)) ts2
                              | ts2 => Err ts2 end).
Proof. reflexivity. Qed.

Lemma stop_exp_rparen rest : stop_exp (TRParen :: rest).
Proof. split; reflexivity. Qed.
Lemma stop_exp_rbrack rest : stop_exp (TRBrack :: rest).
Proof. split; reflexivity. Qed.
Lemma stop_exp_comma rest : stop_exp (TComma :: rest).
Proof. split; reflexivity. Qed.
Lemma stop_exp_assign rest : stop_exp (TAssign :: rest).
Proof. split; reflexivity. Qed.

(* an expression in parentheses, as the head of a prefix expression *)
Lemma prefix_paren x rest R :
  E_stmt x ->
  evals (fun f => p_suffix f (in_brackets (norm x)) rest) R ->
  evals (fun f => p_prefix f (TLParen :: raw x ++ TRParen :: rest)) R.
Proof.
  intros HE HR. apply evals_S. eapply evals_ext; [intro f; apply p_prefix_paren|].
  eapply evals_bind; [apply HE; apply stop_exp_rparen|]. cbn [fst snd]. exact HR.
Qed.

Lemma eff_wrapped lvl e : level e <? lvl = true -> lvl <= 12 -> level e < 12.
Proof. intros H1 H2. apply Nat.ltb_lt in H1. lia. Qed.

(* Px for an automatically parenthesised expression *)
Lemma Px_wrapped e lvl rest R :
  E_stmt e -> lvl <= 12 -> level e <? lvl = true ->
  evals (fun f => p_suffix f (norm e) rest) R ->
  evals (fun f => p_prefix f (wrap lvl e (raw e) ++ rest)) R.
Proof.
  intros HE Hl Hw HR. unfold wrap. rewrite Hw. norm_app.
  apply prefix_paren; [exact HE|]. rewrite in_brackets_norm; [exact HR|]. eapply eff_wrapped; eauto.
Qed.

(* from Px to A1: a prefix expression read by ShortExp's default case *)
Lemma p_short1_prefix n t ts : pfx_tok t -> p_short1 n (t :: ts) = p_prefix n (t :: ts).
Proof. intros [->|[k ->]]; reflexivity. Qed.

Lemma A1_of_Px e : Px_stmt e -> forall lvl rest, lvl <= 12 -> eff lvl e = 13 -> nosuffix rest ->
  evals (fun f => p_short1 f (wrap lvl e (raw e) ++ rest)) (Ok (norm e, rest)).
Proof.
  intros HP lvl rest Hl He Hs.
  destruct (head13 e lvl rest He) as (t & ts' & Ht & Hk).
  eapply evals_ext. { intro f. rewrite Ht. rewrite (p_short1_prefix f t ts' Hk). rewrite <- Ht. reflexivity. }
  apply HP; auto.
  apply evals_S. apply evals_S. eapply evals_ext; [intro f; apply p_suffix_stop; exact Hs|]. apply evals_const.
Qed.

(* from A1 to A *)
Lemma A_of_A1 e lvl rest :
  evals (fun f => p_short1 f (wrap lvl e (raw e) ++ rest)) (Ok (norm e, rest)) -> nopow rest ->
  evals (fun f => p_short f (wrap lvl e (raw e) ++ rest)) (Ok (norm e, rest)).
Proof.
  intros [f0 H] Hp. exists (S f0). intros f Hf. destruct f as [|f]; [lia|].
  rewrite p_short_S. rewrite H by lia. apply pow_tail_stop. exact Hp.
Qed.

(* from A to C: an operand that ShortExp reads in one piece *)
Lemma C_of_A e lvl stack o rest R :
  evals (fun f => p_short f (wrap lvl e (raw e) ++ rest)) (Ok (norm e, rest)) ->
  evals (fun f => p_loop f stack (norm e, o) rest) R ->
  evals (fun f => run f stack o (wrap lvl e (raw e) ++ rest)) R.
Proof.
  intros HA HR. unfold run. eapply evals_bind; [exact HA|]. cbn [fst snd]. exact HR.
Qed.

(* from C to E *)
Lemma E_of_C e : C_stmt e -> E_stmt e.
Proof.
  intros HC rest [Hs Hb].
  apply evals_S. eapply evals_ext; [intro f; apply p_exp_S|].
  assert (Hw : wrap 0 e (raw e) = raw e) by reflexivity.
  rewrite <- Hw. apply (HC 0 [] OpOr rest); [lia|left; reflexivity| | |].
  - unfold closes. rewrite Hb. right. exact I.
  - apply stop_exp_short. split; assumption.
  - apply evals_S. eapply evals_ext; [intro f; apply p_loop_stop; exact Hb|]. apply evals_const.
Qed.

(* ------------------------------------------------------------- lists *)
Lemma p_explist_S n ts :
  p_explist (S n) ts =
  bind (p_exp n ts) (fun r =>
    match snd r with
    | TComma :: ts1 => bind (p_explist n ts1) (fun r2 => Ok (fst r :: fst r2, snd r2))
    | ts1 => Ok ([fst r], ts1)
    end).
Proof. reflexivity. Qed.

Definition not_comma (ts : list token) : Prop := match ts with TComma :: _ => False | _ => True end.

Lemma explist_ok : forall args, args <> [] -> (forall a, In a args -> E_stmt a) ->
  forall rest, not_comma rest -> stop_exp rest ->
  evals (fun f => p_explist f (raw_args args ++ rest)) (Ok (map norm args, rest)).
Proof.
  induction args as [|a l IH]; intros Hne HE rest Hc Hs; [congruence|].
  apply evals_S. eapply evals_ext; [intro f; apply p_explist_S|].
  destruct l as [|b l].
  - cbn [raw_args map]. eapply evals_bind; [apply HE; [left; reflexivity|exact Hs]|]. cbn [fst snd].
    destruct rest as [|t r]; [apply evals_const|]. destruct t; try apply evals_const. contradiction.
  - change (raw_args (a :: b :: l)) with (raw a ++ TComma :: raw_args (b :: l)). norm_app.
    eapply evals_bind; [apply HE; [left; reflexivity|apply stop_exp_comma]|]. cbn [fst snd].
    eapply evals_bind; [apply IH; [congruence|intros x Hx; apply HE; right; exact Hx|exact Hc|exact Hs]|].
    cbn [fst snd]. apply evals_const.
Qed.

Definition field_stop (ts : list token) : Prop :=
  match ts with (TComma | TSemi | TRBrace) :: _ => True | _ => False end.

Lemma field_stop_exp ts : field_stop ts -> stop_exp ts.
Proof. destruct ts as [|t r]; [contradiction|]. destruct t; intros H; try contradiction; split; reflexivity. Qed.

Lemma p_field_key n ts :
  p_field (S n) (TLBrack :: ts) =
  bind (p_exp n ts) (fun r =>
    match snd r with
    | TRBrack :: ts2 =>
      match ts2 with
      | TAssign :: ts3 => bind (p_exp n ts3) (fun r2 => Ok ((FKey, fst r, fst r2, false), snd r2))
      | _ => Err ts2
      end
    | ts2 => Err ts2
    end).
Proof. reflexivity. Qed.

Definition not_lbrack (ts : list token) : Prop := match ts with TLBrack :: _ => False | _ => True end.
Definition not_rbrace (ts : list token) : Prop := match ts with TRBrace :: _ => False | _ => True end.

Lemma starts_not_lbrack ts : starts ts -> not_lbrack ts.
Proof. destruct ts as [|t r]; [contradiction|]. destruct t; simpl; auto; discriminate. Qed.
Lemma starts_not_rbrace ts : starts ts -> not_rbrace ts.
Proof. destruct ts as [|t r]; [contradiction|]. destruct t; simpl; auto; discriminate. Qed.

Lemma field_ok k key v s :
  (k = FKey -> E_stmt key) -> E_stmt v -> (forall n, E_stmt (EName n)) ->
  forall rest, field_stop rest ->
  evals (fun f => p_field f (raw_field (k, key, v, s) ++ rest)) (Ok (norm_field (k, key, v, s), rest)).
Proof.
  intros Hkey Hv Hname rest Hs. pose proof (field_stop_exp _ Hs) as Hse.
  destruct k as [| |n]; cbn [raw_field norm_field].
  - (* positional *)
    apply evals_S. eapply evals_ext.
    { intro f. apply p_field_pos. apply starts_not_lbrack. apply starts_app. apply raw_starts. }
    eapply evals_bind; [apply Hv; exact Hse|]. cbn [fst snd].
    destruct rest as [|t r]; [contradiction|]. destruct t; try contradiction; apply evals_const.
  - (* [key] = v *)
    norm_app. apply evals_S. eapply evals_ext; [intro f; apply p_field_key|].
    eapply evals_bind; [apply Hkey; [reflexivity|apply stop_exp_rbrack]|]. cbn [fst snd].
    eapply evals_bind; [apply Hv; exact Hse|]. cbn [fst snd]. apply evals_const.
  - (* name = v *)
    norm_app. apply evals_S. eapply evals_ext; [intro f; apply p_field_pos; exact I|].
    eapply evals_bind; [apply (Hname n (TAssign :: raw v ++ rest)); apply stop_exp_assign|]. cbn [fst snd norm raw app field_named].
    eapply evals_bind; [apply Hv; exact Hse|]. cbn [fst snd]. apply evals_const.
Qed.

Lemma raw_field_starts f more : not_rbrace (raw_field f ++ more).
Proof.
  destruct f as [[[k key] v] s]. destruct k; cbn [raw_field]; try exact I.
  apply starts_not_rbrace. apply starts_app. apply raw_starts.
Qed.

Lemma raw_fields_not_rbrace trail f l more : not_rbrace (raw_fields trail (f :: l) ++ more).
Proof. cbn [raw_fields]. rewrite <- app_assoc. apply raw_field_starts. Qed.

Lemma match_not_rbrace {A} ts (X Y : A) :
  not_rbrace ts -> match ts with TRBrace :: _ => X | _ => Y end = Y.
Proof. destruct ts as [|t r]; [reflexivity|]. destruct t; intros H; try reflexivity; contradiction. Qed.

Lemma p_fields_S n ts :
  p_fields (S n) ts =
  bind (p_field n ts) (fun r =>
    match snd r with
    | t :: ts1 =>
      if is_sep t then
        match ts1 with
        | TRBrace :: _ => Ok ([fst r], ts1)
        | _ => bind (p_fields n ts1) (fun r2 => Ok (fst r :: fst r2, snd r2))
        end
      else Ok ([fst r], snd r)
    | [] => Ok ([fst r], [])
    end).
Proof. reflexivity. Qed.

Lemma is_sep_sep_tok b : is_sep (sep_tok b) = true.
Proof. destruct b; reflexivity. Qed.

Lemma field_stop_sep b ts : field_stop (sep_tok b :: ts).
Proof. destruct b; exact I. Qed.

Definition field_IH (f : field) : Prop :=
  match f with (k, key, v, _) => (k = FKey -> E_stmt key) /\ E_stmt v end.

Lemma fields_ok trail : forall fs, fs <> [] -> (forall f, In f fs -> field_IH f) -> (forall n, E_stmt (EName n)) ->
  forall rest,
  evals (fun f => p_fields f (raw_fields trail fs ++ TRBrace :: rest)) (Ok (map norm_field fs, TRBrace :: rest)).
Proof.
  induction fs as [|fld l IH]; intros Hne HF Hname rest; [congruence|].
  apply evals_S. eapply evals_ext; [intro f; apply p_fields_S|].
  destruct fld as [[[k key] v] s].
  assert (Hfld : field_IH (k, key, v, s)) by (apply HF; left; reflexivity). destruct Hfld as [Hk Hv].
  destruct l as [|g l].
  - cbn [raw_fields map fsemi snd]. destruct trail; norm_app.
    + eapply evals_bind; [apply field_ok; auto; apply field_stop_sep|]. cbn [fst snd].
      rewrite is_sep_sep_tok. apply evals_const.
    + eapply evals_bind; [apply field_ok; auto; exact I|]. cbn [fst snd is_sep]. apply evals_const.
  - change (raw_fields trail ((k, key, v, s) :: g :: l))
      with (raw_field (k, key, v, s) ++ sep_tok s :: raw_fields trail (g :: l)). norm_app.
    eapply evals_bind; [apply field_ok; auto; apply field_stop_sep|]. cbn [fst snd].
    rewrite is_sep_sep_tok.
    pose proof (raw_fields_not_rbrace trail g l (TRBrace :: rest)) as Hnr.
    assert (IH' := IH ltac:(congruence) (fun f Hf => HF f (or_intror Hf)) Hname rest).
    eapply evals_ext; [intro f; apply (match_not_rbrace _ _ _ Hnr)|].
    eapply evals_bind; [exact IH'|]. cbn [fst snd map]. apply evals_const.
Qed.

Lemma table_ok fs trail : (forall f, In f fs -> field_IH f) -> (forall n, E_stmt (EName n)) ->
  forall rest,
  evals (fun f => p_table f (raw_fields trail fs ++ TRBrace :: rest)) (Ok (norm (ETable fs trail), rest)).
Proof.
  intros HF Hname rest. rewrite norm_table. destruct fs as [|fld l].
  - exists 1. intros f Hf. destruct f; [lia|]. reflexivity.
  - apply evals_S. eapply evals_ext; [intro f; apply p_table_fields; apply raw_fields_not_rbrace|].
    eapply evals_bind; [apply fields_ok; auto; congruence|]. cbn [fst snd]. apply evals_const.
Qed.

(* ------------------------------------------------------------- call arguments *)
Definition T_stmt (e : exp) : Prop :=
  match e with
  | ETable fs tr => forall rest,
      evals (fun f => p_table f (raw_fields tr fs ++ TRBrace :: rest)) (Ok (norm e, rest))
  | _ => True
  end.

Lemma p_args_table n ts :
  p_args (S n) (TLBrace :: ts) = bind (p_table n ts) (fun r => Ok (Some [fst r], snd r)).
Proof. reflexivity. Qed.

Lemma raw_args_starts a l more : starts (raw_args (a :: l) ++ more).
Proof.
  apply starts_app. destruct l; cbn [raw_args]; [apply raw_starts|apply starts_app; apply raw_starts].
Qed.

Lemma args_ok bare args rest :
  (forall a, In a args -> E_stmt a /\ T_stmt a) ->
  evals (fun f => p_args f (call_args bare args ++ rest)) (Ok (Some (map norm args), rest)).
Proof.
  intros HI. unfold call_args. destruct (bare && bare_ok args) eqn:E.
  - apply andb_true_iff in E. destruct E as [_ E].
    destruct args as [|a l]; [discriminate E|].
    destruct a; try discriminate E; destruct l; try discriminate E.
    + exists 1. intros f Hf. destruct f; [lia|]. reflexivity.
    + exists 1. intros f Hf. destruct f; [lia|]. reflexivity.
    + rewrite raw_table. norm_app. apply evals_S. eapply evals_ext; [intro f; apply p_args_table|].
      destruct (HI (ETable fs trail)) as [_ HT]; [left; reflexivity|].
      eapply evals_bind; [apply HT|]. cbn [fst snd map]. apply evals_const.
  - norm_app. destruct args as [|a l].
    + exists 1. intros f Hf. destruct f; [lia|]. reflexivity.
    + apply evals_S. eapply evals_ext; [intro f; apply p_args_paren; apply raw_args_starts|].
      eapply evals_bind.
      { apply explist_ok; [congruence|intros x Hx; apply HI; exact Hx|exact I|apply stop_exp_rparen]. }
      cbn [fst snd]. apply evals_const.
Qed.

(* ------------------------------------------------------------- arithmetic *)
Lemma breaks_at_true L o : breaks_at L o = true <-> (prec o < L \/ (L = prec o /\ L = 7)).
Proof.
  unfold breaks_at. rewrite orb_true_iff, andb_true_iff, Nat.ltb_lt, !Nat.eqb_eq. tauto.
Qed.

Lemma closes_iff L rest :
  closes L rest <->
  (10 <= L \/ forall o', head_binop rest = Some o' -> prec o' <= L /\ (prec o' = L -> is_concat o' = false)).
Proof.
  unfold closes. destruct (head_binop rest) as [o'|].
  - split; intros [H|H]; auto; right.
    + intros o'' E. injection E as <-. apply orb_false_iff in H. destruct H as [H1 H2].
      apply Nat.ltb_ge in H1. split; [lia|]. intros E. apply andb_false_iff in H2.
      destruct H2 as [H2|H2]; auto. apply Nat.eqb_neq in H2. lia.
    + destruct (H o' eq_refl) as [H1 H2]. apply orb_false_iff. split; [apply Nat.ltb_ge; lia|].
      destruct (prec o' =? L) eqn:E; [apply Nat.eqb_eq in E; rewrite (H2 E); reflexivity|reflexivity].
  - split; intros _; right; [intros o' E; discriminate E|exact I].
Qed.

Lemma eff_ge lvl e : lvl <= 12 -> lvl <= eff lvl e.
Proof. unfold eff. destruct (level e <? lvl) eqn:E; [lia|]. apply Nat.ltb_ge in E. lia. Qed.

Lemma concat_prec o : is_concat o = true <-> prec o = 7.
Proof. destruct o; simpl; split; intros; try discriminate; try reflexivity; lia. Qed.

Lemma lmin_facts o : prec o <= lmin o /\ lmin o <= 12 /\ (prec o = 7 -> 8 <= lmin o).
Proof. destruct o; simpl; lia. Qed.

Lemma rmin_facts o : prec o <= 9 -> prec o <= rmin o /\ rmin o <= 12 /\ (prec o <> 7 -> prec o < rmin o).
Proof. destruct o; simpl; lia. Qed.

Lemma tok_binop_stop o more : prec o <= 9 -> stop_short (tok_of_binop o :: more).
Proof. destruct o; simpl; intros; try lia; split; reflexivity || exact I. Qed.

Lemma reduce_noop op stack x o :
  stack = [] \/ breaks op o = true -> reduce op stack (x, o) = (stack, (x, o)).
Proof.
  destruct stack as [|top st]; [reflexivity|]. intros [H|H]; [discriminate|]. simpl. rewrite H. reflexivity.
Qed.

(* an item on the stack whose operator is closed by what follows is merged *)
Lemma loop_merge op nl nr o stack rest :
  prec op <= 9 -> closes (prec op) rest ->
  forall f, p_loop f ((nl, o) :: stack) (nr, op) rest = p_loop f stack (EBin op nl nr, o) rest.
Proof.
  intros Hp Hc f. destruct f as [|f]; [reflexivity|].
  destruct (head_binop rest) as [o'|] eqn:Hb.
  - destruct rest as [|t ts]; [discriminate|]. simpl in Hb.
    rewrite !(p_loop_op f _ _ t ts o' Hb).
    assert (Hbr : breaks o' op = false).
    { unfold closes in Hc. simpl head_binop in Hc. rewrite Hb in Hc. destruct Hc as [Hc|Hc]; [lia|].
      rewrite breaks_prec. exact Hc. }
    assert (Hred : reduce o' ((nl, o) :: stack) (nr, op) = reduce o' stack (EBin op nl nr, o))
      by (simpl; rewrite Hbr; reflexivity).
    rewrite Hred. reflexivity.
  - rewrite !p_loop_stop by exact Hb. reflexivity.
Qed.

(* the binary-operator case of C: the loop assembles  l op r  *)
Lemma C_bin op l r : prec op <= 9 -> C_stmt l -> C_stmt r ->
  forall stack o rest R,
  (stack = [] \/ breaks_at (prec op) o = true) -> closes (prec op) rest -> stop_short rest ->
  evals (fun f => p_loop f stack (EBin op (norm l) (norm r), o) rest) R ->
  evals (fun f => run f stack o (raw (EBin op l r) ++ rest)) R.
Proof.
  intros Hp Cl Cr stack o rest R Hfit Hcl Hst HR.
  cbn [raw]. norm_app.
  pose proof (lmin_facts op) as (Hl1 & Hl2 & Hl3). pose proof (rmin_facts op Hp) as (Hr1 & Hr2 & Hr3).
  pose proof (eff_ge (lmin op) l Hl2) as HLl. pose proof (eff_ge (rmin op) r Hr2) as HLr.
  apply Cl; [exact Hl2| | |apply tok_binop_stop; exact Hp|].
  - destruct Hfit as [Hfit|Hfit]; [left; exact Hfit|right].
    destruct (le_lt_dec 10 (eff (lmin op) l)); [left; assumption|right].
    apply breaks_at_true. apply breaks_at_true in Hfit. lia.
  - apply closes_iff. destruct (le_lt_dec 10 (eff (lmin op) l)); [left; assumption|right].
    intros o' E. simpl in E. rewrite binop_of_tok_of in E. injection E as <-.
    split; [lia|]. intros E. destruct (is_concat op) eqn:Ec; [|reflexivity].
    apply concat_prec in Ec. lia.
  - apply evals_S. eapply evals_ext; [intro f; apply p_loop_op; apply binop_of_tok_of|].
    rewrite reduce_noop by (rewrite breaks_breaks_at; exact Hfit). cbn [fst snd].
    apply Cr; [exact Hr2| | |exact Hst|].
    + right. destruct (le_lt_dec 10 (eff (rmin op) r)); [left; assumption|right].
      apply breaks_at_true. destruct (Nat.eq_dec (prec op) 7); lia.
    + apply closes_iff. apply closes_iff in Hcl.
      destruct (le_lt_dec 10 (eff (rmin op) r)); [left; assumption|right].
      destruct Hcl as [Hcl|Hcl]; [lia|]. intros o' E. destruct (Hcl o' E) as [H1 H2].
      split; [lia|]. intros E2. apply H2. lia.
    + eapply evals_ext; [intro f; apply loop_merge; assumption|]. exact HR.
Qed.

(* ------------------------------------------------ assembling the statements *)
Definition Px_raw (e : exp) : Prop := forall rest R,
  evals (fun f => p_suffix f (norm e) rest) R -> evals (fun f => p_prefix f (raw e ++ rest)) R.
Definition A1_raw (e : exp) : Prop := forall rest, nosuffix rest ->
  evals (fun f => p_short1 f (raw e ++ rest)) (Ok (norm e, rest)).
Definition A_raw (e : exp) : Prop := forall rest, stop_short rest ->
  evals (fun f => p_short f (raw e ++ rest)) (Ok (norm e, rest)).
Definition C_raw (e : exp) : Prop := forall stack o rest R,
  (stack = [] \/ 10 <= level e \/ breaks_at (level e) o = true) ->
  closes (level e) rest -> stop_short rest ->
  evals (fun f => p_loop f stack (norm e, o) rest) R ->
  evals (fun f => run f stack o (raw e ++ rest)) R.

Definition All (e : exp) : Prop :=
  A1_stmt e /\ A_stmt e /\ Px_stmt e /\ C_stmt e /\ E_stmt e /\ T_stmt e /\ PxT_stmt e.

Lemma eff13 e : eff 13 e = 13.
Proof.
  unfold eff. destruct (level e <? 13) eqn:E; auto. apply Nat.ltb_ge in E. pose proof (level_le_13 e). lia.
Qed.

Lemma assemble e :
  (level e = 13 -> Px_raw e) -> (level e = 12 -> A1_raw e) ->
  (level e = 10 \/ level e = 11 -> A_raw e) -> (level e <= 9 -> C_raw e) -> T_stmt e -> All e.
Proof.
  intros H13 H12 H1011 H9 HT.
  pose proof (level_le_13 e) as Hle.
  assert (HA1r : 12 <= level e -> A1_raw e).
  { intros Hl rest Hs. destruct (Nat.eq_dec (level e) 12) as [E|E]; [apply H12; auto|].
    assert (E13 : level e = 13) by lia.
    destruct (head13 e 0 rest) as (t & ts' & Ht & Hk); [exact E13|].
    change (wrap 0 e (raw e)) with (raw e) in Ht.
    eapply evals_ext. { intro f. rewrite Ht. rewrite (p_short1_prefix f t ts' Hk). rewrite <- Ht. reflexivity. }
    apply H13; auto.
    apply evals_S. apply evals_S. eapply evals_ext; [intro f; apply p_suffix_stop; exact Hs|]. apply evals_const. }
  assert (HAr : 10 <= level e -> A_raw e).
  { intros Hl rest Hs. destruct (le_lt_dec 12 (level e)).
    - change (raw e) with (wrap 0 e (raw e)). apply A_of_A1; [apply HA1r; [auto|apply Hs]|apply Hs].
    - apply H1011; [lia|exact Hs]. }
  assert (HCr : C_raw e).
  { destruct (le_lt_dec 10 (level e)).
    - intros stack o rest R _ _ Hs HR. change (raw e) with (wrap 0 e (raw e)).
      apply C_of_A; [apply HAr; auto|exact HR].
    - apply H9. lia. }
  assert (HE : E_stmt e).
  { intros rest [Hs Hb]. apply evals_S. eapply evals_ext; [intro f; apply p_exp_S|].
    apply (HCr [] OpOr rest); [left; reflexivity| | |].
    - unfold closes. rewrite Hb. right. exact I.
    - apply stop_exp_short. split; assumption.
    - apply evals_S. eapply evals_ext; [intro f; apply p_loop_stop; exact Hb|]. apply evals_const. }
  assert (HPx : Px_stmt e).
  { intros lvl rest R Hl He HR. destruct (level e <? lvl) eqn:Ew.
    - apply Px_wrapped; auto.
    - unfold eff in He. rewrite Ew in He. unfold wrap. rewrite Ew. apply H13; auto. }
  assert (HA1 : A1_stmt e).
  { intros lvl rest Hl He Hs. destruct (level e <? lvl) eqn:Ew.
    - apply A1_of_Px; auto. unfold eff. rewrite Ew. reflexivity.
    - unfold eff in He. rewrite Ew in He. unfold wrap. rewrite Ew. apply HA1r; auto. }
  assert (HA : A_stmt e).
  { intros lvl rest Hl He Hs. destruct (level e <? lvl) eqn:Ew.
    - apply A_of_A1; [apply HA1; auto; [unfold eff; rewrite Ew; lia|apply Hs]|apply Hs].
    - unfold eff in He. rewrite Ew in He. unfold wrap. rewrite Ew. apply HAr; auto. }
  assert (HC : C_stmt e).
  { intros lvl stack o rest R Hl Hfit Hcl Hs HR. destruct (level e <? lvl) eqn:Ew.
    - apply C_of_A; [apply HA; auto; unfold eff; rewrite Ew; lia|exact HR].
    - unfold eff in Hfit, Hcl. rewrite Ew in Hfit, Hcl. unfold wrap. rewrite Ew. apply HCr; auto. }
  assert (HPT : PxT_stmt e).
  { intros rest R HR. destruct (level e <? 13) eqn:Ew.
    - unfold wrap. rewrite Ew. norm_app. apply prefix_paren; [exact HE|].
      rewrite in_brackets_target; [exact HR|]. apply Nat.ltb_lt. exact Ew.
    - unfold wrap. rewrite Ew. apply Nat.ltb_ge in Ew. apply H13; [lia|].
      rewrite ntarget13 in HR by lia. exact HR. }
  repeat split; assumption.
Qed.

Ltac no_level := solve [intros HH; simpl in HH; unfold unop_prec in HH; (discriminate HH || lia)].

Lemma all_atom e :
  (exists t, raw e = [t] /\ short_head t = HAtom (norm e)) -> level e = 12 -> T_stmt e -> All e.
Proof.
  intros (t & Ht & Hh) Hl HT. apply assemble.
  - intros HH. rewrite Hl in HH. discriminate HH.
  - intros _ rest Hs. rewrite Ht. exists 0. intros f _. cbn [app]. unfold p_short1. rewrite Hh. reflexivity.
  - intros [HH|HH]; rewrite Hl in HH; discriminate HH.
  - intros HH. rewrite Hl in HH. lia.
  - exact HT.
Qed.

Lemma all_name k : All (EName k).
Proof.
  apply assemble; try no_level; try exact I.
  intros _ rest R HR. apply evals_S. exact HR.
Qed.

Lemma E_name : forall n, E_stmt (EName n).
Proof. intros n. apply (all_name n). Qed.

Lemma p_short1_un n o ts :
  p_short1 n (tok_of_unop o :: ts) = bind (p_short n ts) (fun r => Ok (EUn o (fst r), snd r)).
Proof. destruct o; reflexivity. Qed.

Lemma call_args_start bare args more : args_start (call_args bare args ++ more).
Proof.
  unfold call_args. destruct (bare && bare_ok args) eqn:E; [|exact I].
  apply andb_true_iff in E. destruct E as [_ E].
  destruct args as [|a l]; [discriminate E|].
  destruct a; try discriminate E; destruct l; try discriminate E; exact I.
Qed.

Lemma field_IH_of fs trail :
  (forall e', size e' < size (ETable fs trail) -> All e') -> forall f, In f fs -> field_IH f.
Proof.
  intros IH f Hf. destruct f as [[[k key] v] s]. destruct (size_field fs trail k key v s Hf) as [H1 H2].
  split; [intros _; apply (IH key H1)|apply (IH v H2)].
Qed.

Lemma step e : (forall e', size e' < size e -> All e') -> All e.
Proof.
  intros IH. destruct e.
  - apply all_atom; [eexists; split; reflexivity|reflexivity|exact I].
  - apply all_atom; [eexists; split; reflexivity|reflexivity|exact I].
  - apply all_atom; [eexists; split; reflexivity|reflexivity|exact I].
  - apply all_atom; [eexists; split; reflexivity|reflexivity|exact I].
  - apply all_atom; [eexists; split; reflexivity|reflexivity|exact I].
  - apply all_atom; [eexists; split; reflexivity|reflexivity|exact I].
  - apply all_atom; [eexists; split; reflexivity|reflexivity|exact I].
  - apply all_name.
  - (* EIndex *)
    apply assemble; try no_level; try exact I.
    intros _ rest R HR. cbn [raw]. norm_app.
    destruct (IH e1) as (_ & _ & _ & _ & _ & _ & HP1); [simpl; lia|]. destruct (IH e2) as (_ & _ & _ & _ & HE2 & _); [simpl; lia|].
    apply HP1.
    apply evals_S. eapply evals_ext; [intro f; apply p_suffix_index|].
    eapply evals_bind; [apply HE2; apply stop_exp_rbrack|]. cbn [fst snd]. exact HR.
  - (* EDot *)
    apply assemble; try no_level; try exact I.
    intros _ rest R HR. cbn [raw]. norm_app.
    destruct (IH e) as (_ & _ & _ & _ & _ & _ & HP1); [simpl; lia|].
    apply HP1.
    apply evals_S. eapply evals_ext; [intro f; apply p_suffix_dot|]. exact HR.
  - (* ECall *)
    apply assemble; try no_level; try exact I.
    intros _ rest R HR. rewrite raw_call. norm_app.
    destruct (IH e) as (_ & _ & _ & _ & _ & _ & HP1); [simpl; lia|].
    assert (HI : forall a, In a args -> E_stmt a /\ T_stmt a).
    { intros a Ha. destruct (IH a (size_arg e m bare args a Ha)) as (_ & _ & _ & _ & HEa & HTa & _). split; assumption. }
    apply HP1.
    destruct m as [k|]; cbn [app].
    + apply evals_S. eapply evals_ext; [intro f; apply p_suffix_method|].
      eapply evals_bind; [apply args_ok; exact HI|]. cbn [fst snd]. exact HR.
    + apply evals_S. eapply evals_ext; [intro f; apply p_suffix_call; apply call_args_start|].
      eapply evals_bind; [apply args_ok; exact HI|]. cbn [fst snd]. exact HR.
  - (* EParen *)
    apply assemble; try no_level; try exact I.
    intros _ rest R HR. cbn [raw]. norm_app.
    destruct (IH e) as (_ & _ & _ & _ & HE & _); [simpl; lia|].
    apply prefix_paren; [exact HE|exact HR].
  - (* ETable *)
    assert (HT : T_stmt (ETable fs trail)).
    { intros rest. apply table_ok; [apply (field_IH_of fs trail IH)|apply E_name]. }
    apply assemble; try no_level; try exact HT.
    intros _ rest Hs. rewrite raw_table. norm_app.
    eapply evals_ext; [intro f; reflexivity|]. apply HT.
  - (* EUn *)
    apply assemble; try no_level; try exact I.
    intros _ rest Hs. cbn [raw]. norm_app.
    destruct (IH e) as (_ & HA & _); [simpl; lia|].
    destruct (HA 10 rest) as [f0 H0]; [lia|apply eff_ge; lia|exact Hs|].
    exists (S f0). intros f Hf. destruct f as [|f]; [lia|].
    rewrite p_short_S, p_short1_un. unfold unop_prec. rewrite H0 by lia. cbn [bind fst snd norm].
    apply pow_tail_stop. apply Hs.
  - (* EBin *)
    destruct (le_lt_dec (prec o) 9) as [Hp|Hp].
    + apply assemble; try (solve [intros HH; simpl in HH; lia]); try exact I.
      intros _ stack o' rest R Hfit Hcl Hs HR. simpl level in *.
      destruct (IH e1) as (_ & _ & _ & HC1 & _); [simpl; lia|].
      destruct (IH e2) as (_ & _ & _ & HC2 & _); [simpl; lia|].
      apply C_bin; auto. destruct Hfit as [Hf|[Hf|Hf]]; [left; auto|lia|right; auto].
    + assert (Ho : o = OpPow) by (destruct o; simpl in Hp; try lia; reflexivity). subst o.
      apply assemble; try (solve [intros HH; simpl in HH; lia]); try exact I.
      intros _ rest Hs. cbn [raw lmin rmin tok_of_binop]. norm_app.
      destruct (IH e1) as (HA1 & _); [simpl; lia|]. destruct (IH e2) as (_ & HA2 & _); [simpl; lia|].
      destruct (HA1 12 (THat :: wrap 10 e2 (raw e2) ++ rest)) as [f1 H1]; [lia|apply eff_ge; lia|reflexivity|].
      destruct (HA2 10 rest) as [f2 H2]; [lia|apply eff_ge; lia|exact Hs|].
      exists (S (f1 + f2)). intros f Hf. destruct f as [|f]; [lia|].
      rewrite p_short_S. rewrite H1 by lia. cbn [pow_tail]. rewrite H2 by lia. reflexivity.
Qed.

Theorem all_exp : forall e, All e.
Proof.
  assert (H : forall n e, size e < n -> All e).
  { induction n; intros e Hs; [lia|]. apply step. intros e' H'. apply IHn. lia. }
  intros e. apply (H (S (size e))). lia.
Qed.

(* ------------------------------------------------------------ the theorems *)
(* for every tree, with any sufficiently large fuel, parsing the printed
   tokens yields the tree's denotation *)
Theorem parse_print_evals : forall e, evals (fun f => parse_fuel f (print e)) (Ok (norm e)).
Proof.
  intros e. destruct (all_exp e) as (_ & _ & _ & _ & HE & _).
  unfold parse_fuel, print. eapply evals_bind.
  - rewrite <- (app_nil_r (raw e)). apply HE. split; [exact I|reflexivity].
  - cbn [fst snd]. apply evals_const.
Qed.

(* a token that cannot continue an expression, after a complete expression,
   is where the error is reported *)
Theorem error_at_extra_token_evals : forall e t junk,
  suffix_tok t = false -> binop_of t = None ->
  evals (fun f => parse_fuel f (print e ++ t :: junk)) (Err (t :: junk)).
Proof.
  intros e t junk H1 H2. destruct (all_exp e) as (_ & _ & _ & _ & HE & _).
  unfold parse_fuel, print. eapply evals_bind.
  - apply HE. split; [exact H1|exact H2].
  - cbn [fst snd]. apply evals_const.
Qed.

(* ---------------------------------------- plain trees denote themselves *)
Lemma map_fix (A : Type) (g : A -> A) l : (forall a, In a l -> g a = a) -> map g l = l.
Proof.
  induction l as [|x l IH]; intros H; [reflexivity|]. simpl. rewrite (H x (or_introl eq_refl)).
  rewrite IH; [reflexivity|]. intros a Ha. apply H. right. exact Ha.
Qed.

Lemma norm_plain : forall e, plain e = true -> norm e = e.
Proof.
  assert (H : forall n e, size e < n -> plain e = true -> norm e = e).
  { induction n; intros e Hs Hp; [lia|]. destruct e; try reflexivity; try discriminate Hp.
    - simpl in Hp. apply andb_true_iff in Hp. destruct Hp as [Hp H2]. apply andb_true_iff in Hp.
      destruct Hp as [H0 H1]. simpl in Hs. cbn [norm].
      rewrite (IHn e1), (IHn e2); auto; try lia. destruct e1; try reflexivity; discriminate H0.
    - simpl in Hp. apply andb_true_iff in Hp. destruct Hp as [Hp H3]. apply andb_true_iff in Hp.
      destruct Hp as [Hp H2]. apply andb_true_iff in Hp. destruct Hp as [H0 H1].
      destruct bare; [discriminate H2|]. cbn [norm].
      rewrite (IHn e); [|simpl in Hs; lia|exact H1].
      replace (ntarget e e) with e by (destruct e; try reflexivity; discriminate H0).
      f_equal. apply map_fix. intros a Ha.
      apply IHn; [pose proof (size_arg e m false args a Ha); lia|].
      rewrite forallb_forall in H3. apply H3. exact Ha.
    - simpl in Hp. apply andb_true_iff in Hp. destruct Hp as [H1 H2]. cbn [norm].
      rewrite (IHn e); [|simpl in Hs; lia|exact H2]. destruct e; try discriminate H1; reflexivity.
    - cbn [plain] in Hp. apply andb_true_iff in Hp. destruct Hp as [H1 H2].
      destruct trail; [discriminate H1|]. rewrite norm_table. f_equal. apply map_fix.
      intros f Hf. rewrite forallb_forall in H2. specialize (H2 f Hf).
      destruct f as [[[k key] v] s]. destruct (size_field fs false k key v s Hf) as [S1 S2].
      destruct k; cbn [norm_field].
      + destruct key; try discriminate H2. destruct s; try discriminate H2.
        rewrite (IHn v); [reflexivity|lia|exact H2].
      + destruct s; try discriminate H2. apply andb_true_iff in H2. destruct H2 as [K1 K2].
        rewrite (IHn key), (IHn v); auto; lia.
      + discriminate H2.
    - simpl in Hp. simpl in Hs. cbn [norm]. rewrite (IHn e); auto; lia.
    - simpl in Hp. apply andb_true_iff in Hp. destruct Hp as [H1 H2]. simpl in Hs. cbn [norm].
      rewrite (IHn e1), (IHn e2); auto; lia. }
  intros e. apply (H (S (size e))). lia.
Qed.

(* print with the minimal parentheses, parse: the same tree *)
Theorem parse_print_min_evals : forall e, plain e = true ->
  evals (fun f => parse_fuel f (print e)) (Ok e).
Proof. intros e Hp. pose proof (parse_print_evals e) as H. rewrite (norm_plain e Hp) in H. exact H. Qed.
