(* Front/StatPrint.v — printer for statements, blocks and chunks, and the
   grammar's side conditions ([wf_block]).  Definitions only.

   [print_chunk b] prints the block b; the expressions inside are printed by
   [Print.raw] (parentheses exactly where the precedence table requires them).
   [wf_block b] collects what the grammar demands of a statement tree and what
   makes the concrete syntax unambiguous:
     - expressions are [plain] (no alternative spellings; they denote themselves);
     - the targets of an assignment are variables (a name or an index
       expression), a call statement is a call, and both begin with a name —
       a statement that begins with '(' after a statement that ends in an
       expression is the manual's own ambiguity (§3.3.1) and is excluded;
     - name lists, variable lists and the expression lists of assignment and
       generic for are non-empty; a function name has at least one component. *)
From Coq Require Import NArith List Bool Arith.
From GV Require Import Front.Token Front.Parse Front.Print Front.Stat.
Import ListNotations.

Definition pr_names (ks : list N) : list token :=
  match ks with
  | [] => []
  | k :: r => TName k :: flat_map (fun k' => [TComma; TName k']) r
  end.

Fixpoint pr_plist (ps : list N) (dots : bool) : list token :=
  match ps with
  | [] => if dots then [TEtc] else []
  | k :: r =>
    TName k :: match r, dots with
               | [], false => []
               | _, _ => TComma :: pr_plist r dots
               end
  end.

Definition pr_params (ps : list N) (dots : bool) : list token := TLParen :: pr_plist ps dots ++ [TRParen].

Definition pr_dotted (ks : list N) : list token := flat_map (fun k => [TDot; TName k]) ks.

Definition pr_attrib (a : attrib) : list token :=
  match a with
  | ANone => []
  | AConst => [TLt; TName CONST_ID; TGt]
  | AClose => [TLt; TName CLOSE_ID; TGt]
  end.

Definition pr_attnames (vs : list (N * attrib)) : list token :=
  match vs with
  | [] => []
  | (k, a) :: r => TName k :: pr_attrib a ++ flat_map (fun ka => TComma :: TName (fst ka) :: pr_attrib (snd ka)) r
  end.

Fixpoint pr_stat (s : stat) : list token :=
  match s with
  | SEmpty => [TSemi]
  | SBreak => [TBreak]
  | SGoto k => [TGoto; TName k]
  | SLabel k => [TDColon; TName k; TDColon]
  | SDo b => TDo :: pr_block b ++ [TEnd]
  | SWhile c b => TWhile :: raw c ++ TDo :: pr_block b ++ [TEnd]
  | SRepeat b c => TRepeat :: pr_block b ++ TUntil :: raw c
  | SIf c b r => TIf :: raw c ++ TThen :: pr_block b ++ pr_ifrest r
  | SForNum v e1 e2 e3 b =>
    TFor :: TName v :: TAssign :: raw e1 ++ TComma :: raw e2
    ++ match e3 with Some e => TComma :: raw e | None => [] end
    ++ TDo :: pr_block b ++ [TEnd]
  | SForIn vs es b => TFor :: pr_names vs ++ TIn :: raw_args es ++ TDo :: pr_block b ++ [TEnd]
  | SLocal vs es =>
    TLocal :: pr_attnames vs ++ match es with [] => [] | _ => TAssign :: raw_args es end
  | SAssign vs es => raw_args vs ++ TAssign :: raw_args es
  | SCall e => raw e
  | SFunction path m ps dots b =>
    TFunction :: match path with [] => [] | k :: r => TName k :: pr_dotted r end
    ++ match m with Some k => [TColon; TName k] | None => [] end
    ++ pr_params ps dots ++ pr_block b ++ [TEnd]
  | SLocalFunction k ps dots b => TLocal :: TFunction :: TName k :: pr_params ps dots ++ pr_block b ++ [TEnd]
  end
with pr_ifrest (r : ifrest) : list token :=
  match r with
  | IEnd => [TEnd]
  | IElse b => TElse :: pr_block b ++ [TEnd]
  | IElseIf c b r' => TElseIf :: raw c ++ TThen :: pr_block b ++ pr_ifrest r'
  end
with pr_block (b : block) : list token :=
  match b with
  | BNil None => []
  | BNil (Some es) => TReturn :: raw_args es
  | BCons s b' => pr_stat s ++ pr_block b'
  end.

Definition print_chunk (b : block) : list token := pr_block b.

(* ---------------------------------------------------------- side conditions *)
Definition starts_name (e : exp) : bool :=
  match raw e with TName _ :: _ => true | _ => false end.

Definition var_ok (v : exp) : bool := plain v && is_var v && starts_name v.
Definition call_ok (e : exp) : bool := plain e && is_call e && starts_name e.
Definition nonempty {A} (l : list A) : bool := match l with [] => false | _ => true end.

Fixpoint wf_stat (s : stat) : bool :=
  match s with
  | SEmpty | SBreak | SGoto _ | SLabel _ => true
  | SDo b => wf_block b
  | SWhile c b => plain c && wf_block b
  | SRepeat b c => wf_block b && plain c
  | SIf c b r => plain c && wf_block b && wf_ifrest r
  | SForNum _ e1 e2 e3 b =>
    plain e1 && plain e2 && match e3 with Some e => plain e | None => true end && wf_block b
  | SForIn vs es b => nonempty vs && nonempty es && forallb plain es && wf_block b
  | SLocal vs es => nonempty vs && forallb plain es
  | SAssign vs es => nonempty vs && forallb var_ok vs && nonempty es && forallb plain es
  | SCall e => call_ok e
  | SFunction path _ _ _ b => nonempty path && wf_block b
  | SLocalFunction _ _ _ b => wf_block b
  end
with wf_ifrest (r : ifrest) : bool :=
  match r with
  | IEnd => true
  | IElse b => wf_block b
  | IElseIf c b r' => plain c && wf_block b && wf_ifrest r'
  end
with wf_block (b : block) : bool :=
  match b with
  | BNil None => true
  | BNil (Some es) => forallb plain es
  | BCons s b' => wf_stat s && wf_block b'
  end.
