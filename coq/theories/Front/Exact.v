(* Front/Exact.v — the round-trip theorems for the extracted function
   [parse ts = parse_fuel (8*|ts|+8) ts]: totality of the bound (Total.v) and
   monotonicity in the fuel (Mono.v) turn "for all sufficiently large fuel"
   (RoundTripMain.v) into statements about [parse] itself. *)
From Coq Require Import NArith List Bool Arith Lia.
From GV Require Import Front.Token Front.Parse Front.Print Front.RoundTrip Front.RoundTripMain Front.Mono Front.Total.
Import ListNotations.

Lemma tot_all : forall n, tot (parsers_at n) n.
Proof.
  induction n.
  - refine (conj _ (conj _ (conj _ (conj _ (conj _ (conj _ (conj _ (conj _ (conj _ _))))))))); intros; lia.
  - simpl parsers_at. apply tot_S. exact IHn.
Qed.

(* the parser never runs out of its fuel, on any token list *)
Theorem parse_total : forall ts, parse ts <> OutOfFuel.
Proof.
  intros ts. unfold parse, parse_fuel, fuel_for.
  destruct (tot_all (8 * length ts + 8)) as (He & _).
  destruct (He ts ltac:(lia)) as [H1 _]. unfold p_exp.
  destruct (r_exp (parsers_at (8 * length ts + 8)) ts) as [[e r]| | |]; cbn [bind fst snd];
    try discriminate; try congruence.
  destruct r; discriminate.
Qed.

Lemma exact_of_evals ts R : evals (fun f => parse_fuel f ts) R -> parse ts = R.
Proof.
  intros [f0 H]. pose proof (parse_total ts) as Ht. unfold parse in *.
  set (B := fuel_for ts) in *.
  pose proof (parse_fuel_mono B (Nat.max f0 B) ts (Nat.le_max_r _ _)) as [Hm|Hm]; [contradiction|].
  rewrite Hm. apply H. apply Nat.le_max_l.
Qed.

Theorem parse_print : forall e, parse (print e) = Ok (norm e).
Proof. intros e. apply exact_of_evals. apply parse_print_evals. Qed.

Theorem parse_print_min : forall e, plain e = true -> parse (print e) = Ok e.
Proof. intros e H. apply exact_of_evals. apply parse_print_min_evals. exact H. Qed.

Theorem error_at_extra_token : forall e t junk,
  suffix_tok t = false -> binop_of t = None -> parse (print e ++ t :: junk) = Err (t :: junk).
Proof. intros. apply exact_of_evals. apply error_at_extra_token_evals; assumption. Qed.
