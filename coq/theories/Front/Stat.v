(* Front/Stat.v — implementation model (IM) of golua's statement parser,
   /repo/parsing/parser.go: Block, Return, Stat, If, For, Local, FunctionStat,
   FunctionDef, NameAttrib, and the assignment / call statement (default case of
   Stat).  Definitions only.

   Expressions inside statements are parsed by the expression model of
   Front/Parse.v with its concrete fuel ([exp_at], [explist_at], [prefix_at]);
   'function' expressions stay [Unsupported] there, function bodies occur here
   through the statements  function f.a:m(...) … end  and  local function.
   Blocks nest through a fuel argument (open recursion as in Parse.v).
   Identifier payloads [CONST_ID]/[CLOSE_ID] stand for the attribute names
   "const" and "close".  No round-trip theorem is proved about this model yet;
   it is tied to the Go code by the correspondence check only. *)
From Coq Require Import NArith List Bool Arith.
From GV Require Import Front.Token Front.Parse.
Import ListNotations.

Inductive attrib := ANone | AConst | AClose.
Definition CONST_ID : N := 1000001.
Definition CLOSE_ID : N := 1000002.

Inductive stat :=
| SEmpty | SBreak
| SGoto (k : N) | SLabel (k : N)
| SDo (b : block)
| SWhile (c : exp) (b : block)
| SRepeat (b : block) (c : exp)
| SIf (c : exp) (b : block) (rest : ifrest)
| SForNum (v : N) (e1 e2 : exp) (e3 : option exp) (b : block)
| SForIn (vs : list N) (es : list exp) (b : block)
| SLocal (vs : list (N * attrib)) (es : list exp)
| SAssign (vs : list exp) (es : list exp)
| SCall (e : exp)
| SFunction (path : list N) (meth : option N) (params : list N) (dots : bool) (b : block)
| SLocalFunction (k : N) (params : list N) (dots : bool) (b : block)
with ifrest :=
| IEnd
| IElse (b : block)
| IElseIf (c : exp) (b : block) (rest : ifrest)
with block :=
| BNil (ret : option (list exp))
| BCons (s : stat) (b : block).

Definition exp_at (ts : list token) := p_exp (fuel_for ts) ts.
Definition explist_at (ts : list token) := p_explist (fuel_for ts) ts.
Definition prefix_at (ts : list token) := p_prefix (fuel_for ts) ts.

(* { ',' Name } *)
Fixpoint more_names (ts : list token) : res (list N * list token) :=
  match ts with
  | TComma :: r =>
    match r with
    | TName k :: r' => bind (more_names r') (fun x => Ok (k :: fst x, snd x))
    | _ => Err r
    end
  | _ => Ok ([], ts)
  end.

(* FunctionDef's parameter loop, after '(' *)
Fixpoint p_params (ts : list token) : res (list N * bool * list token) :=
  match ts with
  | TName k :: r =>
    match r with
    | TComma :: r' =>
      match r' with
      | TRParen :: _ => Err r'        (* a comma must be followed by a name or '...' *)
      | _ => bind (p_params r') (fun x => Ok (k :: fst (fst x), snd (fst x), snd x))
      end
    | _ => Ok ([k], false, r)
    end
  | TEtc :: r => Ok ([], true, r)
  | TRParen :: _ => Ok ([], false, ts)
  | _ => Err ts
  end.

(* { '.' Name } *)
Fixpoint p_dotted (ts : list token) : res (list N * list token) :=
  match ts with
  | TDot :: r =>
    match r with
    | TName k :: r' => bind (p_dotted r') (fun x => Ok (k :: fst x, snd x))
    | _ => Err r
    end
  | _ => Ok ([], ts)
  end.

(* Parser.NameAttrib *)
Definition p_nameattrib (ts : list token) : res (N * attrib * list token) :=
  match ts with
  | TName k :: r =>
    match r with
    | TLt :: r1 =>
      match r1 with
      | TName a :: r2 =>
        let at_ := if (a =? CONST_ID)%N then Some AConst else if (a =? CLOSE_ID)%N then Some AClose else None in
        match at_ with
        | Some at' => match r2 with TGt :: r3 => Ok (k, at', r3) | _ => Err r2 end
        | None => Err r1
        end
      | _ => Err r1
      end
    | _ => Ok (k, ANone, r)
    end
  | _ => Err ts
  end.

Fixpoint more_attribs (n : nat) (ts : list token) : res (list (N * attrib) * list token) :=
  match n with
  | O => OutOfFuel
  | S n =>
    match ts with
    | TComma :: r =>
      bind (p_nameattrib r) (fun x =>
        bind (more_attribs n (snd x)) (fun y => Ok (fst x :: fst y, snd y)))
    | _ => Ok ([], ts)
    end
  end.

Definition is_var (e : exp) : bool := match e with EName _ | EIndex _ _ => true | _ => false end.

(* Parser.prefixExp's third result: the prefix expression read from [ts] (leaving [rest]) is of the form '(' exp ')'
   with no suffix — then it is not a variable even if exp is one.  Recomputed here from the token lists: the
   parenthesised expression ends where the whole prefix expression ends. *)
Definition bracketed (ts rest : list token) : bool :=
  match ts with
  | TLParen :: ts' =>
    match exp_at ts' with
    | Ok (_, TRParen :: r2) => Nat.eqb (length r2) (length rest)
    | _ => false
    end
  | _ => false
  end.

(* for t.Type == token.SgComma { pexp, t = p.PrefixExp(p.Scan()); must be a Var } *)
Fixpoint more_vars (n : nat) (ts : list token) : res (list exp * list token) :=
  match n with
  | O => OutOfFuel
  | S n =>
    match ts with
    | TComma :: r =>
      bind (prefix_at r) (fun x =>
        if is_var (fst x) && negb (bracketed r (snd x))
        then bind (more_vars n (snd x)) (fun y => Ok (fst x :: fst y, snd y))
        else Err (snd x))
    | _ => Ok ([], ts)
    end
  end.

Record sparsers := {
  r_block : list token -> res (block * list token);
  r_stat : list token -> res (stat * list token);
  r_ifrest : list token -> res (ifrest * list token)
}.

Definition sbottom : sparsers :=
  {| r_block := fun _ => OutOfFuel; r_stat := fun _ => OutOfFuel; r_ifrest := fun _ => OutOfFuel |}.

Section SStep.
Variable P : sparsers.

(* block 'end' *)
Definition block_end {A} (ts : list token) (k : block -> list token -> res A) : res A :=
  bind (r_block P ts) (fun x => match snd x with TEnd :: r => k (fst x) r | r => Err r end).

(* FunctionDef: '(' params ')' block 'end' *)
Definition funcbody {A} (ts : list token) (k : list N -> bool -> block -> list token -> res A) : res A :=
  match ts with
  | TLParen :: r =>
    bind (p_params r) (fun x =>
      match snd x with
      | TRParen :: r2 => block_end r2 (fun b r3 => k (fst (fst x)) (snd (fst x)) b r3)
      | r2 => Err r2
      end)
  | _ => Err ts
  end.

(* Parser.Return, after 'return' *)
Definition s_return (ts : list token) : res (block * list token) :=
  match ts with
  | TSemi :: r => Ok (BNil (Some []), r)
  | (TEnd | TElse | TElseIf | TUntil) :: _ | [] => Ok (BNil (Some []), ts)
  | _ =>
    bind (explist_at ts) (fun x =>
      match snd x with
      | TSemi :: r => Ok (BNil (Some (fst x)), r)
      | r => Ok (BNil (Some (fst x)), r)
      end)
  end.

(* Parser.Block *)
Definition s_block (ts : list token) : res (block * list token) :=
  match ts with
  | TReturn :: r => s_return r
  | (TEnd | TElse | TElseIf | TUntil) :: _ | [] => Ok (BNil None, ts)
  | _ =>
    bind (r_stat P ts) (fun x =>
      bind (r_block P (snd x)) (fun y => Ok (BCons (fst x) (fst y), snd y)))
  end.

(* the loop of Parser.If after the first  then block *)
Definition s_ifrest (ts : list token) : res (ifrest * list token) :=
  match ts with
  | TElseIf :: r =>
    bind (exp_at r) (fun c =>
      match snd c with
      | TThen :: r1 =>
        bind (r_block P r1) (fun b =>
          bind (r_ifrest P (snd b)) (fun z => Ok (IElseIf (fst c) (fst b) (fst z), snd z)))
      | r1 => Err r1
      end)
  | TEnd :: r => Ok (IEnd, r)
  | TElse :: r => block_end r (fun b r1 => Ok (IElse b, r1))
  | _ => Err ts      (* tokenError(endTok, …) — as repaired *)
  end.

Definition for_body (v : N) (e1 e2 : exp) (e3 : option exp) (ts : list token) : res (stat * list token) :=
  match ts with
  | TDo :: r => block_end r (fun b r1 => Ok (SForNum v e1 e2 e3 b, r1))
  | _ => Err ts
  end.

(* Parser.Stat *)
Definition s_stat (ts : list token) : res (stat * list token) :=
  match ts with
  | TSemi :: r => Ok (SEmpty, r)
  | TBreak :: r => Ok (SBreak, r)
  | TGoto :: r => match r with TName k :: r' => Ok (SGoto k, r') | _ => Err r end
  | TDo :: r => block_end r (fun b r1 => Ok (SDo b, r1))
  | TWhile :: r =>
    bind (exp_at r) (fun c =>
      match snd c with
      | TDo :: r1 => block_end r1 (fun b r2 => Ok (SWhile (fst c) b, r2))
      | r1 => Err r1
      end)
  | TRepeat :: r =>
    bind (r_block P r) (fun b =>
      match snd b with
      | TUntil :: r1 => bind (exp_at r1) (fun c => Ok (SRepeat (fst b) (fst c), snd c))
      | r1 => Err r1
      end)
  | TIf :: r =>
    bind (exp_at r) (fun c =>
      match snd c with
      | TThen :: r1 =>
        bind (r_block P r1) (fun b =>
          bind (r_ifrest P (snd b)) (fun z => Ok (SIf (fst c) (fst b) (fst z), snd z)))
      | r1 => Err r1
      end)
  | TFor :: r =>
    match r with
    | TName v :: r0 =>
      match r0 with
      | TAssign :: r1 =>
        bind (exp_at r1) (fun a =>
          match snd a with
          | TComma :: r2 =>
            bind (exp_at r2) (fun b =>
              match snd b with
              | TComma :: r3 => bind (exp_at r3) (fun c => for_body v (fst a) (fst b) (Some (fst c)) (snd c))
              | r3 => for_body v (fst a) (fst b) None r3
              end)
          | r2 => Err r2
          end)
      | _ =>
        bind (more_names r0) (fun ns =>
          match snd ns with
          | TIn :: r2 =>
            bind (explist_at r2) (fun es =>
              match snd es with
              | TDo :: r3 => block_end r3 (fun b r4 => Ok (SForIn (v :: fst ns) (fst es) b, r4))
              | r3 => Err r3
              end)
          | r2 => Err r2
          end)
      end
    | _ => Err r
    end
  | TFunction :: r =>
    match r with
    | TName k :: r1 =>
      bind (p_dotted r1) (fun d =>
        match snd d with
        | TColon :: r2 =>
          match r2 with
          | TName m :: r3 => funcbody r3 (fun ps dots b r4 => Ok (SFunction (k :: fst d) (Some m) ps dots b, r4))
          | _ => Err r2
          end
        | r2 => funcbody r2 (fun ps dots b r4 => Ok (SFunction (k :: fst d) None ps dots b, r4))
        end)
    | _ => Err r
    end
  | TLocal :: r =>
    match r with
    | TFunction :: r1 =>
      match r1 with
      | TName k :: r2 => funcbody r2 (fun ps dots b r3 => Ok (SLocalFunction k ps dots b, r3))
      | _ => Err r1
      end
    | _ =>
      bind (p_nameattrib r) (fun na =>
        bind (more_attribs (S (length r)) (snd na)) (fun more =>
          match snd more with
          | TAssign :: r2 =>
            bind (explist_at r2) (fun es => Ok (SLocal ((fst (fst na), snd (fst na)) :: fst more) (fst es), snd es))
          | r2 => Ok (SLocal ((fst (fst na), snd (fst na)) :: fst more) [], r2)
          end))
    end
  | TDColon :: r =>
    match r with
    | TName k :: r1 => match r1 with TDColon :: r2 => Ok (SLabel k, r2) | _ => Err r1 end
    | _ => Err r
    end
  | _ =>
    bind (prefix_at ts) (fun x =>
      match fst x with
      | ECall _ _ _ _ => Ok (SCall (fst x), snd x)
      | EName _ | EIndex _ _ =>
        if bracketed ts (snd x) then Err (snd x) else
        bind (more_vars (S (length ts)) (snd x)) (fun vs =>
          match snd vs with
          | TAssign :: r2 => bind (explist_at r2) (fun es => Ok (SAssign (fst x :: fst vs) (fst es), snd es))
          | r2 => Err r2
          end)
      | _ => Err (snd x)
      end)
  end.

Definition sstep : sparsers := {| r_block := s_block; r_stat := s_stat; r_ifrest := s_ifrest |}.
End SStep.

Fixpoint sparsers_at (n : nat) : sparsers :=
  match n with
  | O => sbottom
  | S n => sstep (sparsers_at n)
  end.

(* parsing.ParseChunk: a block, then EOF *)
Definition chunk_fuel (ts : list token) : nat := 2 * length ts + 4.
Definition parse_chunk (ts : list token) : res block :=
  bind (r_block (sparsers_at (chunk_fuel ts)) ts)
       (fun x => match snd x with [] => Ok (fst x) | r => Err r end).
