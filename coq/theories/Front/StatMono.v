(* Front/StatMono.v — more block-nesting fuel never changes an answer of the
   chunk parser. *)
From Coq Require Import NArith List Bool Arith Lia.
From GV Require Import Front.Token Front.Parse Front.Mono Front.Stat.
Import ListNotations.

Definition sple (P Q : sparsers) : Prop :=
  (forall ts, le_res (r_block P ts) (r_block Q ts)) /\
  (forall ts, le_res (r_stat P ts) (r_stat Q ts)) /\
  (forall ts, le_res (r_ifrest P ts) (r_ifrest Q ts)).

Ltac smono_step :=
  first
    [ apply le_res_refl
    | solve [auto]
    | apply le_bind; [solve [auto using le_res_refl]|intros]
    | match goal with
      | |- le_res (match ?x with _ => _ end) (match ?x with _ => _ end) => destruct x
      | |- le_res (if ?c then _ else _) (if ?c then _ else _) => destruct c
      end ].

Lemma sstep_mono P Q : sple P Q -> sple (sstep P) (sstep Q).
Proof.
  intros (H1 & H2 & H3).
  refine (conj _ (conj _ _)); intros ts; cbn [sstep r_block r_stat r_ifrest].
  - unfold s_block. repeat smono_step.
  - unfold s_stat, for_body, funcbody, block_end. repeat smono_step.
  - unfold s_ifrest, block_end. repeat smono_step.
Qed.

Lemma sple_refl P : sple P P.
Proof. repeat split; intros; apply le_res_refl. Qed.

Lemma sple_trans P Q R : sple P Q -> sple Q R -> sple P R.
Proof. intros (A1 & A2 & A3) (B1 & B2 & B3). repeat split; intros; eapply le_res_trans; eauto. Qed.

Lemma sparsers_mono_S n : sple (sparsers_at n) (sparsers_at (S n)).
Proof.
  induction n; [repeat split; intros; left; reflexivity|]. simpl. apply sstep_mono. exact IHn.
Qed.

Theorem sparsers_mono n m : n <= m -> sple (sparsers_at n) (sparsers_at m).
Proof. induction 1; [apply sple_refl|]. eapply sple_trans; [exact IHle|apply sparsers_mono_S]. Qed.

(* the chunk parser with an explicit fuel, and its monotonicity *)
Definition parse_chunk_fuel (n : nat) (ts : list token) : res block :=
  bind (r_block (sparsers_at n) ts) (fun x => match snd x with [] => Ok (fst x) | r => Err r end).

Theorem parse_chunk_fuel_mono n m ts : n <= m -> le_res (parse_chunk_fuel n ts) (parse_chunk_fuel m ts).
Proof.
  intros H. unfold parse_chunk_fuel. apply le_bind; [apply (sparsers_mono n m H)|intros; apply le_res_refl].
Qed.

Lemma parse_chunk_is_fuel ts : parse_chunk ts = parse_chunk_fuel (chunk_fuel ts) ts.
Proof. reflexivity. Qed.
