(* Front/Lex.v — denotation of integer numerals.  Definitions only.

   S  = Lua 5.4 manual §3.1: "A numeric constant with neither a radix point nor
        an exponent denotes an integer value if it fits an integer, otherwise
        (overflow) a float … hexadecimal numerals with neither a radix point
        nor an exponent always denote an integer value; if the value overflows,
        it wraps around to fit into a valid integer."
   IM = ast.NewNumber (/repo/ast/number.go), integer branch: hexadecimal keeps
        the last 16 digits and uses strconv.ParseUint(…, 16, 64), the uint64 being
        reinterpreted as int64; decimal (as repaired) uses strconv.ParseInt(…, 10, 64),
        which succeeds exactly for values <= 2^63-1, and on its failure
        strconv.ParseFloat.
   A float result is represented by the natural number it must be nearest to
   ([NFloatOf n]; the rounding itself is strconv.ParseFloat's, trusted). *)
From Coq Require Import ZArith List.
Import ListNotations.
Open Scope Z_scope.

Inductive numval := NInt (z : Z) | NFloatOf (n : Z).

Definition wrap64 (n : Z) : Z :=
  let m := n mod 2 ^ 64 in if m <? 2 ^ 63 then m else m - 2 ^ 64.

Fixpoint digits_val (base : Z) (ds : list Z) (acc : Z) : Z :=
  match ds with
  | [] => acc
  | d :: r => digits_val base r (acc * base + d)
  end.

Definition s_dec (ds : list Z) : numval :=
  let n := digits_val 10 ds 0 in if n <? 2 ^ 63 then NInt n else NFloatOf n.

Definition s_hex (ds : list Z) : numval := NInt (wrap64 (digits_val 16 ds 0)).

Definition go_dec (ds : list Z) : numval :=
  let n := digits_val 10 ds 0 in if n <=? 2 ^ 63 - 1 then NInt n else NFloatOf n.

Definition go_hex (ds : list Z) : numval :=
  let ds' := if (16 <? length ds)%nat then skipn (length ds - 16) ds else ds in
  NInt (wrap64 (digits_val 16 ds' 0)).
