(* Front/Parse.v — implementation model (IM) of golua's expression parser,
   /repo/parsing/parser.go, over token lists.  Definitions only.

     p_exp      = Parser.Exp        (operator stack, mergepop, pdiff rule)
     p_loop     = the  for t.Type.IsBinOp()  loop of Parser.Exp
     p_short    = Parser.ShortExp   (atoms, unary operators, '^' right-assoc)
     p_prefix   = Parser.PrefixExp  (name | '(' exp ')' with InBrackets), then
     p_suffix   = its  for { switch t.Type … }  loop (index, dot, method call, call)
     p_args     = Parser.Args       (nil ⇒ None)
     p_explist  = Parser.ExpList
     p_table / p_fields / p_field = Parser.TableConstructor / its loop / Parser.Field

   The end of the token list stands for the EOF token.  Go's recursion and
   loops become recursion on a fuel argument; [OutOfFuel] is distinct from
   every real outcome.  A Go  panic(Error{Got: t})  becomes [Err rest] where
   [rest] is the token list starting at the offending token [t] (so its
   position — hence its line — is determined).  'function' expressions need
   the statement parser and yield [Unsupported] here (see Front/Stat.v). *)
From Coq Require Import NArith List Bool Arith.
From GV Require Import Front.Token.
Import ListNotations.

Inductive res (A : Type) :=
| Ok (a : A)
| Err (rest : list token)
| Unsupported
| OutOfFuel.
Arguments Ok {A} a.
Arguments Err {A} rest.
Arguments Unsupported {A}.
Arguments OutOfFuel {A}.

Definition bind {A B} (r : res A) (k : A -> res B) : res B :=
  match r with
  | Ok a => k a
  | Err t => Err t
  | Unsupported => Unsupported
  | OutOfFuel => OutOfFuel
  end.

(* ------------------------------------------------------- the operator stack *)
(* parser.go: type item struct{exp; op; tok} *)
Definition item := (exp * binop)%type.

(* pdiff := op.Precedence() - last.op.Precedence();
   pdiff > 0 || (pdiff == 0 && op == ops.OpConcat)  ⇒ break *)
Definition breaks (op lastop : binop) : bool :=
  (prec lastop <? prec op) || ((prec op =? prec lastop) && is_concat op).

(* for len(stack) > 0 { if breaks {break}; stack, last = mergepop(stack, last) };
   the head of the list is the top of the stack *)
Fixpoint reduce (op : binop) (stack : list item) (last : item) : list item * item :=
  match stack with
  | [] => ([], last)
  | top :: st =>
    if breaks op (snd last) then (stack, last)
    else reduce op st (EBin (snd last) (fst top) (fst last), snd top)
  end.

(* for len(stack) > 0 { stack, last = mergepop(stack, last) }; return last.exp *)
Fixpoint unwind (stack : list item) (last : item) : exp :=
  match stack with
  | [] => fst last
  | top :: st => unwind st (EBin (snd last) (fst top) (fst last), snd top)
  end.

(* ------------------------------------------------- ShortExp's switch on t.Type *)
Inductive shead :=
| HAtom (e : exp)     (* nil true false number string long-string ... *)
| HTable              (* '{' *)
| HFunction           (* 'function' *)
| HUn (o : unop)      (* - not # ~ *)
| HOther.             (* default: PrefixExp *)

Definition short_head (t : token) : shead :=
  match t with
  | TNil => HAtom ENil | TTrue => HAtom ETrue | TFalse => HAtom EFalse
  | TNum k => HAtom (ENum k)
  | TStr k => HAtom (EStr k)
  | TLStr k => HAtom (EStr k)
  | TEtc => HAtom EEtc
  | TLBrace => HTable
  | TFunction => HFunction
  | TMinus => HUn OpNeg | TNot => HUn OpNot | THash => HUn OpLen | TTilde => HUn OpBitNot
  | _ => HOther
  end.

(* exp.(ast.FunctionCall) ⇒ f.InBrackets() *)
Definition in_brackets (e : exp) : exp := if is_call e then EParen e else e.

Definition is_sep (t : token) : bool := match t with TComma | TSemi => true | _ => false end.

Fixpoint p_exp (n : nat) (ts : list token) {struct n} : res (exp * list token) :=
  match n with
  | O => OutOfFuel
  | S n => bind (p_short n ts) (fun r => p_loop n [] (fst r, OpOr) (snd r))
  end

with p_loop (n : nat) (stack : list item) (last : item) (ts : list token) {struct n}
  : res (exp * list token) :=
  match n with
  | O => OutOfFuel
  | S n =>
    match ts with
    | t :: ts' =>
      match binop_of t with
      | Some op =>
        bind (p_short n ts') (fun r =>
          let sl := reduce op stack last in
          p_loop n (snd sl :: fst sl) (fst r, op) (snd r))
      | None => Ok (unwind stack last, ts)
      end
    | [] => Ok (unwind stack last, ts)
    end
  end

with p_short (n : nat) (ts : list token) {struct n} : res (exp * list token) :=
  match n with
  | O => OutOfFuel
  | S n =>
    let r :=
      match ts with
      | t :: ts' =>
        match short_head t with
        | HAtom e => Ok (e, ts')
        | HTable => p_table n ts'
        | HFunction => Unsupported
        | HUn o => bind (p_short n ts') (fun r => Ok (EUn o (fst r), snd r))
        | HOther => p_prefix n ts
        end
      | [] => p_prefix n ts
      end in
    match r with
    | Ok (e, THat :: ts1) => bind (p_short n ts1) (fun r => Ok (EBin OpPow e (fst r), snd r))
    | _ => r
    end
  end

with p_prefix (n : nat) (ts : list token) {struct n} : res (exp * list token) :=
  match n with
  | O => OutOfFuel
  | S n =>
    match ts with
    | TLParen :: ts' =>
      bind (p_exp n ts') (fun r =>
        match snd r with
        | TRParen :: ts2 => p_suffix n (in_brackets (fst r)) ts2
        | ts2 => Err ts2
        end)
    | TName k :: ts' => p_suffix n (EName k) ts'
    | _ => Err ts
    end
  end

with p_suffix (n : nat) (e : exp) (ts : list token) {struct n} : res (exp * list token) :=
  match n with
  | O => OutOfFuel
  | S n =>
    match ts with
    | TLBrack :: ts' =>
      bind (p_exp n ts') (fun r =>
        match snd r with
        | TRBrack :: ts2 => p_suffix n (EIndex e (fst r)) ts2
        | ts2 => Err ts2
        end)
    | TDot :: ts' =>
      match ts' with
      | TName k :: ts2 => p_suffix n (EIndex e (EStr k)) ts2
      | _ => Err ts'
      end
    | TColon :: ts' =>
      match ts' with
      | TName k :: ts2 =>
        bind (p_args n ts2) (fun r =>
          match fst r with
          | Some args => p_suffix n (ECall e (Some k) false args) (snd r)
          | None => Err (snd r)
          end)
      | _ => Err ts'
      end
    | _ =>
      bind (p_args n ts) (fun r =>
        match fst r with
        | Some args => p_suffix n (ECall e None false args) (snd r)
        | None => Ok (e, snd r)
        end)
    end
  end

with p_args (n : nat) (ts : list token) {struct n} : res (option (list exp) * list token) :=
  match n with
  | O => OutOfFuel
  | S n =>
    match ts with
    | TLParen :: ts' =>
      match ts' with
      | TRParen :: ts2 => Ok (Some [], ts2)
      | _ =>
        bind (p_explist n ts') (fun r =>
          match snd r with
          | TRParen :: ts2 => Ok (Some (fst r), ts2)
          | ts2 => Err ts2
          end)
      end
    | TLBrace :: ts' => bind (p_table n ts') (fun r => Ok (Some [fst r], snd r))
    | TStr k :: ts' => Ok (Some [EStr k], ts')
    | TLStr k :: ts' => Ok (Some [EStr k], ts')
    | _ => Ok (None, ts)
    end
  end

with p_explist (n : nat) (ts : list token) {struct n} : res (list exp * list token) :=
  match n with
  | O => OutOfFuel
  | S n =>
    bind (p_exp n ts) (fun r =>
      match snd r with
      | TComma :: ts1 => bind (p_explist n ts1) (fun r2 => Ok (fst r :: fst r2, snd r2))
      | ts1 => Ok ([fst r], ts1)
      end)
  end

(* called after '{' has been consumed *)
with p_table (n : nat) (ts : list token) {struct n} : res (exp * list token) :=
  match n with
  | O => OutOfFuel
  | S n =>
    match ts with
    | TRBrace :: ts' => Ok (ETable [] false, ts')
    | _ =>
      bind (p_fields n ts) (fun r =>
        match snd r with
        | TRBrace :: ts2 => Ok (ETable (fst r) false, ts2)
        | ts2 => Err ts2
        end)
    end
  end

with p_fields (n : nat) (ts : list token) {struct n} : res (list field * list token) :=
  match n with
  | O => OutOfFuel
  | S n =>
    bind (p_field n ts) (fun r =>
      match snd r with
      | t :: ts1 =>
        if is_sep t then
          match ts1 with
          | TRBrace :: _ => Ok ([fst r], ts1)
          | _ => bind (p_fields n ts1) (fun r2 => Ok (fst r :: fst r2, snd r2))
          end
        else Ok ([fst r], snd r)
      | [] => Ok ([fst r], [])
      end)
  end

with p_field (n : nat) (ts : list token) {struct n} : res (field * list token) :=
  match n with
  | O => OutOfFuel
  | S n =>
    match ts with
    | TLBrack :: ts' =>
      bind (p_exp n ts') (fun r =>
        match snd r with
        | TRBrack :: ts2 =>
          match ts2 with
          | TAssign :: ts3 => bind (p_exp n ts3) (fun r2 => Ok ((FKey, fst r, fst r2, false), snd r2))
          | _ => Err ts2
          end
        | ts2 => Err ts2
        end)
    | _ =>
      bind (p_exp n ts) (fun r =>
        match snd r with
        | TAssign :: ts1 =>
          match fst r with
          | EName k => bind (p_exp n ts1) (fun r2 => Ok ((FKey, EStr k, fst r2, false), snd r2))
          | _ => Err (snd r)
          end
        | ts1 => Ok ((FPos, ENil, fst r, false), ts1)
        end)
    end
  end.

(* parsing.ParseExp: one expression, then EOF is expected *)
Definition parse_fuel (n : nat) (ts : list token) : res exp :=
  bind (p_exp n ts) (fun r => match snd r with [] => Ok (fst r) | rest => Err rest end).

(* enough fuel for every input (Front/Total.v: never OutOfFuel) *)
Definition fuel_for (ts : list token) : nat := 4 * length ts + 8.
Definition parse (ts : list token) : res exp := parse_fuel (fuel_for ts) ts.

(* ------------------------------------------------- ast.NewBinOp's list merging
   The Go AST keeps  left op1 e1 op2 e2 …  of one precedence ("OpType") in one
   node.  [gexp] is that shape for the operator skeleton (other nodes are
   leaves here), [new_binop] is ast.NewBinOp, [unflatten] the left fold that
   the harness applies when it dumps a Go AST. *)
Inductive gexp :=
| GLeaf (e : exp)
| GBin (left : gexp) (optype : nat) (right : list (binop * gexp)).

Definition new_binop (left : gexp) (op : binop) (right : gexp) : gexp :=
  match left with
  | GBin l ty ops =>
    if ty =? prec op then GBin l ty (ops ++ [(op, right)])
    else GBin left (prec op) [(op, right)]
  | _ => GBin left (prec op) [(op, right)]
  end.

Fixpoint unflatten (g : gexp) : exp :=
  match g with
  | GLeaf e => e
  | GBin l _ ops =>
    (fix go (acc : exp) (ops : list (binop * gexp)) : exp :=
       match ops with
       | [] => acc
       | (op, r) :: rest => go (EBin op acc (unflatten r)) rest
       end) (unflatten l) ops
  end.
