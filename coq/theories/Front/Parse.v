(* Front/Parse.v — implementation model (IM) of golua's expression parser,
   /repo/parsing/parser.go, over token lists.  Definitions only.

     p_exp      = Parser.Exp        (operator stack, mergepop, pdiff rule)
     p_loop     = the  for t.Type.IsBinOp()  loop of Parser.Exp
     p_short    = Parser.ShortExp   (atoms, unary operators, '^' right-assoc)
     p_prefix   = Parser.PrefixExp  (name | '(' exp ')' with InBrackets), then
     p_suffix   = its  for { switch t.Type … }  loop (index, dot, method call, call)
     p_args     = Parser.Args       (nil ⇒ None)
     p_explist  = Parser.ExpList
     p_table / p_fields / p_field = Parser.TableConstructor / its loop / Parser.Field

   The end of the token list stands for the EOF token.  Go's recursion and
   loops become recursion on a fuel argument (every call costs one unit); [OutOfFuel] is distinct from
   every real outcome.  A Go  panic(Error{Got: t})  becomes [Err rest] where
   [rest] is the token list starting at the offending token [t] (so its
   position — hence its line — is determined).  'function' expressions need
   the statement parser and yield [Unsupported] here (see Front/Stat.v). *)
From Coq Require Import NArith List Bool Arith.
From GV Require Import Front.Token.
Import ListNotations.

Inductive res (A : Type) :=
| Ok (a : A)
| Err (rest : list token)
| Unsupported
| OutOfFuel.
Arguments Ok {A} a.
Arguments Err {A} rest.
Arguments Unsupported {A}.
Arguments OutOfFuel {A}.

Definition bind {A B} (r : res A) (k : A -> res B) : res B :=
  match r with
  | Ok a => k a
  | Err t => Err t
  | Unsupported => Unsupported
  | OutOfFuel => OutOfFuel
  end.

(* ------------------------------------------------------- the operator stack *)
(* parser.go: type item struct{exp; op; tok} *)
Definition item := (exp * binop)%type.

(* pdiff := op.Precedence() - last.op.Precedence();
   pdiff > 0 || (pdiff == 0 && op == ops.OpConcat)  ⇒ break *)
Definition breaks (op lastop : binop) : bool :=
  (prec lastop <? prec op) || ((prec op =? prec lastop) && is_concat op).

(* for len(stack) > 0 { if breaks {break}; stack, last = mergepop(stack, last) };
   the head of the list is the top of the stack *)
Fixpoint reduce (op : binop) (stack : list item) (last : item) : list item * item :=
  match stack with
  | [] => ([], last)
  | top :: st =>
    if breaks op (snd last) then (stack, last)
    else reduce op st (EBin (snd last) (fst top) (fst last), snd top)
  end.

(* for len(stack) > 0 { stack, last = mergepop(stack, last) }; return last.exp *)
Fixpoint unwind (stack : list item) (last : item) : exp :=
  match stack with
  | [] => fst last
  | top :: st => unwind st (EBin (snd last) (fst top) (fst last), snd top)
  end.

(* ------------------------------------------------- ShortExp's switch on t.Type *)
Inductive shead :=
| HAtom (e : exp)     (* nil true false number string long-string ... *)
| HTable              (* '{' *)
| HFunction           (* 'function' *)
| HUn (o : unop)      (* - not # ~ *)
| HOther.             (* default: PrefixExp *)

Definition short_head (t : token) : shead :=
  match t with
  | TNil => HAtom ENil | TTrue => HAtom ETrue | TFalse => HAtom EFalse
  | TNum k => HAtom (ENum k)
  | TStr k => HAtom (EStr k)
  | TLStr k => HAtom (EStr k)
  | TEtc => HAtom EEtc
  | TLBrace => HTable
  | TFunction => HFunction
  | TMinus => HUn OpNeg | TNot => HUn OpNot | THash => HUn OpLen | TTilde => HUn OpBitNot
  | _ => HOther
  end.

(* Parser.Field,  Name '=' exp : the key is a name token, not an expression that denotes a name
   ( {(a) = 1}  is not a field):  val.(ast.Name) && firstTok.Type == token.IDENT *)
Definition field_named (ts : list token) (e : exp) : option N :=
  match e, ts with
  | EName k, TName _ :: _ => Some k
  | _, _ => None
  end.

Definition is_sep (t : token) : bool := match t with TComma | TSemi => true | _ => false end.

(* The nine mutually recursive parser functions.  [step P] is one unfolding of
   all of them, the recursive calls going to the record [P] (the functions with
   one unit of fuel less); [parsers_at n] ties the knot on the fuel. *)
Record parsers := {
  r_exp : list token -> res (exp * list token);
  r_loop : list item -> item -> list token -> res (exp * list token);
  r_short : list token -> res (exp * list token);
  r_prefix : list token -> res (exp * list token);
  r_suffix : exp -> list token -> res (exp * list token);
  r_args : list token -> res (option (list exp) * list token);
  r_explist : list token -> res (list exp * list token);
  r_table : list token -> res (exp * list token);
  r_fields : list token -> res (list field * list token);
  r_field : list token -> res (field * list token)
}.

Definition bottom : parsers := {|
  r_exp := fun _ => OutOfFuel; r_loop := fun _ _ _ => OutOfFuel; r_short := fun _ => OutOfFuel;
  r_prefix := fun _ => OutOfFuel; r_suffix := fun _ _ => OutOfFuel; r_args := fun _ => OutOfFuel;
  r_explist := fun _ => OutOfFuel; r_table := fun _ => OutOfFuel; r_fields := fun _ => OutOfFuel;
  r_field := fun _ => OutOfFuel |}.

Section Step.
Variable P : parsers.

(* Parser.Exp *)
Definition s_exp (ts : list token) : res (exp * list token) :=
  bind (r_short P ts) (fun r => r_loop P [] (fst r, OpOr) (snd r)).

(* the  for t.Type.IsBinOp()  loop of Parser.Exp, then the final unwinding *)
Definition s_loop (stack : list item) (last : item) (ts : list token) : res (exp * list token) :=
  match ts with
  | t :: ts' =>
    match binop_of t with
    | Some op =>
      bind (r_short P ts') (fun r =>
        let sl := reduce op stack last in
        r_loop P (snd sl :: fst sl) (fst r, op) (snd r))
    | None => Ok (unwind stack last, ts)
    end
  | [] => Ok (unwind stack last, ts)
  end.

(* Parser.ShortExp: the switch … *)
Definition s_short1 (ts : list token) : res (exp * list token) :=
  match ts with
  | t :: ts' =>
    match short_head t with
    | HAtom e => Ok (e, ts')
    | HTable => r_table P ts'
    | HFunction => Unsupported
    | HUn o => bind (r_short P ts') (fun r => Ok (EUn o (fst r), snd r))
    | HOther => r_prefix P ts
    end
  | [] => r_prefix P ts
  end.

(* … and  if t.Type == token.SgHat { pow, t = p.ShortExp(p.Scan()); … } *)
Definition s_pow_tail (r : res (exp * list token)) : res (exp * list token) :=
  match r with
  | Ok (e, THat :: ts1) => bind (r_short P ts1) (fun r => Ok (EBin OpPow e (fst r), snd r))
  | _ => r
  end.

Definition s_short (ts : list token) : res (exp * list token) := s_pow_tail (s_short1 ts).

(* Parser.PrefixExp up to its loop *)
Definition s_prefix (ts : list token) : res (exp * list token) :=
  match ts with
  | TLParen :: ts' =>
    bind (r_exp P ts') (fun r =>
      match snd r with
      | TRParen :: ts2 => r_suffix P (in_brackets (fst r)) ts2
      | ts2 => Err ts2
      end)
  | TName k :: ts' => r_suffix P (EName k) ts'
  | _ => Err ts
  end.

(* the  for { switch t.Type … }  loop of Parser.PrefixExp *)
Definition s_suffix (e : exp) (ts : list token) : res (exp * list token) :=
  match ts with
  | TLBrack :: ts' =>
    bind (r_exp P ts') (fun r =>
      match snd r with
      | TRBrack :: ts2 => r_suffix P (EIndex e (fst r)) ts2
      | ts2 => Err ts2
      end)
  | TDot :: ts' =>
    match ts' with
    | TName k :: ts2 => r_suffix P (EIndex e (EStr k)) ts2
    | _ => Err ts'
    end
  | TColon :: ts' =>
    match ts' with
    | TName k :: ts2 =>
      bind (r_args P ts2) (fun r =>
        match fst r with
        | Some args => r_suffix P (ECall e (Some k) false args) (snd r)
        | None => Err (snd r)
        end)
    | _ => Err ts'
    end
  | _ =>
    bind (r_args P ts) (fun r =>
      match fst r with
      | Some args => r_suffix P (ECall e None false args) (snd r)
      | None => Ok (e, snd r)
      end)
  end.

(* Parser.Args *)
Definition s_args (ts : list token) : res (option (list exp) * list token) :=
  match ts with
  | TLParen :: ts' =>
    match ts' with
    | TRParen :: ts2 => Ok (Some [], ts2)
    | _ =>
      bind (r_explist P ts') (fun r =>
        match snd r with
        | TRParen :: ts2 => Ok (Some (fst r), ts2)
        | ts2 => Err ts2
        end)
    end
  | TLBrace :: ts' => bind (r_table P ts') (fun r => Ok (Some [fst r], snd r))
  | TStr k :: ts' => Ok (Some [EStr k], ts')
  | TLStr k :: ts' => Ok (Some [EStr k], ts')
  | _ => Ok (None, ts)
  end.

(* Parser.ExpList *)
Definition s_explist (ts : list token) : res (list exp * list token) :=
  bind (r_exp P ts) (fun r =>
    match snd r with
    | TComma :: ts1 => bind (r_explist P ts1) (fun r2 => Ok (fst r :: fst r2, snd r2))
    | ts1 => Ok ([fst r], ts1)
    end).

(* Parser.TableConstructor, after '{' has been consumed *)
Definition s_table (ts : list token) : res (exp * list token) :=
  match ts with
  | TRBrace :: ts' => Ok (ETable [] false, ts')
  | _ =>
    bind (r_fields P ts) (fun r =>
      match snd r with
      | TRBrace :: ts2 => Ok (ETable (fst r) false, ts2)
      | ts2 => Err ts2
      end)
  end.

Definition s_fields (ts : list token) : res (list field * list token) :=
  bind (r_field P ts) (fun r =>
    match snd r with
    | t :: ts1 =>
      if is_sep t then
        match ts1 with
        | TRBrace :: _ => Ok ([fst r], ts1)
        | _ => bind (r_fields P ts1) (fun r2 => Ok (fst r :: fst r2, snd r2))
        end
      else Ok ([fst r], snd r)
    | [] => Ok ([fst r], [])
    end).

(* Parser.Field *)
Definition s_field (ts : list token) : res (field * list token) :=
  match ts with
  | TLBrack :: ts' =>
    bind (r_exp P ts') (fun r =>
      match snd r with
      | TRBrack :: ts2 =>
        match ts2 with
        | TAssign :: ts3 => bind (r_exp P ts3) (fun r2 => Ok ((FKey, fst r, fst r2, false), snd r2))
        | _ => Err ts2
        end
      | ts2 => Err ts2
      end)
  | _ =>
    bind (r_exp P ts) (fun r =>
      match snd r with
      | TAssign :: ts1 =>
        match field_named ts (fst r) with
        | Some k => bind (r_exp P ts1) (fun r2 => Ok ((FKey, EStr k, fst r2, false), snd r2))
        | None => Err (snd r)
        end
      | ts1 => Ok ((FPos, ENil, fst r, false), ts1)
      end)
  end.

Definition step : parsers := {|
  r_exp := s_exp; r_loop := s_loop; r_short := s_short; r_prefix := s_prefix; r_suffix := s_suffix;
  r_args := s_args; r_explist := s_explist; r_table := s_table; r_fields := s_fields; r_field := s_field |}.
End Step.

Fixpoint parsers_at (n : nat) : parsers :=
  match n with
  | O => bottom
  | S n => step (parsers_at n)
  end.

Definition p_exp (n : nat) := r_exp (parsers_at n).
Definition p_loop (n : nat) := r_loop (parsers_at n).
Definition p_short (n : nat) := r_short (parsers_at n).
Definition p_prefix (n : nat) := r_prefix (parsers_at n).
Definition p_suffix (n : nat) := r_suffix (parsers_at n).
Definition p_args (n : nat) := r_args (parsers_at n).
Definition p_explist (n : nat) := r_explist (parsers_at n).
Definition p_table (n : nat) := r_table (parsers_at n).
Definition p_fields (n : nat) := r_fields (parsers_at n).
Definition p_field (n : nat) := r_field (parsers_at n).

(* parsing.ParseExp: one expression, then EOF is expected *)
Definition parse_fuel (n : nat) (ts : list token) : res exp :=
  bind (p_exp n ts) (fun r => match snd r with [] => Ok (fst r) | rest => Err rest end).

(* enough fuel for every input (Front/Total.v: never OutOfFuel) *)
Definition fuel_for (ts : list token) : nat := 8 * length ts + 8.
Definition parse (ts : list token) : res exp := parse_fuel (fuel_for ts) ts.

(* ------------------------------------------------- ast.NewBinOp's list merging
   The Go AST keeps  left op1 e1 op2 e2 …  of one precedence ("OpType") in one
   node.  [gexp] is that shape for the operator skeleton (other nodes are
   leaves here), [new_binop] is ast.NewBinOp, [unflatten] the left fold that
   the harness applies when it dumps a Go AST. *)
Inductive gexp :=
| GLeaf (e : exp)
| GBin (left : gexp) (optype : nat) (right : list (binop * gexp)).

Definition new_binop (left : gexp) (op : binop) (right : gexp) : gexp :=
  match left with
  | GBin l ty ops =>
    if ty =? prec op then GBin l ty (ops ++ [(op, right)])
    else GBin left (prec op) [(op, right)]
  | _ => GBin left (prec op) [(op, right)]
  end.

Fixpoint unflatten (g : gexp) : exp :=
  match g with
  | GLeaf e => e
  | GBin l _ ops =>
    (fix go (acc : exp) (ops : list (binop * gexp)) : exp :=
       match ops with
       | [] => acc
       | (op, r) :: rest => go (EBin op acc (unflatten r)) rest
       end) (unflatten l) ops
  end.
