(* Front/StatNorm.v — round 8.  Definitions only.
   [norm_block b]: the block the parser must return for [pr_block b] when the
   expressions inside carry alternative spellings (a.k, f"s", f{…}, redundant
   parentheses, [=[long strings]=], Name= fields, ';' separators …): every
   expression is replaced by its denotation [Print.norm].
   [sp_block b]: the grammar's side conditions WITHOUT the demand that the
   expressions be plain: the (denotations of the) targets of an assignment are
   variables, a call statement denotes a call, both begin with a name; the
   lists the grammar wants non-empty are non-empty. *)
From Coq Require Import NArith List Bool Arith.
From GV Require Import Front.Token Front.Parse Front.Print Front.Stat Front.StatPrint.
Import ListNotations.

Fixpoint norm_stat (s : stat) : stat :=
  match s with
  | SEmpty => SEmpty | SBreak => SBreak | SGoto k => SGoto k | SLabel k => SLabel k
  | SDo b => SDo (norm_block b)
  | SWhile c b => SWhile (norm c) (norm_block b)
  | SRepeat b c => SRepeat (norm_block b) (norm c)
  | SIf c b r => SIf (norm c) (norm_block b) (norm_ifrest r)
  | SForNum v e1 e2 e3 b =>
    SForNum v (norm e1) (norm e2) (match e3 with Some e => Some (norm e) | None => None end) (norm_block b)
  | SForIn vs es b => SForIn vs (map norm es) (norm_block b)
  | SLocal vs es => SLocal vs (map norm es)
  | SAssign vs es => SAssign (map norm vs) (map norm es)
  | SCall e => SCall (norm e)
  | SFunction p m ps d b => SFunction p m ps d (norm_block b)
  | SLocalFunction k ps d b => SLocalFunction k ps d (norm_block b)
  end
with norm_ifrest (r : ifrest) : ifrest :=
  match r with
  | IEnd => IEnd
  | IElse b => IElse (norm_block b)
  | IElseIf c b r' => IElseIf (norm c) (norm_block b) (norm_ifrest r')
  end
with norm_block (b : block) : block :=
  match b with
  | BNil None => BNil None
  | BNil (Some es) => BNil (Some (map norm es))
  | BCons s b' => BCons (norm_stat s) (norm_block b')
  end.

Definition var_sp (v : exp) : bool := is_var (norm v) && starts_name v.
Definition call_sp (e : exp) : bool := is_call (norm e) && starts_name e.

Fixpoint sp_stat (s : stat) : bool :=
  match s with
  | SEmpty | SBreak | SGoto _ | SLabel _ => true
  | SDo b => sp_block b
  | SWhile _ b => sp_block b
  | SRepeat b _ => sp_block b
  | SIf _ b r => sp_block b && sp_ifrest r
  | SForNum _ _ _ _ b => sp_block b
  | SForIn vs es b => nonempty vs && nonempty es && sp_block b
  | SLocal vs _ => nonempty vs
  | SAssign vs es => nonempty vs && forallb var_sp vs && nonempty es
  | SCall e => call_sp e
  | SFunction path _ _ _ b => nonempty path && sp_block b
  | SLocalFunction _ _ _ b => sp_block b
  end
with sp_ifrest (r : ifrest) : bool :=
  match r with
  | IEnd => true
  | IElse b => sp_block b
  | IElseIf _ b r' => sp_block b && sp_ifrest r'
  end
with sp_block (b : block) : bool :=
  match b with
  | BNil _ => true
  | BCons s b' => sp_stat s && sp_block b'
  end.
