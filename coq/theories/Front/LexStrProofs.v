(* Front/LexStrProofs.v — string literal denotations: quoting round trip, long
   brackets, line-end normalisation. *)
From Coq Require Import NArith List Bool Arith Lia.
From GV Require Import Front.LexStr.
Import ListNotations.
Open Scope N_scope.

Definition bytes256 : list N := map N.of_nat (seq 0 256).

Lemma in_bytes256 b : b < 256 -> In b bytes256.
Proof.
  intros H. unfold bytes256. rewrite <- (N2Nat.id b). apply in_map. apply in_seq. lia.
Qed.

(* one quoted byte is read back as that byte, whatever follows *)
Lemma quote_byte_all :
  Forall (fun b => forall f rest, unesc (S f) (quote_byte b ++ rest) = cons_opt [b] (unesc f rest)) bytes256.
Proof.
  let l := eval vm_compute in bytes256 in change bytes256 with l.
  repeat (constructor; [intros f rest; reflexivity|]). constructor.
Qed.

Lemma quote_byte_ok b : b < 256 -> forall f rest,
  unesc (S f) (quote_byte b ++ rest) = cons_opt [b] (unesc f rest).
Proof.
  intros H. pose proof quote_byte_all as HA. rewrite Forall_forall in HA. apply HA. apply in_bytes256. exact H.
Qed.

Lemma quote_length_pos s : (length s <= length (quote s))%nat.
Proof.
  induction s as [|b r IH]; simpl; [lia|]. rewrite app_length. unfold quote_byte. destruct (plain_byte b); simpl; lia.
Qed.

Lemma unesc_quote : forall s, Forall (fun b => b < 256) s ->
  forall f, (length s < f)%nat -> unesc f (quote s) = Some s.
Proof.
  induction 1 as [|b r Hb Hr IH]; intros f Hf.
  - destruct f; [lia|]. reflexivity.
  - destruct f as [|f]; [lia|]. cbn [quote]. rewrite quote_byte_ok by exact Hb.
    rewrite IH by (simpl in Hf; lia). reflexivity.
Qed.

(* every byte string has a spelling, and the spelling denotes it *)
Theorem unescape_quote_roundtrip : forall s, Forall (fun b => b < 256) s -> unescape (quote s) = Some s.
Proof.
  intros s H. unfold unescape. apply unesc_quote; [exact H|].
  pose proof (quote_length_pos s). lia.
Qed.

(* ---------------------------------------------------------------- long brackets *)
Lemma count_eq_repeat level rest : count_eq (repeat 61 level ++ 91 :: rest) = level.
Proof. induction level; simpl; [reflexivity|]. rewrite IHlevel. reflexivity. Qed.

Lemma slice_mid {A} (a c b : list A) n : length a = n -> length b = n ->
  firstn (length (a ++ c ++ b) - n - n) (skipn n (a ++ c ++ b)) = c.
Proof.
  intros Ha Hb.
  replace (skipn n (a ++ c ++ b)) with (c ++ b).
  2:{ rewrite skipn_app. rewrite <- Ha. rewrite skipn_all, Nat.sub_diag. reflexivity. }
  rewrite !app_length. replace (length a + (length c + length b) - n - n)%nat with (length c + 0)%nat by lia.
  rewrite firstn_app_2. simpl. apply app_nil_r.
Qed.

(* a long bracket of any level, with any contents (the empty one included),
   denotes its contents with line ends normalised and a first line end skipped *)
Theorem long_bracket_denotation : forall level c,
  long_denot (long_open level ++ c ++ long_close level) = skip_first_nl (normalize_nl c).
Proof.
  intros level c. unfold long_denot.
  assert (Hc : count_eq (tl (long_open level ++ c ++ long_close level)) = level).
  { unfold long_open. cbn [app tl]. rewrite <- app_assoc. cbn [app]. apply count_eq_repeat. }
  rewrite Hc. rewrite slice_mid; [reflexivity| |].
  - unfold long_open. simpl. rewrite app_length, repeat_length. simpl. lia.
  - unfold long_close. simpl. rewrite app_length, repeat_length. simpl. lia.
Qed.

Example long_bracket_empty : long_denot [91; 61; 61; 91; 93; 61; 61; 93] = [].
Proof. reflexivity. Qed.
