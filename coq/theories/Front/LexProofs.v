(* Front/LexProofs.v — ast.NewNumber's integer branch against the manual. *)
From Coq Require Import ZArith List Lia.
From GV Require Import Front.Lex.
Import ListNotations.
Open Scope Z_scope.

Definition digits_ok (base : Z) (ds : list Z) : Prop := Forall (fun d => 0 <= d < base) ds.

Lemma digits_val_acc base ds : forall acc,
  digits_val base ds acc = acc * base ^ Z.of_nat (length ds) + digits_val base ds 0.
Proof.
  induction ds as [|d r IH]; intros acc.
  - simpl. lia.
  - cbn [digits_val length]. rewrite IH. rewrite (IH (0 * base + d)).
    rewrite Nat2Z.inj_succ, Z.pow_succ_r by lia. ring.
Qed.

Lemma digits_val_app base a b :
  digits_val base (a ++ b) 0 = digits_val base a 0 * base ^ Z.of_nat (length b) + digits_val base b 0.
Proof.
  revert b. assert (H : forall acc b, digits_val base (a ++ b) acc = digits_val base b (digits_val base a acc)).
  { induction a as [|d r IH]; intros acc b; [reflexivity|]. simpl. apply IH. }
  intros b. rewrite H. apply digits_val_acc.
Qed.

Lemma digits_val_nonneg base ds : 0 < base -> digits_ok base ds -> forall acc, 0 <= acc -> 0 <= digits_val base ds acc.
Proof.
  intros Hb H. induction H as [|d r Hd Hr IH]; intros acc Ha; simpl; [exact Ha|].
  apply IH. nia.
Qed.

Lemma wrap64_mod a b : a mod 2 ^ 64 = b mod 2 ^ 64 -> wrap64 a = wrap64 b.
Proof. unfold wrap64. intros ->. reflexivity. Qed.

(* hexadecimal integer numerals: keeping the last 16 digits is wrapping mod 2^64 *)
Theorem go_hex_correct : forall ds, go_hex ds = s_hex ds.
Proof.
  intros ds. unfold go_hex, s_hex. destruct (16 <? length ds)%nat eqn:E; [|reflexivity].
  apply Nat.ltb_lt in E. f_equal. apply wrap64_mod.
  set (k := (length ds - 16)%nat).
  assert (Hs : digits_val 16 ds 0 = digits_val 16 (firstn k ds ++ skipn k ds) 0)
    by (rewrite firstn_skipn; reflexivity).
  rewrite Hs, digits_val_app. rewrite skipn_length. unfold k. replace (length ds - (length ds - 16))%nat with 16%nat by lia.
  change (16 ^ Z.of_nat 16) with (2 ^ 64). rewrite Z.add_comm, Z_mod_plus_full. reflexivity.
Qed.

(* decimal integer numerals: an integer if it fits, else a float (repaired
   ast.NewNumber: ParseInt, then ParseFloat) *)
Theorem go_dec_correct : forall ds, go_dec ds = s_dec ds.
Proof.
  intros ds. unfold go_dec, s_dec. set (n := digits_val 10 ds 0).
  destruct (n <? 2 ^ 63) eqn:E.
  - apply Z.ltb_lt in E. replace (n <=? 2 ^ 63 - 1) with true by (symmetry; apply Z.leb_le; lia). reflexivity.
  - apply Z.ltb_ge in E. replace (n <=? 2 ^ 63 - 1) with false by (symmetry; apply Z.leb_gt; lia). reflexivity.
Qed.

(* the former defect's witness: 9223372036854775808 denotes a float *)
Example go_dec_2_63 : go_dec [9;2;2;3;3;7;2;0;3;6;8;5;4;7;7;5;8;0;8] = NFloatOf (2 ^ 63).
Proof. vm_compute. reflexivity. Qed.
