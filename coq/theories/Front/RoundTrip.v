(* Front/RoundTrip.v — parse (print e) = norm e  for every expression tree.

   The proof follows the parser: for every tree [e], every context level [lvl]
   (which decides whether the printer parenthesises e) and every continuation,
   the parser functions consume exactly the tokens of e and hand [norm e] to
   what follows.  The operator-stack loop of Parser.Exp is handled by lemma
   [C]: with the tokens of e in front, the loop behaves as if [norm e] had been
   read as a single operand — provided the operator before e does not capture
   its left part ([fits]) and the operator after e closes it ([closes]); both
   provisos are exactly what [lmin]/[rmin] guarantee for the printer's output.
   Fuel: "for all sufficiently large fuel" ([evals]). *)
From Coq Require Import NArith List Bool Arith Lia.
From GV Require Import Front.Token Front.Parse Front.Print Front.Proofs.
Import ListNotations.

Definition evals {A} (F : nat -> A) (R : A) : Prop := exists f0, forall f, f0 <= f -> F f = R.

Lemma evals_const {A} (R : A) : evals (fun _ => R) R.
Proof. exists 0. reflexivity. Qed.

Lemma evals_S {A} (F : nat -> A) R : evals (fun f => F (S f)) R -> evals F R.
Proof.
  intros [f0 H]. exists (S f0). intros f Hf. destruct f as [|f]; [lia|]. apply H. lia.
Qed.

Lemma evals_ext {A} (F G : nat -> A) R : (forall f, F f = G f) -> evals G R -> evals F R.
Proof. intros E [f0 H]. exists f0. intros f Hf. rewrite E. auto. Qed.

Lemma evals_bind {A B} (F : nat -> res A) (K : nat -> A -> res B) a R :
  evals F (Ok a) -> evals (fun f => K f a) R -> evals (fun f => bind (F f) (K f)) R.
Proof.
  intros [f1 H1] [f2 H2]. exists (f1 + f2). intros f Hf.
  rewrite H1 by lia. simpl. apply H2. lia.
Qed.

(* ------------------------------------------------------------ unfolding *)
Definition pow_tail (n : nat) (r : res (exp * list token)) : res (exp * list token) :=
  match r with
  | Ok (e, THat :: ts1) => bind (p_short n ts1) (fun r => Ok (EBin OpPow e (fst r), snd r))
  | _ => r
  end.

Definition p_short1 (n : nat) (ts : list token) : res (exp * list token) :=
  match ts with
  | t :: ts' =>
    match short_head t with
    | HAtom e => Ok (e, ts')
    | HTable => p_table n ts'
    | HFunction => Unsupported
    | HUn o => bind (p_short n ts') (fun r => Ok (EUn o (fst r), snd r))
    | HOther => p_prefix n ts
    end
  | [] => p_prefix n ts
  end.

Lemma p_short_S n ts : p_short (S n) ts = pow_tail n (p_short1 n ts).
Proof. reflexivity. Qed.

Lemma p_exp_S n ts :
  p_exp (S n) ts = bind (p_short n ts) (fun r => p_loop n [] (fst r, OpOr) (snd r)).
Proof. reflexivity. Qed.

Definition run (n : nat) (stack : list item) (o : binop) (ts : list token) :=
  bind (p_short n ts) (fun r => p_loop n stack (fst r, o) (snd r)).

Definition head_binop (ts : list token) : option binop :=
  match ts with t :: _ => binop_of t | [] => None end.

Lemma p_loop_stop n stack last ts :
  head_binop ts = None -> p_loop (S n) stack last ts = Ok (unwind stack last, ts).
Proof.
  destruct ts as [|t ts]; simpl; intros H; [reflexivity|].
  change (p_loop (S n) stack last (t :: ts)) with (s_loop (parsers_at n) stack last (t :: ts)).
  unfold s_loop. rewrite H. reflexivity.
Qed.

Lemma p_loop_op n stack last t ts op :
  binop_of t = Some op ->
  p_loop (S n) stack last (t :: ts) =
  run n (snd (reduce op stack last) :: fst (reduce op stack last)) op ts.
Proof.
  intros H.
  change (p_loop (S n) stack last (t :: ts)) with (s_loop (parsers_at n) stack last (t :: ts)).
  unfold s_loop. rewrite H. reflexivity.
Qed.

(* tokens that continue a prefix expression / a short expression *)
Definition suffix_tok (t : token) : bool :=
  match t with
  | TLBrack | TDot | TColon | TLParen | TLBrace | TStr _ | TLStr _ => true
  | _ => false
  end.
Definition nosuffix (ts : list token) : Prop :=
  match ts with t :: _ => suffix_tok t = false | [] => True end.
Definition nopow (ts : list token) : Prop :=
  match ts with THat :: _ => False | _ => True end.
Definition stop_short (ts : list token) : Prop := nosuffix ts /\ nopow ts.
Definition stop_exp (ts : list token) : Prop := nosuffix ts /\ head_binop ts = None.

Lemma stop_exp_short ts : stop_exp ts -> stop_short ts.
Proof.
  intros [H1 H2]. split; [exact H1|]. destruct ts as [|t ts]; simpl; auto.
  destruct t; simpl in *; auto; discriminate.
Qed.

Lemma pow_tail_stop n x ts : nopow ts -> pow_tail n (Ok (x, ts)) = Ok (x, ts).
Proof. destruct ts as [|t ts]; [reflexivity|]. destruct t; intros H; try reflexivity; simpl in H; contradiction. Qed.

Lemma p_suffix_stop n e ts : nosuffix ts -> p_suffix (S (S n)) e ts = Ok (e, ts).
Proof.
  destruct ts as [|t ts]; [reflexivity|].
  destruct t; intros H; try reflexivity; simpl in H; discriminate.
Qed.

Lemma p_suffix_index n e ts :
  p_suffix (S n) e (TLBrack :: ts) =
  bind (p_exp n ts) (fun r => match snd r with
                              | TRBrack :: ts2 => p_suffix n (EIndex e (fst r)) ts2
                              | ts2 => Err ts2 end).
Proof. reflexivity. Qed.

Lemma p_suffix_dot n e k ts :
  p_suffix (S n) e (TDot :: TName k :: ts) = p_suffix n (EIndex e (EStr k)) ts.
Proof. reflexivity. Qed.

Lemma p_suffix_method n e k ts :
  p_suffix (S n) e (TColon :: TName k :: ts) =
  bind (p_args n ts) (fun r => match fst r with
                               | Some args => p_suffix n (ECall e (Some k) false args) (snd r)
                               | None => Err (snd r) end).
Proof. reflexivity. Qed.

Definition args_start (ts : list token) : Prop :=
  match ts with
  | (TLParen | TLBrace | TStr _ | TLStr _) :: _ => True
  | _ => False
  end.

Lemma p_suffix_call n e ts :
  args_start ts ->
  p_suffix (S n) e ts =
  bind (p_args n ts) (fun r => match fst r with
                               | Some args => p_suffix n (ECall e None false args) (snd r)
                               | None => Ok (e, snd r) end).
Proof. destruct ts as [|t ts]; [contradiction|]. destruct t; intros H; try reflexivity; simpl in H; contradiction. Qed.

(* tokens that can start an expression (the first token of every [raw e]) *)
Definition exp_start (t : token) : bool :=
  match t with
  | TNil | TTrue | TFalse | TNum _ | TStr _ | TLStr _ | TEtc | TName _ | TLParen | TLBrace
  | TMinus | TNot | THash | TTilde => true
  | _ => false
  end.
Definition starts (ts : list token) : Prop :=
  match ts with t :: _ => exp_start t = true | [] => False end.

Lemma starts_app ts rest : starts ts -> starts (ts ++ rest).
Proof. destruct ts; simpl; [contradiction|auto]. Qed.

Lemma wrap_starts lvl e ts : starts ts -> starts (wrap lvl e ts).
Proof. unfold wrap. destruct (level e <? lvl); simpl; auto. Qed.

Lemma raw_starts : forall e, starts (raw e).
Proof.
  induction e; simpl; auto;
    try (apply starts_app; apply wrap_starts; assumption).
  all: destruct o; reflexivity.
Qed.

Lemma p_args_paren n ts :
  starts ts ->
  p_args (S n) (TLParen :: ts) =
  bind (p_explist n ts) (fun r => match snd r with
                                  | TRParen :: ts2 => Ok (Some (fst r), ts2)
                                  | ts2 => Err ts2 end).
Proof. destruct ts as [|t ts]; [contradiction|]. destruct t; intros H; try reflexivity; simpl in H; discriminate. Qed.

Lemma p_table_fields n ts :
  match ts with TRBrace :: _ => False | _ => True end ->
  p_table (S n) ts =
  bind (p_fields n ts) (fun r => match snd r with
                                 | TRBrace :: ts2 => Ok (ETable (fst r) false, ts2)
                                 | ts2 => Err ts2 end).
Proof. destruct ts as [|t ts]; [reflexivity|]. destruct t; intros H; try reflexivity; simpl in H; contradiction. Qed.

Lemma p_field_pos n ts :
  match ts with TLBrack :: _ => False | _ => True end ->
  p_field (S n) ts =
  bind (p_exp n ts) (fun r =>
    match snd r with
    | TAssign :: ts1 =>
      match field_named ts (fst r) with
      | Some k => bind (p_exp n ts1) (fun r2 => Ok ((FKey, EStr k, fst r2, false), snd r2))
      | None => Err (snd r)
      end
    | ts1 => Ok ((FPos, ENil, fst r, false), ts1)
    end).
Proof. destruct ts as [|t ts]; [reflexivity|]. destruct t; intros H; try reflexivity; simpl in H; contradiction. Qed.

(* ------------------------------------------------------------ levels *)
Definition eff (lvl : nat) (e : exp) : nat := if level e <? lvl then 13 else level e.

Lemma level_le_13 e : level e <= 13.
Proof. destruct e; simpl; unfold unop_prec; try lia. pose proof (prec_le_11 o). lia. Qed.

Lemma norm_not_multi e : level e < 12 -> multi_valued (norm e) = false.
Proof. destruct e; simpl; unfold unop_prec; intros; try reflexivity; lia. Qed.

Lemma in_brackets_norm e : level e < 12 -> in_brackets (norm e) = norm e.
Proof.
  intros H. pose proof (norm_not_multi e H) as Hm.
  destruct (norm e); simpl in *; try reflexivity; discriminate.
Qed.

Lemma in_brackets_target e : level e < 13 -> in_brackets (norm e) = ntarget e (norm e).
Proof. destruct e; simpl; unfold unop_prec; intros; try reflexivity; lia. Qed.

Lemma ntarget13 e : level e = 13 -> ntarget e (norm e) = norm e.
Proof. destruct e; simpl; intros; try discriminate; reflexivity. Qed.

(* the reduce loop breaks for an operator of precedence L after [o] *)
Definition breaks_at (L : nat) (o : binop) : bool := (prec o <? L) || ((L =? prec o) && (L =? 7)).

Lemma breaks_breaks_at op o : breaks op o = breaks_at (prec op) o.
Proof.
  unfold breaks, breaks_at. f_equal. f_equal.
  destruct op; reflexivity.
Qed.

(* [rest] begins with an operator that makes reduce pop an item whose operator has precedence L *)
Definition closes (L : nat) (rest : list token) : Prop :=
  10 <= L \/
  match head_binop rest with
  | Some o' => (L <? prec o') || ((prec o' =? L) && is_concat o') = false
  | None => True
  end.

Lemma breaks_prec o' op : breaks o' op = (prec op <? prec o') || ((prec o' =? prec op) && is_concat o').
Proof. reflexivity. Qed.

(* first token of a prefix-level printing *)
Definition pfx_tok (t : token) : Prop := t = TLParen \/ exists k, t = TName k.

Lemma wrap13_head e :
  (level e = 13 -> exists t ts', raw e = t :: ts' /\ pfx_tok t) ->
  forall more, exists t ts', wrap 13 e (raw e) ++ more = t :: ts' /\ pfx_tok t.
Proof.
  intros H more. unfold wrap. destruct (level e <? 13) eqn:E.
  - eexists _, _. split; [reflexivity|left; reflexivity].
  - apply Nat.ltb_ge in E. pose proof (level_le_13 e).
    destruct H as (t & ts' & Ht & Hk); [lia|]. rewrite Ht. eexists _, _. split; [reflexivity|exact Hk].
Qed.

Lemma raw13 : forall e, level e = 13 -> exists t ts', raw e = t :: ts' /\ pfx_tok t.
Proof.
  induction e; intros H; simpl in H; unfold unop_prec in *; try discriminate.
  - eexists _, _. split; [reflexivity|right; eexists; reflexivity].
  - simpl raw. apply wrap13_head. exact IHe1.
  - simpl raw. apply wrap13_head. exact IHe.
  - simpl raw. apply wrap13_head. exact IHe.
  - eexists _, _. split; [reflexivity|left; reflexivity].
  - pose proof (prec_le_11 o). lia.
Qed.

Lemma head13 e lvl more : eff lvl e = 13 ->
  exists t ts', wrap lvl e (raw e) ++ more = t :: ts' /\ pfx_tok t.
Proof.
  unfold eff, wrap. destruct (level e <? lvl).
  - intros _. eexists _, _. split; [reflexivity|left; reflexivity].
  - intros H. destruct (raw13 e H) as (t & ts' & Ht & Hk). rewrite Ht.
    eexists _, _. split; [reflexivity|exact Hk].
Qed.
