(* Front/StatRoundTripCor.v — round 8: consequences of StatRoundTrip.stat_roundtrip.
   Per-statement / per-block round trip in any context and at any sufficient fuel
   (explicit bound computed from the printed tree), and unambiguity of the printer. *)
From Coq Require Import NArith List Bool Arith Lia.
From GV Require Import Front.Token Front.Parse Front.Print Front.Stat Front.StatPrint Front.StatRoundTrip.
Import ListNotations.

(* one statement, followed by anything that may follow a statement *)
Theorem stat_print_parse : forall s, wf_stat s = true -> forall n rest,
  2 * length (pr_stat s) + 1 <= n -> follow rest ->
  r_stat (sparsers_at n) (pr_stat s ++ rest) = Ok (s, rest).
Proof. destruct stat_roundtrip as (H & _ & _). exact H. Qed.

(* the tail of an if statement (elseif … / else … / end) *)
Theorem ifrest_print_parse : forall r, wf_ifrest r = true -> forall n rest,
  2 * length (pr_ifrest r) + 1 <= n -> follow rest ->
  r_ifrest (sparsers_at n) (pr_ifrest r ++ rest) = Ok (r, rest).
Proof. destruct stat_roundtrip as (_ & H & _). exact H. Qed.

(* a block, followed by a block terminator (end / else / elseif / until / EOF) *)
Theorem block_print_parse : forall b, wf_block b = true -> forall n rest,
  2 * length (pr_block b) + 2 <= n -> block_stop rest ->
  r_block (sparsers_at n) (pr_block b ++ rest) = Ok (b, rest).
Proof. destruct stat_roundtrip as (_ & _ & H). exact H. Qed.

(* the concrete syntax is unambiguous on well-formed chunks *)
Theorem print_chunk_injective : forall b1 b2, wf_block b1 = true -> wf_block b2 = true ->
  print_chunk b1 = print_chunk b2 -> b1 = b2.
Proof.
  intros b1 b2 H1 H2 E. pose proof (parse_chunk_print b1 H1) as P1. rewrite E in P1.
  rewrite (parse_chunk_print b2 H2) in P1. congruence.
Qed.
