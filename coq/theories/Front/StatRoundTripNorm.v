(* Front/StatRoundTripNorm.v — round 8: the statement round trip with ALL expression
   spellings: parse_chunk (print_chunk b) = Ok (norm_block b) under [sp_block b]
   (no plainness demanded of the expressions).  Same induction as
   StatRoundTrip.stat_roundtrip, on top of the expression round trip with [norm]. *)
From Coq Require Import NArith List Bool Arith Lia.
From GV Require Import Front.Token Front.Parse Front.Print Front.Proofs Front.RoundTrip Front.RoundTripMain
  Front.Mono Front.Total Front.Exact Front.Stat Front.StatPrint Front.StatRoundTrip Front.StatNorm.
Import ListNotations.

Lemma explist_exact_norm es rest : es <> [] -> not_comma rest -> stop_exp rest ->
  explist_at (raw_args es ++ rest) = Ok (map norm es, rest).
Proof.
  intros Hne Hc Hs. unfold explist_at.
  apply (exact_gen (fun f => p_explist f (raw_args es ++ rest))).
  - apply explist_ok; auto. intros a _. destruct (all_exp a) as (_ & _ & _ & _ & HE & _). exact HE.
  - destruct (tot_all (fuel_for (raw_args es ++ rest))) as (_ & _ & _ & _ & _ & _ & Hx & _).
    apply Hx. unfold fuel_for. lia.
  - intros n m H. apply (parsers_mono n m H).
Qed.

Lemma prefix_exact_norm e rest : level e = 13 -> nosuffix rest ->
  prefix_at (raw e ++ rest) = Ok (norm e, rest).
Proof.
  intros Hl Hs. unfold prefix_at.
  apply (exact_gen (fun f => p_prefix f (raw e ++ rest))).
  - destruct (all_exp e) as (_ & _ & HP & _).
    change (raw e) with (wrap 0 e (raw e)). apply HP; [lia|exact Hl|].
    apply evals_S. apply evals_S. eapply evals_ext; [intro f; apply p_suffix_stop; exact Hs|]. apply evals_const.
  - destruct (tot_all (fuel_for (raw e ++ rest))) as (_ & _ & _ & Hx & _).
    apply Hx. unfold fuel_for. lia.
  - intros n m H. apply (parsers_mono n m H).
Qed.

Lemma var_sp_facts v : var_sp v = true -> is_var (norm v) = true /\ level v = 13 /\ starts_name v = true.
Proof.
  unfold var_sp. intros H. apply andb_true_iff in H. destruct H as [H1 H2]. repeat split; auto.
  destruct v; try reflexivity; cbn in H1; discriminate H1.
Qed.

Lemma call_sp_facts e : call_sp e = true -> is_call (norm e) = true /\ level e = 13 /\ starts_name e = true.
Proof.
  unfold call_sp. intros H. apply andb_true_iff in H. destruct H as [H1 H2]. repeat split; auto.
  destruct e; try reflexivity; cbn in H1; discriminate H1.
Qed.

Lemma more_vars_norm : forall vs n rest, length vs < n -> forallb var_sp vs = true ->
  (match rest with TAssign :: _ => True | _ => False end) ->
  more_vars n (flat_map (fun x => TComma :: raw x) vs ++ rest) = Ok (map norm vs, rest).
Proof.
  induction vs as [|v vs IH]; intros n rest Hn Hv Hr; (destruct n as [|n]; [simpl in Hn; lia|]).
  - cbn [flat_map app more_vars map]. destruct rest as [|t rr]; [contradiction|]. destruct t; try contradiction. reflexivity.
  - cbn [forallb] in Hv. apply andb_true_iff in Hv. destruct Hv as [Hv1 Hv2].
    destruct (var_sp_facts v Hv1) as (Hiv & Hl & Hsn).
    cbn [flat_map]. cbn [app more_vars]. rewrite <- app_assoc.
    rewrite prefix_exact_norm; auto.
    + cbn [bind fst snd map]. rewrite Hiv. rewrite bracketed_name by exact Hsn. cbn [negb andb].
      rewrite IH; [reflexivity|simpl in Hn; lia|exact Hv2|exact Hr].
    + apply var_follow_nosuffix. destruct vs; cbn; [|exact I].
      destruct rest as [|t rr]; [contradiction|]. destruct t; try contradiction. exact I.
Qed.

Lemma pr_stat_head_sp s : sp_stat s = true -> stat_head (pr_stat s).
Proof.
  destruct s; intros H; try exact eq_refl.
  - (* assign *) cbn [sp_stat] in H. apply andb_true_iff in H. destruct H as [H _]. apply andb_true_iff in H.
    destruct H as [H1 H2].
    destruct vs as [|v vs]; [discriminate H1|]. cbn [forallb] in H2. apply andb_true_iff in H2. destruct H2 as [H2 _].
    cbn [pr_stat]. rewrite raw_args_cons. rewrite <- !app_assoc. apply starts_name_head.
    apply (var_sp_facts v H2).
  - (* call *) cbn [sp_stat] in H.
    cbn [pr_stat]. rewrite <- (app_nil_r (raw e)). apply starts_name_head. apply (call_sp_facts e H).
Qed.

Lemma pr_block_follow_sp b rest : sp_block b = true -> block_stop rest -> follow (pr_block b ++ rest).
Proof.
  intros Hw Hr. destruct b as [[es|]|s b'].
  - reflexivity.
  - cbn. apply block_stop_follow. exact Hr.
  - cbn [pr_block sp_block] in *. apply andb_true_iff in Hw. destruct Hw as [Hw _].
    rewrite <- app_assoc. apply stat_head_follow. apply stat_head_app. apply pr_stat_head_sp. exact Hw.
Qed.

Lemma block_end_ok' {A} P b b' rest (k : block -> list token -> res A) :
  r_block P (pr_block b ++ TEnd :: rest) = Ok (b', TEnd :: rest) ->
  block_end P (pr_block b ++ TEnd :: rest) k = k b' rest.
Proof. intros H. unfold block_end. rewrite H. reflexivity. Qed.

Lemma funcbody_ok' {A} P ps dots b b' rest (k : list N -> bool -> block -> list token -> res A) :
  r_block P (pr_block b ++ TEnd :: rest) = Ok (b', TEnd :: rest) ->
  funcbody P (pr_params ps dots ++ pr_block b ++ TEnd :: rest) k = k ps dots b' rest.
Proof.
  intros H. unfold funcbody, pr_params. cbn [app]. rewrite <- app_assoc. cbn [app].
  rewrite params_ok. cbn [bind fst snd]. apply block_end_ok'. exact H.
Qed.

Definition Qs (s : stat) : Prop := sp_stat s = true -> forall n rest,
  2 * length (pr_stat s) + 1 <= n -> follow rest ->
  r_stat (sparsers_at n) (pr_stat s ++ rest) = Ok (norm_stat s, rest).
Definition Qi (r : ifrest) : Prop := sp_ifrest r = true -> forall n rest,
  2 * length (pr_ifrest r) + 1 <= n -> follow rest ->
  r_ifrest (sparsers_at n) (pr_ifrest r ++ rest) = Ok (norm_ifrest r, rest).
Definition Qb (b : block) : Prop := sp_block b = true -> forall n rest,
  2 * length (pr_block b) + 2 <= n -> block_stop rest ->
  r_block (sparsers_at n) (pr_block b ++ rest) = Ok (norm_block b, rest).

Ltac sps H := cbn [sp_stat sp_ifrest sp_block] in H;
              repeat match goal with X : (_ && _) = true |- _ => apply andb_true_iff in X; destruct X end.
Ltac enter_n := cbn [norm_stat norm_ifrest norm_block]; enter_stat.

Theorem stat_roundtrip_norm : (forall s, Qs s) /\ (forall r, Qi r) /\ (forall b, Qb b).
Proof.
  apply sib_mind; unfold Qs, Qi, Qb.
  - (* SEmpty *) intros _ n rest Hn _. destruct n; [lens Hn; lia|]. reflexivity.
  - (* SBreak *) intros _ n rest Hn _. destruct n; [lens Hn; lia|]. reflexivity.
  - (* SGoto *) intros k _ n rest Hn _. destruct n; [lens Hn; lia|]. reflexivity.
  - (* SLabel *) intros k _ n rest Hn _. destruct n; [lens Hn; lia|]. reflexivity.
  - (* SDo *) intros b IHb Hw n rest Hn Hf. destruct n; [lens Hn; lia|]. sps Hw. lens Hn. enter_n.
    unfold s_stat. rewrite (block_end_ok' _ b (norm_block b)); [reflexivity|]. apply IHb; [assumption|lia|exact I].
  - (* SWhile *) intros c b IHb Hw n rest Hn Hf. destruct n; [lens Hn; lia|]. sps Hw. lens Hn. enter_n.
    unfold s_stat. rewrite exp_exact by (split; reflexivity). cbn [bind fst snd].
    rewrite (block_end_ok' _ b (norm_block b)); [reflexivity|]. apply IHb; [assumption|lia|exact I].
  - (* SRepeat *) intros b IHb c Hw n rest Hn Hf. destruct n; [lens Hn; lia|]. sps Hw. lens Hn. enter_n.
    unfold s_stat. rewrite IHb; [|assumption|lia|exact I]. cbn [bind fst snd].
    rewrite exp_exact by (auto using follow_stop_exp). reflexivity.
  - (* SIf *) intros c b IHb r IHr Hw n rest Hn Hf. destruct n; [lens Hn; lia|]. sps Hw. lens Hn. enter_n.
    unfold s_stat. rewrite exp_exact by (split; reflexivity). cbn [bind fst snd].
    rewrite IHb; [|assumption|lia|apply ifrest_head]. cbn [bind fst snd].
    rewrite IHr; [reflexivity|assumption|lia|exact Hf].
  - (* SForNum *) intros v e1 e2 e3 b IHb Hw n rest Hn Hf. destruct n; [lens Hn; lia|]. sps Hw.
    destruct e3 as [e3|]; lens Hn; enter_n; unfold s_stat.
    + rewrite exp_exact by (split; reflexivity). cbn [bind fst snd].
      rewrite exp_exact by (split; reflexivity). cbn [bind fst snd].
      rewrite exp_exact by (split; reflexivity). cbn [bind fst snd]. unfold for_body.
      rewrite (block_end_ok' _ b (norm_block b)); [reflexivity|]. apply IHb; [assumption|lia|exact I].
    + rewrite exp_exact by (split; reflexivity). cbn [bind fst snd].
      rewrite exp_exact by (split; reflexivity). cbn [bind fst snd]. unfold for_body.
      rewrite (block_end_ok' _ b (norm_block b)); [reflexivity|]. apply IHb; [assumption|lia|exact I].
  - (* SForIn *) intros vs es b IHb Hw n rest Hn Hf. destruct n; [lens Hn; lia|]. sps Hw.
    destruct vs as [|v vs]; [discriminate|]. lens Hn. enter_n. unfold pr_names. norm_app.
    rewrite s_stat_for_in by (destruct vs; exact I).
    rewrite more_names_ok by exact I. cbn [bind fst snd].
    rewrite explist_exact_norm; [|destruct es; [discriminate|congruence]|exact I|split; reflexivity].
    cbn [bind fst snd]. rewrite (block_end_ok' _ b (norm_block b)); [reflexivity|]. apply IHb; [assumption|lia|exact I].
  - (* SLocal *) intros vs es Hw n rest Hn Hf. destruct n; [lens Hn; lia|]. sps Hw.
    destruct (follow_facts rest Hf) as (Hlt & Hnc & Hna).
    destruct vs as [|[k a] vs]; [discriminate|]. enter_n. unfold pr_attnames. norm_app. unfold s_stat.
    rewrite nameattrib_ok.
    2:{ destruct vs as [|[k2 a2] vs2]; [|exact I]. destruct es; cbn; [exact Hlt|exact I]. }
    cbn [bind fst snd].
    destruct es as [|e es].
    + rewrite more_attribs_ok; [|cbn [length]; rewrite !app_length; pose proof (flat_map_len (fun ka : N * attrib => TComma :: TName (fst ka) :: pr_attrib (snd ka)) vs ltac:(intros; simpl; lia)); lia|exact Hnc|exact Hlt].
      cbn [bind fst snd app]. destruct rest as [|t rr]; [reflexivity|]. destruct t; try reflexivity. contradiction.
    + rewrite more_attribs_ok; [|cbn [length]; rewrite !app_length; pose proof (flat_map_len (fun ka : N * attrib => TComma :: TName (fst ka) :: pr_attrib (snd ka)) vs ltac:(intros; simpl; lia)); lia|exact I|exact I].
      cbn [bind fst snd app]. rewrite explist_exact_norm; [reflexivity|congruence|exact Hnc|apply follow_stop_exp; exact Hf].
  - (* SAssign *) intros vs es Hw n rest Hn Hf. destruct n; [lens Hn; lia|]. sps Hw.
    destruct (follow_facts rest Hf) as (Hlt & Hnc & Hna).
    destruct vs as [|v vs]; [discriminate|].
    match goal with X : forallb var_sp (v :: vs) = true |- _ => cbn [forallb] in X; apply andb_true_iff in X; destruct X as [Hv Hvs] end.
    destruct (var_sp_facts v Hv) as (Hiv & Hl & Hsn).
    enter_n. cbn [map]. rewrite raw_args_cons. norm_app.
    rewrite s_stat_name.
    2:{ destruct (starts_name_shape v Hsn) as (k & r & E). rewrite E. cbn [app]. eauto. }
    rewrite prefix_exact_norm; auto.
    2:{ apply var_follow_nosuffix. destruct vs; exact I. }
    cbn [bind fst snd].
    assert (Hmv : more_vars (S (length (raw v ++ flat_map (fun x : exp => TComma :: raw x) vs ++ TAssign :: raw_args es ++ rest)))
                    (flat_map (fun x : exp => TComma :: raw x) vs ++ TAssign :: raw_args es ++ rest) = Ok (map norm vs, TAssign :: raw_args es ++ rest)).
    { apply more_vars_norm; [|exact Hvs|exact I]. rewrite !app_length.
      pose proof (flat_map_len (fun x : exp => TComma :: raw x) vs ltac:(intros; simpl; lia)). lia. }
    rewrite (bracketed_name _ _ _ Hsn). rewrite Hmv. cbn [bind fst snd].
    rewrite explist_exact_norm; [|destruct es; [discriminate|congruence]|exact Hnc|apply follow_stop_exp; exact Hf].
    cbn [bind fst snd]. revert Hiv. destruct (norm v); intros Hiv; try discriminate Hiv; reflexivity.
  - (* SCall *) intros e Hw n rest Hn Hf. destruct n; [lens Hn; lia|]. cbn [sp_stat] in Hw.
    destruct (call_sp_facts e Hw) as (Hc & Hl & Hsn).
    enter_n. rewrite s_stat_name.
    2:{ destruct (starts_name_shape e Hsn) as (k & r & E). rewrite E. cbn [app]. eauto. }
    rewrite prefix_exact_norm; [|exact Hl|apply follow_nosuffix; exact Hf].
    cbn [bind fst snd]. revert Hc. destruct (norm e); intros Hc; try discriminate Hc. reflexivity.
  - (* SFunction *) intros path m ps dots b IHb Hw n rest Hn Hf. destruct n; [lens Hn; lia|]. sps Hw.
    destruct path as [|k path]; [discriminate|]. lens Hn. enter_n. unfold s_stat.
    destruct m as [m|]; cbn [app]; norm_app.
    + rewrite dotted_ok by exact I. cbn [bind fst snd].
      rewrite (funcbody_ok' _ ps dots b (norm_block b)); [reflexivity|]. apply IHb; [assumption|lia|exact I].
    + rewrite dotted_ok by exact I. cbn [bind fst snd]. unfold pr_params at 1. cbn [app].
      change (TLParen :: (pr_plist ps dots ++ [TRParen]) ++ pr_block b ++ TEnd :: rest)
        with (pr_params ps dots ++ pr_block b ++ TEnd :: rest).
      rewrite (funcbody_ok' _ ps dots b (norm_block b)); [reflexivity|]. apply IHb; [assumption|lia|exact I].
  - (* SLocalFunction *) intros k ps dots b IHb Hw n rest Hn Hf. destruct n; [lens Hn; lia|]. sps Hw. lens Hn.
    enter_n. unfold s_stat.
    rewrite (funcbody_ok' _ ps dots b (norm_block b)); [reflexivity|]. apply IHb; [assumption|lia|exact I].
  - (* IEnd *) intros _ n rest Hn _. destruct n; [lens Hn; lia|]. reflexivity.
  - (* IElse *) intros b IHb Hw n rest Hn Hf. destruct n; [lens Hn; lia|]. sps Hw. lens Hn. enter_n.
    unfold s_ifrest. rewrite (block_end_ok' _ b (norm_block b)); [reflexivity|]. apply IHb; [assumption|lia|exact I].
  - (* IElseIf *) intros c b IHb r IHr Hw n rest Hn Hf. destruct n; [lens Hn; lia|]. sps Hw. lens Hn. enter_n.
    unfold s_ifrest. rewrite exp_exact by (split; reflexivity). cbn [bind fst snd].
    rewrite IHb; [|assumption|lia|apply ifrest_head]. cbn [bind fst snd].
    rewrite IHr; [reflexivity|assumption|lia|exact Hf].
  - (* BNil *) intros ret Hw n rest Hn Hs. destruct n; [lia|]. destruct ret as [es|]; enter_n.
    + change (s_block (sparsers_at n) (TReturn :: raw_args es ++ rest)) with (s_return (raw_args es ++ rest)).
      destruct (block_stop_facts rest Hs) as (Hnc & Hse & Hnsemi).
      destruct es as [|e es].
      * cbn [raw_args app map]. apply s_return_stop. exact Hs.
      * rewrite s_return_exps by (apply raw_args_starts'; congruence).
        rewrite explist_exact_norm; [|congruence|exact Hnc|exact Hse]. cbn [bind fst snd].
        destruct rest as [|t rr]; [reflexivity|]. destruct t; try reflexivity. contradiction.
    + apply s_block_stop. exact Hs.
  - (* BCons *) intros s IHs b IHb Hw n rest Hn Hs. destruct n; [lens Hn; lia|]. sps Hw. lens Hn. enter_n.
    rewrite s_block_default by (apply stat_head_app; apply pr_stat_head_sp; assumption).
    assert (Hlen : 1 <= length (pr_stat s)).
    { assert (Hh : stat_head (pr_stat s)) by (apply pr_stat_head_sp; assumption).
      destruct (pr_stat s); [contradiction|simpl; lia]. }
    rewrite IHs; [|assumption|lia|apply pr_block_follow_sp; assumption]. cbn [bind fst snd].
    rewrite IHb; [reflexivity|assumption|lia|exact Hs].
Qed.

(* print a chunk with any expression spellings, parse it: the chunk's denotation *)
Theorem parse_chunk_print_norm : forall b, sp_block b = true -> parse_chunk (print_chunk b) = Ok (norm_block b).
Proof.
  intros b Hw. unfold parse_chunk, print_chunk, chunk_fuel.
  destruct stat_roundtrip_norm as (_ & _ & Hb).
  pose proof (Hb b Hw (2 * length (pr_block b) + 4) [] ltac:(lia) I) as H.
  rewrite app_nil_r in H. rewrite H. reflexivity.
Qed.
