(* VM/Opcode.v — executable model of /repo/code/opcodes.go, /repo/code/reg.go and
   /repo/code/instructions.go: the bit layouts of golua's 32-bit opcodes.

   Definitions only (proofs are in VM/OpcodeProofs.v).  Everything is Z
   arithmetic on 32-bit words.  The Go expressions are transliterated one to
   one: `|` is Z.lor, `&` is Z.land, `x << k` on an Opcode (uint32) is
   [shl32 x k] (shift, then truncation to 32 bits), `>>` is Z.shiftr,
   conversions to uint8/uint16/int16 are [u8]/[u16]/[s16].  The Go types bound
   the inputs (every operator type, Flag, RegType and register index is a
   uint8), so the model is meaningful for all inputs in 0..255; the round-trip
   theorems need the narrower ranges that the encodings were designed for and
   say so in their statements. *)
From Coq Require Import ZArith Bool List.
Import ListNotations.
Open Scope Z_scope.

(* ---------------------------------------------------------------- widths *)
Definition u8 (z : Z) : Z := z mod 2^8.
Definition u16 (z : Z) : Z := z mod 2^16.
Definition u32 (z : Z) : Z := z mod 2^32.
(* int16(x): two's complement reinterpretation of the low 16 bits *)
Definition s16 (z : Z) : Z := let m := z mod 2^16 in if m <? 2^15 then m else m - 2^16.
(* Opcode(v) << k *)
Definition shl32 (v k : Z) : Z := u32 (Z.shiftl v k).

(* ---------------------------------------------------------------- registers (reg.go) *)
Record reg := mkReg { rtp : Z; ridx : Z }.     (* RegType uint8 (0 value, 1 cell), idx uint8 *)
Definition ValueReg (i : Z) : reg := mkReg 0 i.
Definition CellReg (i : Z) : reg := mkReg 1 i.
Definition reg0 : reg := mkReg 0 0.            (* Reg{} *)

Definition toA (r : reg) : Z := Z.lor (shl32 (ridx r) 16) (shl32 (rtp r) 26).
Definition toB (r : reg) : Z := Z.lor (shl32 (ridx r) 8) (shl32 (rtp r) 25).
Definition toC (r : reg) : Z := Z.lor (ridx r) (shl32 (rtp r) 24).

(* ---------------------------------------------------------------- prefixes *)
Definition Type1Pfx : Z := Z.shiftl 1 31.
Definition Type2Pfx : Z := Z.shiftl 7 28.
Definition Type3Pfx : Z := Z.shiftl 6 28.
Definition Type4Pfx : Z := Z.shiftl 5 28.
Definition Type5Pfx : Z := Z.shiftl 4 28.
Definition Type6Pfx : Z := Z.shiftl 3 28.
Definition Type7Pfx : Z := Z.shiftl 2 28.
Definition Type0Pfx : Z := Z.shiftl 0 28.
Definition type4aFlag : Z := Z.shiftl 1 24.

Definition TypePfx (c : Z) : Z := Z.land c (Z.shiftl 15 28).          (* c & 0xf0000000 *)
Definition HasType1 (c : Z) : bool := negb (Z.land c (Z.shiftl 1 31) =? 0).
Definition HasType4a (c : Z) : bool := negb (Z.land c type4aFlag =? 0).
Definition HasType0 (c : Z) : bool := Z.land c (Z.shiftl 15 28) =? 0.

(* ---------------------------------------------------------------- field encoders *)
Definition encodeX (op : Z) : Z := shl32 op 27.       (* BinOp *)
Definition encodeF (f : Z) : Z := shl32 f 27.         (* Flag *)
Definition encodeY (op : Z) : Z := shl32 op 24.       (* UnOpK16 *)
Definition encodeJ (op : Z) : Z := shl32 op 24.       (* JumpOp *)
Definition encodeZ (op : Z) : Z := op.                (* UnOp / UnOpK *)
Definition encodeL (l : Z) : Z := shl32 l 8.          (* Lit8 *)
Definition encodeN (l : Z) : Z := l.                  (* Lit16 / KIndex (uint16) *)
Definition encodeM (i : Z) : Z := i.                  (* Index8 *)
Definition encodeDoff (d : Z) : Z := u16 d.           (* Offset (int16): Opcode(uint16(d)) *)
Definition encodeDcl (d : Z) : Z := d.                (* ClStackOffset (uint16) *)

(* ---------------------------------------------------------------- mkTypeN *)
Definition mkType1 (op : Z) (rA rB rC : reg) : Z :=
  Z.lor (Z.lor (Z.lor (Z.lor Type1Pfx (toA rA)) (toB rB)) (toC rC)) (encodeX op).
Definition mkType2 (f : Z) (rA rB rC : reg) : Z :=
  Z.lor (Z.lor (Z.lor (Z.lor Type2Pfx (toA rA)) (toB rB)) (toC rC)) (encodeF f).
Definition mkType3 (f op : Z) (rA : reg) (n : Z) : Z :=
  Z.lor (Z.lor (Z.lor (Z.lor Type3Pfx (encodeF f)) (encodeY op)) (toA rA)) (encodeN n).
Definition mkType4a (f op : Z) (rA rB : reg) : Z :=
  Z.lor (Z.lor (Z.lor (Z.lor (Z.lor Type4Pfx type4aFlag) (encodeF f)) (encodeZ op)) (toA rA)) (toB rB).
Definition mkType4b (f op : Z) (rA : reg) (l : Z) : Z :=
  Z.lor (Z.lor (Z.lor (Z.lor Type4Pfx (encodeF f)) (toA rA)) (encodeL l)) (encodeZ op).
Definition mkType5 (f op : Z) (rA : reg) (d : Z) : Z :=     (* d already encoded by encodeDoff / encodeDcl *)
  Z.lor (Z.lor (Z.lor (Z.lor Type5Pfx (encodeF f)) (encodeJ op)) (toA rA)) d.
Definition mkType6 (f : Z) (rA rB : reg) (i : Z) : Z :=
  Z.lor (Z.lor (Z.lor (Z.lor Type6Pfx (encodeF f)) (toA rA)) (toB rB)) (encodeM i).
Definition mkType7 (f : Z) (rA rB rC : reg) : Z :=
  Z.lor (Z.lor (Z.lor (Z.lor Type7Pfx (encodeF f)) (toA rA)) (toB rB)) (toC rC).
Definition mkType0 (f : Z) (rA : reg) : Z := Z.lor (encodeF f) (toA rA).

(* ---------------------------------------------------------------- decoders *)
Definition GetX (c : Z) : Z := u8 (Z.land (Z.shiftr c 27) 15).
Definition GetF (c : Z) : bool := negb (Z.land c (Z.shiftl 1 27) =? 0).
Definition GetA (c : Z) : reg :=
  mkReg (u8 (Z.land (Z.shiftr c 26) 1)) (u8 (Z.land (Z.shiftr c 16) 255)).
Definition GetB (c : Z) : reg :=
  mkReg (u8 (Z.land (Z.shiftr c 25) 1)) (u8 (Z.land (Z.shiftr c 8) 255)).
Definition GetC (c : Z) : reg :=
  mkReg (u8 (Z.land (Z.shiftr c 24) 1)) (u8 (Z.land c 255)).
Definition getYorJ (c : Z) : Z := u8 (Z.land (Z.shiftr c 24) 3).
Definition GetY := getYorJ.
Definition GetJ := getYorJ.
Definition GetN (c : Z) : Z := u16 c.                   (* Lit16(c) *)
Definition GetKIndex (c : Z) : Z := u16 c.
Definition GetL (c : Z) : Z := u8 (Z.shiftr c 8).       (* Lit8(c >> 8) *)
Definition GetUnOp (c : Z) : Z := u8 (Z.land c 255).
Definition GetUnOpK (c : Z) : Z := u8 (Z.land c 255).
Definition GetM (c : Z) : Z := u8 c.                    (* Index8(c) *)
Definition GetOffset (c : Z) : Z := s16 (u16 c).        (* Offset(uint16(c)) *)
Definition GetClStackOffset (c : Z) : Z := u16 c.
Definition SetOffset (c d : Z) : Z := Z.lor (Z.land c (Z.shiftl 65535 16)) (encodeDoff d).
Definition SetKIndex (c i : Z) : Z := Z.lor (Z.land c (Z.shiftl 65535 16)) (encodeN i).

(* Lit16 conversions *)
Definition Lit16FromInt16 (n : Z) : Z := u16 n.
Definition Lit16ToInt16 (l : Z) : Z := s16 l.

(* ---------------------------------------------------------------- operator numbering (iota order of opcodes.go) *)
Definition Off : Z := 0.
Definition On : Z := 1.
(* UnOpK16 *) Definition OpInt16 := 0. Definition OpK := 1. Definition OpClosureK := 2. Definition OpStr2 := 3.
(* UnOp *)    Definition OpNeg := 0. Definition OpBitNot := 1. Definition OpLen := 2. Definition OpCont := 3.
              Definition OpTailCont := 4. Definition OpId := 5. Definition OpTruth := 6. Definition OpNot := 7.
              Definition OpUpvalue := 8. Definition OpEtcId := 9.
(* UnOpK *)   Definition OpNil := 0. Definition OpStr0 := 1. Definition OpTable := 2. Definition OpStr1 := 3.
              Definition OpBool := 4. Definition OpCC := 5. Definition OpClear := 6.
(* JumpOp *)  Definition OpCall := 0. Definition OpJump := 1. Definition OpJumpIf := 2. Definition OpClStack := 3.

(* ---------------------------------------------------------------- instructions.go (the ones the limits model needs) *)
Definition LoadConst (r : reg) (i : Z) : Z := mkType3 Off OpK r (encodeN i).
Definition LoadClosure (r : reg) (i : Z) : Z := mkType3 Off OpClosureK r (encodeN i).
Definition LoadInt16 (r : reg) (n : Z) : Z := mkType3 Off OpInt16 r (Lit16FromInt16 n).
(* LoadSmallInt: sn := int16(n); if int(sn) != n { return 0,false } *)
Definition LoadSmallInt (r : reg) (n : Z) : option Z :=
  let sn := s16 n in if sn =? n then Some (LoadInt16 r sn) else None.
Definition LoadNil (r : reg) : Z := mkType4b Off OpNil r 0.
Definition LoadBool (r : reg) (b : bool) : Z := mkType4b Off OpBool r (if b then 1 else 0).
Definition Jump (d : Z) : Z := mkType5 Off OpJump reg0 (encodeDoff d).
Definition JumpIf (d : Z) (r : reg) : Z := mkType5 On OpJumpIf r (encodeDoff d).
Definition JumpIfNot (d : Z) (r : reg) : Z := mkType5 Off OpJumpIf r (encodeDoff d).
Definition ClTrunc (h : Z) : Z := mkType5 Off OpClStack reg0 (encodeDcl h).   (* h : uint16 *)
Definition ClPush (r : reg) : Z := mkType5 On OpClStack r (encodeDcl 0).
Definition LoadEtcLookup (r1 r2 : reg) (i : Z) : Z := mkType6 Off r1 r2 (encodeM i).
Definition FillTable (r1 r2 : reg) (i : Z) : Z := mkType6 On r1 r2 (encodeM i).

(* ---------------------------------------------------------------- instruction kinds (dispatch of LuaCont.RunInThread / Disassemble) *)
Inductive optype := T1 | T2 | T3 | T4a | T4b | T5 | T6 | T7 | T0 | Tunused.
Definition type_of (c : Z) : optype :=
  if HasType1 c then T1 else
  let p := TypePfx c in
  if p =? Type2Pfx then T2 else if p =? Type3Pfx then T3 else
  if p =? Type4Pfx then (if HasType4a c then T4a else T4b) else
  if p =? Type5Pfx then T5 else if p =? Type6Pfx then T6 else
  if p =? Type7Pfx then T7 else if p =? Type0Pfx then T0 else Tunused.

(* ---------------------------------------------------------------- ranges the encodings were designed for *)
Definition reg_ok (r : reg) : Prop := 0 <= rtp r < 2^1 /\ 0 <= ridx r < 2^8.
Definition flag_ok (f : Z) : Prop := 0 <= f < 2^1.
