(* VM/Wf.v — a static well-formedness check for the code of one compiled function
   (definitions only; proofs in VM/WfProofs.v).

   [accesses] mirrors which registers, cells, constants and code addresses
   LuaCont.RunInThread (/repo/runtime/luacont.go) touches when it executes one
   opcode at address pc: every getReg/setReg/getRegCell/clearReg, consts[n],
   and the next value(s) of the int16 program counter.  [check_code] is the
   boolean check the harness runs on every unit the real compiler produces; it
   implies that no path through the function indexes registers, cells,
   constants or code out of range (theorem in WfProofs.v).  What the values IN
   the registers are (AsCont/AsTable/AsClosure type assertions) is not covered. *)
From Coq Require Import ZArith Bool List.
From GV Require Import VM.Opcode VM.Limits.
Import ListNotations.
Open Scope Z_scope.

Record fn := mkFn {
  fn_code : list Z;        (* the function's opcodes (unit.Code[StartOffset:EndOffset]) *)
  fn_regs : Z;             (* RegCount *)
  fn_cells : Z;            (* CellCount *)
  fn_kcode : list bool     (* one entry per constant of the unit: is it a code.Code ? *)
}.

Definition len (f : fn) : Z := Z.of_nat (length (fn_code f)).

(* what executing w touches *)
Record access := mkAccess {
  a_regs : list reg;           (* getReg / setReg / clearReg operands *)
  a_cellonly : list reg;       (* getRegCell operands: must be cell registers *)
  a_const : option (Z * bool); (* consts[n]; true = must be a code constant (AsCode) *)
  a_supported : bool;          (* false = the VM's `default: panic("unsupported")` *)
  a_next : bool;               (* falls through to pc+1 *)
  a_jump : bool                (* may jump to pc + GetOffset *)
}.

Definition plain (rs : list reg) : access := mkAccess rs [] None true true false.
Definition unsupported : access := mkAccess [] [] None false false false.

Definition accesses (w : Z) : access :=
  match type_of w with
  | T1 => plain [GetA w; GetB w; GetC w]
  | T0 => plain [GetA w]
  | T2 => plain [GetA w; GetB w; GetC w]
  | T3 =>
      let y := GetY w in
      mkAccess [GetA w] []
        (if y =? OpK then Some (GetN w, false) else if y =? OpClosureK then Some (GetN w, true) else None)
        true true false
  | T4a =>
      let op := GetUnOp w in
      if op =? OpUpvalue then mkAccess [GetA w; GetB w] [GetB w] None true true false
      else if op <=? OpEtcId then plain [GetA w; GetB w]
      else unsupported
  | T4b =>
      if GetUnOpK w <=? OpClear then plain [GetA w] else unsupported
  | T5 =>
      let j := GetJ w in
      if j =? OpJump then mkAccess [] [] None true false true
      else if j =? OpJumpIf then mkAccess [GetA w] [] None true true true
      else if j =? OpCall then mkAccess [GetA w] [] None true (negb (GetF w)) false   (* a call returns to pc+1; a tail call does not *)
      else (* OpClStack *) if GetF w then plain [GetA w] else plain []
  | T6 => plain [GetA w; GetB w]
  | T7 => plain [GetA w; GetB w; GetC w]
  | Tunused => unsupported
  end.

Definition reg_in (f : fn) (r : reg) : bool :=
  if rtp r =? 1 then (0 <=? ridx r) && (ridx r <? fn_cells f)
  else (0 <=? ridx r) && (ridx r <? fn_regs f).
Definition is_cell (r : reg) : bool := rtp r =? 1.

Definition const_ok (f : fn) (k : option (Z * bool)) : bool :=
  match k with
  | None => true
  | Some (n, needcode) =>
      (0 <=? n) && (n <? Z.of_nat (length (fn_kcode f))) &&
      (negb needcode || nth (Z.to_nat n) (fn_kcode f) false)
  end.

Definition addr_in (f : fn) (a : Z) : bool := (0 <=? a) && (a <? len f).

Definition check_instr (f : fn) (pc w : Z) : bool :=
  let a := accesses w in
  a_supported a && forallb (reg_in f) (a_regs a) && forallb is_cell (a_cellonly a) && const_ok f (a_const a) &&
  (negb (a_next a) || addr_in f (pc + 1)) &&
  (negb (a_jump a) || addr_in f (pc + GetOffset w)).

(* The compiler emits dead opcodes (e.g. a `clear` after the final tail call), so only REACHABLE
   addresses are constrained.  The reachable set is supplied as a certificate S (one flag per
   address; computed by an untrusted work-list in the oracle driver) and checked here: address 0
   is in S, every address in S passes check_instr and its successors are in S. *)
Definition marked (S : list bool) (pc : Z) : bool := (0 <=? pc) && nth (Z.to_nat pc) S false.

Definition check_instr_m (f : fn) (S : list bool) (pc w : Z) : bool :=
  let a := accesses w in
  check_instr f pc w &&
  (negb (a_next a) || marked S (pc + 1)) &&
  (negb (a_jump a) || marked S (pc + GetOffset w)).

Fixpoint check_marked (f : fn) (S : list bool) (pc : Z) (ws : list Z) (ms : list bool) : bool :=
  match ws, ms with
  | [], [] => true
  | w :: r, m :: mr => (negb m || check_instr_m f S pc w) && check_marked f S (pc + 1) r mr
  | _, _ => false
  end.

Definition check_code (f : fn) (S : list bool) : bool :=
  (0 <? len f) && (len f <=? maxCodeSize) && marked S 0 && check_marked f S 0 (fn_code f) S.

(* diagnostics: the first marked address whose opcode fails the check *)
Fixpoint first_bad_from (f : fn) (S : list bool) (pc : Z) (ws : list Z) (ms : list bool) : option Z :=
  match ws, ms with
  | w :: r, m :: mr => if negb m || check_instr_m f S pc w then first_bad_from f S (pc + 1) r mr else Some pc
  | _, _ => None
  end.
Definition first_bad (f : fn) (S : list bool) : option Z := first_bad_from f S 0 (fn_code f) S.

(* the VM's own successor computation: int16 arithmetic on pc *)
Definition succs (pc w : Z) : list Z :=
  let a := accesses w in
  (if a_next a then [pc_next pc] else []) ++ (if a_jump a then [pc_jump pc (GetOffset w)] else []).

Definition fetch (f : fn) (pc : Z) : option Z :=
  if pc <? 0 then None else nth_error (fn_code f) (Z.to_nat pc).

(* addresses the VM can reach in this function, starting at 0 (a continuation always resumes at a
   successor of a call, which is itself reachable) *)
Inductive reach (f : fn) : Z -> Prop :=
| reach_start : reach f 0
| reach_step pc w pc' : reach f pc -> fetch f pc = Some w -> In pc' (succs pc w) -> reach f pc'.

(* executing the opcode at pc is free of index panics *)
Definition safe_at (f : fn) (pc : Z) : Prop :=
  exists w, fetch f pc = Some w /\
    let a := accesses w in
    a_supported a = true /\
    (forall r, In r (a_regs a) -> reg_in f r = true) /\
    (forall r, In r (a_cellonly a) -> is_cell r = true) /\
    const_ok f (a_const a) = true.
