(* VM/ParseDepth.v — recursion skeleton of /repo/parsing/parser.go after the nesting-limit
   repair (definitions only; proofs in VM/ParseDepthProofs.v).

   The parser is recursive exactly through ShortExp (unary operators, '^', parentheses via
   PrefixExp -> Exp -> ShortExp, table constructors via Field -> Exp, function bodies via
   FunctionDef -> Block -> Stat) and Stat (blocks: Stat -> Block -> Stat; expressions in
   statements).  Exp, Block, the field list and the suffix loops are loops.  The repair
   makes both functions start with enterLevel (p.depth++, error beyond maxNestingDepth)
   and end with leaveLevel.  Tokens are abstracted to the ones that drive the recursion.

   Every function takes the current p.depth and returns, besides the remaining input, the
   maximum number of simultaneously active ShortExp/Stat frames it created — a measure
   computed independently of the limit test, which is what the theorem bounds. *)
From Coq Require Import List Arith Bool.
Import ListNotations.

Inductive tok := TAtom | TUn | TPow | TBin | TLPar | TRPar | TLBrace | TRBrace | TComma
               | TFunction | TDo | TEnd | TReturn.

Definition maxNestingDepth : nat := 200.

Inductive res :=
| Ok (rest : list tok) (frames : nat)     (* parsed; deepest frame index reached *)
| Err (frames : nat)                      (* syntax error (a Go panic recovered by ParseChunk), incl. "too many syntax levels" *)
| OutOfFuel.

Definition bind (r : res) (k : list tok -> nat -> res) : res :=
  match r with
  | Ok rest m => match k rest m with
                 | Ok rest' m' => Ok rest' (Nat.max m m')
                 | Err m' => Err (Nat.max m m')
                 | OutOfFuel => OutOfFuel
                 end
  | Err m => Err m
  | OutOfFuel => OutOfFuel
  end.

Definition expect (t : tok) (ts : list tok) (d : nat) : res :=
  match ts with
  | x :: r => if match x, t with
                 | TRPar, TRPar | TRBrace, TRBrace | TEnd, TEnd => true
                 | _, _ => false
                 end then Ok r d else Err d
  | [] => Err d
  end.

(* d = p.depth on entry.  A frame at depth d+1 exists from enterLevel to leaveLevel. *)
Fixpoint shortExp (fuel : nat) (ts : list tok) (d : nat) : res :=
  match fuel with
  | O => OutOfFuel
  | S fuel =>
    let d1 := S d in                                       (* enterLevel: p.depth++ *)
    if maxNestingDepth <? d1 then Err d1                   (* "chunk has too many syntax levels" *)
    else
      let body :=
        match ts with
        | TAtom :: r => Ok r d1
        | TUn :: r => shortExp fuel r d1
        | TLPar :: r => bind (exp fuel r d1) (fun r' _ => expect TRPar r' d1)
        | TLBrace :: r => fields fuel r d1
        | TFunction :: r => bind (block fuel r d1) (fun r' _ => expect TEnd r' d1)
        | _ => Err d1
        end in
      bind body (fun r m =>
        match r with
        | TPow :: r' => shortExp fuel r' d1
        | _ => Ok r m
        end)                                               (* leaveLevel *)
  end
with exp (fuel : nat) (ts : list tok) (d : nat) : res :=
  match fuel with
  | O => OutOfFuel
  | S fuel => bind (shortExp fuel ts d) (fun r m => binops fuel r d)
  end
with binops (fuel : nat) (ts : list tok) (d : nat) : res :=      (* the `for t.Type.IsBinOp()` loop of Exp *)
  match fuel with
  | O => OutOfFuel
  | S fuel =>
    match ts with
    | TBin :: r => bind (shortExp fuel r d) (fun r' m => binops fuel r' d)
    | _ => Ok ts d
    end
  end
with fields (fuel : nat) (ts : list tok) (d : nat) : res :=      (* TableConstructor's loop over Field *)
  match fuel with
  | O => OutOfFuel
  | S fuel =>
    match ts with
    | TRBrace :: r => Ok r d
    | _ => bind (exp fuel ts d) (fun r m =>
             match r with
             | TComma :: r' => fields fuel r' d
             | TRBrace :: r' => Ok r' d
             | _ => Err d
             end)
    end
  end
with stat (fuel : nat) (ts : list tok) (d : nat) : res :=
  match fuel with
  | O => OutOfFuel
  | S fuel =>
    let d1 := S d in
    if maxNestingDepth <? d1 then Err d1
    else
      match ts with
      | TDo :: r => bind (block fuel r d1) (fun r' _ => expect TEnd r' d1)
      | _ => exp fuel ts d1                                 (* expression / call / assignment statements *)
      end
  end
with block (fuel : nat) (ts : list tok) (d : nat) : res :=        (* Block's loop over Stat *)
  match fuel with
  | O => OutOfFuel
  | S fuel =>
    match ts with
    | [] | TEnd :: _ => Ok ts d
    | TReturn :: r => exp fuel r d                        (* Block parses `return explist` itself (p.Return), not through Stat *)
    | _ => bind (stat fuel ts d) (fun r m => block fuel r d)
    end
  end.

Definition frames_of (r : res) : nat :=
  match r with Ok _ m => m | Err m => m | OutOfFuel => 0 end.

(* ParseChunk: parser.Block at depth 0, then <eof> *)
Definition parseChunk (fuel : nat) (ts : list tok) : res :=
  bind (block fuel ts 0) (fun r m => match r with [] => Ok [] m | _ => Err m end).
