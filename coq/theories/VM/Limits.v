(* VM/Limits.v — executable model of the places where golua's bytecode
   compiler meets an implementation limit, exactly as the Go code behaves
   today.  Definitions only (proofs: VM/LimitsProofs.v).

   Mirrors:
     /repo/ircomp/compinstr.go   allocReg, regAllocator.{codeReg,takeRegister,releaseRegister},
                                 ProcessLoadConstInstr, ProcessMkClosureInstr, ProcessEtcLookupInstr,
                                 ProcessFillTableInstr, ProcessTruncateCloseStackInstr
     /repo/ircomp/ircomp.go      ConstantCompiler.CompileQueue (the recover that turns a
                                 *CompilationPanic — and only that — into an error)
     /repo/code/opcodes.go       KIndexFromInt, Index8FromInt
     /repo/code/unit_builder.go  Builder.EmitJump / EmitLabel (Offset(int) conversion)
     /repo/runtime/luacont.go    pc is an int16: pc++ and pc += int16(offset)

   A Go panic is an explicit result.  Go distinguishes two kinds here: a
   panic whose payload is a *CompilationPanic (recovered by CompileQueue and
   returned as an ordinary error = a compile error for load()) and any other
   payload (strings: re-panicked by CompileQueue; nothing above recovers it,
   so it escapes load, pcall and runtime.Call).

   This file follows the code AFTER the repairs of round 2 (every field limit
   raises a *CompilationPanic; ProcessCode rejects a function of more than
   32767 opcodes, which is what keeps jump offsets and the int16 pc exact). *)
From Coq Require Import ZArith Bool List.
From GV Require Import VM.Opcode.
Import ListNotations.
Open Scope Z_scope.

(* what an instruction compiler does *)
Inductive raw (A : Type) :=
| ROk (x : A)
| RPanicComp            (* panic(newPanic(msg)) : *CompilationPanic *)
| RPanicStr.            (* panic("...") *)
Arguments ROk {A} x.
Arguments RPanicComp {A}.
Arguments RPanicStr {A}.

(* what the caller of the compile functions observes *)
Inductive outcome :=
| Encoded (w : Z)       (* an opcode that decodes to what was requested *)
| CompileError          (* an error value: load returns nil, msg *)
| Panic                 (* a Go panic escapes the compile function *)
| Truncated (w : Z).    (* an opcode was emitted whose field is NOT what was requested *)

(* ConstantCompiler.CompileQueue's deferred recover *)
Definition compile_queue (r : raw outcome) : outcome :=
  match r with
  | ROk o => o
  | RPanicComp => CompileError
  | RPanicStr => Panic
  end.

(* ---------------------------------------------------------------- code.KIndexFromInt / Index8FromInt *)
Definition KIndexFromInt (i : Z) : raw Z :=
  if (i <? 0) || (i >? 65535) then RPanicStr else ROk i.
Definition Index8FromInt (n : Z) : raw Z :=
  if (n <? 0) || (n >? 255) then RPanicStr else ROk n.

(* ---------------------------------------------------------------- instruction compilers *)
(* ircomp.kIndex: range check raising a *CompilationPanic, then code.KIndexFromInt *)
Definition kIndex (i : Z) : raw Z :=
  if (i <? 0) || (i >? 65535) then RPanicComp       (* "too many constants" *)
  else KIndexFromInt i.
Definition compLoadConst (dst : reg) (ckidx : Z) : raw outcome :=
  match kIndex ckidx with
  | ROk k => ROk (Encoded (LoadConst dst k))
  | RPanicComp => RPanicComp
  | RPanicStr => RPanicStr
  end.
Definition compMkClosure (dst : reg) (ckidx : Z) : raw outcome :=
  match kIndex ckidx with
  | ROk k => ROk (Encoded (LoadClosure dst k))
  | RPanicComp => RPanicComp
  | RPanicStr => RPanicStr
  end.
Definition compEtcLookup (dst etc : reg) (idx : Z) : raw outcome :=
  if (idx <? 0) || (idx >=? 256) then RPanicComp     (* "too many values in a multiple assignment" *)
  else match Index8FromInt idx with
       | ROk i => ROk (Encoded (LoadEtcLookup dst etc i))
       | _ => RPanicStr
       end.
Definition compFillTable (dst etc : reg) (idx : Z) : raw outcome :=
  if (idx <? 0) || (idx >=? 256) then RPanicComp     (* "too many items before a multiple-value expression ..." *)
  else match Index8FromInt idx with
       | ROk i => ROk (Encoded (FillTable dst etc i))
       | _ => RPanicStr
       end.
Definition compClTrunc (h : Z) : raw outcome :=
  if (h <? 0) || (h >=? 65536) then RPanicComp       (* "too many pending to-be-closed variables" *)
  else ROk (Encoded (ClTrunc (u16 h))).

(* Builder.EmitJump (label already known) / EmitLabel (fix-up of an earlier jump):
   opcode.SetOffset(Offset(to - from)) — Offset is int16, the conversion is unchecked *)
Definition fixup (opcode from to : Z) : raw outcome :=
  let d := to - from in
  let o := s16 d in
  if o =? d then ROk (Encoded (SetOffset opcode o)) else ROk (Truncated (SetOffset opcode o)).

(* ConstantCompiler.ProcessCode: a function whose code has more than maxCodeSize opcodes is
   rejected (after its instructions were emitted, so after the fix-ups above) *)
Definition maxCodeSize : Z := 32767.
Definition compJump (opcode from to len : Z) : raw outcome :=
  let r := fixup opcode from to in
  if len >? maxCodeSize then RPanicComp (* "function too large" *) else r.

(* LuaCont.RunInThread: pc int16 *)
Definition pc_next (pc : Z) : Z := s16 (pc + 1).
Definition pc_jump (pc off : Z) : Z := s16 (pc + s16 off).

(* ---------------------------------------------------------------- register allocation *)
Fixpoint first_zero (regs : list Z) (i : Z) : option Z :=
  match regs with
  | [] => None
  | c :: r => if c =? 0 then Some i else first_zero r (i + 1)
  end.

(* allocReg: the first free slot, or a new one unless there are already 255 *)
Definition allocReg (regs : list Z) : raw (list Z * Z) :=
  match first_zero regs 0 with
  | Some i => ROk (regs, u8 i)
  | None =>
      if Z.of_nat (length regs) =? 255 then RPanicComp      (* "not enough registers" *)
      else ROk (regs ++ [0], u8 (Z.of_nat (length regs)))
  end.

Fixpoint bump (l : list Z) (i : nat) (d : Z) : list Z :=
  match l, i with
  | [], _ => []
  | c :: r, O => (c + d) :: r
  | c :: r, S j => c :: bump r j d
  end.

Record ra := mkRa {
  ra_isCell : list bool;            (* ir.RegData.IsCell per IR register *)
  ra_alloc : list (option reg);     (* allocations (done flag + code.Reg) per IR register *)
  ra_regs : list Z;                 (* use counts of value registers *)
  ra_cells : list Z                 (* use counts of cell registers *)
}.

Fixpoint set_nth {A} (l : list A) (i : nat) (x : A) : list A :=
  match l, i with
  | [], _ => []
  | _ :: r, O => x :: r
  | c :: r, S j => c :: set_nth r j x
  end.

Definition ra_init (isCell : list bool) : ra :=
  mkRa isCell (map (fun _ => None) isCell) [] [].

(* regAllocator.codeReg *)
Definition codeReg (a : ra) (r : nat) : raw (ra * reg) :=
  match nth r (ra_alloc a) None with
  | Some cr => ROk (a, cr)
  | None =>
      if nth r (ra_isCell a) false then
        match allocReg (ra_cells a) with
        | ROk (cells, i) =>
            let cr := CellReg i in
            ROk (mkRa (ra_isCell a) (set_nth (ra_alloc a) r (Some cr)) (ra_regs a) cells, cr)
        | RPanicComp => RPanicComp
        | RPanicStr => RPanicStr
        end
      else
        match allocReg (ra_regs a) with
        | ROk (regs, i) =>
            let cr := ValueReg i in
            ROk (mkRa (ra_isCell a) (set_nth (ra_alloc a) r (Some cr)) regs (ra_cells a), cr)
        | RPanicComp => RPanicComp
        | RPanicStr => RPanicStr
        end
  end.

Definition ra_bump (a : ra) (cr : reg) (d : Z) : ra :=
  if rtp cr =? 1
  then mkRa (ra_isCell a) (ra_alloc a) (ra_regs a) (bump (ra_cells a) (Z.to_nat (ridx cr)) d)
  else mkRa (ra_isCell a) (ra_alloc a) (bump (ra_regs a) (Z.to_nat (ridx cr)) d) (ra_cells a).

(* takeRegister / releaseRegister *)
Definition takeRegister (a : ra) (r : nat) : raw (ra * reg) :=
  match codeReg a r with
  | ROk (a', cr) => ROk (ra_bump a' cr 1, cr)
  | RPanicComp => RPanicComp
  | RPanicStr => RPanicStr
  end.
Definition releaseRegister (a : ra) (r : nat) : raw (ra * reg) :=
  match codeReg a r with
  | ROk (a', cr) => ROk (ra_bump a' cr (-1), cr)
  | RPanicComp => RPanicComp
  | RPanicStr => RPanicStr
  end.

(* a history of allocator requests, as ProcessCode replays the IR of one function *)
Inductive raop := Take (r : nat) | Release (r : nat) | Use (r : nat).

Definition ra_step (a : ra) (o : raop) : raw (ra * reg) :=
  match o with
  | Take r => takeRegister a r
  | Release r => releaseRegister a r
  | Use r => codeReg a r
  end.

(* runs the history; the registers handed out, in order; stops at the first panic *)
Fixpoint ra_run (a : ra) (os : list raop) : ra * list reg * raw unit :=
  match os with
  | [] => (a, [], ROk tt)
  | o :: rest =>
      match ra_step a o with
      | ROk (a', cr) => let '(af, rs, res) := ra_run a' rest in (af, cr :: rs, res)
      | RPanicComp => (a, [], RPanicComp)
      | RPanicStr => (a, [], RPanicStr)
      end
  end.

(* ---------------------------------------------------------------- requests (the statement's quantifier) *)
Inductive request :=
| ReqReg (regs : list Z)                       (* allocReg on an occupancy vector *)
| ReqConst (dst : reg) (i : Z)                 (* load the i-th queued constant *)
| ReqClosure (dst : reg) (i : Z)               (* closure whose code is the i-th queued constant *)
| ReqEtcLookup (dst etc : reg) (i : Z)         (* i-th value of a vararg / multiple results *)
| ReqFillTable (dst etc : reg) (i : Z)         (* table constructor: multi-value tail starting at index i *)
| ReqClTrunc (h : Z)                           (* close-stack height h *)
| ReqJump (opcode from to len : Z).            (* jump at address from to a label at address to, in a function of len opcodes *)

Definition all_busy (regs : list Z) : bool := forallb (fun c => negb (c =? 0)) regs.

(* the request is within the implementation limit *)
Definition in_range (r : request) : bool :=
  match r with
  | ReqReg regs => negb (all_busy regs) || (Z.of_nat (length regs) <? 255)
  | ReqConst _ i | ReqClosure _ i => (0 <=? i) && (i <=? 65535)
  | ReqEtcLookup _ _ i | ReqFillTable _ _ i => (0 <=? i) && (i <=? 255)
  | ReqClTrunc h => (0 <=? h) && (h <=? 65535)
  | ReqJump _ _ _ len => len <=? maxCodeSize
  end.

Definition compile (r : request) : outcome :=
  compile_queue
    match r with
    | ReqReg regs =>
        match allocReg regs with
        | ROk (_, i) => ROk (Encoded (LoadNil (ValueReg i)))   (* any opcode naming the register *)
        | RPanicComp => RPanicComp
        | RPanicStr => RPanicStr
        end
    | ReqConst dst i => compLoadConst dst i
    | ReqClosure dst i => compMkClosure dst i
    | ReqEtcLookup dst etc i => compEtcLookup dst etc i
    | ReqFillTable dst etc i => compFillTable dst etc i
    | ReqClTrunc h => compClTrunc h
    | ReqJump opcode from to len => compJump opcode from to len
    end.

Definition is_reg_request (r : request) : bool := match r with ReqReg _ => true | _ => false end.
Definition is_jump_request (r : request) : bool := match r with ReqJump _ _ _ _ => true | _ => false end.
