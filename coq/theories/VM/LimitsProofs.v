(* VM/LimitsProofs.v — what the model of golua's implementation limits
   (VM/Limits.v) satisfies, and where it refutes "exceeding a limit is a
   compile error". *)
From Coq Require Import ZArith Bool Lia List.
From GV Require Import VM.Opcode VM.OpcodeProofs VM.Limits.
Import ListNotations.
Open Scope Z_scope.

(* ---------------------------------------------------------------- allocReg *)
Lemma first_zero_bound regs : forall k i, first_zero regs k = Some i ->
  k <= i < k + Z.of_nat (length regs) /\ nth (Z.to_nat (i - k)) regs 1 = 0.
Proof.
  induction regs as [|c r IH]; intros k i H; cbn [first_zero] in H; [discriminate|].
  destruct (Z.eqb_spec c 0) as [->|Hc].
  - injection H as <-. cbn [length]. rewrite Z.sub_diag. cbn. lia.
  - apply IH in H. destruct H as [H1 H2]. cbn [length]. split; [lia|].
    replace (Z.to_nat (i - k)) with (S (Z.to_nat (i - (k + 1)))) by lia. exact H2.
Qed.

Lemma first_zero_none regs : forall k, first_zero regs k = None <-> all_busy regs = true.
Proof.
  induction regs as [|c r IH]; intros k; cbn [first_zero all_busy forallb]; [tauto|].
  destruct (Z.eqb_spec c 0); cbn [negb andb]; [split; discriminate|]. apply IH.
Qed.

Lemma allocReg_ok regs regs' i : (length regs <= 255)%nat -> allocReg regs = ROk (regs', i) ->
  (length regs' <= 255)%nat /\ 0 <= i < 255 /\ (Z.to_nat i < length regs')%nat /\
  (length regs <= length regs')%nat.
Proof.
  intros Hl H. unfold allocReg in H. destruct (first_zero regs 0) as [j|] eqn:E.
  - apply first_zero_bound in E. destruct E as [E _]. injection H as <- <-.
    unfold u8. rewrite Z.mod_small by lia. lia.
  - destruct (Z.eqb_spec (Z.of_nat (length regs)) 255); [discriminate|].
    injection H as <- <-. rewrite app_length. cbn [length].
    unfold u8. rewrite Z.mod_small by lia. lia.
Qed.

Lemma allocReg_never_str regs : allocReg regs <> RPanicStr.
Proof.
  unfold allocReg. destruct (first_zero regs 0); [discriminate|].
  destruct (Z.of_nat (length regs) =? 255); discriminate.
Qed.

(* the register limit is a CompilationPanic exactly when no slot is free and 255 are in use *)
Lemma allocReg_full regs : (length regs <= 255)%nat ->
  (allocReg regs = RPanicComp <-> all_busy regs = true /\ length regs = 255%nat).
Proof.
  intros Hl. unfold allocReg. destruct (first_zero regs 0) as [j|] eqn:E.
  - split; [discriminate|]. intros [Hb _]. apply (first_zero_none regs 0) in Hb. congruence.
  - apply first_zero_none in E. destruct (Z.eqb_spec (Z.of_nat (length regs)) 255).
    + split; [intros _; split; [auto|lia] | auto].
    + split; [discriminate|]. intros [_ H]. lia.
Qed.

(* ---------------------------------------------------------------- the allocator over histories *)
Definition alloc_ok (o : option reg) : Prop := match o with Some cr => reg_ok cr | None => True end.
Definition ra_inv (a : ra) : Prop :=
  (length (ra_regs a) <= 255)%nat /\ (length (ra_cells a) <= 255)%nat /\ Forall alloc_ok (ra_alloc a).

Lemma bump_length l : forall i d, length (bump l i d) = length l.
Proof. induction l; intros [|i] d; cbn; auto. Qed.

Lemma set_nth_Forall {A} (P : A -> Prop) l : forall i x, Forall P l -> P x -> Forall P (set_nth l i x).
Proof.
  induction l as [|c r IH]; intros [|i] x Hl Hx; cbn; auto; inversion Hl; subst; constructor; auto.
Qed.

Lemma nth_Forall_alloc l r : Forall alloc_ok l -> alloc_ok (nth r l None).
Proof.
  intros H. destruct (Nat.lt_ge_cases r (length l)).
  - rewrite Forall_forall in H. apply H. now apply nth_In.
  - rewrite nth_overflow by lia. exact I.
Qed.

Lemma reg_ok_mk tp i : 0 <= tp < 2 -> 0 <= i < 255 -> reg_ok (mkReg tp i).
Proof. unfold reg_ok. cbn. lia. Qed.

Lemma codeReg_inv a r a' cr : ra_inv a -> codeReg a r = ROk (a', cr) -> ra_inv a' /\ reg_ok cr.
Proof.
  intros (Hr & Hc & Hal) H. unfold codeReg in H.
  assert (Hn := nth_Forall_alloc _ r Hal).
  destruct (nth r (ra_alloc a) None) as [cr0|].
  - injection H as <- <-. split; [repeat split; auto|exact Hn].
  - destruct (nth r (ra_isCell a) false).
    + destruct (allocReg (ra_cells a)) as [[cells i]| |] eqn:E; try discriminate.
      injection H as <- <-. apply allocReg_ok in E; auto. destruct E as (E1 & E2 & _).
      assert (reg_ok (CellReg i)) by (apply reg_ok_mk; lia).
      split; auto. repeat split; cbn; auto. apply set_nth_Forall; auto.
    + destruct (allocReg (ra_regs a)) as [[regs i]| |] eqn:E; try discriminate.
      injection H as <- <-. apply allocReg_ok in E; auto. destruct E as (E1 & E2 & _).
      assert (reg_ok (ValueReg i)) by (apply reg_ok_mk; lia).
      split; auto. repeat split; cbn; auto. apply set_nth_Forall; auto.
Qed.

Lemma codeReg_never_str a r : codeReg a r <> RPanicStr.
Proof.
  unfold codeReg. destruct (nth r (ra_alloc a) None); [discriminate|].
  destruct (nth r (ra_isCell a) false).
  - destruct (allocReg (ra_cells a)) as [[? ?]| |] eqn:E; try discriminate. now apply allocReg_never_str in E.
  - destruct (allocReg (ra_regs a)) as [[? ?]| |] eqn:E; try discriminate. now apply allocReg_never_str in E.
Qed.

Lemma ra_bump_inv a cr d : ra_inv a -> ra_inv (ra_bump a cr d).
Proof.
  intros (Hr & Hc & Hal). unfold ra_bump. destruct (rtp cr =? 1); repeat split; cbn; auto;
    rewrite bump_length; auto.
Qed.

Lemma ra_step_inv a o a' cr : ra_inv a -> ra_step a o = ROk (a', cr) -> ra_inv a' /\ reg_ok cr.
Proof.
  intros Hi H. destruct o as [r|r|r]; cbn [ra_step] in H.
  - unfold takeRegister in H. destruct (codeReg a r) as [[a1 c1]| |] eqn:E; try discriminate.
    injection H as <- <-. apply codeReg_inv in E; auto. destruct E. split; auto. now apply ra_bump_inv.
  - unfold releaseRegister in H. destruct (codeReg a r) as [[a1 c1]| |] eqn:E; try discriminate.
    injection H as <- <-. apply codeReg_inv in E; auto. destruct E. split; auto. now apply ra_bump_inv.
  - now apply codeReg_inv in H.
Qed.

Lemma ra_step_never_str a o : ra_step a o <> RPanicStr.
Proof.
  destruct o as [r|r|r]; cbn [ra_step]; unfold takeRegister, releaseRegister;
    try (destruct (codeReg a r) as [[? ?]| |] eqn:E; try discriminate; now apply codeReg_never_str in E).
Qed.

(* Whatever the history of take/release/use requests: at most 255 value and 255 cell
   registers exist, every register handed out fits its 8-bit field (so the encoders of
   VM/Opcode.v are lossless on it), and the only failure is the CompilationPanic. *)
Lemma ra_run_safe : forall os a, ra_inv a ->
  let '(af, rs, res) := ra_run a os in
  ra_inv af /\ Forall reg_ok rs /\ res <> RPanicStr.
Proof.
  induction os as [|o rest IH]; intros a Hi; cbn [ra_run].
  - destruct Hi as (?&?&?). repeat split; auto; discriminate.
  - destruct (ra_step a o) as [[a1 c1]| |] eqn:E.
    + apply ra_step_inv in E; auto. destruct E as [Hi1 Hc1].
      specialize (IH a1 Hi1). destruct (ra_run a1 rest) as [[af rs] res].
      destruct IH as (H1 & H2 & H3). split; [exact H1|]. split; [constructor; auto|exact H3].
    + destruct Hi as (?&?&?). repeat split; auto; discriminate.
    + now apply ra_step_never_str in E.
Qed.

Lemma ra_init_inv isCell : ra_inv (ra_init isCell).
Proof.
  unfold ra_inv, ra_init. cbn. repeat split; try lia.
  induction isCell; cbn; constructor; auto. exact I.
Qed.

Lemma ra_history_safe isCell os :
  let '(af, rs, res) := ra_run (ra_init isCell) os in
  (length (ra_regs af) <= 255)%nat /\ (length (ra_cells af) <= 255)%nat /\
  Forall reg_ok rs /\ res <> RPanicStr.
Proof.
  assert (H := ra_run_safe os _ (ra_init_inv isCell)).
  destruct (ra_run (ra_init isCell) os) as [[af rs] res]. destruct H as ((H1 & H2 & _) & H3 & H4). auto.
Qed.

(* ---------------------------------------------------------------- requests *)
Definition req_wf (r : request) : Prop :=
  match r with
  | ReqReg regs => (length regs <= 255)%nat
  | ReqConst dst _ | ReqClosure dst _ => reg_ok dst
  | ReqEtcLookup dst etc _ | ReqFillTable dst etc _ => reg_ok dst /\ reg_ok etc
  | ReqClTrunc _ => True
  | ReqJump _ from to len => 0 <= from < len /\ 0 <= to <= len      (* both addresses inside the function *)
  end.

(* the emitted opcode reads back as what was asked for *)
Definition decodes_to (r : request) (w : Z) : Prop :=
  match r with
  | ReqReg regs => exists i, GetA w = ValueReg i /\ 0 <= i < 255 /\
                             (nth (Z.to_nat i) regs 0 = 0)
  | ReqConst dst i => type_of w = T3 /\ GetY w = OpK /\ GetA w = dst /\ GetKIndex w = i
  | ReqClosure dst i => type_of w = T3 /\ GetY w = OpClosureK /\ GetA w = dst /\ GetKIndex w = i
  | ReqEtcLookup dst etc i => type_of w = T6 /\ GetF w = false /\ GetA w = dst /\ GetB w = etc /\ GetM w = i
  | ReqFillTable dst etc i => type_of w = T6 /\ GetF w = true /\ GetA w = dst /\ GetB w = etc /\ GetM w = i
  | ReqClTrunc h => type_of w = T5 /\ GetJ w = OpClStack /\ GetF w = false /\ GetClStackOffset w = h
  | ReqJump opcode from to _ => GetOffset w = to - from /\ GetJ w = GetJ opcode /\ GetF w = GetF opcode /\
                                GetA w = GetA opcode /\ TypePfx w = TypePfx opcode
  end.

Lemma reg0_ok : reg_ok reg0.
Proof. unfold reg_ok, reg0. cbn. lia. Qed.

Lemma nth_default_irrel (l : list Z) n d d' : (n < length l)%nat -> nth n l d = nth n l d'.
Proof. intros. apply nth_indep. auto. Qed.

Lemma limit_in_range_encodes r : req_wf r -> in_range r = true ->
  exists w, compile r = Encoded w /\ decodes_to r w.
Proof.
  destruct r as [regs|dst i|dst i|dst etc i|dst etc i|h|opcode from to len]; unfold compile; cbn [req_wf in_range decodes_to];
    intros Hwf Hin.
  - (* registers *)
    unfold allocReg. destruct (first_zero regs 0) as [j|] eqn:E.
    + destruct (first_zero_bound _ _ _ E) as [Hj Hz]. rewrite Z.sub_0_r in Hz.
      unfold u8. rewrite Z.mod_small by lia. cbn [compile_queue]. eexists. split; [reflexivity|].
      exists j. split; [|split; [lia|]].
      * unfold LoadNil. destruct (type4b_fields Off OpNil (ValueReg j) 0) as (_&_&_&_&_&H&_);
          unfold flag_ok, Off, OpNil; try lia; auto. apply reg_ok_mk; lia.
      * rewrite (nth_default_irrel _ _ 0 1) by lia. exact Hz.
    + apply first_zero_none in E. rewrite E in Hin. cbn [negb orb] in Hin.
      apply Z.ltb_lt in Hin. destruct (Z.eqb_spec (Z.of_nat (length regs)) 255); [lia|].
      unfold u8. rewrite Z.mod_small by lia. cbn [compile_queue]. eexists. split; [reflexivity|].
      exists (Z.of_nat (length regs)). split; [|split; [lia|]].
      * unfold LoadNil. destruct (type4b_fields Off OpNil (ValueReg (Z.of_nat (length regs))) 0) as (_&_&_&_&_&H&_);
          unfold flag_ok, Off, OpNil; try lia; auto. apply reg_ok_mk; lia.
      * rewrite Nat2Z.id. apply nth_overflow. lia.
  - (* constant *)
    apply andb_true_iff in Hin. destruct Hin as [H0 H1]. apply Z.leb_le in H0, H1.
    unfold compLoadConst, kIndex, KIndexFromInt.
    destruct (Z.ltb_spec i 0); [lia|]. destruct (Z.gtb_spec i 65535); [lia|]. cbn [orb compile_queue].
    eexists. split; [reflexivity|]. unfold LoadConst, encodeN.
    destruct (type3_fields Off OpK dst i) as (_&_&_&G4&G5&_&G7); unfold flag_ok, Off, OpK; try lia; auto.
    repeat split; auto. destruct type_of_mk as (M1&M2&M3&M4a&M4b&M5&M6&M7&M0); apply M3; unfold flag_ok; try lia; auto.
  - (* closure *)
    apply andb_true_iff in Hin. destruct Hin as [H0 H1]. apply Z.leb_le in H0, H1.
    unfold compMkClosure, kIndex, KIndexFromInt.
    destruct (Z.ltb_spec i 0); [lia|]. destruct (Z.gtb_spec i 65535); [lia|]. cbn [orb compile_queue].
    eexists. split; [reflexivity|]. unfold LoadClosure, encodeN.
    destruct (type3_fields Off OpClosureK dst i) as (_&_&_&G4&G5&_&G7); unfold flag_ok, Off, OpClosureK; try lia; auto.
    repeat split; auto. destruct type_of_mk as (M1&M2&M3&M4a&M4b&M5&M6&M7&M0); apply M3; unfold flag_ok; try lia; auto.
  - (* etc lookup *)
    destruct Hwf as [Hd He].
    apply andb_true_iff in Hin. destruct Hin as [H0 H1]. apply Z.leb_le in H0, H1.
    unfold compEtcLookup, Index8FromInt.
    destruct (Z.ltb_spec i 0); [lia|]. destruct (Z.geb_spec i 256); [lia|].
    destruct (Z.gtb_spec i 255); [lia|]. cbn [orb compile_queue].
    eexists. split; [reflexivity|]. unfold LoadEtcLookup, encodeM.
    destruct (type6_fields Off dst etc i) as (_&_&G3&G4&G5&G6); unfold flag_ok, Off; try lia; auto.
    repeat split; auto. destruct type_of_mk as (M1&M2&M3&M4a&M4b&M5&M6&M7&M0); apply M6; unfold flag_ok; try lia; auto.
  - (* fill table *)
    destruct Hwf as [Hd He].
    apply andb_true_iff in Hin. destruct Hin as [H0 H1]. apply Z.leb_le in H0, H1.
    unfold compFillTable, Index8FromInt.
    destruct (Z.ltb_spec i 0); [lia|]. destruct (Z.geb_spec i 256); [lia|].
    destruct (Z.gtb_spec i 255); [lia|]. cbn [orb compile_queue].
    eexists. split; [reflexivity|]. unfold FillTable, encodeM.
    destruct (type6_fields On dst etc i) as (_&_&G3&G4&G5&G6); unfold flag_ok, On; try lia; auto.
    repeat split; auto. destruct type_of_mk as (M1&M2&M3&M4a&M4b&M5&M6&M7&M0); apply M6; unfold flag_ok; try lia; auto.
  - (* cltrunc *)
    apply andb_true_iff in Hin. destruct Hin as [H0 H1]. apply Z.leb_le in H0, H1.
    unfold compClTrunc. destruct (Z.ltb_spec h 0); [lia|]. destruct (Z.geb_spec h 65536); [lia|].
    cbn [orb compile_queue]. eexists. split; [reflexivity|]. unfold ClTrunc, encodeDcl, u16.
    rewrite Z.mod_small by lia.
    destruct (type5_fields Off OpClStack reg0 h) as (_&_&G3&G4&_&G6&_); unfold flag_ok, Off, OpClStack; try lia;
      auto using reg0_ok.
    repeat split; auto. destruct type_of_mk as (M1&M2&M3&M4a&M4b&M5&M6&M7&M0); apply M5; unfold flag_ok; try lia; auto using reg0_ok.
  - (* jump: both addresses lie in a function of at most 32767 opcodes, so the distance fits *)
    apply Z.leb_le in Hin. unfold maxCodeSize in Hin.
    unfold compJump, maxCodeSize. destruct (Z.gtb_spec len 32767); [lia|].
    unfold fixup. rewrite s16_id by lia. rewrite Z.eqb_refl. cbn [compile_queue].
    eexists. split; [reflexivity|].
    destruct (SetOffset_fields opcode (to - from)) as (G2&_&G3&G4&G5&G6); [lia|].
    repeat split; auto.
Qed.

(* ---------------------------------------------------------------- out of range *)
(* THE statement: exceeding an implementation limit is a compile error — not a panic, not a
   silently truncated opcode — for every limit *)
Lemma limit_is_compile_error r : req_wf r -> in_range r = false -> compile r = CompileError.
Proof.
  destruct r as [regs|dst i|dst i|dst etc i|dst etc i|h|opcode from to len];
    unfold compile; cbn [req_wf in_range]; intros Hwf Hin.
  - apply orb_false_iff in Hin. destruct Hin as [Hb Hl]. apply negb_false_iff in Hb.
    apply Z.ltb_ge in Hl. assert (E : allocReg regs = RPanicComp) by (apply allocReg_full; auto; split; auto; lia).
    now rewrite E.
  - unfold compLoadConst, kIndex. apply andb_false_iff in Hin.
    destruct (Z.ltb_spec i 0); [reflexivity|]. destruct (Z.gtb_spec i 65535); [reflexivity|].
    destruct Hin as [Hin|Hin]; apply Z.leb_gt in Hin; lia.
  - unfold compMkClosure, kIndex. apply andb_false_iff in Hin.
    destruct (Z.ltb_spec i 0); [reflexivity|]. destruct (Z.gtb_spec i 65535); [reflexivity|].
    destruct Hin as [Hin|Hin]; apply Z.leb_gt in Hin; lia.
  - unfold compEtcLookup. apply andb_false_iff in Hin.
    destruct (Z.ltb_spec i 0); [reflexivity|]. destruct (Z.geb_spec i 256); [reflexivity|].
    destruct Hin as [Hin|Hin]; apply Z.leb_gt in Hin; lia.
  - unfold compFillTable. apply andb_false_iff in Hin.
    destruct (Z.ltb_spec i 0); [reflexivity|]. destruct (Z.geb_spec i 256); [reflexivity|].
    destruct Hin as [Hin|Hin]; apply Z.leb_gt in Hin; lia.
  - unfold compClTrunc. apply andb_false_iff in Hin.
    destruct (Z.ltb_spec h 0); [reflexivity|]. destruct (Z.geb_spec h 65536); [reflexivity|].
    destruct Hin as [Hin|Hin]; apply Z.leb_gt in Hin; lia.
  - apply Z.leb_gt in Hin. unfold compJump. destruct (Z.gtb_spec len maxCodeSize); [reflexivity|lia].
Qed.

(* consequently no well-formed request ever ends in a Go panic or in a truncated opcode *)
Lemma compile_never_panics_nor_truncates r : req_wf r ->
  compile r <> Panic /\ forall w, compile r <> Truncated w.
Proof.
  intros Hwf. destruct (in_range r) eqn:E.
  - destruct (limit_in_range_encodes r Hwf E) as (w & -> & _). split; [discriminate|intros; discriminate].
  - rewrite (limit_is_compile_error r Hwf E). split; [discriminate|intros; discriminate].
Qed.

(* the unchecked Offset(int) conversion of the Builder is still there; it is the length check that
   makes it exact: without it the conversion changes the value *)
Lemma truncated_jump_is_wrong opcode from to : ~ (- 2^15 <= to - from < 2^15) ->
  GetOffset (SetOffset opcode (s16 (to - from))) <> to - from.
Proof.
  intros Hin.
  destruct (SetOffset_fields opcode (s16 (to - from)) (s16_range _)) as (-> & _).
  now apply s16_wraps.
Qed.

(* ---------------------------------------------------------------- the program counter *)
Lemma pc_next_exact pc : 0 <= pc -> pc + 1 < 2^15 -> pc_next pc = pc + 1.
Proof. intros. unfold pc_next. apply s16_id. lia. Qed.

Lemma pc_jump_exact pc off : 0 <= pc < 2^15 -> - 2^15 <= off < 2^15 -> 0 <= pc + off < 2^15 ->
  pc_jump pc off = pc + off.
Proof. intros. unfold pc_jump. rewrite (s16_id off) by lia. apply s16_id. lia. Qed.

(* in a function that passed the length check, the int16 pc never wraps: stepping and jumping
   between addresses of the function are exact *)
Lemma pc_exact len pc target : len <= maxCodeSize -> 0 <= pc < len -> 0 <= target <= len ->
  pc_next pc = pc + 1 /\ pc_jump pc (target - pc) = target.
Proof.
  unfold maxCodeSize. intros Hl Hp Ht. split.
  - apply pc_next_exact; lia.
  - rewrite pc_jump_exact by lia. lia.
Qed.

(* hypotheses are satisfiable *)
Example limits_inhabited :
  req_wf (ReqFillTable (ValueReg 0) (CellReg 1) 255) /\ in_range (ReqFillTable (ValueReg 0) (CellReg 1) 255) = true /\
  req_wf (ReqReg (repeat 1 255)) /\ in_range (ReqReg (repeat 1 255)) = false /\
  compile (ReqReg (repeat 1 255)) = CompileError /\
  req_wf (ReqFillTable (ValueReg 0) (CellReg 1) 256) /\ compile (ReqFillTable (ValueReg 0) (CellReg 1) 256) = CompileError /\
  req_wf (ReqJump (Jump 0) 0 40000 40001) /\ compile (ReqJump (Jump 0) 0 40000 40001) = CompileError /\
  req_wf (ReqJump (Jump 0) 0 32767 32767) /\ in_range (ReqJump (Jump 0) 0 32767 32767) = true.
Proof.
  split; [unfold req_wf, reg_ok; cbn [rtp ridx ValueReg CellReg]; lia|].
  split; [reflexivity|]. split; [unfold req_wf; rewrite repeat_length; lia|].
  split; [vm_compute; reflexivity|]. split; [vm_compute; reflexivity|].
  split; [unfold req_wf, reg_ok; cbn [rtp ridx ValueReg CellReg]; lia|].
  split; [vm_compute; reflexivity|]. split; [unfold req_wf; lia|].
  split; [vm_compute; reflexivity|]. split; [unfold req_wf; lia|vm_compute; reflexivity].
Qed.
