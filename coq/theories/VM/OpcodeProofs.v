(* VM/OpcodeProofs.v — encode/decode round trips for every field of every
   opcode type of /repo/code/opcodes.go (model: VM/Opcode.v).

   Method: a decoder is `(c >> p) & (2^k - 1)`; it distributes over the `|`
   chain of an encoder (Z.shiftr_lor, Z.land_lor_distr_l), which leaves
   single-field terms `((v << s) >> p) & (2^k-1)`; two generic lemmas proved
   once from the bit specifications say that such a term is v when the field
   is the one asked for and 0 when the two bit ranges are disjoint. *)
From Coq Require Import ZArith Bool Lia List.
From GV Require Import VM.Opcode.
Open Scope Z_scope.

(* ---------------------------------------------------------------- generic bit lemmas *)
Lemma testbit_small v k n : 0 <= v < 2^k -> k <= n -> Z.testbit v n = false.
Proof.
  intros Hv Hn. destruct (Z.eq_dec v 0) as [->|Hz]; [apply Z.testbit_0_l|].
  apply Z.bits_above_log2; [lia|]. assert (0 <= k).
  { destruct (Z.le_gt_cases 0 k); [auto|]. rewrite Z.pow_neg_r in Hv by lia. lia. }
  apply Z.lt_le_trans with k; [|lia]. apply Z.log2_lt_pow2; lia.
Qed.

Lemma extract_same v k s : 0 <= v < 2^k -> 0 <= s -> 0 <= k ->
  Z.land (Z.shiftr (Z.shiftl v s) s) (Z.ones k) = v.
Proof.
  intros Hv Hs Hk. rewrite Z.shiftr_shiftl_l by lia. rewrite Z.sub_diag, Z.shiftl_0_r.
  rewrite Z.land_ones by lia. apply Z.mod_small; lia.
Qed.

Lemma extract_other v kv s p k : 0 <= v < 2^kv -> 0 <= s -> 0 <= p -> 0 <= k ->
  (s + kv <= p \/ p + k <= s) ->
  Z.land (Z.shiftr (Z.shiftl v s) p) (Z.ones k) = 0.
Proof.
  intros Hv Hs Hp Hk Hd. apply Z.bits_inj'. intros n Hn.
  rewrite Z.land_spec, Z.shiftr_spec, Z.shiftl_spec, Z.bits_0 by lia.
  rewrite Z.testbit_ones_nonneg by lia.
  destruct (Z.ltb_spec n k); [|apply andb_false_r].
  rewrite andb_true_r. destruct Hd.
  - apply testbit_small with kv; lia.
  - apply Z.testbit_neg_r; lia.
Qed.

(* c & (m << p)  =  ((c >> p) & m) << p   for a mask of k ones *)
Lemma land_shifted_ones c k p : 0 <= k -> 0 <= p ->
  Z.land c (Z.shiftl (Z.ones k) p) = Z.shiftl (Z.land (Z.shiftr c p) (Z.ones k)) p.
Proof.
  intros Hk Hp. apply Z.bits_inj'. intros n Hn.
  rewrite Z.land_spec, !Z.shiftl_spec by lia.
  destruct (Z.ltb_spec n p).
  - rewrite !(Z.testbit_neg_r _ (n - p)) by lia. apply andb_false_r.
  - rewrite Z.land_spec, Z.shiftr_spec by lia. now replace (n - p + p) with n by lia.
Qed.

Lemma shl32_small v kv s : 0 <= v < 2^kv -> 0 <= s -> 0 <= kv -> s + kv <= 32 -> shl32 v s = Z.shiftl v s.
Proof.
  intros Hv Hs Hk Hb. unfold shl32, u32. rewrite Z.shiftl_mul_pow2 by lia.
  apply Z.mod_small. split; [apply Z.mul_nonneg_nonneg; lia|].
  apply Z.lt_le_trans with (2^kv * 2^s).
  - apply Z.mul_lt_mono_pos_r; lia.
  - rewrite <- Z.pow_add_r by lia. apply Z.pow_le_mono_r; lia.
Qed.

(* ---------------------------------------------------------------- normal forms of decoders *)
Lemma dec_u8_land c p m k : m = Z.ones k -> 0 <= k <= 8 ->
  u8 (Z.land (Z.shiftr c p) m) = Z.land (Z.shiftr c p) (Z.ones k).
Proof.
  intros -> Hk. unfold u8. rewrite Z.land_ones by lia. apply Z.mod_small.
  split; [apply Z.mod_pos_bound; lia|].
  apply Z.lt_le_trans with (2^k); [apply Z.mod_pos_bound; lia|apply Z.pow_le_mono_r; lia].
Qed.
Lemma dec_u8 c : u8 c = Z.land (Z.shiftr c 0) (Z.ones 8).
Proof. unfold u8. now rewrite Z.shiftr_0_r, Z.land_ones by lia. Qed.
Lemma dec_u16 c : u16 c = Z.land (Z.shiftr c 0) (Z.ones 16).
Proof. unfold u16. now rewrite Z.shiftr_0_r, Z.land_ones by lia. Qed.
Lemma dec_bit c p : 0 <= p ->
  negb (Z.land c (Z.shiftl 1 p) =? 0) = (Z.land (Z.shiftr c p) (Z.ones 1) =? 1).
Proof.
  intros Hp. change 1 with (Z.ones 1) at 1. rewrite land_shifted_ones by lia.
  rewrite Z.land_ones by lia. change (2^1) with 2.
  assert (H := Z.mod_pos_bound (Z.shiftr c p) 2 ltac:(lia)).
  rewrite Z.shiftl_mul_pow2 by lia. assert (0 < 2^p) by (apply Z.pow_pos_nonneg; lia).
  destruct (Z.eqb_spec (Z.shiftr c p mod 2) 1) as [E|E].
  - rewrite E. destruct (Z.eqb_spec (1 * 2^p) 0); [lia|reflexivity].
  - assert (Z.shiftr c p mod 2 = 0) as -> by lia. reflexivity.
Qed.

(* a value below 2^k written as a zero shift, so that the extract lemmas apply *)
Lemma shl0 v : v = Z.shiftl v 0.
Proof. now rewrite Z.shiftl_0_r. Qed.

(* ---------------------------------------------------------------- the tactic *)
Ltac bound_of v tac :=
  match goal with
  | H : 0 <= v < 2^?k |- _ => tac k H
  end.

(* rewrite one single-field term *)
Ltac ext_step :=
  match goal with
  | |- context[Z.land (Z.shiftr (Z.shiftl ?v ?s) ?s) (Z.ones ?k)] =>
      rewrite (extract_same v k s) by lia
  | |- context[Z.land (Z.shiftr (Z.shiftl ?v ?s) ?p) (Z.ones ?k)] =>
      first [ rewrite (extract_other v 1 s p k) by lia
            | rewrite (extract_other v 2 s p k) by lia
            | rewrite (extract_other v 3 s p k) by lia
            | rewrite (extract_other v 4 s p k) by lia
            | rewrite (extract_other v 8 s p k) by lia
            | rewrite (extract_other v 16 s p k) by lia ]
  end.

Ltac distribute := repeat (rewrite ?Z.shiftr_lor, ?Z.land_lor_distr_l).

Local Lemma c1 : 0 <= 1 < 2^1. Proof. lia. Qed.

(* ---------------------------------------------------------------- encoders as lor-chains of plain shifts *)
Section Fields.
  Variables (a b c : reg) (f op n l d i : Z).
  Hypothesis (Ha : reg_ok a) (Hb : reg_ok b) (Hc : reg_ok c).

  Lemma toA_plain : toA a = Z.lor (Z.shiftl (ridx a) 16) (Z.shiftl (rtp a) 26).
  Proof. destruct Ha. unfold toA. now rewrite (shl32_small _ 8), (shl32_small _ 1) by lia. Qed.
  Lemma toB_plain : toB b = Z.lor (Z.shiftl (ridx b) 8) (Z.shiftl (rtp b) 25).
  Proof. destruct Hb. unfold toB. now rewrite (shl32_small _ 8), (shl32_small _ 1) by lia. Qed.
  Lemma toC_plain : toC c = Z.lor (Z.shiftl (ridx c) 0) (Z.shiftl (rtp c) 24).
  Proof. destruct Hc. unfold toC. now rewrite (shl32_small _ 1), Z.shiftl_0_r by lia. Qed.
End Fields.

(* All-purpose: put the goal in plain form, normalise decoders, distribute, extract. *)
Ltac plain :=
  unfold mkType1, mkType2, mkType3, mkType4a, mkType4b, mkType5, mkType6, mkType7, mkType0,
         encodeX, encodeF, encodeY, encodeJ, encodeZ, encodeL, encodeN, encodeM, encodeDcl,
         Type1Pfx, Type2Pfx, Type3Pfx, Type4Pfx, Type5Pfx, Type6Pfx, Type7Pfx, Type0Pfx, type4aFlag;
  repeat match goal with
  | H : reg_ok ?r |- context[toA ?r] => rewrite (toA_plain r H)
  | H : reg_ok ?r |- context[toB ?r] => rewrite (toB_plain r H)
  | H : reg_ok ?r |- context[toC ?r] => rewrite (toC_plain r H)
  end;
  repeat match goal with
  | H : 0 <= ?v < 2^?k |- context[shl32 ?v ?s] => rewrite (shl32_small v k s H) by lia
  end.

Ltac unreg :=
  repeat match goal with
  | H : reg_ok ?r |- _ => destruct H
  | H : flag_ok _ |- _ => unfold flag_ok in H
  end.

Ltac solve_field :=
  distribute; repeat ext_step; rewrite ?Z.lor_0_r, ?Z.lor_0_l; try reflexivity.

(* constants that appear as shifted fields need a bound in the context *)
Ltac with_consts tac :=
  assert (K0 : 0 <= 0 < 2^1) by lia; assert (K1 : 0 <= 1 < 2^1) by lia;
  assert (K2 : 0 <= 2 < 2^3) by lia; assert (K3 : 0 <= 3 < 2^3) by lia;
  assert (K4 : 0 <= 4 < 2^3) by lia; assert (K5 : 0 <= 5 < 2^3) by lia;
  assert (K6 : 0 <= 6 < 2^3) by lia; assert (K7 : 0 <= 7 < 2^3) by lia; tac.

(* ---------------------------------------------------------------- decoders in normal form *)
Lemma GetA_nf c : GetA c = mkReg (Z.land (Z.shiftr c 26) (Z.ones 1)) (Z.land (Z.shiftr c 16) (Z.ones 8)).
Proof. unfold GetA. now rewrite (dec_u8_land _ _ 1 1), (dec_u8_land _ _ 255 8) by (try reflexivity; lia). Qed.
Lemma GetB_nf c : GetB c = mkReg (Z.land (Z.shiftr c 25) (Z.ones 1)) (Z.land (Z.shiftr c 8) (Z.ones 8)).
Proof. unfold GetB. now rewrite (dec_u8_land _ _ 1 1), (dec_u8_land _ _ 255 8) by (try reflexivity; lia). Qed.
Lemma GetC_nf c : GetC c = mkReg (Z.land (Z.shiftr c 24) (Z.ones 1)) (Z.land (Z.shiftr c 0) (Z.ones 8)).
Proof.
  unfold GetC. rewrite (dec_u8_land _ _ 1 1) by (try reflexivity; lia).
  rewrite <- (Z.shiftr_0_r c) at 2. now rewrite (dec_u8_land _ _ 255 8) by (try reflexivity; lia).
Qed.
Lemma GetX_nf c : GetX c = Z.land (Z.shiftr c 27) (Z.ones 4).
Proof. unfold GetX. now rewrite (dec_u8_land _ _ 15 4) by (try reflexivity; lia). Qed.
Lemma getYorJ_nf c : getYorJ c = Z.land (Z.shiftr c 24) (Z.ones 2).
Proof. unfold getYorJ. now rewrite (dec_u8_land _ _ 3 2) by (try reflexivity; lia). Qed.
Lemma GetF_nf c : GetF c = (Z.land (Z.shiftr c 27) (Z.ones 1) =? 1).
Proof. unfold GetF. now rewrite dec_bit by lia. Qed.
Lemma HasType1_nf c : HasType1 c = (Z.land (Z.shiftr c 31) (Z.ones 1) =? 1).
Proof. unfold HasType1. now rewrite dec_bit by lia. Qed.
Lemma HasType4a_nf c : HasType4a c = (Z.land (Z.shiftr c 24) (Z.ones 1) =? 1).
Proof. unfold HasType4a, type4aFlag. now rewrite dec_bit by lia. Qed.
Lemma TypePfx_nf c : TypePfx c = Z.shiftl (Z.land (Z.shiftr c 28) (Z.ones 4)) 28.
Proof. unfold TypePfx. change 15 with (Z.ones 4). now rewrite land_shifted_ones by lia. Qed.
Lemma HasType0_nf c : HasType0 c = (Z.land (Z.shiftr c 28) (Z.ones 4) =? 0).
Proof.
  unfold HasType0. change 15 with (Z.ones 4). rewrite land_shifted_ones by lia.
  rewrite Z.shiftl_mul_pow2 by lia.
  destruct (Z.eqb_spec (Z.land (Z.shiftr c 28) (Z.ones 4)) 0) as [->|E]; [reflexivity|].
  destruct (Z.eqb_spec (Z.land (Z.shiftr c 28) (Z.ones 4) * 2^28) 0); [lia|reflexivity].
Qed.
Lemma GetL_nf c : GetL c = Z.land (Z.shiftr c 8) (Z.ones 8).
Proof. unfold GetL, u8. now rewrite Z.land_ones by lia. Qed.
Lemma GetUnOp_nf c : GetUnOp c = Z.land (Z.shiftr c 0) (Z.ones 8).
Proof. unfold GetUnOp. rewrite <- (Z.shiftr_0_r c) at 1. now rewrite (dec_u8_land _ _ 255 8) by (try reflexivity; lia). Qed.
Lemma GetUnOpK_nf c : GetUnOpK c = Z.land (Z.shiftr c 0) (Z.ones 8).
Proof. apply GetUnOp_nf. Qed.
Lemma GetM_nf c : GetM c = Z.land (Z.shiftr c 0) (Z.ones 8).
Proof. apply dec_u8. Qed.
Lemma GetN_nf c : GetN c = Z.land (Z.shiftr c 0) (Z.ones 16).
Proof. apply dec_u16. Qed.

Ltac nf :=
  rewrite ?GetA_nf, ?GetB_nf, ?GetC_nf, ?GetX_nf, ?GetF_nf, ?HasType1_nf, ?HasType4a_nf,
          ?TypePfx_nf, ?HasType0_nf, ?GetL_nf, ?GetM_nf, ?GetN_nf, ?GetUnOpK_nf;
  unfold GetY, GetJ, GetUnOpK, GetKIndex, GetClStackOffset;
  rewrite ?getYorJ_nf, ?GetUnOp_nf, ?GetN_nf; fold (GetN).

Lemma reg_eta r : mkReg (rtp r) (ridx r) = r.
Proof. now destruct r. Qed.

(* ================================================================ round trips *)
Ltac fin :=
  rewrite ?Z.shiftr_lor; rewrite ?Z.land_lor_distr_l; repeat ext_step;
  rewrite ?Z.lor_0_r, ?Z.lor_0_l, ?Z.shiftl_0_r; rewrite ?reg_eta; try reflexivity.
Ltac raw v := replace v with (Z.shiftl v 0) by apply Z.shiftl_0_r.
Ltac start0 := intros; repeat match goal with w := _ |- _ => subst w end; unfold flag_ok in *.
Ltac start1 := nf; plain; unreg; repeat split.
Ltac start := start0; start1.

(* Type1:  1XXXXabc AAAAAAAA BBBBBBBB CCCCCCCC *)
Lemma type1_fields a b c op : reg_ok a -> reg_ok b -> reg_ok c -> 0 <= op < 2^4 ->
  let w := mkType1 op a b c in
  HasType1 w = true /\ GetX w = op /\ GetA w = a /\ GetB w = b /\ GetC w = c.
Proof. start; fin. Qed.

(* Type2:  0111Fabc AAAAAAAA BBBBBBBB CCCCCCCC *)
Lemma type2_fields f a b c : flag_ok f -> reg_ok a -> reg_ok b -> reg_ok c ->
  let w := mkType2 f a b c in
  HasType1 w = false /\ TypePfx w = Type2Pfx /\ GetF w = (f =? 1) /\ GetA w = a /\ GetB w = b /\ GetC w = c.
Proof. start; fin. Qed.

(* Type3:  0110FaYY AAAAAAAA NNNNNNNN NNNNNNNN *)
Lemma type3_fields f op a n : flag_ok f -> 0 <= op < 2^2 -> reg_ok a -> 0 <= n < 2^16 ->
  let w := mkType3 f op a n in
  HasType1 w = false /\ TypePfx w = Type3Pfx /\ GetF w = (f =? 1) /\ GetY w = op /\ GetA w = a /\
  GetN w = n /\ GetKIndex w = n.
Proof. start0. unfold encodeN. raw n. start1; fin. Qed.

(* Type4a: 0101Fab1 AAAAAAAA BBBBBBBB ZZZZZZZZ *)
Lemma type4a_fields f op a b : flag_ok f -> 0 <= op < 2^8 -> reg_ok a -> reg_ok b ->
  let w := mkType4a f op a b in
  HasType1 w = false /\ TypePfx w = Type4Pfx /\ HasType4a w = true /\ GetF w = (f =? 1) /\
  GetUnOp w = op /\ GetA w = a /\ GetB w = b.
Proof. start0. unfold encodeZ. raw op. start1; fin. Qed.

(* Type4b: 0101Fa00 AAAAAAAA LLLLLLLL ZZZZZZZZ *)
Lemma type4b_fields f op a l : flag_ok f -> 0 <= op < 2^8 -> reg_ok a -> 0 <= l < 2^8 ->
  let w := mkType4b f op a l in
  HasType1 w = false /\ TypePfx w = Type4Pfx /\ HasType4a w = false /\ GetF w = (f =? 1) /\
  GetUnOpK w = op /\ GetA w = a /\ GetL w = l.
Proof. start0. unfold encodeZ. raw op. start1; fin. Qed.

(* Type5:  0100FaJJ AAAAAAAA DDDDDDDD DDDDDDDD, D as an unsigned 16-bit field *)
Lemma type5_fields f op a d : flag_ok f -> 0 <= op < 2^2 -> reg_ok a -> 0 <= d < 2^16 ->
  let w := mkType5 f op a d in
  HasType1 w = false /\ TypePfx w = Type5Pfx /\ GetF w = (f =? 1) /\ GetJ w = op /\ GetA w = a /\
  GetClStackOffset w = d /\ u16 w = d.
Proof. start0. raw d. start1; try rewrite dec_u16; fin. Qed.

(* Type6:  0011Fab0 AAAAAAAA BBBBBBBB MMMMMMMM *)
Lemma type6_fields f a b i : flag_ok f -> reg_ok a -> reg_ok b -> 0 <= i < 2^8 ->
  let w := mkType6 f a b i in
  HasType1 w = false /\ TypePfx w = Type6Pfx /\ GetF w = (f =? 1) /\ GetA w = a /\ GetB w = b /\ GetM w = i.
Proof. start0. unfold encodeM. raw i. start1; fin. Qed.

(* Type7:  0010Fabc AAAAAAAA BBBBBBBB CCCCCCCC *)
Lemma type7_fields f a b c : flag_ok f -> reg_ok a -> reg_ok b -> reg_ok c ->
  let w := mkType7 f a b c in
  HasType1 w = false /\ TypePfx w = Type7Pfx /\ GetF w = (f =? 1) /\ GetA w = a /\ GetB w = b /\ GetC w = c.
Proof. start; fin. Qed.

(* Type0:  0000Fa00 AAAAAAAA 00000000 00000000 *)
Lemma type0_fields f a : flag_ok f -> reg_ok a ->
  let w := mkType0 f a in
  HasType1 w = false /\ HasType0 w = true /\ TypePfx w = Type0Pfx /\ GetF w = (f =? 1) /\ GetA w = a.
Proof. start; fin. Qed.

(* ================================================================ signed offsets, SetOffset, SetKIndex *)
Lemma s16_u16 d : - 2^15 <= d < 2^15 -> s16 (u16 d) = d.
Proof.
  intros H. unfold s16, u16. rewrite Z.mod_mod by lia.
  assert (Hm := Z.mod_pos_bound d (2^16) ltac:(lia)).
  assert (Hd := Z.div_mod d (2^16) ltac:(lia)).
  destruct (Z.ltb_spec (d mod 2^16) (2^15)); nia.
Qed.

Lemma s16_range z : - 2^15 <= s16 z < 2^15.
Proof.
  unfold s16. assert (Hm := Z.mod_pos_bound z (2^16) ltac:(lia)).
  destruct (Z.ltb_spec (z mod 2^16) (2^15)); lia.
Qed.

Lemma s16_id z : - 2^15 <= z < 2^15 -> s16 z = z.
Proof.
  intros H. unfold s16.
  assert (Hm := Z.mod_pos_bound z (2^16) ltac:(lia)).
  assert (Hd := Z.div_mod z (2^16) ltac:(lia)).
  destruct (Z.ltb_spec (z mod 2^16) (2^15)); nia.
Qed.

(* outside the int16 range the conversion changes the value: this is the silent truncation *)
Lemma s16_wraps z : ~ (- 2^15 <= z < 2^15) -> s16 z <> z.
Proof. intros H E. apply H. rewrite <- E. apply s16_range. Qed.

Lemma u16_range z : 0 <= u16 z < 2^16.
Proof. apply Z.mod_pos_bound. lia. Qed.

Lemma u16_low c x : 0 <= x < 2^16 -> u16 (Z.lor (Z.land c (Z.shiftl 65535 16)) x) = x.
Proof.
  intros Hx. unfold u16. rewrite <- Z.land_ones by lia. rewrite Z.land_lor_distr_l.
  rewrite <- Z.land_assoc. change (Z.land (Z.shiftl 65535 16) (Z.ones 16)) with 0.
  rewrite Z.land_0_r, Z.lor_0_l, Z.land_ones by lia. apply Z.mod_small; lia.
Qed.

Lemma high_kept c x p k : 0 <= x < 2^16 -> 16 <= p -> 0 <= k -> p + k <= 32 ->
  Z.land (Z.shiftr (Z.lor (Z.land c (Z.shiftl 65535 16)) x) p) (Z.ones k) = Z.land (Z.shiftr c p) (Z.ones k).
Proof.
  intros Hx Hp Hk Hpk. apply Z.bits_inj'. intros n Hn.
  rewrite !Z.land_spec, !Z.shiftr_spec, Z.lor_spec, Z.land_spec, Z.shiftl_spec by lia.
  rewrite Z.testbit_ones_nonneg by lia.
  destruct (Z.ltb_spec n k); [|now rewrite !andb_false_r].
  rewrite !andb_true_r. rewrite (testbit_small x 16) by lia. rewrite orb_false_r.
  change 65535 with (Z.ones 16). rewrite Z.testbit_ones_nonneg by lia.
  destruct (Z.ltb_spec (n + p - 16) 16); [apply andb_true_r|lia].
Qed.

Lemma SetOffset_fields c d : - 2^15 <= d < 2^15 ->
  GetOffset (SetOffset c d) = d /\
  HasType1 (SetOffset c d) = HasType1 c /\ TypePfx (SetOffset c d) = TypePfx c /\
  GetF (SetOffset c d) = GetF c /\ GetJ (SetOffset c d) = GetJ c /\ GetA (SetOffset c d) = GetA c.
Proof.
  intros Hd. unfold SetOffset, encodeDoff. assert (Hu := u16_range d). split.
  - unfold GetOffset. rewrite u16_low by lia. now apply s16_u16.
  - remember (u16 d) as x. clear Heqx. nf. now rewrite !(high_kept c x) by lia.
Qed.

Lemma SetKIndex_fields c i : 0 <= i < 2^16 ->
  GetKIndex (SetKIndex c i) = i /\
  HasType1 (SetKIndex c i) = HasType1 c /\ TypePfx (SetKIndex c i) = TypePfx c /\
  GetF (SetKIndex c i) = GetF c /\ GetY (SetKIndex c i) = GetY c /\ GetA (SetKIndex c i) = GetA c.
Proof.
  intros Hi. unfold SetKIndex, encodeN. split.
  - unfold GetKIndex. now rewrite u16_low by lia.
  - nf. now rewrite !(high_kept c i) by lia.
Qed.

(* Type5 with a signed jump offset *)
Lemma type5_offset f op a d : flag_ok f -> 0 <= op < 2^2 -> reg_ok a -> - 2^15 <= d < 2^15 ->
  let w := mkType5 f op a (encodeDoff d) in
  HasType1 w = false /\ TypePfx w = Type5Pfx /\ GetF w = (f =? 1) /\ GetJ w = op /\ GetA w = a /\ GetOffset w = d.
Proof.
  intros Hf Hop Ha Hd w. subst w. unfold encodeDoff. assert (Hu := u16_range d).
  destruct (type5_fields f op a (u16 d) Hf Hop Ha Hu) as (H1 & H2 & H3 & H4 & H5 & H6 & H7).
  repeat split; auto. unfold GetOffset. rewrite H7. now apply s16_u16.
Qed.

(* LoadSmallInt inlines exactly the integers of the int16 range, and the inlined literal reads back *)
Lemma LoadSmallInt_exact r n : reg_ok r ->
  match LoadSmallInt r n with
  | Some w => - 2^15 <= n < 2^15 /\ GetY w = OpInt16 /\ GetA w = r /\ Lit16ToInt16 (GetN w) = n
  | None => ~ (- 2^15 <= n < 2^15)
  end.
Proof.
  intros Hr. unfold LoadSmallInt. destruct (Z.eqb_spec (s16 n) n) as [E|E].
  - assert (Hn : - 2^15 <= n < 2^15) by (rewrite <- E; apply s16_range).
    rewrite E. unfold LoadInt16, Lit16FromInt16, Lit16ToInt16. assert (Hu := u16_range n).
    destruct (type3_fields Off OpInt16 r (u16 n)) as (_ & _ & _ & H4 & H5 & H6 & _);
      unfold flag_ok, Off, OpInt16; try lia; auto.
    repeat split; try lia; auto. unfold Off, OpInt16 in H6. rewrite H6. now apply s16_u16.
  - intros H. apply E. now apply s16_id.
Qed.

(* ================================================================ instruction kind *)
Lemma type_of_mk :
  (forall a b c op, reg_ok a -> reg_ok b -> reg_ok c -> 0 <= op < 2^4 -> type_of (mkType1 op a b c) = T1) /\
  (forall f a b c, flag_ok f -> reg_ok a -> reg_ok b -> reg_ok c -> type_of (mkType2 f a b c) = T2) /\
  (forall f op a n, flag_ok f -> 0 <= op < 2^2 -> reg_ok a -> 0 <= n < 2^16 -> type_of (mkType3 f op a n) = T3) /\
  (forall f op a b, flag_ok f -> 0 <= op < 2^8 -> reg_ok a -> reg_ok b -> type_of (mkType4a f op a b) = T4a) /\
  (forall f op a l, flag_ok f -> 0 <= op < 2^8 -> reg_ok a -> 0 <= l < 2^8 -> type_of (mkType4b f op a l) = T4b) /\
  (forall f op a d, flag_ok f -> 0 <= op < 2^2 -> reg_ok a -> 0 <= d < 2^16 -> type_of (mkType5 f op a d) = T5) /\
  (forall f a b i, flag_ok f -> reg_ok a -> reg_ok b -> 0 <= i < 2^8 -> type_of (mkType6 f a b i) = T6) /\
  (forall f a b c, flag_ok f -> reg_ok a -> reg_ok b -> reg_ok c -> type_of (mkType7 f a b c) = T7) /\
  (forall f a, flag_ok f -> reg_ok a -> type_of (mkType0 f a) = T0).
Proof.
  repeat split; intros; unfold type_of.
  - destruct (type1_fields a b c op) as (-> & _); auto.
  - destruct (type2_fields f a b c) as (-> & -> & _); auto.
  - destruct (type3_fields f op a n) as (-> & -> & _); auto.
  - destruct (type4a_fields f op a b) as (-> & -> & -> & _); auto.
  - destruct (type4b_fields f op a l) as (-> & -> & -> & _); auto.
  - destruct (type5_fields f op a d) as (-> & -> & _); auto.
  - destruct (type6_fields f a b i) as (-> & -> & _); auto.
  - destruct (type7_fields f a b c) as (-> & -> & _); auto.
  - destruct (type0_fields f a) as (-> & _ & -> & _); auto.
Qed.

(* ================================================================ the umbrella statement *)
Definition encode_decode_roundtrip_statement : Prop :=
  (forall a b c op, reg_ok a -> reg_ok b -> reg_ok c -> 0 <= op < 2^4 ->
     let w := mkType1 op a b c in
     HasType1 w = true /\ GetX w = op /\ GetA w = a /\ GetB w = b /\ GetC w = c) /\
  (forall f a b c, flag_ok f -> reg_ok a -> reg_ok b -> reg_ok c ->
     let w := mkType2 f a b c in
     HasType1 w = false /\ TypePfx w = Type2Pfx /\ GetF w = (f =? 1) /\ GetA w = a /\ GetB w = b /\ GetC w = c) /\
  (forall f op a n, flag_ok f -> 0 <= op < 2^2 -> reg_ok a -> 0 <= n < 2^16 ->
     let w := mkType3 f op a n in
     HasType1 w = false /\ TypePfx w = Type3Pfx /\ GetF w = (f =? 1) /\ GetY w = op /\ GetA w = a /\
     GetN w = n /\ GetKIndex w = n) /\
  (forall f op a b, flag_ok f -> 0 <= op < 2^8 -> reg_ok a -> reg_ok b ->
     let w := mkType4a f op a b in
     HasType1 w = false /\ TypePfx w = Type4Pfx /\ HasType4a w = true /\ GetF w = (f =? 1) /\
     GetUnOp w = op /\ GetA w = a /\ GetB w = b) /\
  (forall f op a l, flag_ok f -> 0 <= op < 2^8 -> reg_ok a -> 0 <= l < 2^8 ->
     let w := mkType4b f op a l in
     HasType1 w = false /\ TypePfx w = Type4Pfx /\ HasType4a w = false /\ GetF w = (f =? 1) /\
     GetUnOpK w = op /\ GetA w = a /\ GetL w = l) /\
  (forall f op a d, flag_ok f -> 0 <= op < 2^2 -> reg_ok a -> 0 <= d < 2^16 ->
     let w := mkType5 f op a d in
     HasType1 w = false /\ TypePfx w = Type5Pfx /\ GetF w = (f =? 1) /\ GetJ w = op /\ GetA w = a /\
     GetClStackOffset w = d /\ u16 w = d) /\
  (forall f op a d, flag_ok f -> 0 <= op < 2^2 -> reg_ok a -> - 2^15 <= d < 2^15 ->
     let w := mkType5 f op a (encodeDoff d) in
     HasType1 w = false /\ TypePfx w = Type5Pfx /\ GetF w = (f =? 1) /\ GetJ w = op /\ GetA w = a /\ GetOffset w = d) /\
  (forall f a b i, flag_ok f -> reg_ok a -> reg_ok b -> 0 <= i < 2^8 ->
     let w := mkType6 f a b i in
     HasType1 w = false /\ TypePfx w = Type6Pfx /\ GetF w = (f =? 1) /\ GetA w = a /\ GetB w = b /\ GetM w = i) /\
  (forall f a b c, flag_ok f -> reg_ok a -> reg_ok b -> reg_ok c ->
     let w := mkType7 f a b c in
     HasType1 w = false /\ TypePfx w = Type7Pfx /\ GetF w = (f =? 1) /\ GetA w = a /\ GetB w = b /\ GetC w = c) /\
  (forall f a, flag_ok f -> reg_ok a ->
     let w := mkType0 f a in
     HasType1 w = false /\ HasType0 w = true /\ TypePfx w = Type0Pfx /\ GetF w = (f =? 1) /\ GetA w = a).

Lemma encode_decode_roundtrip_all : encode_decode_roundtrip_statement.
Proof.
  repeat apply conj.
  - exact type1_fields.
  - exact type2_fields.
  - exact type3_fields.
  - exact type4a_fields.
  - exact type4b_fields.
  - exact type5_fields.
  - exact type5_offset.
  - exact type6_fields.
  - exact type7_fields.
  - exact type0_fields.
Qed.

(* the hypotheses are satisfiable *)
Example roundtrip_inhabited :
  reg_ok (CellReg 254) /\ reg_ok (ValueReg 0) /\ flag_ok On /\
  GetA (mkType1 15 (CellReg 254) (ValueReg 0) (CellReg 255)) = CellReg 254 /\
  GetOffset (mkType5 On OpJumpIf (ValueReg 3) (encodeDoff (-32768))) = -32768.
Proof. unfold reg_ok, flag_ok, On. repeat split; try (cbn; lia); vm_compute; reflexivity. Qed.
