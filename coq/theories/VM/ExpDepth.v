(* VM/ExpDepth.v — recursion skeleton of the AST compiler's expression dispatch after the
   round-3 repair (/repo/astcomp/compexp.go: expCompiler.CompileExp increments compiler.expDepth,
   raises Error "expression too complex" beyond maxExpDepth, decrements on the way out; a child
   compiler for a nested function body starts from its parent's depth, astcomp.go NewChild).
   Definitions only; proof in VM/ExpDepthProofs.v. *)
From Coq Require Import List Arith Bool.
Import ListNotations.

(* expression trees: leaves, nodes with any number of sub-expressions (operands, call target and
   arguments, table fields ...), and function literals whose body contains expressions *)
Inductive etree := ENode (subs : list etree) | EFunction (body : list etree).

Definition maxExpDepth : nat := 10000.

Inductive cres := COk (frames : nat) | CErr (frames : nat).
Definition cframes (r : cres) : nat := match r with COk m => m | CErr m => m end.

(* d = compiler.expDepth on entry; result: deepest CompileExp frame index reached *)
Fixpoint compileExp (e : etree) (d : nat) : cres :=
  let d1 := S d in
  if maxExpDepth <? d1 then CErr d1
  else
    let subs := match e with ENode l => l | EFunction l => l end in
    (fix each (l : list etree) (m : nat) : cres :=
       match l with
       | [] => COk m
       | x :: r => match compileExp x d1 with
                   | COk m' => each r (Nat.max m m')
                   | CErr m' => CErr (Nat.max m m')
                   end
       end) subs d1.
