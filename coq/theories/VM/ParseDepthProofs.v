(* VM/ParseDepthProofs.v — the repaired parser never has more than maxNestingDepth + 1 nested
   ShortExp/Stat frames, whatever the input and however long; deeper nesting is a syntax error. *)
From Coq Require Import List Arith Bool Lia.
From GV Require Import VM.ParseDepth.
Import ListNotations.

Definition B : nat := S maxNestingDepth.

Lemma bind_le r k : frames_of r <= B -> (forall rest m, m <= B -> frames_of (k rest m) <= B) ->
  frames_of (bind r k) <= B.
Proof.
  intros Hr Hk. destruct r as [rest m| m |]; cbn [bind frames_of] in *; auto.
  specialize (Hk rest m Hr). destruct (k rest m); cbn [frames_of] in *; lia.
Qed.

Lemma expect_le t ts d : d <= B -> frames_of (expect t ts d) <= B.
Proof. intros. unfold expect. destruct ts as [|x r]; cbn; auto. destruct x, t; cbn; auto. Qed.

Definition all_le (fuel : nat) : Prop :=
  forall ts d, d <= maxNestingDepth ->
    frames_of (shortExp fuel ts d) <= B /\ frames_of (exp fuel ts d) <= B /\
    frames_of (binops fuel ts d) <= B /\ frames_of (fields fuel ts d) <= B /\
    frames_of (stat fuel ts d) <= B /\ frames_of (block fuel ts d) <= B.

Lemma frames_bounded_fuel : forall fuel, all_le fuel.
Proof.
  induction fuel as [|fuel IH]; intros ts d Hd.
  - cbn. unfold B. repeat split; lia.
  - assert (HdB : d <= B) by (unfold B; lia).
    assert (Hse : forall ts d, d <= maxNestingDepth -> frames_of (shortExp fuel ts d) <= B) by (intros; now apply IH).
    assert (Hex : forall ts d, d <= maxNestingDepth -> frames_of (exp fuel ts d) <= B) by (intros; now apply IH).
    assert (Hbo : forall ts d, d <= maxNestingDepth -> frames_of (binops fuel ts d) <= B) by (intros; now apply IH).
    assert (Hfi : forall ts d, d <= maxNestingDepth -> frames_of (fields fuel ts d) <= B) by (intros; now apply IH).
    assert (Hst : forall ts d, d <= maxNestingDepth -> frames_of (stat fuel ts d) <= B) by (intros; now apply IH).
    assert (Hbl : forall ts d, d <= maxNestingDepth -> frames_of (block fuel ts d) <= B) by (intros; now apply IH).
    split; [|split; [|split; [|split; [|split]]]].
    + (* shortExp *)
      cbn [shortExp]. destruct (Nat.ltb_spec maxNestingDepth (S d)) as [Hlt|Hge].
      * cbn [frames_of]. unfold B. lia.
      * assert (Hd1 : S d <= maxNestingDepth) by lia. assert (Hd1B : S d <= B) by (unfold B; lia).
        apply bind_le.
        -- destruct ts as [|t r]; [cbn [frames_of]; lia|].
           destruct t; cbn [frames_of]; auto;
             apply bind_le; auto; intros; now apply expect_le.
        -- intros rest m Hm. destruct rest as [|t r]; [cbn [frames_of]; lia|].
           destruct t; cbn [frames_of]; auto.
    + (* exp *)
      cbn [exp]. apply bind_le; auto.
    + (* binops *)
      cbn [binops]. destruct ts as [|t r]; [cbn [frames_of]; lia|].
      destruct t; cbn [frames_of]; auto. apply bind_le; auto.
    + (* fields *)
      cbn [fields].
      assert (Hk : forall rest m, m <= B -> frames_of match rest with
                     | TComma :: r' => fields fuel r' d | TRBrace :: r' => Ok r' d | _ => Err d end <= B).
      { intros rest m _. destruct rest as [|t r]; [cbn [frames_of]; lia|]. destruct t; cbn [frames_of]; auto. }
      destruct ts as [|t r]; [apply bind_le; auto|].
      destruct t; try (apply bind_le; auto). cbn [frames_of]. lia.
    + (* stat *)
      cbn [stat]. destruct (Nat.ltb_spec maxNestingDepth (S d)) as [Hlt|Hge].
      * cbn [frames_of]. unfold B. lia.
      * assert (Hd1 : S d <= maxNestingDepth) by lia. assert (Hd1B : S d <= B) by (unfold B; lia).
        destruct ts as [|t r]; auto.
        destruct t; auto. apply bind_le; auto. intros; now apply expect_le.
    + (* block *)
      cbn [block]. destruct ts as [|t r]; [cbn [frames_of]; lia|].
      destruct t; try (apply bind_le; auto); auto; cbn [frames_of]; lia.
Qed.

(* THE statement: for every token sequence and every amount of fuel (= for inputs of any length and
   nesting), parsing a chunk never has more than maxNestingDepth + 1 = 201 nested ShortExp/Stat
   frames on the Go stack. *)
Theorem recursion_depth_bounded : forall fuel ts, frames_of (parseChunk fuel ts) <= S maxNestingDepth.
Proof.
  intros fuel ts. unfold parseChunk. apply bind_le.
  - apply frames_bounded_fuel. unfold maxNestingDepth. lia.
  - intros rest m Hm. destruct rest; cbn [frames_of]; auto.
Qed.

(* and the limit is what stops a deep input: it is reported as a syntax error, shallower input parses *)
Definition parens (n : nat) : list tok := [TReturn] ++ repeat TLPar n ++ [TAtom] ++ repeat TRPar n.
Definition negs (n : nat) : list tok := [TReturn] ++ repeat TUn n ++ [TAtom].
Definition blocks (n : nat) : list tok := repeat TDo n ++ repeat TEnd n.

Example deep_input_is_syntax_error :
  parseChunk 2000 (parens 250) = Err 201 /\ parseChunk 2000 (negs 250) = Err 201 /\
  parseChunk 2000 (blocks 250) = Err 201 /\
  parseChunk 2000 (parens 150) = Ok [] 151 /\ parseChunk 2000 (blocks 150) = Ok [] 150.
Proof. repeat split; vm_compute; reflexivity. Qed.
