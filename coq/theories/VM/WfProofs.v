(* VM/WfProofs.v — check_code is sound: in a function that passes it, every address the VM can
   reach lies inside the code, and the opcode there indexes registers, cells and constants in
   range.  The int16 program counter is part of the statement ([succs] uses pc_next/pc_jump). *)
From Coq Require Import ZArith Bool Lia List.
From GV Require Import VM.Opcode VM.OpcodeProofs VM.Limits VM.LimitsProofs VM.Wf.
Import ListNotations.
Open Scope Z_scope.

Lemma check_marked_nth f M : forall ws ms pc0 k w, check_marked f M pc0 ws ms = true ->
  nth_error ws k = Some w -> nth k ms false = true -> check_instr_m f M (pc0 + Z.of_nat k) w = true.
Proof.
  induction ws as [|x r IH]; intros ms pc0 k w Hck Hn Hm; [destruct k; discriminate|].
  destruct ms as [|m mr]; [discriminate|].
  cbn [check_marked] in Hck. apply andb_true_iff in Hck. destruct Hck as [Hx Hr].
  destruct k as [|k]; cbn [nth_error nth] in Hn, Hm.
  - injection Hn as <-. subst m. now rewrite Z.add_0_r.
  - replace (pc0 + Z.of_nat (S k)) with (pc0 + 1 + Z.of_nat k) by lia. now apply (IH mr).
Qed.

Lemma fetch_in_range f pc w : fetch f pc = Some w -> 0 <= pc < len f.
Proof.
  unfold fetch, len. destruct (Z.ltb_spec pc 0); [discriminate|]. intros Hnth.
  assert (Hl : (Z.to_nat pc < length (fn_code f))%nat) by (apply nth_error_Some; congruence). lia.
Qed.

Lemma fetch_some f pc : 0 <= pc < len f -> exists w, fetch f pc = Some w.
Proof.
  unfold fetch, len. intros H. destruct (Z.ltb_spec pc 0); [lia|].
  destruct (nth_error (fn_code f) (Z.to_nat pc)) eqn:E; [eauto|].
  apply nth_error_None in E. lia.
Qed.

Lemma s16_GetOffset w : - 2^15 <= GetOffset w < 2^15.
Proof. unfold GetOffset. apply s16_range. Qed.

Theorem check_code_sound f S : check_code f S = true ->
  forall pc, reach f pc -> marked S pc = true /\ 0 <= pc < len f /\ safe_at f pc.
Proof.
  intros Hc. unfold check_code in Hc. apply andb_true_iff in Hc. destruct Hc as [Hc Hfrom].
  apply andb_true_iff in Hc. destruct Hc as [Hc Hm0].
  apply andb_true_iff in Hc. destruct Hc as [Hpos Hmax]. apply Z.ltb_lt in Hpos. apply Z.leb_le in Hmax.
  unfold maxCodeSize in Hmax.
  assert (Hinstr : forall pc w, marked S pc = true -> fetch f pc = Some w -> check_instr_m f S pc w = true).
  { intros pc w Hm Hf. assert (Hr := fetch_in_range _ _ _ Hf). unfold fetch in Hf.
    destruct (Z.ltb_spec pc 0); [lia|]. unfold marked in Hm. apply andb_true_iff in Hm. destruct Hm as [_ Hm].
    assert (Hk := check_marked_nth f S _ _ 0 _ _ Hfrom Hf Hm). now rewrite Z.add_0_l, Z2Nat.id in Hk by lia. }
  assert (Hmark : forall pc, reach f pc -> marked S pc = true /\ 0 <= pc < len f).
  { intros pc Hr. induction Hr as [|pc w pc' Hr [IHm IH] Hf Hin]; [split; [exact Hm0|lia]|].
    assert (Hci := Hinstr _ _ IHm Hf). unfold check_instr_m in Hci.
    apply andb_true_iff in Hci. destruct Hci as [Hci Hmj]. apply andb_true_iff in Hci. destruct Hci as [Hci Hmn].
    unfold check_instr in Hci.
    repeat (apply andb_true_iff in Hci; destruct Hci as [Hci ?]).
    unfold succs in Hin. apply in_app_or in Hin. destruct Hin as [Hin|Hin].
    - destruct (a_next (accesses w)); [|destruct Hin]. destruct Hin as [<-|[]].
      cbn [negb orb] in *. unfold addr_in in *.
      match goal with H : (0 <=? pc + 1) && _ = true |- _ => apply andb_true_iff in H; destruct H as [Ha Hb] end.
      apply Z.leb_le in Ha. apply Z.ltb_lt in Hb. rewrite pc_next_exact by lia. split; [exact Hmn|lia].
    - destruct (a_jump (accesses w)); [|destruct Hin]. destruct Hin as [<-|[]].
      cbn [negb orb] in *. unfold addr_in in *.
      match goal with H : (0 <=? pc + GetOffset w) && _ = true |- _ => apply andb_true_iff in H; destruct H as [Ha Hb] end.
      apply Z.leb_le in Ha. apply Z.ltb_lt in Hb. assert (Ho := s16_GetOffset w).
      rewrite pc_jump_exact by lia. split; [exact Hmj|lia]. }
  intros pc Hr. destruct (Hmark pc Hr) as [Hm Hrange]. split; [exact Hm|]. split; [exact Hrange|].
  destruct (fetch_some f pc Hrange) as [w Hf]. exists w. split; [exact Hf|].
  assert (Hci := Hinstr _ _ Hm Hf). unfold check_instr_m in Hci.
  apply andb_true_iff in Hci. destruct Hci as [Hci _]. apply andb_true_iff in Hci. destruct Hci as [Hci _].
  unfold check_instr in Hci.
  repeat (apply andb_true_iff in Hci; destruct Hci as [Hci ?]).
  cbv zeta. repeat split; auto.
  - intros r Hin. match goal with H : forallb (reg_in f) _ = true |- _ => rewrite forallb_forall in H; now apply H end.
  - intros r Hin. match goal with H : forallb is_cell _ = true |- _ => rewrite forallb_forall in H; now apply H end.
Qed.

(* the check is not vacuous: `r0 <- nil ; tailcall r0 ; clr r0(dead)` passes with the certificate
   [true;true;false]; it fails when declared with no registers, when the certificate omits a
   successor, when the code can run off its end, or when a constant index is out of range *)
Example check_code_examples :
  let code := [LoadNil (ValueReg 0); mkType5 On OpCall (ValueReg 0) 0; mkType4b Off OpClear (ValueReg 0) 0] in
  check_code (mkFn code 1 0 []) [true; true; false] = true /\
  check_code (mkFn code 0 0 []) [true; true; false] = false /\
  check_code (mkFn code 1 0 []) [true; false; false] = false /\
  check_code (mkFn [LoadNil (ValueReg 0)] 1 0 []) [true] = false /\
  check_code (mkFn [LoadConst (ValueReg 0) 3; mkType5 On OpCall (ValueReg 0) 0] 1 0 [false]) [true; true] = false.
Proof. repeat split; vm_compute; reflexivity. Qed.
