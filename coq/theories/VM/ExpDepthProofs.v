(* VM/ExpDepthProofs.v — bound on the recursion depth of the AST compiler's expression dispatch. *)
From Coq Require Import List Arith Bool Lia.
From GV Require Import VM.ExpDepth.
Import ListNotations.

(* induction principle for the nested type *)
Fixpoint etree_ind' (P : etree -> Prop)
  (Hn : forall l, Forall P l -> P (ENode l)) (Hf : forall l, Forall P l -> P (EFunction l)) (e : etree) : P e :=
  let fix all (l : list etree) : Forall P l :=
    match l with [] => Forall_nil P | x :: r => Forall_cons x (etree_ind' P Hn Hf x) (all r) end in
  match e with ENode l => Hn l (all l) | EFunction l => Hf l (all l) end.

Definition bounded (x : etree) : Prop := forall d, d <= maxExpDepth -> cframes (compileExp x d) <= S maxExpDepth.

Lemma each_le d1 : d1 <= maxExpDepth -> forall l, Forall bounded l -> forall m, m <= S maxExpDepth ->
  cframes ((fix each (l : list etree) (m : nat) : cres :=
       match l with
       | [] => COk m
       | x :: r => match compileExp x d1 with
                   | COk m' => each r (Nat.max m m')
                   | CErr m' => CErr (Nat.max m m')
                   end
       end) l m) <= S maxExpDepth.
Proof.
  intros Hd1 l Hl. induction Hl as [|x r Hx Hr IH]; intros m Hm; [cbn [cframes]; lia|].
  specialize (Hx d1 Hd1). destruct (compileExp x d1) as [m'|m']; cbn [cframes] in *.
  - apply IH. lia.
  - lia.
Qed.

(* For every expression tree, of any shape and depth (chains of a million links included), the
   compiler has at most maxExpDepth + 1 nested CompileExp frames. *)
Theorem exp_depth_bounded : forall e d, d <= maxExpDepth -> cframes (compileExp e d) <= S maxExpDepth.
Proof.
  intros e. change (bounded e). induction e as [l IH|l IH] using etree_ind'; intros d Hd; cbn [compileExp];
    (destruct (Nat.ltb_spec maxExpDepth (S d)) as [Hlt|Hge]; [cbn [cframes]; lia|]);
    apply each_le; auto; lia.
Qed.
