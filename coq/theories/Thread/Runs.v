(* Thread/Runs.v — round 8: whole-run consequences of the full invariant [Inv2] (Thread/Full.v) for the
   configurations that mirror runtime/thread.go as it stands ([handlers_locked = false]: end runs the
   pending __close handlers before its locked section).  The invariant is closed under arbitrary
   schedules; the one-step status table becomes a statement about runs (only Suspended -> OK by a
   resumer whose target is still blocked in its receive, OK -> Suspended and OK -> Dead by the thread
   itself; Dead is final); a hand-off send never blocks (the receiver is at its receive, the channel
   is open) — stability of the guard from the status test up to the rendezvous. *)
From Coq Require Import List Bool Arith Lia.
From GV Require Import Thread.Proto Thread.Inv Thread.Preserve Thread.Full Thread.Progress Thread.NoDeadlock.
Import ListNotations.

(* ---- reachability is closed under steps and runs *)
Lemma reachable_step : forall cf s a s', reachable cf s -> step cf s a = Some s' -> reachable cf s'.
Proof.
  intros cf s a s' [tr R] H. exists (tr ++ [a]). rewrite run_app, R. simpl. now rewrite H.
Qed.

Lemma reachable_run : forall cf tr s s', reachable cf s -> run cf s tr = Some s' -> reachable cf s'.
Proof.
  induction tr as [|a tr IH]; simpl; intros s s' R H.
  - inversion H; subst; auto.
  - destruct (step cf s a) as [s1|] eqn:E; [|discriminate]. eapply IH; [|exact H]. eapply reachable_step; eauto.
Qed.

Lemma reachable_init : forall cf, reachable cf init.
Proof. intros cf. exists []. reflexivity. Qed.

(* ---- the invariant is closed under every schedule, from ANY state satisfying it (not only init) *)
Definition FullInv (s : state) : Prop := Baton s /\ Inv2 s.

Lemma fullinv_init : FullInv init.
Proof. split. apply baton_init. apply inv2_init. Qed.

Lemma fullinv_step : forall cf s a s', handlers_locked cf = false ->
  FullInv s -> step cf s a = Some s' -> FullInv s'.
Proof.
  intros cf s a s' HL [BA I2] H. split. eapply baton_step; eauto. eapply inv2_step; eauto.
Qed.

Theorem fullinv_run : forall cf tr s s', handlers_locked cf = false ->
  FullInv s -> run cf s tr = Some s' -> FullInv s'.
Proof.
  induction tr as [|a tr IH]; simpl; intros s s' HL I H.
  - inversion H; subst; auto.
  - destruct (step cf s a) as [s1|] eqn:E; [|discriminate].
    apply (IH s1 s' HL); [|exact H]. exact (fullinv_step cf s a s1 HL I E).
Qed.

Theorem fullinv_reachable : forall cf s, handlers_locked cf = false -> reachable cf s -> FullInv s.
Proof. intros cf s HL [tr R]. eapply fullinv_run; eauto. apply fullinv_init. Qed.

(* ---- the number of threads never decreases *)
Lemma n_mono : forall cf s a s', step cf s a = Some s' -> n s <= n s'.
Proof. intros cf s [g l] s' H. step_cases H Pg; brk H; simp; lia. Qed.

(* ---- LEGAL STATUS TRANSITIONS over whole runs: in a reachable state, an action that changes the
   status of an existing thread t is one of
   (a) Suspended -> OK : by a resumer/closer g <> t at its status write R4, t blocked in its receive;
   (b) OK -> Suspended : by t itself at Y4 (Yield);
   (c) OK -> Dead      : by t itself at E4 (end).
   In particular no transition leaves Dead, none enters Suspended except from OK by the thread itself. *)
Theorem status_transitions_legal : forall cf s a s' t, handlers_locked cf = false ->
  reachable cf s -> step cf s a = Some s' -> t < n s -> status (th s' t) <> status (th s t) ->
  (status (th s t) = Suspended /\ status (th s' t) = OK /\ t <> who a /\ waiting (pc s t) = true /\
     exists k v, pc s (who a) = R4 k t v) \/
  (status (th s t) = OK /\ status (th s' t) = Suspended /\ t = who a /\ exists c v, pc s t = Y4 c v) \/
  (status (th s t) = OK /\ status (th s' t) = Dead /\ t = who a /\ exists c m, pc s t = E4 c m).
Proof.
  intros cf s a s' t HL R H L NE.
  destruct (inv2_reachable _ _ HL R) as [_ I2].
  destruct (status_table cf s a s' t H) as [E|[(k & v & Pg & E)|[(c & v & Pg & -> & E)|[(c & m & Pg & -> & E)|(_ & -> & _)]]]].
  - congruence.
  - left. pose proof (jP _ I2 (who a)) as P. rewrite Pg in P. cbn [ok2] in P. unfold stt, tgt in P.
    destruct P as (_ & _ & ST & W & NEq). repeat split; auto.
    + destruct W as [W|W]; rewrite W; reflexivity.
    + eauto.
  - right; left. pose proof (jP _ I2 (who a)) as P. rewrite Pg in P. cbn [ok2] in P. unfold stt in P.
    destruct P as (ST & _). repeat split; eauto.
  - right; right. pose proof (jP _ I2 (who a)) as P. rewrite Pg in P. cbn [ok2] in P. unfold stt in P.
    destruct P as (ST & _). repeat split; eauto.
  - lia.
Qed.

(* Dead is final along every run *)
Theorem dead_forever : forall cf tr s s' t, handlers_locked cf = false -> reachable cf s ->
  t < n s -> status (th s t) = Dead -> run cf s tr = Some s' -> status (th s' t) = Dead /\ t < n s'.
Proof.
  induction tr as [|a tr IH]; simpl; intros s s' t HL R L D H.
  - inversion H; subst; auto.
  - destruct (step cf s a) as [s1|] eqn:E; [|discriminate].
    assert (D1 : status (th s1 t) = Dead).
    { destruct (st_eqb (status (th s1 t)) Dead) eqn:Q.
      - destruct (status (th s1 t)); simpl in Q; congruence.
      - assert (NE : status (th s1 t) <> status (th s t)) by (rewrite D; intro Z; rewrite Z in Q; discriminate).
        destruct (status_transitions_legal cf s a s1 t HL R E L NE) as [(A & _)|[(A & _)|(A & _)]]; congruence. }
    pose proof (n_mono _ _ _ _ E) as NM.
    apply (IH s1 s' t HL); [exact (reachable_step cf s a s1 R E)|lia|exact D1|exact H].
Qed.

(* a thread that is not Suspended at some point of a run and is made OK later by a resumer has been
   Suspended in between by its own Yield — stated as: the ONLY way to become OK is from Suspended *)
Corollary becomes_ok_only_from_suspended : forall cf s a s' t, handlers_locked cf = false ->
  reachable cf s -> step cf s a = Some s' -> t < n s ->
  status (th s t) <> OK -> status (th s' t) = OK -> status (th s t) = Suspended /\ t <> who a.
Proof.
  intros cf s a s' t HL R H L N O.
  assert (NE : status (th s' t) <> status (th s t)) by congruence.
  destruct (status_transitions_legal cf s a s' t HL R H L NE) as [(A & _ & B & _)|[(A & _)|(A & _)]]; try congruence; auto.
Qed.

(* ---- A HAND-OFF SEND NEVER BLOCKS and never panics: in every reachable state, a goroutine at a send
   (Resume/Close at R7, Yield at Y7, end at E7) finds its receiver blocked in the matching receive on an
   open channel, so the rendezvous is enabled; for Resume/Close the target is the thread whose status
   was tested at R2 (stability of the guard up to the handover). *)
Theorem sends_never_block : forall cf s g, handlers_locked cf = false -> reachable cf s ->
  sends_to (pc s g) <> None ->
  exists s', step cf s (mkAct g LRdv) = Some s' /\ pc s' g <> Panicked.
Proof.
  intros cf s g HL R SN.
  destruct (inv2_reachable _ _ HL R) as [_ I2].
  assert (L : (g <? n s) = true) by (apply lt_of_pc; auto; intro E; rewrite E in SN; apply SN; reflexivity).
  pose proof (jP _ I2 g) as P.
  destruct (pc s g) eqn:Pg; cbn [sends_to] in SN; try (exfalso; apply SN; reflexivity); cbn [ok2] in P.
  - (* R7 *) unfold tgt, stt, cal, clo in P. destruct P as (_ & _ & _ & _ & W & NEq).
    assert (CL : closed (th s t) = false).
    { pose proof (jP _ I2 t) as Pt. destruct W as [W|W]; rewrite W in Pt; cbn [ok2] in Pt; unfold clo in Pt; tauto. }
    unfold step; cbn [who lab]. rewrite L. cbn [negb]. rewrite Pg, CL.
    destruct W as [W|W]; rewrite W; eexists; (split; [reflexivity|]);
      cbn [pc setpc]; unfold upd; rewrite Nat.eqb_refl;
      (destruct (Nat.eqb_spec g t); [congruence|discriminate]).
  - (* Y7 *) unfold waitfor, stt, cal, clo in P. destruct P as (_ & _ & _ & (W & _ & NEq) & _).
    assert (CL : closed (th s c) = false).
    { pose proof (jP _ I2 c) as Pt. rewrite W in Pt; cbn [ok2] in Pt; unfold clo in Pt; tauto. }
    unfold step; cbn [who lab]. rewrite L. cbn [negb]. rewrite Pg, CL, W.
    eexists; split; [reflexivity|]. cbn [pc setpc]; unfold upd. rewrite Nat.eqb_refl.
    destruct (Nat.eqb_spec g c); [congruence|discriminate].
  - (* E7 *) unfold waitfor, stt, cal, clo in P. destruct P as (_ & _ & _ & (W & _ & NEq) & _).
    assert (CL : closed (th s c) = false).
    { pose proof (jP _ I2 c) as Pt. rewrite W in Pt; cbn [ok2] in Pt; unfold clo in Pt; tauto. }
    unfold step; cbn [who lab]. rewrite L. cbn [negb]. rewrite Pg, CL, W.
    eexists; split; [reflexivity|]. cbn [pc setpc]; unfold upd. rewrite Nat.eqb_refl.
    destruct (Nat.eqb_spec g c); [congruence|]. destruct (rel_after_send cf); discriminate.
Qed.

(* the target of a Resume/Close stays Suspended, blocked in its receive and untouched by anybody else
   from the status test to the status write (R3, R4), and stays OK with caller = the resumer, still
   blocked in its receive on an open channel, from the status write to the send (R5, R6, R7) *)
Theorem resume_target_stable : forall cf s g, handlers_locked cf = false -> reachable cf s ->
  (forall k t v, pc s g = R3 k t v \/ pc s g = R4 k t v ->
     status (th s t) = Suspended /\ waiting (pc s t) = true /\ t <> g /\ closed (th s t) = false) /\
  (forall k t v, pc s g = R5 k t v \/ pc s g = R6 k t v \/ pc s g = R7 k t v ->
     status (th s t) = OK /\ caller (th s t) = Some g /\ waiting (pc s t) = true /\ t <> g /\
     closed (th s t) = false).
Proof.
  intros cf s g HL R. destruct (inv2_reachable _ _ HL R) as [_ I2].
  pose proof (jP _ I2 g) as P.
  assert (CL : forall t, pc s t = S0 \/ pc s t = Y8 -> closed (th s t) = false /\ waiting (pc s t) = true).
  { intros t W. pose proof (jP _ I2 t) as Pt.
    destruct W as [W|W]; rewrite W in Pt |- *; cbn [ok2] in Pt; unfold clo in Pt; split; tauto || reflexivity. }
  split; intros k t v E.
  - destruct E as [E|E]; rewrite E in P; cbn [ok2] in P; unfold stt, tgt in P;
      destruct P as (_ & _ & ST & W & NEq); destruct (CL t W); auto.
  - destruct E as [E|[E|E]]; rewrite E in P; cbn [ok2] in P; unfold stt, cal, tgt in P;
      destruct P as (_ & _ & ST & CA & W & NEq); destruct (CL t W); auto.
Qed.

(* non-vacuity: a reachable state of [current] with a goroutine at R7 (main resuming coroutine 1) *)
Definition r7_trace : list action :=
  [mkAct 0 LCreate; mkAct 0 (LResume 1 5)] ++ map (fun c => mkAct 0 (LStep c)) [1;2;3;4;5;6].

Example resume_target_stable_nonvacuous :
  exists s, reachable current s /\ pc s 0 = R7 Res 1 5 /\ status (th s 1) = OK /\ caller (th s 1) = Some 0 /\
            sends_to (pc s 0) <> None.
Proof.
  destruct (run current init r7_trace) as [s|] eqn:E; [|vm_compute in E; discriminate E].
  exists s. split; [exists r7_trace; exact E|].
  vm_compute in E. inversion E; subst; clear E. repeat split; try reflexivity. discriminate.
Qed.

(* ---- no deadlock, phrased on schedules: every accepted schedule that has not finished the main thread
   can be extended by one more action (the acceptor never gets stuck before main is done) *)
Theorem run_extensible : forall cf tr s, handlers_locked cf = false -> run cf init tr = Some s ->
  main_done s = false -> exists a s', run cf init (tr ++ [a]) = Some s'.
Proof.
  intros cf tr s HL R MD.
  destruct (no_deadlock cf s HL (ex_intro _ tr R) MD) as (a & s' & H).
  exists a, s'. rewrite run_app, R. simpl. now rewrite H.
Qed.

(* ---- why [Inv2] and not the round-1 [Inv] of Thread/Inv.v: [Inv] describes the OLD order of end
   (caller still attached while the mutexes are taken); on the code as it stands it is NOT an invariant:
   the reachable state where coroutine 1 sits at E1 (handler phase over, caller detached) violates it. *)
Definition e1_trace : list action :=
  [mkAct 0 LCreate; mkAct 0 (LResume 1 0)] ++ map (fun c => mkAct 0 (LStep c)) [1;2;3;4;5;6] ++
  [mkAct 0 LRdv; mkAct 1 (LFinish (MVal 1)); mkAct 1 (LStep 20); mkAct 1 (LHDone (MVal 1))].

Theorem inv_round1_refuted_current : exists s, reachable current s /\ ~ Inv s.
Proof.
  destruct (run current init e1_trace) as [s|] eqn:E; [|vm_compute in E; discriminate E].
  exists s. split; [exists e1_trace; exact E|].
  vm_compute in E. inversion E; subst; clear E.
  intros I. pose proof (iP _ I 1) as P. cbn in P. unfold cal in P. cbn in P.
  destruct P as (_ & _ & C & _). discriminate C.
Qed.
