(* Thread/Progress.v — a state satisfying the full invariant of Thread/Full.v can move unless the
   main thread has finished. *)
From Coq Require Import List Bool Arith Lia.
From GV Require Import Thread.Proto Thread.Inv Thread.Preserve Thread.Full.
Import ListNotations.

Definition can_move (cf : cfg) (s : state) : Prop := exists a s', step cf s a = Some s'.

Lemma lt_of_pc : forall s h, Inv2 s -> pc s h <> NotCreated -> (h <? n s) = true.
Proof.
  intros s h I2 NE. apply Nat.ltb_lt. destruct (Nat.lt_ge_cases h (n s)); auto.
  destruct (jN _ I2 h H). congruence.
Qed.

Ltac run_step :=
  unfold step; cbn [who lab];
  match goal with L : (_ <? _) = true |- _ => rewrite L end; cbn [negb];
  match goal with Pg : pc _ _ = _ |- _ => rewrite Pg end; cbn [Nat.eqb negb].

(* a mutex held by somebody else than the active goroutine is held by a goroutine in the tail of
   end, whose next action (an unlock) is enabled *)
Lemma holder_moves : forall cf s g u h, Baton s -> Inv2 s -> active (pc s g) = true ->
  mux (th s u) = Some h -> h <> g -> can_move cf s.
Proof.
  intros cf s g u h [A _] I2 AG MU NE.
  pose proof (proj1 (jG _ I2 u h) MU) as HO.
  assert (L : (h <? n s) = true) by (apply lt_of_pc; auto; intro E; rewrite E in HO; discriminate).
  destruct (pc s h) eqn:Pg; cbn [holds2] in HO; try discriminate;
    try solve [exfalso; apply NE; apply A; auto; rewrite Pg; reflexivity].
  - exists (mkAct h (LStep 28)). eexists. run_step. reflexivity.
  - exists (mkAct h (LStep 29)). unfold can_move. run_step. unfold unlock. destruct (held_by s c h); eauto.
  - exists (mkAct h (LStep 30)). run_step. unfold unlock. destruct (held_by s h h); eauto.
Qed.

Ltac by_lock cf A I2 AG g u :=
  unfold lock, is_free;
  let E := fresh in
  destruct (mux (th _ u)) as [hd|] eqn:E;
  [ destruct (Nat.eq_dec hd g) as [->|NE];
    [ exfalso | eapply holder_moves; eauto ]
  | eauto ].


Lemma progress : forall cf s, handlers_locked cf = false -> Baton s -> Inv2 s ->
  main_done s = false -> can_move cf s.
Proof.
  intros cf s HL BA I2 MD.
  pose proof BA as [A [g [AG|PN]]];
    [|exfalso; pose proof (jP _ I2 g) as P; rewrite PN in P; exact P].
  pose proof (jP _ I2 g) as P.
  assert (L : (g <? n s) = true) by (apply lt_of_pc; auto; intro E; rewrite E in AG; discriminate).
  pose proof (jG _ I2) as G.
  destruct (pc s g) eqn:Pg; cbn [active waiting tail negb andb] in AG; try discriminate AG;
    cbn [ok2] in P; unfold stt, cal, clo, hcx, waitfor, tgt in P; try (exfalso; exact P); destr_conj.
  all: unfold can_move.
  all: try match goal with Hd : _ \/ _ |- _ => destruct Hd end.
  (* a lock that is not free: the holder is in the tail of end and can move *)
  all: try match type of Pg with
       | _ = R1 _ ?t _ => pose (lk := t)
       | _ = R3 _ _ _ => pose (lk := g)
       | _ = Y1 _ => pose (lk := g)
       | _ = Y3 ?c _ => pose (lk := c)
       | _ = E1 _ _ => pose (lk := g)
       | _ = E2 ?c _ => pose (lk := c)
       end.
  all: try (destruct (mux (th s lk)) as [hd|] eqn:MU; subst lk;
            [ destruct (Nat.eq_dec hd g) as [->|NE];
              [ exfalso; pose proof (proj1 (G _ g) MU) as HO; rewrite Pg in HO; cbn [holds2] in HO;
                rewrite ?Nat.eqb_refl in HO; try discriminate HO;
                repeat match type of HO with context [?a =? ?b] => destruct (Nat.eqb_spec a b); subst end;
                try discriminate HO; congruence
              | eapply holder_moves; eauto; rewrite Pg; reflexivity ]
            | ]).
  all: try solve [exfalso; unfold main_done in MD; subst; rewrite Pg in MD; discriminate MD].
  all: match type of Pg with
       | _ = Lua =>
           destruct (hctx (th s g)) as [[c0 m0]|] eqn:HX;
           [ exists (mkAct g (LHDone MTerm)) | exists (mkAct g (LFinish (MVal 0))) ];
           run_step; rewrite HX; try (destruct (is_term m0)); cbn; eauto
       | _ = R7 _ _ _ => exists (mkAct g LRdv)
       | _ = Y7 _ _ => exists (mkAct g LRdv)
       | _ = E7 _ _ => exists (mkAct g LRdv)
       | _ = R1 _ _ _ => exists (mkAct g (LStep 1))
       | _ = R2 _ _ _ => exists (mkAct g (LStep 2))
       | _ = R3 _ _ _ => exists (mkAct g (LStep 3))
       | _ = R4 _ _ _ => exists (mkAct g (LStep 4))
       | _ = R5 _ _ _ => exists (mkAct g (LStep 5))
       | _ = R6 _ _ _ => exists (mkAct g (LStep 6))
       | _ = Y1 _ => exists (mkAct g (LStep 11))
       | _ = Y2 _ => exists (mkAct g (LStep 12))
       | _ = Y3 _ _ => exists (mkAct g (LStep 13))
       | _ = Y4 _ _ => exists (mkAct g (LStep 14))
       | _ = Y5 _ _ => exists (mkAct g (LStep 15))
       | _ = Y6 _ _ => exists (mkAct g (LStep 16))
       | _ = E0 _ =>
           destruct (hctx (th s g)) as [[c0 m0]|] eqn:HX;
           [ exists (mkAct g (LHDone MTerm)) | exists (mkAct g (LStep 20)) ]
       | _ = E1 _ _ => exists (mkAct g (LStep 21))
       | _ = E2 _ _ => exists (mkAct g (LStep 22))
       | _ = E3 _ _ => exists (mkAct g (LStep 23))
       | _ = E4 _ _ => exists (mkAct g (LStep 24))
       | _ = E6 _ _ => exists (mkAct g (LStep 26))
       | _ = E6r _ _ => exists (mkAct g (LStep 27))
       | _ => idtac
       end.
  all: try (run_step; unfold lock, unlock, is_free, held_by; rewrite ?HX, ?MU;
            repeat match goal with H : status _ = _ |- _ => rewrite H end;
            repeat match goal with H : pc _ _ = _ |- _ => rewrite H end;
            cbn [st_eqb andb negb is_term];
            repeat match goal with |- context [if ?b then _ else _] => destruct b eqn:? end;
            repeat match goal with |- context [match ?x with _ => _ end] => destruct x eqn:? end; eauto).
Qed.
