(* Thread/FullP.v — preservation of the per-pc assertions of Thread/Full.v. *)
From Coq Require Import List Bool Arith Lia.
From GV Require Import Thread.Proto Thread.Inv Thread.Preserve Thread.Full.
Import ListNotations.

Lemma st_eqb_true : forall a b, st_eqb a b = true -> a = b.
Proof. destruct a, b; simpl; congruence. Qed.

(* a Suspended thread is blocked in its receive (it is not the active goroutine) *)
Lemma susp_waiting : forall s g t, Baton s -> Inv2 s -> t < n s -> stt s t = Suspended ->
  active (pc s g) = true -> stt s g = OK -> tgt s g t.
Proof.
  intros s g t [A _] I2 L ST AG SG. pose proof (jP _ I2 t) as P. pose proof (jN _ I2 t) as N.
  assert (NE : t <> g) by (intro; subst; congruence).
  unfold tgt. split; auto.
  destruct (pc s t) eqn:E; cbn [ok2] in P; unfold stt, waitfor, tgt in *; auto;
    try solve [exfalso; intuition (try congruence; try lia)];
    try solve [exfalso; apply NE; apply A; auto; rewrite E; reflexivity].
Qed.

Ltac use_hc Hc :=
  try match goal with Hh : hctx (th ?s ?x) = Some (?c, ?m) |- _ =>
        let Q := fresh in pose proof (Hc x c m Hh) as Q; unfold stt, cal, clo, hcx, waitfor in Q;
        destruct Q as (? & ? & ? & ? & ? & ?) end.

Ltac fin :=
  destr_conj;
  unfold waitfor, tgt, transit in *; unfold stt, cal, clo, hcx in *; simp;
  ucase; simp; unfold thNew in *; cbn [hctx status caller closed] in *;
  try match goal with |- context [match caller (th ?s0 ?x) with _ => _ end] =>
        destruct (caller (th s0 x)) eqn:? end;
  ucase; simp;
  repeat match goal with H : pc _ _ = _ |- _ => rewrite H in * end;
  cbv beta iota in *;
  try solve [intuition (try congruence; try lia)].

Lemma pres_P : forall cf s g l s', handlers_locked cf = false ->
  Baton s -> Inv2 s -> step cf s (mkAct g l) = Some s' ->
  forall h, ok2 s' h (pc s' h).
Proof.
  intros cf s g l s' HL BA I2 H. pre H Pg HL BA I2.
  all: intros hh; pose proof (P hh) as Ph; pose proof (N hh) as Nh; pose proof (Hc hh) as Hch; pose proof (Hc g) as Hcg;
       match type of N with forall h, Proto.n ?s0 <= h -> _ => pose proof (N (Proto.n s0) (le_n _)) as [Nn1 Nn2] end;
       try (destruct k); try (destruct (rel_after_send cf)); unfold after_recv;
       try (destruct m; try destruct (c =? 0) eqn:?);
       cbn [pc setpc setth]; unfold upd;
       repeat match goal with |- context [?a =? ?b] => destruct (Nat.eqb_spec a b); subst end.
  all: use_hc Hc.
  all: try match type of Pg with pc ?s0 ?g0 = R2 _ ?t _ =>
         match goal with Hs : st_eqb (status (th s0 t)) Suspended = true |- _ =>
           apply st_eqb_true in Hs;
           assert (TG : tgt s0 g0 t) by (apply susp_waiting; auto; [rewrite Pg; reflexivity]);
           unfold tgt in TG end end.
  (* the goroutines whose pc changed: concrete new pc *)
  all: try solve [cbn [ok2]; rewrite ?Pg in *; fin].
  (* everybody else keeps its pc *)
  all: match goal with
       | |- ok2 _ ?x (pc ?s0 ?x) =>
           destruct (pc s0 x) eqn:Eh; cbn [ok2] in *;
           try solve [exfalso; assert (x = g) by (apply A; [rewrite Eh; reflexivity | rewrite Pg; reflexivity]); congruence];
           try solve [rewrite ?Pg in *; fin]
       | _ => idtac
       end.
Qed.
