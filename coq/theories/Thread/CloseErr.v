(* Thread/CloseErr.v — the error a dead thread keeps ([closeErr], what a later Close reports) in the
   protocol model: it is written once, by the ending goroutine itself, at E6 — in [current] after the
   handler phase of end — with the error status of the very message the hand-off send then delivers,
   and it never changes afterwards. *)
From Coq Require Import List Bool Arith Lia.
From GV Require Import Thread.Proto Thread.Inv Thread.Preserve.
Import ListNotations.

Definition ce_ok (s : state) (h : nat) : Prop :=
  match pc s h with
  | E6r _ m | E7 _ m => closeErr (th s h) = is_err m
  | _ => True
  end.

Lemma ce_step : forall cf s a s', (forall h, ce_ok s h) -> step cf s a = Some s' -> forall h, ce_ok s' h.
Proof.
  intros cf s [g l] s' C H h. step_cases H Pg; brk H.
  all: pose proof (C h) as Ch; pose proof (C g) as Cg; unfold ce_ok in *; rewrite ?Pg in *; simp; ucase;
       rewrite ?Pg in *; simp;
       repeat match goal with H : pc _ _ = _ |- _ => rewrite H in * end;
       try (destruct k); try (destruct (rel_after_send cf)); try (destruct (handlers_locked cf));
       unfold after_recv; try (destruct m); try (destruct (_ =? 0)); simp; auto.
Qed.

Lemma ce_reachable : forall cf s, reachable cf s -> forall h, ce_ok s h.
Proof.
  intros cf. apply (reachable_ind' cf (fun s => forall h, ce_ok s h)).
  - intros h. unfold ce_ok, init; simpl. unfold upd. destruct (h =? 0); exact I.
  - intros s a s' _ C H. eapply ce_step; eauto.
Qed.

(* at the hand-off send of end, the recorded error is the error status of the message being delivered *)
Theorem closeErr_is_delivered : forall cf s h c m, reachable cf s -> pc s h = E7 c m ->
  closeErr (th s h) = is_err m.
Proof. intros cf s h c m R P. pose proof (ce_reachable _ _ R h) as C. unfold ce_ok in C. rewrite P in C. exact C. Qed.

(* closeErr of a thread is written only by that thread's own goroutine, at E6 *)
Theorem closeErr_written_once : forall cf s a s' h, step cf s a = Some s' -> h < n s ->
  closeErr (th s' h) <> closeErr (th s h) -> h = who a /\ exists c m, pc s h = E6 c m.
Proof.
  intros cf s [g l] s' h H L. cbn [who]. step_cases H Pg; brk H; simp; ucase; simp; try congruence; try lia.
  all: intros _; split; eauto.
Qed.

(* in [current], E6 is reached only after the handler phase: from the pc sequence E1..E4 entered by LHDone *)
Definition past_record (p : pcT) : bool :=
  match p with E6r _ _ | E7 _ _ | E8 _ | E9 _ | E10 | Done | Panicked => true | _ => false end.

(* once recorded, frozen: the thread stays in the final section and its closeErr never changes *)
Theorem closeErr_frozen : forall cf s a s' h, step cf s a = Some s' -> h < n s -> past_record (pc s h) = true ->
  past_record (pc s' h) = true /\ closeErr (th s' h) = closeErr (th s h).
Proof.
  intros cf s [g l] s' h H L PR. step_cases H Pg; brk H.
  all: rewrite ?Pg in *; simp; ucase; rewrite ?Pg in *; simp; cbn [past_record] in *; try discriminate; try lia; auto.
  all: repeat match goal with H : pc _ _ = _ |- _ => rewrite H in * end; cbn [past_record] in *; try discriminate.
  all: try (destruct (rel_after_send cf)); auto.
Qed.
