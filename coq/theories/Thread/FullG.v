(* Thread/FullG.v — preservation of the mutex table clause of Thread/Full.v. *)
From Coq Require Import List Bool Arith Lia.
From GV Require Import Thread.Proto Thread.Inv Thread.Preserve Thread.Full.
Import ListNotations.

Lemma pres_G : forall cf s g l s', handlers_locked cf = false ->
  Baton s -> Inv2 s -> step cf s (mkAct g l) = Some s' ->
  forall u h, mux (th s' u) = Some h <-> holds2 (pc s' h) h u = true.
Proof.
  intros cf s g l s' HL BA I2 H. pre H Pg HL BA I2.
  all: intros u h; pose proof (G u h) as Guh; pose proof (G u g) as Gug; pose proof (N u) as Nu; pose proof (N h) as Nh;
       match type of N with forall h, Proto.n ?s0 <= h -> _ => pose proof (N (Proto.n s0) (le_n _)) as [Nn1 Nn2] end;
       rewrite ?Pg in *; cbn [holds2] in *; simp.
  all: repeat match goal with H : pc _ _ = _ |- _ => rewrite H in * end; cbn [holds2] in *.
  all: try (destruct k); try (destruct (rel_after_send cf)); unfold after_recv;
       try (destruct m; try destruct (c =? 0) eqn:?); cbn [holds2] in *.
  all: ucase; simp; rewrite ?Pg in *; cbn [holds2 orb] in *;
       repeat match goal with H : pc _ _ = _ |- _ => rewrite H in * end; cbn [holds2 orb] in *;
       try tauto; try (intuition congruence).
  all: rewrite ?Nat.eqb_refl, ?orb_true_r in *; cbn [orb] in *;
       repeat match goal with H : context [match mux ?x with _ => _ end] |- _ => destruct (mux x) eqn:? end;
       ucase; unfold thNew in *; cbn [mux] in *; rewrite ?Nat.eqb_refl, ?orb_true_r in *; cbn [orb] in *;
       try (intuition congruence).
Qed.
