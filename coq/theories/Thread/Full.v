(* Thread/Full.v — groundwork for the full invariant (mutex table, caller links, per-pc assertions):
   the clauses proved preserved so far (bounds, main thread), and the auxiliary invariant that the
   repaired protocol never enters the handler-coroutine-operation pcs.  Not used by Properties/C09.v. *)
From Coq Require Import List Bool Arith Lia.
From GV Require Import Thread.Proto Thread.Inv Thread.Preserve.
Import ListNotations.

Record Inv2 (s : state) : Prop := mkInv2 {
  jN : forall h, n s <= h -> pc s h = NotCreated /\ mux (th s h) = None;
  jM : stt s 0 = OK /\ cal s 0 = None /\ 0 < n s;
  jG : forall u h, mux (th s u) = Some h <-> holds (pc s h) h u = true;
  jD : forall h, h <> 0 -> h < n s -> stt s h = OK -> linked s h;
  jP : forall h, ok_pc s h (pc s h) }.

Ltac ltb_hyps := repeat match goal with
  | H : (_ <? _) = true |- _ => apply Nat.ltb_lt in H
  | H : (_ <? _) = false |- _ => apply Nat.ltb_ge in H end.

Ltac unf := unfold stt, cal, clo, waitfor, tgt, held_by, is_free in *.

Definition at_X (p : pcT) : bool :=
  match p with X1 _ _ _ | X2 _ _ _ | X3 _ _ _ | XY1 _ _ => true | _ => false end.

Lemma noX_step : forall cf s a s', e5_coops cf = false ->
  (forall h, at_X (pc s h) = false) -> step cf s a = Some s' -> forall h, at_X (pc s' h) = false.
Proof.
  intros cf s [g l] s' EF N H h. step_cases H Pg; brk H.
  all: try (rewrite EF in *; cbn in *; discriminate).
  all: pose proof (N h) as Nh; pose proof (N g) as Ng; rewrite ?Pg in *; simp; ucase; rewrite ?Pg in *;
       repeat match goal with H : pc _ _ = _ |- _ => rewrite H in * end;
       try (destruct k); try (destruct (rel_after_send cf)); try (destruct m); try (destruct (c =? 0));
       cbn [at_X after_recv] in *; try congruence; auto.
  all: try (unfold after_recv; destruct (_ =? 0); reflexivity).
Qed.

Lemma noX_reachable : forall cf s, e5_coops cf = false -> reachable cf s ->
  forall h, at_X (pc s h) = false.
Proof.
  intros cf s EF R. revert s R. apply (reachable_ind' cf (fun s => forall h, at_X (pc s h) = false)).
  - intros h. unfold init; simpl. unfold upd. destruct (h =? 0); reflexivity.
  - intros s a s' _ N H. eapply noX_step; eauto.
Qed.

(* common preamble of the preservation lemmas *)
Ltac pre H Pg EF NX P :=
  step_cases H Pg; brk H;
  try (rewrite EF in *; cbn in *; discriminate);
  match type of Pg with pc _ ?g0 = _ =>
    try (let Q := fresh in pose proof (NX g0) as Q; rewrite Pg in Q; discriminate Q);
    let Pgg := fresh "Pgg" in
    pose proof (P g0) as Pgg; rewrite Pg in Pgg; cbn [ok_pc] in Pgg; unf; ltb_hyps end.

Lemma pres_N : forall cf s g l s', e5_coops cf = false -> (forall h, at_X (pc s h) = false) ->
  Baton s -> Inv2 s -> step cf s (mkAct g l) = Some s' ->
  forall h, n s' <= h -> pc s' h = NotCreated /\ mux (th s' h) = None.
Proof.
  intros cf s g l s' EF NX [A _] [N M G D P] H. pre H Pg EF NX P.
  all: intros h Hh; simp; pose proof (N h) as Nh; pose proof (N g) as Ng.
  all: ucase; simp; try (exfalso; lia); auto; try (apply Nh; lia).
  all: try solve [destruct Nh as [Nh1 Nh2]; [lia|]; split; auto; intuition congruence].
Qed.

Lemma pres_M : forall cf s g l s', e5_coops cf = false -> (forall h, at_X (pc s h) = false) ->
  Baton s -> Inv2 s -> step cf s (mkAct g l) = Some s' ->
  stt s' 0 = OK /\ cal s' 0 = None /\ 0 < n s'.
Proof.
  intros cf s g l s' EF NX [A _] [N M G D P] H. pre H Pg EF NX P.
  all: unf; simp; ucase; simp; try (intuition (try congruence; try lia)).
Qed.

(* pres_G (mutex table), pres_D (caller links), pres_P (per-pc assertions): NOT finished — see notes/C09.md. *)
