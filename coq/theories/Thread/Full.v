(* Thread/Full.v — the full invariant of the repaired hand-off protocol (configurations with
   [handlers_locked = false]): bounds, main thread, mutex table, caller links, handler phase,
   per-pc assertions.  It is preserved by every action; deadlock freedom follows. *)
From Coq Require Import List Bool Arith Lia.
From GV Require Import Thread.Proto Thread.Inv Thread.Preserve.
Import ListNotations.

Definition hcx (s : state) (h : nat) : option (nat * msg) := hctx (th s h).

(* mutexes held by goroutine g at pc p (repaired protocol) *)
Definition holds2 (p : pcT) (g u : nat) : bool :=
  match p with
  | R2 _ t _ | R3 _ t _ => u =? t
  | R4 _ t _ | R5 _ t _ => (u =? t) || (u =? g)
  | R6 _ _ _ => u =? g
  | Y2 _ | Y3 _ _ => u =? g
  | Y4 c _ | Y5 c _ => (u =? g) || (u =? c)
  | Y6 c _ => u =? c
  | E2 _ _ => u =? g
  | E3 c _ | E4 c _ | E6 c _ | E6r c _ | E7 c _ | E8 c | E9 c => (u =? g) || (u =? c)
  | E10 => u =? g
  | _ => false
  end.

Definition linked2 (s : state) (h : nat) : Prop :=
  match cal s h with
  | Some c => c <> h /\ (waitfor s c h \/ transit s c h)
  | None => False
  end.

Definition ok2 (s : state) (g : nat) (p : pcT) : Prop :=
  match p with
  | NotCreated => n s <= g
  | Panicked => False
  | MainDone => g = 0
  | Lua | Y1 _ | Y2 _ => stt s g = OK /\ clo s g = false
  | R1 _ t _ | R2 _ t _ => stt s g = OK /\ clo s g = false /\ t < n s
  | R3 _ t _ | R4 _ t _ => stt s g = OK /\ clo s g = false /\ stt s t = Suspended /\ tgt s g t
  | R5 _ t _ | R6 _ t _ | R7 _ t _ =>
      stt s g = OK /\ clo s g = false /\ stt s t = OK /\ cal s t = Some g /\ tgt s g t
  | R8 _ => stt s g = OK /\ clo s g = false
  | S0 | Y8 => g <> 0 /\ clo s g = false /\ hcx s g = None /\
      ((stt s g = Suspended /\ cal s g = None) \/
       (stt s g = OK /\ match cal s g with Some r => transit s r g | None => False end))
  | Y3 c _ | Y4 c _ => stt s g = OK /\ clo s g = false /\ cal s g = Some c /\ waitfor s c g /\ hcx s g = None
  | Y5 c _ | Y6 c _ | Y7 c _ =>
      stt s g = Suspended /\ clo s g = false /\ cal s g = None /\ waitfor s c g /\ g <> 0 /\ hcx s g = None
  | E0 _ => stt s g = OK /\ clo s g = false /\ g <> 0
  | E1 c _ | E2 c _ | E3 c _ =>
      stt s g = OK /\ clo s g = false /\ cal s g = None /\ waitfor s c g /\ g <> 0 /\ hcx s g <> None
  | E4 c _ => stt s g = OK /\ clo s g = true /\ cal s g = None /\ waitfor s c g /\ g <> 0 /\ hcx s g <> None
  | E6 c _ | E6r c _ | E7 c _ =>
      stt s g = Dead /\ clo s g = true /\ cal s g = None /\ waitfor s c g /\ hcx s g = None
  | E8 c | E9 c => stt s g = Dead /\ clo s g = true /\ cal s g = None /\ hcx s g = None /\ c <> g
  | E10 | Done => stt s g = Dead /\ clo s g = true /\ cal s g = None /\ hcx s g = None
  | E5 _ _ | X1 _ _ _ | X2 _ _ _ | X3 _ _ _ | XY1 _ _ => False
  end.

Record Inv2 (s : state) : Prop := mkInv2 {
  jN : forall h, n s <= h -> pc s h = NotCreated /\ mux (th s h) = None;
  jM : stt s 0 = OK /\ cal s 0 = None /\ 0 < n s /\ hcx s 0 = None;
  jG : forall u h, mux (th s u) = Some h <-> holds2 (pc s h) h u = true;
  jD : forall h, h <> 0 -> h < n s -> stt s h = OK -> hcx s h = None -> linked2 s h;
  jH : forall h c m, hcx s h = Some (c, m) ->
         h <> 0 /\ stt s h = OK /\ cal s h = None /\ waitfor s c h;
  jP : forall h, ok2 s h (pc s h) }.

Ltac ltb_hyps := repeat match goal with
  | H : (_ <? _) = true |- _ => apply Nat.ltb_lt in H
  | H : (_ <? _) = false |- _ => apply Nat.ltb_ge in H
  | H : _ && _ = true |- _ => apply andb_prop in H; destruct H
  | H : negb _ = true |- _ => apply negb_true_iff in H
  | H : negb _ = false |- _ => apply negb_false_iff in H end.

Ltac unf := unfold stt, cal, clo, hcx, waitfor, tgt, held_by, is_free, in_hterm in *.

Lemma inv2_init : Inv2 init.
Proof.
  constructor; unfold init, stt, cal, clo, hcx; simpl.
  - intros h Hh. rewrite upd_neq by lia. auto.
  - auto.
  - intros u h. unfold upd. destruct (Nat.eqb_spec h 0); simpl; split; discriminate.
  - intros h H1 H2. lia.
  - intros h c m Hc. discriminate.
  - intros h. unfold upd. destruct (Nat.eqb_spec h 0); simpl; unfold stt, clo; simpl; auto. lia.
Qed.

Lemma transit_active : forall s c h, transit s c h -> active (pc s c) = true.
Proof. unfold transit. intros s c h. destruct (pc s c); simpl; tauto. Qed.

(* an active thread that still has a caller: the caller is blocked in Resume/Close waiting for it,
   and the thread is not in the handler phase of end *)
Lemma caller_wait : forall s g c, Baton s -> Inv2 s -> g < n s -> stt s g = OK ->
  active (pc s g) = true -> cal s g = Some c -> waitfor s c g /\ hcx s g = None.
Proof.
  intros s g c [A _] I2 L SO AC CS.
  assert (HN : hcx s g = None).
  { destruct (hcx s g) as [[c0 m0]|] eqn:E; auto.
    destruct (jH _ I2 _ _ _ E) as (_ & _ & CN & _). congruence. }
  split; auto.
  assert (G0 : g <> 0) by (intro; subst; destruct (jM _ I2) as (_ & C0 & _); congruence).
  pose proof (jD _ I2 g G0 L SO HN) as LK. unfold linked2 in LK. rewrite CS in LK.
  destruct LK as [NE [W|T]]; auto.
  exfalso. apply NE. apply A; auto. eapply transit_active; eauto.
Qed.

(* common preamble of the preservation lemmas: case analysis, facts about the stepping goroutine and
   the threads its pc names, and refutation of every branch that ends in Panicked *)
Ltac destr_conj := repeat match goal with H : _ /\ _ |- _ => destruct H end.

Ltac enrich P :=
  destr_conj;
  repeat match goal with H : pc _ _ = _ \/ pc _ _ = _ |- _ => destruct H end;
  try match goal with Hw : pc ?s ?c = R8 _ |- _ =>
        let Q := fresh "Pc" in pose proof (P c) as Q; rewrite Hw in Q; cbn [ok2] in Q end;
  try match goal with Hw : pc ?s ?c = S0 |- _ =>
        let Q := fresh "Pt" in pose proof (P c) as Q; rewrite Hw in Q; cbn [ok2] in Q end;
  try match goal with Hw : pc ?s ?c = Y8 |- _ =>
        let Q := fresh "Pt" in pose proof (P c) as Q; rewrite Hw in Q; cbn [ok2] in Q end;
  unfold stt, cal, clo, hcx in *; destr_conj.

Ltac kill_unheld G Pg :=
  match goal with
  | Hb : match mux (th ?s ?u) with _ => _ end = false |- _ =>
      match type of Pg with pc s ?g0 = _ =>
        let Q := fresh in
        assert (Q : mux (th s u) = Some g0)
          by (apply (G u g0); rewrite Pg; cbn [holds2]; rewrite ?Nat.eqb_refl, ?orb_true_r; reflexivity);
        rewrite Q in Hb; rewrite Nat.eqb_refl in Hb; discriminate Hb end
  end.

Ltac kill_status :=
  repeat match goal with H : status _ = _ |- _ => rewrite H in * end;
  cbn [st_eqb negb andb] in *; discriminate.

Ltac refute_panic G D Pg :=
  match goal with
  | |- context [Panicked] =>
      try solve [exfalso; kill_unheld G Pg];
      try solve [exfalso; kill_status];
      try solve [exfalso; congruence];
      try solve [exfalso; match type of Pg with pc ?s ?g0 = E0 _ =>
                   let L := fresh in
                   assert (L : linked2 s g0) by (apply D; unfold stt, hcx; auto; congruence);
                   unfold linked2, cal in L;
                   match goal with Hc : caller (th s g0) = None |- _ => rewrite Hc in L; exact L end end]
  | _ => idtac
  end.

Ltac get_wait BA I2 Pg :=
  try match goal with
      | Hc : caller (th ?s ?g0) = Some ?c |- _ =>
          match type of Pg with pc s g0 = ?p =>
            let W := fresh "CW" in
            assert (W : waitfor s c g0 /\ hcx s g0 = None)
              by (apply caller_wait; auto; [unfold stt; tauto | rewrite Pg; reflexivity]);
            unfold waitfor, hcx in W end
      end.

Ltac pre H Pg HL BA I2 :=
  pose proof I2 as [N M G D Hc P]; pose proof BA as [A _];
  step_cases H Pg; brk H;
  try (rewrite HL in *; cbn in *; try discriminate);
  match type of Pg with pc _ ?g0 = _ =>
    let Pgg := fresh "Pgg" in
    pose proof (P g0) as Pgg; rewrite Pg in Pgg; cbn [ok2] in Pgg; try (exfalso; exact Pgg);
    unfold waitfor, tgt, held_by, is_free, in_hterm in *; ltb_hyps; get_wait BA I2 Pg; enrich P end;
  refute_panic G D Pg.

Lemma pres_N : forall cf s g l s', handlers_locked cf = false ->
  Baton s -> Inv2 s -> step cf s (mkAct g l) = Some s' ->
  forall h, n s' <= h -> pc s' h = NotCreated /\ mux (th s' h) = None.
Proof.
  intros cf s g l s' HL BA I2 H. pre H Pg HL BA I2.
  all: intros h Hh; simp; pose proof (N h) as Nh; pose proof (N g) as Ng.
  all: ucase; simp; try (exfalso; lia); auto; try (apply Nh; lia).
  all: try solve [destruct Nh as [Nh1 Nh2]; [lia|]; split; auto; intuition congruence].
Qed.

Lemma pres_M : forall cf s g l s', handlers_locked cf = false ->
  Baton s -> Inv2 s -> step cf s (mkAct g l) = Some s' ->
  stt s' 0 = OK /\ cal s' 0 = None /\ 0 < n s' /\ hcx s' 0 = None.
Proof.
  intros cf s g l s' HL BA I2 H. pre H Pg HL BA I2.
  all: pose proof (Hc g) as Hcg.
  all: unf; simp; ucase; simp; try (intuition (try congruence; try lia)).
  all: try (destruct (hctx (th s 0)) as [[? ?]|] eqn:E0; [destruct (Hcg _ _ eq_refl); congruence|congruence]).
Qed.

