(* Thread/SpecS.v — S: sequential semantics of Lua 5.4 coroutines for
   "coroutine scripts" (model (2) of DESIGN §6 C09).

   A script is ONE list of actions; the action at the head is executed by
   whichever coroutine is running at that moment (the main chunk when the
   stack is empty).  This is what lib/props/C09.py renders to Lua: every
   coroutine body and the main chunk srun the same interpreter loop over a
   shared action array.  The model is written from the manual (§2.6, §6.2):
   statuses suspended/running/normal/dead; resume/yield/wrap/close transfer
   exactly the values given; an error kills the coroutine and is delivered to
   the resumer (as [false, v] by resume, re-raised in the caller by wrap);
   close of a suspended coroutine runs its pending to-be-closed variable.

   No proofs in this file. *)
From Coq Require Import ZArith List Bool Arith.
Import ListNotations.

Inductive value :=
| VNil | VBool (b : bool) | VInt (z : Z)
| VMsg (c : nat)    (* error message class: 0 dead, 1 non-suspended, 2 yield outside coroutine,
                       3 close running, 4 close normal *)
| VTag (c : nat)    (* one-letter event tag, ASCII code *)
| VStat (k : nat).  (* 0 suspended 1 running 2 normal 3 dead *)

Inductive kind := KCreate | KWrap.
Inductive cstat := Susp0 | SuspY (k : nat) | Run | Norm | CDead (e : option value).

(* how the coroutine on top of the stack was entered: decides how its
   results/errors are delivered to the one below *)
Inductive how := HRes (k : nat) | HWrap (k : nat) | HPRes (k : nat) | HPWrap (k : nat).

Inductive act :=
| ACreate (i : nat) | AWrap (i : nat)
| AResume (i : nat) (vs : list value) | APResume (i : nat) (vs : list value)
| AYield (vs : list value) | AReturn (vs : list value) | AError (v : value)
| AClose (i : nat) | AStatus (i : nat) | AInfo.

Record co := mkCo { ck : kind; cs : cstat; started : bool }.

Record sst := mkSt {
  slots : list (option nat);       (* slot -> coroutine id *)
  cos   : list co;                 (* id -> coroutine (ids are allocation order, from 0) *)
  stack : list (nat * how);        (* running chain, top first; main is below the last *)
  evs   : list (list value);         (* emitted events, most recent first *)
  tbc   : nat    (* 0: no to-be-closed variable; 1: every body holds one whose handler records its call;
                    2: ... and then raises its own error; 3: only the handlers of odd-numbered coroutines raise *)
}.

Inductive outcome := Going (s : sst) | FinOk (s : sst) (vs : list value) | FinErr (s : sst) (v : value).

Definition tagR := 82. Definition tagW := 87. Definition tagP := 80. Definition tagY := 89.
Definition tagS := 83. Definition tagC := 67. Definition tagX := 88. Definition tagT := 84.
Definition tagI := 73.

Fixpoint set_nth {A} (l : list A) (i : nat) (v : A) : list A :=
  match l, i with
  | [], _ => []
  | _ :: r, O => v :: r
  | x :: r, S j => x :: set_nth r j v
  end.

Definition get_co (s : sst) (id : nat) : co := nth id (cos s) (mkCo KCreate (CDead None) false).
Definition set_cs (s : sst) (id : nat) (c : cstat) : sst :=
  let o := get_co s id in
  mkSt (slots s) (set_nth (cos s) id (mkCo (ck o) c (started o))) (stack s) (evs s) (tbc s).
Definition set_started (s : sst) (id : nat) : sst :=
  let o := get_co s id in
  mkSt (slots s) (set_nth (cos s) id (mkCo (ck o) (cs o) true)) (stack s) (evs s) (tbc s).
Definition emitev (s : sst) (e : list value) : sst :=
  mkSt (slots s) (cos s) (stack s) (e :: evs s) (tbc s).
Definition set_stack (s : sst) (k : list (nat * how)) : sst :=
  mkSt (slots s) (cos s) k (evs s) (tbc s).

Definition slot_of (s : sst) (i : nat) : option nat := nth i (slots s) None.

Definition new_co (s : sst) (i : nat) (k : kind) : sst :=
  let id := length (cos s) in
  mkSt (set_nth (slots s) i (Some id)) (cos s ++ [mkCo k Susp0 false]) (stack s) (evs s) (tbc s).

Definition has_tbc (s : sst) : bool := negb (tbc s =? 0).
Definition handler_fails (s : sst) (id : nat) : bool := (tbc s =? 2) || ((tbc s =? 3) && Nat.odd id).
Definition handler_err (id : nat) : value := VInt (Z.of_nat (2000 + id)).

(* the coroutine [id] dies with optional error [e]: a started body closes its tbc variable; the handler
   is called with [e], and if it raises its own error that error REPLACES [e].  Returns the error the
   coroutine finally died with: it is what the resumer/closer receives and what the dead coroutine keeps. *)
Definition die (s : sst) (id : nat) (e : option value) : sst * option value :=
  if has_tbc s && started (get_co s id)
  then let s1 := emitev s [VTag tagC; VInt (Z.of_nat id); match e with Some v => v | None => VNil end] in
       let e' := if handler_fails s id then Some (handler_err id) else e in
       (set_cs s1 id (CDead e'), e')
  else (set_cs s id (CDead e), e).

(* mark the new top of the stack (if any) running *)
Definition wake_top (s : sst) : sst :=
  match stack s with
  | (id, _) :: _ => set_cs s id Run
  | [] => s
  end.

Definition kv (k : nat) : value := VInt (Z.of_nat k).

Definition deliver_ok (h : how) (vs : list value) : list value :=
  match h with
  | HRes k => VTag tagR :: kv k :: VBool true :: vs
  | HWrap k => VTag tagW :: kv k :: vs
  | HPRes k => VTag tagP :: kv k :: VBool true :: VBool true :: vs
  | HPWrap k => VTag tagP :: kv k :: VBool true :: vs
  end.

(* Some event = the error is turned into results; None = it is re-raised in the resumer *)
Definition deliver_err (h : how) (v : value) : option (list value) :=
  match h with
  | HRes k => Some [VTag tagR; kv k; VBool false; v]
  | HWrap _ => None
  | HPRes k => Some [VTag tagP; kv k; VBool true; VBool false; v]
  | HPWrap k => Some [VTag tagP; kv k; VBool false; v]
  end.

(* error [v] raised in the running coroutine: structural on the stack *)
Fixpoint raise_in (stk : list (nat * how)) (s : sst) (v : value) : outcome :=
  match stk with
  | [] => FinErr (set_stack s []) v
  | (id, h) :: rest =>
    let (s0, e') := die s id (Some v) in
    let v' := match e' with Some w => w | None => v end in
    let s1 := wake_top (set_stack s0 rest) in
    match deliver_err h v' with
    | Some e => Going (emitev s1 e)
    | None => raise_in rest s1 v'
    end
  end.
Definition raise (s : sst) (v : value) : outcome := raise_in (stack s) s v.

Definition do_return (s : sst) (vs : list value) : outcome :=
  match stack s with
  | [] => FinOk s vs
  | (id, h) :: rest =>
    let (s0, e') := die s id None in
    let s1 := wake_top (set_stack s0 rest) in
    match e' with
    | None => Going (emitev s1 (deliver_ok h vs))
    | Some w =>            (* the handler failed while the body was returning: the coroutine dies with w *)
      match deliver_err h w with
      | Some e => Going (emitev s1 e)
      | None => raise_in rest s1 w
      end
    end
  end.

Definition do_yield (s : sst) (k : nat) (vs : list value) : outcome :=
  match stack s with
  | [] => raise s (VMsg 2)
  | (id, h) :: rest =>
    Going (emitev (wake_top (set_stack (set_cs s id (SuspY k)) rest)) (deliver_ok h vs))
  end.

Definition mk_how (prot : bool) (kd : kind) (k : nat) : how :=
  match prot, kd with
  | false, KCreate => HRes k | false, KWrap => HWrap k
  | true, KCreate => HPRes k | true, KWrap => HPWrap k
  end.

Definition enter (s : sst) (id : nat) (h : how) (e : list value) : sst :=
  let s1 := match stack s with (top, _) :: _ => set_cs s top Norm | [] => s end in
  let s2 := set_started (set_cs s1 id Run) id in
  emitev (set_stack s2 ((id, h) :: stack s)) e.

Definition fail_resume (s : sst) (h : how) (m : value) : outcome :=
  match deliver_err h m with
  | Some e => Going (emitev s e)
  | None => raise s m
  end.

Definition do_resume (s : sst) (k : nat) (prot : bool) (i : nat) (vs : list value) : outcome :=
  match slot_of s i with
  | None => Going s
  | Some id =>
    let o := get_co s id in
    let h := mk_how prot (ck o) k in
    match cs o with
    | Susp0 => Going (enter s id h (VTag tagS :: VInt (Z.of_nat id) :: vs))
    | SuspY ky => Going (enter s id h (VTag tagY :: kv ky :: vs))
    | Run | Norm => fail_resume s h (VMsg 1)
    | CDead _ => fail_resume s h (VMsg 0)
    end
  end.

Definition has_handle (o : co) : bool :=
  match ck o with KCreate => true | KWrap => started o end.

Definition do_close (s : sst) (k : nat) (i : nat) : outcome :=
  match slot_of s i with
  | None => Going s
  | Some id =>
    let o := get_co s id in
    if negb (has_handle o) then Going s else
    match cs o with
    | Susp0 | SuspY _ =>
        let (s0, e') := die s id None in
        match e' with
        | None => Going (emitev s0 [VTag tagX; kv k; VBool true; VBool true])
        | Some w => Going (emitev s0 [VTag tagX; kv k; VBool true; VBool false; w])
        end
    | Run => Going (emitev s [VTag tagX; kv k; VBool false; VMsg 3])
    | Norm => Going (emitev s [VTag tagX; kv k; VBool false; VMsg 4])
    | CDead None => Going (emitev s [VTag tagX; kv k; VBool true; VBool true])
    | CDead (Some v) => Going (emitev s [VTag tagX; kv k; VBool true; VBool false; v])
    end
  end.

Definition stat_code (c : cstat) : nat :=
  match c with Susp0 | SuspY _ => 0 | Run => 1 | Norm => 2 | CDead _ => 3 end.

Definition do_status (s : sst) (k : nat) (i : nat) : outcome :=
  match slot_of s i with
  | None => Going s
  | Some id =>
    let o := get_co s id in
    if negb (has_handle o) then Going s
    else Going (emitev s [VTag tagT; kv k; VStat (stat_code (cs o))])
  end.

Definition is_nil {A} (l : list A) : bool := match l with [] => true | _ => false end.

(* action number k (1-based position in the script) executed by the running coroutine *)
Definition step_act (s : sst) (k : nat) (a : act) : outcome :=
  match a with
  | ACreate i => Going (new_co s i KCreate)
  | AWrap i => Going (new_co s i KWrap)
  | AResume i vs => do_resume s k false i vs
  | APResume i vs => do_resume s k true i vs
  | AYield vs => do_yield s k vs
  | AReturn vs => do_return s vs
  | AError v => raise s v
  | AClose i => do_close s k i
  | AStatus i => do_status s k i
  | AInfo => Going (emitev s [VTag tagI; kv k; VBool (negb (is_nil (stack s))); VBool (is_nil (stack s))])
  end.

(* script exhausted: every interpreter loop returns no values, innermost first *)
Fixpoint unwind (fuel : nat) (s : sst) : outcome :=
  match fuel with
  | O => Going s
  | S f =>
    match do_return s [] with
    | Going s' => unwind f s'
    | r => r
    end
  end.

Fixpoint run_script (s : sst) (k : nat) (sc : list act) : outcome :=
  match sc with
  | [] => unwind (S (length (stack s))) s
  | a :: rest =>
    match step_act s k a with
    | Going s' => run_script s' (S k) rest
    | r => r
    end
  end.

Definition sinit (nslots : nat) (t : nat) : sst := mkSt (repeat None nslots) [] [] [] t.

Definition out_st (o : outcome) : sst :=
  match o with Going s | FinOk s _ | FinErr s _ => s end.

(* goroutines a faithful implementation may legitimately keep: one per coroutine not dead *)
Definition alive (s : sst) : nat :=
  length (filter (fun o => match cs o with CDead _ => false | _ => true end) (cos s)).

Definition srun (nslots : nat) (t : nat) (sc : list act) : outcome := run_script (sinit nslots t) 1 sc.
