(* Thread/FullH.v — preservation of the handler-phase clause of Thread/Full.v. *)
From Coq Require Import List Bool Arith Lia.
From GV Require Import Thread.Proto Thread.Inv Thread.Preserve Thread.Full.
Import ListNotations.

Lemma pres_H : forall cf s g l s', handlers_locked cf = false ->
  Baton s -> Inv2 s -> step cf s (mkAct g l) = Some s' ->
  forall h c0 m0, hcx s' h = Some (c0, m0) ->
    h <> 0 /\ stt s' h = OK /\ cal s' h = None /\ waitfor s' c0 h.
Proof.
  intros cf s g l s' HL BA I2 H. pre H Pg HL BA I2.
  all: intros hh cc mm Hh; pose proof (Hc hh cc mm) as Hch; pose proof (N hh) as Nh;
       match type of N with forall h, Proto.n ?s0 <= h -> _ => pose proof (N (Proto.n s0) (le_n _)) as [Nn1 Nn2] end;
       unfold stt, cal, clo, hcx, waitfor in *; simp.
  all: ucase; simp; unfold thNew in *; cbn [hctx status caller] in *; try discriminate;
       try (specialize (Hch Hh)); destr_conj;
       repeat match goal with H : pc _ _ = _ |- _ => rewrite H in * end;
       try solve [intuition (try congruence; try lia)].
Qed.
