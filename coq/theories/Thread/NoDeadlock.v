(* Thread/NoDeadlock.v — the full invariant holds in every reachable state of the repaired protocol
   (handlers_locked = false); nobody ever panics; some action is enabled unless main finished. *)
From Coq Require Import List Bool Arith Lia.
From GV Require Import Thread.Proto Thread.Inv Thread.Preserve Thread.Full Thread.FullG Thread.FullD
  Thread.FullH Thread.FullP Thread.Progress.
Import ListNotations.

Lemma inv2_step : forall cf s a s', handlers_locked cf = false ->
  Baton s -> Inv2 s -> step cf s a = Some s' -> Inv2 s'.
Proof.
  intros cf s [g l] s' HL BA I2 H. constructor.
  - eapply pres_N; eauto.
  - eapply pres_M; eauto.
  - eapply pres_G; eauto.
  - eapply pres_D; eauto.
  - eapply pres_H; eauto.
  - eapply pres_P; eauto.
Qed.

Lemma inv2_reachable : forall cf s, handlers_locked cf = false -> reachable cf s -> Baton s /\ Inv2 s.
Proof.
  intros cf s HL. revert s. apply reachable_ind'.
  - split. apply baton_init. apply inv2_init.
  - intros s a s' _ [BA I2] H. split. eapply baton_step; eauto. eapply inv2_step; eauto.
Qed.

(* no Go panic / fatal error is ever reached: every unlock is of a held mutex, every status check of
   Resume/Yield/end passes, no send on a closed channel, end always finds its caller *)
Theorem no_panic : forall cf s h, handlers_locked cf = false -> reachable cf s -> pc s h <> Panicked.
Proof.
  intros cf s h HL R. destruct (inv2_reachable _ _ HL R) as [_ I2].
  pose proof (jP _ I2 h) as P. intro E. rewrite E in P. exact P.
Qed.

(* NO DEADLOCK: in every reachable state of the repaired protocol some action is enabled, unless the
   main thread has finished. *)
Theorem no_deadlock : forall cf s, handlers_locked cf = false -> reachable cf s ->
  main_done s = false -> exists a s', step cf s a = Some s'.
Proof.
  intros cf s HL R MD. destruct (inv2_reachable _ _ HL R) as [BA I2].
  exact (progress cf s HL BA I2 MD).
Qed.

(* the facts the invariant gives about every reachable state, for the property file *)
Theorem mutex_table : forall cf s u h, handlers_locked cf = false -> reachable cf s ->
  (mux (th s u) = Some h <-> holds2 (pc s h) h u = true).
Proof. intros cf s u h HL R. destruct (inv2_reachable _ _ HL R) as [_ I2]. apply (jG _ I2). Qed.

(* at the status write of Resume/Close the target is still Suspended and blocked in its receive:
   the test made at R2 is stable (only a Suspended thread is ever made OK by a resumer) *)
Theorem resume_only_suspended : forall cf s g k t v, handlers_locked cf = false -> reachable cf s ->
  pc s g = R4 k t v -> status (th s t) = Suspended /\ waiting (pc s t) = true /\ t <> g.
Proof.
  intros cf s g k t v HL R Pg. destruct (inv2_reachable _ _ HL R) as [_ I2].
  pose proof (jP _ I2 g) as P. rewrite Pg in P. cbn [ok2] in P. unfold stt, tgt in P.
  destruct P as (_ & _ & ST & [E|E] & NE); rewrite E; auto.
Qed.
