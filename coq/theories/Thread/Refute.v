(* Thread/Refute.v — what the faithful model refutes, with concrete traces (vm_compute):
   - the order before fix eafa506 (ReleaseBytes after the hand-off) breaks the baton;
   - the code before the handler repair (handlers run inside the locked section of end) can deadlock:
     a __close handler run by end that resumes a coroutine. *)
From Coq Require Import List Bool Arith Lia.
From GV Require Import Thread.Proto Thread.Inv Thread.Preserve.
Import ListNotations.

Definition A (g : nat) (l : label) : action := mkAct g l.
Definition steps (g : nat) (cs : list nat) : list action := map (fun c => A g (LStep c)) cs.

(* main creates coroutine 1 and resumes it; it returns: end hands control back (E7) and THEN
   releases its stack accounting (E8) while main is already running Lua again *)
Definition race_trace : list action :=
  [A 0 LCreate; A 0 (LResume 1 0)] ++ steps 0 [1;2;3;4;5;6] ++ [A 0 LRdv; A 1 (LFinish (MVal 1))] ++
  steps 1 [20;21;22;23;24;25;26] ++ [A 1 LRdv].

Theorem baton_unique_old_order_refuted :
  exists s g h, reachable old_order s /\ g <> h /\
    accessing (pc s g) = true /\ accessing (pc s h) = true /\ active (pc s h) = false.
Proof.
  destruct (run old_order init race_trace) as [s|] eqn:E; [|vm_compute in E; discriminate E].
  exists s, 0, 1. split; [exists race_trace; exact E|].
  vm_compute in E. inversion E; subst; clear E. repeat split; try reflexivity. discriminate.
Qed.

(* the same trace is NOT a behaviour of the current protocol (the trace acceptor rejects it) ... *)
Example race_trace_rejected_now : accepts current race_trace = false.
Proof. vm_compute. reflexivity. Qed.
(* ... and the corresponding current trace (handler phase first, E6r ReleaseBytes = action 27 before the send) is accepted *)
Definition fixed_trace : list action :=
  [A 0 LCreate; A 0 (LResume 1 0)] ++ steps 0 [1;2;3;4;5;6] ++ [A 0 LRdv; A 1 (LFinish (MVal 1))] ++
  steps 1 [20] ++ [A 1 (LHDone (MVal 1))] ++ steps 1 [21;22;23;24;26;27] ++ [A 1 LRdv] ++ steps 1 [29;30].
Example fixed_trace_accepted : accepts current fixed_trace = true /\ accepts old_order fixed_trace = false.
Proof. vm_compute. auto. Qed.

(* ---- deadlock *)
Lemma can_step_complete : forall cf s a s', step cf s a = Some s' -> can_step cf s = true.
Proof.
  intros cf s [g l] s' H. pose proof H as H'. step_cases H Pg.
  all: try match type of H with match ?k0 with Res => _ | Cls => _ end = _ => destruct k0 end;
       try discriminate H;
       try match type of H with (if negb (?c =? ?k0) then _ else _) = _ =>
         destruct (Nat.eqb_spec c k0); cbn [negb] in H; [subst c|discriminate H] end.
  all: unfold can_step; apply existsb_exists; exists g; split; [apply in_seq; lia|];
       unfold enabled_g, offers; rewrite Pg; cbn [existsb].
  all: try (rewrite H'; rewrite ?orb_true_r; reflexivity).
  all: unfold step; cbn [who lab]; rewrite (proj2 (Nat.ltb_lt _ _) H0); cbn [negb]; rewrite Pg; unfold in_hterm;
       destruct (hctx (th s g)) as [[? hm]|]; [destruct hm|]; cbn;
       try destruct (caller (th s g)); try destruct (handlers_locked cf); cbn; rewrite ?orb_true_r; reflexivity.
Qed.

(* main creates 1 and 2, resumes 1, 1 yields; main closes 1: its goroutine runs end; the pending
   __close handler (E5) resumes coroutine 2: Resume locks 2.mux, sees Suspended, then locks the
   caller's mutex — 1.mux, which end itself holds.  Nobody can move; main waits for ever. *)
Definition deadlock_trace : list action :=
  [A 0 LCreate; A 0 LCreate; A 0 (LResume 1 0)] ++ steps 0 [1;2;3;4;5;6] ++ [A 0 LRdv; A 1 (LYield 0)] ++
  steps 1 [11;12;13;14;15;16] ++ [A 1 LRdv; A 0 (LClose 1)] ++ steps 0 [1;2;3;4;5;6] ++ [A 0 LRdv] ++
  steps 1 [20;21;22;23;24] ++ [A 1 (LHResume 2)] ++ steps 1 [41;42].

Definition dl_state : state :=
  match run old_handlers init deadlock_trace with Some s => s | None => init end.
Lemma dl_run : run old_handlers init deadlock_trace = Some dl_state.
Proof. vm_compute. reflexivity. Qed.

Theorem no_deadlock_old_handlers_refuted :
  exists s, reachable old_handlers s /\ main_done s = false /\ (forall h, pc s h <> Panicked) /\
    forall a, step old_handlers s a = None.
Proof.
  exists dl_state. split; [exists deadlock_trace; exact dl_run|].
  assert (C1 : can_step old_handlers dl_state = false) by (vm_compute; reflexivity).
  assert (C2 : main_done dl_state = false) by (vm_compute; reflexivity).
  assert (C3 : forall h, pc dl_state h = (if h =? 2 then S0 else if h =? 1 then X3 2 0 (MVal 0)
                                          else if h =? 0 then R8 1 else NotCreated)).
  { intros h. vm_compute. destruct h as [|[|[|h]]]; reflexivity. }
  repeat split; auto.
  - intros h. rewrite C3. destruct (h =? 2), (h =? 1), (h =? 0); discriminate.
  - intros a. destruct (step old_handlers dl_state a) eqn:S; auto. apply can_step_complete in S. congruence.
Qed.

(* On the repaired code the same Lua program is a plain behaviour: end runs the handler FIRST, as an
   ordinary running thread; the handler resumes coroutine 2, which runs to completion and hands
   control back to thread 1; thread 1 then finishes end and hands control back to main. *)
Definition end2 (g : nat) (m : msg) : list action :=
  steps g [20] ++ [A g (LHDone m)] ++ steps g [21;22;23;24;26;27] ++ [A g LRdv] ++ steps g [29;30].
Definition handler_resume_trace : list action :=
  [A 0 LCreate; A 0 LCreate; A 0 (LResume 1 0)] ++ steps 0 [1;2;3;4;5;6] ++ [A 0 LRdv; A 1 (LYield 0)] ++
  steps 1 [11;12;13;14;15;16] ++ [A 1 LRdv; A 0 (LClose 1)] ++ steps 0 [1;2;3;4;5;6] ++ [A 0 LRdv] ++
  steps 1 [20] ++ [A 1 (LResume 2 0)] ++ steps 1 [1;2;3;4;5;6] ++ [A 1 LRdv; A 2 (LFinish (MVal 0))] ++
  end2 2 (MVal 0) ++ [A 1 (LHDone (MVal 0))] ++ steps 1 [21;22;23;24;26;27] ++ [A 1 LRdv] ++ steps 1 [29;30] ++
  [A 0 (LFinish (MVal 0))].
Example handler_resume_accepted :
  accepts current handler_resume_trace = true /\ accepts current deadlock_trace = false.
Proof. vm_compute. auto. Qed.
