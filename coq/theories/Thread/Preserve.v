(* Thread/Preserve.v — invariants of the hand-off protocol (Thread/Proto.v) that are
   inductive on their own, and the theorems that follow from them:
   the baton (exactly one active goroutine), race freedom of the modelled accesses,
   Dead => the goroutine is in the final section of end, legal status transitions,
   exact delivery of messages.  All for every reachable state of the interleaving
   semantics, any number of threads, every configuration unless stated. *)
From Coq Require Import List Bool Arith Lia.
From GV Require Import Thread.Proto Thread.Inv.
Import ListNotations.

Ltac inv_some H := match type of H with Some _ = Some _ => inversion H; clear H; subst | _ => idtac end.

(* one goal per enabled (pc, action) pair *)
Ltac step_cases H Pg :=
  unfold step in H; cbn [who lab] in H;
  match type of H with (if negb (?g <? ?k) then _ else _) = _ =>
    destruct (Nat.ltb_spec g k); cbn [negb] in H; [|discriminate H] end;
  match type of H with context [pc ?s ?g] => destruct (pc s g) eqn:Pg end;
  try discriminate H;
  try match type of H with context [match ?l with LCreate => _ | _ => _ end] => destruct l end;
  try discriminate H;
  try match type of H with (if negb (?c =? ?k) then _ else _) = _ =>
    destruct (Nat.eqb_spec c k); cbn [negb] in H; [subst c|discriminate H] end.

Ltac brk H :=
  unfold lock, unlock in H;
  repeat (match type of H with
          | match ?x with _ => _ end = Some _ => destruct x eqn:?; try discriminate H
          end);
  inv_some H.

Ltac simp := cbn [pc th n setpc setth set_mux set_sc set_closed set_cerr status caller mux closed closeErr] in *.
Ltac ucase := unfold upd in *; repeat match goal with
   | |- context [?a =? ?b] => destruct (Nat.eqb_spec a b); subst
   | H : context [?a =? ?b] |- _ => destruct (Nat.eqb_spec a b); subst end.

(* ---------------------------------------------------------------- the baton *)
Definition Baton (s : state) : Prop :=
  (forall g h, active (pc s g) = true -> active (pc s h) = true -> g = h) /\
  (exists g, active (pc s g) = true).

Lemma after_recv_active : forall c m, active (after_recv c m) = true.
Proof. intros. unfold after_recv. destruct m; auto. destruct (c =? 0); auto. Qed.

Lemma baton_step : forall cf s a s', Baton s -> step cf s a = Some s' -> Baton s'.
Proof.
  intros cf s [g l] s' [A [a0 B]] H. step_cases H Pg; brk H.
  all: pose proof (A a0 g B) as Ea; rewrite Pg in Ea; cbn [active waiting tail negb andb] in Ea.
  all: split;
    [ intros x y; pose proof (A x y) as Axy; pose proof (A x g) as Axg; pose proof (A y g) as Ayg;
      pose proof (A g x) as Agx; pose proof (A g y) as Agy;
      rewrite ?Pg in *; simp; ucase; rewrite ?Pg in *;
      repeat match goal with H : pc _ _ = _ |- _ => rewrite H in * end;
      cbn [active waiting tail negb andb] in *;
      rewrite ?after_recv_active in *;
      try (destruct k); try (destruct (rel_after_send cf)); cbn [active waiting tail negb andb] in *;
      intros; try congruence; try (exfalso; lia); auto;
      try (specialize (Axg eq_refl); congruence); try (specialize (Ayg eq_refl); congruence)
    | ].
  all: try solve [exists g; simp; rewrite upd_eq; try (destruct (g =? 0)); reflexivity].
  all: try solve [exists g; simp; unfold upd; rewrite ?Nat.eqb_refl;
                  repeat match goal with |- context [?a =? ?b] => destruct (Nat.eqb_spec a b) end; try lia; reflexivity].
  all: try solve [exists a0; simp; rewrite upd_neq; [exact B | intro; subst; rewrite Pg in B; discriminate B]].
  all: try solve [exists a0; rewrite Pg in B; exact B].
  all: try solve [match goal with |- context [upd (upd _ g _) ?r _] =>
                  exists r; simp; rewrite upd_eq; try (destruct k); try apply after_recv_active; reflexivity end].
Qed.
