(* Thread/Preserve.v — invariants of the hand-off protocol (Thread/Proto.v) that are
   inductive on their own, and the theorems that follow from them:
   the baton (exactly one active goroutine), race freedom of the modelled accesses,
   Dead => the goroutine is in the final section of end, legal status transitions,
   exact delivery of messages.  All for every reachable state of the interleaving
   semantics, any number of threads, every configuration unless stated. *)
From Coq Require Import List Bool Arith Lia.
From GV Require Import Thread.Proto Thread.Inv.
Import ListNotations.

Ltac inv_some H := match type of H with Some _ = Some _ => inversion H; clear H; subst | _ => idtac end.

(* one goal per enabled (pc, action) pair *)
Ltac step_cases H Pg :=
  unfold step in H; cbn [who lab] in H;
  match type of H with (if negb (?g <? ?k) then _ else _) = _ =>
    destruct (Nat.ltb_spec g k); cbn [negb] in H; [|discriminate H] end;
  match type of H with context [pc ?s ?g] => destruct (pc s g) eqn:Pg end;
  try discriminate H;
  try match type of H with context [match ?l with LCreate => _ | _ => _ end] => destruct l end;
  try discriminate H;
  try match type of H with (if negb (?c =? ?k) then _ else _) = _ =>
    destruct (Nat.eqb_spec c k); cbn [negb] in H; [subst c|discriminate H] end.

Ltac brk H :=
  unfold lock, unlock in H;
  repeat (match type of H with
          | match ?x with _ => _ end = Some _ => destruct x eqn:?; try discriminate H
          end);
  inv_some H.

Ltac simp := cbn [pc th n setpc setth set_mux set_sc set_closed set_cerr set_h clr_h status caller mux closed closeErr hctx] in *.
Ltac ucase := unfold upd in *; repeat match goal with
   | |- context [?a =? ?b] => destruct (Nat.eqb_spec a b); subst
   | H : context [?a =? ?b] |- _ => destruct (Nat.eqb_spec a b); subst end.

(* ---------------------------------------------------------------- the baton *)
Definition Baton (s : state) : Prop :=
  (forall g h, active (pc s g) = true -> active (pc s h) = true -> g = h) /\
  (exists g, active (pc s g) = true \/ pc s g = Panicked).

Lemma after_recv_active : forall c m, active (after_recv c m) = true.
Proof. intros. unfold after_recv. destruct m; auto. destruct (c =? 0); auto. Qed.

Lemma baton_step : forall cf s a s', Baton s -> step cf s a = Some s' -> Baton s'.
Proof.
  intros cf s [g l] s' [A [a0 B]] H. step_cases H Pg; brk H.
  all: split;
    [ intros x y; pose proof (A x y) as Axy; pose proof (A x g) as Axg; pose proof (A y g) as Ayg;
      pose proof (A g x) as Agx; pose proof (A g y) as Agy;
      rewrite ?Pg in *; simp; ucase; rewrite ?Pg in *;
      repeat match goal with H : pc _ _ = _ |- _ => rewrite H in * end;
      cbn [active waiting tail negb andb] in *;
      rewrite ?after_recv_active in *;
      try (destruct k); try (destruct (rel_after_send cf)); cbn [active waiting tail negb andb] in *;
      intros; try congruence; try (exfalso; lia); auto;
      try (specialize (Axg eq_refl); congruence); try (specialize (Ayg eq_refl); congruence)
    | ].
  (* existence *)
  all: try solve [exists g; right; simp; apply upd_eq].
  all: try solve [exists g; left; simp; ucase; try (exfalso; lia); rewrite ?Pg; try destruct (rel_after_send _);
                  try destruct (handlers_locked _); try reflexivity; try apply after_recv_active].
  all: try solve [match goal with Hp : pc _ ?r = _ |- _ =>
                  exists r; left; simp; rewrite upd_eq; try (destruct k); try apply after_recv_active; reflexivity end].
  all: try solve [exists a0; simp; ucase; try exact B; destruct B as [B|B]; rewrite Pg in B; discriminate B].
Qed.

Lemma baton_init : Baton init.
Proof.
  split.
  - intros g h. unfold init; simpl. unfold upd.
    destruct (Nat.eqb_spec g 0), (Nat.eqb_spec h 0); simpl; congruence.
  - exists 0. left. reflexivity.
Qed.

Lemma baton_reachable : forall cf s, reachable cf s -> Baton s.
Proof.
  intros cf. apply reachable_ind'. apply baton_init.
  intros s a s' _ B H. eapply baton_step; eauto.
Qed.

(* ---- no goroutine is ever at E8 (ReleaseBytes after the hand-off) unless the old order is configured *)
Definition at_E8 (p : pcT) : bool := match p with E8 _ => true | _ => false end.

Lemma noE8_step : forall cf s a s', rel_after_send cf = false ->
  (forall h, at_E8 (pc s h) = false) -> step cf s a = Some s' -> forall h, at_E8 (pc s' h) = false.
Proof.
  intros cf s [g l] s' RF N H h. step_cases H Pg; brk H.
  all: pose proof (N h) as Nh; pose proof (N g) as Ng; rewrite ?Pg in *; simp; ucase; rewrite ?Pg in *;
       repeat match goal with H : pc _ _ = _ |- _ => rewrite H in * end;
       try rewrite RF in *; try (destruct k); try (destruct m); try (destruct (c =? 0)); try (destruct (handlers_locked cf));
       cbn [at_E8 after_recv] in *; try congruence; auto.
  all: try (unfold after_recv; destruct (c =? 0); reflexivity).
  all: try (unfold after_recv; destruct (h =? 0); reflexivity).
Qed.

Lemma noE8_reachable : forall cf s, rel_after_send cf = false -> reachable cf s ->
  forall h, at_E8 (pc s h) = false.
Proof.
  intros cf s RF R. revert s R. apply (reachable_ind' cf (fun s => forall h, at_E8 (pc s h) = false)).
  - intros h. unfold init; simpl. unfold upd. destruct (h =? 0); reflexivity.
  - intros s a s' _ N H. eapply noE8_step; eauto.
Qed.

Lemma accessing_active : forall p, accessing p = true -> active p = true \/ at_E8 p = true.
Proof. destruct p; simpl; auto; discriminate. Qed.

(* BATON: in every reachable state at most one goroutine is active, and (unless the process died)
   one is; every goroutine whose next action touches shared runtime state is that one. *)
Theorem baton_unique : forall cf s, rel_after_send cf = false -> reachable cf s ->
  (forall g h, active (pc s g) = true -> active (pc s h) = true -> g = h) /\
  (exists g, active (pc s g) = true \/ pc s g = Panicked) /\
  (forall g h, accessing (pc s g) = true -> accessing (pc s h) = true -> g = h) /\
  (forall g, accessing (pc s g) = true -> active (pc s g) = true).
Proof.
  intros cf s RF R. destruct (baton_reachable _ _ R) as [A B].
  pose proof (noE8_reachable _ _ RF R) as N.
  assert (AA : forall g, accessing (pc s g) = true -> active (pc s g) = true).
  { intros g Hg. destruct (accessing_active _ Hg) as [|E]; auto. rewrite N in E. discriminate. }
  repeat split; auto.
Qed.

(* ---- Dead => the goroutine is in the final section of end (after the status write) *)
Definition in_end (p : pcT) : bool :=
  match p with
  | E5 _ _ | E6 _ _ | E6r _ _ | E7 _ _ | E8 _ | E9 _ | E10 | Done
  | X1 _ _ _ | X2 _ _ _ | X3 _ _ _ | XY1 _ _ | Panicked => true
  | _ => false
  end.

Definition DeadEnd (s : state) : Prop :=
  (forall h, status (th s h) = Dead -> in_end (pc s h) = true).

Lemma deadend_step : forall cf s a s', DeadEnd s -> step cf s a = Some s' -> DeadEnd s'.
Proof.
  intros cf s [g l] s' D H h. step_cases H Pg; brk H.
  all: pose proof (D h) as Dh; pose proof (D g) as Dg; rewrite ?Pg in *; simp; ucase; rewrite ?Pg in *;
       simp; cbn [in_end] in *; try congruence; auto.
  all: try (intros; try destruct (rel_after_send cf); try destruct (handlers_locked cf); reflexivity).
  all: repeat match goal with H : pc _ _ = _ |- _ => rewrite H in * end; cbn [in_end] in *;
       intros Hd; try (specialize (Dh Hd)); try congruence; auto.
  all: try (cbn in Hd; discriminate Hd).
Qed.

Lemma deadend_reachable : forall cf s, reachable cf s -> DeadEnd s.
Proof.
  intros cf. apply reachable_ind'.
  - intros h. unfold init; simpl. discriminate.
  - intros s a s' _ D H. eapply deadend_step; eauto.
Qed.

(* NO GOROUTINE LEFT: a dead coroutine's goroutine has passed the status write of end: it is running
   the remaining straight-line section of end (handlers, bookkeeping, the hand-off send, the deferred
   unlocks) or has terminated; it never again waits for a resume. *)
Theorem no_goroutine_left : forall cf s h, reachable cf s -> status (th s h) = Dead ->
  in_end (pc s h) = true /\ waiting (pc s h) = false.
Proof.
  intros cf s h R Hd. pose proof (deadend_reachable _ _ R h Hd) as E. split; auto.
  destruct (pc s h); simpl in *; congruence.
Qed.

(* ---- legal status transitions, one step *)
Theorem status_table : forall cf s a s' t, step cf s a = Some s' ->
  status (th s' t) = status (th s t) \/
  (exists k v, pc s (who a) = R4 k t v /\ status (th s' t) = OK) \/
  (exists c v, pc s (who a) = Y4 c v /\ t = who a /\ status (th s' t) = Suspended) \/
  (exists c m, pc s (who a) = E4 c m /\ t = who a /\ status (th s' t) = Dead) \/
  (pc s (who a) = Lua /\ t = n s /\ n s' = S (n s) /\ status (th s' t) = Suspended).
Proof.
  intros cf s [g l] s' t H. cbn [who]. step_cases H Pg; brk H; simp; ucase; simp; eauto 8.
  all: try (right; right; right; right; solve [auto]).
  right; right; right; left; eauto.
Qed.



(* only a Suspended thread can be resumed or closed: the status test of Resume/Close (R2) sends
   every other case back to Lua with an error and changes no status, caller or channel *)
Theorem resume_guard : forall cf s g l s' k t v, pc s g = R2 k t v -> step cf s (mkAct g l) = Some s' ->
  (status (th s t) = Suspended /\ pc s' g = R3 k t v /\ th s' = th s) \/
  (status (th s t) <> Suspended /\ (pc s' g = Lua \/ pc s' g = Panicked) /\
   forall h, status (th s' h) = status (th s h) /\ caller (th s' h) = caller (th s h) /\
             closed (th s' h) = closed (th s h)).
Proof.
  intros cf s g l s' k t v P H. step_cases H Pg; brk H; try congruence.
  all: inversion P; subst; simp.
  - left. destruct (status (th s t)); try discriminate. rewrite upd_eq. auto.
  - right. split; [destruct (status (th s t)); try discriminate; congruence|].
    rewrite upd_eq. split; auto. intros h. ucase; simp; auto.
  - right. split; [destruct (status (th s t)); try discriminate; congruence|].
    rewrite upd_eq. split; auto.
Qed.

(* EXACT TRANSFER: a rendezvous moves the sender's message, unchanged, to exactly the thread the
   operation names — the target of Resume/Close, the recorded caller for Yield/end — and to nobody else:
   the receiver leaves its receive, every other goroutine keeps its pc; the kind of continuation is
   determined by the message (values/error -> Lua continues; termination -> forwarded; close -> end). *)
Definition sends_to (p : pcT) : option (nat * msg + nat) :=
  match p with
  | R7 Res t v => Some (inl (t, MVal v))
  | R7 Cls t _ => Some (inr t)
  | Y7 c v => Some (inl (c, MVal v))
  | E7 c m => Some (inl (c, m))
  | _ => None
  end.

Theorem values_transferred_exactly : forall cf s g s', step cf s (mkAct g LRdv) = Some s' ->
  pc s' g <> Panicked ->
  exists r, (sends_to (pc s g) = Some (inr r) \/ exists m, sends_to (pc s g) = Some (inl (r, m))) /\
    r <> g /\ waiting (pc s r) = true /\ waiting (pc s' r) = false /\
    (forall m, sends_to (pc s g) = Some (inl (r, m)) ->
       pc s' r = match m with MTerm => after_recv r MTerm | _ => Lua end) /\
    (sends_to (pc s g) = Some (inr r) -> pc s' r = E0 (MVal 0)) /\
    (forall h, h <> g -> h <> r -> pc s' h = pc s h) /\ th s' = th s.
Proof.
  intros cf s g s' H NP. step_cases H Pg; brk H; simp; try (rewrite upd_eq in NP; congruence).
  all: match goal with Pg : pc ?s0 ?g0 = _, Hp : pc ?s0 ?r = _ |- _ =>
         tryif constr_eq r g0 then fail else
         (exists r;
          assert (RG : forall r p, pc s0 r = p -> waiting p = true -> waiting (pc s0 g0) = false -> r <> g0)
            by (intros r0 p0 E1 E2 E3 E4; subst; congruence)) end.
  all: repeat split; rewrite ?Pg; cbn [sends_to]; eauto.
  all: try (eapply RG; eauto; rewrite Pg; reflexivity).
  all: try (repeat match goal with H : pc _ _ = _ |- _ => rewrite H end; reflexivity).
  all: try (rewrite upd_eq; try destruct k; try destruct m; try reflexivity; unfold after_recv; try destruct (_ =? 0); reflexivity).
  all: try (intros; rewrite !upd_neq by auto; reflexivity).
  all: try (destruct k; cbn [sends_to]; eauto).
  all: try (intros m0 E; destruct k; inversion E; subst; rewrite upd_eq; reflexivity).
  all: try (intros E; destruct k; inversion E; subst; rewrite upd_eq; reflexivity).
  all: try (intros m0 E; inversion E; subst; rewrite upd_eq; try destruct m0; reflexivity).
  all: try discriminate.
  all: intros _; apply upd_eq.
Qed.
