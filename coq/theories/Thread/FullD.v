(* Thread/FullD.v — preservation of the caller-link clause of Thread/Full.v. *)
From Coq Require Import List Bool Arith Lia.
From GV Require Import Thread.Proto Thread.Inv Thread.Preserve Thread.Full.
Import ListNotations.

Lemma pres_D : forall cf s g l s', handlers_locked cf = false ->
  Baton s -> Inv2 s -> step cf s (mkAct g l) = Some s' ->
  forall h, h <> 0 -> h < n s' -> stt s' h = OK -> hcx s' h = None -> linked2 s' h.
Proof.
  intros cf s g l s' HL BA I2 H. pre H Pg HL BA I2.
  all: intros hh J1 J2 J3 J4; pose proof (D hh J1) as Dh; pose proof (N hh) as Nh; pose proof (Hc hh) as Hch;
       match type of N with forall h, Proto.n ?s0 <= h -> _ => pose proof (N (Proto.n s0) (le_n _)) as [Nn1 Nn2] end;
       unfold linked2, transit, waitfor in *; unfold stt, cal, clo, hcx in *; simp.
  all: ucase; simp; unfold thNew in *; cbn [hctx status caller] in *; try discriminate; try (exfalso; lia);
       try (assert (JL : hh < Proto.n s) by lia; specialize (Dh JL)).
  all: try match goal with |- context [match caller (th ?s0 ?x) with _ => _ end] =>
             destruct (caller (th s0 x)) eqn:? end;
       ucase; simp;
       repeat match goal with H : pc _ _ = _ |- _ => rewrite H in * end;
       cbv beta iota in *;
       try solve [intuition (try congruence; try lia)].
Qed.
