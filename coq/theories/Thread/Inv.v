(* Thread/Inv.v — proofs about the hand-off protocol model Thread/Proto.v. *)
From Coq Require Import List Bool Arith Lia.
From GV Require Import Thread.Proto.
Import ListNotations.

Definition reachable (cf : cfg) (s : state) : Prop := exists tr, run cf init tr = Some s.

Lemma run_app : forall cf tr1 tr2 s, run cf s (tr1 ++ tr2) =
  match run cf s tr1 with Some s' => run cf s' tr2 | None => None end.
Proof. induction tr1; simpl; intros; auto. destruct (step cf s a); auto. Qed.

Lemma reachable_ind' (cf : cfg) (P : state -> Prop) :
  P init -> (forall s a s', reachable cf s -> P s -> step cf s a = Some s' -> P s') ->
  forall s, reachable cf s -> P s.
Proof.
  intros H0 Hs s [tr Htr]. revert s Htr. induction tr using rev_ind; intros s Htr.
  - simpl in Htr. inversion Htr. subst. exact H0.
  - rewrite run_app in Htr. destruct (run cf init tr) as [s1|] eqn:E; [|discriminate].
    simpl in Htr. destruct (step cf s1 x) as [s2|] eqn:E2; [|discriminate]. inversion Htr; subst.
    eapply Hs; [exists tr; exact E | apply IHtr; reflexivity | exact E2].
Qed.
