(* Thread/Inv.v — the inductive invariant of the hand-off protocol model
   Thread/Proto.v and its preservation by every action, for every
   configuration [cf] (current code, old order, repaired). *)
From Coq Require Import List Bool Arith Lia.
From GV Require Import Thread.Proto.
Import ListNotations.

Definition reachable (cf : cfg) (s : state) : Prop := exists tr, run cf init tr = Some s.

Lemma run_app : forall cf tr1 tr2 s, run cf s (tr1 ++ tr2) =
  match run cf s tr1 with Some s' => run cf s' tr2 | None => None end.
Proof. induction tr1; simpl; intros; auto. destruct (step cf s a); auto. Qed.

Lemma reachable_ind' (cf : cfg) (P : state -> Prop) :
  P init -> (forall s a s', reachable cf s -> P s -> step cf s a = Some s' -> P s') ->
  forall s, reachable cf s -> P s.
Proof.
  intros H0 Hs s [tr Htr]. revert s Htr. induction tr using rev_ind; intros s Htr.
  - simpl in Htr. inversion Htr. subst. exact H0.
  - rewrite run_app in Htr. destruct (run cf init tr) as [s1|] eqn:E; [|discriminate].
    simpl in Htr. destruct (step cf s1 x) as [s2|] eqn:E2; [|discriminate]. inversion Htr; subst.
    eapply Hs; [exists tr; exact E | apply IHtr; reflexivity | exact E2].
Qed.

(* ---- abbreviations *)
Definition stt (s : state) (h : nat) : st := status (th s h).
Definition cal (s : state) (h : nat) : option nat := caller (th s h).
Definition clo (s : state) (h : nat) : bool := closed (th s h).

(* the mutexes a goroutine g at pc p holds *)
Definition holds (p : pcT) (g u : nat) : bool :=
  match p with
  | R2 _ t _ | R3 _ t _ => u =? t
  | R4 _ t _ | R5 _ t _ => (u =? t) || (u =? g)
  | R6 _ _ _ => u =? g
  | Y2 _ | Y3 _ _ => u =? g
  | Y4 c _ | Y5 c _ => (u =? g) || (u =? c)
  | Y6 c _ => u =? c
  | E2 _ _ => u =? g
  | E3 c _ | E4 c _ | E5 c _ | E6 c _ | E6r c _ | E7 c _ | E8 c | E9 c => (u =? g) || (u =? c)
  | E10 => u =? g
  | X1 _ c _ | XY1 c _ => (u =? g) || (u =? c)
  | X2 t c _ | X3 t c _ => (u =? g) || (u =? c) || (u =? t)
  | _ => false
  end.

(* c is blocked in Resume/Close waiting for the thread g it handed control to *)
Definition waitfor (s : state) (c g : nat) : Prop := pc s c = R8 g /\ stt s c = OK /\ c <> g.
(* t is blocked in its receive and is not g *)
Definition tgt (s : state) (g t : nat) : Prop := (pc s t = S0 \/ pc s t = Y8) /\ t <> g.
(* c has flipped h to OK and is about to send to it *)
Definition transit (s : state) (c h : nat) : Prop :=
  match pc s c with R5 _ t _ | R6 _ t _ | R7 _ t _ => t = h | _ => False end.

Definition linked (s : state) (h : nat) : Prop :=
  match cal s h with
  | Some c => c <> h /\ (waitfor s c h \/ transit s c h)
  | None => False
  end.

Definition ok_pc (s : state) (g : nat) (p : pcT) : Prop :=
  match p with
  | NotCreated => n s <= g
  | Panicked => False
  | MainDone => g = 0
  | Lua | Y1 _ | Y2 _ => stt s g = OK /\ clo s g = false
  | R1 _ t _ | R2 _ t _ => stt s g = OK /\ clo s g = false /\ t < n s
  | R3 _ t _ | R4 _ t _ => stt s g = OK /\ clo s g = false /\ stt s t = Suspended /\ tgt s g t
  | R5 _ t _ | R6 _ t _ | R7 _ t _ =>
      stt s g = OK /\ clo s g = false /\ stt s t = OK /\ cal s t = Some g /\ tgt s g t
  | R8 _ => stt s g = OK /\ clo s g = false
  | S0 | Y8 => g <> 0 /\ clo s g = false /\
      ((stt s g = Suspended /\ cal s g = None) \/
       (stt s g = OK /\ match cal s g with Some r => transit s r g | None => False end))
  | Y3 c _ | Y4 c _ => stt s g = OK /\ clo s g = false /\ cal s g = Some c /\ waitfor s c g
  | Y5 c _ | Y6 c _ | Y7 c _ =>
      stt s g = Suspended /\ clo s g = false /\ cal s g = None /\ waitfor s c g /\ g <> 0
  | E0 _ => stt s g = OK /\ clo s g = false /\ g <> 0
  | E1 c _ | E2 c _ | E3 c _ => stt s g = OK /\ clo s g = false /\ cal s g = Some c /\ waitfor s c g
  | E4 c _ => stt s g = OK /\ clo s g = true /\ cal s g = Some c /\ waitfor s c g
  | E5 c _ | E6 c _ | E6r c _ | E7 c _ | X1 _ c _ | X2 _ c _ | X3 _ c _ | XY1 c _ =>
      stt s g = Dead /\ clo s g = true /\ cal s g = None /\ waitfor s c g
  | E8 _ | E9 _ | E10 | Done => stt s g = Dead /\ clo s g = true /\ cal s g = None
  end.

Record Inv (s : state) : Prop := mkInv {
  iN : forall h, n s <= h -> pc s h = NotCreated /\ mux (th s h) = None;
  iM : stt s 0 = OK /\ cal s 0 = None /\ 0 < n s;
  iA : forall g h, active (pc s g) = true -> active (pc s h) = true -> g = h;
  iB : exists g, active (pc s g) = true \/ pc s g = Panicked;
  iG : forall u h, mux (th s u) = Some h <-> holds (pc s h) h u = true;
  iD : forall h, h <> 0 -> h < n s -> stt s h = OK -> linked s h;
  iP : forall h, ok_pc s h (pc s h) }.

Lemma upd_eq : forall A (f : nat -> A) i v, upd f i v i = v.
Proof. intros. unfold upd. now rewrite Nat.eqb_refl. Qed.
Lemma upd_neq : forall A (f : nat -> A) i j v, j <> i -> upd f i v j = f j.
Proof. intros. unfold upd. destruct (Nat.eqb_spec j i); congruence. Qed.

Lemma inv_init : Inv init.
Proof.
  constructor; unfold init, stt, cal, clo; simpl.
  - intros h Hh. rewrite upd_neq by lia. auto.
  - auto.
  - intros g h. unfold upd. destruct (Nat.eqb_spec g 0), (Nat.eqb_spec h 0); simpl; congruence.
  - exists 0. left. reflexivity.
  - intros u h. unfold upd. destruct (Nat.eqb_spec h 0); simpl; split; discriminate.
  - intros h H1 H2. lia.
  - intros h. unfold upd. destruct (Nat.eqb_spec h 0); simpl; unfold stt, clo; simpl; auto. lia.
Qed.
