(* Thread/SpecSProofs.v — facts about the sequential coroutine semantics S (Thread/SpecS.v) concerning the
   state a DEAD coroutine keeps: the error it finally died with (after its to-be-closed handler ran, whose
   own error replaces the body's) is the one delivered to the resumer/closer and the one every later
   coroutine.close reports; closing a dead coroutine changes nothing (idempotent). *)
From Coq Require Import ZArith List Bool Arith Lia.
From GV Require Import Thread.SpecS.
Import ListNotations.

Lemma nth_set_nth_eq : forall A (l : list A) i v d, i < length l -> nth i (set_nth l i v) d = v.
Proof. induction l; destruct i; simpl; intros; try lia; auto. apply IHl. lia. Qed.

Lemma get_set_cs : forall s id c, id < length (cos s) -> cs (get_co (set_cs s id c) id) = c.
Proof. intros. unfold get_co, set_cs. simpl. rewrite nth_set_nth_eq; auto. Qed.

Lemma cos_emitev : forall s e, cos (emitev s e) = cos s.
Proof. reflexivity. Qed.

(* the error returned by [die] (what is delivered) is the error the dead coroutine keeps *)
Theorem die_keeps_delivered_error : forall s id e s' e', id < length (cos s) ->
  die s id e = (s', e') -> cs (get_co s' id) = CDead e'.
Proof.
  intros s id e s' e' L H. unfold die in H.
  destruct (has_tbc s && started (get_co s id)); inversion H; subst; apply get_set_cs; auto.
Qed.

(* a failing handler's error replaces whatever the body died with; a succeeding one (or none) keeps it *)
Theorem die_final_error : forall s id e,
  snd (die s id e) =
  if has_tbc s && started (get_co s id) && handler_fails s id then Some (handler_err id) else e.
Proof.
  intros. unfold die. destruct (has_tbc s && started (get_co s id)); simpl; auto.
Qed.

(* closing a dead coroutine reports exactly the kept error and changes nothing but the trace *)
Theorem close_dead_reports_kept_error : forall s k i id e,
  slot_of s i = Some id -> has_handle (get_co s id) = true -> cs (get_co s id) = CDead e ->
  do_close s k i =
  Going (emitev s (match e with
                   | None => [VTag tagX; kv k; VBool true; VBool true]
                   | Some v => [VTag tagX; kv k; VBool true; VBool false; v]
                   end)).
Proof.
  intros s k i id e SL HH CD. unfold do_close. rewrite SL, HH. simpl. rewrite CD. destruct e; reflexivity.
Qed.

(* ... hence idempotent: a second close of the same dead coroutine gives the same answer *)
Theorem close_dead_idempotent : forall s k1 k2 i id e s1,
  slot_of s i = Some id -> has_handle (get_co s id) = true -> cs (get_co s id) = CDead e ->
  do_close s k1 i = Going s1 ->
  slot_of s1 i = Some id /\ has_handle (get_co s1 id) = true /\ cs (get_co s1 id) = CDead e /\
  exists ev, do_close s1 k2 i = Going (emitev s1 ev) /\
             tl (tl ev) = tl (tl (hd [] (evs s1))).
Proof.
  intros s k1 k2 i id e s1 SL HH CD H.
  rewrite (close_dead_reports_kept_error s k1 i id e SL HH CD) in H. inversion H; subst; clear H.
  repeat split; auto.
  eexists. split. apply (close_dead_reports_kept_error _ k2 i id e); auto.
  destruct e; reflexivity.
Qed.

(* a dead coroutine is never resumed again: resume (and a call of its wrap function) fails with the
   "dead" error class and leaves every coroutine as it was *)
Theorem resume_dead_fails : forall s k prot i id e vs,
  slot_of s i = Some id -> cs (get_co s id) = CDead e ->
  do_resume s k prot i vs = fail_resume s (mk_how prot (ck (get_co s id)) k) (VMsg 0).
Proof. intros. unfold do_resume. rewrite H. rewrite H0. reflexivity. Qed.

(* non-vacuity: body fails with 1003, handler fails with 2000: resume and both closes report 2000 *)
Example dead_state_example :
  match srun 3 2 [ACreate 0; AResume 0 []; AError (VInt 1003); AClose 0; AClose 0] with
  | FinOk s _ => map (fun e => tl (tl e)) (rev (evs s)) =
      [ [];                                   (* S: body started *)
        [VInt 1003];                          (* C: handler called with the body's error, then fails *)
        [VBool false; VInt 2000];             (* R: resume delivers the handler's error *)
        [VBool true; VBool false; VInt 2000]; (* X: close reports it *)
        [VBool true; VBool false; VInt 2000] ]
  | _ => False
  end.
Proof. vm_compute. reflexivity. Qed.
